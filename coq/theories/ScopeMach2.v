(* C06 - stage 1 of compile_scope_correct: the machine over the cell-store backend bk_c seen at the level of
   CELLS (ScopeDefs2: CLof = cells of the live slots, HLof = captured cells in handle order, cv = cell values,
   cn = next fresh cell), WITH captured cells.
   Part 1: the effect of every store operation (Cells.sstep) on (CLof, HLof, cellv, cnext) and on the
           discipline flag (sdisc_ok), and preservation of the well-formedness swf2.
   Part 2: the same for the machine `cmach` (SOK2), then one lemma per instruction for MS2. *)
From Coq Require Import List Arith Bool String ZArith NArith Lia.
From YV Require Import Show Upvalues Cells ScopeLang ScopeComp ScopeSim ScopeDefs2.
Import ListNotations. Import Gen. Open Scope nat_scope.

(* ------------------------------------------------------------------------------------------ *)
(* list helpers *)

Lemma firstn_seq_le : forall b s n, b <= n -> firstn b (seq s n) = seq s b.
Proof.
  induction b as [|b IH]; intros s n H; [reflexivity|].
  destruct n as [|n]; [lia|]. cbn. f_equal. apply IH. lia.
Qed.

Lemma NoDup_snoc : forall (l : list nat) c, NoDup l -> ~ In c l -> NoDup (l ++ [c])%list.
Proof.
  induction l as [|a l IH]; intros c Hn Hc; cbn.
  - constructor; [intros []|constructor].
  - inversion Hn as [|? ? Ha Hl]; subst. constructor.
    + intro Hin. apply in_app_or in Hin. destruct Hin as [Hin|[Hin|[]]]; [auto|]. subst. apply Hc. now left.
    + apply IH; [exact Hl|]. intro Hin. apply Hc. now right.
Qed.

Lemma NoDup_snoc_inv : forall (l : list nat) c, NoDup (l ++ [c])%list -> NoDup l /\ ~ In c l.
Proof. intros l c H. apply NoDup_remove in H. rewrite app_nil_r in H. exact H. Qed.

Lemma In_firstn : forall (l : list nat) b c, In c (firstn b l) -> In c l.
Proof.
  induction l as [|a l IH]; intros [|b] c H; cbn in *; try contradiction.
  destruct H as [H|H]; [now left|right; eapply IH; eauto].
Qed.

Lemma NoDup_firstn : forall (l : list nat) b, NoDup l -> NoDup (firstn b l).
Proof.
  induction l as [|a l IH]; intros [|b] H; cbn; try constructor.
  - inversion H; subst. intro Hin. apply In_firstn in Hin. contradiction.
  - inversion H; subst. now apply IH.
Qed.

Lemma firstn_snoc_len : forall (l : list nat) c, firstn (List.length l) (l ++ [c])%list = l.
Proof. intros l c. rewrite firstn_app, Nat.sub_diag, firstn_all. cbn. apply app_nil_r. Qed.

(* ------------------------------------------------------------------------------------------ *)
(* index_of, find_handle *)

Lemma index_of_some : forall c l k, index_of c l = Some k -> k < List.length l /\ nth k l 0 = c.
Proof.
  intros c. induction l as [|a l IH]; intros k H; cbn in H; [discriminate|].
  destruct (Nat.eqb_spec a c) as [->|Hne].
  - injection H as <-. cbn. split; [lia|reflexivity].
  - destruct (index_of c l) as [k'|] eqn:E; [|discriminate]. injection H as <-.
    destruct (IH k' eq_refl) as [H1 H2]. cbn. split; [lia|exact H2].
Qed.

Lemma index_of_none : forall c l, index_of c l = None <-> ~ In c l.
Proof.
  intros c. induction l as [|a l IH]; cbn.
  - split; [intros _ []|reflexivity].
  - destruct (Nat.eqb_spec a c) as [->|Hne].
    + split; [discriminate|intro H; exfalso; apply H; now left].
    + destruct (index_of c l) as [k'|] eqn:E.
      * split; [discriminate|]. intro H. exfalso. apply H. right.
        destruct (index_of_some _ _ _ E) as [H1 H2]. rewrite <- H2. now apply nth_In.
      * split; [|reflexivity]. intros _ [H|H]; [contradiction|]. exact (proj1 IH eq_refl H).
Qed.

Lemma index_of_app1 : forall c l l' k, index_of c l = Some k -> index_of c (l ++ l')%list = Some k.
Proof.
  intros c. induction l as [|a l IH]; intros l' k H; cbn in *; [discriminate|].
  destruct (a =? c); [exact H|].
  destruct (index_of c l) as [k'|] eqn:E; [|discriminate]. now rewrite (IH l' k' eq_refl).
Qed.

Lemma find_handle_some : forall h n c k, find_handle h n c = Some k -> k < n /\ h k = c.
Proof.
  intros h. induction n as [|n IH]; intros c k H; cbn in H; [discriminate|].
  destruct (Nat.eqb_spec (h n) c) as [E|E].
  - injection H as <-. split; [lia|exact E].
  - destruct (IH _ _ H) as [H1 H2]. split; [lia|exact H2].
Qed.

Lemma find_handle_none : forall h n c, find_handle h n c = None -> forall k, k < n -> h k <> c.
Proof.
  intros h. induction n as [|n IH]; intros c H k Hk; [lia|]. cbn in H.
  destruct (Nat.eqb_spec (h n) c) as [E|E]; [discriminate|].
  destruct (Nat.eq_dec k n) as [->|Hne]; [exact E|]. apply IH; [exact H|lia].
Qed.

(* ------------------------------------------------------------------------------------------ *)
(* Part 1: the store.  CLof / HLof as lists *)

Lemma CLof_length : forall u, List.length (CLof u) = slen_of u.
Proof. intros u. unfold CLof. now rewrite map_length, seq_length. Qed.

Lemma nth_CLof : forall u i, i < slen_of u -> nth i (CLof u) 0 = scells (csfib u) i.
Proof.
  intros u i H. unfold CLof.
  rewrite nth_indep with (d' := scells (csfib u) 0) by (now rewrite map_length, seq_length).
  rewrite map_nth. now rewrite seq_nth.
Qed.

Lemma HLof_length : forall u, List.length (HLof u) = hnext u.
Proof. intros u. unfold HLof. now rewrite map_length, seq_length. Qed.

Lemma nth_HLof : forall u k, k < hnext u -> nth k (HLof u) 0 = handles u k.
Proof.
  intros u k H. unfold HLof.
  rewrite nth_indep with (d' := handles u 0) by (now rewrite map_length, seq_length).
  rewrite map_nth. now rewrite seq_nth.
Qed.

Lemma In_HLof : forall u c, In c (HLof u) <-> exists k, k < hnext u /\ handles u k = c.
Proof.
  intros u c. unfold HLof. rewrite in_map_iff. split.
  - intros (k & A & B). apply in_seq in B. exists k. split; [lia|exact A].
  - intros (k & A & B). exists k. split; [exact B|]. apply in_seq. lia.
Qed.

(* the discipline test of bk_c reads the handle table: a cell is "captured" iff it is in HL *)
Lemma cell_captured_iff : forall u c, cell_captured u c = true <-> In c (HLof u).
Proof.
  intros u c. unfold cell_captured. rewrite In_HLof.
  destruct (find_handle (handles u) (hnext u) c) as [k|] eqn:E.
  - apply find_handle_some in E. split; [intros _; exists k; exact E|reflexivity].
  - split; [discriminate|]. intros (k & Hk & Hc). exfalso. exact (find_handle_none _ _ _ E k Hk Hc).
Qed.

Lemma cell_captured_false : forall u c, cell_captured u c = false <-> ~ In c (HLof u).
Proof.
  intros u c. rewrite <- cell_captured_iff. destruct (cell_captured u c); split; intros H; congruence.
Qed.

(* find_handle scans from hnext-1 down, index_of from 0 up: with NoDup the index is unique *)
Lemma find_handle_index_of : forall u c, NoDup (HLof u) ->
  find_handle (handles u) (hnext u) c = index_of c (HLof u).
Proof.
  intros u c Hnd.
  destruct (find_handle (handles u) (hnext u) c) as [k|] eqn:E;
    destruct (index_of c (HLof u)) as [k'|] eqn:E'; auto.
  - apply find_handle_some in E. apply index_of_some in E'. destruct E as [E1 E2], E' as [E3 E4].
    f_equal. rewrite HLof_length in E3.
    apply (proj1 (NoDup_nth (HLof u) 0) Hnd); rewrite ?HLof_length; auto.
    rewrite E4, nth_HLof by exact E1. exact E2.
  - apply find_handle_some in E. apply index_of_none in E'. exfalso. apply E'. apply In_HLof. exists k. exact E.
  - apply index_of_some in E'. destruct E' as [E3 E4]. rewrite HLof_length in E3. exfalso.
    apply (find_handle_none _ _ _ E k' E3). rewrite <- nth_HLof by exact E3. exact E4.
Qed.

(* well-formedness of the store (the store part of SOK2) *)
Record swf2 (u : cstore) : Prop := mkSwf2 {
  w2_cl_lt : forall c, In c (CLof u) -> c < cnext u;
  w2_cl_nd : NoDup (CLof u);
  w2_hl_lt : forall c, In c (HLof u) -> c < cnext u;
  w2_hl_nd : NoDup (HLof u)
}.

Lemma csfib_upd : forall (u : cstore) fb (cv' : nat -> mval) cn' hs hn,
  csfib (mkS (upd (sfibs u) (scur u) fb) (scur u) cv' cn' hs hn) = fb.
Proof. intros. unfold csfib. cbn. apply upd_same. Qed.

(* ---- Push ---- *)
Lemma sstep2_push : forall u v, swf2 u ->
  exists u', sstep u (Push v) = (u', ONone) /\
    CLof u' = (CLof u ++ [cnext u])%list /\ HLof u' = HLof u /\
    cellv u' = upd (cellv u) (cnext u) v /\ cnext u' = S (cnext u) /\ scur u' = scur u /\ swf2 u' /\
    sdisc_ok u (Push v) = true.
Proof.
  intros u v W.
  set (fb := csfib u).
  set (u' := mkS (upd (sfibs u) (scur u) (mkSF (upd (scells fb) (sslen fb) (cnext u)) (S (sslen fb))))
                 (scur u) (upd (cellv u) (cnext u) v) (S (cnext u)) (handles u) (hnext u)).
  exists u'. split; [reflexivity|].
  assert (Hfib : csfib u' = mkSF (upd (scells fb) (sslen fb) (cnext u)) (S (sslen fb))) by apply csfib_upd.
  assert (HCL : CLof u' = (CLof u ++ [cnext u])%list).
  { unfold CLof, slen_of. rewrite Hfib. cbn [scells sslen]. fold fb.
    rewrite seq_S, map_app. cbn [map Nat.add]. rewrite upd_same. f_equal.
    apply map_ext_in. intros i Hi. apply in_seq in Hi. apply upd_other. lia. }
  assert (HHL : HLof u' = HLof u) by reflexivity.
  split; [exact HCL|]. split; [exact HHL|]. repeat (split; [reflexivity|]). split; [|reflexivity].
  constructor.
  - intros c Hc. rewrite HCL in Hc. apply in_app_or in Hc. cbn [cnext u'].
    destruct Hc as [Hc|[Hc|[]]]; [pose proof (w2_cl_lt _ W c Hc); lia|lia].
  - rewrite HCL. apply NoDup_snoc; [exact (w2_cl_nd _ W)|].
    intro Hc. pose proof (w2_cl_lt _ W _ Hc). lia.
  - intros c Hc. rewrite HHL in Hc. pose proof (w2_hl_lt _ W c Hc). cbn [cnext u']. lia.
  - rewrite HHL. exact (w2_hl_nd _ W).
Qed.

(* ---- dropping slots: Pop / CloseTop / ReturnFrame / Truncate all set the length ---- *)
Lemma trunc_store : forall u n, swf2 u -> n <= slen_of u ->
  let u' := set_sfib u (mkSF (scells (csfib u)) n) in
  CLof u' = firstn n (CLof u) /\ HLof u' = HLof u /\ cellv u' = cellv u /\ cnext u' = cnext u /\
  scur u' = scur u /\ swf2 u'.
Proof.
  intros u n W Hn u'.
  assert (Hfib : csfib u' = mkSF (scells (csfib u)) n) by apply csfib_upd.
  assert (HCL : CLof u' = firstn n (CLof u)).
  { unfold CLof at 1. unfold slen_of. rewrite Hfib. cbn [scells sslen].
    unfold CLof. rewrite firstn_map, firstn_seq_le by exact Hn. reflexivity. }
  assert (HHL : HLof u' = HLof u) by reflexivity.
  split; [exact HCL|]. split; [exact HHL|]. repeat (split; [reflexivity|]).
  constructor.
  - intros c Hc. rewrite HCL in Hc. apply In_firstn in Hc. exact (w2_cl_lt _ W c Hc).
  - rewrite HCL. apply NoDup_firstn. exact (w2_cl_nd _ W).
  - intros c Hc. rewrite HHL in Hc. exact (w2_hl_lt _ W c Hc).
  - rewrite HHL. exact (w2_hl_nd _ W).
Qed.

Lemma removelast_firstn1 : forall (l : list nat), removelast l = firstn (List.length l - 1) l.
Proof. intros l. rewrite removelast_firstn_len. now rewrite Nat.sub_1_r. Qed.

Lemma sstep2_pop : forall u, swf2 u -> slen_of u <> 0 ->
  exists u', sstep u Pop = (u', ONone) /\
    CLof u' = removelast (CLof u) /\ HLof u' = HLof u /\
    cellv u' = cellv u /\ cnext u' = cnext u /\ scur u' = scur u /\ swf2 u'.
Proof.
  intros u W Hne. unfold slen_of in Hne.
  assert (E : sstep u Pop = (set_sfib u (mkSF (scells (csfib u)) (sslen (csfib u) - 1)), ONone)).
  { unfold sstep. cbv zeta. apply Nat.eqb_neq in Hne. now rewrite Hne. }
  eexists. split; [exact E|].
  rewrite removelast_firstn1, CLof_length. apply trunc_store; [exact W|unfold slen_of; lia].
Qed.

Lemma last_CLof : forall u, slen_of u <> 0 -> last (CLof u) 0 = scells (csfib u) (slen_of u - 1).
Proof.
  intros u H. unfold CLof. destruct (slen_of u) as [|k]; [congruence|].
  rewrite seq_S, map_app. cbn [map Nat.add]. rewrite last_last. f_equal. lia.
Qed.

(* the flag: Pop keeps the discipline iff the slot dropped does not hold a captured cell (or nothing to drop) *)
Lemma sdisc_pop : forall u, sdisc_ok u Pop = true <-> (~ In (last (CLof u) 0) (HLof u) \/ slen_of u = 0).
Proof.
  intros u. unfold sdisc_ok. rewrite orb_true_iff, negb_true_iff, Nat.eqb_eq, cell_captured_false.
  fold (slen_of u). destruct (Nat.eq_dec (slen_of u) 0) as [E|E].
  - split; intros _; right; exact E.
  - rewrite (last_CLof u E). reflexivity.
Qed.

Lemma sstep2_closetop : forall u, swf2 u -> slen_of u <> 0 ->
  exists u', sstep u CloseTop = (u', ONone) /\
    CLof u' = removelast (CLof u) /\ HLof u' = HLof u /\
    cellv u' = cellv u /\ cnext u' = cnext u /\ scur u' = scur u /\ swf2 u' /\ sdisc_ok u CloseTop = true.
Proof.
  intros u W Hne. unfold slen_of in Hne.
  assert (E : sstep u CloseTop = (set_sfib u (mkSF (scells (csfib u)) (sslen (csfib u) - 1)), ONone)).
  { unfold sstep. cbv zeta. apply Nat.eqb_neq in Hne. now rewrite Hne. }
  eexists. split; [exact E|].
  rewrite removelast_firstn1, CLof_length.
  destruct (trunc_store u (sslen (csfib u) - 1) W) as (A & B & C & D & F & G); [unfold slen_of; lia|].
  repeat (split; [assumption|]). reflexivity.
Qed.

Lemma sstep2_retframe : forall u b, swf2 u -> b <= slen_of u ->
  exists u', sstep u (ReturnFrame b) = (u', ONone) /\
    CLof u' = firstn b (CLof u) /\ HLof u' = HLof u /\
    cellv u' = cellv u /\ cnext u' = cnext u /\ scur u' = scur u /\ swf2 u' /\ sdisc_ok u (ReturnFrame b) = true.
Proof.
  intros u b W Hb.
  assert (E : sstep u (ReturnFrame b) = (set_sfib u (mkSF (scells (csfib u)) b), ONone)).
  { unfold sstep. cbv zeta. unfold slen_of in Hb. apply Nat.leb_le in Hb. now rewrite Hb. }
  eexists. split; [exact E|].
  destruct (trunc_store u b W Hb) as (A & B & C & D & F & G).
  repeat (split; [assumption|]). reflexivity.
Qed.

(* ---- GetSlot ---- *)
Lemma sstep2_get : forall u i, i < slen_of u ->
  sstep u (GetSlot i) = (u, OVal (cellv u (nth i (CLof u) 0))).
Proof.
  intros u i H. unfold sstep. cbv zeta. rewrite (nth_CLof u i H). unfold slen_of in H.
  apply Nat.ltb_lt in H. now rewrite H.
Qed.

Lemma swf2_set_cell : forall u c v, swf2 u -> swf2 (Cells.set_cell u c v).
Proof. intros u c v [A B C D]. constructor; assumption. Qed.

(* ---- SetSlot ---- *)
Lemma sstep2_set : forall u i v, swf2 u -> i < slen_of u ->
  exists u', sstep u (SetSlot i v) = (u', ONone) /\
    CLof u' = CLof u /\ HLof u' = HLof u /\
    cellv u' = upd (cellv u) (nth i (CLof u) 0) v /\ cnext u' = cnext u /\ scur u' = scur u /\ swf2 u' /\
    sdisc_ok u (SetSlot i v) = true.
Proof.
  intros u i v W H.
  assert (E : sstep u (SetSlot i v) = (Cells.set_cell u (scells (csfib u) i) v, ONone)).
  { unfold sstep. cbv zeta. unfold slen_of in H. apply Nat.ltb_lt in H. now rewrite H. }
  eexists. split; [exact E|]. rewrite (nth_CLof u i H).
  repeat (split; [reflexivity|]). split; [|reflexivity]. now apply swf2_set_cell.
Qed.

(* ---- Capture ---- *)
Lemma sstep2_capture : forall u i, swf2 u -> i < slen_of u ->
  match index_of (nth i (CLof u) 0) (HLof u) with
  | Some h => sstep u (Capture i) = (u, OId h) /\ h < List.length (HLof u)
  | None =>
      exists u', sstep u (Capture i) = (u', OId (List.length (HLof u))) /\
        CLof u' = CLof u /\ HLof u' = (HLof u ++ [nth i (CLof u) 0])%list /\
        cellv u' = cellv u /\ cnext u' = cnext u /\ scur u' = scur u /\ swf2 u'
  end.
Proof.
  intros u i W H. rewrite (nth_CLof u i H).
  assert (E : sstep u (Capture i) =
              match find_handle (handles u) (hnext u) (scells (csfib u) i) with
              | Some h => (u, OId h)
              | None => (mkS (sfibs u) (scur u) (cellv u) (cnext u)
                             (upd (handles u) (hnext u) (scells (csfib u) i)) (S (hnext u)), OId (hnext u))
              end).
  { unfold sstep. cbv zeta. unfold slen_of in H. apply Nat.ltb_lt in H. now rewrite H. }
  rewrite (find_handle_index_of u _ (w2_hl_nd _ W)) in E.
  destruct (index_of (scells (csfib u) i) (HLof u)) as [h|] eqn:Ei.
  - split; [exact E|]. exact (proj1 (index_of_some _ _ _ Ei)).
  - eexists. split; [rewrite HLof_length; exact E|].
    set (c := scells (csfib u) i) in *.
    set (u' := mkS (sfibs u) (scur u) (cellv u) (cnext u) (upd (handles u) (hnext u) c) (S (hnext u))).
    assert (HHL : HLof u' = (HLof u ++ [c])%list).
    { unfold HLof. cbn [handles hnext u']. rewrite seq_S, map_app. cbn [map Nat.add]. rewrite upd_same. f_equal.
      apply map_ext_in. intros k Hk. apply in_seq in Hk. apply upd_other. lia. }
    assert (HCL : CLof u' = CLof u) by reflexivity.
    split; [exact HCL|]. split; [exact HHL|]. repeat (split; [reflexivity|]).
    assert (Hin : In c (CLof u)).
    { unfold c. rewrite <- (nth_CLof u i H). apply nth_In. now rewrite CLof_length. }
    constructor.
    + intros x Hx. rewrite HCL in Hx. exact (w2_cl_lt _ W x Hx).
    + rewrite HCL. exact (w2_cl_nd _ W).
    + intros x Hx. rewrite HHL in Hx. apply in_app_or in Hx. cbn [cnext u'].
      destruct Hx as [Hx|[Hx|[]]]; [exact (w2_hl_lt _ W x Hx)|subst x; exact (w2_cl_lt _ W c Hin)].
    + rewrite HHL. apply NoDup_snoc; [exact (w2_hl_nd _ W)|]. now apply index_of_none.
Qed.

(* ---- ReadUp / WriteUp ---- *)
Lemma sstep2_readup : forall u h, h < List.length (HLof u) ->
  sstep u (ReadUp h) = (u, OVal (cellv u (nth h (HLof u) 0))).
Proof.
  intros u h H. rewrite HLof_length in H. unfold sstep. cbv zeta. rewrite (nth_HLof u h H).
  apply Nat.ltb_lt in H. now rewrite H.
Qed.

Lemma sstep2_writeup : forall u h v, swf2 u -> h < List.length (HLof u) ->
  exists u', sstep u (WriteUp h v) = (u', ONone) /\
    CLof u' = CLof u /\ HLof u' = HLof u /\
    cellv u' = upd (cellv u) (nth h (HLof u) 0) v /\ cnext u' = cnext u /\ scur u' = scur u /\ swf2 u' /\
    sdisc_ok u (WriteUp h v) = true.
Proof.
  intros u h v W H. rewrite HLof_length in H.
  assert (E : sstep u (WriteUp h v) = (Cells.set_cell u (handles u h) v, ONone)).
  { unfold sstep. cbv zeta. apply Nat.ltb_lt in H. now rewrite H. }
  eexists. split; [exact E|]. rewrite (nth_HLof u h H).
  repeat (split; [reflexivity|]). split; [|reflexivity]. now apply swf2_set_cell.
Qed.

(* ------------------------------------------------------------------------------------------ *)
(* capture_cells: closure_impl at the level of the handle list *)

Lemma capture_cells_spec : forall cs HL HL' U', NoDup HL -> capture_cells HL cs = (HL', U') ->
  NoDup HL' /\ (exists ext, HL' = (HL ++ ext)%list) /\ List.length U' = List.length cs /\
  (forall j, j < List.length cs -> nth (nth j U' 0) HL' 0 = nth j cs 0 /\ nth j U' 0 < List.length HL') /\
  (forall c, In c HL' -> In c HL \/ In c cs).
Proof.
  induction cs as [|c r IH]; intros HL HL' U' Hnd H; cbn in H.
  - injection H as <- <-. split; [exact Hnd|]. split; [exists []; now rewrite app_nil_r|]. split; [reflexivity|].
    split; [intros j Hj; cbn in Hj; lia|]. intros c Hc. now left.
  - destruct (index_of c HL) as [h|] eqn:Ei.
    + destruct (capture_cells HL r) as [HL1 ix] eqn:Ec. injection H as <- <-.
      destruct (IH HL HL1 ix Hnd Ec) as (A & (ext & B) & C & D & E).
      destruct (index_of_some _ _ _ Ei) as [Hh Hn].
      split; [exact A|]. split; [exists ext; exact B|]. split; [cbn; now rewrite C|].
      split.
      * intros [|j] Hj; cbn [nth].
        -- subst HL1. rewrite app_nth1 by exact Hh. split; [exact Hn|]. rewrite app_length. lia.
        -- apply D. cbn in Hj. lia.
      * intros x Hx. destruct (E x Hx) as [Hx'|Hx']; [now left|right; now right].
    + destruct (capture_cells (HL ++ [c]) r) as [HL1 ix] eqn:Ec. injection H as <- <-.
      assert (Hnd' : NoDup (HL ++ [c])%list) by (apply NoDup_snoc; [exact Hnd|now apply index_of_none]).
      destruct (IH _ HL1 ix Hnd' Ec) as (A & (ext & B) & C & D & E).
      split; [exact A|]. split; [exists (c :: ext); rewrite B, <- app_assoc; reflexivity|].
      split; [cbn; now rewrite C|].
      split.
      * intros [|j] Hj; cbn [nth].
        -- subst HL1. rewrite <- app_assoc. rewrite app_nth2 by lia. rewrite Nat.sub_diag. cbn.
           split; [reflexivity|]. rewrite !app_length. cbn. lia.
        -- apply D. cbn in Hj. lia.
      * intros x Hx. destruct (E x Hx) as [Hx'|Hx'].
        -- apply in_app_or in Hx'. destruct Hx' as [Hx'|[Hx'|[]]]; [now left|right; now left].
        -- right; now right.
Qed.
Print Assumptions capture_cells_spec.

(* capture_g: descriptors of both kinds *)
Lemma capture_g_spec : forall parent cells base descs HL HL' U', NoDup HL -> capture_g HL parent cells base descs = (HL', U') ->
  NoDup HL' /\ (exists ext, HL' = (HL ++ ext)%list) /\ List.length U' = List.length descs /\
  (forall j b i, nth_error descs j = Some (b, i) ->
     if b then nth (nth j U' 0) HL' 0 = nth (base + i) cells 0 /\ nth j U' 0 < List.length HL'
     else nth j U' 0 = nth i parent 0) /\
  (forall c, In c HL' -> In c HL \/ exists i, In (true, i) descs /\ c = nth (base + i) cells 0).
Proof.
  intros parent cells base. induction descs as [|[b i] r IH]; intros HL HL' U' Hnd H; cbn [capture_g] in H.
  - injection H as <- <-. split; [exact Hnd|]. split; [exists []; now rewrite app_nil_r|]. split; [reflexivity|].
    split; [intros [|j] b i Hj; discriminate|]. intros c Hc. now left.
  - destruct b.
    + cbv zeta in H. destruct (index_of (nth (base + i) cells 0) HL) as [h|] eqn:Ei.
      * destruct (capture_g HL parent cells base r) as [HL1 ix] eqn:Ec. injection H as <- <-.
        destruct (IH HL HL1 ix Hnd Ec) as (A & (ext & B) & C & D & E).
        destruct (index_of_some _ _ _ Ei) as [Hh Hn].
        split; [exact A|]. split; [exists ext; exact B|]. split; [cbn; now rewrite C|]. split.
        -- intros [|j] b0 i0 Hj; cbn [nth_error nth] in *.
           ++ injection Hj as <- <-. subst HL1. rewrite app_nth1 by exact Hh. split; [exact Hn|]. rewrite app_length. lia.
           ++ exact (D j b0 i0 Hj).
        -- intros x Hx. destruct (E x Hx) as [Hx'|(i0 & Hi0 & Hx')]; [now left|right; exists i0; split; [now right|exact Hx']].
      * destruct (capture_g (HL ++ [nth (base + i) cells 0]) parent cells base r) as [HL1 ix] eqn:Ec. injection H as <- <-.
        assert (Hnd' : NoDup (HL ++ [nth (base + i) cells 0])%list) by (apply NoDup_snoc; [exact Hnd|now apply index_of_none]).
        destruct (IH _ HL1 ix Hnd' Ec) as (A & (ext & B) & C & D & E).
        split; [exact A|]. split; [exists (nth (base + i) cells 0 :: ext); rewrite B, <- app_assoc; reflexivity|].
        split; [cbn; now rewrite C|]. split.
        -- intros [|j] b0 i0 Hj; cbn [nth_error nth] in *.
           ++ injection Hj as <- <-. subst HL1. rewrite <- app_assoc. rewrite app_nth2 by lia. rewrite Nat.sub_diag. cbn.
              split; [reflexivity|]. rewrite !app_length. cbn. lia.
           ++ exact (D j b0 i0 Hj).
        -- intros x Hx. destruct (E x Hx) as [Hx'|(i0 & Hi0 & Hx')].
           ++ apply in_app_or in Hx'. destruct Hx' as [Hx'|[Hx'|[]]]; [now left|right; exists i; split; [now left|now symmetry]].
           ++ right. exists i0. split; [now right|exact Hx'].
    + destruct (capture_g HL parent cells base r) as [HL1 ix] eqn:Ec. injection H as <- <-.
      destruct (IH HL HL1 ix Hnd Ec) as (A & (ext & B) & C & D & E).
      split; [exact A|]. split; [exists ext; exact B|]. split; [cbn; now rewrite C|]. split.
      * intros [|j] b0 i0 Hj; cbn [nth_error nth] in *.
        -- injection Hj as <- <-. reflexivity.
        -- exact (D j b0 i0 Hj).
      * intros x Hx. destruct (E x Hx) as [Hx'|(i0 & Hi0 & Hx')]; [now left|right; exists i0; split; [now right|exact Hx']].
Qed.

Lemma capture_g_keeps : forall parent cells base descs HL HL' U' h, capture_g HL parent cells base descs = (HL', U') ->
  h < List.length HL -> nth h HL' 0 = nth h HL 0.
Proof.
  intros parent cells base descs HL HL' U' h H Hh.
  assert (G : forall ds HL0 HL1 U1, capture_g HL0 parent cells base ds = (HL1, U1) -> exists ext, HL1 = (HL0 ++ ext)%list).
  { induction ds as [|[b i] r IH]; intros HL0 HL1 U1 H0; cbn [capture_g] in H0.
    - injection H0 as <- <-. exists []. now rewrite app_nil_r.
    - destruct b.
      + cbv zeta in H0. destruct (index_of (nth (base + i) cells 0) HL0).
        * destruct (capture_g HL0 parent cells base r) as [HL2 ix] eqn:Ec. injection H0 as <- <-. eapply IH; eauto.
        * destruct (capture_g (HL0 ++ [nth (base + i) cells 0]) parent cells base r) as [HL2 ix] eqn:Ec. injection H0 as <- <-.
          destruct (IH _ _ _ Ec) as [ext ->]. exists (nth (base + i) cells 0 :: ext). now rewrite <- app_assoc.
      + destruct (capture_g HL0 parent cells base r) as [HL2 ix] eqn:Ec. injection H0 as <- <-. eapply IH; eauto. }
  destruct (G _ _ _ _ H) as [ext ->]. now apply app_nth1.
Qed.

(* the handles already there keep their index *)
Lemma capture_cells_keeps : forall cs HL HL' U' h, capture_cells HL cs = (HL', U') ->
  h < List.length HL -> nth h HL' 0 = nth h HL 0.
Proof.
  induction cs as [|c r IH]; intros HL HL' U' h H Hh; cbn in H.
  - injection H as <- <-. reflexivity.
  - destruct (index_of c HL) as [k|].
    + destruct (capture_cells HL r) as [HL1 ix] eqn:Ec. injection H as <- <-. exact (IH _ _ _ _ Ec Hh).
    + destruct (capture_cells (HL ++ [c]) r) as [HL1 ix] eqn:Ec. injection H as <- <-.
      rewrite (IH _ _ _ h Ec) by (rewrite app_length; lia). now apply app_nth1.
Qed.

(* ------------------------------------------------------------------------------------------ *)
(* Part 2: the machine over bk_c, one fiber, seen through (frames, CL, HL, cv, cn, globals, output) *)

Lemma SOK2_swf : forall (m : cmach) CL HL, SOK2 m CL HL -> swf2 (st_of m).
Proof. intros m CL HL [A B C D E F G H]. subst CL HL. constructor; assumption. Qed.

Lemma SOK2_of : forall (m : cmach) CL HL,
  CLof (st_of m) = CL -> HLof (st_of m) = HL -> scur (st_of m) = 0 -> fl_of m = false -> swf2 (st_of m) ->
  SOK2 m CL HL.
Proof. intros m CL HL A B C D [W1 W2 W3 W4]. subst CL HL. constructor; auto. Qed.

(* the effect of a piece of a step: new store view, frames / globals / output untouched *)
Definition eff (m m' : cmach) (CL' HL' : list nat) (f : nat -> mval) (n : nat) : Prop :=
  SOK2 m' CL' HL' /\ same_rest m m' /\ cv m' = f /\ cn m' = n.

Lemma eff_refl : forall (m : cmach) CL HL, SOK2 m CL HL -> eff m m CL HL (cv m) (cn m).
Proof. intros m CL HL S. split; [exact S|]. split; [apply same_rest_refl|]. split; reflexivity. Qed.

Lemma eff_trans : forall (m m1 m2 : cmach) CL1 HL1 CL2 HL2 f n,
  eff m m1 CL1 HL1 (cv m) (cn m) -> eff m1 m2 CL2 HL2 f n ->
  (f = cv m1 -> n = cn m1 -> eff m m2 CL2 HL2 (cv m) (cn m)) /\ eff m m2 CL2 HL2 f n.
Proof.
  intros m m1 m2 CL1 HL1 CL2 HL2 f n (S1 & R1 & V1 & N1) (S2 & R2 & V2 & N2).
  split.
  - intros -> ->. split; [exact S2|]. split; [exact (same_rest_trans _ _ _ R1 R2)|]. split; congruence.
  - split; [exact S2|]. split; [exact (same_rest_trans _ _ _ R1 R2)|]. split; assumption.
Qed.

Lemma uop_c : forall (m : cmach) o u' b, sstep (st_of m) o = (u', b) ->
  uop m o = (set_up m (u', fl_of m || negb (sdisc_ok (st_of m) o)), b).
Proof. intros m o u' b E. unfold uop. cbn [bstep bk_c]. fold (st_of m). rewrite E. reflexivity. Qed.

Lemma set_up_id : forall (m : cmach), fl_of m = false -> set_up m (st_of m, false) = m.
Proof. intros [[u f] a b c d] H. unfold fl_of, st_of, set_up in *. cbn in *. now subst f. Qed.

Lemma udo_eff : forall (m : cmach) o u' b CL HL CL' HL',
  SOK2 m CL HL -> sstep (st_of m) o = (u', b) -> sdisc_ok (st_of m) o = true ->
  CLof u' = CL' -> HLof u' = HL' -> scur u' = scur (st_of m) -> swf2 u' ->
  uop m o = (set_up m (u', false), b) /\ eff m (set_up m (u', false)) CL' HL' (cellv u') (cnext u').
Proof.
  intros m o u' b CL HL CL' HL' S E D A B C W.
  split.
  - rewrite (uop_c m o u' b E), D, (s2_flag _ _ _ S). reflexivity.
  - split; [|split; [repeat split|split; reflexivity]].
    apply SOK2_of; unfold st_of, fl_of; cbn; auto. rewrite C. exact (s2_cur _ _ _ S).
Qed.

Lemma mlen_c2 : forall (m : cmach) CL HL, SOK2 m CL HL -> mlen m = List.length CL.
Proof. intros m CL HL S. rewrite mlen_c, <- (s2_cl _ _ _ S). now rewrite CLof_length. Qed.

Lemma slen_c2 : forall (m : cmach) CL HL, SOK2 m CL HL -> slen_of (st_of m) = List.length CL.
Proof. intros m CL HL S. rewrite <- (s2_cl _ _ _ S). now rewrite CLof_length. Qed.

Lemma mpush2 : forall (m : cmach) CL HL v, SOK2 m CL HL ->
  eff m (mpush m v) (CL ++ [cn m])%list HL (upd (cv m) (cn m) v) (S (cn m)).
Proof.
  intros m CL HL v S. pose proof (SOK2_swf _ _ _ S) as W.
  destruct (sstep2_push (st_of m) v W) as (u' & E & A & B & C & D & F & W' & K).
  destruct (udo_eff m (Push v) u' ONone CL HL _ _ S E K eq_refl eq_refl F W') as [U X].
  unfold mpush, udo. rewrite U. cbn [fst]. unfold cv, cn.
  rewrite A, B, C, D in X. rewrite (s2_cl _ _ _ S), (s2_hl _ _ _ S) in X. exact X.
Qed.

Lemma mpop2 : forall (m : cmach) CL0 c HL, SOK2 m (CL0 ++ [c])%list HL -> ~ In c HL ->
  eff m (mpop m) CL0 HL (cv m) (cn m).
Proof.
  intros m CL0 c HL S Hc. pose proof (SOK2_swf _ _ _ S) as W.
  assert (Hlen : slen_of (st_of m) = List.length CL0 + 1) by (rewrite (slen_c2 _ _ _ S), app_length; reflexivity).
  destruct (sstep2_pop (st_of m) W ltac:(lia)) as (u' & E & A & B & C & D & F & W').
  assert (K : sdisc_ok (st_of m) Pop = true).
  { apply sdisc_pop. left. rewrite (s2_cl _ _ _ S), (s2_hl _ _ _ S), last_last. exact Hc. }
  destruct (udo_eff m Pop u' ONone _ HL _ _ S E K eq_refl eq_refl F W') as [U X].
  unfold mpop, udo. rewrite U. cbn [fst]. unfold cv, cn.
  rewrite A, B, C, D in X. rewrite (s2_cl _ _ _ S), (s2_hl _ _ _ S), removelast_last in X. exact X.
Qed.

Lemma closetop2 : forall (m : cmach) CL0 c HL, SOK2 m (CL0 ++ [c])%list HL ->
  eff m (udo m CloseTop) CL0 HL (cv m) (cn m).
Proof.
  intros m CL0 c HL S. pose proof (SOK2_swf _ _ _ S) as W.
  assert (Hlen : slen_of (st_of m) = List.length CL0 + 1) by (rewrite (slen_c2 _ _ _ S), app_length; reflexivity).
  destruct (sstep2_closetop (st_of m) W ltac:(lia)) as (u' & E & A & B & C & D & F & W' & K).
  destruct (udo_eff m CloseTop u' ONone _ HL _ _ S E K eq_refl eq_refl F W') as [U X].
  unfold udo. rewrite U. cbn [fst]. unfold cv, cn.
  rewrite A, B, C, D in X. rewrite (s2_cl _ _ _ S), (s2_hl _ _ _ S), removelast_last in X. exact X.
Qed.

Lemma retframe2 : forall (m : cmach) CL HL b, SOK2 m CL HL -> b <= List.length CL ->
  eff m (udo m (ReturnFrame b)) (firstn b CL) HL (cv m) (cn m).
Proof.
  intros m CL HL b S Hb. pose proof (SOK2_swf _ _ _ S) as W.
  rewrite <- (slen_c2 _ _ _ S) in Hb.
  destruct (sstep2_retframe (st_of m) b W Hb) as (u' & E & A & B & C & D & F & W' & K).
  destruct (udo_eff m (ReturnFrame b) u' ONone _ HL _ _ S E K eq_refl eq_refl F W') as [U X].
  unfold udo. rewrite U. cbn [fst]. unfold cv, cn.
  rewrite A, B, C, D in X. rewrite (s2_cl _ _ _ S), (s2_hl _ _ _ S) in X. exact X.
Qed.

Lemma getslot2 : forall (m : cmach) CL HL i, SOK2 m CL HL -> i < List.length CL ->
  uop m (GetSlot i) = (m, OVal (cv m (nth i CL 0))).
Proof.
  intros m CL HL i S Hi. rewrite <- (slen_c2 _ _ _ S) in Hi.
  rewrite (uop_c m _ _ _ (sstep2_get (st_of m) i Hi)).
  change (sdisc_ok (st_of m) (GetSlot i)) with true. rewrite (s2_flag _ _ _ S). cbn [orb negb].
  rewrite (s2_cl _ _ _ S). f_equal. exact (set_up_id m (s2_flag _ _ _ S)).
Qed.

Lemma mpeek2 : forall (m : cmach) CL HL d, SOK2 m CL HL -> d < List.length CL ->
  mpeek m d = cv m (nth (List.length CL - 1 - d) CL 0).
Proof.
  intros m CL HL d S Hd. unfold mpeek. rewrite (mlen_c2 _ _ _ S).
  rewrite (getslot2 m CL HL _ S) by lia. reflexivity.
Qed.

Lemma setslot2 : forall (m : cmach) CL HL i v, SOK2 m CL HL -> i < List.length CL ->
  eff m (udo m (SetSlot i v)) CL HL (upd (cv m) (nth i CL 0) v) (cn m).
Proof.
  intros m CL HL i v S Hi. pose proof (SOK2_swf _ _ _ S) as W.
  rewrite <- (slen_c2 _ _ _ S) in Hi.
  destruct (sstep2_set (st_of m) i v W Hi) as (u' & E & A & B & C & D & F & W' & K).
  destruct (udo_eff m (SetSlot i v) u' ONone _ HL _ _ S E K eq_refl eq_refl F W') as [U X].
  unfold udo. rewrite U. cbn [fst]. unfold cv, cn.
  rewrite A, B, C, D in X. rewrite (s2_cl _ _ _ S), (s2_hl _ _ _ S) in X. exact X.
Qed.

Lemma mpoke2 : forall (m : cmach) CL0 c HL w, SOK2 m (CL0 ++ [c])%list HL ->
  eff m (mpoke m 0 w) (CL0 ++ [c])%list HL (upd (cv m) c w) (cn m).
Proof.
  intros m CL0 c HL w S. unfold mpoke. rewrite (mlen_c2 _ _ _ S), app_length. cbn [List.length].
  replace (List.length CL0 + 1 - 1 - 0) with (List.length CL0) by lia.
  pose proof (setslot2 m _ HL (List.length CL0) w S) as X.
  rewrite app_nth2, Nat.sub_diag in X by lia. cbn [nth] in X. apply X. rewrite app_length. cbn. lia.
Qed.

Lemma readup2 : forall (m : cmach) CL HL h, SOK2 m CL HL -> h < List.length HL ->
  uop m (ReadUp h) = (m, OVal (cv m (nth h HL 0))).
Proof.
  intros m CL HL h S Hh. rewrite <- (s2_hl _ _ _ S) in Hh.
  rewrite (uop_c m _ _ _ (sstep2_readup (st_of m) h Hh)).
  change (sdisc_ok (st_of m) (ReadUp h)) with true. rewrite (s2_flag _ _ _ S). cbn [orb negb].
  rewrite (s2_hl _ _ _ S). f_equal. exact (set_up_id m (s2_flag _ _ _ S)).
Qed.

Lemma writeup2 : forall (m : cmach) CL HL h v, SOK2 m CL HL -> h < List.length HL ->
  eff m (udo m (WriteUp h v)) CL HL (upd (cv m) (nth h HL 0) v) (cn m).
Proof.
  intros m CL HL h v S Hh. pose proof (SOK2_swf _ _ _ S) as W.
  rewrite <- (s2_hl _ _ _ S) in Hh.
  destruct (sstep2_writeup (st_of m) h v W Hh) as (u' & E & A & B & C & D & F & W' & K).
  destruct (udo_eff m (WriteUp h v) u' ONone _ HL _ _ S E K eq_refl eq_refl F W') as [U X].
  unfold udo. rewrite U. cbn [fst]. unfold cv, cn.
  rewrite A, B, C, D in X. rewrite (s2_cl _ _ _ S), (s2_hl _ _ _ S) in X. exact X.
Qed.

Lemma capture2 : forall (m : cmach) CL HL i, SOK2 m CL HL -> i < List.length CL ->
  exists m' k, uop m (Capture i) = (m', OId k) /\
    match index_of (nth i CL 0) HL with
    | Some h => k = h /\ h < List.length HL /\ eff m m' CL HL (cv m) (cn m)
    | None => k = List.length HL /\ eff m m' CL (HL ++ [nth i CL 0])%list (cv m) (cn m)
    end.
Proof.
  intros m CL HL i S Hi. pose proof (SOK2_swf _ _ _ S) as W.
  rewrite <- (slen_c2 _ _ _ S) in Hi.
  pose proof (sstep2_capture (st_of m) i W Hi) as P.
  rewrite (s2_cl _ _ _ S), (s2_hl _ _ _ S) in P.
  destruct (index_of (nth i CL 0) HL) as [h|].
  - destruct P as [E Hh]. exists m, h. split.
    + rewrite (uop_c m _ _ _ E). change (sdisc_ok (st_of m) (Capture i)) with true.
      rewrite (s2_flag _ _ _ S). cbn [orb negb]. f_equal. exact (set_up_id m (s2_flag _ _ _ S)).
    + split; [reflexivity|]. split; [exact Hh|]. now apply eff_refl.
  - destruct P as (u' & E & A & B & C & D & F & W').
    destruct (udo_eff m (Capture i) u' _ _ HL _ _ S E eq_refl eq_refl eq_refl F W') as [U X].
    exists (set_up m (u', false)), (List.length HL). split; [exact U|]. split; [reflexivity|].
    unfold cv, cn. rewrite A, B, C, D in X. exact X.
Qed.

(* closure_impl: all the descriptors are locals of the running frame *)
Lemma capture_all2 : forall descs (m : cmach) CL HL base parent acc HL' U',
  SOK2 m CL HL ->
  Forall (fun d : bool * nat => fst d = true /\ base + snd d < List.length CL) descs ->
  capture_cells HL (map (fun d : bool * nat => nth (base + snd d) CL 0) descs) = (HL', U') ->
  exists m', capture_all bk_c m base parent descs acc = (m', (acc ++ U')%list) /\
             eff m m' CL HL' (cv m) (cn m).
Proof.
  induction descs as [|[b i] r IH]; intros m CL HL base parent acc HL' U' S HF Hcc.
  - cbn in Hcc. injection Hcc as <- <-. exists m. rewrite app_nil_r. split; [reflexivity|now apply eff_refl].
  - inversion HF as [|? ? [Hb Hi] HF']; subst. cbn [fst snd] in Hb, Hi. subst b.
    cbn [map capture_cells fst snd] in Hcc. cbn [capture_all].
    destruct (capture2 m CL HL (base + i) S Hi) as (m1 & k & U & P). rewrite U.
    destruct (index_of (nth (base + i) CL 0) HL) as [h|].
    + destruct P as (-> & Hh & X).
      destruct (capture_cells HL (map (fun d : bool * nat => nth (base + snd d) CL 0) r)) as [HL1 ix] eqn:Ec.
      injection Hcc as <- <-.
      destruct (IH m1 CL HL base parent (acc ++ [h])%list HL1 ix (proj1 X) HF' Ec) as (m' & Em & X').
      exists m'. split; [rewrite Em, <- app_assoc; reflexivity|].
      destruct X as (X1 & X2 & X3 & X4).
      apply (proj1 (eff_trans m m1 m' CL HL CL HL1 _ _ (conj X1 (conj X2 (conj X3 X4))) X')); congruence.
    + destruct P as (-> & X).
      destruct (capture_cells (HL ++ [nth (base + i) CL 0])
                              (map (fun d : bool * nat => nth (base + snd d) CL 0) r)) as [HL1 ix] eqn:Ec.
      injection Hcc as <- <-.
      destruct (IH m1 CL _ base parent (acc ++ [List.length HL])%list HL1 ix (proj1 X) HF' Ec) as (m' & Em & X').
      exists m'. split; [rewrite Em, <- app_assoc; reflexivity|].
      destruct X as (X1 & X2 & X3 & X4).
      apply (proj1 (eff_trans m m1 m' CL _ CL HL1 _ _ (conj X1 (conj X2 (conj X3 X4))) X')); congruence.
Qed.

(* closure_impl with descriptors of both kinds *)
Lemma capture_all_g : forall descs (m : cmach) CL HL base parent acc HL' U',
  SOK2 m CL HL ->
  Forall (fun d : bool * nat => fst d = true -> base + snd d < List.length CL) descs ->
  capture_g HL parent CL base descs = (HL', U') ->
  exists m', capture_all bk_c m base parent descs acc = (m', (acc ++ U')%list) /\
             eff m m' CL HL' (cv m) (cn m).
Proof.
  induction descs as [|[b i] r IH]; intros m CL HL base parent acc HL' U' S HF Hcc.
  - cbn in Hcc. injection Hcc as <- <-. exists m. rewrite app_nil_r. split; [reflexivity|now apply eff_refl].
  - inversion HF as [|? ? Hi HF']; subst. cbn [fst snd] in Hi. cbn [capture_g] in Hcc. cbn [capture_all]. destruct b.
    + specialize (Hi eq_refl). cbv zeta in Hcc.
      destruct (capture2 m CL HL (base + i) S Hi) as (m1 & k & U & P). rewrite U.
      destruct (index_of (nth (base + i) CL 0) HL) as [h|].
      * destruct P as (-> & Hh & X).
        destruct (capture_g HL parent CL base r) as [HL1 ix] eqn:Ec. injection Hcc as <- <-.
        destruct (IH m1 CL HL base parent (acc ++ [h])%list HL1 ix (proj1 X) HF' Ec) as (m' & Em & X').
        exists m'. split; [rewrite Em, <- app_assoc; reflexivity|].
        destruct X as (X1 & X2 & X3 & X4).
        apply (proj1 (eff_trans m m1 m' CL HL CL HL1 _ _ (conj X1 (conj X2 (conj X3 X4))) X')); congruence.
      * destruct P as (-> & X).
        destruct (capture_g (HL ++ [nth (base + i) CL 0]) parent CL base r) as [HL1 ix] eqn:Ec. injection Hcc as <- <-.
        destruct (IH m1 CL _ base parent (acc ++ [List.length HL])%list HL1 ix (proj1 X) HF' Ec) as (m' & Em & X').
        exists m'. split; [rewrite Em, <- app_assoc; reflexivity|].
        destruct X as (X1 & X2 & X3 & X4).
        apply (proj1 (eff_trans m m1 m' CL _ CL HL1 _ _ (conj X1 (conj X2 (conj X3 X4))) X')); congruence.
    + destruct (capture_g HL parent CL base r) as [HL1 ix] eqn:Ec. injection Hcc as <- <-.
      destruct (IH m CL HL base parent (acc ++ [nth i parent 0])%list HL1 ix S HF' Ec) as (m' & Em & X').
      exists m'. split; [rewrite Em, <- app_assoc; reflexivity|exact X'].
Qed.

(* ------------------------------------------------------------------------------------------ *)
(* frames *)

Lemma cur_fib_c2 : forall (m : cmach) CL HL, SOK2 m CL HL -> cur_fib m = fib0 m.
Proof. intros m CL HL H. unfold cur_fib, fib0. cbn [bcur bk_c]. fold (st_of m). now rewrite (s2_cur _ _ _ H). Qed.

Lemma m_up_set_pc : forall (m : cmach) pc, m_up (set_pc m pc) = m_up m.
Proof. intros m pc. unfold set_pc. destruct (mf_frames (cur_fib m)); reflexivity. Qed.

Lemma cv_set_pc : forall (m : cmach) pc, cv (set_pc m pc) = cv m.
Proof. intros m pc. unfold cv, st_of. now rewrite m_up_set_pc. Qed.
Lemma cn_set_pc : forall (m : cmach) pc, cn (set_pc m pc) = cn m.
Proof. intros m pc. unfold cn, st_of. now rewrite m_up_set_pc. Qed.

Lemma MS2_eff : forall m m' fn ups pc base frs CL HL G O CL' HL' f n,
  MS2 m fn ups pc base frs CL HL G O -> eff m m' CL' HL' f n ->
  MS2 m' fn ups pc base frs CL' HL' G O /\ cv m' = f /\ cn m' = n.
Proof.
  intros m m' fn ups pc base frs CL HL G O CL' HL' f n [S [F1 F2 F3] Hg Ho] (S' & (R1 & R2 & R3 & R4) & V & N).
  split; [|split; assumption].
  constructor; auto; try congruence.
  constructor; unfold fib0 in *; rewrite ?R1; auto.
Qed.

(* replace the frame stack of fiber 0 *)
Lemma put_frames_MS2 : forall m fn ups pc base frs CL HL G O fn' ups' pc' base' frs',
  MS2 m fn ups pc base frs CL HL G O ->
  MS2 (put_cur m (with_frames (fib0 m) (mkFrame fn' ups' pc' base' :: frs'))) fn' ups' pc' base' frs' CL HL G O.
Proof.
  intros m fn ups pc base frs CL HL G O fn' ups' pc' base' frs' [S [F1 F2 F3] Hg Ho].
  unfold put_cur, put_fib. cbn [bcur bk_c]. fold (st_of m). rewrite (s2_cur _ _ _ S).
  constructor; auto.
  - destruct S as [A B C D E1 E2 E3 E4]. constructor; auto.
  - constructor; unfold fib0, set_fibs; cbn [m_fibs].
    + destruct (m_fibs m); [congruence|discriminate].
    + rewrite nth0_set_nth0 by exact F1. reflexivity.
    + rewrite nth0_set_nth0 by exact F1. exact F3.
Qed.

Lemma set_pc_MS2 : forall m fn ups pc base frs CL HL G O pc',
  MS2 m fn ups pc base frs CL HL G O -> MS2 (set_pc m pc') fn ups pc' base frs CL HL G O.
Proof.
  intros m fn ups pc base frs CL HL G O pc' H. pose proof H as [S [F1 F2 F3] _ _].
  unfold set_pc. cbv zeta. rewrite (cur_fib_c2 _ _ _ S), F2. cbn [fr_fn fr_ups fr_base].
  exact (put_frames_MS2 _ _ _ _ _ _ _ _ _ _ fn ups pc' base frs H).
Qed.

Lemma MS2_with_g : forall (m : cmach) fn ups pc base frs CL HL G O G',
  MS2 m fn ups pc base frs CL HL G O ->
  MS2 (mkMach (m_up m) (m_fibs m) G' (m_vecs m) (m_out m)) fn ups pc base frs CL HL G' O.
Proof.
  intros m fn ups pc base frs CL HL G O G' [[A B C D E1 E2 E3 E4] [F1 F2 F3] Hg Ho].
  constructor; auto; constructor; auto.
Qed.

Lemma MS2_with_o : forall (m : cmach) fn ups pc base frs CL HL G O s,
  MS2 m fn ups pc base frs CL HL G O ->
  MS2 (mkMach (m_up m) (m_fibs m) (m_globals m) (m_vecs m) (s :: m_out m)) fn ups pc base frs CL HL G (s :: O).
Proof.
  intros m fn ups pc base frs CL HL G O s [[A B C D E1 E2 E3 E4] [F1 F2 F3] Hg Ho].
  constructor; auto; [constructor; auto|constructor; auto|cbn; now rewrite Ho].
Qed.

Lemma nth_last_snoc : forall (l : list nat) c, nth (List.length (l ++ [c]) - 1 - 0) (l ++ [c])%list 0 = c.
Proof.
  intros l c. rewrite app_length. cbn [List.length].
  replace (List.length l + 1 - 1 - 0) with (List.length l) by lia.
  rewrite app_nth2 by lia. now rewrite Nat.sub_diag.
Qed.

Lemma nth_peek2 : forall (l : list nat) a b,
  nth (List.length (l ++ [a; b]) - 1 - 1) (l ++ [a; b])%list 0 = a /\
  nth (List.length (l ++ [a; b]) - 1 - 0) (l ++ [a; b])%list 0 = b.
Proof.
  intros l a b. rewrite app_length. cbn [List.length]. split.
  - replace (List.length l + 2 - 1 - 1) with (List.length l) by lia.
    rewrite app_nth2 by lia. now rewrite Nat.sub_diag.
  - replace (List.length l + 2 - 1 - 0) with (List.length l + 1) by lia.
    rewrite app_nth2 by lia. replace (List.length l + 1 - List.length l) with 1 by lia. reflexivity.
Qed.

Lemma nth_peek_mid : forall (l : list nat) c args,
  nth (List.length (l ++ c :: args) - 1 - List.length args) (l ++ c :: args)%list 0 = c.
Proof.
  intros l c args. rewrite app_length. cbn [List.length].
  replace (List.length l + S (List.length args) - 1 - List.length args) with (List.length l) by lia.
  rewrite app_nth2 by lia. now rewrite Nat.sub_diag.
Qed.

Ltac open_step2 Ss Ff Hf :=
  unfold mstep; rewrite (cur_fib_c2 _ _ _ Ss); rewrite (fok_frames _ _ _ _ _ _ Ff);
  cbn [fr_fn fr_pc fr_base fr_ups]; unfold code_of in Hf; rewrite Hf; cbv beta iota zeta.

Ltac start2 H Ss Ff :=
  match type of H with
  | MS2 ?m ?fn ?ups ?pc ?base ?frs ?CL ?HL ?G ?O =>
      pose proof (m2_s m fn ups pc base frs CL HL G O H) as Ss;
      pose proof (m2_f m fn ups pc base frs CL HL G O H) as Ff
  end.

(* ------------------------------------------------------------------------------------------ *)
(* one lemma per instruction *)

Section Instr2.
Variable cf : cfg.
Variable funs : list func.

Lemma step2_const : forall m fn ups pc base frs CL HL G O n,
  MS2 m fn ups pc base frs CL HL G O -> fetch (code_of funs fn) pc = Some (IConst n) ->
  exists m', mstep cf funs m = MRun m' /\
    MS2 m' fn ups (pc + 3) base frs (CL ++ [cn m])%list HL G O /\
    cv m' = upd (cv m) (cn m) (MInt (Z.of_N n)) /\ cn m' = S (cn m).
Proof.
  intros m fn ups pc base frs CL HL G O n H Hf. start2 H S0 F.
  pose proof (set_pc_MS2 _ _ _ _ _ _ _ _ _ _ (pc + 3) H) as H1. start2 H1 S1 F1.
  exists (mpush (set_pc m (pc + 3)) (MInt (Z.of_N n))). split; [open_step2 S0 F Hf; reflexivity|].
  rewrite <- (cv_set_pc m (pc + 3)), <- (cn_set_pc m (pc + 3)).
  eapply MS2_eff; [exact H1|]. now apply mpush2.
Qed.

Lemma step2_nil : forall m fn ups pc base frs CL HL G O,
  MS2 m fn ups pc base frs CL HL G O -> fetch (code_of funs fn) pc = Some INil ->
  exists m', mstep cf funs m = MRun m' /\
    MS2 m' fn ups (pc + 1) base frs (CL ++ [cn m])%list HL G O /\
    cv m' = upd (cv m) (cn m) MNil /\ cn m' = S (cn m).
Proof.
  intros m fn ups pc base frs CL HL G O H Hf. start2 H S0 F.
  pose proof (set_pc_MS2 _ _ _ _ _ _ _ _ _ _ (pc + 1) H) as H1. start2 H1 S1 F1.
  exists (mpush (set_pc m (pc + 1)) MNil). split; [open_step2 S0 F Hf; reflexivity|].
  rewrite <- (cv_set_pc m (pc + 1)), <- (cn_set_pc m (pc + 1)).
  eapply MS2_eff; [exact H1|]. now apply mpush2.
Qed.

Lemma step2_pop : forall m fn ups pc base frs CL0 c HL G O,
  MS2 m fn ups pc base frs (CL0 ++ [c])%list HL G O -> fetch (code_of funs fn) pc = Some IPop -> ~ In c HL ->
  exists m', mstep cf funs m = MRun m' /\
    MS2 m' fn ups (pc + 1) base frs CL0 HL G O /\ cv m' = cv m /\ cn m' = cn m.
Proof.
  intros m fn ups pc base frs CL0 c HL G O H Hf Hc. start2 H S0 F.
  pose proof (set_pc_MS2 _ _ _ _ _ _ _ _ _ _ (pc + 1) H) as H1. start2 H1 S1 F1.
  exists (mpop (set_pc m (pc + 1))). split; [open_step2 S0 F Hf; reflexivity|].
  rewrite <- (cv_set_pc m (pc + 1)), <- (cn_set_pc m (pc + 1)).
  eapply MS2_eff; [exact H1|]. eapply mpop2; [exact S1|exact Hc].
Qed.

Lemma step2_closeup : forall m fn ups pc base frs CL0 c HL G O,
  MS2 m fn ups pc base frs (CL0 ++ [c])%list HL G O -> fetch (code_of funs fn) pc = Some ICloseUpvalue ->
  exists m', mstep cf funs m = MRun m' /\
    MS2 m' fn ups (pc + 1) base frs CL0 HL G O /\ cv m' = cv m /\ cn m' = cn m.
Proof.
  intros m fn ups pc base frs CL0 c HL G O H Hf. start2 H S0 F.
  pose proof (set_pc_MS2 _ _ _ _ _ _ _ _ _ _ (pc + 1) H) as H1. start2 H1 S1 F1.
  exists (udo (set_pc m (pc + 1)) CloseTop). split; [open_step2 S0 F Hf; reflexivity|].
  rewrite <- (cv_set_pc m (pc + 1)), <- (cn_set_pc m (pc + 1)).
  eapply MS2_eff; [exact H1|]. eapply closetop2; exact S1.
Qed.

Lemma step2_getlocal : forall m fn ups pc base frs CL HL G O k,
  MS2 m fn ups pc base frs CL HL G O -> fetch (code_of funs fn) pc = Some (IGetLocal k) ->
  base + k < List.length CL ->
  exists m', mstep cf funs m = MRun m' /\
    MS2 m' fn ups (pc + 2) base frs (CL ++ [cn m])%list HL G O /\
    cv m' = upd (cv m) (cn m) (cv m (nth (base + k) CL 0)) /\ cn m' = S (cn m).
Proof.
  intros m fn ups pc base frs CL HL G O k H Hf Hk. start2 H S0 F.
  pose proof (set_pc_MS2 _ _ _ _ _ _ _ _ _ _ (pc + 2) H) as H1. start2 H1 S1 F1.
  exists (mpush (set_pc m (pc + 2)) (cv m (nth (base + k) CL 0))). split.
  - open_step2 S0 F Hf. cbn [isize]. rewrite (getslot2 _ _ _ _ S1 Hk), cv_set_pc. reflexivity.
  - rewrite <- (cv_set_pc m (pc + 2)), <- (cn_set_pc m (pc + 2)).
    eapply MS2_eff; [exact H1|]. now apply mpush2.
Qed.

Lemma step2_setlocal : forall m fn ups pc base frs CL0 c HL G O k,
  MS2 m fn ups pc base frs (CL0 ++ [c])%list HL G O -> fetch (code_of funs fn) pc = Some (ISetLocal k) ->
  base + k < List.length CL0 ->
  exists m', mstep cf funs m = MRun m' /\
    MS2 m' fn ups (pc + 2) base frs (CL0 ++ [c])%list HL G O /\
    cv m' = upd (cv m) (nth (base + k) CL0 0) (cv m c) /\ cn m' = cn m.
Proof.
  intros m fn ups pc base frs CL0 c HL G O k H Hf Hk. start2 H S0 F.
  pose proof (set_pc_MS2 _ _ _ _ _ _ _ _ _ _ (pc + 2) H) as H1. start2 H1 S1 F1.
  assert (Hlen : 0 < List.length (CL0 ++ [c])) by (rewrite app_length; cbn; lia).
  exists (udo (set_pc m (pc + 2)) (SetSlot (base + k) (cv m c))). split.
  - open_step2 S0 F Hf. cbn [isize]. rewrite (mpeek2 _ _ _ 0 S1 Hlen), nth_last_snoc, cv_set_pc. reflexivity.
  - rewrite <- (app_nth1 CL0 [c] 0 Hk).
    rewrite <- (cv_set_pc m (pc + 2)) at 1. rewrite <- (cn_set_pc m (pc + 2)).
    eapply MS2_eff; [exact H1|]. apply setslot2; [exact S1|rewrite app_length; lia].
Qed.

Lemma step2_getglobal : forall m fn ups pc base frs CL HL G O x v,
  MS2 m fn ups pc base frs CL HL G O -> fetch (code_of funs fn) pc = Some (IGetGlobal (GUser x)) ->
  assoc G x = Some v ->
  exists m', mstep cf funs m = MRun m' /\
    MS2 m' fn ups (pc + 3) base frs (CL ++ [cn m])%list HL G O /\
    cv m' = upd (cv m) (cn m) v /\ cn m' = S (cn m).
Proof.
  intros m fn ups pc base frs CL HL G O x v H Hf Hx. start2 H S0 F.
  pose proof (set_pc_MS2 _ _ _ _ _ _ _ _ _ _ (pc + 3) H) as H1. start2 H1 S1 F1.
  exists (mpush (set_pc m (pc + 3)) v). split.
  - open_step2 S0 F Hf. cbn [isize]. rewrite (m2_g _ _ _ _ _ _ _ _ _ _ H1), Hx. reflexivity.
  - rewrite <- (cv_set_pc m (pc + 3)), <- (cn_set_pc m (pc + 3)).
    eapply MS2_eff; [exact H1|]. now apply mpush2.
Qed.

Lemma step2_getprint : forall m fn ups pc base frs CL HL G O,
  MS2 m fn ups pc base frs CL HL G O -> fetch (code_of funs fn) pc = Some (IGetGlobal GPrint) ->
  exists m', mstep cf funs m = MRun m' /\
    MS2 m' fn ups (pc + 3) base frs (CL ++ [cn m])%list HL G O /\
    cv m' = upd (cv m) (cn m) MPrintFn /\ cn m' = S (cn m).
Proof.
  intros m fn ups pc base frs CL HL G O H Hf. start2 H S0 F.
  pose proof (set_pc_MS2 _ _ _ _ _ _ _ _ _ _ (pc + 3) H) as H1. start2 H1 S1 F1.
  exists (mpush (set_pc m (pc + 3)) MPrintFn). split; [open_step2 S0 F Hf; reflexivity|].
  rewrite <- (cv_set_pc m (pc + 3)), <- (cn_set_pc m (pc + 3)).
  eapply MS2_eff; [exact H1|]. now apply mpush2.
Qed.

Lemma step2_defglobal : forall m fn ups pc base frs CL0 c HL G O x,
  MS2 m fn ups pc base frs (CL0 ++ [c])%list HL G O -> fetch (code_of funs fn) pc = Some (IDefineGlobal x) ->
  ~ In c HL ->
  exists m', mstep cf funs m = MRun m' /\
    MS2 m' fn ups (pc + 3) base frs CL0 HL (set_assoc G x (cv m c)) O /\ cv m' = cv m /\ cn m' = cn m.
Proof.
  intros m fn ups pc base frs CL0 c HL G O x H Hf Hc. start2 H S0 F.
  pose proof (set_pc_MS2 _ _ _ _ _ _ _ _ _ _ (pc + 3) H) as H1. start2 H1 S1 F1.
  assert (Hlen : 0 < List.length (CL0 ++ [c])) by (rewrite app_length; cbn; lia).
  eexists. split; [open_step2 S0 F Hf; reflexivity|]. cbn [isize].
  rewrite (mpeek2 _ _ _ 0 S1 Hlen), nth_last_snoc, cv_set_pc, (m2_g _ _ _ _ _ _ _ _ _ _ H1).
  pose proof (MS2_with_g _ _ _ _ _ _ _ _ _ _ (set_assoc G x (cv m c)) H1) as H2. start2 H2 S2 F2.
  destruct (MS2_eff _ _ _ _ _ _ _ _ _ _ _ _ _ _ _ H2 (mpop2 _ _ _ _ S2 Hc)) as (H3 & V & N).
  split; [exact H3|]. split; [rewrite V; exact (cv_set_pc m (pc + 3))|rewrite N; exact (cn_set_pc m (pc + 3))].
Qed.

Lemma step2_setglobal : forall m fn ups pc base frs CL0 c HL G O x w,
  MS2 m fn ups pc base frs (CL0 ++ [c])%list HL G O -> fetch (code_of funs fn) pc = Some (ISetGlobal x) ->
  assoc G x = Some w ->
  exists m', mstep cf funs m = MRun m' /\
    MS2 m' fn ups (pc + 3) base frs (CL0 ++ [c])%list HL (set_assoc G x (cv m c)) O /\ cv m' = cv m /\ cn m' = cn m.
Proof.
  intros m fn ups pc base frs CL0 c HL G O x w H Hf Hx. start2 H S0 F.
  pose proof (set_pc_MS2 _ _ _ _ _ _ _ _ _ _ (pc + 3) H) as H1. start2 H1 S1 F1.
  assert (Hlen : 0 < List.length (CL0 ++ [c])) by (rewrite app_length; cbn; lia).
  eexists. split.
  - open_step2 S0 F Hf. cbn [isize]. rewrite (m2_g _ _ _ _ _ _ _ _ _ _ H1), Hx. reflexivity.
  - rewrite (mpeek2 _ _ _ 0 S1 Hlen), nth_last_snoc, cv_set_pc.
    pose proof (MS2_with_g _ _ _ _ _ _ _ _ _ _ (set_assoc G x (cv m c)) H1) as H2.
    split; [exact H2|]. split; [exact (cv_set_pc m (pc + 3))|exact (cn_set_pc m (pc + 3))].
Qed.

Lemma step2_getupvalue : forall m fn ups pc base frs CL HL G O k,
  MS2 m fn ups pc base frs CL HL G O -> fetch (code_of funs fn) pc = Some (IGetUpvalue k) ->
  nth k ups 0 < List.length HL ->
  exists m', mstep cf funs m = MRun m' /\
    MS2 m' fn ups (pc + 2) base frs (CL ++ [cn m])%list HL G O /\
    cv m' = upd (cv m) (cn m) (cv m (nth (nth k ups 0) HL 0)) /\ cn m' = S (cn m).
Proof.
  intros m fn ups pc base frs CL HL G O k H Hf Hk. start2 H S0 F.
  pose proof (set_pc_MS2 _ _ _ _ _ _ _ _ _ _ (pc + 2) H) as H1. start2 H1 S1 F1.
  exists (mpush (set_pc m (pc + 2)) (cv m (nth (nth k ups 0) HL 0))). split.
  - open_step2 S0 F Hf. cbn [isize]. rewrite (readup2 _ _ _ _ S1 Hk), cv_set_pc. reflexivity.
  - rewrite <- (cv_set_pc m (pc + 2)), <- (cn_set_pc m (pc + 2)).
    eapply MS2_eff; [exact H1|]. now apply mpush2.
Qed.

Lemma step2_setupvalue : forall m fn ups pc base frs CL0 c HL G O k,
  MS2 m fn ups pc base frs (CL0 ++ [c])%list HL G O -> fetch (code_of funs fn) pc = Some (ISetUpvalue k) ->
  nth k ups 0 < List.length HL ->
  exists m', mstep cf funs m = MRun m' /\
    MS2 m' fn ups (pc + 2) base frs (CL0 ++ [c])%list HL G O /\
    cv m' = upd (cv m) (nth (nth k ups 0) HL 0) (cv m c) /\ cn m' = cn m.
Proof.
  intros m fn ups pc base frs CL0 c HL G O k H Hf Hk. start2 H S0 F.
  pose proof (set_pc_MS2 _ _ _ _ _ _ _ _ _ _ (pc + 2) H) as H1. start2 H1 S1 F1.
  assert (Hlen : 0 < List.length (CL0 ++ [c])) by (rewrite app_length; cbn; lia).
  exists (udo (set_pc m (pc + 2)) (WriteUp (nth k ups 0) (cv m c))). split.
  - open_step2 S0 F Hf. cbn [isize]. rewrite (mpeek2 _ _ _ 0 S1 Hlen), nth_last_snoc, cv_set_pc. reflexivity.
  - rewrite <- (cv_set_pc m (pc + 2)) at 1. rewrite <- (cn_set_pc m (pc + 2)).
    eapply MS2_eff; [exact H1|]. apply writeup2; [exact S1|exact Hk].
Qed.

Lemma step2_add : forall m fn ups pc base frs CL0 c1 c2 HL G O a b,
  MS2 m fn ups pc base frs (CL0 ++ [c1; c2])%list HL G O -> fetch (code_of funs fn) pc = Some IAdd ->
  cv m c1 = MInt a -> cv m c2 = MInt b -> ~ In c1 HL -> ~ In c2 HL ->
  exists m', mstep cf funs m = MRun m' /\
    MS2 m' fn ups (pc + 1) base frs (CL0 ++ [cn m])%list HL G O /\
    cv m' = upd (cv m) (cn m) (MInt (a + b)) /\ cn m' = S (cn m).
Proof.
  intros m fn ups pc base frs CL0 c1 c2 HL G O a b H Hf Ha Hb Hc1 Hc2. start2 H S0 F.
  pose proof (set_pc_MS2 _ _ _ _ _ _ _ _ _ _ (pc + 1) H) as H1. start2 H1 S1 F1.
  assert (Hlen : 1 < List.length (CL0 ++ [c1; c2])) by (rewrite app_length; cbn; lia).
  destruct (nth_peek2 CL0 c1 c2) as [P1 P0].
  exists (mpush (mpopn 2 (set_pc m (pc + 1))) (MInt (a + b))). split.
  - open_step2 S0 F Hf. cbn [isize].
    rewrite (mpeek2 _ _ _ 1 S1 Hlen), (mpeek2 _ _ _ 0 S1 ltac:(lia)), P1, P0, cv_set_pc, Ha, Hb. reflexivity.
  - cbn [mpopn]. rewrite app2_split in H1, S1.
    destruct (MS2_eff _ _ _ _ _ _ _ _ _ _ _ _ _ _ _ H1 (mpop2 _ _ _ _ S1 Hc2)) as (H2 & V2 & N2). start2 H2 S2 F2.
    destruct (MS2_eff _ _ _ _ _ _ _ _ _ _ _ _ _ _ _ H2 (mpop2 _ _ _ _ S2 Hc1)) as (H3 & V3 & N3). start2 H3 S3 F3.
    destruct (MS2_eff _ _ _ _ _ _ _ _ _ _ _ _ _ _ _ H3 (mpush2 _ _ _ (MInt (a + b)) S3)) as (H4 & V4 & N4).
    rewrite N3, N2, cn_set_pc in H4, V4, N4. rewrite V3, V2, cv_set_pc in V4.
    split; [exact H4|]. split; [exact V4|exact N4].
Qed.

Lemma step2_callprint : forall m fn ups pc base frs CL0 c1 c2 HL G O,
  MS2 m fn ups pc base frs (CL0 ++ [c1; c2])%list HL G O -> fetch (code_of funs fn) pc = Some (ICall 1) ->
  cv m c1 = MPrintFn -> ~ In c2 HL ->
  exists m', mstep cf funs m = MRun m' /\
    MS2 m' fn ups (pc + 2) base frs (CL0 ++ [c1])%list HL G (show_mval (cv m c2) :: O) /\
    cv m' = upd (cv m) c1 MNil /\ cn m' = cn m.
Proof.
  intros m fn ups pc base frs CL0 c1 c2 HL G O H Hf Hp Hc2. start2 H S0 F.
  pose proof (set_pc_MS2 _ _ _ _ _ _ _ _ _ _ (pc + 2) H) as H1. start2 H1 S1 F1.
  assert (Hlen : 1 < List.length (CL0 ++ [c1; c2])) by (rewrite app_length; cbn; lia).
  destruct (nth_peek2 CL0 c1 c2) as [P1 P0].
  eexists. split.
  - open_step2 S0 F Hf. cbn [isize].
    rewrite (mpeek2 _ _ _ 1 S1 Hlen), P1, cv_set_pc, Hp. cbn [Nat.eqb]. reflexivity.
  - rewrite (mpeek2 _ _ _ 0 S1 ltac:(lia)), P0, cv_set_pc. cbn [mpopn].
    pose proof (MS2_with_o _ _ _ _ _ _ _ _ _ _ (show_mval (cv m c2)) H1) as H2. start2 H2 S2 F2.
    rewrite app2_split in H2, S2.
    destruct (MS2_eff _ _ _ _ _ _ _ _ _ _ _ _ _ _ _ H2 (mpop2 _ _ _ _ S2 Hc2)) as (H3 & V3 & N3). start2 H3 S3 F3.
    destruct (MS2_eff _ _ _ _ _ _ _ _ _ _ _ _ _ _ _ H3 (mpoke2 _ _ _ _ MNil S3)) as (H4 & V4 & N4).
    split; [exact H4|]. split.
    + rewrite V4, V3. f_equal. exact (cv_set_pc m (pc + 2)).
    + rewrite N4, N3. exact (cn_set_pc m (pc + 2)).
Qed.

(* a call of a closure: the callee's frame on top, the caller's pc already past the Call *)
Lemma step2_call : forall m fn ups pc base frs CL0 c args HL G O n fnc U,
  MS2 m fn ups pc base frs (CL0 ++ c :: args)%list HL G O -> fetch (code_of funs fn) pc = Some (ICall n) ->
  List.length args = n -> cv m c = MClo fnc U -> f_arity (nth fnc funs dfunc) = n ->
  exists m', mstep cf funs m = MRun m' /\
    MS2 m' fnc U 0 (List.length CL0) (mkFrame fn ups (pc + 2) base :: frs) (CL0 ++ c :: args)%list HL G O /\
    cv m' = cv m /\ cn m' = cn m.
Proof.
  intros m fn ups pc base frs CL0 c args HL G O n fnc U H Hf Hn Hclo Har. start2 H S0 F.
  pose proof (set_pc_MS2 _ _ _ _ _ _ _ _ _ _ (pc + 2) H) as H1. start2 H1 S1 F1.
  assert (Hlen : n < List.length (CL0 ++ c :: args)) by (rewrite app_length; cbn; lia).
  eexists. split.
  - open_step2 S0 F Hf. cbn [isize].
    rewrite (mpeek2 _ _ _ n S1 Hlen). rewrite <- Hn at 1. rewrite nth_peek_mid, cv_set_pc, Hclo, Har, Nat.eqb_refl.
    reflexivity.
  - rewrite (cur_fib_c2 _ _ _ S1), (fok_frames _ _ _ _ _ _ F1), (mlen_c2 _ _ _ S1).
    replace (List.length (CL0 ++ c :: args) - n - 1) with (List.length CL0) by (rewrite app_length; cbn; lia).
    split; [exact (put_frames_MS2 _ _ _ _ _ _ _ _ _ _ fnc U 0 (List.length CL0) _ H1)|].
    split; [exact (cv_set_pc m (pc + 2))|exact (cn_set_pc m (pc + 2))].
Qed.

(* Return to a caller frame of the same fiber *)
Lemma step2_return : forall m fn ups pc base fn' ups' pc' base' frs' CLa c HL G O,
  MS2 m fn ups pc base (mkFrame fn' ups' pc' base' :: frs') (CLa ++ [c])%list HL G O ->
  fetch (code_of funs fn) pc = Some IReturn -> base <= List.length CLa -> ~ In c HL ->
  exists m', mstep cf funs m = MRun m' /\
    MS2 m' fn' ups' pc' base' frs' (firstn base CLa ++ [cn m])%list HL G O /\
    cv m' = upd (cv m) (cn m) (cv m c) /\ cn m' = S (cn m).
Proof.
  intros m fn ups pc base fn' ups' pc' base' frs' CLa c HL G O H Hf Hb Hc. start2 H S0 F.
  pose proof (set_pc_MS2 _ _ _ _ _ _ _ _ _ _ (pc + 1) H) as H1. start2 H1 S1 F1.
  assert (Hlen : 0 < List.length (CLa ++ [c])) by (rewrite app_length; cbn; lia).
  eexists. split; [open_step2 S0 F Hf; reflexivity|]. cbn [isize].
  rewrite (mpeek2 _ _ _ 0 S1 Hlen), nth_last_snoc, cv_set_pc.
  destruct (MS2_eff _ _ _ _ _ _ _ _ _ _ _ _ _ _ _ H1 (mpop2 _ _ _ _ S1 Hc)) as (H2 & V2 & N2). start2 H2 S2 F2.
  destruct (MS2_eff _ _ _ _ _ _ _ _ _ _ _ _ _ _ _ H2 (retframe2 _ _ _ base S2 Hb)) as (H3 & V3 & N3). start2 H3 S3 F3.
  rewrite (cur_fib_c2 _ _ _ S3).
  pose proof (put_frames_MS2 _ _ _ _ _ _ _ _ _ _ fn' ups' pc' base' frs' H3) as H4. start2 H4 S4 F4.
  destruct (MS2_eff _ _ _ _ _ _ _ _ _ _ _ _ _ _ _ H4 (mpush2 _ _ _ (cv m c) S4)) as (H5 & V5 & N5).
  assert (E4v : cv (put_cur (udo (mpop (set_pc m (pc + 1))) (ReturnFrame base))
                      (with_frames (fib0 (udo (mpop (set_pc m (pc + 1))) (ReturnFrame base)))
                         (mkFrame fn' ups' pc' base' :: frs'))) = cv m).
  { change (cv (put_cur ?x ?y)) with (cv x). now rewrite V3, V2, cv_set_pc. }
  assert (E4n : cn (put_cur (udo (mpop (set_pc m (pc + 1))) (ReturnFrame base))
                      (with_frames (fib0 (udo (mpop (set_pc m (pc + 1))) (ReturnFrame base)))
                         (mkFrame fn' ups' pc' base' :: frs'))) = cn m).
  { change (cn (put_cur ?x ?y)) with (cn x). now rewrite N3, N2, cn_set_pc. }
  rewrite E4n in H5, V5, N5. rewrite E4v in V5.
  split; [exact H5|]. split; [exact V5|exact N5].
Qed.

(* the last Return of the script: the only frame of a fiber without caller *)
Lemma step2_return_done : forall m fn ups pc base CLa c HL G O,
  MS2 m fn ups pc base [] (CLa ++ [c])%list HL G O -> fetch (code_of funs fn) pc = Some IReturn ->
  base <= List.length CLa -> ~ In c HL ->
  exists m', mstep cf funs m = MDone m' /\ m_out m' = O /\ fl_of m' = false.
Proof.
  intros m fn ups pc base CLa c HL G O H Hf Hb Hc. start2 H S0 F.
  pose proof (set_pc_MS2 _ _ _ _ _ _ _ _ _ _ (pc + 1) H) as H1. start2 H1 S1 F1.
  destruct (MS2_eff _ _ _ _ _ _ _ _ _ _ _ _ _ _ _ H1 (mpop2 _ _ _ _ S1 Hc)) as (H2 & V2 & N2). start2 H2 S2 F2.
  destruct (MS2_eff _ _ _ _ _ _ _ _ _ _ _ _ _ _ _ H2 (retframe2 _ _ _ base S2 Hb)) as (H3 & V3 & N3). start2 H3 S3 F3.
  eexists. split.
  - open_step2 S0 F Hf. cbn [isize]. rewrite (cur_fib_c2 _ _ _ S3), (fok_caller _ _ _ _ _ _ F3). reflexivity.
  - split.
    + unfold put_cur, put_fib, set_fibs. cbn [m_out]. exact (m2_o _ _ _ _ _ _ _ _ _ _ H3).
    + unfold put_cur, put_fib, set_fibs, fl_of. cbn [m_up]. exact (s2_flag _ _ _ S3).
Qed.

Lemma upd_upd_same : forall A (f : nat -> A) k x y j, upd (upd f k x) k y j = upd f k y j.
Proof. intros A f k x y j. unfold upd. now destruct (j =? k). Qed.

(* Closure with local descriptors only: the closure object goes into a fresh cell first (with no upvalues),
   the cells of the named slots get their handles, then the object is overwritten with the handle list.
   cv m' is therefore a DOUBLE update of the fresh cell; pointwise it is the single update. *)
Lemma step2_closure : forall m fn ups pc base frs CL HL G O fnc descs HL' U',
  MS2 m fn ups pc base frs CL HL G O -> fetch (code_of funs fn) pc = Some (IClosure fnc descs) ->
  Forall (fun d : bool * nat => fst d = true /\ base + snd d < List.length CL) descs ->
  capture_cells HL (map (fun d : bool * nat => nth (base + snd d) CL 0) descs) = (HL', U') ->
  exists m', mstep cf funs m = MRun m' /\
    MS2 m' fn ups (pc + 3 + 2 * List.length descs) base frs (CL ++ [cn m])%list HL' G O /\
    cv m' = upd (upd (cv m) (cn m) (MClo fnc [])) (cn m) (MClo fnc U') /\
    (forall j, cv m' j = upd (cv m) (cn m) (MClo fnc U') j) /\
    cn m' = S (cn m).
Proof.
  intros m fn ups pc base frs CL HL G O fnc descs HL' U' H Hf HF Hcc. start2 H S0 F.
  replace (pc + 3 + 2 * List.length descs) with (pc + (3 + 2 * List.length descs)) by lia.
  set (pcn := pc + (3 + 2 * List.length descs)).
  pose proof (set_pc_MS2 _ _ _ _ _ _ _ _ _ _ pcn H) as H1. start2 H1 S1 F1.
  destruct (MS2_eff _ _ _ _ _ _ _ _ _ _ _ _ _ _ _ H1 (mpush2 _ _ _ (MClo fnc []) S1)) as (H2 & V2 & N2). start2 H2 S2 F2.
  assert (HF2 : Forall (fun d : bool * nat => fst d = true /\ base + snd d < List.length (CL ++ [cn (set_pc m pcn)])) descs).
  { eapply Forall_impl; [|exact HF]. intros d [A B]. split; [exact A|]. rewrite app_length. lia. }
  assert (Hmap : map (fun d : bool * nat => nth (base + snd d) (CL ++ [cn (set_pc m pcn)]) 0) descs =
                 map (fun d : bool * nat => nth (base + snd d) CL 0) descs).
  { apply map_ext_in. intros d Hd. apply app_nth1. exact (proj2 (proj1 (Forall_forall _ _) HF d Hd)). }
  rewrite <- Hmap in Hcc.
  destruct (capture_all2 descs _ _ _ base ups [] HL' U' S2 HF2 Hcc) as (m2 & Ecap & X).
  destruct (MS2_eff _ _ _ _ _ _ _ _ _ _ _ _ _ _ _ H2 X) as (H3 & V3 & N3). start2 H3 S3 F3.
  destruct (MS2_eff _ _ _ _ _ _ _ _ _ _ _ _ _ _ _ H3 (mpoke2 _ _ _ _ (MClo fnc U') S3)) as (H4 & V4 & N4).
  exists (mpoke m2 0 (MClo fnc U')). split.
  - open_step2 S0 F Hf. cbn [isize]. fold pcn. rewrite Ecap. reflexivity.
  - rewrite V3, V2, cv_set_pc, cn_set_pc in V4. rewrite N3, N2, cn_set_pc in N4. rewrite cn_set_pc in H4.
    split; [exact H4|]. split; [exact V4|]. split; [|exact N4].
    intros j. rewrite V4. apply upd_upd_same.
Qed.

(* the same, with the descriptors ranging over the slots INCLUDING the one the new closure is pushed into (a local
   function that captures itself: `fn f() { .. f() .. }` in a block) *)
Lemma step2_closure_g : forall m fn ups pc base frs CL HL G O fnc descs HL' U',
  MS2 m fn ups pc base frs CL HL G O -> fetch (code_of funs fn) pc = Some (IClosure fnc descs) ->
  Forall (fun d : bool * nat => fst d = true /\ base + snd d < List.length (CL ++ [cn m])%list) descs ->
  capture_cells HL (map (fun d : bool * nat => nth (base + snd d) (CL ++ [cn m])%list 0) descs) = (HL', U') ->
  exists m', mstep cf funs m = MRun m' /\
    MS2 m' fn ups (pc + 3 + 2 * List.length descs) base frs (CL ++ [cn m])%list HL' G O /\
    (forall j, cv m' j = upd (cv m) (cn m) (MClo fnc U') j) /\
    cn m' = S (cn m).
Proof.
  intros m fn ups pc base frs CL HL G O fnc descs HL' U' H Hf HF Hcc. start2 H S0 F.
  replace (pc + 3 + 2 * List.length descs) with (pc + (3 + 2 * List.length descs)) by lia.
  set (pcn := pc + (3 + 2 * List.length descs)).
  pose proof (set_pc_MS2 _ _ _ _ _ _ _ _ _ _ pcn H) as H1. start2 H1 S1 F1.
  destruct (MS2_eff _ _ _ _ _ _ _ _ _ _ _ _ _ _ _ H1 (mpush2 _ _ _ (MClo fnc []) S1)) as (H2 & V2 & N2). start2 H2 S2 F2.
  rewrite <- (cn_set_pc m pcn) in HF, Hcc.
  destruct (capture_all2 descs _ _ _ base ups [] HL' U' S2 HF Hcc) as (m2 & Ecap & X).
  destruct (MS2_eff _ _ _ _ _ _ _ _ _ _ _ _ _ _ _ H2 X) as (H3 & V3 & N3). start2 H3 S3 F3.
  destruct (MS2_eff _ _ _ _ _ _ _ _ _ _ _ _ _ _ _ H3 (mpoke2 _ _ _ _ (MClo fnc U') S3)) as (H4 & V4 & N4).
  exists (mpoke m2 0 (MClo fnc U')). split.
  - open_step2 S0 F Hf. cbn [isize]. fold pcn. rewrite Ecap. reflexivity.
  - rewrite V3, V2, cv_set_pc, cn_set_pc in V4. rewrite N3, N2, cn_set_pc in N4. rewrite cn_set_pc in H4.
    split; [exact H4|]. split; [|exact N4].
    intros j. rewrite V4. apply upd_upd_same.
Qed.

(* Closure with descriptors of both kinds (locals of the running frame, slot of the new closure included, and
   upvalues of the running closure) *)
Lemma step2_closure_n : forall m fn ups pc base frs CL HL G O fnc descs HL' U',
  MS2 m fn ups pc base frs CL HL G O -> fetch (code_of funs fn) pc = Some (IClosure fnc descs) ->
  Forall (fun d : bool * nat => fst d = true -> base + snd d < List.length (CL ++ [cn m])%list) descs ->
  capture_g HL ups (CL ++ [cn m])%list base descs = (HL', U') ->
  exists m', mstep cf funs m = MRun m' /\
    MS2 m' fn ups (pc + 3 + 2 * List.length descs) base frs (CL ++ [cn m])%list HL' G O /\
    (forall j, cv m' j = upd (cv m) (cn m) (MClo fnc U') j) /\
    cn m' = S (cn m).
Proof.
  intros m fn ups pc base frs CL HL G O fnc descs HL' U' H Hf HF Hcc. start2 H S0 F.
  replace (pc + 3 + 2 * List.length descs) with (pc + (3 + 2 * List.length descs)) by lia.
  set (pcn := pc + (3 + 2 * List.length descs)).
  pose proof (set_pc_MS2 _ _ _ _ _ _ _ _ _ _ pcn H) as H1. start2 H1 S1 F1.
  destruct (MS2_eff _ _ _ _ _ _ _ _ _ _ _ _ _ _ _ H1 (mpush2 _ _ _ (MClo fnc []) S1)) as (H2 & V2 & N2). start2 H2 S2 F2.
  rewrite <- (cn_set_pc m pcn) in HF, Hcc.
  destruct (capture_all_g descs _ _ _ base ups [] HL' U' S2 HF Hcc) as (m2 & Ecap & X).
  destruct (MS2_eff _ _ _ _ _ _ _ _ _ _ _ _ _ _ _ H2 X) as (H3 & V3 & N3). start2 H3 S3 F3.
  destruct (MS2_eff _ _ _ _ _ _ _ _ _ _ _ _ _ _ _ H3 (mpoke2 _ _ _ _ (MClo fnc U') S3)) as (H4 & V4 & N4).
  exists (mpoke m2 0 (MClo fnc U')). split.
  - open_step2 S0 F Hf. cbn [isize]. fold pcn. rewrite Ecap. reflexivity.
  - rewrite V3, V2, cv_set_pc, cn_set_pc in V4. rewrite N3, N2, cn_set_pc in N4. rewrite cn_set_pc in H4.
    split; [exact H4|]. split; [|exact N4].
    intros j. rewrite V4. apply upd_upd_same.
Qed.

(* ---- comparison, jumps, ranges and iterators (loops, if) ---- *)
Lemma step2_less : forall m fn ups pc base frs CL0 c1 c2 HL G O a b,
  MS2 m fn ups pc base frs (CL0 ++ [c1; c2])%list HL G O -> fetch (code_of funs fn) pc = Some ILess ->
  cv m c1 = MInt a -> cv m c2 = MInt b -> ~ In c1 HL -> ~ In c2 HL ->
  exists m', mstep cf funs m = MRun m' /\
    MS2 m' fn ups (pc + 1) base frs (CL0 ++ [cn m])%list HL G O /\
    cv m' = upd (cv m) (cn m) (MBool (Z.ltb a b)) /\ cn m' = S (cn m).
Proof.
  intros m fn ups pc base frs CL0 c1 c2 HL G O a b H Hf Ha Hb Hc1 Hc2. start2 H S0 F.
  pose proof (set_pc_MS2 _ _ _ _ _ _ _ _ _ _ (pc + 1) H) as H1. start2 H1 S1 F1.
  assert (Hlen : 1 < List.length (CL0 ++ [c1; c2])) by (rewrite app_length; cbn; lia).
  destruct (nth_peek2 CL0 c1 c2) as [P1 P0].
  exists (mpush (mpopn 2 (set_pc m (pc + 1))) (MBool (Z.ltb a b))). split.
  - open_step2 S0 F Hf. cbn [isize].
    rewrite (mpeek2 _ _ _ 1 S1 Hlen), (mpeek2 _ _ _ 0 S1 ltac:(lia)), P1, P0, cv_set_pc, Ha, Hb. reflexivity.
  - cbn [mpopn]. rewrite app2_split in H1, S1.
    destruct (MS2_eff _ _ _ _ _ _ _ _ _ _ _ _ _ _ _ H1 (mpop2 _ _ _ _ S1 Hc2)) as (H2 & V2 & N2). start2 H2 S2 F2.
    destruct (MS2_eff _ _ _ _ _ _ _ _ _ _ _ _ _ _ _ H2 (mpop2 _ _ _ _ S2 Hc1)) as (H3 & V3 & N3). start2 H3 S3 F3.
    destruct (MS2_eff _ _ _ _ _ _ _ _ _ _ _ _ _ _ _ H3 (mpush2 _ _ _ (MBool (Z.ltb a b)) S3)) as (H4 & V4 & N4).
    rewrite N3, N2, cn_set_pc in H4, V4, N4. rewrite V3, V2, cv_set_pc in V4.
    split; [exact H4|]. split; [exact V4|exact N4].
Qed.

Lemma step2_buildrange : forall m fn ups pc base frs CL0 c1 c2 HL G O a b,
  MS2 m fn ups pc base frs (CL0 ++ [c1; c2])%list HL G O -> fetch (code_of funs fn) pc = Some IBuildRange ->
  cv m c1 = MInt a -> cv m c2 = MInt b -> ~ In c1 HL -> ~ In c2 HL ->
  exists m', mstep cf funs m = MRun m' /\
    MS2 m' fn ups (pc + 1) base frs (CL0 ++ [cn m])%list HL G O /\
    cv m' = upd (cv m) (cn m) (MRange a b) /\ cn m' = S (cn m).
Proof.
  intros m fn ups pc base frs CL0 c1 c2 HL G O a b H Hf Ha Hb Hc1 Hc2. start2 H S0 F.
  pose proof (set_pc_MS2 _ _ _ _ _ _ _ _ _ _ (pc + 1) H) as H1. start2 H1 S1 F1.
  assert (Hlen : 1 < List.length (CL0 ++ [c1; c2])) by (rewrite app_length; cbn; lia).
  destruct (nth_peek2 CL0 c1 c2) as [P1 P0].
  exists (mpush (mpopn 2 (set_pc m (pc + 1))) (MRange a b)). split.
  - open_step2 S0 F Hf. cbn [isize].
    rewrite (mpeek2 _ _ _ 1 S1 Hlen), (mpeek2 _ _ _ 0 S1 ltac:(lia)), P1, P0, cv_set_pc, Ha, Hb. reflexivity.
  - cbn [mpopn]. rewrite app2_split in H1, S1.
    destruct (MS2_eff _ _ _ _ _ _ _ _ _ _ _ _ _ _ _ H1 (mpop2 _ _ _ _ S1 Hc2)) as (H2 & V2 & N2). start2 H2 S2 F2.
    destruct (MS2_eff _ _ _ _ _ _ _ _ _ _ _ _ _ _ _ H2 (mpop2 _ _ _ _ S2 Hc1)) as (H3 & V3 & N3). start2 H3 S3 F3.
    destruct (MS2_eff _ _ _ _ _ _ _ _ _ _ _ _ _ _ _ H3 (mpush2 _ _ _ (MRange a b) S3)) as (H4 & V4 & N4).
    rewrite N3, N2, cn_set_pc in H4, V4, N4. rewrite V3, V2, cv_set_pc in V4.
    split; [exact H4|]. split; [exact V4|exact N4].
Qed.

Lemma nth_last_snoc2 : forall (CL0 : list nat) c, nth (List.length (CL0 ++ [c]) - 1 - 0) (CL0 ++ [c])%list 0 = c.
Proof. intros. rewrite app_length. cbn [List.length]. replace (List.length CL0 + 1 - 1 - 0) with (List.length CL0) by lia. apply nth_middle. Qed.

Lemma step2_jump : forall m fn ups pc base frs CL HL G O o,
  MS2 m fn ups pc base frs CL HL G O -> fetch (code_of funs fn) pc = Some (IJump o) ->
  exists m', mstep cf funs m = MRun m' /\ MS2 m' fn ups (pc + 3 + o) base frs CL HL G O /\ cv m' = cv m /\ cn m' = cn m.
Proof.
  intros m fn ups pc base frs CL HL G O o H Hf. start2 H S0 F.
  pose proof (set_pc_MS2 _ _ _ _ _ _ _ _ _ _ (pc + 3) H) as H1.
  pose proof (set_pc_MS2 _ _ _ _ _ _ _ _ _ _ (pc + 3 + o) H1) as H2.
  exists (set_pc (set_pc m (pc + 3)) (pc + 3 + o)). split; [open_step2 S0 F Hf; reflexivity|].
  split; [exact H2|]. split; [now rewrite !cv_set_pc|now rewrite !cn_set_pc].
Qed.

Lemma step2_loop : forall m fn ups pc base frs CL HL G O o,
  MS2 m fn ups pc base frs CL HL G O -> fetch (code_of funs fn) pc = Some (ILoop o) ->
  exists m', mstep cf funs m = MRun m' /\ MS2 m' fn ups (pc + 3 - o) base frs CL HL G O /\ cv m' = cv m /\ cn m' = cn m.
Proof.
  intros m fn ups pc base frs CL HL G O o H Hf. start2 H S0 F.
  pose proof (set_pc_MS2 _ _ _ _ _ _ _ _ _ _ (pc + 3) H) as H1.
  pose proof (set_pc_MS2 _ _ _ _ _ _ _ _ _ _ (pc + 3 - o) H1) as H2.
  exists (set_pc (set_pc m (pc + 3)) (pc + 3 - o)). split; [open_step2 S0 F Hf; reflexivity|].
  split; [exact H2|]. split; [now rewrite !cv_set_pc|now rewrite !cn_set_pc].
Qed.

(* JumpIfFalse looks at the top of the stack and leaves it there *)
Lemma step2_jumpiffalse : forall m fn ups pc base frs CL0 c HL G O o b,
  MS2 m fn ups pc base frs (CL0 ++ [c])%list HL G O -> fetch (code_of funs fn) pc = Some (IJumpIfFalse o) ->
  cv m c = MBool b ->
  exists m', mstep cf funs m = MRun m' /\
    MS2 m' fn ups (if b then pc + 3 else pc + 3 + o) base frs (CL0 ++ [c])%list HL G O /\ cv m' = cv m /\ cn m' = cn m.
Proof.
  intros m fn ups pc base frs CL0 c HL G O o b H Hf Hb. start2 H S0 F.
  pose proof (set_pc_MS2 _ _ _ _ _ _ _ _ _ _ (pc + 3) H) as H1. start2 H1 S1 F1.
  assert (Hlen : 0 < List.length (CL0 ++ [c])) by (rewrite app_length; cbn; lia).
  assert (Hp : mpeek (set_pc m (pc + 3)) 0 = MBool b) by (rewrite (mpeek2 _ _ _ 0 S1 Hlen), nth_last_snoc2, cv_set_pc; exact Hb).
  destruct b.
  - exists (set_pc m (pc + 3)). split; [open_step2 S0 F Hf; cbn [isize]; rewrite Hp; reflexivity|].
    split; [exact H1|]. split; [apply cv_set_pc|apply cn_set_pc].
  - pose proof (set_pc_MS2 _ _ _ _ _ _ _ _ _ _ (pc + 3 + o) H1) as H2.
    exists (set_pc (set_pc m (pc + 3)) (pc + 3 + o)). split; [open_step2 S0 F Hf; cbn [isize]; rewrite Hp; reflexivity|].
    split; [exact H2|]. split; [now rewrite !cv_set_pc|now rewrite !cn_set_pc].
Qed.

(* JumpIfStopIter likewise *)
Lemma step2_jumpifstop_no : forall m fn ups pc base frs CL0 c HL G O o z,
  MS2 m fn ups pc base frs (CL0 ++ [c])%list HL G O -> fetch (code_of funs fn) pc = Some (IJumpIfStopIter o) ->
  cv m c = MInt z ->
  exists m', mstep cf funs m = MRun m' /\ MS2 m' fn ups (pc + 3) base frs (CL0 ++ [c])%list HL G O /\ cv m' = cv m /\ cn m' = cn m.
Proof.
  intros m fn ups pc base frs CL0 c HL G O o z H Hf Hb. start2 H S0 F.
  pose proof (set_pc_MS2 _ _ _ _ _ _ _ _ _ _ (pc + 3) H) as H1. start2 H1 S1 F1.
  assert (Hlen : 0 < List.length (CL0 ++ [c])) by (rewrite app_length; cbn; lia).
  assert (Hp : mpeek (set_pc m (pc + 3)) 0 = MInt z) by (rewrite (mpeek2 _ _ _ 0 S1 Hlen), nth_last_snoc2, cv_set_pc; exact Hb).
  exists (set_pc m (pc + 3)). split; [open_step2 S0 F Hf; cbn [isize]; rewrite Hp; reflexivity|].
  split; [exact H1|]. split; [apply cv_set_pc|apply cn_set_pc].
Qed.

Lemma step2_jumpifstop_yes : forall m fn ups pc base frs CL0 c HL G O o,
  MS2 m fn ups pc base frs (CL0 ++ [c])%list HL G O -> fetch (code_of funs fn) pc = Some (IJumpIfStopIter o) ->
  cv m c = MStop ->
  exists m', mstep cf funs m = MRun m' /\ MS2 m' fn ups (pc + 3 + o) base frs (CL0 ++ [c])%list HL G O /\ cv m' = cv m /\ cn m' = cn m.
Proof.
  intros m fn ups pc base frs CL0 c HL G O o H Hf Hb. start2 H S0 F.
  pose proof (set_pc_MS2 _ _ _ _ _ _ _ _ _ _ (pc + 3) H) as H1. start2 H1 S1 F1.
  assert (Hlen : 0 < List.length (CL0 ++ [c])) by (rewrite app_length; cbn; lia).
  assert (Hp : mpeek (set_pc m (pc + 3)) 0 = MStop) by (rewrite (mpeek2 _ _ _ 0 S1 Hlen), nth_last_snoc2, cv_set_pc; exact Hb).
  pose proof (set_pc_MS2 _ _ _ _ _ _ _ _ _ _ (pc + 3 + o) H1) as H2.
  exists (set_pc (set_pc m (pc + 3)) (pc + 3 + o)). split; [open_step2 S0 F Hf; cbn [isize]; rewrite Hp; reflexivity|].
  split; [exact H2|]. split; [now rewrite !cv_set_pc|now rewrite !cn_set_pc].
Qed.

(* range.iter(): the range on top of the stack becomes an iterator, in place *)
Lemma step2_iter : forall m fn ups pc base frs CL0 c HL G O lo hi k,
  MS2 m fn ups pc base frs (CL0 ++ [c])%list HL G O -> fetch (code_of funs fn) pc = Some (IInvoke MIter k) ->
  cv m c = MRange lo hi ->
  exists m', mstep cf funs m = MRun m' /\
    MS2 m' fn ups (pc + 4) base frs (CL0 ++ [c])%list HL G O /\ cv m' = upd (cv m) c (MIterV lo hi) /\ cn m' = cn m.
Proof.
  intros m fn ups pc base frs CL0 c HL G O lo hi k H Hf Hb. start2 H S0 F.
  pose proof (set_pc_MS2 _ _ _ _ _ _ _ _ _ _ (pc + 4) H) as H1. start2 H1 S1 F1.
  assert (Hlen : 0 < List.length (CL0 ++ [c])) by (rewrite app_length; cbn; lia).
  assert (Hp : mpeek (set_pc m (pc + 4)) 0 = MRange lo hi) by (rewrite (mpeek2 _ _ _ 0 S1 Hlen), nth_last_snoc2, cv_set_pc; exact Hb).
  exists (mpoke (set_pc m (pc + 4)) 0 (MIterV lo hi)). split; [open_step2 S0 F Hf; cbn [isize]; rewrite Hp; reflexivity|].
  destruct (MS2_eff _ _ _ _ _ _ _ _ _ _ _ _ _ _ _ H1 (mpoke2 _ _ _ _ (MIterV lo hi) S1)) as (H2 & V2 & N2).
  rewrite cv_set_pc in V2. rewrite cn_set_pc in N2. auto.
Qed.

(* iterator.next() with the iterator on top of the stack *)
Lemma step2_iternext_more : forall m fn ups pc base frs CL0 c HL G O cur hi,
  MS2 m fn ups pc base frs (CL0 ++ [c])%list HL G O -> fetch (code_of funs fn) pc = Some IIterNext ->
  cv m c = MIterV cur hi -> Z.ltb cur hi = true ->
  exists m', mstep cf funs m = MRun m' /\
    MS2 m' fn ups (pc + 1) base frs (CL0 ++ [c; cn m])%list HL G O /\
    cv m' = upd (upd (cv m) c (MIterV (cur + 1) hi)) (cn m) (MInt cur) /\ cn m' = S (cn m).
Proof.
  intros m fn ups pc base frs CL0 c HL G O cur hi H Hf Hb Hlt. start2 H S0 F.
  pose proof (set_pc_MS2 _ _ _ _ _ _ _ _ _ _ (pc + 1) H) as H1. start2 H1 S1 F1.
  assert (Hlen : 0 < List.length (CL0 ++ [c])) by (rewrite app_length; cbn; lia).
  assert (Hp : mpeek (set_pc m (pc + 1)) 0 = MIterV cur hi) by (rewrite (mpeek2 _ _ _ 0 S1 Hlen), nth_last_snoc2, cv_set_pc; exact Hb).
  exists (mpush (mpoke (set_pc m (pc + 1)) 0 (MIterV (cur + 1) hi)) (MInt cur)). split; [open_step2 S0 F Hf; cbn [isize]; rewrite Hp, Hlt; reflexivity|].
  destruct (MS2_eff _ _ _ _ _ _ _ _ _ _ _ _ _ _ _ H1 (mpoke2 _ _ _ _ (MIterV (cur + 1) hi) S1)) as (H2 & V2 & N2). start2 H2 S2 F2.
  destruct (MS2_eff _ _ _ _ _ _ _ _ _ _ _ _ _ _ _ H2 (mpush2 _ _ _ (MInt cur) S2)) as (H3 & V3 & N3).
  rewrite N2, cn_set_pc in H3, V3, N3. rewrite V2, cv_set_pc in V3. rewrite <- app_assoc in H3. cbn [app] in H3. auto.
Qed.

Lemma step2_iternext_done : forall m fn ups pc base frs CL0 c HL G O cur hi,
  MS2 m fn ups pc base frs (CL0 ++ [c])%list HL G O -> fetch (code_of funs fn) pc = Some IIterNext ->
  cv m c = MIterV cur hi -> Z.ltb cur hi = false ->
  exists m', mstep cf funs m = MRun m' /\
    MS2 m' fn ups (pc + 1) base frs (CL0 ++ [c; cn m])%list HL G O /\
    cv m' = upd (cv m) (cn m) MStop /\ cn m' = S (cn m).
Proof.
  intros m fn ups pc base frs CL0 c HL G O cur hi H Hf Hb Hlt. start2 H S0 F.
  pose proof (set_pc_MS2 _ _ _ _ _ _ _ _ _ _ (pc + 1) H) as H1. start2 H1 S1 F1.
  assert (Hlen : 0 < List.length (CL0 ++ [c])) by (rewrite app_length; cbn; lia).
  assert (Hp : mpeek (set_pc m (pc + 1)) 0 = MIterV cur hi) by (rewrite (mpeek2 _ _ _ 0 S1 Hlen), nth_last_snoc2, cv_set_pc; exact Hb).
  exists (mpush (set_pc m (pc + 1)) MStop). split; [open_step2 S0 F Hf; cbn [isize]; rewrite Hp, Hlt; reflexivity|].
  destruct (MS2_eff _ _ _ _ _ _ _ _ _ _ _ _ _ _ _ H1 (mpush2 _ _ _ MStop S1)) as (H3 & V3 & N3).
  rewrite cn_set_pc in H3, V3, N3. rewrite cv_set_pc in V3. rewrite <- app_assoc in H3. cbn [app] in H3. auto.
Qed.

End Instr2.

Print Assumptions step2_call.
Print Assumptions step2_return.
Print Assumptions step2_return_done.
Print Assumptions step2_closure.

(* the hypotheses are satisfiable: the start state of the machine is an MS2 state (the script closure sits in
   cell 0, nothing captured) *)
Example MS2_start : forall funs,
  MS2 (m_start bk_c funs) (List.length funs - 1) [] 0 0 [] [0] [] [] [].
Proof.
  intros funs. constructor; [|constructor| |]; try reflexivity; try discriminate.
  constructor; try reflexivity.
  - intros c [<-|[]]. cbn. lia.
  - constructor; [intros []|constructor].
  - intros c [].
  - constructor.
Qed.
