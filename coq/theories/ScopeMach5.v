(* C06 - stage 5 (throw / try-catch): the machine over the cell-store backend bk_c with the exception-handler stack of
   fiber 0 made visible.  ScopeMach2.MS2 describes frames, stack cells, captured cells, globals and output and says
   nothing about mf_handlers; here
     hof m          = the handler stack of fiber 0,
     hkeep          : every instruction other than PushExcHandler / PopExcHandler / Throw / fiber calls leaves it alone,
     MS5 hs m ...   = MS2 m ... together with hof m = hs, and one step5_* lemma per step2_* lemma,
     step5_pushexc / step5_popexc / step5_throw : the three handler instructions.  Throw = unwind_stack: with
       c_unwind_closes cf = true (close_upvalues(handler height), then truncate) the discipline flag stays down whatever
       is captured above the handler's height (the cell store forgets the slots, the cells and handles stay: "closed
       with their current value"), the frames above the handler's frame count are dropped, the exception lands in a
       fresh cell at the handler's height;  step5_throw_uncaught: no handler -> MErr.
   PROOFS ONLY. *)
From Coq Require Import List Arith Bool String ZArith NArith Lia.
From YV Require Import Show Upvalues Cells ScopeLang ScopeComp ScopeSim ScopeDefs2 ScopeMach2.
Import ListNotations.
Import Gen.
Open Scope nat_scope.

Definition hof (m : cmach) : list handler := mf_handlers (fib0 m).

(* instructions that do not touch the handler stack of fiber 0 (and are not fiber calls) *)
Definition plain (i : instr) : bool :=
  match i with
  | IPushExc _ _ | IPopExc | IThrow => false
  | IInvoke MIter _ => true
  | IInvoke _ _ => false
  | _ => true
  end.

Definition cur0 (m : cmach) : Prop := bcur bk_c (m_up m) = 0.

Lemma sstep_scur : forall (u : cstore) o, (forall f, o <> SwitchFiber f) -> scur (fst (sstep u o)) = scur u.
Proof.
  intros u o Ho. destruct o; cbn [sstep]; cbv zeta;
    repeat match goal with |- context [if ?b then _ else _] => destruct b end;
    try match goal with |- context [match ?x with Some _ => _ | None => _ end] => destruct x end;
    try reflexivity.
  exfalso. eapply Ho. reflexivity.
Qed.

Lemma uop_fibs : forall (m : cmach) o, m_fibs (fst (uop m o)) = m_fibs m.
Proof. intros m o. unfold uop. destruct (bstep bk_c (m_up m) o). reflexivity. Qed.

Lemma uop_cur0 : forall (m : cmach) o, (forall f, o <> SwitchFiber f) -> cur0 m -> cur0 (fst (uop m o)).
Proof.
  intros m o Ho H. unfold cur0, uop in *. cbn [bstep bk_c bcur] in *.
  pose proof (sstep_scur (fst (m_up m)) o Ho) as E. destruct (sstep (fst (m_up m)) o) as [u' b]. cbn in *. congruence.
Qed.

Lemma hof_uop : forall (m : cmach) o, hof (fst (uop m o)) = hof m.
Proof. intros m o. unfold hof, fib0. now rewrite uop_fibs. Qed.

Lemma hof_udo : forall (m : cmach) o, hof (udo m o) = hof m.
Proof. intros. apply hof_uop. Qed.
Lemma cur0_udo : forall (m : cmach) o, (forall f, o <> SwitchFiber f) -> cur0 m -> cur0 (udo m o).
Proof. intros. now apply uop_cur0. Qed.

Lemma hof_mpush : forall (m : cmach) v, hof (mpush m v) = hof m.
Proof. intros. apply hof_udo. Qed.
Lemma hof_mpop : forall (m : cmach), hof (mpop m) = hof m.
Proof. intros. apply hof_udo. Qed.
Lemma hof_mpoke : forall (m : cmach) d v, hof (mpoke m d v) = hof m.
Proof. intros. apply hof_udo. Qed.
Lemma hof_mpopn : forall n (m : cmach), hof (mpopn n m) = hof m.
Proof. induction n as [|n IH]; intros m; [reflexivity|]. cbn [mpopn]. now rewrite IH, hof_mpop. Qed.
Lemma cur0_mpush : forall (m : cmach) v, cur0 m -> cur0 (mpush m v).
Proof. intros. apply cur0_udo; [discriminate|assumption]. Qed.
Lemma cur0_mpop : forall (m : cmach), cur0 m -> cur0 (mpop m).
Proof. intros. apply cur0_udo; [discriminate|assumption]. Qed.
Lemma cur0_mpoke : forall (m : cmach) d v, cur0 m -> cur0 (mpoke m d v).
Proof. intros. apply cur0_udo; [discriminate|assumption]. Qed.
Lemma cur0_mpopn : forall n (m : cmach), cur0 m -> cur0 (mpopn n m).
Proof. induction n as [|n IH]; intros m H; [exact H|]. cbn [mpopn]. apply IH. now apply cur0_mpop. Qed.

Lemma nth0_set_nth0_h : forall (l : list mfib) f, mf_handlers f = mf_handlers (nth 0 l dfib) ->
  mf_handlers (nth 0 (set_nth l 0 f) dfib) = mf_handlers (nth 0 l dfib).
Proof. intros [|a r] f H; [reflexivity|exact H]. Qed.

(* replacing the frames (or the pc) of the running fiber, when that is fiber 0 *)
Lemma hof_put_frames : forall (m : cmach) fr, cur0 m -> hof (put_cur m (with_frames (cur_fib m) fr)) = hof m.
Proof.
  intros m fr H. unfold hof, fib0, put_cur, put_fib, cur_fib, set_fibs. unfold cur0 in H. rewrite H. cbn [m_fibs].
  apply nth0_set_nth0_h. reflexivity.
Qed.

Lemma cur0_put_cur : forall (m : cmach) f, cur0 m -> cur0 (put_cur m f).
Proof. intros m f H. exact H. Qed.

Lemma hof_set_pc : forall (m : cmach) pc, cur0 m -> hof (set_pc m pc) = hof m.
Proof.
  intros m pc H. unfold set_pc. cbv zeta. destruct (mf_frames (cur_fib m)) as [|fr r] eqn:E; [reflexivity|].
  now apply hof_put_frames.
Qed.

Lemma cur0_set_pc : forall (m : cmach) pc, cur0 m -> cur0 (set_pc m pc).
Proof. intros m pc H. unfold cur0. now rewrite m_up_set_pc. Qed.

Lemma hof_capture_all : forall d (m : cmach) base parent acc,
  hof (fst (capture_all bk_c m base parent d acc)) = hof m.
Proof.
  induction d as [|[b i] r IH]; intros m base parent acc; [reflexivity|]. cbn [capture_all]. destruct b.
  - pose proof (hof_uop m (Capture (base + i))) as E. destruct (uop m (Capture (base + i))) as [m1 [|v|k|]]; cbn [fst] in E; now rewrite IH.
  - apply IH.
Qed.

Lemma hof_with : forall (m : cmach) g v o, hof (mkMach (m_up m) (m_fibs m) g v o) = hof m.
Proof. reflexivity. Qed.
Lemma cur0_with : forall (m : cmach) g v o, cur0 m -> cur0 (mkMach (m_up m) (m_fibs m) g v o).
Proof. intros m g v o H. exact H. Qed.

Lemma MS2_cur0 : forall m fn ups pc base frs CL HL G O, MS2 m fn ups pc base frs CL HL G O -> cur0 m.
Proof. intros m fn ups pc base frs CL HL G O H. exact (s2_cur _ _ _ (m2_s _ _ _ _ _ _ _ _ _ _ H)). Qed.

Lemma firstn_app_le' : forall A (a b : list A) n, n <= List.length a -> firstn n (a ++ b) = firstn n a.
Proof. intros A a b n H. rewrite firstn_app. replace (n - List.length a) with 0 by lia. cbn. now rewrite app_nil_r. Qed.

Section Keep.
Variable cf : cfg.
Variable funs : list func.

Ltac hsolve :=
  repeat first [ rewrite hof_mpush | rewrite hof_mpoke | rewrite hof_mpop | rewrite hof_mpopn | rewrite hof_udo | rewrite hof_uop
               | rewrite hof_with | rewrite hof_put_frames | rewrite hof_set_pc ];
  auto using cur0_mpush, cur0_mpop, cur0_mpoke, cur0_mpopn, cur0_set_pc, cur0_with, cur0_put_cur.

Lemma hkeep : forall m m' fn ups pc base frs CL HL G O i,
  MS2 m fn ups pc base frs CL HL G O -> fetch (code_of funs fn) pc = Some i -> plain i = true ->
  mstep cf funs m = MRun m' -> hof m' = hof m.
Proof.
  intros m m' fn ups pc base frs CL HL G O i H Hf Hp E. start2 H S0 F.
  pose proof (MS2_cur0 _ _ _ _ _ _ _ _ _ _ H) as C0.
  revert E. open_step2 S0 F Hf.
  set (m1 := set_pc m (pc + isize i)).
  assert (C1 : cur0 m1) by (now apply cur0_set_pc).
  assert (H1 : hof m1 = hof m) by (now apply hof_set_pc).
  clearbody m1. rewrite <- H1. clear H1 H S0 F Hf C0.
  destruct i; try discriminate Hp; intros E.
  - inversion E; subst. hsolve.
  - inversion E; subst. hsolve.
  - inversion E; subst. hsolve.
  - destruct (uop m1 (GetSlot (base + i))) as [m2 [|v|k|]] eqn:Eu; inversion E; subst.
    pose proof (hof_uop m1 (GetSlot (base + i))) as X. rewrite Eu in X. cbn [fst] in X. hsolve.
  - inversion E; subst. hsolve.
  - destruct g; [destruct (assoc (m_globals m1) x)|..]; inversion E; subst; hsolve.
  - inversion E; subst. hsolve.
  - destruct (assoc (m_globals m1) x); inversion E; subst; hsolve.
  - destruct (uop m1 (ReadUp (nth i ups 0))) as [m2 [|v|k|]] eqn:Eu; inversion E; subst.
    pose proof (hof_uop m1 (ReadUp (nth i ups 0))) as X. rewrite Eu in X. cbn [fst] in X. hsolve.
  - inversion E; subst. hsolve.
  - destruct (mpeek m1 1); try discriminate E; destruct (mpeek m1 0); inversion E; subst; hsolve.
  - destruct (mpeek m1 1); try discriminate E; destruct (mpeek m1 0); inversion E; subst; hsolve.
  - inversion E; subst. hsolve.
  - destruct (mpeek m1 0) as [| | |[|]| | | | | | |]; inversion E; subst; hsolve.
  - destruct (mpeek m1 0); inversion E; subst; hsolve.
  - inversion E; subst. hsolve.
  - destruct (mpeek m1 n) as [| | | |fnc U| | | | | |]; try discriminate E.
    + destruct (f_arity (nth fnc funs dfunc) =? n); inversion E; subst. hsolve.
    + destruct (n =? 1); inversion E; subst. hsolve.
  - destruct m0; try discriminate Hp. destruct (mpeek m1 0); inversion E; subst; hsolve.
  - destruct (capture_all bk_c (mpush m1 (MClo fn0 [])) base ups descs []) as [m2 U] eqn:Ec.
    inversion E; subst. pose proof (hof_capture_all descs (mpush m1 (MClo fn0 [])) base ups []) as X.
    rewrite Ec in X. cbn [fst] in X. hsolve.
  - inversion E; subst. hsolve.
  - (* IReturn *)
    set (m2 := udo (mpop m1) (ReturnFrame base)) in *.
    assert (C2 : cur0 m2) by (apply cur0_udo; [discriminate|now apply cur0_mpop]).
    assert (H2 : hof m2 = hof m1) by (unfold m2; now rewrite hof_udo, hof_mpop).
    destruct frs as [|fr frs'].
    + destruct (mf_caller (cur_fib m2)); inversion E; subst. rewrite hof_mpoke, hof_udo. rewrite hof_put_frames by exact C2. exact H2.
    + inversion E; subst. rewrite hof_mpush. rewrite hof_put_frames by exact C2. exact H2.
  - destruct (mpeek m1 1); try discriminate E; destruct (mpeek m1 0); inversion E; subst; hsolve.
  - inversion E; subst. hsolve.
  - destruct (mpeek m1 0) as [| | | | | | |c hi| | |]; try discriminate E. destruct (Z.ltb c hi); inversion E; subst; hsolve.
  - destruct (mpeek m1 1); try discriminate E; destruct (mpeek m1 0); try discriminate E.
    destruct (nth_error _ _); inversion E; subst; hsolve.
Qed.

End Keep.

(* ------------------------------------------------------------------------------------------ *)
(* the machine state with the handler stack of fiber 0 *)

Record MS5 (hs : list handler) (m : cmach) (fn : nat) (ups : list nat) (pc base : nat) (frs : list frame)
           (CL HL : list nat) (G : list (name * mval)) (O : list string) : Prop := mkMS5 {
  m5_m : MS2 m fn ups pc base frs CL HL G O;
  m5_h : hof m = hs
}.

Lemma m5_s : forall hs m fn ups pc base frs CL HL G O, MS5 hs m fn ups pc base frs CL HL G O -> SOK2 m CL HL.
Proof. intros hs m fn ups pc base frs CL HL G O H. exact (m2_s _ _ _ _ _ _ _ _ _ _ (m5_m _ _ _ _ _ _ _ _ _ _ _ H)). Qed.

Section Instr5.
Variable cf : cfg.
Variable funs : list func.

Ltac wrap5 L :=
  intros;
  match goal with
  | HM5 : MS5 _ _ _ _ _ _ _ _ _ _ _, Hf : fetch _ _ = Some _ |- _ =>
      let HM := fresh "HM" in let Hh := fresh "Hh" in let m' := fresh "m'" in
      let A := fresh "A" in let B := fresh "B" in let R := fresh "R" in
      destruct HM5 as [HM Hh];
      edestruct L as (m' & A & B & R); [exact HM | exact Hf | eassumption ..|];
      exists m'; split; [exact A|]; split;
        [constructor; [exact B|rewrite <- Hh; eapply (hkeep cf funs); [exact HM|exact Hf|reflexivity|exact A]]|exact R]
  end.

Lemma step5_const : forall hs m fn ups pc base frs CL HL G O n,
  MS5 hs m fn ups pc base frs CL HL G O -> fetch (code_of funs fn) pc = Some (IConst n) ->
  exists m', mstep cf funs m = MRun m' /\
    MS5 hs m' fn ups (pc + 3) base frs (CL ++ [cn m])%list HL G O /\
    cv m' = upd (cv m) (cn m) (MInt (Z.of_N n)) /\ cn m' = S (cn m).
Proof. wrap5 (step2_const cf funs). Qed.

Lemma step5_nil : forall hs m fn ups pc base frs CL HL G O,
  MS5 hs m fn ups pc base frs CL HL G O -> fetch (code_of funs fn) pc = Some INil ->
  exists m', mstep cf funs m = MRun m' /\
    MS5 hs m' fn ups (pc + 1) base frs (CL ++ [cn m])%list HL G O /\
    cv m' = upd (cv m) (cn m) MNil /\ cn m' = S (cn m).
Proof. wrap5 (step2_nil cf funs). Qed.

Lemma step5_pop : forall hs m fn ups pc base frs CL0 c HL G O,
  MS5 hs m fn ups pc base frs (CL0 ++ [c])%list HL G O -> fetch (code_of funs fn) pc = Some IPop -> ~ In c HL ->
  exists m', mstep cf funs m = MRun m' /\
    MS5 hs m' fn ups (pc + 1) base frs CL0 HL G O /\ cv m' = cv m /\ cn m' = cn m.
Proof. wrap5 (step2_pop cf funs). Qed.

Lemma step5_closeup : forall hs m fn ups pc base frs CL0 c HL G O,
  MS5 hs m fn ups pc base frs (CL0 ++ [c])%list HL G O -> fetch (code_of funs fn) pc = Some ICloseUpvalue ->
  exists m', mstep cf funs m = MRun m' /\
    MS5 hs m' fn ups (pc + 1) base frs CL0 HL G O /\ cv m' = cv m /\ cn m' = cn m.
Proof. wrap5 (step2_closeup cf funs). Qed.

Lemma step5_getlocal : forall hs m fn ups pc base frs CL HL G O k,
  MS5 hs m fn ups pc base frs CL HL G O -> fetch (code_of funs fn) pc = Some (IGetLocal k) ->
  base + k < List.length CL ->
  exists m', mstep cf funs m = MRun m' /\
    MS5 hs m' fn ups (pc + 2) base frs (CL ++ [cn m])%list HL G O /\
    cv m' = upd (cv m) (cn m) (cv m (nth (base + k) CL 0)) /\ cn m' = S (cn m).
Proof. wrap5 (step2_getlocal cf funs). Qed.

Lemma step5_setlocal : forall hs m fn ups pc base frs CL0 c HL G O k,
  MS5 hs m fn ups pc base frs (CL0 ++ [c])%list HL G O -> fetch (code_of funs fn) pc = Some (ISetLocal k) ->
  base + k < List.length CL0 ->
  exists m', mstep cf funs m = MRun m' /\
    MS5 hs m' fn ups (pc + 2) base frs (CL0 ++ [c])%list HL G O /\
    cv m' = upd (cv m) (nth (base + k) CL0 0) (cv m c) /\ cn m' = cn m.
Proof. wrap5 (step2_setlocal cf funs). Qed.

Lemma step5_getglobal : forall hs m fn ups pc base frs CL HL G O x v,
  MS5 hs m fn ups pc base frs CL HL G O -> fetch (code_of funs fn) pc = Some (IGetGlobal (GUser x)) ->
  assoc G x = Some v ->
  exists m', mstep cf funs m = MRun m' /\
    MS5 hs m' fn ups (pc + 3) base frs (CL ++ [cn m])%list HL G O /\
    cv m' = upd (cv m) (cn m) v /\ cn m' = S (cn m).
Proof. wrap5 (step2_getglobal cf funs). Qed.

Lemma step5_getprint : forall hs m fn ups pc base frs CL HL G O,
  MS5 hs m fn ups pc base frs CL HL G O -> fetch (code_of funs fn) pc = Some (IGetGlobal GPrint) ->
  exists m', mstep cf funs m = MRun m' /\
    MS5 hs m' fn ups (pc + 3) base frs (CL ++ [cn m])%list HL G O /\
    cv m' = upd (cv m) (cn m) MPrintFn /\ cn m' = S (cn m).
Proof. wrap5 (step2_getprint cf funs). Qed.

Lemma step5_defglobal : forall hs m fn ups pc base frs CL0 c HL G O x,
  MS5 hs m fn ups pc base frs (CL0 ++ [c])%list HL G O -> fetch (code_of funs fn) pc = Some (IDefineGlobal x) ->
  ~ In c HL ->
  exists m', mstep cf funs m = MRun m' /\
    MS5 hs m' fn ups (pc + 3) base frs CL0 HL (set_assoc G x (cv m c)) O /\ cv m' = cv m /\ cn m' = cn m.
Proof. wrap5 (step2_defglobal cf funs). Qed.

Lemma step5_setglobal : forall hs m fn ups pc base frs CL0 c HL G O x w,
  MS5 hs m fn ups pc base frs (CL0 ++ [c])%list HL G O -> fetch (code_of funs fn) pc = Some (ISetGlobal x) ->
  assoc G x = Some w ->
  exists m', mstep cf funs m = MRun m' /\
    MS5 hs m' fn ups (pc + 3) base frs (CL0 ++ [c])%list HL (set_assoc G x (cv m c)) O /\ cv m' = cv m /\ cn m' = cn m.
Proof. wrap5 (step2_setglobal cf funs). Qed.

Lemma step5_getupvalue : forall hs m fn ups pc base frs CL HL G O k,
  MS5 hs m fn ups pc base frs CL HL G O -> fetch (code_of funs fn) pc = Some (IGetUpvalue k) ->
  nth k ups 0 < List.length HL ->
  exists m', mstep cf funs m = MRun m' /\
    MS5 hs m' fn ups (pc + 2) base frs (CL ++ [cn m])%list HL G O /\
    cv m' = upd (cv m) (cn m) (cv m (nth (nth k ups 0) HL 0)) /\ cn m' = S (cn m).
Proof. wrap5 (step2_getupvalue cf funs). Qed.

Lemma step5_setupvalue : forall hs m fn ups pc base frs CL0 c HL G O k,
  MS5 hs m fn ups pc base frs (CL0 ++ [c])%list HL G O -> fetch (code_of funs fn) pc = Some (ISetUpvalue k) ->
  nth k ups 0 < List.length HL ->
  exists m', mstep cf funs m = MRun m' /\
    MS5 hs m' fn ups (pc + 2) base frs (CL0 ++ [c])%list HL G O /\
    cv m' = upd (cv m) (nth (nth k ups 0) HL 0) (cv m c) /\ cn m' = cn m.
Proof. wrap5 (step2_setupvalue cf funs). Qed.

Lemma step5_add : forall hs m fn ups pc base frs CL0 c1 c2 HL G O a b,
  MS5 hs m fn ups pc base frs (CL0 ++ [c1; c2])%list HL G O -> fetch (code_of funs fn) pc = Some IAdd ->
  cv m c1 = MInt a -> cv m c2 = MInt b -> ~ In c1 HL -> ~ In c2 HL ->
  exists m', mstep cf funs m = MRun m' /\
    MS5 hs m' fn ups (pc + 1) base frs (CL0 ++ [cn m])%list HL G O /\
    cv m' = upd (cv m) (cn m) (MInt (a + b)) /\ cn m' = S (cn m).
Proof. wrap5 (step2_add cf funs). Qed.

Lemma step5_callprint : forall hs m fn ups pc base frs CL0 c1 c2 HL G O,
  MS5 hs m fn ups pc base frs (CL0 ++ [c1; c2])%list HL G O -> fetch (code_of funs fn) pc = Some (ICall 1) ->
  cv m c1 = MPrintFn -> ~ In c2 HL ->
  exists m', mstep cf funs m = MRun m' /\
    MS5 hs m' fn ups (pc + 2) base frs (CL0 ++ [c1])%list HL G (show_mval (cv m c2) :: O) /\
    cv m' = upd (cv m) c1 MNil /\ cn m' = cn m.
Proof. wrap5 (step2_callprint cf funs). Qed.

Lemma step5_call : forall hs m fn ups pc base frs CL0 c args HL G O n fnc U,
  MS5 hs m fn ups pc base frs (CL0 ++ c :: args)%list HL G O -> fetch (code_of funs fn) pc = Some (ICall n) ->
  List.length args = n -> cv m c = MClo fnc U -> f_arity (nth fnc funs dfunc) = n ->
  exists m', mstep cf funs m = MRun m' /\
    MS5 hs m' fnc U 0 (List.length CL0) (mkFrame fn ups (pc + 2) base :: frs) (CL0 ++ c :: args)%list HL G O /\
    cv m' = cv m /\ cn m' = cn m.
Proof. wrap5 (step2_call cf funs). Qed.

Lemma step5_return : forall hs m fn ups pc base fn' ups' pc' base' frs' CLa c HL G O,
  MS5 hs m fn ups pc base (mkFrame fn' ups' pc' base' :: frs') (CLa ++ [c])%list HL G O ->
  fetch (code_of funs fn) pc = Some IReturn -> base <= List.length CLa -> ~ In c HL ->
  exists m', mstep cf funs m = MRun m' /\
    MS5 hs m' fn' ups' pc' base' frs' (firstn base CLa ++ [cn m])%list HL G O /\
    cv m' = upd (cv m) (cn m) (cv m c) /\ cn m' = S (cn m).
Proof. wrap5 (step2_return cf funs). Qed.

Lemma step5_closure : forall hs m fn ups pc base frs CL HL G O fnc descs HL' U',
  MS5 hs m fn ups pc base frs CL HL G O -> fetch (code_of funs fn) pc = Some (IClosure fnc descs) ->
  Forall (fun d : bool * nat => fst d = true /\ base + snd d < List.length CL) descs ->
  capture_cells HL (map (fun d : bool * nat => nth (base + snd d) CL 0) descs) = (HL', U') ->
  exists m', mstep cf funs m = MRun m' /\
    MS5 hs m' fn ups (pc + 3 + 2 * List.length descs) base frs (CL ++ [cn m])%list HL' G O /\
    cv m' = upd (upd (cv m) (cn m) (MClo fnc [])) (cn m) (MClo fnc U') /\
    (forall j, cv m' j = upd (cv m) (cn m) (MClo fnc U') j) /\
    cn m' = S (cn m).
Proof. wrap5 (step2_closure cf funs). Qed.

Lemma step5_closure_g : forall hs m fn ups pc base frs CL HL G O fnc descs HL' U',
  MS5 hs m fn ups pc base frs CL HL G O -> fetch (code_of funs fn) pc = Some (IClosure fnc descs) ->
  Forall (fun d : bool * nat => fst d = true /\ base + snd d < List.length (CL ++ [cn m])%list) descs ->
  capture_cells HL (map (fun d : bool * nat => nth (base + snd d) (CL ++ [cn m])%list 0) descs) = (HL', U') ->
  exists m', mstep cf funs m = MRun m' /\
    MS5 hs m' fn ups (pc + 3 + 2 * List.length descs) base frs (CL ++ [cn m])%list HL' G O /\
    (forall j, cv m' j = upd (cv m) (cn m) (MClo fnc U') j) /\
    cn m' = S (cn m).
Proof. wrap5 (step2_closure_g cf funs). Qed.

Lemma step5_closure_n : forall hs m fn ups pc base frs CL HL G O fnc descs HL' U',
  MS5 hs m fn ups pc base frs CL HL G O -> fetch (code_of funs fn) pc = Some (IClosure fnc descs) ->
  Forall (fun d : bool * nat => fst d = true -> base + snd d < List.length (CL ++ [cn m])%list) descs ->
  capture_g HL ups (CL ++ [cn m])%list base descs = (HL', U') ->
  exists m', mstep cf funs m = MRun m' /\
    MS5 hs m' fn ups (pc + 3 + 2 * List.length descs) base frs (CL ++ [cn m])%list HL' G O /\
    (forall j, cv m' j = upd (cv m) (cn m) (MClo fnc U') j) /\
    cn m' = S (cn m).
Proof. wrap5 (step2_closure_n cf funs). Qed.

Lemma step5_less : forall hs m fn ups pc base frs CL0 c1 c2 HL G O a b,
  MS5 hs m fn ups pc base frs (CL0 ++ [c1; c2])%list HL G O -> fetch (code_of funs fn) pc = Some ILess ->
  cv m c1 = MInt a -> cv m c2 = MInt b -> ~ In c1 HL -> ~ In c2 HL ->
  exists m', mstep cf funs m = MRun m' /\
    MS5 hs m' fn ups (pc + 1) base frs (CL0 ++ [cn m])%list HL G O /\
    cv m' = upd (cv m) (cn m) (MBool (Z.ltb a b)) /\ cn m' = S (cn m).
Proof. wrap5 (step2_less cf funs). Qed.

Lemma step5_buildrange : forall hs m fn ups pc base frs CL0 c1 c2 HL G O a b,
  MS5 hs m fn ups pc base frs (CL0 ++ [c1; c2])%list HL G O -> fetch (code_of funs fn) pc = Some IBuildRange ->
  cv m c1 = MInt a -> cv m c2 = MInt b -> ~ In c1 HL -> ~ In c2 HL ->
  exists m', mstep cf funs m = MRun m' /\
    MS5 hs m' fn ups (pc + 1) base frs (CL0 ++ [cn m])%list HL G O /\
    cv m' = upd (cv m) (cn m) (MRange a b) /\ cn m' = S (cn m).
Proof. wrap5 (step2_buildrange cf funs). Qed.

Lemma step5_jump : forall hs m fn ups pc base frs CL HL G O o,
  MS5 hs m fn ups pc base frs CL HL G O -> fetch (code_of funs fn) pc = Some (IJump o) ->
  exists m', mstep cf funs m = MRun m' /\ MS5 hs m' fn ups (pc + 3 + o) base frs CL HL G O /\ cv m' = cv m /\ cn m' = cn m.
Proof. wrap5 (step2_jump cf funs). Qed.

Lemma step5_loop : forall hs m fn ups pc base frs CL HL G O o,
  MS5 hs m fn ups pc base frs CL HL G O -> fetch (code_of funs fn) pc = Some (ILoop o) ->
  exists m', mstep cf funs m = MRun m' /\ MS5 hs m' fn ups (pc + 3 - o) base frs CL HL G O /\ cv m' = cv m /\ cn m' = cn m.
Proof. wrap5 (step2_loop cf funs). Qed.

Lemma step5_jumpiffalse : forall hs m fn ups pc base frs CL0 c HL G O o b,
  MS5 hs m fn ups pc base frs (CL0 ++ [c])%list HL G O -> fetch (code_of funs fn) pc = Some (IJumpIfFalse o) ->
  cv m c = MBool b ->
  exists m', mstep cf funs m = MRun m' /\
    MS5 hs m' fn ups (if b then pc + 3 else pc + 3 + o) base frs (CL0 ++ [c])%list HL G O /\ cv m' = cv m /\ cn m' = cn m.
Proof. wrap5 (step2_jumpiffalse cf funs). Qed.

Lemma step5_jumpifstop_no : forall hs m fn ups pc base frs CL0 c HL G O o z,
  MS5 hs m fn ups pc base frs (CL0 ++ [c])%list HL G O -> fetch (code_of funs fn) pc = Some (IJumpIfStopIter o) ->
  cv m c = MInt z ->
  exists m', mstep cf funs m = MRun m' /\ MS5 hs m' fn ups (pc + 3) base frs (CL0 ++ [c])%list HL G O /\ cv m' = cv m /\ cn m' = cn m.
Proof. wrap5 (step2_jumpifstop_no cf funs). Qed.

Lemma step5_jumpifstop_yes : forall hs m fn ups pc base frs CL0 c HL G O o,
  MS5 hs m fn ups pc base frs (CL0 ++ [c])%list HL G O -> fetch (code_of funs fn) pc = Some (IJumpIfStopIter o) ->
  cv m c = MStop ->
  exists m', mstep cf funs m = MRun m' /\ MS5 hs m' fn ups (pc + 3 + o) base frs (CL0 ++ [c])%list HL G O /\ cv m' = cv m /\ cn m' = cn m.
Proof. wrap5 (step2_jumpifstop_yes cf funs). Qed.

Lemma step5_iter : forall hs m fn ups pc base frs CL0 c HL G O lo hi k,
  MS5 hs m fn ups pc base frs (CL0 ++ [c])%list HL G O -> fetch (code_of funs fn) pc = Some (IInvoke MIter k) ->
  cv m c = MRange lo hi ->
  exists m', mstep cf funs m = MRun m' /\
    MS5 hs m' fn ups (pc + 4) base frs (CL0 ++ [c])%list HL G O /\ cv m' = upd (cv m) c (MIterV lo hi) /\ cn m' = cn m.
Proof. wrap5 (step2_iter cf funs). Qed.

Lemma step5_iternext_more : forall hs m fn ups pc base frs CL0 c HL G O cur hi,
  MS5 hs m fn ups pc base frs (CL0 ++ [c])%list HL G O -> fetch (code_of funs fn) pc = Some IIterNext ->
  cv m c = MIterV cur hi -> Z.ltb cur hi = true ->
  exists m', mstep cf funs m = MRun m' /\
    MS5 hs m' fn ups (pc + 1) base frs (CL0 ++ [c; cn m])%list HL G O /\
    cv m' = upd (upd (cv m) c (MIterV (cur + 1) hi)) (cn m) (MInt cur) /\ cn m' = S (cn m).
Proof. wrap5 (step2_iternext_more cf funs). Qed.

Lemma step5_iternext_done : forall hs m fn ups pc base frs CL0 c HL G O cur hi,
  MS5 hs m fn ups pc base frs (CL0 ++ [c])%list HL G O -> fetch (code_of funs fn) pc = Some IIterNext ->
  cv m c = MIterV cur hi -> Z.ltb cur hi = false ->
  exists m', mstep cf funs m = MRun m' /\
    MS5 hs m' fn ups (pc + 1) base frs (CL0 ++ [c; cn m])%list HL G O /\
    cv m' = upd (cv m) (cn m) MStop /\ cn m' = S (cn m).
Proof. wrap5 (step2_iternext_done cf funs). Qed.

(* ---- the three handler instructions ---- *)

(* replace the record of fiber 0 by one with the given frames / handlers *)
Lemma put_fib_MS2 : forall (m : cmach) fn ups pc base frs CL HL G O (f : mfib) fn' ups' pc' base' frs',
  MS2 m fn ups pc base frs CL HL G O -> mf_frames f = mkFrame fn' ups' pc' base' :: frs' -> mf_caller f = None ->
  MS2 (put_cur m f) fn' ups' pc' base' frs' CL HL G O /\ hof (put_cur m f) = mf_handlers f /\
  cv (put_cur m f) = cv m /\ cn (put_cur m f) = cn m.
Proof.
  intros m fn ups pc base frs CL HL G O f fn' ups' pc' base' frs' [S [F1 F2 F3] Hg Ho] Hfr Hca.
  unfold put_cur, put_fib, hof. cbn [bcur bk_c]. fold (st_of m). rewrite (s2_cur _ _ _ S).
  split; [|split; [|split; reflexivity]].
  - constructor; auto.
    + destruct S as [A B C D E1 E2 E3 E4]. constructor; auto.
    + constructor; unfold fib0, set_fibs; cbn [m_fibs].
      * destruct (m_fibs m); [congruence|discriminate].
      * rewrite nth0_set_nth0 by exact F1. exact Hfr.
      * rewrite nth0_set_nth0 by exact F1. exact Hca.
  - unfold fib0, set_fibs. cbn [m_fibs]. now rewrite nth0_set_nth0 by exact F1.
Qed.

Lemma step5_pushexc : forall hs m fn ups pc base frs CL HL G O a b,
  MS5 hs m fn ups pc base frs CL HL G O -> fetch (code_of funs fn) pc = Some (IPushExc a b) ->
  exists m', mstep cf funs m = MRun m' /\
    MS5 (mkH (pc + 5 + a) (List.length CL) (S (List.length frs)) :: hs) m' fn ups (pc + 5) base frs CL HL G O /\
    cv m' = cv m /\ cn m' = cn m.
Proof.
  intros hs m fn ups pc base frs CL HL G O a b [H Hh] Hf. start2 H S0 F.
  pose proof (set_pc_MS2 _ _ _ _ _ _ _ _ _ _ (pc + 5) H) as H1. start2 H1 S1 F1.
  pose proof (MS2_cur0 _ _ _ _ _ _ _ _ _ _ H) as C0.
  eexists. split; [open_step2 S0 F Hf; reflexivity|]. cbn [isize].
  rewrite (cur_fib_c2 _ _ _ S1), (mlen_c2 _ _ _ S1), (fok_frames _ _ _ _ _ _ F1).
  set (f := with_handlers (fib0 (set_pc m (pc + 5))) _).
  destruct (put_fib_MS2 _ _ _ _ _ _ _ _ _ _ f fn ups (pc + 5) base frs H1) as (A & B & C & D).
  { unfold f. cbn [with_handlers mf_frames]. exact (fok_frames _ _ _ _ _ _ F1). }
  { unfold f. cbn [with_handlers mf_caller]. exact (fok_caller _ _ _ _ _ _ F1). }
  split; [constructor; [exact A|]|split; [now rewrite C, cv_set_pc|now rewrite D, cn_set_pc]].
  rewrite B. unfold f. cbn [with_handlers mf_handlers List.length]. f_equal.
  change (mf_handlers (fib0 (set_pc m (pc + 5)))) with (hof (set_pc m (pc + 5))). now rewrite hof_set_pc.
Qed.

Lemma step5_popexc : forall hs m fn ups pc base frs CL HL G O,
  MS5 hs m fn ups pc base frs CL HL G O -> fetch (code_of funs fn) pc = Some IPopExc ->
  exists m', mstep cf funs m = MRun m' /\
    MS5 (tl hs) m' fn ups (pc + 1) base frs CL HL G O /\ cv m' = cv m /\ cn m' = cn m.
Proof.
  intros hs m fn ups pc base frs CL HL G O [H Hh] Hf. start2 H S0 F.
  pose proof (set_pc_MS2 _ _ _ _ _ _ _ _ _ _ (pc + 1) H) as H1. start2 H1 S1 F1.
  pose proof (MS2_cur0 _ _ _ _ _ _ _ _ _ _ H) as C0.
  eexists. split; [open_step2 S0 F Hf; reflexivity|]. cbn [isize].
  rewrite (cur_fib_c2 _ _ _ S1).
  set (f := with_handlers (fib0 (set_pc m (pc + 1))) _).
  destruct (put_fib_MS2 _ _ _ _ _ _ _ _ _ _ f fn ups (pc + 1) base frs H1) as (A & B & C & D).
  { unfold f. cbn [with_handlers mf_frames]. exact (fok_frames _ _ _ _ _ _ F1). }
  { unfold f. cbn [with_handlers mf_caller]. exact (fok_caller _ _ _ _ _ _ F1). }
  split; [constructor; [exact A|]|split; [now rewrite C, cv_set_pc|now rewrite D, cn_set_pc]].
  rewrite B. unfold f. cbn [with_handlers mf_handlers]. f_equal.
  change (mf_handlers (fib0 (set_pc m (pc + 1)))) with (hof (set_pc m (pc + 1))). now rewrite hof_set_pc.
Qed.

(* the running frame (fn', ups', base', callers frs') is the frame (fn, ups, base, callers frs) or was called,
   directly or not, from it *)
Definition above (fn' : nat) (ups' : list nat) (base' : nat) (frs' : list frame)
                 (fn : nat) (ups : list nat) (base : nat) (frs : list frame) : Prop :=
  (fn' = fn /\ ups' = ups /\ base' = base /\ frs' = frs) \/
  exists pfx pcx, frs' = (pfx ++ mkFrame fn ups pcx base :: frs)%list.

Lemma above_refl : forall fn ups base frs, above fn ups base frs fn ups base frs.
Proof. intros. left. auto. Qed.

(* seen from the caller *)
Lemma above_call : forall fn' ups' base' frs' fnc U bc fn ups pcr base frs,
  above fn' ups' base' frs' fnc U bc (mkFrame fn ups pcr base :: frs) -> above fn' ups' base' frs' fn ups base frs.
Proof.
  intros fn' ups' base' frs' fnc U bc fn ups pcr base frs [(-> & -> & -> & ->)|(pfx & pcx & ->)]; right.
  - exists [], pcr. reflexivity.
  - exists (pfx ++ [mkFrame fnc U pcx bc])%list, pcr. now rewrite <- app_assoc.
Qed.

Lemma skipn_above : forall fn' ups' base' frs' fn ups base frs pc',
  above fn' ups' base' frs' fn ups base frs ->
  exists pcx, skipn (List.length (mkFrame fn' ups' pc' base' :: frs') - S (List.length frs)) (mkFrame fn' ups' pc' base' :: frs') =
              mkFrame fn ups pcx base :: frs.
Proof.
  intros fn' ups' base' frs' fn ups base frs pc' [(-> & -> & -> & ->)|(pfx & pcx & ->)].
  - exists pc'. cbn [List.length]. now rewrite Nat.sub_diag.
  - exists pcx. cbn [List.length]. rewrite app_length. cbn [List.length].
    replace (S (List.length pfx + S (List.length frs)) - S (List.length frs)) with (List.length (mkFrame fn' ups' pc' base' :: pfx))
      by (cbn [List.length]; lia).
    change (mkFrame fn' ups' pc' base' :: pfx ++ mkFrame fn ups pcx base :: frs)%list
      with ((mkFrame fn' ups' pc' base' :: pfx) ++ mkFrame fn ups pcx base :: frs)%list.
    rewrite skipn_app, skipn_all, Nat.sub_diag. reflexivity.
Qed.

(* Throw with a handler = unwind_stack (repaired: close_upvalues(handler height) before the truncation): the stack is
   cut to the handler's height WITHOUT touching the discipline flag, whatever cells above that height are captured;
   every cell and every handle survives (cv, HL unchanged); the frames above the handler's frame are dropped; the
   exception value is pushed into a fresh cell; execution continues in the handler's frame at the catch clause *)
Lemma step5_throw : forall h hs m fn' ups' pc base' frs' CLa c HL G O fn ups base frs,
  c_unwind_closes cf = true ->
  MS5 (h :: hs) m fn' ups' pc base' frs' (CLa ++ [c])%list HL G O -> fetch (code_of funs fn') pc = Some IThrow ->
  above fn' ups' base' frs' fn ups base frs -> h_frames h = S (List.length frs) -> h_size h <= List.length CLa ->
  exists m', mstep cf funs m = MRun m' /\
    MS5 hs m' fn ups (h_pc h) base frs (firstn (h_size h) CLa ++ [cn m])%list HL G O /\
    cv m' = upd (cv m) (cn m) (cv m c) /\ cn m' = S (cn m).
Proof.
  intros h hs m fn' ups' pc base' frs' CLa c HL G O fn ups base frs Hcf [H Hh] Hf Hab Hfr Hsz. start2 H S0 F.
  pose proof (set_pc_MS2 _ _ _ _ _ _ _ _ _ _ (pc + 1) H) as H1. start2 H1 S1 F1.
  pose proof (MS2_cur0 _ _ _ _ _ _ _ _ _ _ H) as C0.
  assert (Hlen : 0 < List.length (CLa ++ [c])) by (rewrite app_length; cbn; lia).
  assert (Hh1 : mf_handlers (fib0 (set_pc m (pc + 1))) = h :: hs).
  { change (mf_handlers (fib0 (set_pc m (pc + 1)))) with (hof (set_pc m (pc + 1))). now rewrite hof_set_pc. }
  eexists. split.
  { open_step2 S0 F Hf. cbn [isize]. rewrite (cur_fib_c2 _ _ _ S1), Hh1, Hcf. reflexivity. }
  cbn [isize].
  rewrite (mpeek2 _ _ _ 0 S1 Hlen), nth_last_snoc, cv_set_pc.
  assert (Hsz' : h_size h <= List.length (CLa ++ [c])) by (rewrite app_length; lia).
  destruct (MS2_eff _ _ _ _ _ _ _ _ _ _ _ _ _ _ _ H1 (retframe2 _ _ _ (h_size h) S1 Hsz')) as (H2 & V2 & N2). start2 H2 S2 F2.
  rewrite firstn_app_le' in H2, S2 by exact Hsz.
  destruct (MS2_eff _ _ _ _ _ _ _ _ _ _ _ _ _ _ _ H2 (mpush2 _ _ _ (cv m c) S2)) as (H3 & V3 & N3). start2 H3 S3 F3.
  rewrite (fok_frames _ _ _ _ _ _ F1), (fok_caller _ _ _ _ _ _ F1), Hfr.
  destruct (skipn_above _ _ _ _ _ _ _ _ (pc + 1) Hab) as (pcx & Hsk). rewrite Hsk.
  set (f := mkMF _ hs None _ _).
  destruct (put_fib_MS2 _ _ _ _ _ _ _ _ _ _ f fn ups pcx base frs H3) as (A & B & C & D); [reflexivity|reflexivity|].
  pose proof (set_pc_MS2 _ _ _ _ _ _ _ _ _ _ (h_pc h) A) as A'.
  rewrite N2, cn_set_pc in A', V3, N3.
  split; [constructor; [exact A'|]|split].
  - rewrite hof_set_pc by (exact (MS2_cur0 _ _ _ _ _ _ _ _ _ _ A)). exact B.
  - rewrite cv_set_pc, C, V3, V2, cv_set_pc. reflexivity.
  - rewrite cn_set_pc, D, N3. reflexivity.
Qed.

(* Throw without a handler: the run ends with an error; output and flag as they are *)
Lemma step5_throw_uncaught : forall m fn ups pc base frs CL HL G O,
  MS5 [] m fn ups pc base frs CL HL G O -> fetch (code_of funs fn) pc = Some IThrow ->
  exists m', mstep cf funs m = MErr m' /\ m_out m' = O /\ fl_of m' = false.
Proof.
  intros m fn ups pc base frs CL HL G O [H Hh] Hf. start2 H S0 F.
  pose proof (set_pc_MS2 _ _ _ _ _ _ _ _ _ _ (pc + 1) H) as H1. start2 H1 S1 F1.
  pose proof (MS2_cur0 _ _ _ _ _ _ _ _ _ _ H) as C0.
  assert (Hh1 : mf_handlers (fib0 (set_pc m (pc + 1))) = []).
  { change (mf_handlers (fib0 (set_pc m (pc + 1)))) with (hof (set_pc m (pc + 1))). now rewrite hof_set_pc. }
  eexists. split.
  { open_step2 S0 F Hf. cbn [isize]. rewrite (cur_fib_c2 _ _ _ S1), Hh1. reflexivity. }
  split; [exact (m2_o _ _ _ _ _ _ _ _ _ _ H1)|exact (s2_flag _ _ _ S1)].
Qed.

End Instr5.


(* the handler stack is inferred from the MS5 hypothesis: the step5_* lemmas are used exactly like the step2_* ones *)
Arguments step5_const _ _ {_}.
Arguments step5_nil _ _ {_}.
Arguments step5_pop _ _ {_}.
Arguments step5_closeup _ _ {_}.
Arguments step5_getlocal _ _ {_}.
Arguments step5_setlocal _ _ {_}.
Arguments step5_getglobal _ _ {_}.
Arguments step5_getprint _ _ {_}.
Arguments step5_defglobal _ _ {_}.
Arguments step5_setglobal _ _ {_}.
Arguments step5_getupvalue _ _ {_}.
Arguments step5_setupvalue _ _ {_}.
Arguments step5_add _ _ {_}.
Arguments step5_callprint _ _ {_}.
Arguments step5_call _ _ {_}.
Arguments step5_return _ _ {_}.
Arguments step5_closure _ _ {_}.
Arguments step5_closure_g _ _ {_}.
Arguments step5_closure_n _ _ {_}.
Arguments step5_less _ _ {_}.
Arguments step5_buildrange _ _ {_}.
Arguments step5_jump _ _ {_}.
Arguments step5_loop _ _ {_}.
Arguments step5_jumpiffalse _ _ {_}.
Arguments step5_jumpifstop_no _ _ {_}.
Arguments step5_jumpifstop_yes _ _ {_}.
Arguments step5_iter _ _ {_}.
Arguments step5_iternext_more _ _ {_}.
Arguments step5_iternext_done _ _ {_}.

(* the start state has no handler *)
Lemma MS5_of_MS2_start : forall (m : cmach) fn ups pc base frs CL HL G O,
  MS2 m fn ups pc base frs CL HL G O -> MS5 (hof m) m fn ups pc base frs CL HL G O.
Proof. intros. constructor; [assumption|reflexivity]. Qed.
