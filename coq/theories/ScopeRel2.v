(* C06 - stage 1 (closures over block locals, one function level): the simulation relation between the
   reference evaluator's state (environments of cells, cell store, closures = code + environment) and the
   machine over the cell-store backend (frames, slots naming cells, handles, closures = function + handle vector),
   and its monotonicity lemmas.  Proof file (relations are Props). *)
From Coq Require Import List Arith Bool String ZArith NArith Lia.
From YV Require Import Show Upvalues Cells ScopeLang ScopeComp ScopeSim ScopeDefs2.
Import ListNotations.
Import Gen.
Open Scope nat_scope.

Section Rel.
Variable cf : cfg.
Variable funs : list func.

(* names and positions of the initialised locals of a function = its run-time environment (flags free) *)
Inductive ENV : list local -> env -> Prop :=
| ENV_base : forall b0, ENV [mkLocal None (Some 0) b0] []
| ENV_cons : forall L en x c d b, ENV L en -> ENV (mkLocal (Some x) (Some d) b :: L) ((x, c) :: en).

Lemma ENV_len : forall L en, ENV L en -> List.length L = S (List.length en).
Proof. intros L en H. induction H; cbn; auto. Qed.

(* the environment entry living in slot s (s >= 1): environments are newest first *)
Definition entry_at (en : env) (slot : nat) : option (name * nat) := nth_error (rev en) (slot - 1).

Lemma entry_at_cons_old : forall en x c slot, 1 <= slot <= List.length en ->
  entry_at ((x, c) :: en) slot = entry_at en slot.
Proof.
  intros en x c slot H. unfold entry_at. cbn [rev]. apply nth_error_app1. rewrite rev_length. lia.
Qed.

Lemma entry_at_cons_new : forall en x c, entry_at ((x, c) :: en) (S (List.length en)) = Some (x, c).
Proof.
  intros en x c. unfold entry_at. cbn [rev]. replace (S (List.length en) - 1) with (List.length (rev en)) by (rewrite rev_length; lia).
  rewrite nth_error_app2 by lia. now rewrite Nat.sub_diag.
Qed.

Lemma ENV_lookup : forall L en x c, ENV L en -> assoc en x = Some c ->
  exists slot, resolve_local L x = Some (slot, true) /\ 1 <= slot <= List.length en /\ entry_at en slot = Some (x, c).
Proof.
  intros L en x c H. induction H as [b0|L en y c0 d b H IH]; cbn [assoc]; [discriminate|].
  cbn [resolve_local]. unfold name_is. cbn [l_name l_depth].
  destruct (Nat.eqb_spec y x) as [->|Hne].
  - intros [= <-]. exists (List.length L). rewrite (ENV_len _ _ H). split; [reflexivity|]. split; [cbn; lia|].
    apply entry_at_cons_new.
  - intros E. destruct (IH E) as (s & E1 & E2 & E3). exists s. split; [exact E1|]. split; [cbn; lia|].
    rewrite entry_at_cons_old by lia. exact E3.
Qed.

Lemma ENV_lookup_none : forall L en x, ENV L en -> assoc en x = None -> resolve_local L x = None.
Proof.
  intros L en x H. induction H as [b0|L en y c0 d b H IH]; cbn [assoc resolve_local]; [reflexivity|].
  unfold name_is. cbn [l_name]. destruct (y =? x); [discriminate|exact IH].
Qed.

(* ---- values ---- *)
Definition kc (K : list nat) (c : nat) : nat := nth c K 0.

Inductive vrel2 (K HL : list nat) : sval -> mval -> Prop :=
| V2_int : forall z, vrel2 K HL (SVInt z) (MInt z)
| V2_nil : vrel2 K HL SVNil MNil
| V2_clo : forall ps body cenv fn U Lc code Uc Lc',
    forallb bstmt3 body = true ->
    cbody cf ps body Lc = Some (code, Uc, Lc') ->
    ENV Lc cenv ->
    nth_error funs fn = Some (mkFunc code (List.length ps) (List.length Uc)) ->
    List.length U = List.length Uc ->
    (forall k slot b, nth_error Uc k = Some (slot, b) ->
       b = true /\ exists x c, entry_at cenv slot = Some (x, c) /\ c < List.length K /\
                               nth k U 0 < List.length HL /\ nth (nth k U 0) HL 0 = kc K c) ->
    (forall x c, In (x, c) cenv -> c < List.length K) ->
    vrel2 K HL (SVClo ps body cenv) (MClo fn U).

Lemma vrel2_mono : forall K HL K' HL' v w, vrel2 K HL v w ->
  (exists e, K' = (K ++ e)%list) -> (exists e, HL' = (HL ++ e)%list) -> vrel2 K' HL' v w.
Proof.
  intros K HL K' HL' v w H [eK ->] [eH ->]. destruct H; try constructor.
  econstructor; eauto.
  - intros k slot b0 Hk. destruct (H4 k slot b0 Hk) as (-> & x & c & E1 & E2 & E3 & E4).
    split; [reflexivity|]. exists x, c. rewrite !app_length. repeat split; auto; try lia.
    unfold kc in *. rewrite !app_nth1 by lia. exact E4.
  - intros x c Hin. rewrite app_length. pose proof (H5 x c Hin). lia.
Qed.

Lemma vrel2_show : forall K HL v w, vrel2 K HL v w -> show_sval v = show_mval w.
Proof. intros K HL v w H. destruct H; reflexivity. Qed.

Definition GR2 (K HL : list nat) (g : list (name * sval)) (G : list (name * mval)) : Prop :=
  Forall2 (fun a b => fst a = fst b /\ vrel2 K HL (snd a) (snd b)) g G.

Lemma GR2_assoc : forall K HL g G x v, GR2 K HL g G -> assoc g x = Some v ->
  exists v', assoc G x = Some v' /\ vrel2 K HL v v'.
Proof.
  intros K HL g G x v H. induction H as [|[y a] [y' b] g' G' [E R] H IH]; cbn; [discriminate|].
  cbn in E. subst y'. destruct (y =? x); [intros [= <-]; eauto|exact IH].
Qed.

Lemma GR2_set : forall K HL g G x v v', GR2 K HL g G -> vrel2 K HL v v' -> GR2 K HL (set_assoc g x v) (set_assoc G x v').
Proof.
  intros K HL g G x v v' H R. induction H as [|[y a] [y' b] g' G' [E R'] H IH]; cbn.
  - constructor; [split; auto|constructor].
  - cbn in E. subst y'. destruct (y =? x); constructor; auto; split; auto.
Qed.

Lemma GR2_mono : forall K HL K' HL' g G, GR2 K HL g G ->
  (exists e, K' = (K ++ e)%list) -> (exists e, HL' = (HL ++ e)%list) -> GR2 K' HL' g G.
Proof.
  intros K HL K' HL' g G H HK HH. induction H as [|a b g' G' [E R] H IH]; constructor; auto.
  split; [exact E|]. eapply vrel2_mono; eauto.
Qed.

(* ---- the store: every evaluator cell has a machine cell holding a related value ---- *)
Record STO (st : sst) (K HL : list nat) (cvf : nat -> mval) (cnx : nat) (G : list (name * mval)) (O : list string) : Prop := mkSTO {
  sto_len : List.length K = List.length (s_cells st);
  sto_nd : NoDup K;
  sto_lt : forall k, In k K -> k < cnx;
  sto_val : forall c, c < List.length K -> vrel2 K HL (nth c (s_cells st) SVNil) (cvf (kc K c));
  sto_g : GR2 K HL (s_globals st) G;
  sto_o : s_out st = O
}.

(* ---- a frame: its locals (from slot `base`) name the cells of its environment entries; a local whose cell is
        captured has its flag set (so its scope end emits CloseUpvalue, not Pop) ---- *)
Inductive LRB (K CL HL : list nat) (base : nat) : list local -> env -> Prop :=
| LRB_base : forall b0, LRB K CL HL base [mkLocal None (Some 0) b0] []
| LRB_cons : forall L en x c d b, LRB K CL HL base L en ->
    c < List.length K -> nth (base + List.length L) CL 0 = kc K c ->
    (In (kc K c) HL -> b = true) ->
    LRB K CL HL base (mkLocal (Some x) (Some d) b :: L) ((x, c) :: en).

Lemma LRB_ENV : forall K CL HL base L en, LRB K CL HL base L en -> ENV L en.
Proof. intros K CL HL base L en H. induction H; constructor; auto. Qed.

Lemma LRB_lookup : forall K CL HL base L en x c, LRB K CL HL base L en -> assoc en x = Some c ->
  exists slot, resolve_local L x = Some (slot, true) /\ 1 <= slot < List.length L /\
               c < List.length K /\ nth (base + slot) CL 0 = kc K c.
Proof.
  intros K CL HL base L en x c H. induction H as [b0|L en y c0 d b H IH Hc Hn Hf]; cbn [assoc]; [discriminate|].
  cbn [resolve_local]. unfold name_is. cbn [l_name l_depth].
  destruct (Nat.eqb_spec y x) as [->|Hne].
  - intros [= <-]. exists (List.length L). pose proof (ENV_len _ _ (LRB_ENV _ _ _ _ _ _ H)). repeat split; auto; cbn; lia.
  - intros E. destruct (IH E) as (s & E1 & E2 & E3 & E4). exists s. repeat split; auto; cbn; lia.
Qed.

Lemma LRB_cells : forall K CL HL base L en x c, LRB K CL HL base L en -> In (x, c) en -> c < List.length K.
Proof.
  intros K CL HL base L en x c H. induction H as [b0|L en y c0 d b H IH Hc Hn Hf]; intros Hin; [destruct Hin|].
  destruct Hin as [E|Hin]; [inversion E; subst; exact Hc|auto].
Qed.

(* stable under: K and HL growing by cells that are not the locals' cells, CL changing above the locals *)
Lemma LRB_mono : forall K CL HL base L en K' CL' HL', LRB K CL HL base L en ->
  (exists e, K' = (K ++ e)%list) ->
  (forall i, i < base + List.length L -> nth i CL' 0 = nth i CL 0) ->
  (forall k, In k HL' -> In k HL \/ ~ In k K) ->
  LRB K' CL' HL' base L en.
Proof.
  intros K CL HL base L en K' CL' HL' H [eK ->]. induction H as [b0|L en y c0 d b H IH Hc Hn Hf]; intros HC HH; constructor.
  - apply IH; auto. intros i Hi. apply HC. cbn. lia.
  - rewrite app_length. lia.
  - rewrite HC by (cbn; lia). unfold kc. rewrite app_nth1 by lia. exact Hn.
  - unfold kc. rewrite app_nth1 by lia. intros Hin. destruct (HH _ Hin) as [Hold|Hnew]; [auto|].
    exfalso. apply Hnew. apply nth_In. lia.
Qed.

Lemma Forall2_len : forall A B (P : A -> B -> Prop) l l', Forall2 P l l' -> List.length l = List.length l'.
Proof. intros A B P l l' H. induction H; cbn; auto. Qed.

(* flags may rise *)
Lemma LRB_flags : forall K CL HL base L L' en, LRB K CL HL base L en -> flags_up L L' -> LRB K CL HL base L' en.
Proof.
  intros K CL HL base L L' en H. revert L'. induction H as [b0|L en y c0 d b H IH Hc Hn Hf]; intros L' HF.
  - inversion HF as [|l l' ? ? (E1 & E2 & E3) HF']; subst. inversion HF'; subst.
    destruct l' as [n' d' b']. cbn in *. subst. constructor.
  - inversion HF as [|l l' L0 L0' (E1 & E2 & E3) HF']; subst. destruct l' as [n' d' b']. cbn in *. subst.
    pose proof (Forall2_len _ _ _ _ _ HF') as Hl.
    constructor; auto; try (rewrite <- Hl; assumption).
Qed.

Lemma assoc_app : forall A (a b : list (name * A)) x,
  assoc (a ++ b) x = match assoc a x with Some v => Some v | None => assoc b x end.
Proof. intros A a b x. induction a as [|[y v] r IH]; cbn; [reflexivity|]. destruct (y =? x); auto. Qed.

Lemma kc_inj : forall K c1 c2, NoDup K -> c1 < List.length K -> c2 < List.length K -> kc K c1 = kc K c2 -> c1 = c2.
Proof. intros K c1 c2 H H1 H2 E. unfold kc in E. eapply NoDup_nth; eauto. Qed.

(* a machine cell that is no evaluator cell (a temporary) changes: nothing to do *)
Lemma STO_temp : forall st K HL cvf cnx G O k w cnx',
  STO st K HL cvf cnx G O -> ~ In k K -> cnx <= cnx' -> STO st K HL (upd cvf k w) cnx' G O.
Proof.
  intros st K HL cvf cnx G O k w cnx' [H1 H2 H3 H4 H5 H6] Hk Hc. constructor; auto.
  - intros k0 Hin. pose proof (H3 _ Hin). lia.
  - intros c Hc'. rewrite upd_other; [auto|]. intro E. apply Hk. rewrite <- E. unfold kc. apply nth_In. lia.
Qed.

Lemma STO_cn : forall st K HL cvf cnx G O cnx', STO st K HL cvf cnx G O -> cnx <= cnx' -> STO st K HL cvf cnx' G O.
Proof.
  intros st K HL cvf cnx G O cnx' [H1 H2 H3 H4 H5 H6] Hc. constructor; auto. intros k0 Hin. pose proof (H3 _ Hin). lia.
Qed.

(* an evaluator cell and its machine cell are written together *)
Lemma STO_write : forall st K HL cvf cnx G O c v w,
  STO st K HL cvf cnx G O -> c < List.length K -> vrel2 K HL v w ->
  STO (ScopeLang.set_cell st c v) K HL (upd cvf (kc K c) w) cnx G O.
Proof.
  intros st K HL cvf cnx G O c v w [H1 H2 H3 H4 H5 H6] Hc Hv. constructor; cbn [s_cells s_globals s_out ScopeLang.set_cell]; auto.
  - now rewrite set_nth_length.
  - intros c2 Hc2. destruct (Nat.eq_dec c2 c) as [->|Hne].
    + rewrite upd_same. rewrite nth_set_nth by lia. now rewrite Nat.eqb_refl.
    + rewrite upd_other by (intro E; apply Hne; eapply kc_inj; eauto).
      rewrite nth_set_nth_other by exact Hne. auto.
Qed.

(* a new evaluator cell, living in machine cell k *)
Lemma STO_new : forall st K HL cvf cnx G O k v,
  STO st K HL cvf cnx G O -> ~ In k K -> k < cnx -> vrel2 K HL v (cvf k) ->
  STO (fst (new_cell st v)) (K ++ [k]) HL cvf cnx G O.
Proof.
  intros st K HL cvf cnx G O k v [H1 H2 H3 H4 H5 H6] Hk Hlt Hv.
  assert (HK : exists e, (K ++ [k])%list = (K ++ e)%list) by eauto.
  assert (HH : exists e, HL = (HL ++ e)%list) by (exists []; now rewrite app_nil_r).
  constructor; cbn [new_cell fst s_cells s_globals s_out]; auto.
  - rewrite !app_length. cbn. lia.
  - apply NoDup_app_1 || idtac. apply NoDup_remove_inv || idtac.
    rewrite <- (rev_involutive (K ++ [k])). apply NoDup_rev. rewrite rev_app_distr. cbn. constructor.
    + rewrite <- in_rev. exact Hk.
    + now apply NoDup_rev.
  - intros k0 Hin. apply in_app_or in Hin as [Hin|[<-|[]]]; auto.
  - intros c Hc. rewrite app_length in Hc. cbn in Hc. unfold kc.
    destruct (Nat.eq_dec c (List.length K)) as [->|Hne].
    + rewrite H1 at 1. rewrite !nth_middle. eapply vrel2_mono; eauto.
    + rewrite !app_nth1 by lia. eapply vrel2_mono; eauto. apply H4. lia.
  - eapply GR2_mono; eauto.
Qed.

Lemma STO_HL : forall st K HL cvf cnx G O HL', STO st K HL cvf cnx G O -> (exists e, HL' = (HL ++ e)%list) ->
  STO st K HL' cvf cnx G O.
Proof.
  intros st K HL cvf cnx G O HL' [H1 H2 H3 H4 H5 H6] HH.
  assert (HK : exists e, K = (K ++ e)%list) by (exists []; now rewrite app_nil_r).
  constructor; auto.
  - intros c Hc. eapply vrel2_mono; eauto.
  - eapply GR2_mono; eauto.
Qed.

Lemma STO_global : forall st K HL cvf cnx G O x v w, STO st K HL cvf cnx G O -> vrel2 K HL v w ->
  STO (set_global st x v) K HL cvf cnx (set_assoc G x w) O.
Proof.
  intros st K HL cvf cnx G O x v w [H1 H2 H3 H4 H5 H6] Hv. constructor; cbn [set_global s_cells s_globals s_out]; auto.
  now apply GR2_set.
Qed.

End Rel.
