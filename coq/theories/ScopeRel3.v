(* C06 - stage 1 in its general form (parameters, locals inside closure bodies, self-reference; one function level):
   the value / store relation with closure bodies from the full body fragment bstmt2.  Environments, frames
   (ENV, LRB, entry_at, kc) are those of ScopeRel2.v. *)
From Coq Require Import List Arith Bool String ZArith NArith Lia.
From YV Require Import Show Upvalues Cells ScopeLang ScopeComp ScopeSim ScopeDefs2 ScopeRel2.
Import ListNotations.
Import Gen.
Open Scope nat_scope.

Section Rel3.
Variable cf : cfg.
Variable funs : list func.

(* ---- values ---- *)

Inductive vrel3 (K HL : list nat) : sval -> mval -> Prop :=
| V3_int : forall z, vrel3 K HL (SVInt z) (MInt z)
| V3_nil : vrel3 K HL SVNil MNil
| V3_clo : forall ps body cenv fn U Lc code Uc Lc',
    forallb bstmt2 body = true ->
    cbody cf ps body Lc = Some (code, Uc, Lc') ->
    ENV Lc cenv ->
    nth_error funs fn = Some (mkFunc code (List.length ps) (List.length Uc)) ->
    List.length U = List.length Uc ->
    (forall k slot b, nth_error Uc k = Some (slot, b) ->
       b = true /\ exists x c, entry_at cenv slot = Some (x, c) /\ c < List.length K /\
                               nth k U 0 < List.length HL /\ nth (nth k U 0) HL 0 = kc K c) ->
    (forall x c, In (x, c) cenv -> c < List.length K) ->
    vrel3 K HL (SVClo ps body cenv) (MClo fn U).

Lemma vrel3_mono : forall K HL K' HL' v w, vrel3 K HL v w ->
  (exists e, K' = (K ++ e)%list) -> (exists e, HL' = (HL ++ e)%list) -> vrel3 K' HL' v w.
Proof.
  intros K HL K' HL' v w H [eK ->] [eH ->]. destruct H; try constructor.
  econstructor; eauto.
  - intros k slot b0 Hk. destruct (H4 k slot b0 Hk) as (-> & x & c & E1 & E2 & E3 & E4).
    split; [reflexivity|]. exists x, c. rewrite !app_length. repeat split; auto; try lia.
    unfold kc in *. rewrite !app_nth1 by lia. exact E4.
  - intros x c Hin. rewrite app_length. pose proof (H5 x c Hin). lia.
Qed.

Lemma vrel3_show : forall K HL v w, vrel3 K HL v w -> show_sval v = show_mval w.
Proof. intros K HL v w H. destruct H; reflexivity. Qed.

Definition GR3 (K HL : list nat) (g : list (name * sval)) (G : list (name * mval)) : Prop :=
  Forall2 (fun a b => fst a = fst b /\ vrel3 K HL (snd a) (snd b)) g G.

Lemma GR3_assoc : forall K HL g G x v, GR3 K HL g G -> assoc g x = Some v ->
  exists v', assoc G x = Some v' /\ vrel3 K HL v v'.
Proof.
  intros K HL g G x v H. induction H as [|[y a] [y' b] g' G' [E R] H IH]; cbn; [discriminate|].
  cbn in E. subst y'. destruct (y =? x); [intros [= <-]; eauto|exact IH].
Qed.

Lemma GR3_set : forall K HL g G x v v', GR3 K HL g G -> vrel3 K HL v v' -> GR3 K HL (set_assoc g x v) (set_assoc G x v').
Proof.
  intros K HL g G x v v' H R. induction H as [|[y a] [y' b] g' G' [E R'] H IH]; cbn.
  - constructor; [split; auto|constructor].
  - cbn in E. subst y'. destruct (y =? x); constructor; auto; split; auto.
Qed.

Lemma GR3_mono : forall K HL K' HL' g G, GR3 K HL g G ->
  (exists e, K' = (K ++ e)%list) -> (exists e, HL' = (HL ++ e)%list) -> GR3 K' HL' g G.
Proof.
  intros K HL K' HL' g G H HK HH. induction H as [|a b g' G' [E R] H IH]; constructor; auto.
  split; [exact E|]. eapply vrel3_mono; eauto.
Qed.

(* ---- the store: every evaluator cell has a machine cell holding a related value ---- *)
Record STO3 (st : sst) (K HL : list nat) (cvf : nat -> mval) (cnx : nat) (G : list (name * mval)) (O : list string) : Prop := mkSTO {
  sto3_len : List.length K = List.length (s_cells st);
  sto3_nd : NoDup K;
  sto3_lt : forall k, In k K -> k < cnx;
  sto3_val : forall c, c < List.length K -> vrel3 K HL (nth c (s_cells st) SVNil) (cvf (kc K c));
  sto3_g : GR3 K HL (s_globals st) G;
  sto3_o : s_out st = O
}.

(* a machine cell that is no evaluator cell (a temporary) changes: nothing to do *)
Lemma STO3_temp : forall st K HL cvf cnx G O k w cnx',
  STO3 st K HL cvf cnx G O -> ~ In k K -> cnx <= cnx' -> STO3 st K HL (upd cvf k w) cnx' G O.
Proof.
  intros st K HL cvf cnx G O k w cnx' [H1 H2 H3 H4 H5 H6] Hk Hc. constructor; auto.
  - intros k0 Hin. pose proof (H3 _ Hin). lia.
  - intros c Hc'. rewrite upd_other; [auto|]. intro E. apply Hk. rewrite <- E. unfold kc. apply nth_In. lia.
Qed.

Lemma STO3_cn : forall st K HL cvf cnx G O cnx', STO3 st K HL cvf cnx G O -> cnx <= cnx' -> STO3 st K HL cvf cnx' G O.
Proof.
  intros st K HL cvf cnx G O cnx' [H1 H2 H3 H4 H5 H6] Hc. constructor; auto. intros k0 Hin. pose proof (H3 _ Hin). lia.
Qed.

(* an evaluator cell and its machine cell are written together *)
Lemma STO3_write : forall st K HL cvf cnx G O c v w,
  STO3 st K HL cvf cnx G O -> c < List.length K -> vrel3 K HL v w ->
  STO3 (ScopeLang.set_cell st c v) K HL (upd cvf (kc K c) w) cnx G O.
Proof.
  intros st K HL cvf cnx G O c v w [H1 H2 H3 H4 H5 H6] Hc Hv. constructor; cbn [s_cells s_globals s_out ScopeLang.set_cell]; auto.
  - now rewrite set_nth_length.
  - intros c2 Hc2. destruct (Nat.eq_dec c2 c) as [->|Hne].
    + rewrite upd_same. rewrite nth_set_nth by lia. now rewrite Nat.eqb_refl.
    + rewrite upd_other by (intro E; apply Hne; eapply kc_inj; eauto).
      rewrite nth_set_nth_other by exact Hne. auto.
Qed.

(* a new evaluator cell, living in machine cell k *)
Lemma STO3_new : forall st K HL cvf cnx G O k v,
  STO3 st K HL cvf cnx G O -> ~ In k K -> k < cnx -> vrel3 K HL v (cvf k) ->
  STO3 (fst (new_cell st v)) (K ++ [k]) HL cvf cnx G O.
Proof.
  intros st K HL cvf cnx G O k v [H1 H2 H3 H4 H5 H6] Hk Hlt Hv.
  assert (HK : exists e, (K ++ [k])%list = (K ++ e)%list) by eauto.
  assert (HH : exists e, HL = (HL ++ e)%list) by (exists []; now rewrite app_nil_r).
  constructor; cbn [new_cell fst s_cells s_globals s_out]; auto.
  - rewrite !app_length. cbn. lia.
  - apply NoDup_app_1 || idtac. apply NoDup_remove_inv || idtac.
    rewrite <- (rev_involutive (K ++ [k])). apply NoDup_rev. rewrite rev_app_distr. cbn. constructor.
    + rewrite <- in_rev. exact Hk.
    + now apply NoDup_rev.
  - intros k0 Hin. apply in_app_or in Hin as [Hin|[<-|[]]]; auto.
  - intros c Hc. rewrite app_length in Hc. cbn in Hc. unfold kc.
    destruct (Nat.eq_dec c (List.length K)) as [->|Hne].
    + rewrite H1 at 1. rewrite !nth_middle. eapply vrel3_mono; eauto.
    + rewrite !app_nth1 by lia. eapply vrel3_mono; eauto. apply H4. lia.
  - eapply GR3_mono; eauto.
Qed.

Lemma STO3_HL : forall st K HL cvf cnx G O HL', STO3 st K HL cvf cnx G O -> (exists e, HL' = (HL ++ e)%list) ->
  STO3 st K HL' cvf cnx G O.
Proof.
  intros st K HL cvf cnx G O HL' [H1 H2 H3 H4 H5 H6] HH.
  assert (HK : exists e, K = (K ++ e)%list) by (exists []; now rewrite app_nil_r).
  constructor; auto.
  - intros c Hc. eapply vrel3_mono; eauto.
  - eapply GR3_mono; eauto.
Qed.

Lemma STO3_global : forall st K HL cvf cnx G O x v w, STO3 st K HL cvf cnx G O -> vrel3 K HL v w ->
  STO3 (set_global st x v) K HL cvf cnx (set_assoc G x w) O.
Proof.
  intros st K HL cvf cnx G O x v w [H1 H2 H3 H4 H5 H6] Hv. constructor; cbn [set_global s_cells s_globals s_out]; auto.
  now apply GR3_set.
Qed.

End Rel3.
