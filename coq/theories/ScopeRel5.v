(* C06 - stage 5 (throw / try-catch): the simulation relation on values and stores.  The text of Section RelN of
   ScopeRelN.v with the fragment stmt7 and the pure compiler of ScopeDefs5.v in the closure relation VN_clo (a closure
   body may contain throw / try); the relations on environments and frames (ENVN, at_slot, LRBN, UPC) are those of
   ScopeRelN.v.  Import this file AFTER ScopeRelN: vrelN / STON / GRN / UR / ENVS and their lemmas are then the ones
   below.  Proof file (relations are Props). *)
From Coq Require Import List Arith Bool String ZArith NArith Lia.
From YV Require Import Show Upvalues Cells ScopeLang ScopeComp ScopeLangProofs ScopeSim ScopeDefs2 ScopeComp2 ScopeAux2 ScopeRel2 ScopeDefsN ScopeFactsN ScopeRelN ScopeDefs5 ScopeFacts5.
Import ListNotations.
Import Gen.
Open Scope nat_scope.

Section Rel5.
Variable cf : cfg.
Variable funs : list func.
Variable jumps : bool.   (* break / continue admitted in closure bodies (stage 4) *)

(* the closure's handle vector against its upvalue list: every index stands for a cell, the handle holds that cell *)
Definition UR (K HL : list nat) (E : list lev) (envs : list env) (Ufin : ups_t) (uvec : list nat) : Prop :=
  forall j, j < List.length Ufin -> exists c, UPC Ufin E envs j c /\ c < List.length K /\
                                              nth j uvec 0 < List.length HL /\ nth (nth j uvec 0) HL 0 = kc K c.

Lemma UR_mono : forall K HL E envs Ufin uvec K' HL', UR K HL E envs Ufin uvec ->
  (exists e, K' = (K ++ e)%list) -> (exists e, HL' = (HL ++ e)%list) -> UR K' HL' E envs Ufin uvec.
Proof.
  intros K HL E envs Ufin uvec K' HL' H [eK ->] [eH ->] j Hj. destruct (H j Hj) as (c & A & B & C & D).
  exists c. rewrite !app_length. repeat split; auto; try lia. unfold kc in *. rewrite !app_nth1 by lia. exact D.
Qed.

Definition ENVS (E : list lev) (envs : list env) : Prop := Forall2 (fun l en => ENVN (lv_locals l) en) E envs.

Lemma ENVS_levs_up_rev : forall E E' envs, levs_up E E' -> ENVS E' envs -> ENVS E envs.
Proof.
  intros E E' envs H. revert envs. induction H as [|l l' E E' [F _] H IH]; intros envs HE; inversion HE; subst; constructor; [eapply ENVN_flags_rev; eauto|apply IH; assumption].
Qed.

Lemma ENVS_levs_up : forall E E' envs, levs_up E E' -> ENVS E envs -> ENVS E' envs.
Proof.
  intros E E' envs H. revert envs. induction H as [|l l' E E' [F _] H IH]; intros envs HE; inversion HE; subst; constructor; [eapply ENVN_flags; eauto|apply IH; assumption].
Qed.

Inductive vrelN (K HL : list nat) : sval -> mval -> Prop :=
| VN_int : forall z, vrelN K HL (SVInt z) (MInt z)
| VN_nil : vrelN K HL SVNil MNil
| VN_stop : vrelN K HL SVStop MStop
| VN_clo : forall ps body fn uvec Lp Ein fs0 cb Lb' Ub Eout fs1 Efin envs,
    forallb (stmt7 jumps true false false) body = true ->
    bparams cf ps [mkLocal None (Some 0) false] = Some Lp ->
    nlist cf body 1 Lp [] Ein fs0 0 None = Some (cb, Lb', Ub, Eout, fs1) ->
    levs_ok Ein -> levs_up Eout Efin ->
    nth_error funs fn = Some (mkFunc (cb ++ [INil; IReturn]) (List.length ps) (List.length Ub)) ->
    (exists ext, funs = (fs1 ++ ext)%list) ->
    ENVS Efin envs ->
    UR K HL Efin envs Ub uvec ->
    (forall x c, In (x, c) (List.concat envs) -> c < List.length K) ->
    vrelN K HL (SVClo ps body (List.concat envs)) (MClo fn uvec).

Lemma vrelN_mono : forall K HL K' HL' v w, vrelN K HL v w ->
  (exists e, K' = (K ++ e)%list) -> (exists e, HL' = (HL ++ e)%list) -> vrelN K' HL' v w.
Proof.
  intros K HL K' HL' v w H HK HH. destruct H; try constructor.
  econstructor; eauto.
  - eapply UR_mono; eauto.
  - destruct HK as [eK ->]. intros x c Hin. rewrite app_length. pose proof (H8 x c Hin). lia.
Qed.

Lemma vrelN_show : forall K HL v w, vrelN K HL v w -> show_sval v = show_mval w.
Proof. intros K HL v w H. destruct H; reflexivity. Qed.

Definition GRN (K HL : list nat) (g : list (name * sval)) (G : list (name * mval)) : Prop :=
  Forall2 (fun a b => fst a = fst b /\ vrelN K HL (snd a) (snd b)) g G.

Lemma GRN_assoc : forall K HL g G x v, GRN K HL g G -> assoc g x = Some v ->
  exists v', assoc G x = Some v' /\ vrelN K HL v v'.
Proof.
  intros K HL g G x v H. induction H as [|[y a] [y' b] g' G' [E R] H IH]; cbn; [discriminate|].
  cbn in E. subst y'. destruct (y =? x); [intros [= <-]; eauto|exact IH].
Qed.

Lemma GRN_set : forall K HL g G x v v', GRN K HL g G -> vrelN K HL v v' -> GRN K HL (set_assoc g x v) (set_assoc G x v').
Proof.
  intros K HL g G x v v' H R. induction H as [|[y a] [y' b] g' G' [E R'] H IH]; cbn.
  - constructor; [split; auto|constructor].
  - cbn in E. subst y'. destruct (y =? x); constructor; auto; split; auto.
Qed.

Lemma GRN_mono : forall K HL K' HL' g G, GRN K HL g G ->
  (exists e, K' = (K ++ e)%list) -> (exists e, HL' = (HL ++ e)%list) -> GRN K' HL' g G.
Proof.
  intros K HL K' HL' g G H HK HH. induction H as [|a b g' G' [E R] H IH]; constructor; auto.
  split; [exact E|]. eapply vrelN_mono; eauto.
Qed.

(* ---- the store: every evaluator cell has a machine cell holding a related value ---- *)
Record STON (st : sst) (K HL : list nat) (cvf : nat -> mval) (cnx : nat) (G : list (name * mval)) (O : list string) : Prop := mkSTON {
  stn_len : List.length K = List.length (s_cells st);
  stn_nd : NoDup K;
  stn_lt : forall k, In k K -> k < cnx;
  stn_val : forall c, c < List.length K -> vrelN K HL (nth c (s_cells st) SVNil) (cvf (kc K c));
  stn_g : GRN K HL (s_globals st) G;
  stn_o : s_out st = O
}.

Lemma STON_temp : forall st K HL cvf cnx G O k w cnx',
  STON st K HL cvf cnx G O -> ~ In k K -> cnx <= cnx' -> STON st K HL (upd cvf k w) cnx' G O.
Proof.
  intros st K HL cvf cnx G O k w cnx' [H1 H2 H3 H4 H5 H6] Hk Hc. constructor; auto.
  - intros k0 Hin. pose proof (H3 _ Hin). lia.
  - intros c Hc'. rewrite upd_other; [auto|]. intro E. apply Hk. rewrite <- E. unfold kc. apply nth_In. lia.
Qed.

Lemma STON_cn : forall st K HL cvf cnx G O cnx', STON st K HL cvf cnx G O -> cnx <= cnx' -> STON st K HL cvf cnx' G O.
Proof.
  intros st K HL cvf cnx G O cnx' [H1 H2 H3 H4 H5 H6] Hc. constructor; auto. intros k0 Hin. pose proof (H3 _ Hin). lia.
Qed.

Lemma STON_write : forall st K HL cvf cnx G O c v w,
  STON st K HL cvf cnx G O -> c < List.length K -> vrelN K HL v w ->
  STON (ScopeLang.set_cell st c v) K HL (upd cvf (kc K c) w) cnx G O.
Proof.
  intros st K HL cvf cnx G O c v w [H1 H2 H3 H4 H5 H6] Hc Hv. constructor; cbn [s_cells s_globals s_out ScopeLang.set_cell]; auto.
  - now rewrite set_nth_length.
  - intros c2 Hc2. destruct (Nat.eq_dec c2 c) as [->|Hne].
    + rewrite upd_same. rewrite nth_set_nth by lia. now rewrite Nat.eqb_refl.
    + rewrite upd_other by (intro E; apply Hne; eapply kc_inj; eauto).
      rewrite nth_set_nth_other by exact Hne. auto.
Qed.

Lemma NoDup_snocN : forall A (l : list A) x, NoDup l -> ~ In x l -> NoDup (l ++ [x]).
Proof.
  intros A l x H Hn. rewrite <- (rev_involutive (l ++ [x])). apply NoDup_rev. rewrite rev_app_distr. cbn. constructor.
  - rewrite <- in_rev. exact Hn.
  - now apply NoDup_rev.
Qed.

(* a new evaluator cell, living in machine cell k; its value may refer to the new cell itself *)
Lemma STON_new : forall st K HL cvf cnx G O k v,
  STON st K HL cvf cnx G O -> ~ In k K -> k < cnx -> vrelN (K ++ [k]) HL v (cvf k) ->
  STON (fst (new_cell st v)) (K ++ [k]) HL cvf cnx G O.
Proof.
  intros st K HL cvf cnx G O k v [H1 H2 H3 H4 H5 H6] Hk Hlt Hv.
  assert (HK : exists e, (K ++ [k])%list = (K ++ e)%list) by eauto.
  assert (HH : exists e, HL = (HL ++ e)%list) by (exists []; now rewrite app_nil_r).
  constructor; cbn [new_cell fst s_cells s_globals s_out]; auto.
  - rewrite !app_length. cbn. lia.
  - now apply NoDup_snocN.
  - intros k0 Hin. apply in_app_or in Hin as [Hin|[<-|[]]]; auto.
  - intros c Hc. rewrite app_length in Hc. cbn in Hc. unfold kc.
    destruct (Nat.eq_dec c (List.length K)) as [->|Hne].
    + rewrite H1 at 1. rewrite !nth_middle. exact Hv.
    + rewrite !app_nth1 by lia. eapply vrelN_mono; eauto. apply H4. lia.
  - eapply GRN_mono; eauto.
Qed.

Lemma STON_HL : forall st K HL cvf cnx G O HL', STON st K HL cvf cnx G O -> (exists e, HL' = (HL ++ e)%list) ->
  STON st K HL' cvf cnx G O.
Proof.
  intros st K HL cvf cnx G O HL' [H1 H2 H3 H4 H5 H6] HH.
  assert (HK : exists e, K = (K ++ e)%list) by (exists []; now rewrite app_nil_r).
  constructor; auto.
  - intros c Hc. eapply vrelN_mono; eauto.
  - eapply GRN_mono; eauto.
Qed.

Lemma STON_global : forall st K HL cvf cnx G O x v w, STON st K HL cvf cnx G O -> vrelN K HL v w ->
  STON (set_global st x v) K HL cvf cnx (set_assoc G x w) O.
Proof.
  intros st K HL cvf cnx G O x v w [H1 H2 H3 H4 H5 H6] Hv. constructor; cbn [set_global s_cells s_globals s_out]; auto.
  now apply GRN_set.
Qed.

Lemma STON_ext : forall st K HL f g cnx G O, (forall j, g j = f j) -> STON st K HL f cnx G O -> STON st K HL g cnx G O.
Proof. intros st K HL f g cnx G O E [H1 H2 H3 H4 H5 H6]. constructor; auto. intros c Hc. rewrite E. auto. Qed.

End Rel5.
