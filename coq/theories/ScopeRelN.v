(* C06 - stage 2 (nested function levels): the simulation relation between the reference evaluator's state and the
   machine over the cell-store backend, for closures compiled inside any number of enclosing functions.
   Environments are related level by level; locals without a name (slot 0, later the hidden loop iterator) have a
   slot but no environment entry.  Proof file (relations are Props). *)
From Coq Require Import List Arith Bool String ZArith NArith Lia.
From YV Require Import Show Upvalues Cells ScopeLang ScopeComp ScopeLangProofs ScopeSim ScopeDefs2 ScopeComp2 ScopeAux2 ScopeRel2 ScopeDefsN ScopeFactsN.
Import ListNotations.
Import Gen.
Open Scope nat_scope.

(* ------------------------------------------------------------------------------------------ *)
(* static locals of one function against its run-time environment *)

Inductive ENVN : list local -> env -> Prop :=
| EN_nil : ENVN [] []
| EN_hid : forall L en d b, ENVN L en -> ENVN (mkLocal None d b :: L) en
| EN_cons : forall L en x c d b, ENVN L en -> ENVN (mkLocal (Some x) (Some d) b :: L) ((x, c) :: en).

(* the environment entry of the local in slot s *)
Inductive at_slot : list local -> env -> nat -> name -> nat -> Prop :=
| AS_here : forall L en x c d b, at_slot (mkLocal (Some x) (Some d) b :: L) ((x, c) :: en) (List.length L) x c
| AS_cons : forall L en y c' d b s x c, at_slot L en s x c -> at_slot (mkLocal (Some y) (Some d) b :: L) ((y, c') :: en) s x c
| AS_hid : forall L en d b s x c, at_slot L en s x c -> at_slot (mkLocal None d b :: L) en s x c.

Lemma at_slot_lt : forall L en s x c, at_slot L en s x c -> s < List.length L.
Proof. intros L en s x c H. induction H; cbn; lia. Qed.

Lemma at_slot_in : forall L en s x c, at_slot L en s x c -> In (x, c) en.
Proof. intros L en s x c H. induction H; cbn; auto. Qed.

Lemma at_slot_fun : forall L en s x c x' c', at_slot L en s x c -> at_slot L en s x' c' -> x = x' /\ c = c'.
Proof.
  intros L en s x c x2 c2 H. revert x2 c2. induction H; intros x2 c2 H2; inversion H2; subst; auto;
    match goal with Hs : at_slot ?L0 _ (List.length ?L0) _ _ |- _ => apply at_slot_lt in Hs; lia end.
Qed.

Lemma ENVN_lookup : forall L en x c, ENVN L en -> assoc en x = Some c ->
  exists slot, resolve_local L x = Some (slot, true) /\ at_slot L en slot x c.
Proof.
  intros L en x c H. induction H as [|L en d b H IH|L en y c0 d b H IH]; cbn [assoc]; [discriminate| |].
  - intros E. destruct (IH E) as (s & E1 & E2). exists s. split; [|now constructor].
    cbn [resolve_local]. unfold name_is. cbn [l_name]. exact E1.
  - cbn [resolve_local]. unfold name_is. cbn [l_name l_depth]. destruct (Nat.eqb_spec y x) as [->|Hne].
    + intros [= <-]. exists (List.length L). split; [reflexivity|constructor].
    + intros E. destruct (IH E) as (s & E1 & E2). exists s. split; [exact E1|now constructor].
Qed.

Lemma ENVN_lookup_none : forall L en x, ENVN L en -> assoc en x = None -> resolve_local L x = None.
Proof.
  intros L en x H. induction H as [|L en d b H IH|L en y c0 d b H IH]; cbn [assoc resolve_local]; [reflexivity| |].
  - unfold name_is. cbn [l_name]. exact IH.
  - unfold name_is. cbn [l_name]. destruct (y =? x); [discriminate|exact IH].
Qed.

Lemma ENVN_flags : forall L L' en, flags_up L L' -> ENVN L en -> ENVN L' en.
Proof.
  intros L L' en HF H. revert L' HF. induction H as [|L en d b H IH|L en y c0 d b H IH]; intros L' HF.
  - inversion HF; subst. constructor.
  - inversion HF as [|l l' ? L0' (E1 & E2 & E3) HF']; subst. destruct l' as [n' d' b']. cbn in *. subst. constructor. auto.
  - inversion HF as [|l l' ? L0' (E1 & E2 & E3) HF']; subst. destruct l' as [n' d' b']. cbn in *. subst. constructor. auto.
Qed.

Lemma ENVN_flags_rev : forall L L' en, flags_up L L' -> ENVN L' en -> ENVN L en.
Proof.
  intros L L' en HF H. revert L HF. induction H as [|L' en d b H IH|L' en y c0 d b H IH]; intros L HF.
  - inversion HF; subst. constructor.
  - inversion HF as [|l l' L0 ? (E1 & E2 & E3) HF']; subst. destruct l as [n0 d0 b0]. cbn in *. subst. constructor. auto.
  - inversion HF as [|l l' L0 ? (E1 & E2 & E3) HF']; subst. destruct l as [n0 d0 b0]. cbn in *. subst. constructor. auto.
Qed.

Lemma at_slot_flags : forall L L' en s x c, flags_up L L' -> at_slot L en s x c -> at_slot L' en s x c.
Proof.
  intros L L' en s x c HF H. revert L' HF. induction H; intros L' HF;
    inversion HF as [|l l' ? L0' (E1 & E2 & E3) HF']; subst; destruct l' as [n' d' b']; cbn in *; subst.
  - rewrite <- (flags_up_length _ _ HF'). constructor.
  - constructor. auto.
  - constructor. auto.
Qed.

(* a named, initialised local has an environment entry *)
Lemma at_slot_named : forall L en s lc, ENVN L en -> nth_error (rev L) s = Some lc -> l_name lc <> None ->
  exists x c, at_slot L en s x c.
Proof.
  intros L en s lc H. revert s lc. induction H as [|L en d b H IH|L en y c0 d b H IH]; intros s lc Hn Hm.
  - destruct s; discriminate.
  - cbn [rev] in Hn. destruct (Nat.lt_ge_cases s (List.length L)) as [Hlt|Hge].
    + rewrite nth_error_app1 in Hn by (now rewrite rev_length). destruct (IH _ _ Hn Hm) as (x & c & A). exists x, c. now constructor.
    + rewrite nth_error_app2 in Hn by (rewrite rev_length; lia). rewrite rev_length in Hn.
      destruct (s - List.length L) as [|k]; cbn in Hn; [inversion Hn; subst; cbn in Hm; congruence|destruct k; discriminate].
  - cbn [rev] in Hn. destruct (Nat.lt_ge_cases s (List.length L)) as [Hlt|Hge].
    + rewrite nth_error_app1 in Hn by (now rewrite rev_length). destruct (IH _ _ Hn Hm) as (x & c & A). exists x, c. now constructor.
    + rewrite nth_error_app2 in Hn by (rewrite rev_length; lia). rewrite rev_length in Hn.
      destruct (s - List.length L) as [|k] eqn:Ek; cbn in Hn; [|destruct k; discriminate].
      assert (s = List.length L) by lia. subst s. exists y, c0. constructor.
Qed.

(* ------------------------------------------------------------------------------------------ *)
(* a frame: its locals (from slot `base`) name the cells of its environment entries; a local whose cell is captured
   has its flag set (so its scope end emits CloseUpvalue, not Pop) *)

Inductive LRBN (K CL HL : list nat) (base : nat) : list local -> env -> Prop :=
| LN_nil : LRBN K CL HL base [] []
| LN_hid : forall L en d b, LRBN K CL HL base L en ->
    (In (nth (base + List.length L) CL 0) HL -> b = true) ->
    LRBN K CL HL base (mkLocal None d b :: L) en
| LN_cons : forall L en x c d b, LRBN K CL HL base L en ->
    c < List.length K -> nth (base + List.length L) CL 0 = kc K c ->
    (In (kc K c) HL -> b = true) ->
    LRBN K CL HL base (mkLocal (Some x) (Some d) b :: L) ((x, c) :: en).

Lemma LRBN_ENV : forall K CL HL base L en, LRBN K CL HL base L en -> ENVN L en.
Proof. intros K CL HL base L en H. induction H; constructor; auto. Qed.

Lemma LRBN_at : forall K CL HL base L en s x c, LRBN K CL HL base L en -> at_slot L en s x c ->
  nth (base + s) CL 0 = kc K c /\ c < List.length K.
Proof.
  intros K CL HL base L en s x c H. revert s x c. induction H as [|L en d b H IH Hf|L en y c0 d b H IH Hc Hn Hf]; intros s x c A; inversion A; subst; eauto.
Qed.

Lemma LRBN_lookup : forall K CL HL base L en x c, LRBN K CL HL base L en -> assoc en x = Some c ->
  exists slot, resolve_local L x = Some (slot, true) /\ slot < List.length L /\
               c < List.length K /\ nth (base + slot) CL 0 = kc K c.
Proof.
  intros K CL HL base L en x c H Ha. destruct (ENVN_lookup _ _ _ _ (LRBN_ENV _ _ _ _ _ _ H) Ha) as (s & E1 & E2).
  destruct (LRBN_at _ _ _ _ _ _ _ _ _ H E2) as [E3 E4]. exists s. repeat split; auto. eapply at_slot_lt; eauto.
Qed.

Lemma LRBN_cells : forall K CL HL base L en x c, LRBN K CL HL base L en -> In (x, c) en -> c < List.length K.
Proof.
  intros K CL HL base L en x c H. induction H as [|L en d b H IH Hf|L en y c0 d b H IH Hc Hn Hf]; intros Hin; [destruct Hin|auto|].
  destruct Hin as [E|Hin]; [inversion E; subst; exact Hc|auto].
Qed.

(* stable under: K growing, CL changing above the locals, HL growing by cells that are not cells of K and not in
   the frame's slots *)
Lemma LRBN_mono : forall K CL HL base L en K' CL' HL', LRBN K CL HL base L en ->
  (exists e, K' = (K ++ e)%list) ->
  (forall i, i < base + List.length L -> nth i CL' 0 = nth i CL 0) ->
  (forall k, In k HL' -> In k HL \/ (~ In k K /\ forall i, base <= i < base + List.length L -> nth i CL 0 <> k)) ->
  LRBN K' CL' HL' base L en.
Proof.
  intros K CL HL base L en K' CL' HL' H [eK ->]. induction H as [|L en d b H IH Hf|L en y c0 d b H IH Hc Hn Hf]; intros HC HH; constructor.
  - apply IH; [intros i Hi; apply HC; cbn; lia|].
    intros k Hk. destruct (HH k Hk) as [A|[A B]]; [now left|right; split; [exact A|intros i Hi; apply B; cbn; lia]].
  - rewrite HC by (cbn; lia). intros Hin. destruct (HH _ Hin) as [Hold|[_ Hnew]]; [auto|].
    exfalso. apply (Hnew (base + List.length L)); [cbn; lia|reflexivity].
  - apply IH; [intros i Hi; apply HC; cbn; lia|].
    intros k Hk. destruct (HH k Hk) as [A|[A B]]; [now left|right; split; [exact A|intros i Hi; apply B; cbn; lia]].
  - rewrite app_length. lia.
  - rewrite HC by (cbn; lia). unfold kc. rewrite app_nth1 by lia. exact Hn.
  - unfold kc. rewrite app_nth1 by lia. intros Hin. destruct (HH _ Hin) as [Hold|[Hnew _]]; [auto|].
    exfalso. apply Hnew. apply nth_In. lia.
Qed.

Lemma LRBN_flags : forall K CL HL base L L' en, LRBN K CL HL base L en -> flags_up L L' -> LRBN K CL HL base L' en.
Proof.
  intros K CL HL base L L' en H. revert L'. induction H as [|L en d b H IH Hf|L en y c0 d b H IH Hc Hn Hf]; intros L' HF.
  - inversion HF; subst. constructor.
  - inversion HF as [|l l' L0 L0' (E1 & E2 & E3) HF']; subst. destruct l' as [n' d' b']. cbn in *. subst.
    pose proof (flags_up_length _ _ HF') as Hl. constructor; auto. rewrite Hl. auto.
  - inversion HF as [|l l' L0 L0' (E1 & E2 & E3) HF']; subst. destruct l' as [n' d' b']. cbn in *. subst.
    pose proof (flags_up_length _ _ HF') as Hl. constructor; auto. now rewrite Hl.
Qed.

Lemma rev_cons_nth_last : forall A (l : A) Lt, nth_error (rev (l :: Lt)) (List.length Lt) = Some l.
Proof. intros. cbn [rev]. rewrite nth_error_app2 by (rewrite rev_length; lia). now rewrite rev_length, Nat.sub_diag. Qed.

(* the handle list grows: fine as long as a newly captured slot has its flag set *)
Lemma LRBN_rehl : forall K CL HL HL' base L en, LRBN K CL HL base L en ->
  (forall s l, nth_error (rev L) s = Some l -> In (nth (base + s) CL 0) HL' -> In (nth (base + s) CL 0) HL \/ l_capt l = true) ->
  LRBN K CL HL' base L en.
Proof.
  intros K CL HL HL' base L en H. induction H as [|L en d b H IH Hf|L en y c0 d b H IH Hc Hn Hf]; intros HH; constructor; auto.
  - apply IH. intros s l Hs Hin.
    assert (s < List.length L) by (rewrite <- rev_length; apply nth_error_Some; congruence).
    apply HH; auto. cbn [rev]. now rewrite nth_error_app1 by (now rewrite rev_length).
  - intros Hin. destruct (HH (List.length L) _ (rev_cons_nth_last _ _ _) Hin) as [Hold|Hb]; [auto|exact Hb].
  - apply IH. intros s l Hs Hin.
    assert (s < List.length L) by (rewrite <- rev_length; apply nth_error_Some; congruence).
    apply HH; auto. cbn [rev]. now rewrite nth_error_app1 by (now rewrite rev_length).
  - intros Hin. rewrite <- Hn in Hin. destruct (HH (List.length L) _ (rev_cons_nth_last _ _ _) Hin) as [Hold|Hb]; [|exact Hb].
    rewrite Hn in Hold. auto.
Qed.

(* dropping the newest (named) locals *)
Lemma LRBN_drop : forall K CL HL base N L Ne en, LRBN K CL HL base (N ++ L)%list (Ne ++ en)%list ->
  List.length N = List.length Ne -> Forall (fun l => l_name l <> None) N -> LRBN K CL HL base L en.
Proof.
  intros K CL HL base N. induction N as [|l N IH]; intros L Ne en H Hlen HN.
  - destruct Ne; [exact H|discriminate].
  - destruct Ne as [|e Ne]; [discriminate|]. inversion HN as [|? ? Hl HN']; subst. cbn in H. inversion H; subst.
    + cbn in Hl. congruence.
    + eapply IH; eauto.
Qed.

Lemma LRBN_cons_inv : forall K CL HL base l L x c en, l_name l <> None -> LRBN K CL HL base (l :: L) ((x, c) :: en) ->
  exists d b, l = mkLocal (Some x) (Some d) b /\ LRBN K CL HL base L en /\ c < List.length K /\
              nth (base + List.length L) CL 0 = kc K c /\ (In (kc K c) HL -> b = true).
Proof. intros K CL HL base l L x c en Hl H. inversion H; subst; [cbn in Hl; congruence|]. eauto 10. Qed.

(* ------------------------------------------------------------------------------------------ *)
(* the variable an upvalue index stands for: the cell reached through the chain of enclosing levels *)

Inductive UPC : ups_t -> list lev -> list env -> nat -> nat -> Prop :=
| UPC_loc : forall U l E en envs j slot x c, nth_error U j = Some (slot, true) -> at_slot (lv_locals l) en slot x c ->
    UPC U (l :: E) (en :: envs) j c
| UPC_out : forall U l E en envs j i c, nth_error U j = Some (i, false) -> UPC (lv_ups l) E envs i c ->
    UPC U (l :: E) (en :: envs) j c.

Lemma UPC_fun : forall U E envs j c c', UPC U E envs j c -> UPC U E envs j c' -> c = c'.
Proof.
  intros U E envs j c c2 H. revert c2. induction H; intros c2 H2; inversion H2; subst;
    match goal with
    | A : nth_error ?U0 ?j0 = Some _, B : nth_error ?U0 ?j0 = Some _ |- _ => rewrite A in B; inversion B; subst
    end.
  - eapply at_slot_fun; eauto.
  - auto.
Qed.

Lemma UPC_mono : forall U E envs j c U' E', UPC U E envs j c -> (exists ext, U' = (U ++ ext)%list) -> levs_up E E' ->
  UPC U' E' envs j c.
Proof.
  intros U E envs j c U' E' H. revert U' E'. induction H; intros U' E' [ext ->] HE; inversion HE as [|? l' ? E0' [F1 [e1 F2]] HE']; subst.
  - eapply UPC_loc; [apply nth_error_app1 with (l' := ext) in H || idtac; rewrite nth_error_app1; [exact H|apply nth_error_Some; congruence]|].
    eapply at_slot_flags; eauto.
  - eapply UPC_out; [rewrite nth_error_app1; [exact H|apply nth_error_Some; congruence]|].
    apply IHUPC; [eauto|exact HE'].
Qed.

(* ------------------------------------------------------------------------------------------ *)
(* values *)

Section RelN.
Variable cf : cfg.
Variable funs : list func.
Variable jumps : bool.   (* break / continue admitted in closure bodies (stage 4) *)

(* the closure's handle vector against its upvalue list: every index stands for a cell, the handle holds that cell *)
Definition UR (K HL : list nat) (E : list lev) (envs : list env) (Ufin : ups_t) (uvec : list nat) : Prop :=
  forall j, j < List.length Ufin -> exists c, UPC Ufin E envs j c /\ c < List.length K /\
                                              nth j uvec 0 < List.length HL /\ nth (nth j uvec 0) HL 0 = kc K c.

Lemma UR_mono : forall K HL E envs Ufin uvec K' HL', UR K HL E envs Ufin uvec ->
  (exists e, K' = (K ++ e)%list) -> (exists e, HL' = (HL ++ e)%list) -> UR K' HL' E envs Ufin uvec.
Proof.
  intros K HL E envs Ufin uvec K' HL' H [eK ->] [eH ->] j Hj. destruct (H j Hj) as (c & A & B & C & D).
  exists c. rewrite !app_length. repeat split; auto; try lia. unfold kc in *. rewrite !app_nth1 by lia. exact D.
Qed.

Definition ENVS (E : list lev) (envs : list env) : Prop := Forall2 (fun l en => ENVN (lv_locals l) en) E envs.

Lemma ENVS_levs_up_rev : forall E E' envs, levs_up E E' -> ENVS E' envs -> ENVS E envs.
Proof.
  intros E E' envs H. revert envs. induction H as [|l l' E E' [F _] H IH]; intros envs HE; inversion HE; subst; constructor; [eapply ENVN_flags_rev; eauto|apply IH; assumption].
Qed.

Lemma ENVS_levs_up : forall E E' envs, levs_up E E' -> ENVS E envs -> ENVS E' envs.
Proof.
  intros E E' envs H. revert envs. induction H as [|l l' E E' [F _] H IH]; intros envs HE; inversion HE; subst; constructor; [eapply ENVN_flags; eauto|apply IH; assumption].
Qed.

Inductive vrelN (K HL : list nat) : sval -> mval -> Prop :=
| VN_int : forall z, vrelN K HL (SVInt z) (MInt z)
| VN_nil : vrelN K HL SVNil MNil
| VN_stop : vrelN K HL SVStop MStop
| VN_clo : forall ps body fn uvec Lp Ein fs0 cb Lb' Ub Eout fs1 Efin envs,
    forallb (stmt6 jumps true false false) body = true ->
    bparams cf ps [mkLocal None (Some 0) false] = Some Lp ->
    nlist cf body 1 Lp [] Ein fs0 0 None = Some (cb, Lb', Ub, Eout, fs1) ->
    levs_ok Ein -> levs_up Eout Efin ->
    nth_error funs fn = Some (mkFunc (cb ++ [INil; IReturn]) (List.length ps) (List.length Ub)) ->
    (exists ext, funs = (fs1 ++ ext)%list) ->
    ENVS Efin envs ->
    UR K HL Efin envs Ub uvec ->
    (forall x c, In (x, c) (List.concat envs) -> c < List.length K) ->
    vrelN K HL (SVClo ps body (List.concat envs)) (MClo fn uvec).

Lemma vrelN_mono : forall K HL K' HL' v w, vrelN K HL v w ->
  (exists e, K' = (K ++ e)%list) -> (exists e, HL' = (HL ++ e)%list) -> vrelN K' HL' v w.
Proof.
  intros K HL K' HL' v w H HK HH. destruct H; try constructor.
  econstructor; eauto.
  - eapply UR_mono; eauto.
  - destruct HK as [eK ->]. intros x c Hin. rewrite app_length. pose proof (H8 x c Hin). lia.
Qed.

Lemma vrelN_show : forall K HL v w, vrelN K HL v w -> show_sval v = show_mval w.
Proof. intros K HL v w H. destruct H; reflexivity. Qed.

Definition GRN (K HL : list nat) (g : list (name * sval)) (G : list (name * mval)) : Prop :=
  Forall2 (fun a b => fst a = fst b /\ vrelN K HL (snd a) (snd b)) g G.

Lemma GRN_assoc : forall K HL g G x v, GRN K HL g G -> assoc g x = Some v ->
  exists v', assoc G x = Some v' /\ vrelN K HL v v'.
Proof.
  intros K HL g G x v H. induction H as [|[y a] [y' b] g' G' [E R] H IH]; cbn; [discriminate|].
  cbn in E. subst y'. destruct (y =? x); [intros [= <-]; eauto|exact IH].
Qed.

Lemma GRN_set : forall K HL g G x v v', GRN K HL g G -> vrelN K HL v v' -> GRN K HL (set_assoc g x v) (set_assoc G x v').
Proof.
  intros K HL g G x v v' H R. induction H as [|[y a] [y' b] g' G' [E R'] H IH]; cbn.
  - constructor; [split; auto|constructor].
  - cbn in E. subst y'. destruct (y =? x); constructor; auto; split; auto.
Qed.

Lemma GRN_mono : forall K HL K' HL' g G, GRN K HL g G ->
  (exists e, K' = (K ++ e)%list) -> (exists e, HL' = (HL ++ e)%list) -> GRN K' HL' g G.
Proof.
  intros K HL K' HL' g G H HK HH. induction H as [|a b g' G' [E R] H IH]; constructor; auto.
  split; [exact E|]. eapply vrelN_mono; eauto.
Qed.

(* ---- the store: every evaluator cell has a machine cell holding a related value ---- *)
Record STON (st : sst) (K HL : list nat) (cvf : nat -> mval) (cnx : nat) (G : list (name * mval)) (O : list string) : Prop := mkSTON {
  stn_len : List.length K = List.length (s_cells st);
  stn_nd : NoDup K;
  stn_lt : forall k, In k K -> k < cnx;
  stn_val : forall c, c < List.length K -> vrelN K HL (nth c (s_cells st) SVNil) (cvf (kc K c));
  stn_g : GRN K HL (s_globals st) G;
  stn_o : s_out st = O
}.

Lemma STON_temp : forall st K HL cvf cnx G O k w cnx',
  STON st K HL cvf cnx G O -> ~ In k K -> cnx <= cnx' -> STON st K HL (upd cvf k w) cnx' G O.
Proof.
  intros st K HL cvf cnx G O k w cnx' [H1 H2 H3 H4 H5 H6] Hk Hc. constructor; auto.
  - intros k0 Hin. pose proof (H3 _ Hin). lia.
  - intros c Hc'. rewrite upd_other; [auto|]. intro E. apply Hk. rewrite <- E. unfold kc. apply nth_In. lia.
Qed.

Lemma STON_cn : forall st K HL cvf cnx G O cnx', STON st K HL cvf cnx G O -> cnx <= cnx' -> STON st K HL cvf cnx' G O.
Proof.
  intros st K HL cvf cnx G O cnx' [H1 H2 H3 H4 H5 H6] Hc. constructor; auto. intros k0 Hin. pose proof (H3 _ Hin). lia.
Qed.

Lemma STON_write : forall st K HL cvf cnx G O c v w,
  STON st K HL cvf cnx G O -> c < List.length K -> vrelN K HL v w ->
  STON (ScopeLang.set_cell st c v) K HL (upd cvf (kc K c) w) cnx G O.
Proof.
  intros st K HL cvf cnx G O c v w [H1 H2 H3 H4 H5 H6] Hc Hv. constructor; cbn [s_cells s_globals s_out ScopeLang.set_cell]; auto.
  - now rewrite set_nth_length.
  - intros c2 Hc2. destruct (Nat.eq_dec c2 c) as [->|Hne].
    + rewrite upd_same. rewrite nth_set_nth by lia. now rewrite Nat.eqb_refl.
    + rewrite upd_other by (intro E; apply Hne; eapply kc_inj; eauto).
      rewrite nth_set_nth_other by exact Hne. auto.
Qed.

Lemma NoDup_snocN : forall A (l : list A) x, NoDup l -> ~ In x l -> NoDup (l ++ [x]).
Proof.
  intros A l x H Hn. rewrite <- (rev_involutive (l ++ [x])). apply NoDup_rev. rewrite rev_app_distr. cbn. constructor.
  - rewrite <- in_rev. exact Hn.
  - now apply NoDup_rev.
Qed.

(* a new evaluator cell, living in machine cell k; its value may refer to the new cell itself *)
Lemma STON_new : forall st K HL cvf cnx G O k v,
  STON st K HL cvf cnx G O -> ~ In k K -> k < cnx -> vrelN (K ++ [k]) HL v (cvf k) ->
  STON (fst (new_cell st v)) (K ++ [k]) HL cvf cnx G O.
Proof.
  intros st K HL cvf cnx G O k v [H1 H2 H3 H4 H5 H6] Hk Hlt Hv.
  assert (HK : exists e, (K ++ [k])%list = (K ++ e)%list) by eauto.
  assert (HH : exists e, HL = (HL ++ e)%list) by (exists []; now rewrite app_nil_r).
  constructor; cbn [new_cell fst s_cells s_globals s_out]; auto.
  - rewrite !app_length. cbn. lia.
  - now apply NoDup_snocN.
  - intros k0 Hin. apply in_app_or in Hin as [Hin|[<-|[]]]; auto.
  - intros c Hc. rewrite app_length in Hc. cbn in Hc. unfold kc.
    destruct (Nat.eq_dec c (List.length K)) as [->|Hne].
    + rewrite H1 at 1. rewrite !nth_middle. exact Hv.
    + rewrite !app_nth1 by lia. eapply vrelN_mono; eauto. apply H4. lia.
  - eapply GRN_mono; eauto.
Qed.

Lemma STON_HL : forall st K HL cvf cnx G O HL', STON st K HL cvf cnx G O -> (exists e, HL' = (HL ++ e)%list) ->
  STON st K HL' cvf cnx G O.
Proof.
  intros st K HL cvf cnx G O HL' [H1 H2 H3 H4 H5 H6] HH.
  assert (HK : exists e, K = (K ++ e)%list) by (exists []; now rewrite app_nil_r).
  constructor; auto.
  - intros c Hc. eapply vrelN_mono; eauto.
  - eapply GRN_mono; eauto.
Qed.

Lemma STON_global : forall st K HL cvf cnx G O x v w, STON st K HL cvf cnx G O -> vrelN K HL v w ->
  STON (set_global st x v) K HL cvf cnx (set_assoc G x w) O.
Proof.
  intros st K HL cvf cnx G O x v w [H1 H2 H3 H4 H5 H6] Hv. constructor; cbn [set_global s_cells s_globals s_out]; auto.
  now apply GRN_set.
Qed.

Lemma STON_ext : forall st K HL f g cnx G O, (forall j, g j = f j) -> STON st K HL f cnx G O -> STON st K HL g cnx G O.
Proof. intros st K HL f g cnx G O E [H1 H2 H3 H4 H5 H6]. constructor; auto. intros c Hc. rewrite E. auto. Qed.

End RelN.
