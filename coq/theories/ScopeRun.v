(* C06 - entry points evaluated by the check (tools/props/C06.py) through coq_eval: programs arrive in
   the wire format of ScopeLang.decode_prog, traces of the real VM (hook H4) as event groups.
   DEFINITIONS ONLY. *)
From Coq Require Import List Arith Bool String Ascii ZArith NArith.
From YVGen Require Import Consts ScopeCfg.
From YV Require Import Wire Show Upvalues Cells ScopeLang ScopeComp.
Import ListNotations.
Open Scope string_scope.
Open Scope nat_scope.

(* the model instantiated with what the translator read from /repo's current sources *)
Definition the_cfg : cfg :=
  mkCfg (N.to_nat LOCALS_MAX) (N.to_nat UPVALUES_MAX) break_pops_first unwind_closes_upvalues catch_pops_handler.

Definition with_prog (w : string) (k : prog -> string) : string :=
  match parse_nss w with
  | [l] => match decode_prog l with Some p => k p | None => "#decode" end
  | _ => "#decode"
  end.

Definition sl_eval (w : string) : string := with_prog w eval_cells.
Definition sl_run (w : string) : string := with_prog w (run_m the_cfg).
Definition sl_render (w : string) : string := with_prog w render.
Definition sl_compile (w : string) : string := with_prog w (show_compiled the_cfg).
Definition sl_trace (limit : nat) (w : string) : string := with_prog w (trace_m the_cfg limit).

(* everything about one program in one evaluation: render @ eval_cells @ run_m @ code *)
Definition sl_all (w : string) : string :=
  with_prog w (fun p => render p ++ "@" ++ eval_cells p ++ "@" ++ run_m the_cfg p ++ "@" ++ show_compiled the_cfg p).

(* everything about one program in ONE evaluation (the program is decoded and compiled once):
   render @ eval_cells @ run_m @ non-trivial? @ accesses to closed upvalues @ discipline kept? cell-store run equal? @ code *)
Definition sl_bundle (w : string) : string :=
  with_prog w (fun p =>
    let ev := eval_cells p in
    match compile_scope the_cfg p with
    | Some funs =>
        let acc := rev (access_loop the_cfg funs (machine_fuel * 25) (m_start funs) []) in
        render p ++ "@" ++ ev ++ "@" ++ run_funs the_cfg (machine_fuel * 25) funs ++ "@" ++
        show_bool (write_then_other_read acc) ++ "@" ++ show_nat (List.length acc) ++ "@" ++
        (* the run over the cell store: discipline kept? same outcome as over Upvalues.v? (backend_swap) *)
        show_bool (discipline_kept the_cfg (machine_fuel * 25) funs) ++
        show_bool (String.eqb (Gen.run_funs bk_c the_cfg (machine_fuel * 25) funs) (run_funs the_cfg (machine_fuel * 25) funs)) ++ "@" ++
        concat "|" (map show_func funs)
    | None => render p ++ "@" ++ ev ++ "@#compile-error@F@0@--@ERR " ++ compile_error the_cfg p
    end).

(* attribution of a deviation to a (formerly) known class: the model with one repair switched on:
   run_m(break repaired) @ run_m(unwind repaired) @ run_m(both) *)
Definition cfg_bu (b u : bool) : cfg := mkCfg (c_locals_max the_cfg) (c_upvalues_max the_cfg) b u (c_catch_pops the_cfg).
Definition sl_ablate (w : string) : string :=
  with_prog w (fun p =>
    run_m (cfg_bu true (c_unwind_closes the_cfg)) p ++ "@" ++
    run_m (cfg_bu (c_break_pops_first the_cfg) true) p ++ "@" ++ run_m (cfg_bu true true) p).

(* eval_cells p = run_m (compile_scope p) on one program, as a boolean (for bulk self-tests) *)
Definition sl_agree (w : string) : string :=
  with_prog w (fun p => if String.eqb (eval_cells p) (run_m the_cfg p) then "T" else "F:" ++ eval_cells p ++ "@" ++ run_m the_cfg p).

(* ------------------------------------------------------------------------------------------ *)
(* replay of a real trace through Upvalues.v.  Groups (numbers):
     1 f len u1 u2 ..   state reported by the VM before an instruction: active fiber, stack length,
                        open-upvalue slots in list order -> the model switches to f, brings its stack to
                        that length by Push / (disciplined) Pop, and must then hold the SAME list, which
                        must satisfy open_list_ok
     2 slot             Capture slot            (Closure, one per is_local descriptor)
     3                  CloseTop                (CloseUpvalue)
     4 base             ReturnFrame base        (Return, after the Pop of the result)
     5 n                Truncate n              (unwind_stack)
     6                  Pop
   Values do not matter here (the trace does not carry them). *)

Definition zst := mstate Z.

Fixpoint nat_list_eqb (a b : list nat) : bool :=
  match a, b with
  | [], [] => true
  | x :: a', y :: b' => (x =? y) && nat_list_eqb a' b'
  | _, _ => false
  end.

Fixpoint sync_len (fuel : nat) (st : zst) (n : nat) : zst * bool :=
  match fuel with
  | 0 => (st, true)
  | S k =>
      let len := slen (cfib st) in
      if len =? n then (st, true)
      else if len <? n then sync_len k (fst (step st (Push 0%Z))) n
      else if disc_ok st Pop then sync_len k (fst (step st Pop)) n
      else (st, false)
  end.

Definition replay_group (st : zst) (g : list N) : zst * string :=
  match map N.to_nat g with
  | 1 :: f :: len :: us =>
      let st1 := fst (step st (SwitchFiber f)) in
      let d := (slen (cfib st1) - len) + (len - slen (cfib st1)) in
      let (st2, ok) := sync_len (S d) st1 len in
      if negb ok then (st2, "a captured slot was popped (discipline)")
      else
        let mine := map snd (openl (cfib st2)) in
        if negb (nat_list_eqb mine us) then
          (st2, "open list differs: model " ++ show_list show_nat mine ++ " impl " ++ show_list show_nat us)
        else if negb (open_list_ok (openl (cfib st2)) len) then (st2, "upvalue_list_inv fails on " ++ show_list show_nat us)
        else (st2, "")
  | [2; slot] => match step st (Capture slot) with (st1, OId _) => (st1, "") | (st1, _) => (st1, "capture outside the stack") end
  | [3] => match step st CloseTop with (st1, OStuck) => (st1, "CloseTop on an empty stack") | (st1, _) => (st1, "") end
  | [4; base] => match step st (ReturnFrame base) with (st1, OStuck) => (st1, "ReturnFrame above the stack") | (st1, _) => (st1, "") end
  | [5; n] => match step st (Truncate n) with (st1, OStuck) => (st1, "Truncate above the stack") | (st1, _) => (st1, "") end
  | [6] => if disc_ok st Pop then (fst (step st Pop), "") else (st, "a captured slot was popped (discipline)")
  | _ => (st, "bad group")
  end.

Fixpoint replay_all (st : zst) (gs : list (list N)) (ix : nat) (checks : nat) : string :=
  match gs with
  | [] => "ok " ++ show_nat checks
  | g :: r =>
      let (st1, err) := replay_group st g in
      if String.eqb err "" then replay_all st1 r (S ix) (match g with 1%N :: _ => S checks | _ => checks end)
      else "FAIL group " ++ show_nat ix ++ ": " ++ err
  end.

Definition up_replay (w : string) : string := replay_all (m_init 0%Z) (parse_nss w) 0 0.

(* open_list_ok of a reported list alone: "len u1 u2 .." *)
Definition up_list_ok (w : string) : string :=
  match parse_nss w with
  | [len :: us] => show_bool (open_list_ok (map (fun s => (0, N.to_nat s)) us) (N.to_nat len))
  | _ => "bad"
  end.
