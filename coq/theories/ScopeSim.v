(* C06 - simulation between the reference evaluator (eval_cells: environments of cells) and the compiled
   program run by the machine over the cell-store backend bk_c (ScopeComp.v), for fragments of the
   mini-language.  Together with ScopeSwap.backend_swap (bk_c run with the flag down = bk_m run) this gives
   compile_scope_correct_stageN.
   Part 1: the cell store seen as a list of values (stack_of) and the effect of every operation on it. *)
From Coq Require Import List Arith Bool String ZArith NArith Lia.
From YV Require Import Show Upvalues Cells ScopeLang ScopeComp.
Import ListNotations.
Import Gen.
Open Scope nat_scope.

Definition cstore := sstate mval.

Definition slotv (u : cstore) (i : nat) : mval := cellv u (scells (csfib u) i).
Definition slen_of (u : cstore) : nat := sslen (csfib u).
Definition stack_of (u : cstore) : list mval := map (slotv u) (seq 0 (slen_of u)).

(* live slots name distinct, allocated cells *)
Record swf (u : cstore) : Prop := mkSwf {
  swf_lt : forall i, i < slen_of u -> scells (csfib u) i < cnext u;
  swf_inj : forall i j, i < slen_of u -> j < slen_of u -> scells (csfib u) i = scells (csfib u) j -> i = j
}.

Lemma upd_same : forall A (f : nat -> A) k x, upd f k x k = x.
Proof. intros A f k x. unfold upd. now rewrite Nat.eqb_refl. Qed.
Lemma upd_other : forall A (f : nat -> A) k x j, j <> k -> upd f k x j = f j.
Proof. intros A f k x j H. unfold upd. apply Nat.eqb_neq in H. now rewrite H. Qed.

Lemma stack_of_length : forall u, List.length (stack_of u) = slen_of u.
Proof. intros u. unfold stack_of. now rewrite map_length, seq_length. Qed.

Lemma nth_stack_of : forall u i d, i < slen_of u -> nth i (stack_of u) d = slotv u i.
Proof.
  intros u i d H. unfold stack_of.
  rewrite nth_indep with (d' := slotv u 0) by (now rewrite map_length, seq_length).
  rewrite map_nth. now rewrite seq_nth.
Qed.

(* ---- Push ---- *)
Lemma sstep_push : forall u v, swf u ->
  exists u', sstep u (Push v) = (u', ONone) /\ stack_of u' = (stack_of u ++ [v])%list /\ swf u' /\
             scur u' = scur u /\ handles u' = handles u /\ hnext u' = hnext u.
Proof.
  intros u v W.
  set (u' := fst (sstep u (Push v))).
  exists u'. split; [reflexivity|].
  assert (Hfib : csfib u' = mkSF (upd (scells (csfib u)) (slen_of u) (cnext u)) (S (slen_of u))).
  { unfold u', csfib, slen_of. cbn. now rewrite upd_same. }
  assert (Hlen : slen_of u' = S (slen_of u)) by (unfold slen_of at 1; now rewrite Hfib).
  split; [|split; [|repeat split; reflexivity]].
  - apply nth_ext with (d := MNil) (d' := MNil).
    + rewrite app_length, !stack_of_length, Hlen. cbn. lia.
    + intros i Hi. rewrite stack_of_length, Hlen in Hi.
      rewrite nth_stack_of by lia. unfold slotv. rewrite Hfib. cbn [scells].
      destruct (Nat.eq_dec i (slen_of u)) as [->|Hne].
      * rewrite upd_same. rewrite app_nth2 by (rewrite stack_of_length; lia).
        rewrite stack_of_length, Nat.sub_diag. cbn. unfold u'. cbn. now rewrite upd_same.
      * rewrite upd_other by exact Hne. rewrite app_nth1 by (rewrite stack_of_length; lia).
        rewrite nth_stack_of by lia. unfold u'. cbn.
        rewrite upd_other; [reflexivity|]. pose proof (swf_lt _ W i ltac:(lia)). unfold slotv. lia.
  - constructor.
    + intros i Hi. rewrite Hlen in Hi. rewrite Hfib. cbn [scells]. unfold u'. cbn [cnext sstep fst].
      destruct (Nat.eq_dec i (slen_of u)) as [->|Hne].
      * rewrite upd_same. lia.
      * rewrite upd_other by exact Hne. pose proof (swf_lt _ W i ltac:(lia)). lia.
    + intros i j Hi Hj. rewrite Hlen in Hi, Hj. rewrite Hfib. cbn [scells].
      destruct (Nat.eq_dec i (slen_of u)) as [->|Hi']; destruct (Nat.eq_dec j (slen_of u)) as [->|Hj'];
        rewrite ?upd_same, ?upd_other by assumption; intros E; auto.
      * pose proof (swf_lt _ W j ltac:(lia)). lia.
      * pose proof (swf_lt _ W i ltac:(lia)). lia.
      * apply (swf_inj _ W); auto; lia.
Qed.

Lemma removelast_length : forall A (l : list A), List.length (removelast l) = List.length l - 1.
Proof.
  intros A l. induction l as [|a r IH]; [reflexivity|].
  destruct r as [|b r']; [reflexivity|]. cbn [removelast List.length] in *. rewrite IH. lia.
Qed.

(* ---- Pop (of a slot whose cell was never captured) ---- *)
Lemma sstep_pop : forall u, swf u -> slen_of u <> 0 ->
  exists u', sstep u Pop = (u', ONone) /\ stack_of u' = removelast (stack_of u) /\ swf u' /\
             scur u' = scur u /\ handles u' = handles u /\ hnext u' = hnext u /\ cnext u' = cnext u.
Proof.
  intros u W Hne. unfold slen_of in Hne.
  assert (E : sstep u Pop = (set_sfib u (mkSF (scells (csfib u)) (sslen (csfib u) - 1)), ONone)).
  { unfold sstep. cbv zeta. apply Nat.eqb_neq in Hne. now rewrite Hne. }
  eexists. split; [exact E|].
  set (u' := set_sfib u (mkSF (scells (csfib u)) (sslen (csfib u) - 1))).
  assert (Hfib : csfib u' = mkSF (scells (csfib u)) (slen_of u - 1)).
  { unfold u', csfib, set_sfib, slen_of. cbn. now rewrite upd_same. }
  assert (Hlen : slen_of u' = slen_of u - 1) by (unfold slen_of at 1; now rewrite Hfib).
  split; [|split; [|repeat split; reflexivity]].
  - apply nth_ext with (d := MNil) (d' := MNil).
    + rewrite removelast_length, !stack_of_length, Hlen. reflexivity.
    + intros i Hi. rewrite stack_of_length, Hlen in Hi.
      rewrite nth_stack_of by lia.
      assert (Hsplit : stack_of u = (removelast (stack_of u) ++ [last (stack_of u) MNil])%list).
      { apply app_removelast_last. intro Hn. apply (f_equal (@List.length _)) in Hn.
        rewrite stack_of_length in Hn. cbn in Hn. unfold slen_of in Hn. lia. }
      assert (Hn : nth i (stack_of u) MNil = nth i (removelast (stack_of u)) MNil).
      { rewrite Hsplit at 1. apply app_nth1. rewrite removelast_length, stack_of_length. lia. }
      rewrite <- Hn. rewrite nth_stack_of by (unfold slen_of in *; lia).
      unfold slotv. rewrite Hfib. reflexivity.
  - constructor.
    + intros i Hi. rewrite Hlen in Hi. rewrite Hfib. cbn [scells]. apply (swf_lt _ W). lia.
    + intros i j Hi Hj. rewrite Hlen in Hi, Hj. rewrite Hfib. cbn [scells]. apply (swf_inj _ W); lia.
Qed.

(* ---- GetSlot ---- *)
Lemma sstep_get : forall u i, i < slen_of u ->
  sstep u (GetSlot i) = (u, OVal (nth i (stack_of u) MNil)).
Proof.
  intros u i H. unfold sstep. cbv zeta. unfold slen_of in H.
  destruct (i <? sslen (csfib u)) eqn:E.
  - rewrite nth_stack_of by exact H. reflexivity.
  - apply Nat.ltb_ge in E. lia.
Qed.

(* ---- SetSlot ---- *)
Lemma nth_set_nth : forall A (l : list A) k a j d, k < List.length l ->
  nth j (set_nth l k a) d = if j =? k then a else nth j l d.
Proof.
  intros A l. induction l as [|b r IH]; intros k a j d H; cbn in H; [lia|].
  destruct k as [|k]; destruct j as [|j]; cbn; auto.
  apply IH. lia.
Qed.
Lemma set_nth_length : forall A (l : list A) k a, List.length (set_nth l k a) = List.length l.
Proof. intros A l. induction l as [|b r IH]; intros [|k] a; cbn; auto. Qed.

Lemma sstep_set : forall u i v, swf u -> i < slen_of u ->
  exists u', sstep u (SetSlot i v) = (u', ONone) /\ stack_of u' = set_nth (stack_of u) i v /\ swf u' /\
             scur u' = scur u /\ handles u' = handles u /\ hnext u' = hnext u.
Proof.
  intros u i v W H.
  assert (E : sstep u (SetSlot i v) = (Cells.set_cell u (scells (csfib u) i) v, ONone)).
  { unfold sstep. cbv zeta. unfold slen_of in H. apply Nat.ltb_lt in H. now rewrite H. }
  eexists. split; [exact E|].
  set (u' := Cells.set_cell u (scells (csfib u) i) v).
  assert (Hfib : csfib u' = csfib u) by reflexivity.
  assert (Hlen : slen_of u' = slen_of u) by reflexivity.
  split; [|split; [|repeat split; reflexivity]].
  - apply nth_ext with (d := MNil) (d' := MNil).
    + now rewrite set_nth_length, !stack_of_length.
    + intros j Hj. rewrite stack_of_length, Hlen in Hj.
      rewrite nth_set_nth by (rewrite stack_of_length; exact H).
      rewrite nth_stack_of by (rewrite Hlen; exact Hj). unfold slotv. rewrite Hfib. unfold u'. cbn [cellv Cells.set_cell].
      destruct (Nat.eqb_spec j i) as [->|Hne].
      * now rewrite upd_same.
      * rewrite upd_other.
        -- rewrite nth_stack_of by exact Hj. reflexivity.
        -- intro Hc. apply Hne. apply (swf_inj _ W); assumption.
  - constructor.
    + intros j Hj. apply (swf_lt _ W). exact Hj.
    + intros a b Ha Hb. apply (swf_inj _ W); assumption.
Qed.

(* ------------------------------------------------------------------------------------------ *)
(* Part 2: the machine over bk_c, one fiber, seen through (frames, stack as a list, globals, output) *)

Arguments uop {bk} m o.
Arguments udo {bk} m o.
Arguments mlen {bk} m.
Arguments mpush {bk} m v.
Arguments mpop {bk} m.
Arguments mpeek {bk} m d.
Arguments mpoke {bk} m d v.
Arguments mpopn {bk} n m.
Arguments set_up {bk} m u.
Arguments set_fibs {bk} m f.
Arguments cur_fib {bk} m.
Arguments put_fib {bk} m id f.
Arguments put_cur {bk} m f.
Arguments set_pc {bk} m pc.
Arguments mstep {bk} cf funs m.
Arguments run_loop {bk} cf funs fuel m.

Definition cmach := mach bk_c.
Definition st_of (m : cmach) : cstore := fst (m_up m).
Definition fl_of (m : cmach) : bool := snd (m_up m).
Definition fib0 (m : cmach) : mfib := nth 0 (m_fibs m) dfib.

Definition same_rest (m m' : cmach) : Prop :=
  m_fibs m' = m_fibs m /\ m_globals m' = m_globals m /\ m_vecs m' = m_vecs m /\ m_out m' = m_out m.

Lemma same_rest_refl : forall m, same_rest m m.
Proof. intros m. repeat split. Qed.
Lemma same_rest_trans : forall a b c, same_rest a b -> same_rest b c -> same_rest a c.
Proof. intros a b c (A1 & A2 & A3 & A4) (B1 & B2 & B3 & B4). repeat split; congruence. Qed.

(* the store is well formed, on fiber 0, nothing captured so far, flag down *)
Record SOK (m : cmach) (SL : list mval) : Prop := mkSOK {
  sok_stack : stack_of (st_of m) = SL;
  sok_wf : swf (st_of m);
  sok_cur : scur (st_of m) = 0;
  sok_nocap : hnext (st_of m) = 0;
  sok_flag : fl_of m = false
}.

Lemma mlen_c : forall (m : cmach), mlen m = slen_of (st_of m).
Proof. reflexivity. Qed.

Lemma sok_len : forall m SL, SOK m SL -> mlen m = List.length SL.
Proof. intros m SL H. rewrite mlen_c, <- (sok_stack _ _ H). now rewrite stack_of_length. Qed.

Lemma mpush_c : forall (m : cmach) SL v, SOK m SL ->
  SOK (mpush m v) (SL ++ [v])%list /\ same_rest m (mpush m v).
Proof.
  intros m SL v H.
  destruct (sstep_push (st_of m) v (sok_wf _ _ H)) as (u' & E & Hs & Hw & Hc & _ & Hh).
  unfold mpush, udo, uop. cbn [bstep bk_c]. fold (st_of m). rewrite E. cbn [fst snd].
  split; [|repeat split].
  constructor; unfold st_of, fl_of; cbn.
  - rewrite Hs. now rewrite (sok_stack _ _ H).
  - exact Hw.
  - rewrite Hc. exact (sok_cur _ _ H).
  - rewrite Hh. exact (sok_nocap _ _ H).
  - fold (fl_of m). rewrite (sok_flag _ _ H). reflexivity.
Qed.

Lemma find_handle_0 : forall h c, find_handle h 0 c = None.
Proof. reflexivity. Qed.

Lemma mpop_c : forall (m : cmach) SL v, SOK m (SL ++ [v])%list ->
  SOK (mpop m) SL /\ same_rest m (mpop m).
Proof.
  intros m SL v H.
  assert (Hlen : slen_of (st_of m) <> 0).
  { rewrite <- stack_of_length, (sok_stack _ _ H), app_length. cbn. lia. }
  destruct (sstep_pop (st_of m) (sok_wf _ _ H) Hlen) as (u' & E & Hs & Hw & Hc & _ & Hh & _).
  unfold mpop, udo, uop. cbn [bstep bk_c]. fold (st_of m). rewrite E. cbn [fst snd].
  split; [|repeat split].
  constructor; unfold st_of, fl_of; cbn.
  - rewrite Hs, (sok_stack _ _ H). apply removelast_last.
  - exact Hw.
  - rewrite Hc. exact (sok_cur _ _ H).
  - rewrite Hh. exact (sok_nocap _ _ H).
  - fold (fl_of m) (st_of m). rewrite (sok_flag _ _ H). unfold sdisc_ok, cell_captured.
    rewrite (sok_nocap _ _ H). reflexivity.
Qed.

Lemma mpeek_c : forall (m : cmach) SL d, SOK m SL -> d < List.length SL ->
  mpeek m d = nth (List.length SL - 1 - d) SL MNil.
Proof.
  intros m SL d H Hd. unfold mpeek, uop. cbn [bstep bk_c]. fold (st_of m).
  rewrite (sok_len _ _ H).
  rewrite sstep_get by (rewrite <- stack_of_length, (sok_stack _ _ H); lia).
  cbn. now rewrite (sok_stack _ _ H).
Qed.

Lemma getslot_c : forall (m : cmach) SL i, SOK m SL -> i < List.length SL ->
  uop m (GetSlot i) = (m, OVal (nth i SL MNil)).
Proof.
  intros m SL i H Hi. unfold uop. cbn [bstep bk_c]. fold (st_of m).
  rewrite sstep_get by (rewrite <- stack_of_length, (sok_stack _ _ H); lia).
  rewrite (sok_stack _ _ H). fold (fl_of m). rewrite (sok_flag _ _ H). cbn.
  f_equal. destruct m as [[u f] a b c d]. unfold set_up, st_of, fl_of in *. cbn in *.
  pose proof (sok_flag _ _ H) as F. unfold fl_of in F. cbn in F. now subst f.
Qed.

Lemma setslot_c : forall (m : cmach) SL i v, SOK m SL -> i < List.length SL ->
  SOK (udo m (SetSlot i v)) (set_nth SL i v) /\ same_rest m (udo m (SetSlot i v)).
Proof.
  intros m SL i v H Hi.
  assert (Hi' : i < slen_of (st_of m)) by (rewrite <- stack_of_length, (sok_stack _ _ H); lia).
  destruct (sstep_set (st_of m) i v (sok_wf _ _ H) Hi') as (u' & E & Hs & Hw & Hc & _ & Hh).
  unfold udo, uop. cbn [bstep bk_c]. fold (st_of m). rewrite E. cbn [fst snd].
  split; [|repeat split].
  constructor; unfold st_of, fl_of; cbn.
  - rewrite Hs. now rewrite (sok_stack _ _ H).
  - exact Hw.
  - rewrite Hc. exact (sok_cur _ _ H).
  - rewrite Hh. exact (sok_nocap _ _ H).
  - fold (fl_of m). rewrite (sok_flag _ _ H). reflexivity.
Qed.

Record FOK (m : cmach) (fn : nat) (ups : list nat) (pc base : nat) (frs : list frame) : Prop := mkFOK {
  fok_fibs : m_fibs m <> [];
  fok_frames : mf_frames (fib0 m) = mkFrame fn ups pc base :: frs;
  fok_caller : mf_caller (fib0 m) = None
}.

Record MS (m : cmach) fn ups pc base frs (SL : list mval) (G : list (name * mval)) (O : list string) : Prop := mkMS {
  ms_s : SOK m SL;
  ms_f : FOK m fn ups pc base frs;
  ms_g : m_globals m = G;
  ms_o : m_out m = O
}.

Lemma cur_fib_c : forall (m : cmach) SL, SOK m SL -> cur_fib m = fib0 m.
Proof. intros m SL H. unfold cur_fib, fib0. cbn [bcur bk_c]. fold (st_of m). now rewrite (sok_cur _ _ H). Qed.

Lemma MS_lift : forall m m' fn ups pc base frs SL SL' G O,
  MS m fn ups pc base frs SL G O -> SOK m' SL' -> same_rest m m' -> MS m' fn ups pc base frs SL' G O.
Proof.
  intros m m' fn ups pc base frs SL SL' G O [S [F1 F2 F3] Hg Ho] S' (R1 & R2 & R3 & R4).
  constructor; auto; try congruence.
  constructor; unfold fib0 in *; rewrite ?R1; auto.
Qed.

Lemma nth0_set_nth0 : forall A (l : list A) a d, l <> [] -> nth 0 (set_nth l 0 a) d = a.
Proof. intros A [|b r] a d H; [congruence|reflexivity]. Qed.

Lemma set_pc_MS : forall m fn ups pc base frs SL G O pc',
  MS m fn ups pc base frs SL G O -> MS (set_pc m pc') fn ups pc' base frs SL G O.
Proof.
  intros m fn ups pc base frs SL G O pc' [S [F1 F2 F3] Hg Ho].
  unfold set_pc. rewrite (cur_fib_c _ _ S), F2. cbn [fr_fn fr_ups fr_base].
  unfold put_cur, put_fib. cbn [bcur bk_c]. fold (st_of m). rewrite (sok_cur _ _ S).
  constructor; auto.
  - destruct S as [A B C D E]. constructor; auto.
  - constructor; unfold fib0, set_fibs; cbn [m_fibs].
    + destruct (m_fibs m); [congruence|discriminate].
    + rewrite nth0_set_nth0 by exact F1. reflexivity.
    + rewrite nth0_set_nth0 by exact F1. exact F3.
Qed.

Definition code_of (funs : list func) (fn : nat) : list instr := f_code (nth fn funs dfunc).

Ltac open_step S F Hf :=
  unfold mstep; rewrite (cur_fib_c _ _ S); rewrite (fok_frames _ _ _ _ _ _ F);
  cbn [fr_fn fr_pc fr_base fr_ups]; unfold code_of in Hf; rewrite Hf; cbv beta iota zeta.

Section Instr.
Variable cf : cfg.
Variable funs : list func.

Lemma step_const : forall m fn ups pc base frs SL G O n,
  MS m fn ups pc base frs SL G O -> fetch (code_of funs fn) pc = Some (IConst n) ->
  exists m', mstep cf funs m = MRun m' /\ MS m' fn ups (pc + 3) base frs (SL ++ [MInt (Z.of_N n)])%list G O.
Proof.
  intros m fn ups pc base frs SL G O n H Hf. pose proof (ms_s _ _ _ _ _ _ _ _ _ H) as S.
  pose proof (ms_f _ _ _ _ _ _ _ _ _ H) as F.
  eexists. split; [open_step S F Hf; reflexivity|].
  pose proof (set_pc_MS _ _ _ _ _ _ _ _ _ (pc + 3) H) as H1.
  destruct (mpush_c _ _ (MInt (Z.of_N n)) (ms_s _ _ _ _ _ _ _ _ _ H1)) as [S2 R2].
  exact (MS_lift _ _ _ _ _ _ _ _ _ _ _ H1 S2 R2).
Qed.

Lemma step_nil : forall m fn ups pc base frs SL G O,
  MS m fn ups pc base frs SL G O -> fetch (code_of funs fn) pc = Some INil ->
  exists m', mstep cf funs m = MRun m' /\ MS m' fn ups (pc + 1) base frs (SL ++ [MNil])%list G O.
Proof.
  intros m fn ups pc base frs SL G O H Hf. pose proof (ms_s _ _ _ _ _ _ _ _ _ H) as S.
  pose proof (ms_f _ _ _ _ _ _ _ _ _ H) as F.
  eexists. split; [open_step S F Hf; reflexivity|].
  pose proof (set_pc_MS _ _ _ _ _ _ _ _ _ (pc + 1) H) as H1.
  destruct (mpush_c _ _ MNil (ms_s _ _ _ _ _ _ _ _ _ H1)) as [S2 R2].
  exact (MS_lift _ _ _ _ _ _ _ _ _ _ _ H1 S2 R2).
Qed.

Lemma step_pop : forall m fn ups pc base frs SL v G O,
  MS m fn ups pc base frs (SL ++ [v])%list G O -> fetch (code_of funs fn) pc = Some IPop ->
  exists m', mstep cf funs m = MRun m' /\ MS m' fn ups (pc + 1) base frs SL G O.
Proof.
  intros m fn ups pc base frs SL v G O H Hf. pose proof (ms_s _ _ _ _ _ _ _ _ _ H) as S.
  pose proof (ms_f _ _ _ _ _ _ _ _ _ H) as F.
  eexists. split; [open_step S F Hf; reflexivity|].
  pose proof (set_pc_MS _ _ _ _ _ _ _ _ _ (pc + 1) H) as H1.
  destruct (mpop_c _ _ _ (ms_s _ _ _ _ _ _ _ _ _ H1)) as [S2 R2].
  exact (MS_lift _ _ _ _ _ _ _ _ _ _ _ H1 S2 R2).
Qed.

Lemma step_getlocal : forall m fn ups pc base frs SL G O k,
  MS m fn ups pc base frs SL G O -> fetch (code_of funs fn) pc = Some (IGetLocal k) -> base + k < List.length SL ->
  exists m', mstep cf funs m = MRun m' /\ MS m' fn ups (pc + 2) base frs (SL ++ [nth (base + k) SL MNil])%list G O.
Proof.
  intros m fn ups pc base frs SL G O k H Hf Hk. pose proof (ms_s _ _ _ _ _ _ _ _ _ H) as S.
  pose proof (ms_f _ _ _ _ _ _ _ _ _ H) as F.
  pose proof (set_pc_MS _ _ _ _ _ _ _ _ _ (pc + 2) H) as H1.
  eexists. split.
  - open_step S F Hf. cbn [isize]. rewrite (getslot_c _ _ _ (ms_s _ _ _ _ _ _ _ _ _ H1) Hk). reflexivity.
  - destruct (mpush_c _ _ (nth (base + k) SL MNil) (ms_s _ _ _ _ _ _ _ _ _ H1)) as [S2 R2].
    exact (MS_lift _ _ _ _ _ _ _ _ _ _ _ H1 S2 R2).
Qed.

Lemma step_setlocal : forall m fn ups pc base frs SL v G O k,
  MS m fn ups pc base frs (SL ++ [v])%list G O -> fetch (code_of funs fn) pc = Some (ISetLocal k) -> base + k < List.length SL ->
  exists m', mstep cf funs m = MRun m' /\ MS m' fn ups (pc + 2) base frs (set_nth SL (base + k) v ++ [v])%list G O.
Proof.
  intros m fn ups pc base frs SL v G O k H Hf Hk. pose proof (ms_s _ _ _ _ _ _ _ _ _ H) as S.
  pose proof (ms_f _ _ _ _ _ _ _ _ _ H) as F.
  pose proof (set_pc_MS _ _ _ _ _ _ _ _ _ (pc + 2) H) as H1.
  pose proof (ms_s _ _ _ _ _ _ _ _ _ H1) as S1.
  eexists. split.
  - open_step S F Hf. cbn [isize].
    rewrite (mpeek_c _ _ 0 S1) by (rewrite app_length; cbn; lia).
    rewrite app_length. cbn [List.length]. replace (List.length SL + 1 - 1 - 0) with (List.length SL) by lia.
    rewrite app_nth2 by lia. rewrite Nat.sub_diag. cbn [nth]. reflexivity.
  - destruct (setslot_c _ _ (base + k) v S1) as [S2 R2]; [rewrite app_length; cbn; lia|].
    assert (E : set_nth (SL ++ [v]) (base + k) v = (set_nth SL (base + k) v ++ [v])%list).
    { clear -Hk. revert Hk. generalize (base + k) as j. induction SL as [|a r IH]; intros j Hj; cbn in Hj; [lia|].
      destruct j; cbn; [reflexivity|]. f_equal. apply IH. lia. }
    rewrite E in S2. exact (MS_lift _ _ _ _ _ _ _ _ _ _ _ H1 S2 R2).
Qed.

Lemma step_getglobal : forall m fn ups pc base frs SL G O x v,
  MS m fn ups pc base frs SL G O -> fetch (code_of funs fn) pc = Some (IGetGlobal (GUser x)) -> assoc G x = Some v ->
  exists m', mstep cf funs m = MRun m' /\ MS m' fn ups (pc + 3) base frs (SL ++ [v])%list G O.
Proof.
  intros m fn ups pc base frs SL G O x v H Hf Hx. pose proof (ms_s _ _ _ _ _ _ _ _ _ H) as S.
  pose proof (ms_f _ _ _ _ _ _ _ _ _ H) as F.
  pose proof (set_pc_MS _ _ _ _ _ _ _ _ _ (pc + 3) H) as H1.
  eexists. split.
  - open_step S F Hf. cbn [isize]. rewrite (ms_g _ _ _ _ _ _ _ _ _ H1), Hx. reflexivity.
  - destruct (mpush_c _ _ v (ms_s _ _ _ _ _ _ _ _ _ H1)) as [S2 R2].
    exact (MS_lift _ _ _ _ _ _ _ _ _ _ _ H1 S2 R2).
Qed.

Lemma step_getprint : forall m fn ups pc base frs SL G O,
  MS m fn ups pc base frs SL G O -> fetch (code_of funs fn) pc = Some (IGetGlobal GPrint) ->
  exists m', mstep cf funs m = MRun m' /\ MS m' fn ups (pc + 3) base frs (SL ++ [MPrintFn])%list G O.
Proof.
  intros m fn ups pc base frs SL G O H Hf. pose proof (ms_s _ _ _ _ _ _ _ _ _ H) as S.
  pose proof (ms_f _ _ _ _ _ _ _ _ _ H) as F.
  pose proof (set_pc_MS _ _ _ _ _ _ _ _ _ (pc + 3) H) as H1.
  eexists. split; [open_step S F Hf; reflexivity|].
  destruct (mpush_c _ _ MPrintFn (ms_s _ _ _ _ _ _ _ _ _ H1)) as [S2 R2].
  exact (MS_lift _ _ _ _ _ _ _ _ _ _ _ H1 S2 R2).
Qed.

(* a state that differs only in globals / output *)
Lemma MS_with : forall (m : cmach) fn ups pc base frs SL G O G' O',
  MS m fn ups pc base frs SL G O ->
  MS (mkMach (m_up m) (m_fibs m) G' (m_vecs m) O') fn ups pc base frs SL G' O'.
Proof.
  intros m fn ups pc base frs SL G O G' O' [[A B C D E] [F1 F2 F3] Hg Ho].
  constructor; auto; constructor; auto.
Qed.

Lemma step_defglobal : forall m fn ups pc base frs SL v G O x,
  MS m fn ups pc base frs (SL ++ [v])%list G O -> fetch (code_of funs fn) pc = Some (IDefineGlobal x) ->
  exists m', mstep cf funs m = MRun m' /\ MS m' fn ups (pc + 3) base frs SL (set_assoc G x v) O.
Proof.
  intros m fn ups pc base frs SL v G O x H Hf. pose proof (ms_s _ _ _ _ _ _ _ _ _ H) as S.
  pose proof (ms_f _ _ _ _ _ _ _ _ _ H) as F.
  pose proof (set_pc_MS _ _ _ _ _ _ _ _ _ (pc + 3) H) as H1.
  pose proof (ms_s _ _ _ _ _ _ _ _ _ H1) as S1.
  eexists. split; [open_step S F Hf; reflexivity|]. cbn [isize].
  rewrite (mpeek_c _ _ 0 S1) by (rewrite app_length; cbn; lia).
  rewrite app_length. cbn [List.length]. replace (List.length SL + 1 - 1 - 0) with (List.length SL) by lia.
  rewrite app_nth2 by lia. rewrite Nat.sub_diag. cbn [nth].
  rewrite (ms_g _ _ _ _ _ _ _ _ _ H1).
  pose proof (MS_with _ _ _ _ _ _ _ _ _ (set_assoc G x v) (m_out (set_pc m (pc + 3))) H1) as H2.
  rewrite (ms_o _ _ _ _ _ _ _ _ _ H1) in H2 at 2.
  destruct (mpop_c _ _ _ (ms_s _ _ _ _ _ _ _ _ _ H2)) as [S3 R3].
  exact (MS_lift _ _ _ _ _ _ _ _ _ _ _ H2 S3 R3).
Qed.

Lemma step_setglobal : forall m fn ups pc base frs SL v G O x w,
  MS m fn ups pc base frs (SL ++ [v])%list G O -> fetch (code_of funs fn) pc = Some (ISetGlobal x) -> assoc G x = Some w ->
  exists m', mstep cf funs m = MRun m' /\ MS m' fn ups (pc + 3) base frs (SL ++ [v])%list (set_assoc G x v) O.
Proof.
  intros m fn ups pc base frs SL v G O x w H Hf Hx. pose proof (ms_s _ _ _ _ _ _ _ _ _ H) as S.
  pose proof (ms_f _ _ _ _ _ _ _ _ _ H) as F.
  pose proof (set_pc_MS _ _ _ _ _ _ _ _ _ (pc + 3) H) as H1.
  pose proof (ms_s _ _ _ _ _ _ _ _ _ H1) as S1.
  eexists. split.
  - open_step S F Hf. cbn [isize]. rewrite (ms_g _ _ _ _ _ _ _ _ _ H1), Hx. reflexivity.
  - rewrite (mpeek_c _ _ 0 S1) by (rewrite app_length; cbn; lia).
    rewrite app_length. cbn [List.length]. replace (List.length SL + 1 - 1 - 0) with (List.length SL) by lia.
    rewrite app_nth2 by lia. rewrite Nat.sub_diag. cbn [nth].
    pose proof (MS_with _ _ _ _ _ _ _ _ _ (set_assoc G x v) (m_out (set_pc m (pc + 3))) H1) as H2.
    rewrite (ms_o _ _ _ _ _ _ _ _ _ H1) in H2 at 2. exact H2.
Qed.

Lemma peek2 : forall (SL : list mval) a b d,
  nth (List.length (SL ++ [a; b]) - 1 - d) (SL ++ [a; b]) MNil = match d with 0 => b | 1 => a | _ => nth (List.length SL + 1 - d) (SL ++ [a; b]) MNil end.
Proof.
  intros SL a b d. rewrite app_length. cbn [List.length].
  destruct d as [|[|d]].
  - replace (List.length SL + 2 - 1 - 0) with (List.length SL + 1) by lia.
    rewrite app_nth2 by lia. replace (List.length SL + 1 - List.length SL) with 1 by lia. reflexivity.
  - replace (List.length SL + 2 - 1 - 1) with (List.length SL) by lia.
    rewrite app_nth2 by lia. rewrite Nat.sub_diag. reflexivity.
  - f_equal. lia.
Qed.

Lemma app2_split : forall A (SL : list A) a b, (SL ++ [a; b] = (SL ++ [a]) ++ [b])%list.
Proof. intros. now rewrite <- app_assoc. Qed.

Lemma step_add : forall m fn ups pc base frs SL a b G O,
  MS m fn ups pc base frs (SL ++ [MInt a; MInt b])%list G O -> fetch (code_of funs fn) pc = Some IAdd ->
  exists m', mstep cf funs m = MRun m' /\ MS m' fn ups (pc + 1) base frs (SL ++ [MInt (a + b)])%list G O.
Proof.
  intros m fn ups pc base frs SL a b G O H Hf. pose proof (ms_s _ _ _ _ _ _ _ _ _ H) as S.
  pose proof (ms_f _ _ _ _ _ _ _ _ _ H) as F.
  pose proof (set_pc_MS _ _ _ _ _ _ _ _ _ (pc + 1) H) as H1.
  pose proof (ms_s _ _ _ _ _ _ _ _ _ H1) as S1.
  eexists. split.
  - open_step S F Hf. cbn [isize].
    rewrite (mpeek_c _ _ 1 S1) by (rewrite app_length; cbn; lia).
    rewrite (mpeek_c _ _ 0 S1) by (rewrite app_length; cbn; lia).
    rewrite !peek2. reflexivity.
  - cbn [mpopn]. rewrite app2_split in H1.
    destruct (mpop_c _ _ _ (ms_s _ _ _ _ _ _ _ _ _ H1)) as [S2 R2].
    pose proof (MS_lift _ _ _ _ _ _ _ _ _ _ _ H1 S2 R2) as H2.
    destruct (mpop_c _ _ _ (ms_s _ _ _ _ _ _ _ _ _ H2)) as [S3 R3].
    pose proof (MS_lift _ _ _ _ _ _ _ _ _ _ _ H2 S3 R3) as H3.
    destruct (mpush_c _ _ (MInt (a + b)) (ms_s _ _ _ _ _ _ _ _ _ H3)) as [S4 R4].
    exact (MS_lift _ _ _ _ _ _ _ _ _ _ _ H3 S4 R4).
Qed.

Lemma mpoke_c : forall (m : cmach) SL v w, SOK m (SL ++ [v])%list ->
  SOK (mpoke m 0 w) (SL ++ [w])%list /\ same_rest m (mpoke m 0 w).
Proof.
  intros m SL v w S. unfold mpoke. rewrite (sok_len _ _ S), app_length. cbn [List.length].
  replace (List.length SL + 1 - 1 - 0) with (List.length SL) by lia.
  destruct (setslot_c _ _ (List.length SL) w S) as [S2 R2]; [rewrite app_length; cbn; lia|].
  split; [|exact R2].
  assert (E : set_nth (SL ++ [v]) (List.length SL) w = (SL ++ [w])%list).
  { clear. induction SL as [|a r IH]; cbn; [reflexivity|]. now rewrite IH. }
  now rewrite E in S2.
Qed.

Lemma step_callprint : forall m fn ups pc base frs SL v G O,
  MS m fn ups pc base frs (SL ++ [MPrintFn; v])%list G O -> fetch (code_of funs fn) pc = Some (ICall 1) ->
  exists m', mstep cf funs m = MRun m' /\ MS m' fn ups (pc + 2) base frs (SL ++ [MNil])%list G (show_mval v :: O).
Proof.
  intros m fn ups pc base frs SL v G O H Hf. pose proof (ms_s _ _ _ _ _ _ _ _ _ H) as S.
  pose proof (ms_f _ _ _ _ _ _ _ _ _ H) as F.
  pose proof (set_pc_MS _ _ _ _ _ _ _ _ _ (pc + 2) H) as H1.
  pose proof (ms_s _ _ _ _ _ _ _ _ _ H1) as S1.
  eexists. split.
  - open_step S F Hf. cbn [isize].
    rewrite (mpeek_c _ _ 1 S1) by (rewrite app_length; cbn; lia).
    rewrite peek2. cbn [Nat.eqb]. reflexivity.
  - rewrite (mpeek_c _ _ 0 S1) by (rewrite app_length; cbn; lia). rewrite peek2.
    pose proof (MS_with _ _ _ _ _ _ _ _ _ (m_globals (set_pc m (pc + 2))) (show_mval v :: m_out (set_pc m (pc + 2))) H1) as H2.
    rewrite (ms_o _ _ _ _ _ _ _ _ _ H1) in H2 at 2. rewrite (ms_g _ _ _ _ _ _ _ _ _ H1) in H2 at 2.
    cbn [mpopn]. rewrite app2_split in H2.
    destruct (mpop_c _ _ _ (ms_s _ _ _ _ _ _ _ _ _ H2)) as [S3 R3].
    pose proof (MS_lift _ _ _ _ _ _ _ _ _ _ _ H2 S3 R3) as H3.
    destruct (mpoke_c _ _ _ MNil (ms_s _ _ _ _ _ _ _ _ _ H3)) as [S4 R4].
    exact (MS_lift _ _ _ _ _ _ _ _ _ _ _ H3 S4 R4).
Qed.

Lemma udo_same_rest : forall (m : cmach) o, same_rest m (udo m o).
Proof. intros m o. unfold udo, uop. destruct (bstep bk_c (m_up m) o). repeat split. Qed.

(* the last Return of the script: the only frame of a fiber without caller *)
Lemma step_return_done : forall m fn ups pc base SL v G O,
  MS m fn ups pc base [] (SL ++ [v])%list G O -> fetch (code_of funs fn) pc = Some IReturn -> base <= List.length SL ->
  exists m', mstep cf funs m = MDone m' /\ m_out m' = O /\ fl_of m' = false.
Proof.
  intros m fn ups pc base SL v G O H Hf Hb. pose proof (ms_s _ _ _ _ _ _ _ _ _ H) as S.
  pose proof (ms_f _ _ _ _ _ _ _ _ _ H) as F.
  pose proof (set_pc_MS _ _ _ _ _ _ _ _ _ (pc + 1) H) as H1.
  destruct (mpop_c _ _ _ (ms_s _ _ _ _ _ _ _ _ _ H1)) as [S2 R2].
  pose proof (MS_lift _ _ _ _ _ _ _ _ _ _ _ H1 S2 R2) as H2.
  set (m2 := mpop (set_pc m (pc + 1))) in *.
  set (m3 := udo m2 (ReturnFrame base)).
  assert (R3 : same_rest m2 m3) by apply udo_same_rest.
  assert (F3 : fl_of m3 = false /\ scur (st_of m3) = 0).
  { unfold m3, udo, uop, fl_of, st_of. cbn [bstep bk_c]. destruct (sstep (fst (m_up m2)) (ReturnFrame base)) as [u' b] eqn:E.
    cbn. fold (fl_of m2). rewrite (sok_flag _ _ S2). split; [reflexivity|].
    unfold sstep in E. cbv zeta in E. destruct (base <=? sslen (csfib (fst (m_up m2)))); inversion E; subst; cbn;
      exact (sok_cur _ _ S2). }
  destruct F3 as [F3 C3].
  assert (Hc : cur_fib m3 = fib0 m2).
  { unfold cur_fib, fib0. cbn [bcur bk_c]. fold (st_of m3). rewrite C3. destruct R3 as [-> _]. reflexivity. }
  eexists. split.
  - open_step S F Hf. cbn [isize]. fold m2. fold m3. rewrite Hc.
    rewrite (fok_caller _ _ _ _ _ _ (ms_f _ _ _ _ _ _ _ _ _ H2)). reflexivity.
  - split.
    + unfold put_cur, put_fib, set_fibs. cbn [m_out]. destruct R3 as (_ & _ & _ & ->). exact (ms_o _ _ _ _ _ _ _ _ _ H2).
    + unfold put_cur, put_fib, set_fibs, fl_of. cbn [m_up]. exact F3.
Qed.

End Instr.

(* ------------------------------------------------------------------------------------------ *)
(* Part 3: runs, fetch, and the compiler of fragment 1a written as a pure function of (locals, depth) *)

Section Steps.
Variable cf : cfg.
Variable funs : list func.

Fixpoint steps (n : nat) (m m' : cmach) : Prop :=
  match n with
  | 0 => m = m'
  | S k => exists m1, mstep cf funs m = MRun m1 /\ steps k m1 m'
  end.

Lemma steps_trans : forall n k a b c, steps n a b -> steps k b c -> steps (n + k) a c.
Proof.
  induction n as [|n IH]; intros k a b c H1 H2; cbn in *.
  - now subst.
  - destruct H1 as (m1 & E & H1). exists m1. split; [exact E|]. eapply IH; eauto.
Qed.

Lemma steps_one : forall a b, mstep cf funs a = MRun b -> steps 1 a b.
Proof. intros a b H. exists b. split; [exact H|reflexivity]. Qed.

Lemma run_loop_steps : forall n k a b, steps n a b -> run_loop cf funs (n + k) a = run_loop cf funs k b.
Proof.
  induction n as [|n IH]; intros k a b H; cbn in *.
  - now subst.
  - destruct H as (m1 & E & H). rewrite E. now apply IH.
Qed.
End Steps.

Lemma isize_pos : forall i, 1 <= isize i.
Proof. destruct i; cbn; lia. Qed.

Lemma fetch_app : forall pre i post, fetch (pre ++ i :: post) (code_size pre) = Some i.
Proof.
  induction pre as [|a r IH]; intros i post; cbn [app code_size fetch].
  - reflexivity.
  - pose proof (isize_pos a) as Ha.
    destruct (isize a + code_size r =? 0) eqn:E; [apply Nat.eqb_eq in E; lia|].
    destruct (isize a + code_size r <? isize a) eqn:E2; [apply Nat.ltb_lt in E2; lia|].
    replace (isize a + code_size r - isize a) with (code_size r) by lia. apply IH.
Qed.

Lemma code_size_app : forall a b, code_size (a ++ b) = code_size a + code_size b.
Proof. induction a as [|i r IH]; intros b; cbn; [reflexivity|]. rewrite IH. lia. Qed.

(* fetch the k-th instruction of a block `c` placed after `pre` *)
Lemma fetch_mid : forall code pre c1 i c2 post,
  code = (pre ++ (c1 ++ i :: c2) ++ post)%list ->
  fetch code (code_size pre + code_size c1) = Some i.
Proof.
  intros code pre c1 i c2 post ->.
  replace (pre ++ (c1 ++ i :: c2) ++ post)%list with ((pre ++ c1) ++ i :: (c2 ++ post))%list
    by (now rewrite <- !app_assoc).
  rewrite <- code_size_app. apply fetch_app.
Qed.

(* ---- fragment 1a: blocks, declarations, assignments, print; literals, variables, + ---- *)
Fixpoint expr1 (e : expr) : bool :=
  match e with
  | ELit _ | EVar _ => true
  | EAdd a b => expr1 a && expr1 b
  | _ => false
  end.

Fixpoint stmt1 (s : stmt) : bool :=
  match s with
  | SDecl _ e | SAssign _ e | SPrint e => expr1 e
  | SBlock b => forallb stmt1 b
  | _ => false
  end.

Definition rv (L : list local) (x : name) : option vref :=
  match resolve_local L x with
  | Some (s, true) => Some (VLocal s)
  | Some (_, false) => None
  | None => Some VGlobal
  end.

Fixpoint cexpr (L : list local) (e : expr) : option (list instr) :=
  match e with
  | ELit n => Some [IConst n]
  | EVar x => match rv L x with Some r => Some [get_op r x] | None => None end
  | EAdd a b => match cexpr L a, cexpr L b with
                | Some ca, Some cb => Some (ca ++ cb ++ [IAdd])%list
                | _, _ => None
                end
  | _ => None
  end.

Fixpoint cstmt (cf : cfg) (s : stmt) (L : list local) (d : nat) {struct s} : option (list instr * list local) :=
  match s with
  | SDecl x e =>
      if d =? 0 then match cexpr L e with Some ce => Some ((ce ++ [IDefineGlobal x])%list, L) | None => None end
      else if dup_in_scope L x d then None
      else if List.length L =? c_locals_max cf then None
      else match cexpr (mkLocal (Some x) None false :: L) e with
           | Some ce => Some (ce, mkLocal (Some x) (Some d) false :: L)
           | None => None
           end
  | SAssign x e =>
      match rv L x, cexpr L e with
      | Some r, Some ce => Some ((ce ++ [set_op r x; IPop])%list, L)
      | _, _ => None
      end
  | SPrint e =>
      match cexpr L e with
      | Some ce => Some ((IGetGlobal GPrint :: ce ++ [ICall 1; IPop])%list, L)
      | None => None
      end
  | SBlock b =>
      match (fix go (l : list stmt) (L : list local) : option (list instr * list local) :=
               match l with
               | [] => Some ([], L)
               | a :: r => match cstmt cf a L (S d) with
                           | Some (ca, L1) => match go r L1 with
                                              | Some (cr, L2) => Some ((ca ++ cr)%list, L2)
                                              | None => None
                                              end
                           | None => None
                           end
               end) b L with
      | Some (cb, L') => let ops := scope_end_ops L' d in Some ((cb ++ ops)%list, skipn (List.length ops) L')
      | None => None
      end
  | _ => None
  end.

Fixpoint clist (cf : cfg) (l : list stmt) (L : list local) (d : nat) : option (list instr * list local) :=
  match l with
  | [] => Some ([], L)
  | a :: r => match cstmt cf a L d with
              | Some (ca, L1) => match clist cf r L1 d with
                                 | Some (cr, L2) => Some ((ca ++ cr)%list, L2)
                                 | None => None
                                 end
              | None => None
              end
  end.

Lemma cstmt_block : forall cf b L d,
  cstmt cf (SBlock b) L d =
  match clist cf b L (S d) with
  | Some (cb, L') => let ops := scope_end_ops L' d in Some ((cb ++ ops)%list, skipn (List.length ops) L')
  | None => None
  end.
Proof.
  intros cf b L d. cbn [cstmt].
  assert (E : forall l L0, (fix go (l : list stmt) (L : list local) : option (list instr * list local) :=
               match l with
               | [] => Some ([], L)
               | a :: r => match cstmt cf a L (S d) with
                           | Some (ca, L1) => match go r L1 with
                                              | Some (cr, L2) => Some ((ca ++ cr)%list, L2)
                                              | None => None
                                              end
                           | None => None
                           end
               end) l L0 = clist cf l L0 (S d)).
  { induction l as [|a r IH]; intros L0; [reflexivity|]. cbn [clist]. destruct (cstmt cf a L0 (S d)) as [[ca L1]|]; [|reflexivity].
    now rewrite IH. }
  now rewrite E.
Qed.

(* ---- the stateful compiler on a single compiler = the pure one ---- *)
Definition errd (st : cst) : Prop := cs_err st <> None.

Lemma errd_fail : forall st w, errd (fail st w).
Proof. intros st w. unfold errd, fail. cbn. destruct (cs_err st); discriminate. Qed.
Lemma errd_on_top : forall f st, errd st -> errd (on_top f st).
Proof. intros f st H. unfold on_top. destruct (cs_comps st); [apply errd_fail|exact H]. Qed.
Lemma errd_emit : forall i st, errd st -> errd (emit i st).
Proof. intros. now apply errd_on_top. Qed.
Lemma errd_emits : forall l st, errd st -> errd (emits l st).
Proof. induction l as [|i r IH]; intros st H; cbn; [exact H|]. apply IH. now apply errd_emit. Qed.

Definition one (c : fcomp) (fs : list func) : cst := mkCst [c] fs None.

Definition with_code_locals (c : fcomp) (code : list instr) (L : list local) : fcomp :=
  mkFC code L (fc_ups c) (fc_depth c) (fc_loops c) (fc_breaks c) (fc_intry c) (fc_arity c) (fc_script c).

Lemma emit_one : forall c fs i, emit i (one c fs) = one (with_code_locals c (fc_code c ++ [i]) (fc_locals c)) fs.
Proof. reflexivity. Qed.

Lemma emits_one : forall l c fs, emits l (one c fs) = one (with_code_locals c (fc_code c ++ l) (fc_locals c)) fs.
Proof.
  induction l as [|i r IH]; intros c fs; cbn [emits].
  - rewrite app_nil_r. destruct c; reflexivity.
  - rewrite emit_one, IH. cbn. now rewrite <- app_assoc.
Qed.

Lemma resolve_variable_one : forall cf x c fs,
  match rv (fc_locals c) x with
  | Some r => resolve_variable cf x (one c fs) = (one c fs, r)
  | None => errd (fst (resolve_variable cf x (one c fs)))
  end.
Proof.
  intros cf x c fs. unfold rv, resolve_variable, one. cbn [cs_comps].
  destruct (resolve_local (fc_locals c) x) as [[s [|]]|]; cbn; try reflexivity.
  apply errd_fail.
Qed.

Lemma errd_resolve_variable : forall cf x st, errd st -> errd (fst (resolve_variable cf x st)).
Proof.
  intros cf x st H. unfold resolve_variable. destruct (cs_comps st) as [|c0 encl]; [apply errd_fail|].
  destruct (resolve_local (fc_locals c0) x) as [[s [|]]|]; [exact H|apply errd_fail|].
  destruct (find_enclosing encl x) as [[k s]|]; [|exact H].
  destruct (chain_ups (c_upvalues_max cf) (map fc_ups (c0 :: firstn k encl)) s) as [[uss idx] ovf].
  destruct ovf; [apply errd_fail|exact H].
Qed.

Lemma errd_named_get : forall cf x st, errd st -> errd (named_get cf x st).
Proof.
  intros cf x st H. unfold named_get. pose proof (errd_resolve_variable cf x st H) as H1.
  destruct (resolve_variable cf x st) as [st1 r]. now apply errd_emit.
Qed.

Lemma errd_comp_expr : forall cf e st, expr1 e = true -> errd st -> errd (comp_expr cf e st).
Proof.
  intros cf e. induction e as [n|x|a IHa b IHb|f args|?|? ? ?]; intros st He H; cbn in He; try discriminate; cbn.
  - now apply errd_emit.
  - now apply errd_named_get.
  - apply andb_prop in He as [Ha Hb]. apply errd_emit. apply IHb; auto.
Qed.

Lemma comp_expr_pure : forall cf e c fs, expr1 e = true ->
  match cexpr (fc_locals c) e with
  | Some ce => comp_expr cf e (one c fs) = one (with_code_locals c (fc_code c ++ ce) (fc_locals c)) fs
  | None => errd (comp_expr cf e (one c fs))
  end.
Proof.
  intros cf e. induction e as [n|x|a IHa b IHb|f args|?|? ? ?]; intros c fs He; cbn in He; try discriminate.
  - reflexivity.
  - cbn [cexpr comp_expr]. unfold named_get.
    pose proof (resolve_variable_one cf x c fs) as H. destruct (rv (fc_locals c) x) as [r|].
    + rewrite H. reflexivity.
    + destruct (resolve_variable cf x (one c fs)) as [st1 r]. now apply errd_emit.
  - apply andb_prop in He as [Ha Hb]. cbn [cexpr comp_expr].
    specialize (IHa c fs Ha). destruct (cexpr (fc_locals c) a) as [ca|].
    + rewrite IHa.
      specialize (IHb (with_code_locals c (fc_code c ++ ca) (fc_locals c)) fs Hb). cbn [fc_locals with_code_locals] in IHb.
      destruct (cexpr (fc_locals c) b) as [cb|].
      * rewrite IHb, emit_one. cbn. now rewrite <- !app_assoc.
      * now apply errd_emit.
    + apply errd_emit. apply errd_comp_expr; auto.
Qed.

Lemma stmt1_ind : forall P : stmt -> Prop,
  (forall x e, expr1 e = true -> P (SDecl x e)) -> (forall x e, expr1 e = true -> P (SAssign x e)) ->
  (forall e, expr1 e = true -> P (SPrint e)) ->
  (forall b, forallb stmt1 b = true -> Forall P b -> P (SBlock b)) ->
  forall s, stmt1 s = true -> P s.
Proof.
  intros P Hd Ha Hp Hb. fix IH 1. intros s H. destruct s; cbn in H; try discriminate.
  1: apply Hd; exact H. 1: apply Ha; exact H. 1: apply Hp; exact H.
  apply Hb; [exact H|].
  refine ((fix go (l : list stmt) : forallb stmt1 l = true -> Forall P l :=
             match l with
             | [] => fun _ => Forall_nil P
             | a :: r => fun H0 => _
             end) b H).
  cbn in H0. apply andb_prop in H0. destruct H0 as [H1 H2].
  constructor; [apply IH; exact H1|apply go; exact H2].
Qed.

Definition comp_list (cf : cfg) (l : list stmt) (st : cst) : cst := fold_left (fun s a => comp_stmt cf a s) l st.

Lemma comp_stmt_block : forall cf b st, comp_stmt cf (SBlock b) st = end_scope (comp_list cf b (begin_scope st)).
Proof.
  intros cf b st. cbn [comp_stmt]. f_equal.
Qed.

Lemma errd_declare_variable : forall cf x st, errd st -> errd (declare_variable cf x st).
Proof.
  intros cf x st H. unfold declare_variable. destruct (fc_depth (top_of st) =? 0); [exact H|].
  unfold add_local.
  set (st1 := if dup_in_scope _ _ _ then _ else _).
  assert (H1 : errd st1) by (unfold st1; destruct (dup_in_scope _ _ _); [apply errd_fail|exact H]).
  destruct (List.length (fc_locals (top_of st1)) =? c_locals_max cf); [apply errd_fail|now apply errd_on_top].
Qed.

Lemma errd_mark_initialised : forall st, errd st -> errd (mark_initialised st).
Proof. intros st H. now apply errd_on_top. Qed.

Lemma errd_define_variable : forall x st, errd st -> errd (define_variable x st).
Proof.
  intros x st H. unfold define_variable. destruct (at_top_level st); [now apply errd_emit|now apply errd_mark_initialised].
Qed.

Lemma errd_emit_scope_end : forall b d st, errd st -> errd (emit_scope_end b d st).
Proof.
  intros b d st H. unfold emit_scope_end. destruct b; [apply errd_on_top|]; now apply errd_emits.
Qed.

Lemma errd_end_scope : forall st, errd st -> errd (end_scope st).
Proof. intros st H. unfold end_scope. apply errd_emit_scope_end. now apply errd_on_top. Qed.

Lemma errd_comp_stmt : forall cf s, stmt1 s = true -> forall st, errd st -> errd (comp_stmt cf s st).
Proof.
  intros cf s Hs. pattern s. revert s Hs. apply stmt1_ind.
  - intros x e He st H. cbn [comp_stmt]. apply errd_define_variable. apply errd_comp_expr; [exact He|].
    apply errd_declare_variable; exact H.
  - intros x e He st H. cbn [comp_stmt]. pose proof (errd_resolve_variable cf x st H) as H1.
    destruct (resolve_variable cf x st) as [st1 r]. apply errd_emit, errd_emit. apply errd_comp_expr; [exact He|exact H1].
  - intros e He st H. cbn [comp_stmt]. apply errd_emit, errd_emit. apply errd_comp_expr; [exact He|]. apply errd_emit; exact H.
  - intros b Hb IH st H. rewrite comp_stmt_block. apply errd_end_scope.
    assert (G : forall st0, errd st0 -> errd (comp_list cf b st0)).
    { clear H st Hb. induction IH as [|a r Ha Hr IHr]; intros st0 H0; [exact H0|]. cbn [comp_list fold_left]. apply IHr, Ha, H0. }
    apply G. now apply errd_on_top.
Qed.

Lemma errd_comp_list : forall cf b, forallb stmt1 b = true -> forall st, errd st -> errd (comp_list cf b st).
Proof.
  intros cf b. induction b as [|a r IH]; intros Hb st H; [exact H|].
  cbn in Hb. apply andb_prop in Hb as [Ha Hr]. cbn [comp_list fold_left]. apply IH; auto. now apply errd_comp_stmt.
Qed.

Lemma top_of_one : forall c fs, top_of (one c fs) = c.
Proof. reflexivity. Qed.

Lemma comp_list_cons : forall cf a r st, comp_list cf (a :: r) st = comp_list cf r (comp_stmt cf a st).
Proof. reflexivity. Qed.

Lemma comp_list_pure_aux : forall cf b,
  Forall (fun s => forall c fs,
            match cstmt cf s (fc_locals c) (fc_depth c) with
            | Some (code, L') => comp_stmt cf s (one c fs) = one (with_code_locals c (fc_code c ++ code) L') fs
            | None => errd (comp_stmt cf s (one c fs))
            end) b ->
  forallb stmt1 b = true ->
  forall c fs,
    match clist cf b (fc_locals c) (fc_depth c) with
    | Some (code, L') => comp_list cf b (one c fs) = one (with_code_locals c (fc_code c ++ code) L') fs
    | None => errd (comp_list cf b (one c fs))
    end.
Proof.
  intros cf b H. induction H as [|a r Ha Hr IH]; intros Hb c fs.
  - cbn. rewrite app_nil_r. destruct c; reflexivity.
  - cbn in Hb. apply andb_prop in Hb as [Hb1 Hb2]. cbn [clist]. rewrite comp_list_cons.
    specialize (Ha c fs). destruct (cstmt cf a (fc_locals c) (fc_depth c)) as [[ca L1]|].
    + rewrite Ha. specialize (IH Hb2 (with_code_locals c (fc_code c ++ ca) L1) fs).
      cbn [fc_locals fc_depth with_code_locals] in IH.
      destruct (clist cf r L1 (fc_depth c)) as [[cr L2]|].
      * rewrite IH. cbn. now rewrite <- app_assoc.
      * exact IH.
    + apply (errd_comp_list cf r Hb2). exact Ha.
Qed.

Lemma comp_stmt_pure : forall cf s, stmt1 s = true -> forall c fs,
  match cstmt cf s (fc_locals c) (fc_depth c) with
  | Some (code, L') => comp_stmt cf s (one c fs) = one (with_code_locals c (fc_code c ++ code) L') fs
  | None => errd (comp_stmt cf s (one c fs))
  end.
Proof.
  intros cf s Hs. pattern s. revert s Hs. apply stmt1_ind.
  - (* SDecl *)
    intros x e He c fs. cbn [cstmt comp_stmt]. unfold declare_variable. rewrite top_of_one.
    destruct (fc_depth c =? 0) eqn:Ed.
    + pose proof (comp_expr_pure cf e c fs He) as Hc. destruct (cexpr (fc_locals c) e) as [ce|].
      * rewrite Hc. unfold define_variable, at_top_level. rewrite top_of_one. cbn [fc_depth with_code_locals]. rewrite Ed.
        rewrite emit_one. cbn. now rewrite <- app_assoc.
      * now apply errd_define_variable.
    + destruct (dup_in_scope (fc_locals c) x (fc_depth c)) eqn:Edup.
      * apply errd_define_variable. apply errd_comp_expr; [exact He|].
        unfold add_local. destruct (List.length _ =? c_locals_max cf); [apply errd_fail|apply errd_on_top, errd_fail].
      * unfold add_local. rewrite top_of_one.
        destruct (List.length (fc_locals c) =? c_locals_max cf) eqn:Emax.
        -- apply errd_define_variable. apply errd_comp_expr; [exact He|apply errd_fail].
        -- pose proof (comp_expr_pure cf e (set_locals c (mkLocal (Some x) None false :: fc_locals c)) fs He) as Hc.
           cbn [fc_locals set_locals] in Hc.
           change (on_top (fun c0 : fcomp => set_locals c0 (mkLocal (Some x) None false :: fc_locals c0)) (one c fs))
             with (one (set_locals c (mkLocal (Some x) None false :: fc_locals c)) fs).
           destruct (cexpr (mkLocal (Some x) None false :: fc_locals c) e) as [ce|].
           ++ rewrite Hc. unfold define_variable, at_top_level. rewrite top_of_one. cbn [fc_depth with_code_locals set_locals]. rewrite Ed.
              unfold mark_initialised, on_top, one. cbn. rewrite Ed. reflexivity.
           ++ now apply errd_define_variable.
  - (* SAssign *)
    intros x e He c fs. cbn [cstmt comp_stmt].
    pose proof (resolve_variable_one cf x c fs) as Hr. destruct (rv (fc_locals c) x) as [r|].
    + rewrite Hr. pose proof (comp_expr_pure cf e c fs He) as Hc. destruct (cexpr (fc_locals c) e) as [ce|].
      * rewrite Hc, !emit_one. cbn. now rewrite <- !app_assoc.
      * now apply errd_emit, errd_emit.
    + destruct (resolve_variable cf x (one c fs)) as [st1 r]. apply errd_emit, errd_emit. apply errd_comp_expr; [exact He|exact Hr].
  - (* SPrint *)
    intros e He c fs. cbn [cstmt comp_stmt]. rewrite emit_one.
    pose proof (comp_expr_pure cf e (with_code_locals c (fc_code c ++ [IGetGlobal GPrint]) (fc_locals c)) fs He) as Hc.
    cbn [fc_locals with_code_locals] in Hc. destruct (cexpr (fc_locals c) e) as [ce|].
    + rewrite Hc, !emit_one. cbn. rewrite <- !app_assoc. reflexivity.
    + now apply errd_emit, errd_emit.
  - (* SBlock *)
    intros b Hb IH c fs. rewrite cstmt_block, comp_stmt_block.
    change (begin_scope (one c fs)) with (one (set_depth c (S (fc_depth c))) fs).
    pose proof (comp_list_pure_aux cf b IH Hb (set_depth c (S (fc_depth c))) fs) as Hl.
    cbn [fc_locals fc_depth set_depth] in Hl.
    destruct (clist cf b (fc_locals c) (S (fc_depth c))) as [[cb L']|].
    + rewrite Hl. unfold end_scope, on_top, one. cbn [cs_comps cs_funs cs_err]. unfold top_of. cbn [cs_comps].
      cbn [fc_depth set_depth with_code_locals]. replace (S (fc_depth c) - 1) with (fc_depth c) by lia.
      unfold emit_scope_end, top_of. cbn [cs_comps fc_locals set_depth with_code_locals].
      pose proof (emits_one (scope_end_ops L' (fc_depth c))
                   (set_depth (with_code_locals (set_depth c (S (fc_depth c))) (fc_code c ++ cb) L') (fc_depth c)) fs) as He.
      unfold one in He. cbn [fc_depth set_depth with_code_locals fc_code fc_locals] in He |- *.
      rewrite He. unfold on_top. cbn. now rewrite <- app_assoc.
    + now apply errd_end_scope.
Qed.

(* ------------------------------------------------------------------------------------------ *)
(* Part 4: the simulation for fragment 1a *)

Inductive vrel : sval -> mval -> Prop :=
| VR_int : forall z, vrel (SVInt z) (MInt z)
| VR_nil : vrel SVNil MNil.

Lemma vrel_show : forall a b, vrel a b -> show_sval a = show_mval b.
Proof. intros a b H. destruct H; reflexivity. Qed.

Definition GR (g : list (name * sval)) (G : list (name * mval)) : Prop :=
  Forall2 (fun a b => fst a = fst b /\ vrel (snd a) (snd b)) g G.

Lemma GR_assoc : forall g G x v, GR g G -> assoc g x = Some v -> exists v', assoc G x = Some v' /\ vrel v v'.
Proof.
  intros g G x v H. induction H as [|[y a] [y' b] g' G' [E R] H IH]; cbn; [discriminate|].
  cbn in E. subst y'. destruct (y =? x); [intros [= <-]; eauto|exact IH].
Qed.

Lemma GR_set : forall g G x v v', GR g G -> vrel v v' -> GR (set_assoc g x v) (set_assoc G x v').
Proof.
  intros g G x v v' H R. induction H as [|[y a] [y' b] g' G' [E R'] H IH]; cbn.
  - constructor; [split; auto|constructor].
  - cbn in E. subst y'. destruct (y =? x); constructor; auto; split; auto.
Qed.

Inductive LR (cells : list sval) (SL : list mval) : list local -> env -> Prop :=
| LR_base : LR cells SL [mkLocal None (Some 0) false] []
| LR_cons : forall L en x c d, LR cells SL L en ->
    vrel (nth c cells SVNil) (nth (List.length L) SL MNil) ->
    LR cells SL (mkLocal (Some x) (Some d) false :: L) ((x, c) :: en).

Lemma LR_len : forall cells SL L en, LR cells SL L en -> List.length L = S (List.length en).
Proof. intros cells SL L en H. induction H; cbn; auto. Qed.

Lemma LR_lookup : forall cells SL L en x c, LR cells SL L en -> assoc en x = Some c ->
  exists slot, resolve_local L x = Some (slot, true) /\ slot < List.length L /\ 1 <= slot /\
               vrel (nth c cells SVNil) (nth slot SL MNil).
Proof.
  intros cells SL L en x c H. induction H as [|L en y c0 d H IH R]; cbn; [discriminate|].
  unfold name_is. cbn [l_name]. destruct (y =? x).
  - intros [= <-]. exists (List.length L). repeat split; auto. rewrite (LR_len _ _ _ _ H). lia.
  - intros E. destruct (IH E) as (s & E1 & E2 & E3 & E4). exists s. repeat split; auto.
Qed.

Lemma LR_lookup_none : forall cells SL L en x, LR cells SL L en -> assoc en x = None -> resolve_local L x = None.
Proof.
  intros cells SL L en x H. induction H as [|L en y c0 d H IH R]; cbn; [reflexivity|].
  unfold name_is. cbn [l_name]. destruct (y =? x); [discriminate|exact IH].
Qed.

Lemma LR_ext : forall cells SL cells' SL' L en, LR cells SL L en ->
  (forall i, i < List.length L -> nth i SL' MNil = nth i SL MNil) ->
  (forall x c, In (x, c) en -> nth c cells' SVNil = nth c cells SVNil) ->
  LR cells' SL' L en.
Proof.
  intros cells SL cells' SL' L en H. induction H as [|L en y c0 d H IH R]; intros H1 H2; constructor.
  - apply IH; intros; [apply H1; cbn; lia|eapply H2; right; eauto].
  - rewrite H1 by (cbn; lia). rewrite (H2 y c0) by (left; reflexivity). exact R.
Qed.

Lemma LR_app_stack : forall cells SL t L en, LR cells SL L en -> List.length L <= List.length SL ->
  LR cells (SL ++ t) L en.
Proof.
  intros cells SL t L en H Hl. apply (LR_ext _ _ _ _ _ _ H); [|reflexivity].
  intros i Hi. apply app_nth1. lia.
Qed.

(* leaving a block: the newer entries go, the older ones keep their (possibly updated) values *)
Lemma LR_drop : forall cells SL N L Ne en, LR cells SL (N ++ L)%list (Ne ++ en)%list -> List.length N = List.length Ne ->
  L <> [] -> LR cells SL L en.
Proof.
  intros cells SL N. induction N as [|l N IH]; intros L Ne en H Hlen Hne.
  - destruct Ne; [exact H|discriminate].
  - destruct Ne as [|e Ne]; [discriminate|]. cbn in H. inversion H; subst.
    eapply IH; eauto.
Qed.

Lemma nth_set_nth_ge : forall A (l : list A) k a, List.length l <= k -> set_nth l k a = l.
Proof. induction l as [|b r IH]; intros [|k] a H; cbn in *; auto; try lia. now rewrite IH by lia. Qed.

Lemma nth_set_nth_other : forall A (l : list A) k a j d, j <> k -> nth j (set_nth l k a) d = nth j l d.
Proof.
  intros A l k a j d H. destruct (Nat.lt_ge_cases k (List.length l)) as [Hk|Hk].
  - rewrite nth_set_nth by exact Hk. apply Nat.eqb_neq in H. now rewrite H.
  - now rewrite nth_set_nth_ge by exact Hk.
Qed.

Lemma assoc_in : forall A (l : list (name * A)) x a, assoc l x = Some a -> exists y, In (y, a) l.
Proof.
  induction l as [|[y b] r IH]; intros x a; cbn; [discriminate|].
  destruct (y =? x); [intros [= <-]; eauto|intros H; destruct (IH _ _ H) as [z Hz]; eauto].
Qed.

(* assignment to a local: the cell and the slot change together, nothing else does *)
Lemma LR_assign : forall cells SL L en x c s v v',
  LR cells SL L en -> NoDup (map snd en) -> assoc en x = Some c -> resolve_local L x = Some (s, true) ->
  c < List.length cells -> s < List.length SL -> vrel v v' ->
  LR (set_nth cells c v) (set_nth SL s v') L en.
Proof.
  intros cells SL L en x c s v v' H. induction H as [|L en y c0 d H IH R]; intros Hnd Ha Hr Hc Hs Hv; [constructor|].
  cbn in Ha, Hr. unfold name_is in Hr. cbn [l_name] in Hr. inversion Hnd as [|? ? Hnot Hnd']; subst.
  destruct (y =? x).
  - inversion Ha; inversion Hr; subst. constructor.
    + apply (LR_ext _ _ _ _ _ _ H).
      * intros i Hi. apply nth_set_nth_other. lia.
      * intros z c2 Hin. apply nth_set_nth_other. intro E. subst c2. apply Hnot. apply in_map_iff. exists (z, c). auto.
    + rewrite !nth_set_nth by assumption. rewrite !Nat.eqb_refl. exact Hv.
  - destruct (LR_lookup _ _ _ _ _ _ H Ha) as (s' & E1 & E2 & _). rewrite E1 in Hr. inversion Hr; subst s'.
    constructor; [apply IH; auto|].
    rewrite !nth_set_nth_other; [exact R|lia|].
    intro E. subst c0. apply Hnot. destruct (assoc_in _ _ _ _ Ha) as [z Hz]. apply in_map_iff. exists (z, c). auto.
Qed.

Section Sim.
Variable cf : cfg.
Variable funs : list func.

Lemma sim_expr : forall fuel e en st st' v,
  eval_expr fuel e en st = (st', ROk v) -> expr1 e = true ->
  st' = st /\
  forall L ce, cexpr L e = Some ce ->
  forall SL G O, LR (s_cells st) SL L en -> List.length L <= List.length SL -> GR (s_globals st) G ->
  forall m fn pre post, code_of funs fn = (pre ++ ce ++ post)%list ->
    MS m fn [] (code_size pre) 0 [] SL G O ->
    exists n m' v', steps cf funs n m m' /\
                    MS m' fn [] (code_size pre + code_size ce) 0 [] (SL ++ [v'])%list G O /\ vrel v v'.
Proof.
  induction fuel as [|fu IH]; intros e en st st' v He Hf; [discriminate|].
  destruct e as [n|x|a b|f args| |vv k args]; cbn in Hf; try discriminate.
  - (* ELit *)
    cbn in He. inversion He; subst. split; [reflexivity|].
    intros L ce Hc SL G O HL Hlen HG m fn pre post Hcode HM. cbn in Hc. inversion Hc; subst ce.
    assert (Hfe : fetch (code_of funs fn) (code_size pre) = Some (IConst n)).
    { rewrite Hcode. apply fetch_app. }
    destruct (step_const cf funs _ _ _ _ _ _ _ _ _ _ HM Hfe) as (m' & E & HM').
    exists 1, m', (MInt (Z.of_N n)). split; [now apply steps_one|]. split; [exact HM'|constructor].
  - (* EVar *)
    cbn in He. unfold read_var in He.
    destruct (assoc en x) as [c|] eqn:Ea.
    + inversion He; subst. split; [reflexivity|].
      intros L ce Hc SL G O HL Hlen HG m fn pre post Hcode HM.
      destruct (LR_lookup _ _ _ _ _ _ HL Ea) as (s & E1 & E2 & E3 & E4).
      cbn in Hc. unfold rv in Hc. rewrite E1 in Hc. inversion Hc; subst ce. cbn [get_op] in *.
      assert (Hfe : fetch (code_of funs fn) (code_size pre) = Some (IGetLocal s)).
      { rewrite Hcode. apply fetch_app. }
      destruct (step_getlocal cf funs _ _ _ _ _ _ _ _ _ _ HM Hfe) as (m' & E & HM'); [cbn; lia|].
      exists 1, m', (nth s SL MNil). split; [now apply steps_one|]. split; [exact HM'|exact E4].
    + destruct (assoc (s_globals st) x) as [gv|] eqn:Eg; [|discriminate]. inversion He; subst. split; [reflexivity|].
      intros L ce Hc SL G O HL Hlen HG m fn pre post Hcode HM.
      pose proof (LR_lookup_none _ _ _ _ _ HL Ea) as E1.
      cbn in Hc. unfold rv in Hc. rewrite E1 in Hc. inversion Hc; subst ce. cbn [get_op] in *.
      destruct (GR_assoc _ _ _ _ HG Eg) as (v' & Eg' & Rv).
      assert (Hfe : fetch (code_of funs fn) (code_size pre) = Some (IGetGlobal (GUser x))).
      { rewrite Hcode. apply fetch_app. }
      destruct (step_getglobal cf funs _ _ _ _ _ _ _ _ _ _ _ HM Hfe Eg') as (m' & E & HM').
      exists 1, m', v'. split; [now apply steps_one|]. split; [exact HM'|exact Rv].
  - (* EAdd *)
    apply andb_prop in Hf as [Hfa Hfb]. cbn in He.
    destruct (eval_expr fu a en st) as [st1 [va| | |]] eqn:Ea; try (inversion He; fail).
    destruct va as [x| | | | |]; try (inversion He; fail).
    destruct (eval_expr fu b en st1) as [st2 [vb| | |]] eqn:Eb; try (inversion He; fail).
    destruct vb as [y| | | | |]; try (inversion He; fail).
    inversion He; subst st' v. clear He.
    destruct (IH _ _ _ _ _ Ea Hfa) as [-> Sa]. destruct (IH _ _ _ _ _ Eb Hfb) as [-> Sb].
    split; [reflexivity|].
    intros L ce Hc SL G O HL Hlen HG m fn pre post Hcode HM. cbn in Hc.
    destruct (cexpr L a) as [ca|] eqn:Eca; [|discriminate]. destruct (cexpr L b) as [cb|] eqn:Ecb; [|discriminate].
    inversion Hc; subst ce. clear Hc.
    destruct (Sa L ca Eca SL G O HL Hlen HG m fn pre ((cb ++ [IAdd]) ++ post)%list) as (n1 & m1 & va' & S1 & M1 & R1).
    { rewrite Hcode. now rewrite <- !app_assoc. }
    { exact HM. }
    inversion R1; subst va'.
    destruct (Sb L cb Ecb (SL ++ [MInt x])%list G O) with (m := m1) (fn := fn) (pre := (pre ++ ca)%list) (post := ([IAdd] ++ post)%list)
      as (n2 & m2 & vb' & S2 & M2 & R2).
    { now apply LR_app_stack. }
    { rewrite app_length. lia. }
    { exact HG. }
    { rewrite Hcode. now rewrite <- !app_assoc. }
    { rewrite code_size_app. exact M1. }
    inversion R2; subst vb'.
    assert (Hfe : fetch (code_of funs fn) (code_size (pre ++ ca) + code_size cb) = Some IAdd).
    { eapply fetch_mid with (c2 := []) (post := post). rewrite Hcode. now rewrite <- !app_assoc. }
    rewrite <- app_assoc in M2. cbn [app] in M2.
    destruct (step_add cf funs _ _ _ _ _ _ _ _ _ _ _ M2 Hfe) as (m3 & E3 & M3).
    exists (n1 + n2 + 1), m3, (MInt (x + y)). split.
    + eapply steps_trans; [eapply steps_trans; eauto|now apply steps_one].
    + split; [|constructor].
      rewrite !code_size_app in *. cbn [code_size isize] in *.
      replace (code_size pre + (code_size ca + (code_size cb + (1 + 0)))) with (code_size pre + code_size ca + code_size cb + 1) by lia.
      exact M3.
Qed.
Record SIM (L : list local) (en : env) (st : sst) (SL : list mval) (G : list (name * mval)) (O : list string) : Prop := mkSIM {
  sim_lr : LR (s_cells st) SL L en;
  sim_len : List.length SL = List.length L;
  sim_g : GR (s_globals st) G;
  sim_o : s_out st = O;
  sim_nd : NoDup (map snd en);
  sim_cells : forall x c, In (x, c) en -> c < List.length (s_cells st)
}.

Definition depth_le (d : nat) (L : list local) : Prop :=
  Forall (fun l => match l_depth l with Some d' => d' <= d | None => False end) L.

(* what a statement may add: locals of the current depth, never captured, one per new environment entry *)
Definition EXT (d : nat) (L : list local) (en : env) (L' : list local) (en' : env) : Prop :=
  exists N Ne, L' = (N ++ L)%list /\ en' = (Ne ++ en)%list /\ List.length N = List.length Ne /\
               Forall (fun l => l_depth l = Some d /\ l_capt l = false) N.

Lemma EXT_refl : forall d L en, EXT d L en L en.
Proof. intros. exists [], []. repeat split; auto. Qed.

Lemma EXT_trans : forall d L en L1 en1 L2 en2, EXT d L en L1 en1 -> EXT d L1 en1 L2 en2 -> EXT d L en L2 en2.
Proof.
  intros d L en L1 en1 L2 en2 (N1 & Ne1 & -> & -> & H1 & F1) (N2 & Ne2 & -> & -> & H2 & F2).
  exists (N2 ++ N1)%list, (Ne2 ++ Ne1)%list. rewrite !app_assoc. repeat split; auto.
  - rewrite !app_length. lia.
  - apply Forall_app. split; assumption.
Qed.

Lemma scope_end_ops_ext : forall N L d, depth_le d L -> L <> [] ->
  Forall (fun l => l_depth l = Some (S d) /\ l_capt l = false) N ->
  scope_end_ops (N ++ L) d = repeat IPop (List.length N).
Proof.
  induction N as [|l N IH]; intros L d HL Hne HN.
  - destruct L as [|l0 L0]; [congruence|]. cbn [app scope_end_ops List.length repeat]. inversion HL as [|? ? Hd _]; subst.
    destruct (l_depth l0) as [d'|]; [|contradiction]. destruct (d <? d') eqn:E; [apply Nat.ltb_lt in E; lia|reflexivity].
  - inversion HN as [|? ? [Hd Hc] HN']; subst. cbn [app scope_end_ops List.length repeat]. rewrite Hd, Hc.
    destruct (d <? S d) eqn:E; [|apply Nat.ltb_ge in E; lia]. f_equal. now apply IH.
Qed.

Lemma code_size_repeat_pop : forall k, code_size (repeat IPop k) = k.
Proof. induction k; cbn; auto. Qed.

Lemma pops : forall k m fn pre post SL vals G O,
  code_of funs fn = (pre ++ repeat IPop k ++ post)%list -> List.length vals = k ->
  MS m fn [] (code_size pre) 0 [] (SL ++ vals)%list G O ->
  exists m', steps cf funs k m m' /\ MS m' fn [] (code_size pre + k) 0 [] SL G O.
Proof.
  induction k as [|k IH]; intros m fn pre post SL vals G O Hcode Hlen HM.
  - destruct vals; [|discriminate]. rewrite app_nil_r in HM. exists m. split; [reflexivity|]. now rewrite Nat.add_0_r.
  - assert (Hv : vals <> []) by (intro; subst; discriminate).
    destruct (exists_last Hv) as (vals' & v & ->). rewrite app_length in Hlen. cbn in Hlen.
    rewrite app_assoc in HM.
    assert (Hfe : fetch (code_of funs fn) (code_size pre) = Some IPop).
    { rewrite Hcode. cbn [repeat app]. apply fetch_app. }
    destruct (step_pop cf funs _ _ _ _ _ _ _ _ _ _ HM Hfe) as (m1 & E1 & M1).
    destruct (IH m1 fn (pre ++ [IPop])%list post SL vals' G O) as (m2 & S2 & M2).
    + rewrite Hcode. cbn [repeat]. now rewrite <- app_assoc.
    + lia.
    + rewrite code_size_app. cbn [code_size isize]. replace (code_size pre + (1 + 0)) with (code_size pre + 1) by lia. exact M1.
    + exists m2. split; [exists m1; split; [exact E1|exact S2]|].
      rewrite code_size_app in M2. cbn [code_size isize] in M2.
      replace (code_size pre + S k) with (code_size pre + (1 + 0) + k) by lia. exact M2.
Qed.

Lemma cexpr_uninit : forall x L e ce, cexpr (mkLocal (Some x) None false :: L) e = Some ce -> cexpr L e = Some ce.
Proof.
  intros x L e. induction e as [n|y|a IHa b IHb|f args| |vv k args]; intros ce H; cbn in H |- *; try discriminate; auto.
  - unfold rv in *. cbn [resolve_local] in H. unfold name_is in H. cbn [l_name l_depth] in H.
    destruct (x =? y); [discriminate|]. exact H.
  - destruct (cexpr (mkLocal (Some x) None false :: L) a) as [ca|]; [|discriminate].
    destruct (cexpr (mkLocal (Some x) None false :: L) b) as [cb|]; [|discriminate].
    rewrite (IHa _ eq_refl), (IHb _ eq_refl). exact H.
Qed.

Definition stmt_goal (fuel : nat) : Prop := forall s en top st st' en',
  exec_stmt fuel s en top st = (st', en', CNorm) -> stmt1 s = true ->
  forall L d code L', cstmt cf s L d = Some (code, L') -> top = (d =? 0) -> depth_le d L ->
  forall SL G O, SIM L en st SL G O ->
  forall m fn pre post, code_of funs fn = (pre ++ code ++ post)%list -> MS m fn [] (code_size pre) 0 [] SL G O ->
  exists n m' SL' G' O', steps cf funs n m m' /\ MS m' fn [] (code_size pre + code_size code) 0 [] SL' G' O' /\
     SIM L' en' st' SL' G' O' /\ EXT d L en L' en' /\ List.length (s_cells st) <= List.length (s_cells st').

Definition list_goal (fuel : nat) : Prop := forall ss en top st st' en',
  exec_list fuel ss en top st = (st', en', CNorm) -> forallb stmt1 ss = true ->
  forall L d code L', clist cf ss L d = Some (code, L') -> top = (d =? 0) -> depth_le d L ->
  forall SL G O, SIM L en st SL G O ->
  forall m fn pre post, code_of funs fn = (pre ++ code ++ post)%list -> MS m fn [] (code_size pre) 0 [] SL G O ->
  exists n m' SL' G' O', steps cf funs n m m' /\ MS m' fn [] (code_size pre + code_size code) 0 [] SL' G' O' /\
     SIM L' en' st' SL' G' O' /\ EXT d L en L' en' /\ List.length (s_cells st) <= List.length (s_cells st').

Lemma depth_le_ext : forall d L en L' en', depth_le d L -> EXT d L en L' en' -> depth_le d L'.
Proof.
  intros d L en L' en' H (N & Ne & -> & _ & _ & F). apply Forall_app. split; [|exact H].
  revert F. apply Forall_impl. intros l [E _]. now rewrite E.
Qed.

Lemma depth_le_S : forall d L, depth_le d L -> depth_le (S d) L.
Proof. intros d L. apply Forall_impl. intros l. destruct (l_depth l); [intros; lia|auto]. Qed.

Lemma list_step : forall fu, stmt_goal fu -> list_goal fu -> list_goal (S fu).
Proof.
  intros fu HS HL ss en top st st' en' He Hf L d code L' Hc Ht Hd SL G O HSIM m fn pre post Hcode HM.
  destruct ss as [|s r].
  - cbn in He, Hc. inversion He; inversion Hc; subst. exists 0, m, SL, G, O. cbn [code_size]. rewrite Nat.add_0_r.
    split; [reflexivity|]. split; [exact HM|]. split; [exact HSIM|]. split; [apply EXT_refl|lia].
  - cbn in Hf. apply andb_prop in Hf as [Hf1 Hf2]. cbn [exec_list] in He. cbn [clist] in Hc.
    destruct (exec_stmt fu s en top st) as [[st1 en1] c1] eqn:E1.
    destruct c1; try (inversion He; fail).
    destruct (cstmt cf s L d) as [[ca L1]|] eqn:C1; [|discriminate].
    destruct (clist cf r L1 d) as [[cr L2]|] eqn:C2; [|discriminate]. inversion Hc; subst code L'. clear Hc.
    destruct (HS _ _ _ _ _ _ E1 Hf1 _ _ _ _ C1 Ht Hd _ _ _ HSIM m fn pre (cr ++ post)%list) as (n1 & m1 & SL1 & G1 & O1 & S1 & M1 & SIM1 & X1 & Hc1).
    { rewrite Hcode. now rewrite <- app_assoc. }
    { exact HM. }
    destruct (HL _ _ _ _ _ _ He Hf2 _ _ _ _ C2 Ht (depth_le_ext _ _ _ _ _ Hd X1) _ _ _ SIM1 m1 fn (pre ++ ca)%list post) as (n2 & m2 & SL2 & G2 & O2 & S2 & M2 & SIM2 & X2 & Hc2).
    { rewrite Hcode. now rewrite <- !app_assoc. }
    { rewrite code_size_app. exact M1. }
    exists (n1 + n2), m2, SL2, G2, O2. split; [eapply steps_trans; eauto|]. split.
    { rewrite !code_size_app in *. rewrite Nat.add_assoc. exact M2. }
    split; [exact SIM2|]. split; [eapply EXT_trans; eauto|lia].
Qed.

Lemma LR_nonempty : forall cells SL L en, LR cells SL L en -> L <> [].
Proof. intros cells SL L en H. destruct H; discriminate. Qed.

Lemma case_decl : forall fu, (* SDecl *)
  forall x e en top st st' en',
  exec_stmt (S fu) (SDecl x e) en top st = (st', en', CNorm) -> expr1 e = true ->
  forall L d code L', cstmt cf (SDecl x e) L d = Some (code, L') -> top = (d =? 0) -> depth_le d L ->
  forall SL G O, SIM L en st SL G O ->
  forall m fn pre post, code_of funs fn = (pre ++ code ++ post)%list -> MS m fn [] (code_size pre) 0 [] SL G O ->
  exists n m' SL' G' O', steps cf funs n m m' /\ MS m' fn [] (code_size pre + code_size code) 0 [] SL' G' O' /\
     SIM L' en' st' SL' G' O' /\ EXT d L en L' en' /\ List.length (s_cells st) <= List.length (s_cells st').
Proof.
  intros fu x e en top st st' en' He Hf L d code L' Hc Ht Hd SL G O HSIM m fn pre post Hcode HM.
  cbn [exec_stmt] in He. destruct (eval_expr fu e en st) as [st1 r] eqn:Ee. destruct r as [v| | |]; try discriminate.
  destruct (sim_expr _ _ _ _ _ _ Ee Hf) as [-> Se].
  destruct HSIM as [HLR Hlen HG HO Hnd Hcells].
  cbn [cstmt] in Hc. unfold declare in He. rewrite Ht in He. destruct (d =? 0) eqn:Ed.
  - (* global *)
    destruct (cexpr L e) as [ce|] eqn:Ece; [|discriminate]. inversion Hc; subst code L'. inversion He; subst st' en'. clear Hc He.
    destruct (Se L ce Ece SL G O HLR ltac:(lia) HG m fn pre ([IDefineGlobal x] ++ post)%list) as (n1 & m1 & v' & S1 & M1 & R1).
    { rewrite Hcode. now rewrite <- app_assoc. }
    { exact HM. }
    assert (Hfe : fetch (code_of funs fn) (code_size pre + code_size ce) = Some (IDefineGlobal x)).
    { eapply fetch_mid with (c2 := []) (post := post). exact Hcode. }
    destruct (step_defglobal cf funs _ _ _ _ _ _ _ _ _ _ _ M1 Hfe) as (m2 & E2 & M2).
    exists (n1 + 1), m2, SL, (set_assoc G x v'), O. split; [eapply steps_trans; [exact S1|now apply steps_one]|].
    split. { rewrite code_size_app. cbn [code_size isize]. replace (code_size pre + (code_size ce + (3 + 0))) with (code_size pre + code_size ce + 3) by lia. exact M2. }
    split. { constructor; auto. cbn. now apply GR_set. }
    split; [apply EXT_refl|cbn; lia].
  - (* local *)
    destruct (dup_in_scope L x d); [discriminate|]. destruct (List.length L =? c_locals_max cf); [discriminate|].
    destruct (cexpr (mkLocal (Some x) None false :: L) e) as [ce|] eqn:Ece; [|discriminate].
    inversion Hc; subst code L'. clear Hc. apply cexpr_uninit in Ece.
    unfold new_cell in He. inversion He; subst st' en'. clear He.
    destruct (Se L ce Ece SL G O HLR ltac:(lia) HG m fn pre post Hcode HM) as (n1 & m1 & v' & S1 & M1 & R1).
    exists n1, m1, (SL ++ [v'])%list, G, O. split; [exact S1|]. split; [exact M1|].
    split.
    { constructor; cbn [s_cells s_globals s_out]; auto.
      - constructor.
        + apply (LR_ext _ _ _ _ _ _ HLR).
          * intros i Hi. apply app_nth1. lia.
          * intros y c Hin. apply app_nth1. eapply Hcells; eauto.
        + rewrite <- Hlen. rewrite !nth_middle. exact R1.
      - rewrite app_length. cbn. lia.
      - cbn. constructor; [|exact Hnd]. intro Hin. apply in_map_iff in Hin as [[y c] [E Hin]]. cbn in E. subst c.
        pose proof (Hcells _ _ Hin). lia.
      - intros y c [E|Hin]; rewrite app_length; cbn.
        + inversion E; subst. lia.
        + pose proof (Hcells _ _ Hin). lia. }
    split.
    { exists [mkLocal (Some x) (Some d) false], [(x, List.length (s_cells st))]. repeat split; auto. }
    cbn. rewrite app_length. lia.
Qed.

Lemma case_assign : forall fu x e en top st st' en',
  exec_stmt (S fu) (SAssign x e) en top st = (st', en', CNorm) -> expr1 e = true ->
  forall L d code L', cstmt cf (SAssign x e) L d = Some (code, L') -> depth_le d L ->
  forall SL G O, SIM L en st SL G O ->
  forall m fn pre post, code_of funs fn = (pre ++ code ++ post)%list -> MS m fn [] (code_size pre) 0 [] SL G O ->
  exists n m' SL' G' O', steps cf funs n m m' /\ MS m' fn [] (code_size pre + code_size code) 0 [] SL' G' O' /\
     SIM L' en' st' SL' G' O' /\ EXT d L en L' en' /\ List.length (s_cells st) <= List.length (s_cells st').
Proof.
  intros fu x e en top st st' en' He Hf L d code L' Hc Hd SL G O HSIM m fn pre post Hcode HM.
  cbn [exec_stmt] in He. destruct (eval_expr fu e en st) as [st1 r] eqn:Ee. destruct r as [v| | |]; try discriminate.
  destruct (sim_expr _ _ _ _ _ _ Ee Hf) as [-> Se].
  destruct HSIM as [HLR Hlen HG HO Hnd Hcells].
  cbn [cstmt] in Hc. destruct (rv L x) as [r|] eqn:Erv; [|discriminate].
  destruct (cexpr L e) as [ce|] eqn:Ece; [|discriminate]. inversion Hc; subst code L'. clear Hc.
  destruct (Se L ce Ece SL G O HLR ltac:(lia) HG m fn pre ([set_op r x; IPop] ++ post)%list) as (n1 & m1 & v' & S1 & M1 & R1).
  { rewrite Hcode. now rewrite <- app_assoc. }
  { exact HM. }
  unfold write_var in He. destruct (assoc en x) as [c|] eqn:Ea.
  - (* local *)
    inversion He; subst st' en'. clear He.
    destruct (LR_lookup _ _ _ _ _ _ HLR Ea) as (sl & E1 & E2 & E3 & E4).
    unfold rv in Erv. rewrite E1 in Erv. inversion Erv; subst r. cbn [set_op] in *.
    assert (Hfe : fetch (code_of funs fn) (code_size pre + code_size ce) = Some (ISetLocal sl)).
    { eapply fetch_mid with (c2 := [IPop]) (post := post). exact Hcode. }
    destruct (step_setlocal cf funs _ _ _ _ _ _ _ _ _ _ _ M1 Hfe) as (m2 & E2' & M2); [cbn; lia|].
    assert (Hfe2 : fetch (code_of funs fn) (code_size pre + code_size ce + 2) = Some IPop).
    { replace (code_size pre + code_size ce + 2) with (code_size pre + code_size (ce ++ [ISetLocal sl])).
      - eapply fetch_mid with (c2 := []) (post := post). rewrite Hcode. now rewrite <- !app_assoc.
      - rewrite code_size_app. cbn. lia. }
    destruct (step_pop cf funs _ _ _ _ _ _ _ _ _ _ M2 Hfe2) as (m3 & E3' & M3).
    exists (n1 + 2), m3, (set_nth SL (0 + sl) v'), G, O.
    split. { eapply steps_trans; [exact S1|]. exists m2. split; [exact E2'|]. now apply steps_one. }
    split. { rewrite code_size_app. cbn [code_size isize]. replace (code_size pre + (code_size ce + (2 + (1 + 0)))) with (code_size pre + code_size ce + 2 + 1) by lia. exact M3. }
    split.
    { destruct (assoc_in _ _ _ _ Ea) as [y Hy]. pose proof (Hcells _ _ Hy) as Hc'.
      constructor; cbn [s_cells s_globals s_out ScopeLang.set_cell]; auto.
      - cbn [Nat.add]. apply LR_assign with (x := x); auto. lia.
      - rewrite set_nth_length. exact Hlen.
      - intros z c2 Hin. rewrite set_nth_length. eapply Hcells; eauto. }
    split; [apply EXT_refl|]. cbn. rewrite set_nth_length. lia.
  - (* global *)
    destruct (assoc (s_globals st) x) as [w|] eqn:Eg; [|discriminate]. inversion He; subst st' en'. clear He.
    pose proof (LR_lookup_none _ _ _ _ _ HLR Ea) as E1.
    unfold rv in Erv. rewrite E1 in Erv. inversion Erv; subst r. cbn [set_op] in *.
    destruct (GR_assoc _ _ _ _ HG Eg) as (w' & Eg' & _).
    assert (Hfe : fetch (code_of funs fn) (code_size pre + code_size ce) = Some (ISetGlobal x)).
    { eapply fetch_mid with (c2 := [IPop]) (post := post). exact Hcode. }
    destruct (step_setglobal cf funs _ _ _ _ _ _ _ _ _ _ _ _ M1 Hfe Eg') as (m2 & E2' & M2).
    assert (Hfe2 : fetch (code_of funs fn) (code_size pre + code_size ce + 3) = Some IPop).
    { replace (code_size pre + code_size ce + 3) with (code_size pre + code_size (ce ++ [ISetGlobal x])).
      - eapply fetch_mid with (c2 := []) (post := post). rewrite Hcode. now rewrite <- !app_assoc.
      - rewrite code_size_app. cbn. lia. }
    destruct (step_pop cf funs _ _ _ _ _ _ _ _ _ _ M2 Hfe2) as (m3 & E3' & M3).
    exists (n1 + 2), m3, SL, (set_assoc G x v'), O.
    split. { eapply steps_trans; [exact S1|]. exists m2. split; [exact E2'|]. now apply steps_one. }
    split. { rewrite code_size_app. cbn [code_size isize]. replace (code_size pre + (code_size ce + (3 + (1 + 0)))) with (code_size pre + code_size ce + 3 + 1) by lia. exact M3. }
    split. { constructor; cbn [s_cells s_globals s_out set_global]; auto. now apply GR_set. }
    split; [apply EXT_refl|cbn; lia].
Qed.

Lemma case_print : forall fu e en top st st' en',
  exec_stmt (S fu) (SPrint e) en top st = (st', en', CNorm) -> expr1 e = true ->
  forall L d code L', cstmt cf (SPrint e) L d = Some (code, L') -> depth_le d L ->
  forall SL G O, SIM L en st SL G O ->
  forall m fn pre post, code_of funs fn = (pre ++ code ++ post)%list -> MS m fn [] (code_size pre) 0 [] SL G O ->
  exists n m' SL' G' O', steps cf funs n m m' /\ MS m' fn [] (code_size pre + code_size code) 0 [] SL' G' O' /\
     SIM L' en' st' SL' G' O' /\ EXT d L en L' en' /\ List.length (s_cells st) <= List.length (s_cells st').
Proof.
  intros fu e en top st st' en' He Hf L d code L' Hc Hd SL G O HSIM m fn pre post Hcode HM.
  cbn [exec_stmt] in He. destruct (eval_expr fu e en st) as [st1 r] eqn:Ee. destruct r as [v| | |]; try discriminate.
  destruct (sim_expr _ _ _ _ _ _ Ee Hf) as [-> Se]. inversion He; subst st' en'. clear He.
  destruct HSIM as [HLR Hlen HG HO Hnd Hcells].
  cbn [cstmt] in Hc. destruct (cexpr L e) as [ce|] eqn:Ece; [|discriminate]. inversion Hc; subst code L'. clear Hc.
  assert (Hfe0 : fetch (code_of funs fn) (code_size pre) = Some (IGetGlobal GPrint)).
  { rewrite Hcode. apply fetch_app. }
  destruct (step_getprint cf funs _ _ _ _ _ _ _ _ _ HM Hfe0) as (m0 & E0 & M0).
  destruct (Se L ce Ece (SL ++ [MPrintFn])%list G O) with (m := m0) (fn := fn) (pre := (pre ++ [IGetGlobal GPrint])%list)
      (post := ([ICall 1; IPop] ++ post)%list) as (n1 & m1 & v' & S1 & M1 & R1).
  { apply LR_app_stack; [exact HLR|lia]. }
  { rewrite app_length. lia. }
  { exact HG. }
  { rewrite Hcode. cbn. now rewrite <- !app_assoc. }
  { rewrite code_size_app. cbn [code_size isize]. replace (code_size pre + (3 + 0)) with (code_size pre + 3) by lia. exact M0. }
  rewrite <- app_assoc in M1. cbn [app] in M1.
  assert (Hfe1 : fetch (code_of funs fn) (code_size (pre ++ [IGetGlobal GPrint]) + code_size ce) = Some (ICall 1)).
  { eapply fetch_mid with (c2 := [IPop]) (post := post). rewrite Hcode. cbn. now rewrite <- !app_assoc. }
  destruct (step_callprint cf funs _ _ _ _ _ _ _ _ _ _ M1 Hfe1) as (m2 & E2 & M2).
  assert (Hfe2 : fetch (code_of funs fn) (code_size (pre ++ [IGetGlobal GPrint]) + code_size ce + 2) = Some IPop).
  { replace (code_size (pre ++ [IGetGlobal GPrint]) + code_size ce + 2) with (code_size (pre ++ [IGetGlobal GPrint]) + code_size (ce ++ [ICall 1])).
    - eapply fetch_mid with (c2 := []) (post := post). rewrite Hcode. cbn. now rewrite <- !app_assoc.
    - rewrite !code_size_app. cbn. lia. }
  destruct (step_pop cf funs _ _ _ _ _ _ _ _ _ _ M2 Hfe2) as (m3 & E3 & M3).
  exists (1 + (n1 + 2)), m3, SL, G, (show_mval v' :: O).
  split. { exists m0. split; [exact E0|]. apply (steps_trans cf funs n1 2 m0 m1 m3 S1). exists m2. split; [exact E2|]. now apply steps_one. }
  split. { replace (code_size pre + code_size (IGetGlobal GPrint :: ce ++ [ICall 1; IPop]))
             with (code_size (pre ++ [IGetGlobal GPrint]) + code_size ce + 2 + 1); [exact M3|].
           rewrite code_size_app. cbn [code_size isize]. rewrite code_size_app. cbn [code_size isize]. lia. }
  split. { constructor; cbn [s_cells s_globals s_out]; auto. now rewrite (vrel_show _ _ R1), HO. }
  split; [apply EXT_refl|cbn; lia].
Qed.

Lemma skipn_app_len : forall A (a b : list A), skipn (List.length a) (a ++ b) = b.
Proof. induction a; cbn; auto. Qed.

Lemma case_block : forall fu, list_goal fu ->
  forall b en top st st' en',
  exec_stmt (S fu) (SBlock b) en top st = (st', en', CNorm) -> forallb stmt1 b = true ->
  forall L d code L', cstmt cf (SBlock b) L d = Some (code, L') -> depth_le d L ->
  forall SL G O, SIM L en st SL G O ->
  forall m fn pre post, code_of funs fn = (pre ++ code ++ post)%list -> MS m fn [] (code_size pre) 0 [] SL G O ->
  exists n m' SL' G' O', steps cf funs n m m' /\ MS m' fn [] (code_size pre + code_size code) 0 [] SL' G' O' /\
     SIM L' en' st' SL' G' O' /\ EXT d L en L' en' /\ List.length (s_cells st) <= List.length (s_cells st').
Proof.
  intros fu HLg b en top st st' en' He Hf L d code L' Hc Hd SL G O HSIM m fn pre post Hcode HM.
  cbn [exec_stmt] in He. destruct (exec_list fu b en false st) as [[st1 en1] c1] eqn:El.
  inversion He; subst st' en' c1. clear He.
  rewrite cstmt_block in Hc. destruct (clist cf b L (S d)) as [[cb L1]|] eqn:Cl; [|discriminate].
  cbn zeta in Hc. inversion Hc; subst code L'. clear Hc.
  destruct (HLg _ _ _ _ _ _ El Hf _ _ _ _ Cl eq_refl (depth_le_S _ _ Hd) _ _ _ HSIM m fn pre (scope_end_ops L1 d ++ post)%list)
    as (n1 & m1 & SL1 & G1 & O1 & S1 & M1 & SIM1 & X1 & Hc1).
  { rewrite Hcode. now rewrite <- app_assoc. }
  { exact HM. }
  destruct X1 as (N & Ne & -> & -> & HNlen & HN).
  pose proof (LR_nonempty _ _ _ _ (sim_lr _ _ _ _ _ _ HSIM)) as HLne.
  rewrite (scope_end_ops_ext N L d Hd HLne HN) in *.
  rewrite repeat_length, skipn_app_len.
  destruct SIM1 as [HLR1 Hlen1 HG1 HO1 Hnd1 Hcells1].
  rewrite app_length in Hlen1.
  assert (Hsplit : SL1 = (firstn (List.length L) SL1 ++ skipn (List.length L) SL1)%list) by (now rewrite firstn_skipn).
  assert (Hsk : List.length (skipn (List.length L) SL1) = List.length N) by (rewrite skipn_length; lia).
  rewrite Hsplit in M1.
  destruct (pops (List.length N) m1 fn (pre ++ cb)%list post (firstn (List.length L) SL1) (skipn (List.length L) SL1) G1 O1)
    as (m2 & S2 & M2).
  { rewrite Hcode. now rewrite <- !app_assoc. }
  { exact Hsk. }
  { rewrite code_size_app. exact M1. }
  exists (n1 + List.length N), m2, (firstn (List.length L) SL1), G1, O1.
  split; [eapply steps_trans; eauto|].
  split. { rewrite !code_size_app in *. rewrite code_size_repeat_pop. rewrite Nat.add_assoc. exact M2. }
  destruct HSIM as [HLR Hlen HG HO Hnd Hcells].
  split.
  { constructor; auto.
    - apply LR_drop in HLR1; auto. apply (LR_ext _ _ _ _ _ _ HLR1); [|reflexivity].
      intros i Hi. rewrite Hsplit at 2. rewrite app_nth1; [reflexivity|]. rewrite firstn_length. lia.
    - rewrite firstn_length. lia.
    - intros x c Hin. pose proof (Hcells _ _ Hin). lia. }
  split; [apply EXT_refl|exact Hc1].
Qed.

Lemma stmt_step : forall fu, list_goal fu -> stmt_goal (S fu).
Proof.
  intros fu HLg s en top st st' en' He Hf L d code L' Hc Ht Hd SL G O HSIM m fn pre post Hcode HM.
  destruct s; cbn [stmt1] in Hf; try discriminate.
  - eapply case_decl; eauto.
  - eapply case_assign; eauto.
  - eapply case_print; eauto.
  - eapply case_block; eauto.
Qed.

Lemma sim_all : forall fu, stmt_goal fu /\ list_goal fu.
Proof.
  induction fu as [|fu [IHs IHl]].
  - split; intros ? ? ? ? ? ? He; discriminate.
  - split; [now apply stmt_step|now apply list_step].
Qed.

End Sim.
