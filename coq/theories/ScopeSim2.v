(* C06 - stage 1 of compile_scope_correct: blocks + closures over block locals (one function level; closure
   bodies made of assignments, prints, calls and return; no parameters).  Simulation between eval_cells and the
   compiled program on the machine over the cell-store backend bk_c, by induction on the evaluator's fuel. *)
From Coq Require Import List Arith Bool String ZArith NArith Lia.
From YV Require Import Show Upvalues Cells ScopeLang ScopeComp ScopeLangProofs ScopeSim ScopeDefs2 ScopeMach2 ScopeComp2 ScopeDrop2 ScopeRel2 ScopeAux2.
Import ListNotations.
Import Gen.
Open Scope nat_scope.

Lemma expr3_expr2 : forall e, expr3 e = true -> expr2 e = true.
Proof.
  induction e as [n|x|a IHa b IHb|f args| |vv k args]; cbn; intros H; try discriminate; auto.
  - apply andb_prop in H as [Ha Hb]. now rewrite IHa, IHb.
  - destruct args; [reflexivity|discriminate].
Qed.

Lemma bstmt3_bstmt2 : forall s, bstmt3 s = true -> bstmt2 s = true.
Proof. destruct s; cbn; intros H; try discriminate; now apply expr3_expr2. Qed.

Lemma forallb_bstmt3_bstmt2 : forall b, forallb bstmt3 b = true -> forallb bstmt2 b = true.
Proof.
  induction b as [|a r IH]; cbn; intros H; [reflexivity|]. apply andb_prop in H as [Ha Hr].
  now rewrite (bstmt3_bstmt2 _ Ha), IH.
Qed.

Section Sim2.
Variable cf : cfg.
Variable funs : list func.

Notation vrel := (vrel2 cf funs).
Notation sto := (STO cf funs).

(* K grows by fresh machine cells *)
Definition KEXT (K K' : list nat) (lo hi : nat) : Prop :=
  exists e, K' = (K ++ e)%list /\ forall k, In k e -> lo <= k < hi.

Lemma KEXT_refl : forall K lo hi, KEXT K K lo hi.
Proof. intros K lo hi. exists []. rewrite app_nil_r. split; [reflexivity|intros k []]. Qed.

Lemma KEXT_trans : forall K K1 K2 a b c, KEXT K K1 a b -> KEXT K1 K2 b c -> a <= b -> b <= c -> KEXT K K2 a c.
Proof.
  intros K K1 K2 a b c (e1 & -> & H1) (e2 & -> & H2) Hab Hbc. exists (e1 ++ e2)%list. rewrite app_assoc. split; [reflexivity|].
  intros k Hin. apply in_app_or in Hin as [Hin|Hin]; [pose proof (H1 _ Hin)|pose proof (H2 _ Hin)]; lia.
Qed.

Lemma KEXT_ext : forall K K' lo hi, KEXT K K' lo hi -> exists e, K' = (K ++ e)%list.
Proof. intros K K' lo hi (e & -> & _). eauto. Qed.

Lemma KEXT_widen : forall K K' lo hi lo' hi', KEXT K K' lo hi -> lo' <= lo -> hi <= hi' -> KEXT K K' lo' hi'.
Proof. intros K K' lo hi lo' hi' (e & -> & H) H1 H2. exists e. split; [reflexivity|]. intros k Hin. pose proof (H _ Hin). lia. Qed.

(* the closure's handle vector against its (final) upvalue list and captured environment *)
Definition UR (K HL : list nat) (cenv : env) (Ufin : ups_t) (uvec : list nat) : Prop :=
  forall k slot b, nth_error Ufin k = Some (slot, b) ->
    b = true /\ exists x c, entry_at cenv slot = Some (x, c) /\ c < List.length K /\
                            nth k uvec 0 < List.length HL /\ nth (nth k uvec 0) HL 0 = kc K c.

Lemma UR_mono : forall K HL cenv Ufin uvec K', UR K HL cenv Ufin uvec -> (exists e, K' = (K ++ e)%list) -> UR K' HL cenv Ufin uvec.
Proof.
  intros K HL cenv Ufin uvec K' H [e ->] k slot b Hk. destruct (H k slot b Hk) as (-> & x & c & E1 & E2 & E3 & E4).
  split; [reflexivity|]. exists x, c. rewrite app_length. repeat split; auto; try lia.
  unfold kc in *. now rewrite app_nth1 by lia.
Qed.

(* the enclosing function's static locals against the captured environment: nothing at script level *)
Definition CENVR (Ls : list local) (cenv : env) : Prop :=
  (Ls = [] /\ cenv = []) \/ (exists Ls0, ENV Ls0 cenv /\ flags_up Ls0 Ls).

Lemma CENVR_flags : forall Ls Ls' cenv, CENVR Ls cenv -> flags_up Ls Ls' -> CENVR Ls' cenv.
Proof.
  intros Ls Ls' cenv [[-> ->]|(Ls0 & H1 & H2)] HF.
  - inversion HF; subst. now left.
  - right. exists Ls0. split; [exact H1|]. eapply flags_up_trans; eauto.
Qed.

(* how a variable of a frame is reached, and that the instruction sequence for reading it pushes its value *)
Inductive where_is (K CL HL : list nat) (base : nat) (uvec : list nat) : vref -> nat -> Prop :=
| W_local : forall s c, nth (base + s) CL 0 = kc K c -> base + s < List.length CL -> c < List.length K ->
    where_is K CL HL base uvec (VLocal s) c
| W_up : forall k c, nth k uvec 0 < List.length HL -> nth (nth k uvec 0) HL 0 = kc K c -> c < List.length K ->
    where_is K CL HL base uvec (VUp k) c.

Lemma resolve_cell : forall Lb Ls U x r U' Ls' enb cenv c K CL HL base uvec Ufin,
  rvb cf Lb Ls U x = Some (r, U', Ls') -> assoc (enb ++ cenv) x = Some c ->
  LRB K CL HL base Lb enb -> base + List.length Lb <= List.length CL -> CENVR Ls cenv -> UR K HL cenv Ufin uvec ->
  (exists ext, Ufin = (U' ++ ext)%list) ->
  where_is K CL HL base uvec r c.
Proof.
  intros Lb Ls U x r U' Ls' enb cenv c K CL HL base uvec Ufin Hr Ha HL0 Hlen HC HU [ext ->].
  unfold rvb in Hr. rewrite assoc_app in Ha. destruct (assoc enb x) as [c0|] eqn:Eb.
  - inversion Ha; subst c0. destruct (LRB_lookup _ _ _ _ _ _ _ _ HL0 Eb) as (s & E1 & E2 & E3 & E4).
    rewrite E1 in Hr. inversion Hr; subst. constructor; auto. lia.
  - rewrite (ENV_lookup_none _ _ _ (LRB_ENV _ _ _ _ _ _ HL0) Eb) in Hr.
    destruct HC as [[-> ->]|(Ls0 & HE & HF)]; [discriminate|].
    rewrite (flags_up_resolve_local _ _ x HF) in Hr.
    destruct (ENV_lookup _ _ _ _ HE Ha) as (slot & E1 & E2 & E3). rewrite E1 in Hr.
    destruct (add_upvalue (c_upvalues_max cf) U slot true) as [[U1 k] ovf] eqn:Eu. destruct ovf; [discriminate|].
    inversion Hr; subst r U' Ls'.
    destruct (add_upvalue_spec _ _ _ _ _ _ Eu) as [Hn _].
    assert (Hn' : nth_error (U1 ++ ext) k = Some (slot, true)).
    { rewrite nth_error_app1; [exact Hn|]. apply nth_error_Some. congruence. }
    destruct (HU k slot true Hn') as (_ & x' & c' & F1 & F2 & F3 & F4).
    rewrite E3 in F1. inversion F1; subst x' c'. constructor; auto.
Qed.

Lemma resolve_global : forall Lb Ls U x r U' Ls' enb cenv K CL HL base,
  rvb cf Lb Ls U x = Some (r, U', Ls') -> assoc (enb ++ cenv) x = None ->
  LRB K CL HL base Lb enb -> CENVR Ls cenv -> r = VGlobal.
Proof.
  intros Lb Ls U x r U' Ls' enb cenv K CL HL base Hr Ha HL0 HC.
  unfold rvb in Hr. rewrite assoc_app in Ha. destruct (assoc enb x) as [c0|] eqn:Eb; [discriminate|].
  rewrite (ENV_lookup_none _ _ _ (LRB_ENV _ _ _ _ _ _ HL0) Eb) in Hr.
  destruct HC as [[-> ->]|(Ls0 & HE & HF)]; [cbn in Hr; congruence|].
  rewrite (flags_up_resolve_local _ _ x HF) in Hr. rewrite (ENV_lookup_none _ _ _ HE Ha) in Hr. congruence.
Qed.

(* ---- the frame context ---- *)
Record CTX (K CL HL : list nat) (base : nat) (Lb : list local) (enb : env) (Ls : list local) (cenv : env)
           (Ufin : ups_t) (uvec : list nat) : Prop := mkCTX {
  cx_lrb : LRB K CL HL base Lb enb;
  cx_len : base + List.length Lb <= List.length CL;
  cx_cenv : CENVR Ls cenv;
  cx_ur : UR K HL cenv Ufin uvec;
  cx_cells : forall x c, In (x, c) cenv -> c < List.length K
}.

Lemma CTX_mono : forall K CL HL base Lb enb Ls cenv Ufin uvec K' CL' Ls',
  CTX K CL HL base Lb enb Ls cenv Ufin uvec -> (exists e, K' = (K ++ e)%list) ->
  (forall i, i < base + List.length Lb -> nth i CL' 0 = nth i CL 0) -> base + List.length Lb <= List.length CL' ->
  flags_up Ls Ls' -> CTX K' CL' HL base Lb enb Ls' cenv Ufin uvec.
Proof.
  intros K CL HL base Lb enb Ls cenv Ufin uvec K' CL' Ls' [H1 H2 H3 H4 H5] HK HC Hl HF. constructor; auto.
  - eapply LRB_mono; eauto.
  - eapply CENVR_flags; eauto.
  - eapply UR_mono; eauto.
  - destruct HK as [e ->]. intros x c Hin. rewrite app_length. pose proof (H5 _ _ Hin). lia.
Qed.

Lemma CTX_app : forall K CL HL base Lb enb Ls cenv Ufin uvec t,
  CTX K CL HL base Lb enb Ls cenv Ufin uvec -> CTX K (CL ++ t) HL base Lb enb Ls cenv Ufin uvec.
Proof.
  intros K CL HL base Lb enb Ls cenv Ufin uvec t H. pose proof (cx_len _ _ _ _ _ _ _ _ _ _ H) as Hl.
  eapply CTX_mono; eauto.
  - exists []. now rewrite app_nil_r.
  - intros i Hi. apply app_nth1. lia.
  - rewrite app_length. lia.
  - apply flags_up_refl.
Qed.

(* cells that are no variables and existed before are left alone *)
Definition FRAMEC (m m' : cmach) (K : list nat) : Prop :=
  forall j, j < cn m -> ~ In j K -> cv m' j = cv m j.

Lemma FRAMEC_refl : forall m K, FRAMEC m m K.
Proof. intros m K j _ _. reflexivity. Qed.

Lemma FRAMEC_trans : forall m1 m2 m3 K K2, FRAMEC m1 m2 K -> FRAMEC m2 m3 K2 -> cn m1 <= cn m2 ->
  (forall j, In j K2 -> In j K \/ cn m1 <= j) -> FRAMEC m1 m3 K.
Proof.
  intros m1 m2 m3 K K2 H1 H2 Hc HK j Hj Hn. rewrite H2; [apply H1; auto|lia|].
  intro Hin. destruct (HK _ Hin); [contradiction|lia].
Qed.

(* ---- reading and writing a variable through its access path ---- *)
Lemma exec_get : forall K CL HL base uvec r c x m fn pc frs G O,
  where_is K CL HL base uvec r c -> MS2 m fn uvec pc base frs CL HL G O ->
  fetch (code_of funs fn) pc = Some (get_op r x) ->
  exists m', mstep cf funs m = MRun m' /\ MS2 m' fn uvec (pc + isize (get_op r x)) base frs (CL ++ [cn m]) HL G O /\
             cv m' = upd (cv m) (cn m) (cv m (kc K c)) /\ cn m' = S (cn m).
Proof.
  intros K CL HL base uvec r c x m fn pc frs G O Hw HM Hf. destruct Hw as [s c E1 E2 E3|k c E1 E2 E3]; cbn [get_op isize] in *.
  - destruct (step2_getlocal cf funs _ _ _ _ _ _ _ _ _ _ _ HM Hf E2) as (m' & A & B & C & D).
    exists m'. rewrite E1 in C. auto.
  - destruct (step2_getupvalue cf funs _ _ _ _ _ _ _ _ _ _ _ HM Hf E1) as (m' & A & B & C & D).
    exists m'. rewrite E2 in C. auto.
Qed.

Lemma exec_set : forall K CL0 ct HL base uvec r c x m fn pc frs G O,
  where_is K CL0 HL base uvec r c -> MS2 m fn uvec pc base frs (CL0 ++ [ct]) HL G O ->
  fetch (code_of funs fn) pc = Some (set_op r x) ->
  exists m', mstep cf funs m = MRun m' /\ MS2 m' fn uvec (pc + 2) base frs (CL0 ++ [ct]) HL G O /\
             cv m' = upd (cv m) (kc K c) (cv m ct) /\ cn m' = cn m.
Proof.
  intros K CL0 ct HL base uvec r c x m fn pc frs G O Hw HM Hf. destruct Hw as [s c E1 E2 E3|k c E1 E2 E3]; cbn [set_op] in *.
  - destruct (step2_setlocal cf funs _ _ _ _ _ _ _ _ _ _ _ _ HM Hf E2) as (m' & A & B & C & D).
    exists m'. rewrite E1 in C. auto.
  - destruct (step2_setupvalue cf funs _ _ _ _ _ _ _ _ _ _ _ _ HM Hf E1) as (m' & A & B & C & D).
    exists m'. rewrite E2 in C. auto.
Qed.

(* a fresh temporary is pushed: the store relation is kept *)
Lemma sto_push : forall st K HL m m' G O w,
  sto st K HL (cv m) (cn m) G O -> cv m' = upd (cv m) (cn m) w -> cn m' = S (cn m) ->
  sto st K HL (cv m') (cn m') G O /\ ~ In (cn m) K /\ FRAMEC m m' K.
Proof.
  intros st K HL m m' G O w H E1 E2.
  assert (Hn : ~ In (cn m) K) by (intro Hin; pose proof (sto_lt _ _ _ _ _ _ _ _ _ H _ Hin); lia).
  split; [|split; [exact Hn|]].
  - rewrite E1, E2. apply STO_temp with (cnx := cn m); auto.
  - intros j Hj _. rewrite E1. apply upd_other. lia.
Qed.

Definition good (c : ctl) : Prop := c = CNorm \/ exists v, c = CRet v.
Definition slot0 : local := mkLocal None (Some 0) false.

Definition E_goal (fuel : nat) : Prop := forall e enb cenv st st' v,
  eval_expr fuel e (enb ++ cenv)%list st = (st', ROk v) -> expr3 e = true ->
  forall Lb Ls U ce U' Ls', bexpr cf Lb e U Ls = Some (ce, U', Ls') ->
  forall Ufin uvec K CL HL base, (exists ext, Ufin = (U' ++ ext)%list) ->
  CTX K CL HL base Lb enb Ls cenv Ufin uvec ->
  forall m fn frs G O pre post, code_of funs fn = (pre ++ ce ++ post)%list ->
  MS2 m fn uvec (code_size pre) base frs CL HL G O -> sto st K HL (cv m) (cn m) G O ->
  exists n m' K' cnew G' O', steps cf funs n m m' /\
    MS2 m' fn uvec (code_size pre + code_size ce) base frs (CL ++ [cnew])%list HL G' O' /\
    sto st' K' HL (cv m') (cn m') G' O' /\ KEXT K K' (cn m) (cn m') /\ vrel K' HL v (cv m' cnew) /\
    cn m <= cnew < cn m' /\ ~ In cnew K' /\ FRAMEC m m' K.

Definition BL_goal (fuel : nat) : Prop := forall ss cenv st st' en' ctl,
  exec_list fuel ss cenv false st = (st', en', ctl) -> good ctl -> forallb bstmt3 ss = true ->
  forall d U Ls code Lb' U' Ls', blist cf ss [slot0] d U Ls = Some (code, Lb', U', Ls') ->
  forall Ufin uvec K CL HL base, (exists ext, Ufin = (U' ++ ext)%list) ->
  CTX K CL HL base [slot0] [] Ls cenv Ufin uvec -> List.length CL = S base ->
  forall m fn fn0 ups0 pc0 base0 frs' G O pre post, code_of funs fn = (pre ++ code ++ post)%list ->
  MS2 m fn uvec (code_size pre) base (mkFrame fn0 ups0 pc0 base0 :: frs') CL HL G O -> sto st K HL (cv m) (cn m) G O ->
  exists n m' K' G' O', steps cf funs n m m' /\ sto st' K' HL (cv m') (cn m') G' O' /\ KEXT K K' (cn m) (cn m') /\
    FRAMEC m m' K /\ cn m <= cn m' /\
    match ctl with
    | CNorm => MS2 m' fn uvec (code_size pre + code_size code) base (mkFrame fn0 ups0 pc0 base0 :: frs') CL HL G' O'
    | CRet v => exists cres, MS2 m' fn0 ups0 pc0 base0 frs' (firstn base CL ++ [cres])%list HL G' O' /\
                             vrel K' HL v (cv m' cres) /\ cn m <= cres < cn m' /\ ~ In cres K'
    | _ => False
    end.

Lemma sto_K_lt : forall st K HL m G O k, sto st K HL (cv m) (cn m) G O -> In k K -> k < cn m.
Proof. intros st K HL m G O k H. apply (sto_lt _ _ _ _ _ _ _ _ _ H). Qed.

Lemma E_lit : forall n enb cenv st Lb Ls Ufin uvec K CL HL base m fn frs G O pre post,
  CTX K CL HL base Lb enb Ls cenv Ufin uvec ->
  code_of funs fn = (pre ++ [IConst n] ++ post)%list ->
  MS2 m fn uvec (code_size pre) base frs CL HL G O -> sto st K HL (cv m) (cn m) G O ->
  exists n0 m' K' cnew G' O', steps cf funs n0 m m' /\
    MS2 m' fn uvec (code_size pre + code_size [IConst n]) base frs (CL ++ [cnew])%list HL G' O' /\
    sto st K' HL (cv m') (cn m') G' O' /\ KEXT K K' (cn m) (cn m') /\ vrel K' HL (SVInt (Z.of_N n)) (cv m' cnew) /\
    cn m <= cnew < cn m' /\ ~ In cnew K' /\ FRAMEC m m' K.
Proof.
  intros n enb cenv st Lb Ls Ufin uvec K CL HL base m fn frs G O pre post HC Hcode HM HS.
  assert (Hf : fetch (code_of funs fn) (code_size pre) = Some (IConst n)) by (rewrite Hcode; apply fetch_app).
  destruct (step2_const cf funs _ _ _ _ _ _ _ _ _ _ _ HM Hf) as (m' & A & B & C & D).
  destruct (sto_push _ _ _ _ _ _ _ _ HS C D) as (S1 & S2 & S3).
  exists 1, m', K, (cn m), G, O. split; [now apply steps_one|]. split; [exact B|]. split; [exact S1|].
  split; [apply KEXT_refl|]. split; [rewrite C, upd_same; constructor|]. split; [lia|]. split; [exact S2|exact S3].
Qed.

Lemma nth_error_nth_d : forall (l : list func) k f, nth_error l k = Some f -> nth k l dfunc = f.
Proof. induction l as [|a r IH]; intros [|k] f H; cbn in *; try discriminate; [now inversion H|auto]. Qed.

Lemma app_one_assoc : forall A (a : list A) x b, (a ++ x :: b = (a ++ [x]) ++ b)%list.
Proof. intros. now rewrite <- app_assoc. Qed.

Lemma E_step : forall fu, E_goal fu -> BL_goal fu -> E_goal (S fu).
Proof.
  intros fu IHE IHB e enb cenv st st' v He Hf Lb Ls U ce U' Ls' Hc Ufin uvec K CL HL base HU HC m fn frs G O pre post Hcode HM HS.
  destruct e as [n|x|a b|f args| |vv k args]; cbn in Hf; try discriminate.
  - (* ELit *)
    cbn in He, Hc. inversion He; inversion Hc; subst. eapply E_lit; eauto.
  - (* EVar *)
    cbn in He, Hc. destruct (rvb cf Lb Ls U x) as [[[r U1] Ls1]|] eqn:Er; [|discriminate]. inversion Hc; subst ce U1 Ls1. clear Hc.
    assert (Hfe : fetch (code_of funs fn) (code_size pre) = Some (get_op r x)) by (rewrite Hcode; apply fetch_app).
    unfold read_var in He. destruct (assoc (enb ++ cenv)%list x) as [c|] eqn:Ea.
    + inversion He; subst st' v. clear He.
      pose proof (resolve_cell _ _ _ _ _ _ _ _ _ _ _ _ _ _ _ _ Er Ea (cx_lrb _ _ _ _ _ _ _ _ _ _ HC) (cx_len _ _ _ _ _ _ _ _ _ _ HC)
                    (cx_cenv _ _ _ _ _ _ _ _ _ _ HC) (cx_ur _ _ _ _ _ _ _ _ _ _ HC) HU) as Hw.
      destruct (exec_get _ _ _ _ _ _ _ x _ _ _ _ _ _ Hw HM Hfe) as (m' & A & B & C & D).
      destruct (sto_push _ _ _ _ _ _ _ _ HS C D) as (S1 & S2 & S3).
      assert (Hck : c < List.length K) by (destruct Hw; assumption).
      exists 1, m', K, (cn m), G, O. split; [now apply steps_one|]. split; [cbn [code_size]; rewrite Nat.add_0_r; exact B|].
      split; [exact S1|]. split; [apply KEXT_refl|].
      split. { rewrite C, upd_same. apply (sto_val _ _ _ _ _ _ _ _ _ HS c Hck). }
      split; [lia|]. split; [exact S2|exact S3].
    + destruct (assoc (s_globals st) x) as [gv|] eqn:Eg; [|discriminate]. inversion He; subst st' v. clear He.
      pose proof (resolve_global _ _ _ _ _ _ _ _ _ _ _ _ _ Er Ea (cx_lrb _ _ _ _ _ _ _ _ _ _ HC) (cx_cenv _ _ _ _ _ _ _ _ _ _ HC)) as ->.
      cbn [get_op] in *.
      destruct (GR2_assoc _ _ _ _ _ _ _ _ (sto_g _ _ _ _ _ _ _ _ _ HS) Eg) as (w & Eg' & Rw).
      destruct (step2_getglobal cf funs _ _ _ _ _ _ _ _ _ _ _ _ HM Hfe Eg') as (m' & A & B & C & D).
      destruct (sto_push _ _ _ _ _ _ _ _ HS C D) as (S1 & S2 & S3).
      exists 1, m', K, (cn m), G, O. split; [now apply steps_one|]. split; [cbn [code_size isize]; rewrite Nat.add_0_r; exact B|].
      split; [exact S1|]. split; [apply KEXT_refl|]. split; [rewrite C, upd_same; exact Rw|].
      split; [lia|]. split; [exact S2|exact S3].
  - (* EAdd *)
    apply andb_prop in Hf as [Hfa Hfb]. cbn in He.
    destruct (eval_expr fu a (enb ++ cenv)%list st) as [st1 [va| | |]] eqn:Ea; try (inversion He; fail).
    destruct va as [x| | | | |]; try (inversion He; fail).
    destruct (eval_expr fu b (enb ++ cenv)%list st1) as [st2 [vb| | |]] eqn:Eb; try (inversion He; fail).
    destruct vb as [y| | | | |]; try (inversion He; fail).
    inversion He; subst st' v. clear He. cbn [bexpr] in Hc.
    destruct (bexpr cf Lb a U Ls) as [[[ca U1] Ls1]|] eqn:Eca; [|discriminate].
    destruct (bexpr cf Lb b U1 Ls1) as [[[cb U2] Ls2]|] eqn:Ecb; [|discriminate]. inversion Hc; subst ce U' Ls'. clear Hc.
    destruct (bexpr_ok cf a (expr3_expr2 _ Hfa) _ _ _ _ _ _ Eca) as (HF1 & ext1 & -> & _).
    destruct (bexpr_ok cf b (expr3_expr2 _ Hfb) _ _ _ _ _ _ Ecb) as (HF2 & ext2 & -> & _).
    destruct HU as [ext ->].
    destruct (IHE _ _ _ _ _ _ Ea Hfa _ _ _ _ _ _ Eca (((U ++ ext1) ++ ext2) ++ ext)%list uvec K CL HL base) with (m := m) (fn := fn) (frs := frs) (G := G) (O := O)
        (pre := pre) (post := ((cb ++ [IAdd]) ++ post)%list) as (n1 & m1 & K1 & c1 & G1 & O1 & S1 & M1 & ST1 & KX1 & R1 & B1 & N1 & F1).
    { exists (ext2 ++ ext)%list. now rewrite <- !app_assoc. }
    { exact HC. }
    { rewrite Hcode. now rewrite <- !app_assoc. }
    { exact HM. }
    { exact HS. }
    inversion R1 as [z Hz1 Hz2| |]; subst z.
    assert (HC1 : CTX K1 (CL ++ [c1]) HL base Lb enb Ls1 cenv (((U ++ ext1) ++ ext2) ++ ext)%list uvec).
    { apply CTX_app. eapply CTX_mono; eauto.
      - eapply KEXT_ext; eauto.
      - apply (cx_len _ _ _ _ _ _ _ _ _ _ HC). }
    destruct (IHE _ _ _ _ _ _ Eb Hfb _ _ _ _ _ _ Ecb (((U ++ ext1) ++ ext2) ++ ext)%list uvec K1 (CL ++ [c1])%list HL base) with (m := m1) (fn := fn) (frs := frs) (G := G1) (O := O1)
        (pre := (pre ++ ca)%list) (post := ([IAdd] ++ post)%list) as (n2 & m2 & K2 & c2 & G2 & O2 & S2 & M2 & ST2 & KX2 & R2 & B2 & N2 & F2).
    { exists ext. reflexivity. }
    { exact HC1. }
    { rewrite Hcode. now rewrite <- !app_assoc. }
    { rewrite code_size_app. exact M1. }
    { exact ST1. }
    inversion R2 as [z Hz3 Hz4| |]; subst z.
    assert (Hfe : fetch (code_of funs fn) (code_size (pre ++ ca) + code_size cb) = Some IAdd).
    { eapply fetch_mid with (c2 := []) (post := post). rewrite Hcode. now rewrite <- !app_assoc. }
    rewrite <- app_assoc in M2. cbn [app] in M2.
    pose proof (m2_s _ _ _ _ _ _ _ _ _ _ (M2)) as SK2.
    assert (Hc1v : cv m2 c1 = MInt x).
    { rewrite F2; [congruence|lia|]. intro Hin. destruct KX1 as (e1 & -> & He1). apply N1. exact Hin. }
    assert (Hh1 : ~ In c1 HL). { intro Hin. pose proof (s2_hl_lt _ _ _ (m2_s _ _ _ _ _ _ _ _ _ _ HM) _ Hin). unfold cn in *. lia. }
    assert (Hh2 : ~ In c2 HL). { intro Hin. pose proof (s2_hl_lt _ _ _ (m2_s _ _ _ _ _ _ _ _ _ _ M1) _ Hin). unfold cn in *. lia. }
    destruct (step2_add cf funs _ _ _ _ _ _ _ _ _ _ _ _ _ _ M2 Hfe Hc1v (eq_sym Hz4) Hh1 Hh2) as (m3 & A3 & B3 & C3 & D3).
    destruct (sto_push _ _ _ _ _ _ _ _ ST2 C3 D3) as (S31 & S32 & S33).
    exists (n1 + n2 + 1), m3, K2, (cn m2), G2, O2.
    split. { eapply steps_trans; [eapply steps_trans; eauto|now apply steps_one]. }
    split. { rewrite !code_size_app in *. cbn [code_size isize] in *.
             replace (code_size pre + (code_size ca + (code_size cb + (1 + 0)))) with (code_size pre + code_size ca + code_size cb + 1) by lia. exact B3. }
    split; [exact S31|].
    assert (Hm12 : cn m <= cn m1) by lia. assert (Hm23 : cn m1 <= cn m2) by lia.
    split. { eapply KEXT_widen; [eapply KEXT_trans; eauto|lia|lia]. }
    split. { rewrite C3, upd_same. constructor. }
    split; [lia|]. split; [exact S32|].
    eapply FRAMEC_trans with (m2 := m2) (K2 := K2); [eapply FRAMEC_trans with (m2 := m1) (K2 := K1); eauto| | |].
    + intros j Hin. destruct KX1 as (e1 & -> & He1). apply in_app_or in Hin as [Hin|Hin]; [now left|right; apply He1 in Hin; lia].
    + exact S33.
    + lia.
    + intros j Hin. destruct KX1 as (e1 & -> & He1). destruct KX2 as (e2 & -> & He2).
      apply in_app_or in Hin as [Hin|Hin]; [apply in_app_or in Hin as [Hin|Hin]; [now left|right; apply He1 in Hin; lia]|right; apply He2 in Hin; lia].
  - (* ECall f [] *)
    destruct args as [|a0 args0]; [|discriminate]. cbn in He.
    destruct (read_var st (enb ++ cenv)%list f) as [callee| | |] eqn:Erd; try (inversion He; fail).
    destruct callee as [| | | |ps body cenv'|]; try (inversion He; fail).
    destruct (List.length ps =? 0) eqn:Eps; [|inversion He].
    apply Nat.eqb_eq in Eps. destruct ps as [|p0 ps0]; [|discriminate]. cbn [bind_params] in He.
    destruct (exec_list fu body cenv' false st) as [[st3 en3] ctl] eqn:Ex.
    assert (Hgood : good ctl /\ v = match ctl with CRet w => w | _ => SVNil end /\ st' = st3).
    { destruct ctl; inversion He; subst; (split; [|split; reflexivity]); [left; reflexivity|right; eauto]. }
    destruct Hgood as (Hgood & Hv & ->). clear He.
    destruct fu as [|fu']; [cbn in Ex; inversion Ex; subst; destruct Hgood as [|[? ?]]; discriminate|].
    (* compile *)
    cbn [bexpr] in Hc. destruct (rvb cf Lb Ls U f) as [[[r U0] Ls0]|] eqn:Er; [|discriminate].
    inversion Hc; subst ce U' Ls'. clear Hc. cbn [List.length app] in *.
    (* the callee value is pushed: the EVar case at the smaller fuel *)
    assert (Ev : eval_expr (S fu') (EVar f) (enb ++ cenv)%list st = (st, ROk (SVClo [] body cenv'))) by (cbn; now rewrite Erd).
    assert (Ecv : bexpr cf Lb (EVar f) U Ls = Some ([get_op r f], U0, Ls0)) by (cbn; now rewrite Er).
    destruct (IHE _ _ _ _ _ _ Ev eq_refl _ _ _ _ _ _ Ecv Ufin uvec K CL HL base HU HC m fn frs G O pre ([ICall 0] ++ post)%list)
      as (n1 & m1 & K1 & c1 & G1 & O1 & S1 & M1 & ST1 & KX1 & R1 & B1 & N1 & F1).
    { rewrite Hcode. reflexivity. }
    { exact HM. }
    { exact HS. }
    inversion R1 as [| |ps1 body1 cenv1 fnc Uv Lc codeb Uc Lc' Hfrag Hcb HEnv Hfn HlenU HUR Hcells Hz1 Hz2]; subst.
    assert (Har : f_arity (nth fnc funs dfunc) = 0) by (rewrite (nth_error_nth_d _ _ _ Hfn); reflexivity).
    assert (Hfe : fetch (code_of funs fn) (code_size pre + code_size [get_op r f]) = Some (ICall 0)).
    { eapply fetch_mid with (c2 := []) (post := post). rewrite Hcode. now rewrite <- !app_assoc. }
    destruct (step2_call cf funs m1 fn uvec _ base frs CL c1 [] HL G1 O1 0 fnc Uv M1 Hfe eq_refl (eq_sym Hz2) Har)
      as (m2 & A2 & B2 & C2 & D2).
    (* the body *)
    unfold cbody in Hcb. cbn [bparams] in Hcb.
    destruct (blist cf body [mkLocal None (Some 0) false] 1 [] Lc) as [[[[code1 Lb1] Uc1] Lc1]|] eqn:Ebl; [|discriminate].
    inversion Hcb; subst codeb Uc1 Lc1. clear Hcb.
    assert (Hcode_c : code_of funs fnc = (code1 ++ [INil; IReturn])%list).
    { unfold code_of. rewrite (nth_error_nth_d _ _ _ Hfn). reflexivity. }
    assert (HCb : CTX K1 (CL ++ [c1]) HL (List.length CL) [slot0] [] Lc cenv' Uc Uv).
    { constructor.
      - constructor.
      - rewrite app_length. cbn. lia.
      - right. exists Lc. split; [exact HEnv|apply flags_up_refl].
      - exact HUR.
      - exact Hcells. }
    assert (ST2 : sto st K1 HL (cv m2) (cn m2) G1 O1) by (rewrite C2, D2; exact ST1).
    destruct (IHB body cenv' st st3 en3 ctl Ex Hgood Hfrag 1 [] Lc code1 Lb1 Uc Lc' Ebl Uc Uv K1 (CL ++ [c1])%list HL (List.length CL))
      with (m := m2) (fn := fnc) (fn0 := fn) (ups0 := uvec) (pc0 := code_size pre + code_size [get_op r f] + 2) (base0 := base) (frs' := frs)
           (G := G1) (O := O1) (pre := @nil instr) (post := [INil; IReturn])
      as (n3 & m3 & K3 & G3 & O3 & S3 & ST3 & KX3 & F3 & Hcn3 & Hres).
    { exists []. now rewrite app_nil_r. }
    { exact HCb. }
    { rewrite app_length. cbn. lia. }
    { rewrite Hcode_c. reflexivity. }
    { exact B2. }
    { exact ST2. }
    assert (Hfirst : firstn (List.length CL) (CL ++ [c1]) = CL).
    { rewrite firstn_app, Nat.sub_diag, firstn_all. cbn. now rewrite app_nil_r. }
    assert (Hpc : code_size pre + code_size [get_op r f] + 2 = code_size pre + code_size [get_op r f; ICall 0]).
    { cbn [code_size isize]. lia. }
    assert (Hcn12 : cn m <= cn m1) by lia. assert (Hcn2 : cn m2 = cn m1) by exact D2.
    assert (HK13 : forall j, In j K3 -> In j K \/ cn m <= j).
    { intros j Hin. destruct KX1 as (e1 & -> & He1). destruct KX3 as (e3 & -> & He3).
      apply in_app_or in Hin as [Hin|Hin]; [apply in_app_or in Hin as [Hin|Hin]; [now left|right; apply He1 in Hin; lia]|right; apply He3 in Hin; lia]. }
    assert (HF13 : FRAMEC m m3 K).
    { eapply FRAMEC_trans with (m2 := m1) (K2 := K1); [exact F1| |lia|].
      - intros j Hj Hn. rewrite F3; [now rewrite C2|lia|exact Hn].
      - intros j Hin. destruct KX1 as (e1 & -> & He1). apply in_app_or in Hin as [Hin|Hin]; [now left|right; apply He1 in Hin; lia]. }
    destruct ctl as [| | |w| | |]; try contradiction; try (destruct Hgood as [Hg|[? Hg]]; discriminate).
    + (* the body fell off its end: Nil; Return *)
      cbn [code_size Nat.add] in Hres.
      assert (Hf1 : fetch (code_of funs fnc) (code_size code1) = Some INil).
      { rewrite Hcode_c. replace (code_size code1) with (code_size [] + code_size code1) by reflexivity.
        eapply fetch_mid with (pre := []) (c2 := [IReturn]) (post := []). cbn. now rewrite app_nil_r. }
      destruct (step2_nil cf funs _ _ _ _ _ _ _ _ _ _ Hres Hf1) as (m4 & A4 & B4 & C4 & D4).
      assert (Hf2 : fetch (code_of funs fnc) (code_size code1 + 1) = Some IReturn).
      { rewrite Hcode_c. replace (code_size code1 + 1) with (code_size [] + code_size (code1 ++ [INil])) by (rewrite code_size_app; cbn; lia).
        eapply fetch_mid with (pre := []) (c2 := []) (post := []). cbn. rewrite app_nil_r, <- app_assoc. reflexivity. }
      assert (Hh4 : ~ In (cn m3) HL).
      { intro Hin. pose proof (s2_hl_lt _ _ _ (m2_s _ _ _ _ _ _ _ _ _ _ Hres) _ Hin). unfold cn in *. lia. }
      destruct (step2_return cf funs _ _ _ _ _ _ _ _ _ _ _ _ _ _ _ B4 Hf2 ltac:(rewrite app_length; cbn; lia) Hh4) as (m5 & A5 & B5 & C5 & D5).
      rewrite Hfirst in B5.
      destruct (sto_push _ _ _ _ _ _ _ _ ST3 C4 D4) as (S41 & S42 & S43).
      destruct (sto_push _ _ _ _ _ _ _ _ S41 C5 D5) as (S51 & S52 & S53).
      exists (n1 + (1 + (n3 + 2))), m5, K3, (cn m4), G3, O3.
      split. { apply (steps_trans cf funs n1 (1 + (n3 + 2)) m m1 m5 S1). exists m2. split; [exact A2|].
               apply (steps_trans cf funs n3 2 m2 m3 m5 S3). exists m4. split; [exact A4|]. now apply steps_one. }
      split. { rewrite <- Hpc. exact B5. }
      split; [exact S51|].
      split. { apply (KEXT_widen K K3 (cn m) (cn m3)); [|lia|lia]. rewrite Hcn2 in KX3. apply (KEXT_trans K K1 K3 (cn m) (cn m1) (cn m3) KX1 KX3); lia. }
      split. { rewrite C5, upd_same, C4, upd_same. constructor. }
      split; [lia|]. split; [exact S52|].
      intros j Hj Hn. rewrite C5, upd_other by lia. rewrite C4, upd_other by lia. apply HF13; auto.
    + (* return inside the body *)
      destruct Hres as (cres & B5 & R5 & Bd5 & N5). rewrite Hfirst in B5.
      exists (n1 + (1 + n3)), m3, K3, cres, G3, O3.
      split. { apply (steps_trans cf funs n1 (1 + n3) m m1 m3 S1). exists m2. split; [exact A2|exact S3]. }
      split. { rewrite <- Hpc. exact B5. }
      split; [exact ST3|].
      split. { apply (KEXT_widen K K3 (cn m) (cn m3)); [|lia|lia]. rewrite Hcn2 in KX3. apply (KEXT_trans K K1 K3 (cn m) (cn m1) (cn m3) KX1 KX3); lia. }
      split; [exact R5|]. split; [lia|]. split; [exact N5|exact HF13].
Qed.


Definition BS_goal (fuel : nat) : Prop := forall s cenv st st' en' ctl,
  exec_stmt fuel s cenv false st = (st', en', ctl) -> good ctl -> bstmt3 s = true ->
  forall d U Ls code Lb' U' Ls', bstmt cf s [slot0] d U Ls = Some (code, Lb', U', Ls') ->
  forall Ufin uvec K CL HL base, (exists ext, Ufin = (U' ++ ext)%list) ->
  CTX K CL HL base [slot0] [] Ls cenv Ufin uvec -> List.length CL = S base ->
  forall m fn fn0 ups0 pc0 base0 frs' G O pre post, code_of funs fn = (pre ++ code ++ post)%list ->
  MS2 m fn uvec (code_size pre) base (mkFrame fn0 ups0 pc0 base0 :: frs') CL HL G O -> sto st K HL (cv m) (cn m) G O ->
  en' = cenv /\ Lb' = [slot0] /\
  exists n m' K' G' O', steps cf funs n m m' /\ sto st' K' HL (cv m') (cn m') G' O' /\ KEXT K K' (cn m) (cn m') /\
    FRAMEC m m' K /\ cn m <= cn m' /\
    match ctl with
    | CNorm => MS2 m' fn uvec (code_size pre + code_size code) base (mkFrame fn0 ups0 pc0 base0 :: frs') CL HL G' O'
    | CRet v => exists cres, MS2 m' fn0 ups0 pc0 base0 frs' (firstn base CL ++ [cres])%list HL G' O' /\
                             vrel K' HL v (cv m' cres) /\ cn m <= cres < cn m' /\ ~ In cres K'
    | _ => False
    end.

Lemma notin_HL_fresh : forall m fn uvec pc base frs CL HL G O c, MS2 m fn uvec pc base frs CL HL G O -> cn m <= c -> ~ In c HL.
Proof.
  intros m fn uvec pc base frs CL HL G O c HM Hc Hin.
  pose proof (s2_hl_lt _ _ _ (m2_s _ _ _ _ _ _ _ _ _ _ HM) _ Hin). unfold cn in *. lia.
Qed.

Lemma KEXT_in : forall K K' lo hi j, KEXT K K' lo hi -> In j K' -> In j K \/ lo <= j.
Proof.
  intros K K' lo hi j (e & -> & He) Hin. apply in_app_or in Hin as [Hin|Hin]; [now left|right; apply He in Hin; lia].
Qed.

Lemma BS_step : forall fu, E_goal fu -> BS_goal (S fu).
Proof.
  intros fu IHE s cenv st st' en' ctl He Hg Hf d U Ls code Lb' U' Ls' Hc Ufin uvec K CL HL base HU HC HlenCL
         m fn fn0 ups0 pc0 base0 frs' G O pre post Hcode HM HS.
  destruct s; cbn in Hf; try discriminate.
  - (* SAssign *)
    cbn [exec_stmt] in He. destruct (eval_expr fu e cenv st) as [st1 rr] eqn:Ee.
    destruct rr as [v| | |]; try (inversion He; subst; destruct Hg as [Hg|[? Hg]]; discriminate).
    destruct (write_var st1 cenv x v) as [st2|] eqn:Ew; [|inversion He; subst; destruct Hg as [Hg|[? Hg]]; discriminate].
    inversion He; subst st' en' ctl. clear He Hg.
    cbn [bstmt] in Hc. destruct (rvb cf [slot0] Ls U x) as [[[r U0] Ls0]|] eqn:Er; [|discriminate].
    destruct (bexpr cf [slot0] e U0 Ls0) as [[[ce U1] Ls1]|] eqn:Ec; [|discriminate]. inversion Hc; subst code Lb' U' Ls'. clear Hc.
    destruct (rvb_ok cf _ _ _ _ _ _ _ Er) as (HF0 & ext0 & -> & _).
    destruct (bexpr_ok cf e (expr3_expr2 _ Hf) _ _ _ _ _ _ Ec) as (HF1 & ext1 & -> & _).
    destruct HU as [ext ->].
    assert (HC0 : CTX K CL HL base [slot0] [] Ls0 cenv (((U ++ ext0) ++ ext1) ++ ext)%list uvec).
    { eapply CTX_mono; eauto; [exists []; now rewrite app_nil_r|apply (cx_len _ _ _ _ _ _ _ _ _ _ HC)]. }
    destruct (IHE e [] cenv st st1 v Ee Hf _ _ _ _ _ _ Ec (((U ++ ext0) ++ ext1) ++ ext)%list uvec K CL HL base) with (m := m) (fn := fn)
        (frs := mkFrame fn0 ups0 pc0 base0 :: frs') (G := G) (O := O) (pre := pre) (post := ([set_op r x; IPop] ++ post)%list)
      as (n1 & m1 & K1 & c1 & G1 & O1 & S1 & M1 & ST1 & KX1 & R1 & B1 & N1 & F1).
    { exists ext. reflexivity. }
    { exact HC0. }
    { rewrite Hcode. now rewrite <- !app_assoc. }
    { exact HM. }
    { exact HS. }
    split; [reflexivity|]. split; [reflexivity|].
    assert (Hfe : fetch (code_of funs fn) (code_size pre + code_size ce) = Some (set_op r x)).
    { eapply fetch_mid with (c2 := [IPop]) (post := post). exact Hcode. }
    assert (Hh1 : ~ In c1 HL) by (apply (notin_HL_fresh _ _ _ _ _ _ _ _ _ _ c1 HM); lia).
    unfold write_var in Ew. destruct (assoc cenv x) as [c|] eqn:Ea.
    + (* a captured variable (or, at script level, never here: enb = []) *)
      inversion Ew; subst st2. clear Ew.
      assert (Hw : where_is K CL HL base uvec r c).
      { eapply resolve_cell with (enb := []) (cenv := cenv) (Ufin := (((U ++ ext0) ++ ext1) ++ ext)%list); eauto.
        - apply (cx_lrb _ _ _ _ _ _ _ _ _ _ HC).
        - apply (cx_len _ _ _ _ _ _ _ _ _ _ HC).
        - apply (cx_cenv _ _ _ _ _ _ _ _ _ _ HC).
        - apply (cx_ur _ _ _ _ _ _ _ _ _ _ HC).
        - exists (ext1 ++ ext)%list. now rewrite <- !app_assoc. }
      assert (Hw1 : where_is K1 CL HL base uvec r c).
      { destruct KX1 as (e1 & -> & _). destruct Hw as [s0 c0 E1 E2 E3|k0 c0 E1 E2 E3]; constructor; auto;
          try (rewrite app_length; lia); unfold kc in *; rewrite app_nth1 by lia; assumption. }
      destruct (exec_set _ _ _ _ _ _ _ _ x _ _ _ _ _ _ Hw1 M1 Hfe) as (m2 & A2 & B2 & C2 & D2).
      assert (Hfe2 : fetch (code_of funs fn) (code_size pre + code_size ce + 2) = Some IPop).
      { replace (code_size pre + code_size ce + 2) with (code_size pre + code_size (ce ++ [set_op r x])).
        - eapply fetch_mid with (c2 := []) (post := post). rewrite Hcode. now rewrite <- !app_assoc.
        - rewrite code_size_app. destruct Hw1; cbn; lia. }
      destruct (step2_pop cf funs _ _ _ _ _ _ _ _ _ _ _ B2 Hfe2 Hh1) as (m3 & A3 & B3 & C3 & D3).
      assert (Hck : c < List.length K1) by (destruct Hw1; assumption).
      exists (n1 + 2), m3, K1, G1, O1.
      split. { apply (steps_trans cf funs n1 2 m m1 m3 S1). exists m2. split; [exact A2|now apply steps_one]. }
      split. { rewrite C3, D3, C2, D2. apply STO_write; auto. }
      split. { apply (KEXT_widen K K1 (cn m) (cn m1)); auto; lia. }
      split. { intros j Hj Hn. rewrite C3, C2. rewrite upd_other; [apply F1; auto|].
               intro E. apply Hn. assert (Hin0 : In (kc K1 c) K1) by (unfold kc; apply nth_In; lia).
               destruct (KEXT_in _ _ _ _ _ KX1 Hin0) as [Hin|Hge]; [rewrite E; exact Hin|exfalso; lia]. }
      split; [lia|].
      rewrite code_size_app. cbn [code_size]. replace (isize (set_op r x)) with 2 by (destruct Hw1; reflexivity). cbn [isize].
      replace (code_size pre + (code_size ce + (2 + (1 + 0)))) with (code_size pre + code_size ce + 2 + 1) by lia. exact B3.
    + (* a global *)
      destruct (assoc (s_globals st1) x) as [w|] eqn:Eg; [|discriminate]. inversion Ew; subst st2. clear Ew.
      pose proof (resolve_global _ _ _ _ _ _ _ [] cenv _ _ _ _ Er Ea (cx_lrb _ _ _ _ _ _ _ _ _ _ HC) (cx_cenv _ _ _ _ _ _ _ _ _ _ HC)) as ->.
      cbn [set_op] in *.
      destruct (GR2_assoc _ _ _ _ _ _ _ _ (sto_g _ _ _ _ _ _ _ _ _ ST1) Eg) as (w' & Eg' & _).
      destruct (step2_setglobal cf funs _ _ _ _ _ _ _ _ _ _ _ _ _ M1 Hfe Eg') as (m2 & A2 & B2 & C2 & D2).
      assert (Hfe2 : fetch (code_of funs fn) (code_size pre + code_size ce + 3) = Some IPop).
      { replace (code_size pre + code_size ce + 3) with (code_size pre + code_size (ce ++ [ISetGlobal x])).
        - eapply fetch_mid with (c2 := []) (post := post). rewrite Hcode. now rewrite <- !app_assoc.
        - rewrite code_size_app. cbn. lia. }
      destruct (step2_pop cf funs _ _ _ _ _ _ _ _ _ _ _ B2 Hfe2 Hh1) as (m3 & A3 & B3 & C3 & D3).
      exists (n1 + 2), m3, K1, (set_assoc G1 x (cv m1 c1)), O1.
      split. { apply (steps_trans cf funs n1 2 m m1 m3 S1). exists m2. split; [exact A2|now apply steps_one]. }
      split. { rewrite C3, D3, C2, D2. apply STO_global; auto. }
      split. { apply (KEXT_widen K K1 (cn m) (cn m1)); auto; lia. }
      split. { intros j Hj Hn. rewrite C3, C2. apply F1; auto. }
      split; [lia|].
      rewrite code_size_app. cbn [code_size isize].
      replace (code_size pre + (code_size ce + (3 + (1 + 0)))) with (code_size pre + code_size ce + 3 + 1) by lia. exact B3.
  - (* SPrint *)
    cbn [exec_stmt] in He. destruct (eval_expr fu e cenv st) as [st1 rr] eqn:Ee.
    destruct rr as [v| | |]; try (inversion He; subst; destruct Hg as [Hg|[? Hg]]; discriminate).
    inversion He; subst st' en' ctl. clear He Hg.
    cbn [bstmt] in Hc. destruct (bexpr cf [slot0] e U Ls) as [[[ce U1] Ls1]|] eqn:Ec; [|discriminate].
    inversion Hc; subst code Lb' U' Ls'. clear Hc.
    split; [reflexivity|]. split; [reflexivity|].
    assert (Hf0 : fetch (code_of funs fn) (code_size pre) = Some (IGetGlobal GPrint)) by (rewrite Hcode; apply fetch_app).
    destruct (step2_getprint cf funs _ _ _ _ _ _ _ _ _ _ HM Hf0) as (m0 & A0 & B0 & C0 & D0).
    destruct (sto_push _ _ _ _ _ _ _ _ HS C0 D0) as (S01 & S02 & S03).
    destruct (IHE e [] cenv st st1 v Ee Hf _ _ _ _ _ _ Ec Ufin uvec K (CL ++ [cn m])%list HL base HU) with (m := m0) (fn := fn)
        (frs := mkFrame fn0 ups0 pc0 base0 :: frs') (G := G) (O := O) (pre := (pre ++ [IGetGlobal GPrint])%list) (post := ([ICall 1; IPop] ++ post)%list)
      as (n1 & m1 & K1 & c1 & G1 & O1 & S1 & M1 & ST1 & KX1 & R1 & B1 & N1 & F1).
    { now apply CTX_app. }
    { rewrite Hcode. cbn. now rewrite <- !app_assoc. }
    { rewrite code_size_app. cbn [code_size isize]. replace (code_size pre + (3 + 0)) with (code_size pre + 3) by lia. exact B0. }
    { exact S01. }
    rewrite <- app_assoc in M1. cbn [app] in M1.
    assert (Hfe1 : fetch (code_of funs fn) (code_size (pre ++ [IGetGlobal GPrint]) + code_size ce) = Some (ICall 1)).
    { eapply fetch_mid with (c2 := [IPop]) (post := post). rewrite Hcode. cbn. now rewrite <- !app_assoc. }
    assert (Hcp : cv m1 (cn m) = MPrintFn).
    { rewrite F1; [rewrite C0; apply upd_same|lia|exact S02]. }
    assert (Hh1 : ~ In c1 HL) by (apply (notin_HL_fresh _ _ _ _ _ _ _ _ _ _ c1 HM); lia).
    assert (Hhp : ~ In (cn m) HL) by (apply (notin_HL_fresh _ _ _ _ _ _ _ _ _ _ (cn m) HM); lia).
    destruct (step2_callprint cf funs _ _ _ _ _ _ _ _ _ _ _ _ M1 Hfe1 Hcp Hh1) as (m2 & A2 & B2 & C2 & D2).
    assert (Hfe2 : fetch (code_of funs fn) (code_size (pre ++ [IGetGlobal GPrint]) + code_size ce + 2) = Some IPop).
    { replace (code_size (pre ++ [IGetGlobal GPrint]) + code_size ce + 2) with (code_size (pre ++ [IGetGlobal GPrint]) + code_size (ce ++ [ICall 1])).
      - eapply fetch_mid with (c2 := []) (post := post). rewrite Hcode. cbn. now rewrite <- !app_assoc.
      - rewrite !code_size_app. cbn. lia. }
    destruct (step2_pop cf funs _ _ _ _ _ _ _ _ _ _ _ B2 Hfe2 Hhp) as (m3 & A3 & B3 & C3 & D3).
    assert (HpK1 : ~ In (cn m) K1).
    { intro Hin. destruct (KEXT_in _ _ _ _ _ KX1 Hin) as [Hi|Hi]; [contradiction|lia]. }
    exists (1 + (n1 + 2)), m3, K1, G1, (show_mval (cv m1 c1) :: O1).
    split. { exists m0. split; [exact A0|]. apply (steps_trans cf funs n1 2 m0 m1 m3 S1). exists m2. split; [exact A2|now apply steps_one]. }
    split. { rewrite C3, D3, C2, D2.
             assert (ST1' : sto st1 K1 HL (upd (cv m1) (cn m) MNil) (cn m1) G1 O1) by (apply STO_temp with (cnx := cn m1); auto).
             destruct ST1' as [T1 T2 T3 T4 T5 T6]. constructor; cbn [s_cells s_globals s_out]; auto.
             rewrite (vrel2_show _ _ _ _ _ _ R1). now rewrite T6. }
    split. { apply (KEXT_widen K K1 (cn m0) (cn m1)); auto; lia. }
    split. { intros j Hj Hn. rewrite C3, C2. rewrite upd_other by lia. rewrite F1; [rewrite C0; apply upd_other; lia|lia|exact Hn]. }
    split; [lia|].
    replace (code_size pre + code_size (IGetGlobal GPrint :: ce ++ [ICall 1; IPop]))
      with (code_size (pre ++ [IGetGlobal GPrint]) + code_size ce + 2 + 1); [exact B3|].
    rewrite code_size_app. cbn [code_size isize]. rewrite code_size_app. cbn [code_size isize]. lia.
  - (* SExpr *)
    cbn [exec_stmt] in He. destruct (eval_expr fu e cenv st) as [st1 rr] eqn:Ee.
    destruct rr as [v| | |]; try (inversion He; subst; destruct Hg as [Hg|[? Hg]]; discriminate).
    inversion He; subst st' en' ctl. clear He Hg.
    cbn [bstmt] in Hc. destruct (bexpr cf [slot0] e U Ls) as [[[ce U1] Ls1]|] eqn:Ec; [|discriminate].
    inversion Hc; subst code Lb' U' Ls'. clear Hc.
    split; [reflexivity|]. split; [reflexivity|].
    destruct (IHE e [] cenv st st1 v Ee Hf _ _ _ _ _ _ Ec Ufin uvec K CL HL base HU HC) with (m := m) (fn := fn)
        (frs := mkFrame fn0 ups0 pc0 base0 :: frs') (G := G) (O := O) (pre := pre) (post := ([IPop] ++ post)%list)
      as (n1 & m1 & K1 & c1 & G1 & O1 & S1 & M1 & ST1 & KX1 & R1 & B1 & N1 & F1).
    { rewrite Hcode. now rewrite <- !app_assoc. }
    { exact HM. }
    { exact HS. }
    assert (Hfe : fetch (code_of funs fn) (code_size pre + code_size ce) = Some IPop).
    { eapply fetch_mid with (c2 := []) (post := post). exact Hcode. }
    assert (Hh1 : ~ In c1 HL) by (apply (notin_HL_fresh _ _ _ _ _ _ _ _ _ _ c1 HM); lia).
    destruct (step2_pop cf funs _ _ _ _ _ _ _ _ _ _ _ M1 Hfe Hh1) as (m2 & A2 & B2 & C2 & D2).
    exists (n1 + 1), m2, K1, G1, O1.
    split. { apply (steps_trans cf funs n1 1 m m1 m2 S1). now apply steps_one. }
    split. { rewrite C2, D2. exact ST1. }
    split. { apply (KEXT_widen K K1 (cn m) (cn m1)); auto; lia. }
    split. { intros j Hj Hn. rewrite C2. apply F1; auto. }
    split; [lia|].
    rewrite code_size_app. cbn [code_size isize]. replace (code_size pre + (code_size ce + (1 + 0))) with (code_size pre + code_size ce + 1) by lia. exact B2.
  - (* SReturn *)
    cbn [exec_stmt] in He. destruct (eval_expr fu e cenv st) as [st1 rr] eqn:Ee.
    destruct rr as [v| | |]; try (inversion He; subst; destruct Hg as [Hg|[? Hg]]; discriminate).
    inversion He; subst st' en' ctl. clear He Hg.
    cbn [bstmt] in Hc. destruct (bexpr cf [slot0] e U Ls) as [[[ce U1] Ls1]|] eqn:Ec; [|discriminate].
    inversion Hc; subst code Lb' U' Ls'. clear Hc.
    split; [reflexivity|]. split; [reflexivity|].
    destruct (IHE e [] cenv st st1 v Ee Hf _ _ _ _ _ _ Ec Ufin uvec K CL HL base HU HC) with (m := m) (fn := fn)
        (frs := mkFrame fn0 ups0 pc0 base0 :: frs') (G := G) (O := O) (pre := pre) (post := ([IReturn] ++ post)%list)
      as (n1 & m1 & K1 & c1 & G1 & O1 & S1 & M1 & ST1 & KX1 & R1 & B1 & N1 & F1).
    { rewrite Hcode. now rewrite <- !app_assoc. }
    { exact HM. }
    { exact HS. }
    assert (Hfe : fetch (code_of funs fn) (code_size pre + code_size ce) = Some IReturn).
    { eapply fetch_mid with (c2 := []) (post := post). exact Hcode. }
    assert (Hh1 : ~ In c1 HL) by (apply (notin_HL_fresh _ _ _ _ _ _ _ _ _ _ c1 HM); lia).
    destruct (step2_return cf funs _ _ _ _ _ _ _ _ _ _ _ _ _ _ _ M1 Hfe ltac:(lia) Hh1) as (m2 & A2 & B2 & C2 & D2).
    destruct (sto_push _ _ _ _ _ _ _ _ ST1 C2 D2) as (S21 & S22 & S23).
    exists (n1 + 1), m2, K1, G1, O1.
    split. { apply (steps_trans cf funs n1 1 m m1 m2 S1). now apply steps_one. }
    split; [exact S21|].
    split. { apply (KEXT_widen K K1 (cn m) (cn m1)); auto; lia. }
    split. { intros j Hj Hn. rewrite C2, upd_other by lia. apply F1; auto. }
    split; [lia|].
    exists (cn m1). split; [exact B2|]. split; [rewrite C2, upd_same; exact R1|]. split; [lia|exact S22].
Qed.


Lemma BL_step : forall fu, BS_goal fu -> BL_goal fu -> BL_goal (S fu).
Proof.
  intros fu IHS IHL ss cenv st st' en' ctl He Hg Hf d U Ls code Lb' U' Ls' Hc Ufin uvec K CL HL base HU HC HlenCL
         m fn fn0 ups0 pc0 base0 frs' G O pre post Hcode HM HS.
  destruct ss as [|s r].
  - cbn in He, Hc. inversion He; inversion Hc; subst. exists 0, m, K, G, O.
    split; [reflexivity|]. split; [exact HS|]. split; [apply KEXT_refl|]. split; [apply FRAMEC_refl|]. split; [lia|].
    cbn [code_size]. rewrite Nat.add_0_r. exact HM.
  - cbn in Hf. apply andb_prop in Hf as [Hf1 Hf2]. cbn [exec_list] in He. cbn [blist] in Hc.
    destruct (bstmt cf s [slot0] d U Ls) as [[[[ca Lb1] U1] Ls1]|] eqn:C1; [|discriminate].
    destruct (blist cf r Lb1 d U1 Ls1) as [[[[cr Lb2] U2] Ls2]|] eqn:C2; [|discriminate]. inversion Hc; subst code Lb' U' Ls'. clear Hc.
    destruct (bstmt_ok cf s (bstmt3_bstmt2 _ Hf1) _ _ _ _ _ _ _ _ C1) as (HF1 & ext1 & -> & _).
    destruct (exec_stmt fu s cenv false st) as [[st1 en1] c1] eqn:E1.
    assert (Hg1 : good c1).
    { destruct c1; try (left; reflexivity); try (right; eexists; reflexivity); inversion He; subst; exact Hg. }
    destruct HU as [ext ->].
    assert (HU1 : exists e0, (U2 ++ ext)%list = ((U ++ ext1) ++ e0)%list).
    { destruct (blist_ok cf r (forallb_bstmt3_bstmt2 _ Hf2) _ _ _ _ _ _ _ _ C2) as (_ & ext2 & -> & _). exists (ext2 ++ ext)%list. now rewrite <- !app_assoc. }
    destruct (IHS _ _ _ _ _ _ E1 Hg1 Hf1 _ _ _ _ _ _ _ C1 (U2 ++ ext)%list uvec K CL HL base HU1 HC HlenCL m fn fn0 ups0 pc0 base0 frs' G O pre (cr ++ post)%list)
      as (-> & -> & n1 & m1 & K1 & G1 & O1 & S1 & ST1 & KX1 & F1 & Hcn1 & Hres1).
    { rewrite Hcode. now rewrite <- !app_assoc. }
    { exact HM. }
    { exact HS. }
    destruct c1 as [| | |w| | |]; try contradiction.
    + (* normal: continue with the rest *)
      assert (HC1 : CTX K1 CL HL base [slot0] [] Ls1 cenv (U2 ++ ext)%list uvec).
      { eapply CTX_mono; eauto; [eapply KEXT_ext; eauto|apply (cx_len _ _ _ _ _ _ _ _ _ _ HC)]. }
      destruct (IHL _ _ _ _ _ _ He Hg Hf2 _ _ _ _ _ _ _ C2 (U2 ++ ext)%list uvec K1 CL HL base ltac:(eauto) HC1 HlenCL m1 fn fn0 ups0 pc0 base0 frs' G1 O1 (pre ++ ca)%list post)
        as (n2 & m2 & K2 & G2 & O2 & S2 & ST2 & KX2 & F2 & Hcn2 & Hres2).
      { rewrite Hcode. now rewrite <- !app_assoc. }
      { rewrite code_size_app. exact Hres1. }
      { exact ST1. }
      exists (n1 + n2), m2, K2, G2, O2.
      split; [eapply steps_trans; eauto|]. split; [exact ST2|].
      split. { apply (KEXT_trans K K1 K2 (cn m) (cn m1) (cn m2)); auto. }
      split. { eapply FRAMEC_trans with (m2 := m1) (K2 := K1); eauto. intros j Hin. eapply KEXT_in; eauto. }
      split; [lia|].
      destruct ctl; try contradiction.
      * rewrite !code_size_app in *. rewrite Nat.add_assoc. exact Hres2.
      * destruct Hres2 as (cres & Q1 & Q2 & Q3 & Q4). exists cres. split; [exact Q1|]. split; [exact Q2|]. split; [lia|exact Q4].
    + (* return: the rest is skipped *)
      inversion He; subst st' en' ctl.
      exists n1, m1, K1, G1, O1. split; [exact S1|]. split; [exact ST1|]. split; [exact KX1|]. split; [exact F1|]. split; [lia|exact Hres1].
Qed.

(* ------------------------------------------------------------------------------------------ *)
(* script level *)

Lemma STO_ext : forall st K HL f g cnx G O, (forall j, g j = f j) -> sto st K HL f cnx G O -> sto st K HL g cnx G O.
Proof. intros st K HL f g cnx G O E [H1 H2 H3 H4 H5 H6]. constructor; auto. intros c Hc. rewrite E. auto. Qed.

Lemma rev_cons_nth_last : forall A (l : A) Lt, nth_error (rev (l :: Lt)) (List.length Lt) = Some l.
Proof. intros. cbn [rev]. rewrite nth_error_app2 by (rewrite rev_length; lia). now rewrite rev_length, Nat.sub_diag. Qed.

Lemma rev_cons_nth_old : forall A (l : A) Lt s, s < List.length Lt -> nth_error (rev (l :: Lt)) s = nth_error (rev Lt) s.
Proof. intros. cbn [rev]. apply nth_error_app1. now rewrite rev_length. Qed.

(* the handle list grows: fine as long as a newly captured local cell has its flag set *)
Lemma LRB_rehl : forall K CL HL HL' base L en, LRB K CL HL base L en ->
  (forall s l, nth_error (rev L) s = Some l -> In (nth (base + s) CL 0) HL' -> In (nth (base + s) CL 0) HL \/ l_capt l = true) ->
  LRB K CL HL' base L en.
Proof.
  intros K CL HL HL' base L en H. induction H as [b0|L en y c0 d b H IH Hc Hn Hf]; intros HH; constructor; auto.
  - apply IH. intros s l Hs Hin. pose proof (ENV_len _ _ (LRB_ENV _ _ _ _ _ _ H)) as Hl.
    assert (s < List.length L) by (apply nth_error_Some in Hs || idtac; rewrite <- rev_length; apply nth_error_Some; congruence).
    apply HH; auto. now rewrite rev_cons_nth_old.
  - intros Hin. rewrite <- Hn in Hin. destruct (HH (List.length L) _ (rev_cons_nth_last _ _ _) Hin) as [Hold|Hb]; [|exact Hb].
    rewrite Hn in Hold. auto.
Qed.

Lemma LRB_entry : forall K CL HL base L en s x c, LRB K CL HL base L en -> entry_at en s = Some (x, c) -> 1 <= s ->
  nth (base + s) CL 0 = kc K c /\ c < List.length K.
Proof.
  intros K CL HL base L en s x c H. induction H as [b0|L en y c0 d b H IH Hc Hn Hf]; intros He Hs.
  - unfold entry_at in He. cbn in He. destruct (s - 1); discriminate.
  - pose proof (ENV_len _ _ (LRB_ENV _ _ _ _ _ _ H)) as Hl.
    destruct (Nat.eq_dec s (List.length L)) as [->|Hne].
    + rewrite Hl in He. rewrite entry_at_cons_new in He. inversion He; subst. auto.
    + assert (Hb : s <= List.length en).
      { unfold entry_at in He. assert (s - 1 < List.length (rev ((y, c0) :: en))) by (apply nth_error_Some; congruence).
        rewrite rev_length in H0. cbn in H0. lia. }
      rewrite entry_at_cons_old in He by lia. auto.
Qed.

(* dropping the newest locals *)
Lemma LRB_drop : forall K CL HL base N L Ne en, LRB K CL HL base (N ++ L)%list (Ne ++ en)%list ->
  List.length N = List.length Ne -> L <> [] -> LRB K CL HL base L en.
Proof.
  intros K CL HL base N. induction N as [|l N IH]; intros L Ne en H Hlen Hne.
  - destruct Ne; [exact H|discriminate].
  - destruct Ne as [|e Ne]; [discriminate|]. cbn in H. inversion H; subst.
    eapply IH; eauto.
Qed.

Lemma ENV_slot0 : forall L en l, ENV L en -> nth_error (rev L) 0 = Some l -> l_name l = None.
Proof.
  intros L en l H. induction H as [b0|L en y c0 d b H IH]; intros E.
  - cbn in E. inversion E; reflexivity.
  - pose proof (ENV_len _ _ H) as Hl. rewrite rev_cons_nth_old in E by lia. auto.
Qed.

Lemma entry_at_some : forall en s, 1 <= s <= List.length en -> exists x c, entry_at en s = Some (x, c).
Proof.
  intros en s H. unfold entry_at. destruct (nth_error (rev en) (s - 1)) as [[x c]|] eqn:E; [eauto|].
  apply nth_error_None in E. rewrite rev_length in E. lia.
Qed.

Lemma nth_map_error : forall A B (f : A -> B) l k a d, nth_error l k = Some a -> nth k (map f l) d = f a.
Proof. induction l as [|x r IH]; intros [|k] a d H; cbn in *; try discriminate; [now inversion H|eauto]. Qed.

Lemma mk_closure : forall K CL HL L en b cb U L' ix st m fn pc G O,
  LRB K CL HL 0 L en -> List.length CL = List.length L ->
  forallb bstmt3 b = true -> cbody cf [] b L = Some (cb, U, L') ->
  nth_error funs ix = Some (mkFunc cb 0 (List.length U)) ->
  MS2 m fn [] pc 0 [] CL HL G O -> fetch (code_of funs fn) pc = Some (clo_instr ix U) ->
  sto st K HL (cv m) (cn m) G O ->
  exists m' HL' Uv, mstep cf funs m = MRun m' /\
    MS2 m' fn [] (pc + 3 + 2 * List.length U) 0 [] (CL ++ [cn m])%list HL' G O /\
    cv m' (cn m) = MClo ix Uv /\ (forall j, j <> cn m -> cv m' j = cv m j) /\ cn m' = S (cn m) /\
    (exists e, HL' = (HL ++ e)%list) /\ ~ In (cn m) HL' /\
    vrel K HL' (SVClo [] b en) (MClo ix Uv) /\ LRB K CL HL' 0 L' en /\ sto st K HL' (cv m') (cn m') G O.
Proof.
  intros K CL HL L en b cb U L' ix st m fn pc G O HLR Hlen Hb Hcb Hfn HM Hf HS.
  destruct (cbody_ok cf [] b L cb U L' (forallb_bstmt3_bstmt2 _ Hb) Hcb) as [HF HU].
  pose proof (cbody_named cf [] b L cb U L' Hb Hcb) as HN.
  pose proof (flags_up_length _ _ HF) as HlenL.
  pose proof (ENV_len _ _ (LRB_ENV _ _ _ _ _ _ HLR)) as HlenE.
  set (descs := map (fun u : nat * bool => (snd u, fst u)) U).
  assert (Hdesc : Forall (fun d : bool * nat => fst d = true /\ 0 + snd d < List.length CL) descs).
  { unfold descs. apply Forall_forall. intros d Hin. apply in_map_iff in Hin as (u & <- & Hin). cbn.
    pose proof (proj1 (Forall_forall _ _) HU u Hin) as (E1 & _).
    pose proof (proj1 (Forall_forall _ _) (ups_ok_slot_lt _ _ HU) u Hin) as E2. cbn in E2. split; [exact E1|lia]. }
  destruct (capture_cells HL (map (fun d : bool * nat => nth (0 + snd d) CL 0) descs)) as [HL' Uv] eqn:Ecc.
  pose proof (m2_s _ _ _ _ _ _ _ _ _ _ HM) as SK.
  destruct (capture_cells_spec _ _ _ _ (s2_hl_nd _ _ _ SK) Ecc) as (Hnd' & Hext & HlenU & Hidx & Hin').
  unfold clo_instr in Hf. fold descs in Hf.
  destruct (step2_closure cf funs _ _ _ _ _ _ _ _ _ _ _ _ _ _ HM Hf Hdesc Ecc) as (m' & A & B & _ & C & D).
  assert (HdescLen : List.length descs = List.length U) by (unfold descs; now rewrite map_length).
  assert (Hcs : forall k slot b0, nth_error U k = Some (slot, b0) ->
            b0 = true /\ 1 <= slot <= List.length en /\ nth k (map (fun d : bool * nat => nth (0 + snd d) CL 0) descs) 0 = nth slot CL 0 /\
            k < List.length U /\ exists l, nth_error (rev L') slot = Some l /\ l_capt l = true).
  { intros k slot b0 Hk. assert (Hin : In (slot, b0) U) by (eapply nth_error_In; eauto).
    pose proof (proj1 (Forall_forall _ _) HU _ Hin) as (E1 & l & E2 & E3 & _). cbn in E1, E2.
    pose proof (proj1 (Forall_forall _ _) HN _ Hin) as (l2 & E4 & E5). cbn in E4. rewrite E2 in E4. inversion E4; subst l2.
    assert (Hk' : k < List.length U) by (apply nth_error_Some; congruence).
    assert (Hs0 : slot <> 0).
    { intro; subst slot. destruct (flags_up_rev_name _ _ 0 l (flags_up_refl L')) as (l3 & E6 & E7); [exact E2|].
      (* names of L' = names of L *)
      assert (HR : exists l0, nth_error (rev L) 0 = Some l0 /\ l_name l0 = l_name l).
      { assert (HF' : flags_up L' L' ) by apply flags_up_refl.
        assert (Hlen0 : 0 < List.length (rev L)) by (rewrite rev_length; lia).
        destruct (nth_error (rev L) 0) as [l0|] eqn:E0; [|apply nth_error_None in E0; lia].
        destruct (flags_up_rev_name _ _ 0 l0 HF E0) as (l4 & E8 & E9). rewrite E2 in E8. inversion E8; subst. eauto. }
      destruct HR as (l0 & E0 & E0'). pose proof (ENV_slot0 _ _ _ (LRB_ENV _ _ _ _ _ _ HLR) E0). congruence. }
    assert (Hsl : slot < List.length L') by (apply nth_error_Some in E2 || idtac; rewrite <- rev_length; apply nth_error_Some; congruence).
    split; [exact E1|]. split; [lia|]. split.
    - erewrite nth_map_error; [|unfold descs; apply map_nth_error; exact Hk]. reflexivity.
    - split; [exact Hk'|eauto]. }
  assert (HnotinHL : ~ In (cn m) HL').
  { intro Hin. destruct (Hin' _ Hin) as [H1|H1].
    - pose proof (s2_hl_lt _ _ _ SK _ H1). unfold cn in *. lia.
    - apply in_map_iff in H1 as (d & E & Hd). pose proof (proj1 (Forall_forall _ _) Hdesc _ Hd) as (_ & Hlt).
      assert (In (nth (0 + snd d) CL 0) CL) by (apply nth_In; lia). rewrite E in H. pose proof (s2_cl_lt _ _ _ SK _ H). unfold cn in *. lia. }
  exists m', HL', Uv. split; [exact A|]. split; [rewrite <- HdescLen; exact B|].
  split; [rewrite C; apply upd_same|]. split; [intros j Hj; rewrite C; now apply upd_other|]. split; [exact D|].
  split; [exact Hext|]. split; [exact HnotinHL|].
  assert (HLR' : LRB K CL HL' 0 L' en).
  { apply LRB_rehl with (HL := HL); [eapply LRB_flags; eauto|].
    intros s l Hs Hin. destruct (Hin' _ Hin) as [H1|H1]; [now left|right].
    apply In_nth with (d := 0) in H1 as (k & Hk & Ek). rewrite map_length, HdescLen in Hk.
    destruct (nth_error U k) as [[slot b0]|] eqn:EU; [|apply nth_error_None in EU; lia].
    destruct (Hcs _ _ _ EU) as (_ & Hsl & Ecell & _ & l' & El & Ecapt). rewrite Ecell in Ek. cbn [Nat.add] in Ek.
    assert (Hs' : s < List.length CL) by (rewrite Hlen, <- HlenL, <- rev_length; apply nth_error_Some; congruence).
    assert (slot = s). { eapply NoDup_nth with (l := CL) (d := 0); eauto; [apply (s2_cl_nd _ _ _ SK)|lia]. }
    subst slot. rewrite Hs in El. inversion El; subst. exact Ecapt. }
  split.
  { apply (V2_clo cf funs K HL' [] b en ix Uv L cb U L'); [exact Hb|exact Hcb|exact (LRB_ENV _ _ _ _ _ _ HLR)|exact Hfn| | |].
    - rewrite <- HdescLen, <- (map_length (fun d : bool * nat => nth (0 + snd d) CL 0) descs). exact HlenU.
    - intros k slot b0 Hk. destruct (Hcs _ _ _ Hk) as (E1 & Hsl & Ecell & Hk' & _). split; [exact E1|].
      destruct (entry_at_some en slot Hsl) as (x & c & Ee). exists x, c. split; [exact Ee|].
      destruct (LRB_entry _ _ _ _ _ _ _ _ _ HLR Ee ltac:(lia)) as (E2 & E3). split; [exact E3|].
      destruct (Hidx k ltac:(rewrite map_length, HdescLen; exact Hk')) as (E4 & E5). split; [exact E5|].
      rewrite E4, Ecell. exact E2.
    - intros x c Hin. eapply LRB_cells; eauto. }
  split; [exact HLR'|].
  apply STO_ext with (f := upd (cv m) (cn m) (MClo ix Uv)); [exact C|].
  rewrite D. apply STO_temp with (cnx := cn m); [apply STO_HL with (HL := HL); auto| |lia].
  intro Hin. pose proof (sto_K_lt _ _ _ _ _ _ _ HS Hin). lia.
Qed.

Lemma scope_end_nil : forall L0 d, depth_le d L0 -> L0 <> [] -> scope_end_ops L0 d = [].
Proof.
  intros [|l0 L0] d HL Hne; [congruence|]. cbn [scope_end_ops]. inversion HL as [|? ? Hd _]; subst.
  destruct (l_depth l0) as [d'|]; [|reflexivity]. destruct (d <? d') eqn:E; [apply Nat.ltb_lt in E; lia|reflexivity].
Qed.

Lemma LRB_cons_inv : forall K CL HL base l L x c en, LRB K CL HL base (l :: L) ((x, c) :: en) ->
  exists d b, l = mkLocal (Some x) (Some d) b /\ LRB K CL HL base L en /\ c < List.length K /\
              nth (base + List.length L) CL 0 = kc K c /\ (In (kc K c) HL -> b = true).
Proof. intros K CL HL base l L x c en H. inversion H; subst. eauto 10. Qed.

Lemma scope_end_run : forall N K CL HL L0 Ne en d m fn pre post G O,
  LRB K CL HL 0 (N ++ L0)%list (Ne ++ en)%list -> List.length N = List.length Ne -> List.length CL = List.length (N ++ L0)%list ->
  Forall (fun l => l_depth l = Some (S d)) N -> depth_le d L0 -> L0 <> [] ->
  code_of funs fn = (pre ++ scope_end_ops (N ++ L0) d ++ post)%list ->
  MS2 m fn [] (code_size pre) 0 [] CL HL G O ->
  exists m', steps cf funs (List.length N) m m' /\
    MS2 m' fn [] (code_size pre + code_size (scope_end_ops (N ++ L0) d)) 0 [] (firstn (List.length L0) CL) HL G O /\
    cv m' = cv m /\ cn m' = cn m.
Proof.
  induction N as [|l N IH]; intros K CL HL L0 Ne en d m fn pre post G O HLR HNe Hlen HN Hd Hne Hcode HM.
  - cbn [app] in *. rewrite (scope_end_nil _ _ Hd Hne). exists m. split; [reflexivity|]. cbn [code_size]. rewrite Nat.add_0_r.
    rewrite <- Hlen, firstn_all. auto.
  - destruct Ne as [|[x c1] Ne]; [discriminate|]. cbn [app] in HLR, Hlen.
    destruct (LRB_cons_inv _ _ _ _ _ _ _ _ _ HLR) as (dd & b & -> & HLRt & Hck & Hnth & Hflag).
    inversion HN as [|? ? Hdl HN']; subst. cbn [l_depth] in Hdl. inversion Hdl; subst dd.
    cbn [app scope_end_ops l_depth l_capt] in *.
    destruct (d <? S d) eqn:Eltb; [|apply Nat.ltb_ge in Eltb; lia].
    assert (Hcl : CL <> []) by (intro; subst; discriminate).
    destruct (exists_last Hcl) as (CL0 & c & ->). rewrite app_length in Hlen. cbn in Hlen.
    assert (HlenCL0 : List.length CL0 = List.length (N ++ L0)) by lia.
    cbn [Nat.add] in Hnth. rewrite <- HlenCL0 in Hnth. rewrite nth_middle in Hnth. subst c.
    set (op := if b then ICloseUpvalue else IPop) in *.
    assert (Hfe : fetch (code_of funs fn) (code_size pre) = Some op) by (rewrite Hcode; apply fetch_app).
    assert (Hstep : exists m1, mstep cf funs m = MRun m1 /\ MS2 m1 fn [] (code_size pre + 1) 0 [] CL0 HL G O /\ cv m1 = cv m /\ cn m1 = cn m).
    { destruct b; unfold op in Hfe.
      - destruct (step2_closeup cf funs _ _ _ _ _ _ _ _ _ _ _ HM Hfe) as (m1 & A & B & C & D). eauto.
      - assert (Hn : ~ In (kc K c1) HL) by (intro Hin; specialize (Hflag Hin); discriminate).
        destruct (step2_pop cf funs _ _ _ _ _ _ _ _ _ _ _ HM Hfe Hn) as (m1 & A & B & C & D). eauto. }
    destruct Hstep as (m1 & A1 & B1 & C1 & D1).
    assert (HLR0 : LRB K CL0 HL 0 (N ++ L0)%list (Ne ++ en)%list).
    { eapply LRB_mono; eauto; [exists []; now rewrite app_nil_r|].
      intros i Hi. cbn [Nat.add] in Hi. rewrite app_nth1 by lia. reflexivity. }
    destruct (IH K CL0 HL L0 Ne en d m1 fn (pre ++ [op])%list post G O HLR0 ltac:(cbn in HNe; lia) HlenCL0 HN' Hd Hne) as (m2 & S2 & M2 & C2 & D2).
    { rewrite Hcode. now rewrite <- app_assoc. }
    { rewrite code_size_app. cbn [code_size]. replace (isize op) with 1 by (unfold op; destruct b; reflexivity).
      replace (code_size pre + (1 + 0)) with (code_size pre + 1) by lia. exact B1. }
    exists m2. split; [exists m1; split; [exact A1|exact S2]|].
    split.
    { rewrite code_size_app in M2. cbn [code_size] in M2 |- *. replace (isize op) with 1 in * by (unfold op; destruct b; reflexivity).
      rewrite firstn_app. replace (List.length L0 - List.length CL0) with 0 by (rewrite HlenCL0, app_length; lia).
      cbn [firstn]. rewrite app_nil_r.
      replace (code_size pre + (1 + code_size (scope_end_ops (N ++ L0) d))) with (code_size pre + (1 + 0) + code_size (scope_end_ops (N ++ L0) d)) by lia.
      exact M2. }
    split; congruence.
Qed.

Lemma stmt3_stmt2 : forall s, stmt3 s = true -> stmt2 s = true.
Proof.
  fix IH 1. intros s H. destruct s; cbn in H |- *; try discriminate; try (now apply expr3_expr2).
  - revert H. induction b as [|a r IHr]; cbn; intros H; [reflexivity|]. apply andb_prop in H as [H1 H2]. now rewrite (IH a H1), IHr.
  - destruct ps; [|discriminate]. apply andb_prop in H as [H1 H2]. now rewrite (forallb_bstmt3_bstmt2 _ H1), H2.
Qed.

Lemma forallb_stmt3_stmt2 : forall b, forallb stmt3 b = true -> forallb stmt2 b = true.
Proof. induction b as [|a r IH]; cbn; intros H; [reflexivity|]. apply andb_prop in H as [H1 H2]. now rewrite (stmt3_stmt2 _ H1), IH. Qed.

Definition EXT2 (d : nat) (L : list local) (en : env) (L' : list local) (en' : env) : Prop :=
  exists N Ne L0, L' = (N ++ L0)%list /\ flags_up L L0 /\ en' = (Ne ++ en)%list /\ List.length N = List.length Ne /\
                  Forall (fun l => l_depth l = Some d) N.

Lemma EXT2_flags : forall d L en L0, flags_up L L0 -> EXT2 d L en L0 en.
Proof. intros d L en L0 H. exists [], [], L0. repeat split; auto. Qed.

Lemma flags_up_depths : forall N N' d, flags_up N N' -> Forall (fun l => l_depth l = Some d) N -> Forall (fun l => l_depth l = Some d) N'.
Proof.
  intros N N' d H. induction H as [|a b r r' (E1 & E2 & E3) H IH]; intros HF; [constructor|].
  inversion HF; subst. constructor; [congruence|auto].
Qed.

Lemma EXT2_trans : forall d L en L1 en1 L2 en2, EXT2 d L en L1 en1 -> EXT2 d L1 en1 L2 en2 -> EXT2 d L en L2 en2.
Proof.
  intros d L en L1 en1 L2 en2 (N1 & Ne1 & L01 & -> & F1 & -> & H1 & D1) (N2 & Ne2 & L02 & -> & F2 & -> & H2 & D2).
  destruct (flags_up_app_inv _ _ _ F2) as (N1' & L01' & -> & FN & FL).
  exists (N2 ++ N1')%list, (Ne2 ++ Ne1)%list, L01'. rewrite !app_assoc. repeat split; auto.
  - eapply flags_up_trans; eauto.
  - rewrite !app_length. rewrite (flags_up_length _ _ FN). lia.
  - apply Forall_app. split; [exact D2|]. eapply flags_up_depths; eauto.
Qed.

Definition SS_goal (fuel : nat) : Prop := forall s en top st st' en',
  exec_stmt fuel s en top st = (st', en', CNorm) -> stmt3 s = true ->
  forall L d fs code L' fs', cstmt2 cf s L d fs = Some (code, L', fs') -> top = (d =? 0) -> depth_le d L ->
  (exists ext, funs = (fs' ++ ext)%list) ->
  forall K CL HL, LRB K CL HL 0 L en -> List.length CL = List.length L ->
  forall m fn G O pre post, code_of funs fn = (pre ++ code ++ post)%list ->
  MS2 m fn [] (code_size pre) 0 [] CL HL G O -> sto st K HL (cv m) (cn m) G O ->
  exists n m' K' CL' HL' G' O', steps cf funs n m m' /\
    MS2 m' fn [] (code_size pre + code_size code) 0 [] CL' HL' G' O' /\
    sto st' K' HL' (cv m') (cn m') G' O' /\ LRB K' CL' HL' 0 L' en' /\ List.length CL' = List.length L' /\
    cn m <= cn m' /\ EXT2 d L en L' en'.

Definition SL_goal (fuel : nat) : Prop := forall ss en top st st' en',
  exec_list fuel ss en top st = (st', en', CNorm) -> forallb stmt3 ss = true ->
  forall L d fs code L' fs', clist2 cf ss L d fs = Some (code, L', fs') -> top = (d =? 0) -> depth_le d L ->
  (exists ext, funs = (fs' ++ ext)%list) ->
  forall K CL HL, LRB K CL HL 0 L en -> List.length CL = List.length L ->
  forall m fn G O pre post, code_of funs fn = (pre ++ code ++ post)%list ->
  MS2 m fn [] (code_size pre) 0 [] CL HL G O -> sto st K HL (cv m) (cn m) G O ->
  exists n m' K' CL' HL' G' O', steps cf funs n m m' /\
    MS2 m' fn [] (code_size pre + code_size code) 0 [] CL' HL' G' O' /\
    sto st' K' HL' (cv m') (cn m') G' O' /\ LRB K' CL' HL' 0 L' en' /\ List.length CL' = List.length L' /\
    cn m <= cn m' /\ EXT2 d L en L' en'.

Lemma EXT2_depth_le : forall d L en L' en', depth_le d L -> EXT2 d L en L' en' -> depth_le d L'.
Proof.
  intros d L en L' en' H (N & Ne & L0 & -> & F & _ & _ & D). apply Forall_app. split.
  - revert D. apply Forall_impl. intros l E. now rewrite E.
  - eapply flags_up_depth_le; eauto.
Qed.

Lemma SL_step : forall fu, SS_goal fu -> SL_goal fu -> SL_goal (S fu).
Proof.
  intros fu HS HL ss en top st st' en' He Hf L d fs code L' fs' Hc Ht Hd Hfuns K CL HL0 HLR Hlen m fn G O pre post Hcode HM HST.
  destruct ss as [|s r].
  - cbn in He, Hc. inversion He; inversion Hc; subst. exists 0, m, K, CL, HL0, G, O. cbn [code_size]. rewrite Nat.add_0_r.
    split; [reflexivity|]. split; [exact HM|]. split; [exact HST|]. split; [exact HLR|]. split; [exact Hlen|]. split; [lia|].
    apply EXT2_flags, flags_up_refl.
  - cbn in Hf. apply andb_prop in Hf as [Hf1 Hf2]. cbn [exec_list] in He. cbn [clist2] in Hc.
    destruct (exec_stmt fu s en top st) as [[st1 en1] c1] eqn:E1. destruct c1; try (inversion He; fail).
    destruct (cstmt2 cf s L d fs) as [[[ca L1] fs1]|] eqn:C1; [|discriminate].
    destruct (clist2 cf r L1 d fs1) as [[[cr L2] fs2]|] eqn:C2; [|discriminate]. inversion Hc; subst code L' fs'. clear Hc.
    assert (Hfuns1 : exists ext, funs = (fs1 ++ ext)%list).
    { destruct Hfuns as [ext ->]. destruct (clist2_funs_grow cf r (forallb_stmt3_stmt2 _ Hf2) _ _ _ _ _ _ C2) as [e2 ->]. exists (e2 ++ ext)%list. now rewrite <- app_assoc. }
    destruct (HS _ _ _ _ _ _ E1 Hf1 _ _ _ _ _ _ C1 Ht Hd Hfuns1 _ _ _ HLR Hlen m fn G O pre (cr ++ post)%list)
      as (n1 & m1 & K1 & CL1 & HL1 & G1 & O1 & S1 & M1 & ST1 & LR1 & Len1 & Hcn1 & X1).
    { rewrite Hcode. now rewrite <- app_assoc. }
    { exact HM. }
    { exact HST. }
    destruct (HL _ _ _ _ _ _ He Hf2 _ _ _ _ _ _ C2 Ht (EXT2_depth_le _ _ _ _ _ Hd X1) Hfuns _ _ _ LR1 Len1 m1 fn G1 O1 (pre ++ ca)%list post)
      as (n2 & m2 & K2 & CL2 & HL2 & G2 & O2 & S2 & M2 & ST2 & LR2 & Len2 & Hcn2 & X2).
    { rewrite Hcode. now rewrite <- !app_assoc. }
    { rewrite code_size_app. exact M1. }
    { exact ST1. }
    exists (n1 + n2), m2, K2, CL2, HL2, G2, O2. split; [eapply steps_trans; eauto|].
    split. { rewrite !code_size_app in *. rewrite Nat.add_assoc. exact M2. }
    split; [exact ST2|]. split; [exact LR2|]. split; [exact Len2|]. split; [lia|]. eapply EXT2_trans; eauto.
Qed.

Lemma CTX_script : forall K CL HL L en, LRB K CL HL 0 L en -> List.length L <= List.length CL -> CTX K CL HL 0 L en [] [] [] [].
Proof.
  intros K CL HL L en H Hl. constructor; auto.
  - now left.
  - intros k slot b Hk. destruct k; discriminate.
  - intros x c [].
Qed.

Lemma E_script : forall fu, E_goal fu -> forall e en st st' v,
  eval_expr fu e en st = (st', ROk v) -> expr3 e = true ->
  forall L ce, cexpr2 L e = Some ce ->
  forall K CL HL, LRB K CL HL 0 L en -> List.length L <= List.length CL ->
  forall m fn G O pre post, code_of funs fn = (pre ++ ce ++ post)%list ->
  MS2 m fn [] (code_size pre) 0 [] CL HL G O -> sto st K HL (cv m) (cn m) G O ->
  exists n m' K' cnew G' O', steps cf funs n m m' /\
    MS2 m' fn [] (code_size pre + code_size ce) 0 [] (CL ++ [cnew])%list HL G' O' /\
    sto st' K' HL (cv m') (cn m') G' O' /\ KEXT K K' (cn m) (cn m') /\ vrel K' HL v (cv m' cnew) /\
    cn m <= cnew < cn m' /\ ~ In cnew K' /\ FRAMEC m m' K.
Proof.
  intros fu IHE e en st st' v He Hf L ce Hc K CL HL HLR Hlen m fn G O pre post Hcode HM HS.
  rewrite <- (app_nil_r en) in He.
  assert (Hb : bexpr cf L e [] [] = Some (ce, [], [])) by (rewrite (bexpr_script cf e Hf), Hc; reflexivity).
  eapply (IHE e en [] st st' v He Hf L [] [] ce [] [] Hb [] [] K CL HL 0); eauto.
  - exists []. reflexivity.
  - now apply CTX_script.
Qed.

Lemma LRB_K_mono : forall K CL HL L en K' t, LRB K CL HL 0 L en -> (exists e, K' = (K ++ e)%list) ->
  List.length L <= List.length CL -> LRB K' (CL ++ t) HL 0 L en.
Proof.
  intros K CL HL L en K' t H HK Hl. eapply LRB_mono; eauto.
  - intros i Hi. apply app_nth1. cbn in Hi. lia.
Qed.

Lemma case2_decl : forall fu, E_goal fu -> forall x e en top st st' en',
  exec_stmt (S fu) (SDecl x e) en top st = (st', en', CNorm) -> expr3 e = true ->
  forall L d fs code L' fs', cstmt2 cf (SDecl x e) L d fs = Some (code, L', fs') -> top = (d =? 0) -> depth_le d L ->
  forall K CL HL, LRB K CL HL 0 L en -> List.length CL = List.length L ->
  forall m fn G O pre post, code_of funs fn = (pre ++ code ++ post)%list ->
  MS2 m fn [] (code_size pre) 0 [] CL HL G O -> sto st K HL (cv m) (cn m) G O ->
  exists n m' K' CL' HL' G' O', steps cf funs n m m' /\
    MS2 m' fn [] (code_size pre + code_size code) 0 [] CL' HL' G' O' /\
    sto st' K' HL' (cv m') (cn m') G' O' /\ LRB K' CL' HL' 0 L' en' /\ List.length CL' = List.length L' /\
    cn m <= cn m' /\ EXT2 d L en L' en'.
Proof.
  intros fu IHE x e en top st st' en' He Hf L d fs code L' fs' Hc Ht Hd K CL HL HLR Hlen m fn G O pre post Hcode HM HS.
  cbn [exec_stmt] in He. destruct (eval_expr fu e en st) as [st1 rr] eqn:Ee. destruct rr as [v| | |]; try discriminate.
  cbn [cstmt2] in Hc. unfold declare in He. rewrite Ht in He. destruct (d =? 0) eqn:Ed.
  - (* global *)
    destruct (cexpr2 L e) as [ce|] eqn:Ece; [|discriminate]. inversion Hc; subst code L' fs'. inversion He; subst st' en'. clear Hc He.
    destruct (E_script fu IHE e en st st1 v Ee Hf L ce Ece K CL HL HLR ltac:(lia) m fn G O pre ([IDefineGlobal x] ++ post)%list)
      as (n1 & m1 & K1 & c1 & G1 & O1 & S1 & M1 & ST1 & KX1 & R1 & B1 & N1 & F1).
    { rewrite Hcode. now rewrite <- app_assoc. }
    { exact HM. }
    { exact HS. }
    assert (Hfe : fetch (code_of funs fn) (code_size pre + code_size ce) = Some (IDefineGlobal x)).
    { eapply fetch_mid with (c2 := []) (post := post). exact Hcode. }
    assert (Hh1 : ~ In c1 HL) by (apply (notin_HL_fresh _ _ _ _ _ _ _ _ _ _ c1 HM); lia).
    destruct (step2_defglobal cf funs _ _ _ _ _ _ _ _ _ _ _ _ M1 Hfe Hh1) as (m2 & A2 & B2 & C2 & D2).
    exists (n1 + 1), m2, K1, CL, HL, (set_assoc G1 x (cv m1 c1)), O1.
    split. { apply (steps_trans cf funs n1 1 m m1 m2 S1). now apply steps_one. }
    split. { rewrite code_size_app. cbn [code_size isize]. replace (code_size pre + (code_size ce + (3 + 0))) with (code_size pre + code_size ce + 3) by lia. exact B2. }
    split. { rewrite C2, D2. apply STO_global; auto. }
    split. { rewrite <- (app_nil_r CL). eapply LRB_K_mono; eauto; [eapply KEXT_ext; eauto|lia]. }
    split; [exact Hlen|]. split; [lia|]. apply EXT2_flags, flags_up_refl.
  - (* local *)
    destruct (dup_in_scope L x d); [discriminate|]. destruct (List.length L =? c_locals_max cf); [discriminate|].
    destruct (cexpr2 (mkLocal (Some x) None false :: L) e) as [ce|] eqn:Ece; [|discriminate].
    inversion Hc; subst code L' fs'. clear Hc. apply (cexpr2_uninit x L e Hf) in Ece.
    unfold new_cell in He. inversion He; subst st' en'. clear He.
    destruct (E_script fu IHE e en st st1 v Ee Hf L ce Ece K CL HL HLR ltac:(lia) m fn G O pre post Hcode HM HS)
      as (n1 & m1 & K1 & c1 & G1 & O1 & S1 & M1 & ST1 & KX1 & R1 & B1 & N1 & F1).
    assert (Hh1 : ~ In c1 HL) by (apply (notin_HL_fresh _ _ _ _ _ _ _ _ _ _ c1 HM); lia).
    pose proof (sto_len _ _ _ _ _ _ _ _ _ ST1) as HlenK.
    exists n1, m1, (K1 ++ [c1])%list, (CL ++ [c1])%list, HL, G1, O1.
    split; [exact S1|]. split; [exact M1|].
    split. { apply (STO_new cf funs st1 K1 HL (cv m1) (cn m1) G1 O1 c1 v ST1 N1 ltac:(lia) R1). }
    split.
    { constructor.
      - eapply LRB_K_mono; eauto; [|lia]. destruct KX1 as (e1 & -> & _). exists (e1 ++ [c1])%list. now rewrite <- app_assoc.
      - rewrite app_length. cbn. lia.
      - cbn [Nat.add]. rewrite <- Hlen, nth_middle. unfold kc. rewrite <- HlenK, nth_middle. reflexivity.
      - unfold kc. rewrite <- HlenK, nth_middle. intro Hin. contradiction. }
    split; [rewrite app_length; cbn; lia|]. split; [lia|].
    exists [mkLocal (Some x) (Some d) false], [(x, List.length (s_cells st1))], L. repeat split; auto using flags_up_refl.
Qed.

Lemma case2_assign : forall fu, E_goal fu -> forall x e en top st st' en',
  exec_stmt (S fu) (SAssign x e) en top st = (st', en', CNorm) -> expr3 e = true ->
  forall L d fs code L' fs', cstmt2 cf (SAssign x e) L d fs = Some (code, L', fs') ->
  forall K CL HL, LRB K CL HL 0 L en -> List.length CL = List.length L ->
  forall m fn G O pre post, code_of funs fn = (pre ++ code ++ post)%list ->
  MS2 m fn [] (code_size pre) 0 [] CL HL G O -> sto st K HL (cv m) (cn m) G O ->
  exists n m' K' CL' HL' G' O', steps cf funs n m m' /\
    MS2 m' fn [] (code_size pre + code_size code) 0 [] CL' HL' G' O' /\
    sto st' K' HL' (cv m') (cn m') G' O' /\ LRB K' CL' HL' 0 L' en' /\ List.length CL' = List.length L' /\
    cn m <= cn m' /\ EXT2 d L en L' en'.
Proof.
  intros fu IHE x e en top st st' en' He Hf L d fs code L' fs' Hc K CL HL HLR Hlen m fn G O pre post Hcode HM HS.
  cbn [exec_stmt] in He. destruct (eval_expr fu e en st) as [st1 rr] eqn:Ee. destruct rr as [v| | |]; try discriminate.
  destruct (write_var st1 en x v) as [st2|] eqn:Ew; [|discriminate]. inversion He; subst st' en'. clear He.
  cbn [cstmt2] in Hc. destruct (rv L x) as [r|] eqn:Erv; [|discriminate].
  destruct (cexpr2 L e) as [ce|] eqn:Ece; [|discriminate]. inversion Hc; subst code L' fs'. clear Hc.
  destruct (E_script fu IHE e en st st1 v Ee Hf L ce Ece K CL HL HLR ltac:(lia) m fn G O pre ([set_op r x; IPop] ++ post)%list)
    as (n1 & m1 & K1 & c1 & G1 & O1 & S1 & M1 & ST1 & KX1 & R1 & B1 & N1 & F1).
  { rewrite Hcode. now rewrite <- app_assoc. }
  { exact HM. }
  { exact HS. }
  assert (Hfe : fetch (code_of funs fn) (code_size pre + code_size ce) = Some (set_op r x)).
  { eapply fetch_mid with (c2 := [IPop]) (post := post). exact Hcode. }
  assert (Hh1 : ~ In c1 HL) by (apply (notin_HL_fresh _ _ _ _ _ _ _ _ _ _ c1 HM); lia).
  assert (Hrvb : rvb cf L [] [] x = Some (r, [], [])) by (rewrite rvb_script, Erv; reflexivity).
  assert (HLR1 : LRB K1 CL HL 0 L en).
  { rewrite <- (app_nil_r CL). eapply LRB_K_mono; eauto; [eapply KEXT_ext; eauto|lia]. }
  unfold write_var in Ew. destruct (assoc en x) as [c|] eqn:Ea.
  - inversion Ew; subst st2. clear Ew.
    assert (Hw1 : where_is K1 CL HL 0 [] r c).
    { eapply resolve_cell with (enb := en) (cenv := []) (Ufin := []); eauto.
      - now rewrite app_nil_r.
      - lia.
      - now left.
      - intros k slot b Hk. destruct k; discriminate.
      - exists []. reflexivity. }
    destruct (exec_set _ _ _ _ _ _ _ _ x _ _ _ _ _ _ Hw1 M1 Hfe) as (m2 & A2 & B2 & C2 & D2).
    assert (Hfe2 : fetch (code_of funs fn) (code_size pre + code_size ce + 2) = Some IPop).
    { replace (code_size pre + code_size ce + 2) with (code_size pre + code_size (ce ++ [set_op r x])).
      - eapply fetch_mid with (c2 := []) (post := post). rewrite Hcode. now rewrite <- !app_assoc.
      - rewrite code_size_app. destruct Hw1; cbn; lia. }
    destruct (step2_pop cf funs _ _ _ _ _ _ _ _ _ _ _ B2 Hfe2 Hh1) as (m3 & A3 & B3 & C3 & D3).
    assert (Hck : c < List.length K1) by (destruct Hw1; assumption).
    exists (n1 + 2), m3, K1, CL, HL, G1, O1.
    split. { apply (steps_trans cf funs n1 2 m m1 m3 S1). exists m2. split; [exact A2|now apply steps_one]. }
    split. { rewrite code_size_app. cbn [code_size]. replace (isize (set_op r x)) with 2 by (destruct Hw1; reflexivity). cbn [isize].
             replace (code_size pre + (code_size ce + (2 + (1 + 0)))) with (code_size pre + code_size ce + 2 + 1) by lia. exact B3. }
    split. { rewrite C3, D3, C2, D2. apply STO_write; auto. }
    split; [exact HLR1|]. split; [exact Hlen|]. split; [lia|]. apply EXT2_flags, flags_up_refl.
  - destruct (assoc (s_globals st1) x) as [w|] eqn:Eg; [|discriminate]. inversion Ew; subst st2. clear Ew.
    assert (r = VGlobal).
    { eapply resolve_global with (enb := en) (cenv := []); eauto; [now rewrite app_nil_r|now left]. }
    subst r. cbn [set_op] in *.
    destruct (GR2_assoc _ _ _ _ _ _ _ _ (sto_g _ _ _ _ _ _ _ _ _ ST1) Eg) as (w' & Eg' & _).
    destruct (step2_setglobal cf funs _ _ _ _ _ _ _ _ _ _ _ _ _ M1 Hfe Eg') as (m2 & A2 & B2 & C2 & D2).
    assert (Hfe2 : fetch (code_of funs fn) (code_size pre + code_size ce + 3) = Some IPop).
    { replace (code_size pre + code_size ce + 3) with (code_size pre + code_size (ce ++ [ISetGlobal x])).
      - eapply fetch_mid with (c2 := []) (post := post). rewrite Hcode. now rewrite <- !app_assoc.
      - rewrite code_size_app. cbn. lia. }
    destruct (step2_pop cf funs _ _ _ _ _ _ _ _ _ _ _ B2 Hfe2 Hh1) as (m3 & A3 & B3 & C3 & D3).
    exists (n1 + 2), m3, K1, CL, HL, (set_assoc G1 x (cv m1 c1)), O1.
    split. { apply (steps_trans cf funs n1 2 m m1 m3 S1). exists m2. split; [exact A2|now apply steps_one]. }
    split. { rewrite code_size_app. cbn [code_size isize].
             replace (code_size pre + (code_size ce + (3 + (1 + 0)))) with (code_size pre + code_size ce + 3 + 1) by lia. exact B3. }
    split. { rewrite C3, D3, C2, D2. apply STO_global; auto. }
    split; [exact HLR1|]. split; [exact Hlen|]. split; [lia|]. apply EXT2_flags, flags_up_refl.
Qed.

Lemma case2_print : forall fu, E_goal fu -> forall e en top st st' en',
  exec_stmt (S fu) (SPrint e) en top st = (st', en', CNorm) -> expr3 e = true ->
  forall L d fs code L' fs', cstmt2 cf (SPrint e) L d fs = Some (code, L', fs') ->
  forall K CL HL, LRB K CL HL 0 L en -> List.length CL = List.length L ->
  forall m fn G O pre post, code_of funs fn = (pre ++ code ++ post)%list ->
  MS2 m fn [] (code_size pre) 0 [] CL HL G O -> sto st K HL (cv m) (cn m) G O ->
  exists n m' K' CL' HL' G' O', steps cf funs n m m' /\
    MS2 m' fn [] (code_size pre + code_size code) 0 [] CL' HL' G' O' /\
    sto st' K' HL' (cv m') (cn m') G' O' /\ LRB K' CL' HL' 0 L' en' /\ List.length CL' = List.length L' /\
    cn m <= cn m' /\ EXT2 d L en L' en'.
Proof.
  intros fu IHE e en top st st' en' He Hf L d fs code L' fs' Hc K CL HL HLR Hlen m fn G O pre post Hcode HM HS.
  cbn [exec_stmt] in He. destruct (eval_expr fu e en st) as [st1 rr] eqn:Ee. destruct rr as [v| | |]; try discriminate.
  inversion He; subst st' en'. clear He.
  cbn [cstmt2] in Hc. destruct (cexpr2 L e) as [ce|] eqn:Ece; [|discriminate]. inversion Hc; subst code L' fs'. clear Hc.
  assert (Hf0 : fetch (code_of funs fn) (code_size pre) = Some (IGetGlobal GPrint)) by (rewrite Hcode; apply fetch_app).
  destruct (step2_getprint cf funs _ _ _ _ _ _ _ _ _ _ HM Hf0) as (m0 & A0 & B0 & C0 & D0).
  destruct (sto_push _ _ _ _ _ _ _ _ HS C0 D0) as (S01 & S02 & S03).
  assert (HLR0 : LRB K (CL ++ [cn m]) HL 0 L en) by (eapply LRB_K_mono; eauto; [exists []; now rewrite app_nil_r|lia]).
  destruct (E_script fu IHE e en st st1 v Ee Hf L ce Ece K (CL ++ [cn m])%list HL HLR0 ltac:(rewrite app_length; lia) m0 fn G O
              (pre ++ [IGetGlobal GPrint])%list ([ICall 1; IPop] ++ post)%list)
    as (n1 & m1 & K1 & c1 & G1 & O1 & S1 & M1 & ST1 & KX1 & R1 & B1 & N1 & F1).
  { rewrite Hcode. cbn. now rewrite <- !app_assoc. }
  { rewrite code_size_app. cbn [code_size isize]. replace (code_size pre + (3 + 0)) with (code_size pre + 3) by lia. exact B0. }
  { exact S01. }
  rewrite <- app_assoc in M1. cbn [app] in M1.
  assert (Hfe1 : fetch (code_of funs fn) (code_size (pre ++ [IGetGlobal GPrint]) + code_size ce) = Some (ICall 1)).
  { eapply fetch_mid with (c2 := [IPop]) (post := post). rewrite Hcode. cbn. now rewrite <- !app_assoc. }
  assert (Hcp : cv m1 (cn m) = MPrintFn) by (rewrite F1; [rewrite C0; apply upd_same|lia|exact S02]).
  assert (Hh1 : ~ In c1 HL) by (apply (notin_HL_fresh _ _ _ _ _ _ _ _ _ _ c1 HM); lia).
  assert (Hhp : ~ In (cn m) HL) by (apply (notin_HL_fresh _ _ _ _ _ _ _ _ _ _ (cn m) HM); lia).
  destruct (step2_callprint cf funs _ _ _ _ _ _ _ _ _ _ _ _ M1 Hfe1 Hcp Hh1) as (m2 & A2 & B2 & C2 & D2).
  assert (Hfe2 : fetch (code_of funs fn) (code_size (pre ++ [IGetGlobal GPrint]) + code_size ce + 2) = Some IPop).
  { replace (code_size (pre ++ [IGetGlobal GPrint]) + code_size ce + 2) with (code_size (pre ++ [IGetGlobal GPrint]) + code_size (ce ++ [ICall 1])).
    - eapply fetch_mid with (c2 := []) (post := post). rewrite Hcode. cbn. now rewrite <- !app_assoc.
    - rewrite !code_size_app. cbn. lia. }
  destruct (step2_pop cf funs _ _ _ _ _ _ _ _ _ _ _ B2 Hfe2 Hhp) as (m3 & A3 & B3 & C3 & D3).
  assert (HpK1 : ~ In (cn m) K1).
  { intro Hin. destruct (KEXT_in _ _ _ _ _ KX1 Hin) as [Hi|Hi]; [contradiction|lia]. }
  exists (1 + (n1 + 2)), m3, K1, CL, HL, G1, (show_mval (cv m1 c1) :: O1).
  split. { exists m0. split; [exact A0|]. apply (steps_trans cf funs n1 2 m0 m1 m3 S1). exists m2. split; [exact A2|now apply steps_one]. }
  split. { replace (code_size pre + code_size (IGetGlobal GPrint :: ce ++ [ICall 1; IPop]))
             with (code_size (pre ++ [IGetGlobal GPrint]) + code_size ce + 2 + 1); [exact B3|].
           rewrite code_size_app. cbn [code_size isize]. rewrite code_size_app. cbn [code_size isize]. lia. }
  split. { rewrite C3, D3, C2, D2.
           assert (ST1' : sto st1 K1 HL (upd (cv m1) (cn m) MNil) (cn m1) G1 O1) by (apply STO_temp with (cnx := cn m1); auto).
           destruct ST1' as [T1 T2 T3 T4 T5 T6]. constructor; cbn [s_cells s_globals s_out]; auto.
           rewrite (vrel2_show _ _ _ _ _ _ R1). now rewrite T6. }
  split. { rewrite <- (app_nil_r CL). eapply LRB_K_mono; eauto; [eapply KEXT_ext; eauto|lia]. }
  split; [exact Hlen|]. split; [lia|]. apply EXT2_flags, flags_up_refl.
Qed.

Lemma case2_expr : forall fu, E_goal fu -> forall e en top st st' en',
  exec_stmt (S fu) (SExpr e) en top st = (st', en', CNorm) -> expr3 e = true ->
  forall L d fs code L' fs', cstmt2 cf (SExpr e) L d fs = Some (code, L', fs') ->
  forall K CL HL, LRB K CL HL 0 L en -> List.length CL = List.length L ->
  forall m fn G O pre post, code_of funs fn = (pre ++ code ++ post)%list ->
  MS2 m fn [] (code_size pre) 0 [] CL HL G O -> sto st K HL (cv m) (cn m) G O ->
  exists n m' K' CL' HL' G' O', steps cf funs n m m' /\
    MS2 m' fn [] (code_size pre + code_size code) 0 [] CL' HL' G' O' /\
    sto st' K' HL' (cv m') (cn m') G' O' /\ LRB K' CL' HL' 0 L' en' /\ List.length CL' = List.length L' /\
    cn m <= cn m' /\ EXT2 d L en L' en'.
Proof.
  intros fu IHE e en top st st' en' He Hf L d fs code L' fs' Hc K CL HL HLR Hlen m fn G O pre post Hcode HM HS.
  cbn [exec_stmt] in He. destruct (eval_expr fu e en st) as [st1 rr] eqn:Ee. destruct rr as [v| | |]; try discriminate.
  inversion He; subst st' en'. clear He.
  cbn [cstmt2] in Hc. destruct (cexpr2 L e) as [ce|] eqn:Ece; [|discriminate]. inversion Hc; subst code L' fs'. clear Hc.
  destruct (E_script fu IHE e en st st1 v Ee Hf L ce Ece K CL HL HLR ltac:(lia) m fn G O pre ([IPop] ++ post)%list)
    as (n1 & m1 & K1 & c1 & G1 & O1 & S1 & M1 & ST1 & KX1 & R1 & B1 & N1 & F1).
  { rewrite Hcode. now rewrite <- app_assoc. }
  { exact HM. }
  { exact HS. }
  assert (Hfe : fetch (code_of funs fn) (code_size pre + code_size ce) = Some IPop).
  { eapply fetch_mid with (c2 := []) (post := post). exact Hcode. }
  assert (Hh1 : ~ In c1 HL) by (apply (notin_HL_fresh _ _ _ _ _ _ _ _ _ _ c1 HM); lia).
  destruct (step2_pop cf funs _ _ _ _ _ _ _ _ _ _ _ M1 Hfe Hh1) as (m2 & A2 & B2 & C2 & D2).
  exists (n1 + 1), m2, K1, CL, HL, G1, O1.
  split. { apply (steps_trans cf funs n1 1 m m1 m2 S1). now apply steps_one. }
  split. { rewrite code_size_app. cbn [code_size isize]. replace (code_size pre + (code_size ce + (1 + 0))) with (code_size pre + code_size ce + 1) by lia. exact B2. }
  split. { rewrite C2, D2. exact ST1. }
  split. { rewrite <- (app_nil_r CL). eapply LRB_K_mono; eauto; [eapply KEXT_ext; eauto|lia]. }
  split; [exact Hlen|]. split; [lia|]. apply EXT2_flags, flags_up_refl.
Qed.

Lemma scope_end_len : forall N L0 d, Forall (fun l => l_depth l = Some (S d)) N -> depth_le d L0 -> L0 <> [] ->
  List.length (scope_end_ops (N ++ L0) d) = List.length N.
Proof.
  induction N as [|l N IH]; intros L0 d HN Hd Hne.
  - cbn [app]. now rewrite (scope_end_nil _ _ Hd Hne).
  - inversion HN as [|? ? Hl HN']; subst. cbn [app scope_end_ops]. rewrite Hl.
    destruct (d <? S d) eqn:E; [|apply Nat.ltb_ge in E; lia]. cbn [List.length]. f_equal. now apply IH.
Qed.

Lemma nth_firstn_lt : forall A (l : list A) n i d, i < n -> nth i (firstn n l) d = nth i l d.
Proof.
  intros A l. induction l as [|a r IH]; intros n i d H; [now rewrite firstn_nil|].
  destruct n; [lia|]. destruct i; cbn; [reflexivity|]. apply IH. lia.
Qed.

Lemma LRB_nonempty : forall K CL HL base L en, LRB K CL HL base L en -> L <> [].
Proof. intros K CL HL base L en H. destruct H; discriminate. Qed.

Lemma case2_block : forall fu, SL_goal fu -> forall b en top st st' en',
  exec_stmt (S fu) (SBlock b) en top st = (st', en', CNorm) -> forallb stmt3 b = true ->
  forall L d fs code L' fs', cstmt2 cf (SBlock b) L d fs = Some (code, L', fs') -> depth_le d L ->
  (exists ext, funs = (fs' ++ ext)%list) ->
  forall K CL HL, LRB K CL HL 0 L en -> List.length CL = List.length L ->
  forall m fn G O pre post, code_of funs fn = (pre ++ code ++ post)%list ->
  MS2 m fn [] (code_size pre) 0 [] CL HL G O -> sto st K HL (cv m) (cn m) G O ->
  exists n m' K' CL' HL' G' O', steps cf funs n m m' /\
    MS2 m' fn [] (code_size pre + code_size code) 0 [] CL' HL' G' O' /\
    sto st' K' HL' (cv m') (cn m') G' O' /\ LRB K' CL' HL' 0 L' en' /\ List.length CL' = List.length L' /\
    cn m <= cn m' /\ EXT2 d L en L' en'.
Proof.
  intros fu HLg b en top st st' en' He Hf L d fs code L' fs' Hc Hd Hfuns K CL HL HLR Hlen m fn G O pre post Hcode HM HS.
  cbn [exec_stmt] in He. destruct (exec_list fu b en false st) as [[st1 en1] c1] eqn:El.
  inversion He; subst st' en' c1. clear He.
  rewrite cstmt2_block in Hc. destruct (clist2 cf b L (S d) fs) as [[[cb L1] fs1]|] eqn:Cl; [|discriminate].
  cbn zeta in Hc. inversion Hc; subst code L' fs'. clear Hc.
  destruct (HLg _ _ _ _ _ _ El Hf _ _ _ _ _ _ Cl eq_refl (depth_le_S _ _ Hd) Hfuns _ _ _ HLR Hlen m fn G O pre (scope_end_ops L1 d ++ post)%list)
    as (n1 & m1 & K1 & CL1 & HL1 & G1 & O1 & S1 & M1 & ST1 & LR1 & Len1 & Hcn1 & X1).
  { rewrite Hcode. now rewrite <- app_assoc. }
  { exact HM. }
  { exact HS. }
  destruct X1 as (N & Ne & L0 & -> & HF & -> & HNlen & HN).
  pose proof (LRB_nonempty _ _ _ _ _ _ HLR) as HLne.
  assert (HL0ne : L0 <> []).
  { intro; subst L0. pose proof (flags_up_length _ _ HF). cbn in H. destruct L; [congruence|discriminate]. }
  assert (Hd0 : depth_le d L0) by (eapply flags_up_depth_le; eauto).
  rewrite (scope_end_len N L0 d HN Hd0 HL0ne), skipn_app_len.
  destruct (scope_end_run N K1 CL1 HL1 L0 Ne en d m1 fn (pre ++ cb)%list post G1 O1 LR1 HNlen Len1 HN Hd0 HL0ne)
    as (m2 & S2 & M2 & C2 & D2).
  { rewrite Hcode. now rewrite <- !app_assoc. }
  { rewrite code_size_app. exact M1. }
  exists (n1 + List.length N), m2, K1, (firstn (List.length L0) CL1), HL1, G1, O1.
  split; [eapply steps_trans; eauto|].
  split. { rewrite !code_size_app in *. rewrite Nat.add_assoc. exact M2. }
  split. { rewrite C2, D2. exact ST1. }
  split.
  { apply LRB_drop in LR1; auto. eapply LRB_mono; eauto; [exists []; now rewrite app_nil_r|].
    intros i Hi. cbn [Nat.add] in Hi. now apply nth_firstn_lt. }
  split. { rewrite firstn_length, Len1, app_length. lia. }
  split; [lia|]. now apply EXT2_flags.
Qed.

Lemma case2_lam : forall fu x b en top st st' en',
  exec_stmt (S fu) (SLam x [] b) en top st = (st', en', CNorm) ->
  forallb bstmt3 b = true -> existsb (s_mentions x) b = false ->
  forall L d fs code L' fs', cstmt2 cf (SLam x [] b) L d fs = Some (code, L', fs') -> top = (d =? 0) ->
  (exists ext, funs = (fs' ++ ext)%list) ->
  forall K CL HL, LRB K CL HL 0 L en -> List.length CL = List.length L ->
  forall m fn G O pre post, code_of funs fn = (pre ++ code ++ post)%list ->
  MS2 m fn [] (code_size pre) 0 [] CL HL G O -> sto st K HL (cv m) (cn m) G O ->
  exists n m' K' CL' HL' G' O', steps cf funs n m m' /\
    MS2 m' fn [] (code_size pre + code_size code) 0 [] CL' HL' G' O' /\
    sto st' K' HL' (cv m') (cn m') G' O' /\ LRB K' CL' HL' 0 L' en' /\ List.length CL' = List.length L' /\
    cn m <= cn m' /\ EXT2 d L en L' en'.
Proof.
  intros fu x b en top st st' en' He Hb Hm L d fs code L' fs' Hc Ht Hfuns K CL HL HLR Hlen m fn G O pre post Hcode HM HS.
  cbn [exec_stmt] in He. unfold declare in He. rewrite Ht in He.
  cbn [cstmt2] in Hc. destruct (d =? 0) eqn:Ed.
  - (* a global function value *)
    destruct (cbody cf [] b L) as [[[cb U] L1]|] eqn:Ecb; [|discriminate]. inversion Hc; subst code L' fs'. clear Hc.
    inversion He; subst st' en'. clear He.
    assert (Hfn : nth_error funs (List.length fs) = Some (mkFunc cb 0 (List.length U))).
    { destruct Hfuns as [ext ->]. rewrite <- app_assoc. rewrite nth_error_app2 by lia. now rewrite Nat.sub_diag. }
    assert (Hfe : fetch (code_of funs fn) (code_size pre) = Some (clo_instr (List.length fs) U)) by (rewrite Hcode; apply fetch_app).
    destruct (mk_closure K CL HL L en b cb U L1 (List.length fs) st m fn (code_size pre) G O HLR Hlen Hb Ecb Hfn HM Hfe HS)
      as (m1 & HL1 & Uv & A1 & B1 & C1 & C1' & D1 & Hext & Hnot & Rv & LR1 & ST1).
    assert (Hfe2 : fetch (code_of funs fn) (code_size pre + 3 + 2 * List.length U) = Some (IDefineGlobal x)).
    { replace (code_size pre + 3 + 2 * List.length U) with (code_size pre + code_size [clo_instr (List.length fs) U]).
      - eapply fetch_mid with (c2 := []) (post := post). exact Hcode.
      - unfold clo_instr. cbn [code_size isize]. rewrite map_length. lia. }
    destruct (step2_defglobal cf funs _ _ _ _ _ _ _ _ _ _ _ _ B1 Hfe2 Hnot) as (m2 & A2 & B2 & C2 & D2).
    exists 2, m2, K, CL, HL1, (set_assoc G x (cv m1 (cn m))), O.
    split. { exists m1. split; [exact A1|now apply steps_one]. }
    split. { replace (code_size pre + code_size [clo_instr (List.length fs) U; IDefineGlobal x]) with (code_size pre + 3 + 2 * List.length U + 3); [exact B2|].
             unfold clo_instr. cbn [code_size isize]. rewrite map_length. lia. }
    split. { rewrite C2, D2. apply STO_global; auto. rewrite C1. exact Rv. }
    split; [exact LR1|].
    destruct (cbody_ok cf [] b L cb U L1 (forallb_bstmt3_bstmt2 _ Hb) Ecb) as [HF _].
    split; [rewrite (flags_up_length _ _ HF); exact Hlen|]. split; [lia|]. now apply EXT2_flags.
  - (* a local holding the closure *)
    destruct (dup_in_scope L x d); [discriminate|]. destruct (List.length L =? c_locals_max cf); [discriminate|].
    rewrite (cbody_drop cf [] b (mkLocal (Some x) None false) L x (forallb_bstmt3_bstmt2 _ Hb) eq_refl Hm) in Hc.
    destruct (cbody cf [] b L) as [[[cb U] L1]|] eqn:Ecb; [|discriminate]. cbn [lift3 l_capt] in Hc.
    inversion Hc; subst code L' fs'. clear Hc.
    unfold new_cell in He. inversion He; subst st' en'. clear He.
    assert (Hfn : nth_error funs (List.length fs) = Some (mkFunc cb 0 (List.length U))).
    { destruct Hfuns as [ext ->]. rewrite <- app_assoc. rewrite nth_error_app2 by lia. now rewrite Nat.sub_diag. }
    assert (Hfe : fetch (code_of funs fn) (code_size pre) = Some (clo_instr (List.length fs) U)) by (rewrite Hcode; apply fetch_app).
    destruct (mk_closure K CL HL L en b cb U L1 (List.length fs) st m fn (code_size pre) G O HLR Hlen Hb Ecb Hfn HM Hfe HS)
      as (m1 & HL1 & Uv & A1 & B1 & C1 & C1' & D1 & Hext & Hnot & Rv & LR1 & ST1).
    destruct (cbody_ok cf [] b L cb U L1 (forallb_bstmt3_bstmt2 _ Hb) Ecb) as [HF _].
    pose proof (flags_up_length _ _ HF) as HlenL1.
    pose proof (sto_len _ _ _ _ _ _ _ _ _ HS) as HlenK.
    assert (HnK : ~ In (cn m) K) by (intro Hin; pose proof (sto_K_lt _ _ _ _ _ _ _ HS Hin); lia).
    exists 1, m1, (K ++ [cn m])%list, (CL ++ [cn m])%list, HL1, G, O.
    split; [now apply steps_one|].
    split. { replace (code_size pre + code_size [clo_instr (List.length fs) U]) with (code_size pre + 3 + 2 * List.length U); [exact B1|].
             unfold clo_instr. cbn [code_size isize]. rewrite map_length. lia. }
    split. { apply (STO_new cf funs st K HL1 (cv m1) (cn m1) G O (cn m) _ ST1 HnK ltac:(lia)). rewrite C1. exact Rv. }
    split.
    { constructor.
      - eapply LRB_K_mono; eauto; lia.
      - rewrite app_length. cbn. lia.
      - cbn [Nat.add]. rewrite HlenL1, <- Hlen, nth_middle. unfold kc. rewrite <- HlenK, nth_middle. reflexivity.
      - unfold kc. rewrite <- HlenK, nth_middle. intro Hin. contradiction. }
    split; [rewrite app_length; cbn; lia|]. split; [lia|].
    exists [mkLocal (Some x) (Some d) false], [(x, List.length (s_cells st))], L1. repeat split; auto.
Qed.

Lemma SS_step : forall fu, E_goal fu -> SL_goal fu -> SS_goal (S fu).
Proof.
  intros fu IHE IHL s en top st st' en' He Hf L d fs code L' fs' Hc Ht Hd Hfuns K CL HL HLR Hlen m fn G O pre post Hcode HM HS.
  destruct s; cbn [stmt3] in Hf; try discriminate.
  - eapply case2_decl; eauto.
  - eapply case2_assign; eauto.
  - eapply case2_print; eauto.
  - eapply case2_expr; eauto.
  - eapply case2_block; eauto.
  - destruct ps; [|discriminate]. apply andb_prop in Hf as [Hf1 Hf2]. apply negb_true_iff in Hf2.
    eapply case2_lam; eauto.
Qed.

Definition ALL_goals (fu : nat) : Prop := E_goal fu /\ BS_goal fu /\ BL_goal fu /\ SS_goal fu /\ SL_goal fu.

Lemma not_good_stuck : forall w, ~ good (CStuck w).
Proof. intros w [H|[v H]]; discriminate. Qed.

Theorem sim2_all : forall fu, ALL_goals fu.
Proof.
  induction fu as [|fu (IE & IBS & IBL & ISS & ISL)].
  - split; [|split; [|split; [|split]]].
    + unfold E_goal. intros ? ? ? ? ? ? He; discriminate.
    + unfold BS_goal. intros ? ? ? ? ? ? He Hg. cbn in He. inversion He; subst. destruct (not_good_stuck _ Hg).
    + unfold BL_goal. intros ? ? ? ? ? ? He Hg. cbn in He. inversion He; subst. destruct (not_good_stuck _ Hg).
    + unfold SS_goal. intros ? ? ? ? ? ? He; discriminate.
    + unfold SL_goal. intros ? ? ? ? ? ? He; discriminate.
  - split; [|split; [|split; [|split]]].
    + now apply E_step.
    + now apply BS_step.
    + now apply BL_step.
    + now apply SS_step.
    + now apply SL_step.
Qed.

End Sim2.
