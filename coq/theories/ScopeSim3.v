(* C06 - stage 1 of compile_scope_correct: blocks + closures over block locals (one function level; closure
   bodies made of assignments, prints, calls and return; no parameters).  Simulation between eval_cells and the
   compiled program on the machine over the cell-store backend bk_c, by induction on the evaluator's fuel. *)
From Coq Require Import List Arith Bool String ZArith NArith Lia.
From YV Require Import Show Upvalues Cells ScopeLang ScopeComp ScopeLangProofs ScopeSim ScopeDefs2 ScopeMach2 ScopeComp2 ScopeDrop2 ScopeRel2 ScopeRel3 ScopeAux2.
Import ListNotations.
Import Gen.
Open Scope nat_scope.

Section Sim3.
Variable cf : cfg.
Variable funs : list func.

Notation vrel := (vrel3 cf funs).
Notation sto := (STO3 cf funs).

(* K grows by fresh machine cells *)
Definition KEXT (K K' : list nat) (lo hi : nat) : Prop :=
  exists e, K' = (K ++ e)%list /\ forall k, In k e -> lo <= k < hi.

Lemma KEXT_refl : forall K lo hi, KEXT K K lo hi.
Proof. intros K lo hi. exists []. rewrite app_nil_r. split; [reflexivity|intros k []]. Qed.

Lemma KEXT_trans : forall K K1 K2 a b c, KEXT K K1 a b -> KEXT K1 K2 b c -> a <= b -> b <= c -> KEXT K K2 a c.
Proof.
  intros K K1 K2 a b c (e1 & -> & H1) (e2 & -> & H2) Hab Hbc. exists (e1 ++ e2)%list. rewrite app_assoc. split; [reflexivity|].
  intros k Hin. apply in_app_or in Hin as [Hin|Hin]; [pose proof (H1 _ Hin)|pose proof (H2 _ Hin)]; lia.
Qed.

Lemma KEXT_ext : forall K K' lo hi, KEXT K K' lo hi -> exists e, K' = (K ++ e)%list.
Proof. intros K K' lo hi (e & -> & _). eauto. Qed.

Lemma KEXT_widen : forall K K' lo hi lo' hi', KEXT K K' lo hi -> lo' <= lo -> hi <= hi' -> KEXT K K' lo' hi'.
Proof. intros K K' lo hi lo' hi' (e & -> & H) H1 H2. exists e. split; [reflexivity|]. intros k Hin. pose proof (H _ Hin). lia. Qed.

(* the closure's handle vector against its (final) upvalue list and captured environment *)
Definition UR (K HL : list nat) (cenv : env) (Ufin : ups_t) (uvec : list nat) : Prop :=
  forall k slot b, nth_error Ufin k = Some (slot, b) ->
    b = true /\ exists x c, entry_at cenv slot = Some (x, c) /\ c < List.length K /\
                            nth k uvec 0 < List.length HL /\ nth (nth k uvec 0) HL 0 = kc K c.

Lemma UR_mono : forall K HL cenv Ufin uvec K', UR K HL cenv Ufin uvec -> (exists e, K' = (K ++ e)%list) -> UR K' HL cenv Ufin uvec.
Proof.
  intros K HL cenv Ufin uvec K' H [e ->] k slot b Hk. destruct (H k slot b Hk) as (-> & x & c & E1 & E2 & E3 & E4).
  split; [reflexivity|]. exists x, c. rewrite app_length. repeat split; auto; try lia.
  unfold kc in *. now rewrite app_nth1 by lia.
Qed.

(* the enclosing function's static locals against the captured environment: nothing at script level *)
Definition CENVR (Ls : list local) (cenv : env) : Prop :=
  (Ls = [] /\ cenv = []) \/ (exists Ls0, ENV Ls0 cenv /\ flags_up Ls0 Ls).

Lemma CENVR_flags : forall Ls Ls' cenv, CENVR Ls cenv -> flags_up Ls Ls' -> CENVR Ls' cenv.
Proof.
  intros Ls Ls' cenv [[-> ->]|(Ls0 & H1 & H2)] HF.
  - inversion HF; subst. now left.
  - right. exists Ls0. split; [exact H1|]. eapply flags_up_trans; eauto.
Qed.

(* how a variable of a frame is reached, and that the instruction sequence for reading it pushes its value *)
Inductive where_is (K CL HL : list nat) (base : nat) (uvec : list nat) : vref -> nat -> Prop :=
| W_local : forall s c, nth (base + s) CL 0 = kc K c -> base + s < List.length CL -> c < List.length K ->
    where_is K CL HL base uvec (VLocal s) c
| W_up : forall k c, nth k uvec 0 < List.length HL -> nth (nth k uvec 0) HL 0 = kc K c -> c < List.length K ->
    where_is K CL HL base uvec (VUp k) c.

Lemma resolve_cell : forall Lb Ls U x r U' Ls' enb cenv c K CL HL base uvec Ufin,
  rvb cf Lb Ls U x = Some (r, U', Ls') -> assoc (enb ++ cenv) x = Some c ->
  LRB K CL HL base Lb enb -> base + List.length Lb <= List.length CL -> CENVR Ls cenv -> UR K HL cenv Ufin uvec ->
  (exists ext, Ufin = (U' ++ ext)%list) ->
  where_is K CL HL base uvec r c.
Proof.
  intros Lb Ls U x r U' Ls' enb cenv c K CL HL base uvec Ufin Hr Ha HL0 Hlen HC HU [ext ->].
  unfold rvb in Hr. rewrite assoc_app in Ha. destruct (assoc enb x) as [c0|] eqn:Eb.
  - inversion Ha; subst c0. destruct (LRB_lookup _ _ _ _ _ _ _ _ HL0 Eb) as (s & E1 & E2 & E3 & E4).
    rewrite E1 in Hr. inversion Hr; subst. constructor; auto. lia.
  - rewrite (ENV_lookup_none _ _ _ (LRB_ENV _ _ _ _ _ _ HL0) Eb) in Hr.
    destruct HC as [[-> ->]|(Ls0 & HE & HF)]; [discriminate|].
    rewrite (flags_up_resolve_local _ _ x HF) in Hr.
    destruct (ENV_lookup _ _ _ _ HE Ha) as (slot & E1 & E2 & E3). rewrite E1 in Hr.
    destruct (add_upvalue (c_upvalues_max cf) U slot true) as [[U1 k] ovf] eqn:Eu. destruct ovf; [discriminate|].
    inversion Hr; subst r U' Ls'.
    destruct (add_upvalue_spec _ _ _ _ _ _ Eu) as [Hn _].
    assert (Hn' : nth_error (U1 ++ ext) k = Some (slot, true)).
    { rewrite nth_error_app1; [exact Hn|]. apply nth_error_Some. congruence. }
    destruct (HU k slot true Hn') as (_ & x' & c' & F1 & F2 & F3 & F4).
    rewrite E3 in F1. inversion F1; subst x' c'. constructor; auto.
Qed.

Lemma resolve_global : forall Lb Ls U x r U' Ls' enb cenv K CL HL base,
  rvb cf Lb Ls U x = Some (r, U', Ls') -> assoc (enb ++ cenv) x = None ->
  LRB K CL HL base Lb enb -> CENVR Ls cenv -> r = VGlobal.
Proof.
  intros Lb Ls U x r U' Ls' enb cenv K CL HL base Hr Ha HL0 HC.
  unfold rvb in Hr. rewrite assoc_app in Ha. destruct (assoc enb x) as [c0|] eqn:Eb; [discriminate|].
  rewrite (ENV_lookup_none _ _ _ (LRB_ENV _ _ _ _ _ _ HL0) Eb) in Hr.
  destruct HC as [[-> ->]|(Ls0 & HE & HF)]; [cbn in Hr; congruence|].
  rewrite (flags_up_resolve_local _ _ x HF) in Hr. rewrite (ENV_lookup_none _ _ _ HE Ha) in Hr. congruence.
Qed.

(* ---- the frame context ---- *)
Record CTX (K CL HL : list nat) (base : nat) (Lb : list local) (enb : env) (Ls : list local) (cenv : env)
           (Ufin : ups_t) (uvec : list nat) : Prop := mkCTX {
  cx_lrb : LRB K CL HL base Lb enb;
  cx_len : base + List.length Lb <= List.length CL;
  cx_cenv : CENVR Ls cenv;
  cx_ur : UR K HL cenv Ufin uvec;
  cx_cells : forall x c, In (x, c) cenv -> c < List.length K
}.

Lemma CTX_mono : forall K CL HL base Lb enb Ls cenv Ufin uvec K' CL' Ls',
  CTX K CL HL base Lb enb Ls cenv Ufin uvec -> (exists e, K' = (K ++ e)%list) ->
  (forall i, i < base + List.length Lb -> nth i CL' 0 = nth i CL 0) -> base + List.length Lb <= List.length CL' ->
  flags_up Ls Ls' -> CTX K' CL' HL base Lb enb Ls' cenv Ufin uvec.
Proof.
  intros K CL HL base Lb enb Ls cenv Ufin uvec K' CL' Ls' [H1 H2 H3 H4 H5] HK HC Hl HF. constructor; auto.
  - eapply LRB_mono; eauto.
  - eapply CENVR_flags; eauto.
  - eapply UR_mono; eauto.
  - destruct HK as [e ->]. intros x c Hin. rewrite app_length. pose proof (H5 _ _ Hin). lia.
Qed.

Lemma CTX_app : forall K CL HL base Lb enb Ls cenv Ufin uvec t,
  CTX K CL HL base Lb enb Ls cenv Ufin uvec -> CTX K (CL ++ t) HL base Lb enb Ls cenv Ufin uvec.
Proof.
  intros K CL HL base Lb enb Ls cenv Ufin uvec t H. pose proof (cx_len _ _ _ _ _ _ _ _ _ _ H) as Hl.
  eapply CTX_mono; eauto.
  - exists []. now rewrite app_nil_r.
  - intros i Hi. apply app_nth1. lia.
  - rewrite app_length. lia.
  - apply flags_up_refl.
Qed.

(* cells that are no variables and existed before are left alone *)
Definition FRAMEC (m m' : cmach) (K : list nat) : Prop :=
  forall j, j < cn m -> ~ In j K -> cv m' j = cv m j.

Lemma FRAMEC_refl : forall m K, FRAMEC m m K.
Proof. intros m K j _ _. reflexivity. Qed.

Lemma FRAMEC_trans : forall m1 m2 m3 K K2, FRAMEC m1 m2 K -> FRAMEC m2 m3 K2 -> cn m1 <= cn m2 ->
  (forall j, In j K2 -> In j K \/ cn m1 <= j) -> FRAMEC m1 m3 K.
Proof.
  intros m1 m2 m3 K K2 H1 H2 Hc HK j Hj Hn. rewrite H2; [apply H1; auto|lia|].
  intro Hin. destruct (HK _ Hin); [contradiction|lia].
Qed.

(* ---- reading and writing a variable through its access path ---- *)
Lemma exec_get : forall K CL HL base uvec r c x m fn pc frs G O,
  where_is K CL HL base uvec r c -> MS2 m fn uvec pc base frs CL HL G O ->
  fetch (code_of funs fn) pc = Some (get_op r x) ->
  exists m', mstep cf funs m = MRun m' /\ MS2 m' fn uvec (pc + isize (get_op r x)) base frs (CL ++ [cn m]) HL G O /\
             cv m' = upd (cv m) (cn m) (cv m (kc K c)) /\ cn m' = S (cn m).
Proof.
  intros K CL HL base uvec r c x m fn pc frs G O Hw HM Hf. destruct Hw as [s c E1 E2 E3|k c E1 E2 E3]; cbn [get_op isize] in *.
  - destruct (step2_getlocal cf funs _ _ _ _ _ _ _ _ _ _ _ HM Hf E2) as (m' & A & B & C & D).
    exists m'. rewrite E1 in C. auto.
  - destruct (step2_getupvalue cf funs _ _ _ _ _ _ _ _ _ _ _ HM Hf E1) as (m' & A & B & C & D).
    exists m'. rewrite E2 in C. auto.
Qed.

Lemma exec_set : forall K CL0 ct HL base uvec r c x m fn pc frs G O,
  where_is K CL0 HL base uvec r c -> MS2 m fn uvec pc base frs (CL0 ++ [ct]) HL G O ->
  fetch (code_of funs fn) pc = Some (set_op r x) ->
  exists m', mstep cf funs m = MRun m' /\ MS2 m' fn uvec (pc + 2) base frs (CL0 ++ [ct]) HL G O /\
             cv m' = upd (cv m) (kc K c) (cv m ct) /\ cn m' = cn m.
Proof.
  intros K CL0 ct HL base uvec r c x m fn pc frs G O Hw HM Hf. destruct Hw as [s c E1 E2 E3|k c E1 E2 E3]; cbn [set_op] in *.
  - destruct (step2_setlocal cf funs _ _ _ _ _ _ _ _ _ _ _ _ HM Hf E2) as (m' & A & B & C & D).
    exists m'. rewrite E1 in C. auto.
  - destruct (step2_setupvalue cf funs _ _ _ _ _ _ _ _ _ _ _ _ HM Hf E1) as (m' & A & B & C & D).
    exists m'. rewrite E2 in C. auto.
Qed.

(* a fresh temporary is pushed: the store relation is kept *)
Lemma sto_push : forall st K HL m m' G O w,
  sto st K HL (cv m) (cn m) G O -> cv m' = upd (cv m) (cn m) w -> cn m' = S (cn m) ->
  sto st K HL (cv m') (cn m') G O /\ ~ In (cn m) K /\ FRAMEC m m' K.
Proof.
  intros st K HL m m' G O w H E1 E2.
  assert (Hn : ~ In (cn m) K) by (intro Hin; pose proof (sto3_lt _ _ _ _ _ _ _ _ _ H _ Hin); lia).
  split; [|split; [exact Hn|]].
  - rewrite E1, E2. apply STO3_temp with (cnx := cn m); auto.
  - intros j Hj _. rewrite E1. apply upd_other. lia.
Qed.

Definition good (c : ctl) : Prop := c = CNorm \/ exists v, c = CRet v.
Definition slot0 : local := mkLocal None (Some 0) false.

Definition E_goal (fuel : nat) : Prop := forall e enb cenv st st' v,
  eval_expr fuel e (enb ++ cenv)%list st = (st', ROk v) -> expr2 e = true ->
  forall Lb Ls U ce U' Ls', bexpr cf Lb e U Ls = Some (ce, U', Ls') ->
  forall Ufin uvec K CL HL base, (exists ext, Ufin = (U' ++ ext)%list) ->
  CTX K CL HL base Lb enb Ls cenv Ufin uvec ->
  forall m fn frs G O pre post, code_of funs fn = (pre ++ ce ++ post)%list ->
  MS2 m fn uvec (code_size pre) base frs CL HL G O -> sto st K HL (cv m) (cn m) G O ->
  exists n m' K' cnew G' O', steps cf funs n m m' /\
    MS2 m' fn uvec (code_size pre + code_size ce) base frs (CL ++ [cnew])%list HL G' O' /\
    sto st' K' HL (cv m') (cn m') G' O' /\ KEXT K K' (cn m) (cn m') /\ vrel K' HL v (cv m' cnew) /\
    cn m <= cnew < cn m' /\ ~ In cnew K' /\ FRAMEC m m' K.

(* what a body statement may add: locals of its own depth, never captured *)
Definition EXTB (d : nat) (Lb : list local) (enb : env) (Lb' : list local) (enb' : env) : Prop :=
  exists N Ne, Lb' = (N ++ Lb)%list /\ enb' = (Ne ++ enb)%list /\ List.length N = List.length Ne /\
               Forall (fun l => l_depth l = Some d /\ l_capt l = false) N.

Lemma EXTB_refl : forall d Lb enb, EXTB d Lb enb Lb enb.
Proof. intros. exists [], []. repeat split; auto. Qed.

Lemma EXTB_trans : forall d L en L1 en1 L2 en2, EXTB d L en L1 en1 -> EXTB d L1 en1 L2 en2 -> EXTB d L en L2 en2.
Proof.
  intros d L en L1 en1 L2 en2 (N1 & Ne1 & -> & -> & H1 & F1) (N2 & Ne2 & -> & -> & H2 & F2).
  exists (N2 ++ N1)%list, (Ne2 ++ Ne1)%list. rewrite !app_assoc. repeat split; auto.
  - rewrite !app_length. lia.
  - apply Forall_app. split; assumption.
Qed.

Lemma EXTB_depth_le : forall d L en L' en', depth_le d L -> EXTB d L en L' en' -> depth_le d L'.
Proof.
  intros d L en L' en' H (N & Ne & -> & _ & _ & F). apply Forall_app. split; [|exact H].
  revert F. apply Forall_impl. intros l [E _]. now rewrite E.
Qed.

(* statements of a closure body, in a call frame (base, caller frame below) *)
Definition BS_goal (fuel : nat) : Prop := forall s enb cenv st st' en' ctl,
  exec_stmt fuel s (enb ++ cenv)%list false st = (st', en', ctl) -> good ctl -> bstmt2 s = true ->
  forall Lb d U Ls code Lb' U' Ls', bstmt cf s Lb d U Ls = Some (code, Lb', U', Ls') -> 1 <= d -> depth_le d Lb ->
  forall Ufin uvec K CL HL base, (exists ext, Ufin = (U' ++ ext)%list) ->
  CTX K CL HL base Lb enb Ls cenv Ufin uvec -> List.length CL = base + List.length Lb ->
  forall m fn fn0 ups0 pc0 base0 frs' G O pre post, code_of funs fn = (pre ++ code ++ post)%list ->
  MS2 m fn uvec (code_size pre) base (mkFrame fn0 ups0 pc0 base0 :: frs') CL HL G O -> sto st K HL (cv m) (cn m) G O ->
  exists n m' K' G' O', steps cf funs n m m' /\ sto st' K' HL (cv m') (cn m') G' O' /\ KEXT K K' (cn m) (cn m') /\
    FRAMEC m m' K /\ cn m <= cn m' /\
    match ctl with
    | CNorm => exists CL' enb', en' = (enb' ++ cenv)%list /\
                 MS2 m' fn uvec (code_size pre + code_size code) base (mkFrame fn0 ups0 pc0 base0 :: frs') CL' HL G' O' /\
                 LRB K' CL' HL base Lb' enb' /\ List.length CL' = base + List.length Lb' /\
                 firstn base CL' = firstn base CL /\ EXTB d Lb enb Lb' enb'
    | CRet v => exists cres, MS2 m' fn0 ups0 pc0 base0 frs' (firstn base CL ++ [cres])%list HL G' O' /\
                             vrel K' HL v (cv m' cres) /\ cn m <= cres < cn m' /\ ~ In cres K'
    | _ => False
    end.

Definition BL_goal (fuel : nat) : Prop := forall ss enb cenv st st' en' ctl,
  exec_list fuel ss (enb ++ cenv)%list false st = (st', en', ctl) -> good ctl -> forallb bstmt2 ss = true ->
  forall Lb d U Ls code Lb' U' Ls', blist cf ss Lb d U Ls = Some (code, Lb', U', Ls') -> 1 <= d -> depth_le d Lb ->
  forall Ufin uvec K CL HL base, (exists ext, Ufin = (U' ++ ext)%list) ->
  CTX K CL HL base Lb enb Ls cenv Ufin uvec -> List.length CL = base + List.length Lb ->
  forall m fn fn0 ups0 pc0 base0 frs' G O pre post, code_of funs fn = (pre ++ code ++ post)%list ->
  MS2 m fn uvec (code_size pre) base (mkFrame fn0 ups0 pc0 base0 :: frs') CL HL G O -> sto st K HL (cv m) (cn m) G O ->
  exists n m' K' G' O', steps cf funs n m m' /\ sto st' K' HL (cv m') (cn m') G' O' /\ KEXT K K' (cn m) (cn m') /\
    FRAMEC m m' K /\ cn m <= cn m' /\
    match ctl with
    | CNorm => exists CL' enb', en' = (enb' ++ cenv)%list /\
                 MS2 m' fn uvec (code_size pre + code_size code) base (mkFrame fn0 ups0 pc0 base0 :: frs') CL' HL G' O' /\
                 LRB K' CL' HL base Lb' enb' /\ List.length CL' = base + List.length Lb' /\
                 firstn base CL' = firstn base CL /\ EXTB d Lb enb Lb' enb'
    | CRet v => exists cres, MS2 m' fn0 ups0 pc0 base0 frs' (firstn base CL ++ [cres])%list HL G' O' /\
                             vrel K' HL v (cv m' cres) /\ cn m <= cres < cn m' /\ ~ In cres K'
    | _ => False
    end.

(* the frame context after a statement *)
Lemma CTX_next : forall K CL HL base Lb enb Ls cenv Ufin uvec K' CL' Lb' enb' Ls',
  CTX K CL HL base Lb enb Ls cenv Ufin uvec -> LRB K' CL' HL base Lb' enb' -> List.length CL' = base + List.length Lb' ->
  (exists e, K' = (K ++ e)%list) -> flags_up Ls Ls' -> CTX K' CL' HL base Lb' enb' Ls' cenv Ufin uvec.
Proof.
  intros K CL HL base Lb enb Ls cenv Ufin uvec K' CL' Lb' enb' Ls' [H1 H2 H3 H4 H5] HL' Hlen HK HF. constructor; auto.
  - lia.
  - eapply CENVR_flags; eauto.
  - eapply UR_mono; eauto.
  - destruct HK as [e ->]. intros x c Hin. rewrite app_length. pose proof (H5 _ _ Hin). lia.
Qed.

Lemma sto_K_lt : forall st K HL m G O k, sto st K HL (cv m) (cn m) G O -> In k K -> k < cn m.
Proof. intros st K HL m G O k H. apply (sto3_lt _ _ _ _ _ _ _ _ _ H). Qed.

Lemma E_lit : forall n enb cenv st Lb Ls Ufin uvec K CL HL base m fn frs G O pre post,
  CTX K CL HL base Lb enb Ls cenv Ufin uvec ->
  code_of funs fn = (pre ++ [IConst n] ++ post)%list ->
  MS2 m fn uvec (code_size pre) base frs CL HL G O -> sto st K HL (cv m) (cn m) G O ->
  exists n0 m' K' cnew G' O', steps cf funs n0 m m' /\
    MS2 m' fn uvec (code_size pre + code_size [IConst n]) base frs (CL ++ [cnew])%list HL G' O' /\
    sto st K' HL (cv m') (cn m') G' O' /\ KEXT K K' (cn m) (cn m') /\ vrel K' HL (SVInt (Z.of_N n)) (cv m' cnew) /\
    cn m <= cnew < cn m' /\ ~ In cnew K' /\ FRAMEC m m' K.
Proof.
  intros n enb cenv st Lb Ls Ufin uvec K CL HL base m fn frs G O pre post HC Hcode HM HS.
  assert (Hf : fetch (code_of funs fn) (code_size pre) = Some (IConst n)) by (rewrite Hcode; apply fetch_app).
  destruct (step2_const cf funs _ _ _ _ _ _ _ _ _ _ _ HM Hf) as (m' & A & B & C & D).
  destruct (sto_push _ _ _ _ _ _ _ _ HS C D) as (S1 & S2 & S3).
  exists 1, m', K, (cn m), G, O. split; [now apply steps_one|]. split; [exact B|]. split; [exact S1|].
  split; [apply KEXT_refl|]. split; [rewrite C, upd_same; constructor|]. split; [lia|]. split; [exact S2|exact S3].
Qed.

Lemma nth_error_nth_d : forall (l : list func) k f, nth_error l k = Some f -> nth k l dfunc = f.
Proof. induction l as [|a r IH]; intros [|k] f H; cbn in *; try discriminate; [now inversion H|auto]. Qed.

Lemma app_one_assoc : forall A (a : list A) x b, (a ++ x :: b = (a ++ [x]) ++ b)%list.
Proof. intros. now rewrite <- app_assoc. Qed.

Lemma notin_HL_fresh : forall m fn uvec pc base frs CL HL G O c, MS2 m fn uvec pc base frs CL HL G O -> cn m <= c -> ~ In c HL.
Proof.
  intros m fn uvec pc base frs CL HL G O c HM Hc Hin.
  pose proof (s2_hl_lt _ _ _ (m2_s _ _ _ _ _ _ _ _ _ _ HM) _ Hin). unfold cn in *. lia.
Qed.

Lemma KEXT_in : forall K K' lo hi j, KEXT K K' lo hi -> In j K' -> In j K \/ lo <= j.
Proof.
  intros K K' lo hi j (e & -> & He) Hin. apply in_app_or in Hin as [Hin|Hin]; [now left|right; apply He in Hin; lia].
Qed.


(* ---- calls with arguments ---- *)
Fixpoint eargs (fu : nat) (l : list expr) (en : env) (st : sst) : sst * eres (list sval) :=
  match l with
  | [] => (st, ROk [])
  | a :: r => match eval_expr fu a en st with
              | (st1, ROk v) => match eargs fu r en st1 with
                                | (st2, ROk vs) => (st2, ROk (v :: vs))
                                | (st2, RThrow x) => (st2, RThrow x)
                                | (st2, RAbort x) => (st2, RAbort x)
                                | (st2, RStuck w) => (st2, RStuck w)
                                end
              | (st1, RThrow x) => (st1, RThrow x)
              | (st1, RAbort x) => (st1, RAbort x)
              | (st1, RStuck w) => (st1, RStuck w)
              end
  end.

Lemma eval_call_eq : forall fu f args en st,
  eval_expr (S fu) (ECall f args) en st =
  match read_var st en f with
  | ROk (SVClo ps body cenv) =>
      match eargs fu args en st with
      | (st1, ROk vs) =>
          if List.length ps =? List.length vs then
            let (st2, en') := bind_params st1 cenv ps vs in
            match exec_list fu body en' false st2 with
            | (st3, _, CNorm) => (st3, ROk SVNil)
            | (st3, _, CRet v) => (st3, ROk v)
            | (st3, _, CThrow v) => (st3, RThrow v)
            | (st3, _, CAbort v) => (st3, RAbort v)
            | (st3, _, CStuck w) => (st3, RStuck w)
            | (st3, _, _) => (st3, RStuck "break outside loop")
            end
          else (st1, RStuck "arity")
      | (st1, RThrow x) => (st1, RThrow x)
      | (st1, RAbort x) => (st1, RAbort x)
      | (st1, RStuck w) => (st1, RStuck w)
      end
  | ROk _ => (st, RStuck "call of a non-function")
  | RThrow x => (st, RThrow x)
  | RAbort x => (st, RAbort x)
  | RStuck w => (st, RStuck w)
  end.
Proof.
  intros fu f args en st. cbn [eval_expr].
  assert (E : forall l st0,
    (fix go (l : list expr) (st : sst) {struct l} : sst * eres (list sval) :=
       match l with
       | [] => (st, ROk [])
       | a :: r => match eval_expr fu a en st with
                   | (st1, ROk v) => match go r st1 with
                                     | (st2, ROk vs) => (st2, ROk (v :: vs))
                                     | (st2, RThrow x) => (st2, RThrow x)
                                     | (st2, RAbort x) => (st2, RAbort x)
                                     | (st2, RStuck w) => (st2, RStuck w)
                                     end
                   | (st1, RThrow x) => (st1, RThrow x)
                   | (st1, RAbort x) => (st1, RAbort x)
                   | (st1, RStuck w) => (st1, RStuck w)
                   end
       end) l st0 = eargs fu l en st0).
  { induction l as [|a r IH]; intros st0; [reflexivity|]. cbn [eargs].
    destruct (eval_expr fu a en st0) as [s1 [v| | |]]; try reflexivity. rewrite IH. reflexivity. }
  destruct (read_var st en f) as [[| | | |ps body cenv|]| | |]; try reflexivity.
  rewrite E. reflexivity.
Qed.

Lemma args_sim : forall fu, E_goal fu -> forall args enb cenv st st' vs,
  eargs fu args (enb ++ cenv)%list st = (st', ROk vs) -> forallb expr2 args = true ->
  forall Lb Ls U cargs U' Ls', bargs cf Lb args U Ls = Some (cargs, U', Ls') ->
  forall Ufin uvec K CL HL base, (exists ext, Ufin = (U' ++ ext)%list) -> CTX K CL HL base Lb enb Ls cenv Ufin uvec ->
  forall m fn frs G O pre post, code_of funs fn = (pre ++ cargs ++ post)%list ->
  MS2 m fn uvec (code_size pre) base frs CL HL G O -> sto st K HL (cv m) (cn m) G O ->
  exists n m' K' cs G' O', steps cf funs n m m' /\
    MS2 m' fn uvec (code_size pre + code_size cargs) base frs (CL ++ cs)%list HL G' O' /\
    sto st' K' HL (cv m') (cn m') G' O' /\ KEXT K K' (cn m) (cn m') /\
    Forall2 (fun v c => vrel K' HL v (cv m' c)) vs cs /\
    (forall c, In c cs -> cn m <= c < cn m' /\ ~ In c K') /\ FRAMEC m m' K /\ cn m <= cn m' /\
    List.length vs = List.length args.
Proof.
  intros fu IHE args. induction args as [|a r IH]; intros enb cenv st st' vs He Hf Lb Ls U cargs U' Ls' Hc Ufin uvec K CL HL base HU HC
                                                       m fn frs G O pre post Hcode HM HS.
  - cbn in He, Hc. inversion He; inversion Hc; subst. exists 0, m, K, [], G, O. cbn [code_size]. rewrite Nat.add_0_r, app_nil_r.
    split; [reflexivity|]. split; [exact HM|]. split; [exact HS|]. split; [apply KEXT_refl|]. split; [constructor|].
    split; [intros c []|]. split; [apply FRAMEC_refl|]. split; [lia|reflexivity].
  - cbn in Hf. apply andb_prop in Hf as [Hfa Hfr]. cbn [eargs] in He. cbn [bargs] in Hc.
    destruct (eval_expr fu a (enb ++ cenv)%list st) as [st1 [v| | |]] eqn:Ea; try discriminate.
    destruct (eargs fu r (enb ++ cenv)%list st1) as [st2 [vs'| | |]] eqn:Er; try discriminate.
    inversion He; subst st' vs. clear He.
    destruct (bexpr cf Lb a U Ls) as [[[ca U1] Ls1]|] eqn:Eca; [|discriminate].
    destruct (bargs cf Lb r U1 Ls1) as [[[cr U2] Ls2]|] eqn:Ecr; [|discriminate]. inversion Hc; subst cargs U' Ls'. clear Hc.
    destruct (bexpr_ok cf a Hfa _ _ _ _ _ _ Eca) as (HF1 & ext1 & -> & _).
    destruct HU as [ext ->].
    assert (HU2 : exists e0, (U2 ++ ext)%list = (U2 ++ e0)%list) by eauto.
    assert (HU1 : exists e0, (U2 ++ ext)%list = ((U ++ ext1) ++ e0)%list).
    { clear -Ecr Hfr. revert U2 Ls2 cr Ecr. generalize (U ++ ext1)%list as U0. generalize Ls1 as L0.
      induction r as [|b t IHt]; intros L0 U0 U2 Ls2 cr Ecr.
      - cbn in Ecr. inversion Ecr; subst. eauto.
      - cbn in Hfr. apply andb_prop in Hfr as [Hb Ht]. cbn [bargs] in Ecr.
        destruct (bexpr cf Lb b U0 L0) as [[[cb U3] L3]|] eqn:Eb; [|discriminate].
        destruct (bargs cf Lb t U3 L3) as [[[ct U4] L4]|] eqn:Et; [|discriminate]. inversion Ecr; subst.
        destruct (bexpr_ok cf b Hb _ _ _ _ _ _ Eb) as (_ & e3 & -> & _).
        destruct (IHt Ht _ _ _ _ _ Et) as [e4 E4]. exists (e3 ++ e4)%list. rewrite E4. now rewrite <- app_assoc. }
    destruct (IHE _ _ _ _ _ _ Ea Hfa _ _ _ _ _ _ Eca (U2 ++ ext)%list uvec K CL HL base HU1 HC m fn frs G O pre (cr ++ post)%list)
      as (n1 & m1 & K1 & c1 & G1 & O1 & S1 & M1 & ST1 & KX1 & R1 & B1 & N1 & F1).
    { rewrite Hcode. now rewrite <- app_assoc. }
    { exact HM. }
    { exact HS. }
    assert (HC1 : CTX K1 (CL ++ [c1]) HL base Lb enb Ls1 cenv (U2 ++ ext)%list uvec).
    { apply CTX_app. eapply CTX_mono; eauto; [eapply KEXT_ext; eauto|apply (cx_len _ _ _ _ _ _ _ _ _ _ HC)]. }
    destruct (IH enb cenv st1 st2 vs' Er Hfr Lb Ls1 (U ++ ext1)%list cr U2 Ls2 Ecr (U2 ++ ext)%list uvec K1 (CL ++ [c1])%list HL base HU2 HC1
                 m1 fn frs G1 O1 (pre ++ ca)%list post)
      as (n2 & m2 & K2 & cs & G2 & O2 & S2 & M2 & ST2 & KX2 & R2 & B2 & F2 & Hcn2 & Hl2).
    { rewrite Hcode. now rewrite <- !app_assoc. }
    { rewrite code_size_app. exact M1. }
    { exact ST1. }
    assert (Hcn1 : cn m <= cn m1) by lia.
    exists (n1 + n2), m2, K2, (c1 :: cs), G2, O2.
    split; [eapply steps_trans; eauto|].
    split. { rewrite <- app_assoc in M2. cbn [app] in M2. rewrite !code_size_app in *. rewrite Nat.add_assoc. exact M2. }
    split; [exact ST2|].
    split. { apply (KEXT_trans K K1 K2 (cn m) (cn m1) (cn m2)); auto. }
    assert (Hc1K2 : ~ In c1 K2).
    { intro Hin. destruct (KEXT_in _ _ _ _ _ KX2 Hin) as [Hi|Hi]; [contradiction|lia]. }
    split.
    { constructor; [|exact R2]. rewrite F2; [|lia|exact N1]. eapply vrel3_mono; eauto; [eapply KEXT_ext; eauto|exists []; now rewrite app_nil_r]. }
    split. { intros c [<-|Hin]; [split; [lia|exact Hc1K2]|]. destruct (B2 _ Hin) as [Hb1 Hb2]. split; [lia|exact Hb2]. }
    split. { eapply FRAMEC_trans with (m2 := m1) (K2 := K1); eauto. intros j Hin. eapply KEXT_in; eauto. }
    split; [lia|]. cbn [List.length]. now rewrite Hl2.
Qed.

Lemma Forall2_imp : forall A B (P Q : A -> B -> Prop) l l', (forall a b, P a b -> Q a b) -> Forall2 P l l' -> Forall2 Q l l'.
Proof. intros A B P Q l l' H F. induction F; constructor; auto. Qed.

(* binding the parameters: the argument cells become the cells of the parameters, in order *)
Lemma bind_rel : forall ps vs cs st K HL cvf cnx G O cenv Lb enb CL base Lb0 st2 en',
  bparams cf ps Lb = Some Lb0 -> bind_params st (enb ++ cenv)%list ps vs = (st2, en') ->
  List.length vs = List.length ps -> Forall2 (fun v c => vrel K HL v (cvf c)) vs cs ->
  (forall c, In c cs -> c < cnx /\ ~ In c K /\ ~ In c HL) -> NoDup cs ->
  sto st K HL cvf cnx G O -> LRB K CL HL base Lb enb ->
  (forall i, i < List.length cs -> nth (base + List.length Lb + i) CL 0 = nth i cs 0) ->
  exists enb', en' = (enb' ++ cenv)%list /\ sto st2 (K ++ cs) HL cvf cnx G O /\ LRB (K ++ cs) CL HL base Lb0 enb' /\
               List.length Lb0 = List.length Lb + List.length ps.
Proof.
  induction ps as [|p r IH]; intros vs cs st K HL cvf cnx G O cenv Lb enb CL base Lb0 st2 en' Hbp Hbd Hlen HR Hfresh Hnd HS HLR Hnth.
  - destruct vs; [|discriminate]. inversion HR; subst. cbn in Hbp, Hbd. inversion Hbp; inversion Hbd; subst.
    exists enb. rewrite app_nil_r. split; [reflexivity|]. split; [exact HS|]. split; [exact HLR|]. cbn; lia.
  - destruct vs as [|v vs']; [discriminate|]. inversion HR as [|? c ? cs' Rv HR']; subst.
    cbn [bparams] in Hbp. destruct (dup_in_scope Lb p 1); [discriminate|]. destruct (List.length Lb =? c_locals_max cf); [discriminate|].
    cbn [bind_params] in Hbd. unfold new_cell in Hbd.
    destruct (Hfresh c (or_introl eq_refl)) as (Hc1 & Hc2 & Hc3). inversion Hnd as [|? ? Hnc Hnd']; subst.
    pose proof (sto3_len _ _ _ _ _ _ _ _ _ HS) as HlenK.
    assert (HS1 : sto (fst (new_cell st v)) (K ++ [c]) HL cvf cnx G O) by (apply STO3_new; auto).
    assert (HK1 : exists e, (K ++ [c])%list = (K ++ e)%list) by eauto.
    assert (HLR1 : LRB (K ++ [c]) CL HL base (mkLocal (Some p) (Some 1) false :: Lb) ((p, List.length (s_cells st)) :: enb)).
    { constructor.
      - eapply LRB_mono; eauto.
      - rewrite app_length. cbn. lia.
      - specialize (Hnth 0 ltac:(cbn; lia)). rewrite Nat.add_0_r in Hnth. cbn [nth] in Hnth. rewrite Hnth.
        unfold kc. rewrite <- HlenK, nth_middle. reflexivity.
      - unfold kc. rewrite <- HlenK, nth_middle. intro Hin. contradiction. }
    destruct (IH vs' cs' (fst (new_cell st v)) (K ++ [c])%list HL cvf cnx G O cenv (mkLocal (Some p) (Some 1) false :: Lb)
                 ((p, List.length (s_cells st)) :: enb) CL base Lb0 st2 en' Hbp Hbd ltac:(cbn in Hlen; lia))
      as (enb' & E1 & E2 & E3 & E4); auto.
    + revert HR'. apply Forall2_imp. intros a b Hab. eapply vrel3_mono; eauto. exists []. now rewrite app_nil_r.
    + intros c' Hin. destruct (Hfresh c' (or_intror Hin)) as (A & B & C). split; [exact A|]. split; [|exact C].
      intro Hi. apply in_app_or in Hi as [Hi|[<-|[]]]; [contradiction|contradiction].
    + intros i Hi. specialize (Hnth (S i) ltac:(cbn; lia)). cbn [List.length nth] in *.
      replace (base + S (List.length Lb) + i) with (base + List.length Lb + S i) by lia. exact Hnth.
    + exists enb'. rewrite <- app_assoc in E2, E3. cbn [app] in E2, E3. split; [exact E1|]. split; [exact E2|]. split; [exact E3|].
      cbn [List.length] in *. lia.
Qed.

Lemma bargs_ok : forall args, forallb expr2 args = true -> forall Lb U Ls ca U' Ls',
  bargs cf Lb args U Ls = Some (ca, U', Ls') -> bstep_ok U Ls U' Ls'.
Proof.
  intros args Hf Lb. apply bargs_ok_aux. induction args as [|a r IH]; constructor.
  - cbn in Hf. apply andb_prop in Hf as [Ha _]. intros. eapply bexpr_ok; eauto.
  - cbn in Hf. apply andb_prop in Hf as [_ Hr]. auto.
Qed.

Lemma NoDup_app_r : forall A (a b : list A), NoDup (a ++ b) -> NoDup b.
Proof. induction a as [|x r IH]; intros b H; [exact H|]. inversion H; subst. auto. Qed.

Lemma Forall2_len : forall A B (P : A -> B -> Prop) l l', Forall2 P l l' -> List.length l = List.length l'.
Proof. intros A B P l l' H. induction H; cbn; auto. Qed.

Lemma E_step : forall fu, E_goal fu -> BL_goal fu -> E_goal (S fu).
Proof.
  intros fu IHE IHB e enb cenv st st' v He Hf Lb Ls U ce U' Ls' Hc Ufin uvec K CL HL base HU HC m fn frs G O pre post Hcode HM HS.
  destruct e as [n|x|a b|f args| |vv k args]; cbn in Hf; try discriminate.
  - (* ELit *)
    cbn in He, Hc. inversion He; inversion Hc; subst. eapply E_lit; eauto.
  - (* EVar *)
    cbn in He, Hc. destruct (rvb cf Lb Ls U x) as [[[r U1] Ls1]|] eqn:Er; [|discriminate]. inversion Hc; subst ce U1 Ls1. clear Hc.
    assert (Hfe : fetch (code_of funs fn) (code_size pre) = Some (get_op r x)) by (rewrite Hcode; apply fetch_app).
    unfold read_var in He. destruct (assoc (enb ++ cenv)%list x) as [c|] eqn:Ea.
    + inversion He; subst st' v. clear He.
      pose proof (resolve_cell _ _ _ _ _ _ _ _ _ _ _ _ _ _ _ _ Er Ea (cx_lrb _ _ _ _ _ _ _ _ _ _ HC) (cx_len _ _ _ _ _ _ _ _ _ _ HC)
                    (cx_cenv _ _ _ _ _ _ _ _ _ _ HC) (cx_ur _ _ _ _ _ _ _ _ _ _ HC) HU) as Hw.
      destruct (exec_get _ _ _ _ _ _ _ x _ _ _ _ _ _ Hw HM Hfe) as (m' & A & B & C & D).
      destruct (sto_push _ _ _ _ _ _ _ _ HS C D) as (S1 & S2 & S3).
      assert (Hck : c < List.length K) by (destruct Hw; assumption).
      exists 1, m', K, (cn m), G, O. split; [now apply steps_one|]. split; [cbn [code_size]; rewrite Nat.add_0_r; exact B|].
      split; [exact S1|]. split; [apply KEXT_refl|].
      split. { rewrite C, upd_same. apply (sto3_val _ _ _ _ _ _ _ _ _ HS c Hck). }
      split; [lia|]. split; [exact S2|exact S3].
    + destruct (assoc (s_globals st) x) as [gv|] eqn:Eg; [|discriminate]. inversion He; subst st' v. clear He.
      pose proof (resolve_global _ _ _ _ _ _ _ _ _ _ _ _ _ Er Ea (cx_lrb _ _ _ _ _ _ _ _ _ _ HC) (cx_cenv _ _ _ _ _ _ _ _ _ _ HC)) as ->.
      cbn [get_op] in *.
      destruct (GR3_assoc _ _ _ _ _ _ _ _ (sto3_g _ _ _ _ _ _ _ _ _ HS) Eg) as (w & Eg' & Rw).
      destruct (step2_getglobal cf funs _ _ _ _ _ _ _ _ _ _ _ _ HM Hfe Eg') as (m' & A & B & C & D).
      destruct (sto_push _ _ _ _ _ _ _ _ HS C D) as (S1 & S2 & S3).
      exists 1, m', K, (cn m), G, O. split; [now apply steps_one|]. split; [cbn [code_size isize]; rewrite Nat.add_0_r; exact B|].
      split; [exact S1|]. split; [apply KEXT_refl|]. split; [rewrite C, upd_same; exact Rw|].
      split; [lia|]. split; [exact S2|exact S3].
  - (* EAdd *)
    apply andb_prop in Hf as [Hfa Hfb]. cbn in He.
    destruct (eval_expr fu a (enb ++ cenv)%list st) as [st1 [va| | |]] eqn:Ea; try (inversion He; fail).
    destruct va as [x| | | | |]; try (inversion He; fail).
    destruct (eval_expr fu b (enb ++ cenv)%list st1) as [st2 [vb| | |]] eqn:Eb; try (inversion He; fail).
    destruct vb as [y| | | | |]; try (inversion He; fail).
    inversion He; subst st' v. clear He. cbn [bexpr] in Hc.
    destruct (bexpr cf Lb a U Ls) as [[[ca U1] Ls1]|] eqn:Eca; [|discriminate].
    destruct (bexpr cf Lb b U1 Ls1) as [[[cb U2] Ls2]|] eqn:Ecb; [|discriminate]. inversion Hc; subst ce U' Ls'. clear Hc.
    destruct (bexpr_ok cf a Hfa _ _ _ _ _ _ Eca) as (HF1 & ext1 & -> & _).
    destruct (bexpr_ok cf b Hfb _ _ _ _ _ _ Ecb) as (HF2 & ext2 & -> & _).
    destruct HU as [ext ->].
    destruct (IHE _ _ _ _ _ _ Ea Hfa _ _ _ _ _ _ Eca (((U ++ ext1) ++ ext2) ++ ext)%list uvec K CL HL base) with (m := m) (fn := fn) (frs := frs) (G := G) (O := O)
        (pre := pre) (post := ((cb ++ [IAdd]) ++ post)%list) as (n1 & m1 & K1 & c1 & G1 & O1 & S1 & M1 & ST1 & KX1 & R1 & B1 & N1 & F1).
    { exists (ext2 ++ ext)%list. now rewrite <- !app_assoc. }
    { exact HC. }
    { rewrite Hcode. now rewrite <- !app_assoc. }
    { exact HM. }
    { exact HS. }
    inversion R1 as [z Hz1 Hz2| |]; subst z.
    assert (HC1 : CTX K1 (CL ++ [c1]) HL base Lb enb Ls1 cenv (((U ++ ext1) ++ ext2) ++ ext)%list uvec).
    { apply CTX_app. eapply CTX_mono; eauto.
      - eapply KEXT_ext; eauto.
      - apply (cx_len _ _ _ _ _ _ _ _ _ _ HC). }
    destruct (IHE _ _ _ _ _ _ Eb Hfb _ _ _ _ _ _ Ecb (((U ++ ext1) ++ ext2) ++ ext)%list uvec K1 (CL ++ [c1])%list HL base) with (m := m1) (fn := fn) (frs := frs) (G := G1) (O := O1)
        (pre := (pre ++ ca)%list) (post := ([IAdd] ++ post)%list) as (n2 & m2 & K2 & c2 & G2 & O2 & S2 & M2 & ST2 & KX2 & R2 & B2 & N2 & F2).
    { exists ext. reflexivity. }
    { exact HC1. }
    { rewrite Hcode. now rewrite <- !app_assoc. }
    { rewrite code_size_app. exact M1. }
    { exact ST1. }
    inversion R2 as [z Hz3 Hz4| |]; subst z.
    assert (Hfe : fetch (code_of funs fn) (code_size (pre ++ ca) + code_size cb) = Some IAdd).
    { eapply fetch_mid with (c2 := []) (post := post). rewrite Hcode. now rewrite <- !app_assoc. }
    rewrite <- app_assoc in M2. cbn [app] in M2.
    pose proof (m2_s _ _ _ _ _ _ _ _ _ _ (M2)) as SK2.
    assert (Hc1v : cv m2 c1 = MInt x).
    { rewrite F2; [congruence|lia|]. intro Hin. destruct KX1 as (e1 & -> & He1). apply N1. exact Hin. }
    assert (Hh1 : ~ In c1 HL). { intro Hin. pose proof (s2_hl_lt _ _ _ (m2_s _ _ _ _ _ _ _ _ _ _ HM) _ Hin). unfold cn in *. lia. }
    assert (Hh2 : ~ In c2 HL). { intro Hin. pose proof (s2_hl_lt _ _ _ (m2_s _ _ _ _ _ _ _ _ _ _ M1) _ Hin). unfold cn in *. lia. }
    destruct (step2_add cf funs _ _ _ _ _ _ _ _ _ _ _ _ _ _ M2 Hfe Hc1v (eq_sym Hz4) Hh1 Hh2) as (m3 & A3 & B3 & C3 & D3).
    destruct (sto_push _ _ _ _ _ _ _ _ ST2 C3 D3) as (S31 & S32 & S33).
    exists (n1 + n2 + 1), m3, K2, (cn m2), G2, O2.
    split. { eapply steps_trans; [eapply steps_trans; eauto|now apply steps_one]. }
    split. { rewrite !code_size_app in *. cbn [code_size isize] in *.
             replace (code_size pre + (code_size ca + (code_size cb + (1 + 0)))) with (code_size pre + code_size ca + code_size cb + 1) by lia. exact B3. }
    split; [exact S31|].
    assert (Hm12 : cn m <= cn m1) by lia. assert (Hm23 : cn m1 <= cn m2) by lia.
    split. { eapply KEXT_widen; [eapply KEXT_trans; eauto|lia|lia]. }
    split. { rewrite C3, upd_same. constructor. }
    split; [lia|]. split; [exact S32|].
    eapply FRAMEC_trans with (m2 := m2) (K2 := K2); [eapply FRAMEC_trans with (m2 := m1) (K2 := K1); eauto| | |].
    + intros j Hin. destruct KX1 as (e1 & -> & He1). apply in_app_or in Hin as [Hin|Hin]; [now left|right; apply He1 in Hin; lia].
    + exact S33.
    + lia.
    + intros j Hin. destruct KX1 as (e1 & -> & He1). destruct KX2 as (e2 & -> & He2).
      apply in_app_or in Hin as [Hin|Hin]; [apply in_app_or in Hin as [Hin|Hin]; [now left|right; apply He1 in Hin; lia]|right; apply He2 in Hin; lia].
  - (* ECall f args *)
    rewrite eval_call_eq in He.
    destruct (read_var st (enb ++ cenv)%list f) as [callee| | |] eqn:Erd; try (inversion He; fail).
    destruct callee as [| | | |ps body cenv'|]; try (inversion He; fail).
    destruct (eargs fu args (enb ++ cenv)%list st) as [st1 [vs| | |]] eqn:Eargs; try (inversion He; fail).
    destruct (List.length ps =? List.length vs) eqn:Eps; [|inversion He]. apply Nat.eqb_eq in Eps.
    destruct (bind_params st1 cenv' ps vs) as [st2 en2] eqn:Ebind.
    destruct (exec_list fu body en2 false st2) as [[st3 en3] ctl] eqn:Ex.
    assert (Hgood : good ctl /\ v = match ctl with CRet w => w | _ => SVNil end /\ st' = st3).
    { destruct ctl; inversion He; subst; (split; [|split; reflexivity]); [left; reflexivity|right; eauto]. }
    destruct Hgood as (Hgood & Hv & ->). clear He.
    destruct fu as [|fu']; [cbn in Ex; inversion Ex; subst; destruct Hgood as [|[? ?]]; discriminate|].
    (* compile *)
    rewrite bexpr_call in Hc. destruct (rvb cf Lb Ls U f) as [[[r U0] Ls0]|] eqn:Er; [|discriminate].
    destruct (bargs cf Lb args U0 Ls0) as [[[cargs U3] Ls3]|] eqn:Eba; [|discriminate].
    inversion Hc; subst ce U' Ls'. clear Hc.
    destruct (rvb_ok cf _ _ _ _ _ _ _ Er) as (HF0 & ext0 & -> & _).
    destruct (bargs_ok args Hf _ _ _ _ _ _ Eba) as (HF3 & ext3 & -> & _).
    destruct HU as [ext ->].
    set (Ufin := (((U ++ ext0) ++ ext3) ++ ext)%list) in *.
    (* the callee value is pushed: the EVar case at the smaller fuel *)
    assert (Ev : eval_expr (S fu') (EVar f) (enb ++ cenv)%list st = (st, ROk (SVClo ps body cenv'))) by (cbn; now rewrite Erd).
    assert (Ecv : bexpr cf Lb (EVar f) U Ls = Some ([get_op r f], (U ++ ext0)%list, Ls0)) by (cbn; now rewrite Er).
    destruct (IHE _ _ _ _ _ _ Ev eq_refl _ _ _ _ _ _ Ecv Ufin uvec K CL HL base ltac:(exists (ext3 ++ ext)%list; unfold Ufin; now rewrite <- !app_assoc)
                HC m fn frs G O pre ((cargs ++ [ICall (List.length args)]) ++ post)%list)
      as (n1 & m1 & K1 & c1 & G1 & O1 & S1 & M1 & ST1 & KX1 & R1 & B1 & N1 & F1).
    { rewrite Hcode. cbn. now rewrite <- !app_assoc. }
    { exact HM. }
    { exact HS. }
    (* the arguments *)
    assert (HC1 : CTX K1 (CL ++ [c1]) HL base Lb enb Ls0 cenv Ufin uvec).
    { apply CTX_app. eapply CTX_mono; eauto; [eapply KEXT_ext; eauto|apply (cx_len _ _ _ _ _ _ _ _ _ _ HC)]. }
    destruct (args_sim (S fu') IHE args enb cenv st st1 vs Eargs Hf Lb Ls0 (U ++ ext0)%list cargs _ Ls3 Eba Ufin uvec K1 (CL ++ [c1])%list HL base
                ltac:(exists ext; reflexivity) HC1 m1 fn frs G1 O1 (pre ++ [get_op r f])%list ([ICall (List.length args)] ++ post)%list)
      as (n2 & m2 & K2 & cs & G2 & O2 & S2 & M2 & ST2 & KX2 & R2 & B2 & F2 & Hcn2 & Hlvs).
    { rewrite Hcode. cbn. now rewrite <- !app_assoc. }
    { rewrite code_size_app. exact M1. }
    { exact ST1. }
    assert (Hcn1 : cn m <= cn m1) by lia.
    pose proof (Forall2_len _ _ _ _ _ R2) as Hlcs.
    inversion R1 as [| |ps1 body1 cenv1 fnc Uv Lc codeb Uc Lc' Hfrag Hcb HEnv Hfn HlenU HUR Hcells Hz1 Hz2]; subst.
    assert (Hc1v : cv m2 c1 = MClo fnc Uv) by (rewrite F2; [congruence|lia|exact N1]).
    assert (Har : f_arity (nth fnc funs dfunc) = List.length args) by (rewrite (nth_error_nth_d _ _ _ Hfn); cbn; lia).
    assert (Hfe : fetch (code_of funs fn) (code_size (pre ++ [get_op r f]) + code_size cargs) = Some (ICall (List.length args))).
    { eapply fetch_mid with (c2 := []) (post := post). rewrite Hcode. cbn. now rewrite <- !app_assoc. }
    rewrite <- app_assoc in M2. cbn [app] in M2.
    destruct (step2_call cf funs m2 fn uvec _ base frs CL c1 cs HL G2 O2 (List.length args) fnc Uv M2 Hfe ltac:(lia) Hc1v Har)
      as (m3 & A3 & B3 & C3 & D3).
    (* the parameters *)
    unfold cbody in Hcb. destruct (bparams cf ps [mkLocal None (Some 0) false]) as [Lb0|] eqn:Ebp; [|discriminate].
    destruct (blist cf body Lb0 1 [] Lc) as [[[[code1 Lb1] Uc1] Lc1]|] eqn:Ebl; [|discriminate].
    inversion Hcb; subst codeb Uc1 Lc1. clear Hcb.
    assert (Hcode_c : code_of funs fnc = (code1 ++ [INil; IReturn])%list).
    { unfold code_of. rewrite (nth_error_nth_d _ _ _ Hfn). reflexivity. }
    pose proof (m2_s _ _ _ _ _ _ _ _ _ _ M2) as SK2.
    assert (Hndcs : NoDup cs).
    { pose proof (s2_cl_nd _ _ _ SK2) as Hnd. apply NoDup_app_r in Hnd. now inversion Hnd. }
    assert (Hfresh : forall c, In c cs -> c < cn m3 /\ ~ In c K2 /\ ~ In c HL).
    { intros c Hin. destruct (B2 _ Hin) as [Hb1 Hb2]. split; [rewrite D3; lia|]. split; [exact Hb2|].
      apply (notin_HL_fresh _ _ _ _ _ _ _ _ _ _ c HM). lia. }
    assert (ST3 : sto st1 K2 HL (cv m3) (cn m3) G2 O2) by (rewrite C3, D3; exact ST2).
    assert (HR3 : Forall2 (fun v c => vrel K2 HL v (cv m3 c)) vs cs) by (rewrite C3; exact R2).
    destruct (bind_rel ps vs cs st1 K2 HL (cv m3) (cn m3) G2 O2 cenv' [mkLocal None (Some 0) false] [] (CL ++ c1 :: cs)%list (List.length CL) Lb0 st2 en2
                Ebp Ebind (eq_sym Eps) HR3 Hfresh Hndcs ST3 ltac:(constructor))
      as (enb0 & -> & ST4 & LR4 & HlenLb0).
    { intros i Hi. cbn [List.length]. rewrite app_nth2 by lia. replace (List.length CL + 1 + i - List.length CL) with (S i) by lia. reflexivity. }
    (* the body *)
    destruct (bparams_locals cf ps _ _ Ebp) as (Np & -> & HNp & HNplen).
    assert (Hd0 : depth_le 1 (Np ++ [mkLocal None (Some 0) false])).
    { apply Forall_app. split; [revert HNp; apply Forall_impl; intros l [E _]; now rewrite E|constructor; [cbn; lia|constructor]]. }
    assert (HK2 : exists e, K2 = (K1 ++ e)%list) by (eapply KEXT_ext; eauto).
    assert (HCb : CTX (K2 ++ cs) (CL ++ c1 :: cs) HL (List.length CL) (Np ++ [mkLocal None (Some 0) false]) enb0 Lc cenv' Uc Uv).
    { constructor.
      - exact LR4.
      - rewrite HlenLb0, app_length. cbn [List.length]. lia.
      - right. exists Lc. split; [exact HEnv|apply flags_up_refl].
      - eapply UR_mono; [|exists cs; reflexivity]. eapply UR_mono; [exact HUR|exact HK2].
      - intros x c Hin. rewrite app_length. destruct HK2 as [e2 ->]. rewrite app_length. pose proof (Hcells _ _ Hin). lia. }
    destruct (IHB body enb0 cenv' st2 st3 en3 ctl Ex Hgood Hfrag _ 1 [] Lc code1 Lb1 Uc Lc' Ebl (le_n 1) Hd0 Uc Uv (K2 ++ cs)%list (CL ++ c1 :: cs)%list HL (List.length CL))
      with (m := m3) (fn := fnc) (fn0 := fn) (ups0 := uvec) (pc0 := code_size (pre ++ [get_op r f]) + code_size cargs + 2) (base0 := base) (frs' := frs)
           (G := G2) (O := O2) (pre := @nil instr) (post := [INil; IReturn])
      as (n4 & m4 & K4 & G4 & O4 & S4 & ST5 & KX4 & F4 & Hcn4 & Hres).
    { exists []. now rewrite app_nil_r. }
    { exact HCb. }
    { rewrite HlenLb0, app_length. cbn [List.length]. lia. }
    { rewrite Hcode_c. reflexivity. }
    { exact B3. }
    { exact ST4. }
    assert (Hfirst : firstn (List.length CL) (CL ++ c1 :: cs) = CL).
    { rewrite firstn_app, Nat.sub_diag, firstn_all. cbn. now rewrite app_nil_r. }
    assert (Hpc : code_size (pre ++ [get_op r f]) + code_size cargs + 2 = code_size pre + code_size (get_op r f :: cargs ++ [ICall (List.length args)])).
    { rewrite code_size_app. cbn [code_size]. rewrite code_size_app. cbn [code_size isize]. lia. }
    assert (Hcn3 : cn m3 = cn m2) by exact D3.
    (* bookkeeping over the whole call *)
    assert (HK4in : forall j, In j K4 -> In j K \/ cn m <= j).
    { intros j Hin. destruct (KEXT_in _ _ _ _ _ KX4 Hin) as [Hi|Hi]; [|right; lia].
      apply in_app_or in Hi as [Hi|Hi]; [|right; destruct (B2 _ Hi); lia].
      destruct (KEXT_in _ _ _ _ _ KX2 Hi) as [Hi2|Hi2]; [|right; lia].
      destruct (KEXT_in _ _ _ _ _ KX1 Hi2) as [Hi3|Hi3]; [now left|right; lia]. }
    assert (HKX : KEXT K K4 (cn m) (cn m4)).
    { destruct KX1 as (e1 & -> & He1). destruct KX2 as (e2 & -> & He2). destruct KX4 as (e4 & -> & He4).
      exists (((e1 ++ e2) ++ cs) ++ e4)%list. split; [now rewrite <- !app_assoc|].
      intros k Hin. apply in_app_or in Hin as [Hin|Hin]; [|apply He4 in Hin; lia].
      apply in_app_or in Hin as [Hin|Hin]; [|destruct (B2 _ Hin); lia].
      apply in_app_or in Hin as [Hin|Hin]; [apply He1 in Hin|apply He2 in Hin]; lia. }
    assert (HF14 : FRAMEC m m4 K).
    { intros j Hj Hn. rewrite F4; [|lia|].
      - rewrite C3. rewrite F2; [|lia|]. + apply F1; auto. + intro Hin. destruct (KEXT_in _ _ _ _ _ KX1 Hin) as [Hi|Hi]; [contradiction|lia].
      - intro Hin. apply in_app_or in Hin as [Hin|Hin]; [|destruct (B2 _ Hin); lia].
        destruct (KEXT_in _ _ _ _ _ KX2 Hin) as [Hi|Hi]; [|lia]. destruct (KEXT_in _ _ _ _ _ KX1 Hi) as [Hi2|Hi2]; [contradiction|lia]. }
    destruct ctl as [| | |w| | |]; try contradiction; try (destruct Hgood as [Hg|[? Hg]]; discriminate).
    + (* the body fell off its end: Nil; Return *)
      destruct Hres as (CL4 & enb4 & _ & B4 & _ & HlenCL4 & Hfirst4 & _).
      cbn [code_size Nat.add] in B4.
      assert (Hf1 : fetch (code_of funs fnc) (code_size code1) = Some INil).
      { rewrite Hcode_c. replace (code_size code1) with (code_size [] + code_size code1) by reflexivity.
        eapply fetch_mid with (pre := []) (c2 := [IReturn]) (post := []). cbn. now rewrite app_nil_r. }
      destruct (step2_nil cf funs _ _ _ _ _ _ _ _ _ _ B4 Hf1) as (m5 & A5 & B5 & C5 & D5).
      assert (Hf2 : fetch (code_of funs fnc) (code_size code1 + 1) = Some IReturn).
      { rewrite Hcode_c. replace (code_size code1 + 1) with (code_size [] + code_size (code1 ++ [INil])) by (rewrite code_size_app; cbn; lia).
        eapply fetch_mid with (pre := []) (c2 := []) (post := []). cbn. rewrite app_nil_r, <- app_assoc. reflexivity. }
      assert (Hh5 : ~ In (cn m4) HL) by (apply (notin_HL_fresh _ _ _ _ _ _ _ _ _ _ (cn m4) HM); lia).
      destruct (step2_return cf funs _ _ _ _ _ _ _ _ _ _ _ _ _ _ _ B5 Hf2 ltac:(lia) Hh5) as (m6 & A6 & B6 & C6 & D6).
      rewrite Hfirst4, Hfirst in B6.
      destruct (sto_push _ _ _ _ _ _ _ _ ST5 C5 D5) as (S51 & S52 & S53).
      destruct (sto_push _ _ _ _ _ _ _ _ S51 C6 D6) as (S61 & S62 & S63).
      exists (n1 + (n2 + (1 + (n4 + 2)))), m6, K4, (cn m5), G4, O4.
      split. { apply (steps_trans cf funs n1 _ m m1 m6 S1). apply (steps_trans cf funs n2 _ m1 m2 m6 S2). exists m3. split; [exact A3|].
               apply (steps_trans cf funs n4 2 m3 m4 m6 S4). exists m5. split; [exact A5|]. now apply steps_one. }
      split. { rewrite <- Hpc. exact B6. }
      split; [exact S61|].
      split. { apply (KEXT_widen K K4 (cn m) (cn m4)); auto; lia. }
      split. { rewrite C6, upd_same, C5, upd_same. constructor. }
      split; [lia|]. split; [exact S62|].
      intros j Hj Hn. rewrite C6, upd_other by lia. rewrite C5, upd_other by lia. apply HF14; auto.
    + (* return inside the body *)
      destruct Hres as (cres & B5 & R5 & Bd5 & N5). rewrite Hfirst in B5.
      exists (n1 + (n2 + (1 + n4))), m4, K4, cres, G4, O4.
      split. { apply (steps_trans cf funs n1 _ m m1 m4 S1). apply (steps_trans cf funs n2 _ m1 m2 m4 S2). exists m3. split; [exact A3|exact S4]. }
      split. { rewrite <- Hpc. exact B5. }
      split; [exact ST5|]. split; [exact HKX|]. split; [exact R5|]. split; [lia|]. split; [exact N5|exact HF14].
Qed.

(* ------------------------------------------------------------------------------------------ *)
(* script level *)

Lemma STO_ext3 : forall st K HL f g cnx G O, (forall j, g j = f j) -> sto st K HL f cnx G O -> sto st K HL g cnx G O.
Proof. intros st K HL f g cnx G O E [H1 H2 H3 H4 H5 H6]. constructor; auto. intros c Hc. rewrite E. auto. Qed.

Lemma rev_cons_nth_last : forall A (l : A) Lt, nth_error (rev (l :: Lt)) (List.length Lt) = Some l.
Proof. intros. cbn [rev]. rewrite nth_error_app2 by (rewrite rev_length; lia). now rewrite rev_length, Nat.sub_diag. Qed.

Lemma rev_cons_nth_old : forall A (l : A) Lt s, s < List.length Lt -> nth_error (rev (l :: Lt)) s = nth_error (rev Lt) s.
Proof. intros. cbn [rev]. apply nth_error_app1. now rewrite rev_length. Qed.

(* the handle list grows: fine as long as a newly captured local cell has its flag set *)
Lemma LRB_rehl : forall K CL HL HL' base L en, LRB K CL HL base L en ->
  (forall s l, nth_error (rev L) s = Some l -> In (nth (base + s) CL 0) HL' -> In (nth (base + s) CL 0) HL \/ l_capt l = true) ->
  LRB K CL HL' base L en.
Proof.
  intros K CL HL HL' base L en H. induction H as [b0|L en y c0 d b H IH Hc Hn Hf]; intros HH; constructor; auto.
  - apply IH. intros s l Hs Hin. pose proof (ENV_len _ _ (LRB_ENV _ _ _ _ _ _ H)) as Hl.
    assert (s < List.length L) by (apply nth_error_Some in Hs || idtac; rewrite <- rev_length; apply nth_error_Some; congruence).
    apply HH; auto. now rewrite rev_cons_nth_old.
  - intros Hin. rewrite <- Hn in Hin. destruct (HH (List.length L) _ (rev_cons_nth_last _ _ _) Hin) as [Hold|Hb]; [|exact Hb].
    rewrite Hn in Hold. auto.
Qed.

Lemma LRB_entry : forall K CL HL base L en s x c, LRB K CL HL base L en -> entry_at en s = Some (x, c) -> 1 <= s ->
  nth (base + s) CL 0 = kc K c /\ c < List.length K.
Proof.
  intros K CL HL base L en s x c H. induction H as [b0|L en y c0 d b H IH Hc Hn Hf]; intros He Hs.
  - unfold entry_at in He. cbn in He. destruct (s - 1); discriminate.
  - pose proof (ENV_len _ _ (LRB_ENV _ _ _ _ _ _ H)) as Hl.
    destruct (Nat.eq_dec s (List.length L)) as [->|Hne].
    + rewrite Hl in He. rewrite entry_at_cons_new in He. inversion He; subst. auto.
    + assert (Hb : s <= List.length en).
      { unfold entry_at in He. assert (s - 1 < List.length (rev ((y, c0) :: en))) by (apply nth_error_Some; congruence).
        rewrite rev_length in H0. cbn in H0. lia. }
      rewrite entry_at_cons_old in He by lia. auto.
Qed.

(* dropping the newest locals *)
Lemma LRB_drop : forall K CL HL base N L Ne en, LRB K CL HL base (N ++ L)%list (Ne ++ en)%list ->
  List.length N = List.length Ne -> L <> [] -> LRB K CL HL base L en.
Proof.
  intros K CL HL base N. induction N as [|l N IH]; intros L Ne en H Hlen Hne.
  - destruct Ne; [exact H|discriminate].
  - destruct Ne as [|e Ne]; [discriminate|]. cbn in H. inversion H; subst.
    eapply IH; eauto.
Qed.

Lemma ENV_slot0 : forall L en l, ENV L en -> nth_error (rev L) 0 = Some l -> l_name l = None.
Proof.
  intros L en l H. induction H as [b0|L en y c0 d b H IH]; intros E.
  - cbn in E. inversion E; reflexivity.
  - pose proof (ENV_len _ _ H) as Hl. rewrite rev_cons_nth_old in E by lia. auto.
Qed.

Lemma entry_at_some : forall en s, 1 <= s <= List.length en -> exists x c, entry_at en s = Some (x, c).
Proof.
  intros en s H. unfold entry_at. destruct (nth_error (rev en) (s - 1)) as [[x c]|] eqn:E; [eauto|].
  apply nth_error_None in E. rewrite rev_length in E. lia.
Qed.

Lemma nth_map_error : forall A B (f : A -> B) l k a d, nth_error l k = Some a -> nth k (map f l) d = f a.
Proof. induction l as [|x r IH]; intros [|k] a d H; cbn in *; try discriminate; [now inversion H|eauto]. Qed.

Lemma scope_end_nil : forall L0 d, depth_le d L0 -> L0 <> [] -> scope_end_ops L0 d = [].
Proof.
  intros [|l0 L0] d HL Hne; [congruence|]. cbn [scope_end_ops]. inversion HL as [|? ? Hd _]; subst.
  destruct (l_depth l0) as [d'|]; [|reflexivity]. destruct (d <? d') eqn:E; [apply Nat.ltb_lt in E; lia|reflexivity].
Qed.

Lemma LRB_cons_inv : forall K CL HL base l L x c en, LRB K CL HL base (l :: L) ((x, c) :: en) ->
  exists d b, l = mkLocal (Some x) (Some d) b /\ LRB K CL HL base L en /\ c < List.length K /\
              nth (base + List.length L) CL 0 = kc K c /\ (In (kc K c) HL -> b = true).
Proof. intros K CL HL base l L x c en H. inversion H; subst. eauto 10. Qed.

Lemma scope_end_run_b : forall N K CL HL base L0 Ne en d m fn uvec frs pre post G O,
  LRB K CL HL base (N ++ L0)%list (Ne ++ en)%list -> List.length N = List.length Ne -> List.length CL = base + List.length (N ++ L0)%list ->
  Forall (fun l => l_depth l = Some (S d)) N -> depth_le d L0 -> L0 <> [] ->
  code_of funs fn = (pre ++ scope_end_ops (N ++ L0) d ++ post)%list ->
  MS2 m fn uvec (code_size pre) base frs CL HL G O ->
  exists m', steps cf funs (List.length N) m m' /\
    MS2 m' fn uvec (code_size pre + code_size (scope_end_ops (N ++ L0) d)) base frs (firstn (base + List.length L0) CL) HL G O /\
    cv m' = cv m /\ cn m' = cn m.
Proof.
  induction N as [|l N IH]; intros K CL HL base L0 Ne en d m fn uvec frs pre post G O HLR HNe Hlen HN Hd Hne Hcode HM.
  - cbn [app] in *. rewrite (scope_end_nil _ _ Hd Hne). exists m. split; [reflexivity|]. cbn [code_size]. rewrite Nat.add_0_r.
    rewrite <- Hlen, firstn_all. auto.
  - destruct Ne as [|[x c1] Ne]; [discriminate|]. cbn [app] in HLR, Hlen.
    destruct (LRB_cons_inv _ _ _ _ _ _ _ _ _ HLR) as (dd & b & -> & HLRt & Hck & Hnth & Hflag).
    inversion HN as [|? ? Hdl HN']; subst. cbn [l_depth] in Hdl. inversion Hdl; subst dd.
    cbn [app scope_end_ops l_depth l_capt] in *.
    destruct (d <? S d) eqn:Eltb; [|apply Nat.ltb_ge in Eltb; lia].
    assert (Hcl : CL <> []) by (intro; subst; cbn in Hlen; lia).
    destruct (exists_last Hcl) as (CL0 & c & ->). rewrite app_length in Hlen. cbn in Hlen.
    assert (HlenCL0 : List.length CL0 = base + List.length (N ++ L0)) by lia.
    rewrite <- HlenCL0 in Hnth. rewrite nth_middle in Hnth. subst c.
    set (op := if b then ICloseUpvalue else IPop) in *.
    assert (Hfe : fetch (code_of funs fn) (code_size pre) = Some op) by (rewrite Hcode; apply fetch_app).
    assert (Hstep : exists m1, mstep cf funs m = MRun m1 /\ MS2 m1 fn uvec (code_size pre + 1) base frs CL0 HL G O /\ cv m1 = cv m /\ cn m1 = cn m).
    { destruct b; unfold op in Hfe.
      - destruct (step2_closeup cf funs _ _ _ _ _ _ _ _ _ _ _ HM Hfe) as (m1 & A & B & C & D). eauto.
      - assert (Hn : ~ In (kc K c1) HL) by (intro Hin; specialize (Hflag Hin); discriminate).
        destruct (step2_pop cf funs _ _ _ _ _ _ _ _ _ _ _ HM Hfe Hn) as (m1 & A & B & C & D). eauto. }
    destruct Hstep as (m1 & A1 & B1 & C1 & D1).
    assert (HLR0 : LRB K CL0 HL base (N ++ L0)%list (Ne ++ en)%list).
    { eapply LRB_mono; eauto; [exists []; now rewrite app_nil_r|].
      intros i Hi. rewrite app_nth1 by lia. reflexivity. }
    destruct (IH K CL0 HL base L0 Ne en d m1 fn uvec frs (pre ++ [op])%list post G O HLR0 ltac:(cbn in HNe; lia) HlenCL0 HN' Hd Hne) as (m2 & S2 & M2 & C2 & D2).
    { rewrite Hcode. now rewrite <- app_assoc. }
    { rewrite code_size_app. cbn [code_size]. replace (isize op) with 1 by (unfold op; destruct b; reflexivity).
      replace (code_size pre + (1 + 0)) with (code_size pre + 1) by lia. exact B1. }
    exists m2. split; [exists m1; split; [exact A1|exact S2]|].
    split.
    { rewrite code_size_app in M2. cbn [code_size] in M2 |- *. replace (isize op) with 1 in * by (unfold op; destruct b; reflexivity).
      rewrite firstn_app. replace (base + List.length L0 - List.length CL0) with 0 by (rewrite HlenCL0, app_length; lia).
      cbn [firstn]. rewrite app_nil_r.
      replace (code_size pre + (1 + code_size (scope_end_ops (N ++ L0) d))) with (code_size pre + (1 + 0) + code_size (scope_end_ops (N ++ L0) d)) by lia.
      exact M2. }
    split; congruence.
Qed.


(* an uninitialised local in front (the variable being declared) is invisible to its initialiser *)
Lemma rvb_uninit : forall x Lb Ls U y r, rvb cf (mkLocal (Some x) None false :: Lb) Ls U y = Some r -> rvb cf Lb Ls U y = Some r.
Proof.
  intros x Lb Ls U y r H. unfold rvb in *. cbn [resolve_local] in H. unfold name_is in H. cbn [l_name l_depth] in H.
  destruct (x =? y); [discriminate|]. exact H.
Qed.

Lemma bexpr_uninit : forall x e, expr2 e = true -> forall Lb U Ls r,
  bexpr cf (mkLocal (Some x) None false :: Lb) e U Ls = Some r -> bexpr cf Lb e U Ls = Some r.
Proof.
  intros x e He. pattern e. revert e He. apply expr2_ind.
  - intros n Lb U Ls r H. exact H.
  - intros y Lb U Ls r H. cbn [bexpr] in *.
    destruct (rvb cf (mkLocal (Some x) None false :: Lb) Ls U y) as [[[r0 U1] Ls1]|] eqn:E; [|discriminate].
    rewrite (rvb_uninit _ _ _ _ _ _ E). exact H.
  - intros a b _ _ IHa IHb Lb U Ls r H. cbn [bexpr] in *.
    destruct (bexpr cf (mkLocal (Some x) None false :: Lb) a U Ls) as [[[ca U1] Ls1]|] eqn:Ea; [|discriminate].
    rewrite (IHa _ _ _ _ Ea).
    destruct (bexpr cf (mkLocal (Some x) None false :: Lb) b U1 Ls1) as [[[cb U2] Ls2]|] eqn:Eb; [|discriminate].
    rewrite (IHb _ _ _ _ Eb). exact H.
  - intros f args _ IH Lb U Ls r H. rewrite bexpr_call in *.
    destruct (rvb cf (mkLocal (Some x) None false :: Lb) Ls U f) as [[[r0 U0] Ls0]|] eqn:E; [|discriminate].
    rewrite (rvb_uninit _ _ _ _ _ _ E).
    assert (G : forall U1 Ls1 q, bargs cf (mkLocal (Some x) None false :: Lb) args U1 Ls1 = Some q -> bargs cf Lb args U1 Ls1 = Some q).
    { clear H E. induction IH as [|a r1 Ha Hr IHr]; intros U1 Ls1 q Hq; [exact Hq|]. cbn [bargs] in *.
      destruct (bexpr cf (mkLocal (Some x) None false :: Lb) a U1 Ls1) as [[[ca U2] Ls2]|] eqn:Ea; [|discriminate].
      rewrite (Ha _ _ _ _ Ea).
      destruct (bargs cf (mkLocal (Some x) None false :: Lb) r1 U2 Ls2) as [[[ct U3] Ls3]|] eqn:Et; [|discriminate].
      rewrite (IHr _ _ _ Et). exact Hq. }
    destruct (bargs cf (mkLocal (Some x) None false :: Lb) args U0 Ls0) as [[[cargs U3] Ls3]|] eqn:Eb; [|discriminate].
    rewrite (G _ _ _ Eb). exact H.
Qed.

Lemma firstn_app_le : forall A (a b : list A) n, n <= List.length a -> firstn n (a ++ b) = firstn n a.
Proof. intros A a b n H. rewrite firstn_app. replace (n - List.length a) with 0 by lia. cbn. now rewrite app_nil_r. Qed.

Lemma scope_end_len : forall N L0 d, Forall (fun l => l_depth l = Some (S d)) N -> depth_le d L0 -> L0 <> [] ->
  List.length (scope_end_ops (N ++ L0) d) = List.length N.
Proof.
  induction N as [|l N IH]; intros L0 d HN Hd Hne.
  - cbn [app]. now rewrite (scope_end_nil _ _ Hd Hne).
  - inversion HN as [|? ? Hl HN']; subst. cbn [app scope_end_ops]. rewrite Hl.
    destruct (d <? S d) eqn:E; [|apply Nat.ltb_ge in E; lia]. cbn [List.length]. f_equal. now apply IH.
Qed.

Lemma nth_firstn_lt : forall A (l : list A) n i d, i < n -> nth i (firstn n l) d = nth i l d.
Proof.
  intros A l. induction l as [|a r IH]; intros n i d H; [now rewrite firstn_nil|].
  destruct n; [lia|]. destruct i; cbn; [reflexivity|]. apply IH. lia.
Qed.

Lemma LRB_nonempty : forall K CL HL base L en, LRB K CL HL base L en -> L <> [].
Proof. intros K CL HL base L en H. destruct H; discriminate. Qed.

Lemma LRB_K_mono_b : forall K CL HL base L en K', LRB K CL HL base L en -> (exists e, K' = (K ++ e)%list) -> LRB K' CL HL base L en.
Proof. intros K CL HL base L en K' H HK. eapply LRB_mono; eauto. Qed.

Lemma BS_step : forall fu, E_goal fu -> BL_goal fu -> BS_goal (S fu).
Proof.
  intros fu IHE IHL s enb cenv st st' en' ctl He Hg Hf Lb d U Ls code Lb' U' Ls' Hc Hd1 Hdl Ufin uvec K CL HL base HU HC HlenCL
         m fn fn0 ups0 pc0 base0 frs' G O pre post Hcode HM HS.
  pose proof (cx_lrb _ _ _ _ _ _ _ _ _ _ HC) as HLRB.
  destruct s; cbn in Hf; try discriminate.
  - (* SDecl *)
    cbn [exec_stmt] in He. destruct (eval_expr fu e (enb ++ cenv)%list st) as [st1 rr] eqn:Ee.
    destruct rr as [v| | |]; try (inversion He; subst; destruct Hg as [Hg|[? Hg]]; discriminate).
    unfold declare, new_cell in He. inversion He; subst st' en' ctl. clear He Hg.
    cbn [bstmt] in Hc. destruct (dup_in_scope Lb x d); [discriminate|]. destruct (List.length Lb =? c_locals_max cf); [discriminate|].
    destruct (bexpr cf (mkLocal (Some x) None false :: Lb) e U Ls) as [[[ce U1] Ls1]|] eqn:Ec; [|discriminate].
    inversion Hc; subst code Lb' U' Ls'. clear Hc. apply (bexpr_uninit x e Hf) in Ec.
    destruct (IHE e enb cenv st st1 v Ee Hf _ _ _ _ _ _ Ec Ufin uvec K CL HL base HU HC) with (m := m) (fn := fn)
        (frs := mkFrame fn0 ups0 pc0 base0 :: frs') (G := G) (O := O) (pre := pre) (post := post)
      as (n1 & m1 & K1 & c1 & G1 & O1 & S1 & M1 & ST1 & KX1 & R1 & B1 & N1 & F1); auto.
    pose proof (sto3_len _ _ _ _ _ _ _ _ _ ST1) as HlenK.
    assert (Hh1 : ~ In c1 HL) by (apply (notin_HL_fresh _ _ _ _ _ _ _ _ _ _ c1 HM); lia).
    exists n1, m1, (K1 ++ [c1])%list, G1, O1.
    split; [exact S1|]. split; [apply (STO3_new cf funs st1 K1 HL (cv m1) (cn m1) G1 O1 c1 v ST1 N1 ltac:(lia) R1)|].
    split. { destruct KX1 as (e1 & -> & He1). exists (e1 ++ [c1])%list. rewrite <- app_assoc. split; [reflexivity|].
             intros k Hin. apply in_app_or in Hin as [Hin|[<-|[]]]; [apply He1 in Hin; lia|lia]. }
    split; [exact F1|]. split; [lia|].
    exists (CL ++ [c1])%list, ((x, List.length (s_cells st1)) :: enb). split; [reflexivity|]. split; [exact M1|].
    split.
    { constructor.
      - eapply LRB_mono; eauto.
        + destruct KX1 as (e1 & -> & _). exists (e1 ++ [c1])%list. now rewrite <- app_assoc.
        + intros i Hi. apply app_nth1. lia.
      - rewrite app_length. cbn. lia.
      - rewrite <- HlenCL, nth_middle. unfold kc. rewrite <- HlenK, nth_middle. reflexivity.
      - unfold kc. rewrite <- HlenK, nth_middle. intro Hin. contradiction. }
    split; [rewrite app_length; cbn [List.length]; lia|]. split; [apply firstn_app_le; lia|].
    exists [mkLocal (Some x) (Some d) false], [(x, List.length (s_cells st1))]. repeat split; auto.
  - (* SAssign *)
    cbn [exec_stmt] in He. destruct (eval_expr fu e (enb ++ cenv)%list st) as [st1 rr] eqn:Ee.
    destruct rr as [v| | |]; try (inversion He; subst; destruct Hg as [Hg|[? Hg]]; discriminate).
    destruct (write_var st1 (enb ++ cenv)%list x v) as [st2|] eqn:Ew; [|inversion He; subst; destruct Hg as [Hg|[? Hg]]; discriminate].
    inversion He; subst st' en' ctl. clear He Hg.
    cbn [bstmt] in Hc. destruct (rvb cf Lb Ls U x) as [[[r U0] Ls0]|] eqn:Er; [|discriminate].
    destruct (bexpr cf Lb e U0 Ls0) as [[[ce U1] Ls1]|] eqn:Ec; [|discriminate]. inversion Hc; subst code Lb' U' Ls'. clear Hc.
    destruct (rvb_ok cf _ _ _ _ _ _ _ Er) as (HF0 & ext0 & -> & _).
    destruct (bexpr_ok cf e Hf _ _ _ _ _ _ Ec) as (HF1 & ext1 & -> & _).
    destruct HU as [ext ->].
    assert (HC0 : CTX K CL HL base Lb enb Ls0 cenv (((U ++ ext0) ++ ext1) ++ ext)%list uvec).
    { eapply CTX_mono; eauto; [exists []; now rewrite app_nil_r|apply (cx_len _ _ _ _ _ _ _ _ _ _ HC)]. }
    destruct (IHE e enb cenv st st1 v Ee Hf _ _ _ _ _ _ Ec (((U ++ ext0) ++ ext1) ++ ext)%list uvec K CL HL base) with (m := m) (fn := fn)
        (frs := mkFrame fn0 ups0 pc0 base0 :: frs') (G := G) (O := O) (pre := pre) (post := ([set_op r x; IPop] ++ post)%list)
      as (n1 & m1 & K1 & c1 & G1 & O1 & S1 & M1 & ST1 & KX1 & R1 & B1 & N1 & F1).
    { exists ext. reflexivity. }
    { exact HC0. }
    { rewrite Hcode. now rewrite <- !app_assoc. }
    { exact HM. }
    { exact HS. }
    assert (Hfe : fetch (code_of funs fn) (code_size pre + code_size ce) = Some (set_op r x)).
    { eapply fetch_mid with (c2 := [IPop]) (post := post). exact Hcode. }
    assert (Hh1 : ~ In c1 HL) by (apply (notin_HL_fresh _ _ _ _ _ _ _ _ _ _ c1 HM); lia).
    assert (HLR1 : LRB K1 CL HL base Lb enb) by (eapply LRB_K_mono_b; eauto; eapply KEXT_ext; eauto).
    unfold write_var in Ew. destruct (assoc (enb ++ cenv)%list x) as [c|] eqn:Ea.
    + inversion Ew; subst st2. clear Ew.
      assert (Hw : where_is K CL HL base uvec r c).
      { eapply resolve_cell with (enb := enb) (cenv := cenv) (Ufin := (((U ++ ext0) ++ ext1) ++ ext)%list); eauto.
        - apply (cx_len _ _ _ _ _ _ _ _ _ _ HC).
        - apply (cx_cenv _ _ _ _ _ _ _ _ _ _ HC).
        - apply (cx_ur _ _ _ _ _ _ _ _ _ _ HC).
        - exists (ext1 ++ ext)%list. now rewrite <- !app_assoc. }
      assert (Hw1 : where_is K1 CL HL base uvec r c).
      { destruct KX1 as (e1 & -> & _). destruct Hw as [s0 c0 E1 E2 E3|k0 c0 E1 E2 E3]; constructor; auto;
          try (rewrite app_length; lia); unfold kc in *; rewrite app_nth1 by lia; assumption. }
      destruct (exec_set _ _ _ _ _ _ _ _ x _ _ _ _ _ _ Hw1 M1 Hfe) as (m2 & A2 & B2 & C2 & D2).
      assert (Hfe2 : fetch (code_of funs fn) (code_size pre + code_size ce + 2) = Some IPop).
      { replace (code_size pre + code_size ce + 2) with (code_size pre + code_size (ce ++ [set_op r x])).
        - eapply fetch_mid with (c2 := []) (post := post). rewrite Hcode. now rewrite <- !app_assoc.
        - rewrite code_size_app. destruct Hw1; cbn; lia. }
      destruct (step2_pop cf funs _ _ _ _ _ _ _ _ _ _ _ B2 Hfe2 Hh1) as (m3 & A3 & B3 & C3 & D3).
      assert (Hck : c < List.length K1) by (destruct Hw1; assumption).
      exists (n1 + 2), m3, K1, G1, O1.
      split. { apply (steps_trans cf funs n1 2 m m1 m3 S1). exists m2. split; [exact A2|now apply steps_one]. }
      split. { rewrite C3, D3, C2, D2. apply STO3_write; auto. }
      split. { apply (KEXT_widen K K1 (cn m) (cn m1)); auto; lia. }
      split. { intros j Hj Hn. rewrite C3, C2. rewrite upd_other; [apply F1; auto|].
               intro E. apply Hn. assert (Hin0 : In (kc K1 c) K1) by (unfold kc; apply nth_In; lia).
               destruct (KEXT_in _ _ _ _ _ KX1 Hin0) as [Hin|Hge]; [rewrite E; exact Hin|exfalso; lia]. }
      split; [lia|].
      exists CL, enb. split; [reflexivity|]. split.
      { rewrite code_size_app. cbn [code_size]. replace (isize (set_op r x)) with 2 by (destruct Hw1; reflexivity). cbn [isize].
        replace (code_size pre + (code_size ce + (2 + (1 + 0)))) with (code_size pre + code_size ce + 2 + 1) by lia. exact B3. }
      split; [exact HLR1|]. split; [exact HlenCL|]. split; [reflexivity|apply EXTB_refl].
    + destruct (assoc (s_globals st1) x) as [w|] eqn:Eg; [|discriminate]. inversion Ew; subst st2. clear Ew.
      pose proof (resolve_global _ _ _ _ _ _ _ enb cenv _ _ _ _ Er Ea HLRB (cx_cenv _ _ _ _ _ _ _ _ _ _ HC)) as ->.
      cbn [set_op] in *.
      destruct (GR3_assoc _ _ _ _ _ _ _ _ (sto3_g _ _ _ _ _ _ _ _ _ ST1) Eg) as (w' & Eg' & _).
      destruct (step2_setglobal cf funs _ _ _ _ _ _ _ _ _ _ _ _ _ M1 Hfe Eg') as (m2 & A2 & B2 & C2 & D2).
      assert (Hfe2 : fetch (code_of funs fn) (code_size pre + code_size ce + 3) = Some IPop).
      { replace (code_size pre + code_size ce + 3) with (code_size pre + code_size (ce ++ [ISetGlobal x])).
        - eapply fetch_mid with (c2 := []) (post := post). rewrite Hcode. now rewrite <- !app_assoc.
        - rewrite code_size_app. cbn. lia. }
      destruct (step2_pop cf funs _ _ _ _ _ _ _ _ _ _ _ B2 Hfe2 Hh1) as (m3 & A3 & B3 & C3 & D3).
      exists (n1 + 2), m3, K1, (set_assoc G1 x (cv m1 c1)), O1.
      split. { apply (steps_trans cf funs n1 2 m m1 m3 S1). exists m2. split; [exact A2|now apply steps_one]. }
      split. { rewrite C3, D3, C2, D2. apply STO3_global; auto. }
      split. { apply (KEXT_widen K K1 (cn m) (cn m1)); auto; lia. }
      split. { intros j Hj Hn. rewrite C3, C2. apply F1; auto. }
      split; [lia|].
      exists CL, enb. split; [reflexivity|]. split.
      { rewrite code_size_app. cbn [code_size isize].
        replace (code_size pre + (code_size ce + (3 + (1 + 0)))) with (code_size pre + code_size ce + 3 + 1) by lia. exact B3. }
      split; [exact HLR1|]. split; [exact HlenCL|]. split; [reflexivity|apply EXTB_refl].
  - (* SPrint *)
    cbn [exec_stmt] in He. destruct (eval_expr fu e (enb ++ cenv)%list st) as [st1 rr] eqn:Ee.
    destruct rr as [v| | |]; try (inversion He; subst; destruct Hg as [Hg|[? Hg]]; discriminate).
    inversion He; subst st' en' ctl. clear He Hg.
    cbn [bstmt] in Hc. destruct (bexpr cf Lb e U Ls) as [[[ce U1] Ls1]|] eqn:Ec; [|discriminate].
    inversion Hc; subst code Lb' U' Ls'. clear Hc.
    assert (Hf0 : fetch (code_of funs fn) (code_size pre) = Some (IGetGlobal GPrint)) by (rewrite Hcode; apply fetch_app).
    destruct (step2_getprint cf funs _ _ _ _ _ _ _ _ _ _ HM Hf0) as (m0 & A0 & B0 & C0 & D0).
    destruct (sto_push _ _ _ _ _ _ _ _ HS C0 D0) as (S01 & S02 & S03).
    destruct (IHE e enb cenv st st1 v Ee Hf _ _ _ _ _ _ Ec Ufin uvec K (CL ++ [cn m])%list HL base HU) with (m := m0) (fn := fn)
        (frs := mkFrame fn0 ups0 pc0 base0 :: frs') (G := G) (O := O) (pre := (pre ++ [IGetGlobal GPrint])%list) (post := ([ICall 1; IPop] ++ post)%list)
      as (n1 & m1 & K1 & c1 & G1 & O1 & S1 & M1 & ST1 & KX1 & R1 & B1 & N1 & F1).
    { now apply CTX_app. }
    { rewrite Hcode. cbn. now rewrite <- !app_assoc. }
    { rewrite code_size_app. cbn [code_size isize]. replace (code_size pre + (3 + 0)) with (code_size pre + 3) by lia. exact B0. }
    { exact S01. }
    rewrite <- app_assoc in M1. cbn [app] in M1.
    assert (Hfe1 : fetch (code_of funs fn) (code_size (pre ++ [IGetGlobal GPrint]) + code_size ce) = Some (ICall 1)).
    { eapply fetch_mid with (c2 := [IPop]) (post := post). rewrite Hcode. cbn. now rewrite <- !app_assoc. }
    assert (Hcp : cv m1 (cn m) = MPrintFn) by (rewrite F1; [rewrite C0; apply upd_same|lia|exact S02]).
    assert (Hh1 : ~ In c1 HL) by (apply (notin_HL_fresh _ _ _ _ _ _ _ _ _ _ c1 HM); lia).
    assert (Hhp : ~ In (cn m) HL) by (apply (notin_HL_fresh _ _ _ _ _ _ _ _ _ _ (cn m) HM); lia).
    destruct (step2_callprint cf funs _ _ _ _ _ _ _ _ _ _ _ _ M1 Hfe1 Hcp Hh1) as (m2 & A2 & B2 & C2 & D2).
    assert (Hfe2 : fetch (code_of funs fn) (code_size (pre ++ [IGetGlobal GPrint]) + code_size ce + 2) = Some IPop).
    { replace (code_size (pre ++ [IGetGlobal GPrint]) + code_size ce + 2) with (code_size (pre ++ [IGetGlobal GPrint]) + code_size (ce ++ [ICall 1])).
      - eapply fetch_mid with (c2 := []) (post := post). rewrite Hcode. cbn. now rewrite <- !app_assoc.
      - rewrite !code_size_app. cbn. lia. }
    destruct (step2_pop cf funs _ _ _ _ _ _ _ _ _ _ _ B2 Hfe2 Hhp) as (m3 & A3 & B3 & C3 & D3).
    assert (HpK1 : ~ In (cn m) K1).
    { intro Hin. destruct (KEXT_in _ _ _ _ _ KX1 Hin) as [Hi|Hi]; [contradiction|lia]. }
    exists (1 + (n1 + 2)), m3, K1, G1, (show_mval (cv m1 c1) :: O1).
    split. { exists m0. split; [exact A0|]. apply (steps_trans cf funs n1 2 m0 m1 m3 S1). exists m2. split; [exact A2|now apply steps_one]. }
    split. { rewrite C3, D3, C2, D2.
             assert (ST1' : sto st1 K1 HL (upd (cv m1) (cn m) MNil) (cn m1) G1 O1) by (apply STO3_temp with (cnx := cn m1); auto).
             destruct ST1' as [T1 T2 T3 T4 T5 T6]. constructor; cbn [s_cells s_globals s_out]; auto.
             rewrite (vrel3_show _ _ _ _ _ _ R1). now rewrite T6. }
    split. { apply (KEXT_widen K K1 (cn m0) (cn m1)); auto; lia. }
    split. { intros j Hj Hn. rewrite C3, C2. rewrite upd_other by lia. rewrite F1; [rewrite C0; apply upd_other; lia|lia|exact Hn]. }
    split; [lia|].
    exists CL, enb. split; [reflexivity|]. split.
    { replace (code_size pre + code_size (IGetGlobal GPrint :: ce ++ [ICall 1; IPop]))
        with (code_size (pre ++ [IGetGlobal GPrint]) + code_size ce + 2 + 1); [exact B3|].
      rewrite code_size_app. cbn [code_size isize]. rewrite code_size_app. cbn [code_size isize]. lia. }
    split; [eapply LRB_K_mono_b; eauto; eapply KEXT_ext; eauto|]. split; [exact HlenCL|]. split; [reflexivity|apply EXTB_refl].
  - (* SExpr *)
    cbn [exec_stmt] in He. destruct (eval_expr fu e (enb ++ cenv)%list st) as [st1 rr] eqn:Ee.
    destruct rr as [v| | |]; try (inversion He; subst; destruct Hg as [Hg|[? Hg]]; discriminate).
    inversion He; subst st' en' ctl. clear He Hg.
    cbn [bstmt] in Hc. destruct (bexpr cf Lb e U Ls) as [[[ce U1] Ls1]|] eqn:Ec; [|discriminate].
    inversion Hc; subst code Lb' U' Ls'. clear Hc.
    destruct (IHE e enb cenv st st1 v Ee Hf _ _ _ _ _ _ Ec Ufin uvec K CL HL base HU HC) with (m := m) (fn := fn)
        (frs := mkFrame fn0 ups0 pc0 base0 :: frs') (G := G) (O := O) (pre := pre) (post := ([IPop] ++ post)%list)
      as (n1 & m1 & K1 & c1 & G1 & O1 & S1 & M1 & ST1 & KX1 & R1 & B1 & N1 & F1).
    { rewrite Hcode. now rewrite <- !app_assoc. }
    { exact HM. }
    { exact HS. }
    assert (Hfe : fetch (code_of funs fn) (code_size pre + code_size ce) = Some IPop).
    { eapply fetch_mid with (c2 := []) (post := post). exact Hcode. }
    assert (Hh1 : ~ In c1 HL) by (apply (notin_HL_fresh _ _ _ _ _ _ _ _ _ _ c1 HM); lia).
    destruct (step2_pop cf funs _ _ _ _ _ _ _ _ _ _ _ M1 Hfe Hh1) as (m2 & A2 & B2 & C2 & D2).
    exists (n1 + 1), m2, K1, G1, O1.
    split. { apply (steps_trans cf funs n1 1 m m1 m2 S1). now apply steps_one. }
    split. { rewrite C2, D2. exact ST1. }
    split. { apply (KEXT_widen K K1 (cn m) (cn m1)); auto; lia. }
    split. { intros j Hj Hn. rewrite C2. apply F1; auto. }
    split; [lia|].
    exists CL, enb. split; [reflexivity|]. split.
    { rewrite code_size_app. cbn [code_size isize]. replace (code_size pre + (code_size ce + (1 + 0))) with (code_size pre + code_size ce + 1) by lia. exact B2. }
    split; [eapply LRB_K_mono_b; eauto; eapply KEXT_ext; eauto|]. split; [exact HlenCL|]. split; [reflexivity|apply EXTB_refl].
  - (* SBlock *)
    cbn [exec_stmt] in He. destruct (exec_list fu b (enb ++ cenv)%list false st) as [[st1 en1] c1] eqn:El.
    inversion He; subst st' en' c1. clear He.
    rewrite bstmt_block in Hc. destruct (blist cf b Lb (S d) U Ls) as [[[[cb Lb1] U1] Ls1]|] eqn:Cl; [|discriminate].
    cbn zeta in Hc. inversion Hc; subst code Lb' U' Ls'. clear Hc.
    destruct (IHL _ _ _ _ _ _ _ El Hg Hf _ _ _ _ _ _ _ _ Cl ltac:(lia) (depth_le_S _ _ Hdl) Ufin uvec K CL HL base HU HC HlenCL
                m fn fn0 ups0 pc0 base0 frs' G O pre (scope_end_ops Lb1 d ++ post)%list)
      as (n1 & m1 & K1 & G1 & O1 & S1 & ST1 & KX1 & F1 & Hcn1 & Hres).
    { rewrite Hcode. now rewrite <- app_assoc. }
    { exact HM. }
    { exact HS. }
    destruct ctl as [| | |w| | |]; try contradiction.
    + destruct Hres as (CL1 & enb1 & -> & M1 & LR1 & Len1 & Hfirst1 & (N & Ne & -> & -> & HNlen & HN)).
      pose proof (LRB_nonempty _ _ _ _ _ _ HLRB) as HLne.
      assert (HN' : Forall (fun l => l_depth l = Some (S d)) N) by (revert HN; apply Forall_impl; intros l [E _]; exact E).
      rewrite (scope_end_len N Lb d HN' Hdl HLne), skipn_app_len.
      destruct (scope_end_run_b N K1 CL1 HL base Lb Ne enb d m1 fn uvec (mkFrame fn0 ups0 pc0 base0 :: frs') (pre ++ cb)%list post G1 O1 LR1 HNlen Len1 HN' Hdl HLne)
        as (m2 & S2 & M2 & C2 & D2).
      { rewrite Hcode. now rewrite <- !app_assoc. }
      { rewrite code_size_app. exact M1. }
      exists (n1 + List.length N), m2, K1, G1, O1.
      split; [eapply steps_trans; eauto|]. split; [rewrite C2, D2; exact ST1|]. split; [rewrite D2; exact KX1|].
      split; [intros j Hj Hn; rewrite C2; apply F1; auto|]. split; [lia|].
      exists (firstn (base + List.length Lb) CL1), enb. split; [reflexivity|]. split.
      { rewrite !code_size_app in *. rewrite Nat.add_assoc. exact M2. }
      split.
      { apply LRB_drop in LR1; auto. eapply LRB_mono; eauto; [exists []; now rewrite app_nil_r|].
        intros i Hi. now apply nth_firstn_lt. }
      split. { rewrite firstn_length, Len1, app_length. lia. }
      split; [|apply EXTB_refl].
      rewrite <- Hfirst1. rewrite firstn_firstn. f_equal. lia.
    + exists n1, m1, K1, G1, O1. split; [exact S1|]. split; [exact ST1|]. split; [exact KX1|]. split; [exact F1|]. split; [lia|exact Hres].
  - (* SReturn *)
    cbn [exec_stmt] in He. destruct (eval_expr fu e (enb ++ cenv)%list st) as [st1 rr] eqn:Ee.
    destruct rr as [v| | |]; try (inversion He; subst; destruct Hg as [Hg|[? Hg]]; discriminate).
    inversion He; subst st' en' ctl. clear He Hg.
    cbn [bstmt] in Hc. destruct (bexpr cf Lb e U Ls) as [[[ce U1] Ls1]|] eqn:Ec; [|discriminate].
    inversion Hc; subst code Lb' U' Ls'. clear Hc.
    destruct (IHE e enb cenv st st1 v Ee Hf _ _ _ _ _ _ Ec Ufin uvec K CL HL base HU HC) with (m := m) (fn := fn)
        (frs := mkFrame fn0 ups0 pc0 base0 :: frs') (G := G) (O := O) (pre := pre) (post := ([IReturn] ++ post)%list)
      as (n1 & m1 & K1 & c1 & G1 & O1 & S1 & M1 & ST1 & KX1 & R1 & B1 & N1 & F1).
    { rewrite Hcode. now rewrite <- !app_assoc. }
    { exact HM. }
    { exact HS. }
    assert (Hfe : fetch (code_of funs fn) (code_size pre + code_size ce) = Some IReturn).
    { eapply fetch_mid with (c2 := []) (post := post). exact Hcode. }
    assert (Hh1 : ~ In c1 HL) by (apply (notin_HL_fresh _ _ _ _ _ _ _ _ _ _ c1 HM); lia).
    destruct (step2_return cf funs _ _ _ _ _ _ _ _ _ _ _ _ _ _ _ M1 Hfe ltac:(lia) Hh1) as (m2 & A2 & B2 & C2 & D2).
    destruct (sto_push _ _ _ _ _ _ _ _ ST1 C2 D2) as (S21 & S22 & S23).
    exists (n1 + 1), m2, K1, G1, O1.
    split. { apply (steps_trans cf funs n1 1 m m1 m2 S1). now apply steps_one. }
    split; [exact S21|].
    split. { apply (KEXT_widen K K1 (cn m) (cn m1)); auto; lia. }
    split. { intros j Hj Hn. rewrite C2, upd_other by lia. apply F1; auto. }
    split; [lia|].
    exists (cn m1). split; [exact B2|]. split; [rewrite C2, upd_same; exact R1|]. split; [lia|exact S22].
Qed.

Lemma BL_step : forall fu, BS_goal fu -> BL_goal fu -> BL_goal (S fu).
Proof.
  intros fu IHS IHL ss enb cenv st st' en' ctl He Hg Hf Lb d U Ls code Lb' U' Ls' Hc Hd1 Hdl Ufin uvec K CL HL base HU HC HlenCL
         m fn fn0 ups0 pc0 base0 frs' G O pre post Hcode HM HS.
  destruct ss as [|s r].
  - cbn in He, Hc. inversion He; inversion Hc; subst. exists 0, m, K, G, O.
    split; [reflexivity|]. split; [exact HS|]. split; [apply KEXT_refl|]. split; [apply FRAMEC_refl|]. split; [lia|].
    exists CL, enb. split; [reflexivity|]. cbn [code_size]. rewrite Nat.add_0_r. split; [exact HM|].
    split; [apply (cx_lrb _ _ _ _ _ _ _ _ _ _ HC)|]. split; [exact HlenCL|]. split; [reflexivity|apply EXTB_refl].
  - cbn in Hf. apply andb_prop in Hf as [Hf1 Hf2]. cbn [exec_list] in He. cbn [blist] in Hc.
    destruct (bstmt cf s Lb d U Ls) as [[[[ca Lb1] U1] Ls1]|] eqn:C1; [|discriminate].
    destruct (blist cf r Lb1 d U1 Ls1) as [[[[cr Lb2] U2] Ls2]|] eqn:C2; [|discriminate]. inversion Hc; subst code Lb' U' Ls'. clear Hc.
    destruct (bstmt_ok cf s Hf1 _ _ _ _ _ _ _ _ C1) as (HF1 & ext1 & -> & _).
    destruct (exec_stmt fu s (enb ++ cenv)%list false st) as [[st1 en1] c1] eqn:E1.
    assert (Hg1 : good c1).
    { destruct c1; try (left; reflexivity); try (right; eexists; reflexivity); inversion He; subst; exact Hg. }
    destruct HU as [ext ->].
    assert (HU1 : exists e0, (U2 ++ ext)%list = ((U ++ ext1) ++ e0)%list).
    { destruct (blist_ok cf r Hf2 _ _ _ _ _ _ _ _ C2) as (_ & ext2 & -> & _). exists (ext2 ++ ext)%list. now rewrite <- !app_assoc. }
    destruct (IHS _ _ _ _ _ _ _ E1 Hg1 Hf1 _ _ _ _ _ _ _ _ C1 Hd1 Hdl (U2 ++ ext)%list uvec K CL HL base HU1 HC HlenCL m fn fn0 ups0 pc0 base0 frs' G O pre (cr ++ post)%list)
      as (n1 & m1 & K1 & G1 & O1 & S1 & ST1 & KX1 & F1 & Hcn1 & Hres1).
    { rewrite Hcode. now rewrite <- !app_assoc. }
    { exact HM. }
    { exact HS. }
    destruct c1 as [| | |w| | |]; try contradiction.
    + destruct Hres1 as (CL1 & enb1 & -> & M1 & LR1 & Len1 & Hfirst1 & X1).
      assert (HC1 : CTX K1 CL1 HL base Lb1 enb1 Ls1 cenv (U2 ++ ext)%list uvec).
      { eapply CTX_next; eauto. eapply KEXT_ext; eauto. }
      destruct (IHL _ _ _ _ _ _ _ He Hg Hf2 _ _ _ _ _ _ _ _ C2 Hd1 (EXTB_depth_le _ _ _ _ _ Hdl X1) (U2 ++ ext)%list uvec K1 CL1 HL base ltac:(eauto) HC1 Len1
                  m1 fn fn0 ups0 pc0 base0 frs' G1 O1 (pre ++ ca)%list post)
        as (n2 & m2 & K2 & G2 & O2 & S2 & ST2 & KX2 & F2 & Hcn2 & Hres2).
      { rewrite Hcode. now rewrite <- !app_assoc. }
      { rewrite code_size_app. exact M1. }
      { exact ST1. }
      exists (n1 + n2), m2, K2, G2, O2.
      split; [eapply steps_trans; eauto|]. split; [exact ST2|].
      split. { apply (KEXT_trans K K1 K2 (cn m) (cn m1) (cn m2)); auto. }
      split. { eapply FRAMEC_trans with (m2 := m1) (K2 := K1); eauto. intros j Hin. eapply KEXT_in; eauto. }
      split; [lia|].
      destruct ctl; try contradiction.
      * destruct Hres2 as (CL2 & enb2 & -> & M2 & LR2 & Len2 & Hfirst2 & X2).
        exists CL2, enb2. split; [reflexivity|]. split; [rewrite !code_size_app in *; rewrite Nat.add_assoc; exact M2|].
        split; [exact LR2|]. split; [exact Len2|]. split; [congruence|eapply EXTB_trans; eauto].
      * destruct Hres2 as (cres & Q1 & Q2 & Q3 & Q4). exists cres. rewrite <- Hfirst1. split; [exact Q1|]. split; [exact Q2|]. split; [lia|exact Q4].
    + inversion He; subst st' en' ctl.
      exists n1, m1, K1, G1, O1. split; [exact S1|]. split; [exact ST1|]. split; [exact KX1|]. split; [exact F1|]. split; [lia|exact Hres1].
Qed.

(* ------------------------------------------------------------------------------------------ *)
(* creating a closure at script level: the relational content of closure_impl's captures *)

Definition swapd (U : ups_t) : list (bool * nat) := map (fun u : nat * bool => (snd u, fst u)) U.

Lemma capture_rel : forall K CL HL L en ps b cb U L' HL' Uv,
  LRB K CL HL 0 L en -> List.length CL = List.length L -> NoDup CL -> NoDup HL ->
  forallb bstmt2 b = true -> cbody cf ps b L = Some (cb, U, L') ->
  capture_cells HL (map (fun d : bool * nat => nth (0 + snd d) CL 0) (swapd U)) = (HL', Uv) ->
  Forall (fun d : bool * nat => fst d = true /\ 0 + snd d < List.length CL) (swapd U) /\
  (exists e, HL' = (HL ++ e)%list) /\ List.length Uv = List.length U /\ (forall h, In h HL' -> In h HL \/ In h CL) /\
  LRB K CL HL' 0 L' en /\
  (forall k slot b0, nth_error U k = Some (slot, b0) ->
     b0 = true /\ exists x c, entry_at en slot = Some (x, c) /\ c < List.length K /\
                              nth k Uv 0 < List.length HL' /\ nth (nth k Uv 0) HL' 0 = kc K c).
Proof.
  intros K CL HL L en ps b cb U L' HL' Uv HLR Hlen HndCL HndHL Hb Hcb Ecc.
  destruct (cbody_ok cf ps b L cb U L' Hb Hcb) as [HF HU].
  pose proof (cbody_named2 cf ps b L cb U L' Hb Hcb) as HN.
  pose proof (flags_up_length _ _ HF) as HlenL.
  pose proof (ENV_len _ _ (LRB_ENV _ _ _ _ _ _ HLR)) as HlenE.
  set (descs := swapd U) in *.
  assert (Hdesc : Forall (fun d : bool * nat => fst d = true /\ 0 + snd d < List.length CL) descs).
  { unfold descs, swapd. apply Forall_forall. intros d Hin. apply in_map_iff in Hin as (u & <- & Hin). cbn.
    pose proof (proj1 (Forall_forall _ _) HU u Hin) as (E1 & _).
    pose proof (proj1 (Forall_forall _ _) (ups_ok_slot_lt _ _ HU) u Hin) as E2. cbn in E2. split; [exact E1|lia]. }
  destruct (capture_cells_spec _ _ _ _ HndHL Ecc) as (Hnd' & Hext & HlenU & Hidx & Hin').
  assert (HdescLen : List.length descs = List.length U) by (unfold descs, swapd; now rewrite map_length).
  assert (Hcs : forall k slot b0, nth_error U k = Some (slot, b0) ->
            b0 = true /\ 1 <= slot <= List.length en /\ nth k (map (fun d : bool * nat => nth (0 + snd d) CL 0) descs) 0 = nth slot CL 0 /\
            k < List.length U /\ exists l, nth_error (rev L') slot = Some l /\ l_capt l = true).
  { intros k slot b0 Hk. assert (Hin : In (slot, b0) U) by (eapply nth_error_In; eauto).
    pose proof (proj1 (Forall_forall _ _) HU _ Hin) as (E1 & l & E2 & E3 & _). cbn in E1, E2.
    pose proof (proj1 (Forall_forall _ _) HN _ Hin) as (l2 & E4 & E5). cbn in E4. rewrite E2 in E4. inversion E4; subst l2.
    assert (Hk' : k < List.length U) by (apply nth_error_Some; congruence).
    assert (Hs0 : slot <> 0).
    { intro; subst slot.
      assert (HR : exists l0, nth_error (rev L) 0 = Some l0 /\ l_name l0 = l_name l).
      { assert (Hlen0 : 0 < List.length (rev L)) by (rewrite rev_length; lia).
        destruct (nth_error (rev L) 0) as [l0|] eqn:E0; [|apply nth_error_None in E0; lia].
        destruct (flags_up_rev_name _ _ 0 l0 HF E0) as (l4 & E8 & E9). rewrite E2 in E8. inversion E8; subst. eauto. }
      destruct HR as (l0 & E0 & E0'). pose proof (ENV_slot0 _ _ _ (LRB_ENV _ _ _ _ _ _ HLR) E0). congruence. }
    assert (Hsl : slot < List.length L') by (rewrite <- rev_length; apply nth_error_Some; congruence).
    split; [exact E1|]. split; [lia|]. split.
    - erewrite nth_map_error; [|unfold descs, swapd; apply map_nth_error; exact Hk]. reflexivity.
    - split; [exact Hk'|eauto]. }
  split; [exact Hdesc|]. split; [exact Hext|]. split; [rewrite HlenU, map_length; exact HdescLen|].
  split.
  { intros h Hin. destruct (Hin' _ Hin) as [H1|H1]; [now left|right].
    apply in_map_iff in H1 as (d & E & Hd). pose proof (proj1 (Forall_forall _ _) Hdesc _ Hd) as (_ & Hlt).
    rewrite <- E. apply nth_In. lia. }
  split.
  { apply LRB_rehl with (HL := HL); [eapply LRB_flags; eauto|].
    intros s0 l Hs Hin. destruct (Hin' _ Hin) as [H1|H1]; [now left|right].
    apply In_nth with (d := 0) in H1 as (k & Hk & Ek). rewrite map_length, HdescLen in Hk.
    destruct (nth_error U k) as [[slot b0]|] eqn:EU; [|apply nth_error_None in EU; lia].
    destruct (Hcs _ _ _ EU) as (_ & Hsl & Ecell & _ & l' & El & Ecapt). rewrite Ecell in Ek. cbn [Nat.add] in Ek.
    assert (Hs' : s0 < List.length CL) by (rewrite Hlen, <- HlenL, <- rev_length; apply nth_error_Some; congruence).
    assert (slot = s0). { eapply NoDup_nth with (l := CL) (d := 0); eauto. lia. }
    subst slot. rewrite Hs in El. inversion El; subst. exact Ecapt. }
  intros k slot b0 Hk. destruct (Hcs _ _ _ Hk) as (E1 & Hsl & Ecell & Hk' & _). split; [exact E1|].
  destruct (entry_at_some en slot Hsl) as (x & c & Ee). exists x, c. split; [exact Ee|].
  destruct (LRB_entry _ _ _ _ _ _ _ _ _ HLR Ee ltac:(lia)) as (E2 & E3). split; [exact E3|].
  destruct (Hidx k ltac:(rewrite map_length, HdescLen; exact Hk')) as (E4 & E5). split; [exact E5|].
  rewrite E4, Ecell. exact E2.
Qed.

(* `var x = |ps| { b };` / a global `fn` : the closure goes into a fresh cell on top of the stack *)
Lemma mk_closure : forall K CL HL L en ps b cb U L' ix st m fn pc G O,
  LRB K CL HL 0 L en -> List.length CL = List.length L ->
  forallb bstmt2 b = true -> cbody cf ps b L = Some (cb, U, L') ->
  nth_error funs ix = Some (mkFunc cb (List.length ps) (List.length U)) ->
  MS2 m fn [] pc 0 [] CL HL G O -> fetch (code_of funs fn) pc = Some (clo_instr ix U) ->
  sto st K HL (cv m) (cn m) G O ->
  exists m' HL' Uv, mstep cf funs m = MRun m' /\
    MS2 m' fn [] (pc + 3 + 2 * List.length U) 0 [] (CL ++ [cn m])%list HL' G O /\
    cv m' (cn m) = MClo ix Uv /\ (forall j, j <> cn m -> cv m' j = cv m j) /\ cn m' = S (cn m) /\
    (exists e, HL' = (HL ++ e)%list) /\ ~ In (cn m) HL' /\
    vrel K HL' (SVClo ps b en) (MClo ix Uv) /\ LRB K CL HL' 0 L' en /\ sto st K HL' (cv m') (cn m') G O.
Proof.
  intros K CL HL L en ps b cb U L' ix st m fn pc G O HLR Hlen Hb Hcb Hfn HM Hf HS.
  pose proof (m2_s _ _ _ _ _ _ _ _ _ _ HM) as SK.
  destruct (capture_cells HL (map (fun d : bool * nat => nth (0 + snd d) CL 0) (swapd U))) as [HL' Uv] eqn:Ecc.
  destruct (capture_rel K CL HL L en ps b cb U L' HL' Uv HLR Hlen (s2_cl_nd _ _ _ SK) (s2_hl_nd _ _ _ SK) Hb Hcb Ecc)
    as (Hdesc & Hext & HlenU & Hin' & HLR' & HUR).
  unfold clo_instr in Hf. fold (swapd U) in Hf.
  destruct (step2_closure cf funs _ _ _ _ _ _ _ _ _ _ _ _ _ _ HM Hf Hdesc Ecc) as (m' & A & B & _ & C & D).
  assert (HdescLen : List.length (swapd U) = List.length U) by (unfold swapd; now rewrite map_length).
  assert (HnotinHL : ~ In (cn m) HL').
  { intro Hin. destruct (Hin' _ Hin) as [H1|H1].
    - pose proof (s2_hl_lt _ _ _ SK _ H1). unfold cn in *. lia.
    - pose proof (s2_cl_lt _ _ _ SK _ H1). unfold cn in *. lia. }
  exists m', HL', Uv. split; [exact A|]. split; [rewrite <- HdescLen; exact B|].
  split; [rewrite C; apply upd_same|]. split; [intros j Hj; rewrite C; now apply upd_other|]. split; [exact D|].
  split; [exact Hext|]. split; [exact HnotinHL|].
  split.
  { apply (V3_clo cf funs K HL' ps b en ix Uv L cb U L'); auto.
    - exact (LRB_ENV _ _ _ _ _ _ HLR).
    - intros x c Hin. eapply LRB_cells; eauto. }
  split; [exact HLR'|].
  apply STO_ext3 with (f := upd (cv m) (cn m) (MClo ix Uv)); [exact C|].
  rewrite D. apply STO3_temp with (cnx := cn m); [apply STO3_HL with (HL := HL); auto| |lia].
  intro Hin. pose proof (sto_K_lt _ _ _ _ _ _ _ HS Hin). lia.
Qed.


Lemma NoDup_snoc : forall A (l : list A) x, NoDup l -> ~ In x l -> NoDup (l ++ [x]).
Proof.
  intros A l x H Hn. rewrite <- (rev_involutive (l ++ [x])). apply NoDup_rev. rewrite rev_app_distr. cbn. constructor.
  - rewrite <- in_rev. exact Hn.
  - now apply NoDup_rev.
Qed.

Lemma set_nth_snoc : forall A (l : list A) a b, set_nth (l ++ [a]) (List.length l) b = (l ++ [b])%list.
Proof. induction l as [|x r IH]; intros a b; cbn; [reflexivity|]. now rewrite IH. Qed.

(* a new evaluator cell whose value may refer to itself (a local function that captured itself) *)
Lemma STO3_new_self : forall st K HL cvf cnx G O k v,
  sto st K HL cvf cnx G O -> ~ In k K -> k < cnx -> vrel (K ++ [k]) HL v (cvf k) ->
  sto (fst (new_cell st v)) (K ++ [k]) HL cvf cnx G O.
Proof.
  intros st K HL cvf cnx G O k v [H1 H2 H3 H4 H5 H6] Hk Hlt Hv.
  assert (HK : exists e, (K ++ [k])%list = (K ++ e)%list) by eauto.
  assert (HH : exists e, HL = (HL ++ e)%list) by (exists []; now rewrite app_nil_r).
  constructor; cbn [new_cell fst s_cells s_globals s_out]; auto.
  - rewrite !app_length. cbn. lia.
  - now apply NoDup_snoc.
  - intros k0 Hin. apply in_app_or in Hin as [Hin|[<-|[]]]; auto.
  - intros c Hc. rewrite app_length in Hc. cbn in Hc. unfold kc.
    destruct (Nat.eq_dec c (List.length K)) as [->|Hne].
    + rewrite H1 at 1. rewrite !nth_middle. exact Hv.
    + rewrite !app_nth1 by lia. eapply vrel3_mono; eauto. apply H4. lia.
  - eapply GR3_mono; eauto.
Qed.

(* `fn f(ps) { b }` in a block: f is a local, initialised before its body is compiled, so the body may call and
   capture f itself; the closure is stored in the very slot it may capture *)
Lemma mk_closure_self : forall K CL HL L en f d ps b cb U L1' ix st m fn pc G O,
  LRB K CL HL 0 L en -> List.length CL = List.length L ->
  forallb bstmt2 b = true -> cbody cf ps b (mkLocal (Some f) (Some d) false :: L) = Some (cb, U, L1') ->
  nth_error funs ix = Some (mkFunc cb (List.length ps) (List.length U)) ->
  MS2 m fn [] pc 0 [] CL HL G O -> fetch (code_of funs fn) pc = Some (clo_instr ix U) ->
  sto st K HL (cv m) (cn m) G O ->
  exists m' HL', mstep cf funs m = MRun m' /\
    MS2 m' fn [] (pc + 3 + 2 * List.length U) 0 [] (CL ++ [cn m])%list HL' G O /\ cn m' = S (cn m) /\
    LRB (K ++ [cn m]) (CL ++ [cn m]) HL' 0 L1' ((f, List.length (s_cells st)) :: en) /\
    sto (ScopeLang.set_cell (fst (new_cell st SVNil)) (List.length (s_cells st)) (SVClo ps b ((f, List.length (s_cells st)) :: en)))
        (K ++ [cn m]) HL' (cv m') (cn m') G O.
Proof.
  intros K CL HL L en f d ps b cb U L1' ix st m fn pc G O HLR Hlen Hb Hcb Hfn HM Hf HS.
  pose proof (m2_s _ _ _ _ _ _ _ _ _ _ HM) as SK.
  pose proof (sto3_len _ _ _ _ _ _ _ _ _ HS) as HlenK.
  set (c := List.length (s_cells st)) in *. set (en' := (f, c) :: en).
  set (K' := (K ++ [cn m])%list). set (CLp := (CL ++ [cn m])%list).
  assert (HnK : ~ In (cn m) K) by (intro Hin; pose proof (sto_K_lt _ _ _ _ _ _ _ HS Hin); lia).
  assert (HnCL : ~ In (cn m) CL) by (intro Hin; pose proof (s2_cl_lt _ _ _ SK _ Hin); unfold cn in *; lia).
  assert (HnHL : ~ In (cn m) HL) by (intro Hin; pose proof (s2_hl_lt _ _ _ SK _ Hin); unfold cn in *; lia).
  assert (HLR1 : LRB K' CLp HL 0 (mkLocal (Some f) (Some d) false :: L) en').
  { constructor.
    - eapply LRB_mono; eauto; [exists [cn m]; reflexivity|]. intros i Hi. apply app_nth1. cbn in Hi. lia.
    - unfold K'. rewrite app_length. cbn. lia.
    - cbn [Nat.add]. unfold CLp, K', kc. rewrite <- Hlen, nth_middle. rewrite <- HlenK, nth_middle. reflexivity.
    - unfold K', kc. rewrite <- HlenK, nth_middle. intro Hin. contradiction. }
  assert (HlenCLp : List.length CLp = List.length (mkLocal (Some f) (Some d) false :: L)) by (unfold CLp; rewrite app_length; cbn; lia).
  destruct (capture_cells HL (map (fun d0 : bool * nat => nth (0 + snd d0) CLp 0) (swapd U))) as [HL' Uv] eqn:Ecc.
  destruct (capture_rel K' CLp HL _ en' ps b cb U L1' HL' Uv HLR1 HlenCLp (NoDup_snoc _ _ _ (s2_cl_nd _ _ _ SK) HnCL) (s2_hl_nd _ _ _ SK) Hb Hcb Ecc)
    as (Hdesc & Hext & HlenU & Hin' & HLR' & HUR).
  unfold clo_instr in Hf. fold (swapd U) in Hf.
  destruct (step2_closure_g cf funs _ _ _ _ _ _ _ _ _ _ _ _ _ _ HM Hf Hdesc Ecc) as (m' & A & B & C & D).
  assert (HdescLen : List.length (swapd U) = List.length U) by (unfold swapd; now rewrite map_length).
  exists m', HL'. split; [exact A|]. split; [rewrite <- HdescLen; exact B|]. split; [exact D|]. split; [exact HLR'|].
  assert (Hclo : vrel K' HL' (SVClo ps b en') (MClo ix Uv)).
  { apply (V3_clo cf funs K' HL' ps b en' ix Uv (mkLocal (Some f) (Some d) false :: L) cb U L1'); auto.
    - exact (LRB_ENV _ _ _ _ _ _ HLR1).
    - intros x c0 Hin. eapply LRB_cells; eauto. }
  assert (Est : ScopeLang.set_cell (fst (new_cell st SVNil)) c (SVClo ps b en') = fst (new_cell st (SVClo ps b en'))).
  { unfold new_cell, ScopeLang.set_cell. cbn [fst s_cells s_globals s_vecs s_out]. unfold c. now rewrite set_nth_snoc. }
  rewrite Est.
  apply STO_ext3 with (f := upd (cv m) (cn m) (MClo ix Uv)); [exact C|].
  rewrite D. apply STO3_new_self; [|exact HnK|lia|rewrite upd_same; exact Hclo].
  apply STO3_temp with (cnx := cn m); [apply STO3_HL with (HL := HL); auto|exact HnK|lia].
Qed.

(* ------------------------------------------------------------------------------------------ *)
(* script level, general fragment stmt4 *)

Lemma stmt4_ind : forall P : bool -> stmt -> Prop,
  (forall top x e, expr2 e = true -> P top (SDecl x e)) -> (forall top x e, expr2 e = true -> P top (SAssign x e)) ->
  (forall top e, expr2 e = true -> P top (SPrint e)) -> (forall top e, expr2 e = true -> P top (SExpr e)) ->
  (forall top b, forallb (stmt4 false) b = true -> Forall (P false) b -> P top (SBlock b)) ->
  (forall top f ps b, forallb bstmt2 b = true -> P top (SFun f ps b)) ->
  (forall top x ps b, forallb bstmt2 b = true -> top = true \/ existsb (s_mentions x) b = false -> P top (SLam x ps b)) ->
  forall top s, stmt4 top s = true -> P top s.
Proof.
  intros P Hd Ha Hp He Hb Hf Hl. fix IH 2. intros top s H. destruct s; cbn in H; try discriminate.
  1: apply Hd; exact H. 1: apply Ha; exact H. 1: apply Hp; exact H. 1: apply He; exact H.
  2: apply Hf; exact H.
  2: { apply andb_prop in H. destruct H as [H1 H2]. apply Hl; [exact H1|]. destruct top; [now left|right]. cbn in H2. now apply negb_true_iff in H2. }
  apply Hb; [exact H|].
  refine ((fix go (l : list stmt) : forallb (stmt4 false) l = true -> Forall (P false) l :=
             match l with
             | [] => fun _ => Forall_nil (P false)
             | a :: r => fun H0 => _
             end) b H).
  cbn in H0. apply andb_prop in H0. destruct H0 as [H1 H2].
  constructor; [apply IH; exact H1|apply go; exact H2].
Qed.

Lemma cstmt2_grow : forall top s, stmt4 top s = true -> forall L d fs code L' fs',
  cstmt2 cf s L d fs = Some (code, L', fs') -> exists ext, fs' = (fs ++ ext)%list.
Proof.
  intros top s Hs. pattern top, s. revert top s Hs. apply stmt4_ind.
  - intros _ x e He L d fs code L' fs'. cbn [cstmt2]. destruct (d =? 0).
    + destruct (cexpr2 L e); [|discriminate]. intros [= <- <- <-]. exists []. now rewrite app_nil_r.
    + destruct (dup_in_scope L x d); [discriminate|]. destruct (List.length L =? c_locals_max cf); [discriminate|].
      destruct (cexpr2 _ e); [|discriminate]. intros [= <- <- <-]. exists []. now rewrite app_nil_r.
  - intros _ x e He L d fs code L' fs'. cbn [cstmt2]. destruct (rv L x); [|discriminate]. destruct (cexpr2 L e); [|discriminate].
    intros [= <- <- <-]. exists []. now rewrite app_nil_r.
  - intros _ e He L d fs code L' fs'. cbn [cstmt2]. destruct (cexpr2 L e); [|discriminate]. intros [= <- <- <-]. exists []. now rewrite app_nil_r.
  - intros _ e He L d fs code L' fs'. cbn [cstmt2]. destruct (cexpr2 L e); [|discriminate]. intros [= <- <- <-]. exists []. now rewrite app_nil_r.
  - intros _ b Hb IH L d fs code L' fs'. rewrite cstmt2_block. destruct (clist2 cf b L (S d) fs) as [[[cb L1] fs1]|] eqn:E; [|discriminate].
    cbn zeta. intros [= <- <- <-]. clear Hb. revert L fs cb L1 fs1 E. generalize (S d) as d0.
    induction IH as [|a r Ha Hr IHr]; intros d0 L fs cb L1 fs1 E; cbn [clist2] in E.
    + inversion E; subst. exists []. now rewrite app_nil_r.
    + destruct (cstmt2 cf a L d0 fs) as [[[ca L2] fs2]|] eqn:Ea; [|discriminate].
      destruct (clist2 cf r L2 d0 fs2) as [[[cr L3] fs3]|] eqn:Er; [|discriminate]. inversion E; subst.
      destruct (Ha _ _ _ _ _ _ Ea) as [e1 ->]. destruct (IHr _ _ _ _ _ _ Er) as [e2 ->]. exists (e1 ++ e2)%list. now rewrite <- app_assoc.
  - intros _ f ps b Hb L d fs code L' fs'. cbn [cstmt2]. destruct (d =? 0).
    + destruct (cbody cf ps b L) as [[[cb U] L1]|]; [|discriminate]. intros [= <- <- <-]. eauto.
    + destruct (dup_in_scope L f d); [discriminate|]. destruct (List.length L =? c_locals_max cf); [discriminate|].
      destruct (cbody cf ps b _) as [[[cb U] L1]|]; [|discriminate]. intros [= <- <- <-]. eauto.
  - intros _ x ps b Hb _ L d fs code L' fs'. cbn [cstmt2]. destruct (d =? 0).
    + destruct (cbody cf ps b L) as [[[cb U] L1]|]; [|discriminate]. intros [= <- <- <-]. eauto.
    + destruct (dup_in_scope L x d); [discriminate|]. destruct (List.length L =? c_locals_max cf); [discriminate|].
      destruct (cbody cf ps b _) as [[[cb U] [|l0 L1]]|]; try discriminate. intros [= <- <- <-]. eauto.
Qed.

Lemma clist2_grow : forall top b, forallb (stmt4 top) b = true -> forall L d fs code L' fs',
  clist2 cf b L d fs = Some (code, L', fs') -> exists ext, fs' = (fs ++ ext)%list.
Proof.
  intros top b. induction b as [|a r IH]; intros Hb L d fs code L' fs' E; cbn [clist2] in E.
  - inversion E; subst. exists []. now rewrite app_nil_r.
  - cbn in Hb. apply andb_prop in Hb as [Ha Hr].
    destruct (cstmt2 cf a L d fs) as [[[ca L2] fs2]|] eqn:Ea; [|discriminate].
    destruct (clist2 cf r L2 d fs2) as [[[cr L3] fs3]|] eqn:Er; [|discriminate]. inversion E; subst.
    destruct (cstmt2_grow _ _ Ha _ _ _ _ _ _ Ea) as [e1 ->]. destruct (IH Hr _ _ _ _ _ _ Er) as [e2 ->]. exists (e1 ++ e2)%list. now rewrite <- app_assoc.
Qed.

Definition EXT2 (d : nat) (L : list local) (en : env) (L' : list local) (en' : env) : Prop :=
  exists N Ne L0, L' = (N ++ L0)%list /\ flags_up L L0 /\ en' = (Ne ++ en)%list /\ List.length N = List.length Ne /\
                  Forall (fun l => l_depth l = Some d) N.

Lemma EXT2_flags : forall d L en L0, flags_up L L0 -> EXT2 d L en L0 en.
Proof. intros d L en L0 H. exists [], [], L0. repeat split; auto. Qed.

Lemma flags_up_depths : forall N N' d, flags_up N N' -> Forall (fun l => l_depth l = Some d) N -> Forall (fun l => l_depth l = Some d) N'.
Proof.
  intros N N' d H. induction H as [|a b r r' (E1 & E2 & E3) H IH]; intros HF; [constructor|].
  inversion HF; subst. constructor; [congruence|auto].
Qed.

Lemma EXT2_trans : forall d L en L1 en1 L2 en2, EXT2 d L en L1 en1 -> EXT2 d L1 en1 L2 en2 -> EXT2 d L en L2 en2.
Proof.
  intros d L en L1 en1 L2 en2 (N1 & Ne1 & L01 & -> & F1 & -> & H1 & D1) (N2 & Ne2 & L02 & -> & F2 & -> & H2 & D2).
  destruct (flags_up_app_inv _ _ _ F2) as (N1' & L01' & -> & FN & FL).
  exists (N2 ++ N1')%list, (Ne2 ++ Ne1)%list, L01'. rewrite !app_assoc. repeat split; auto.
  - eapply flags_up_trans; eauto.
  - rewrite !app_length. rewrite (flags_up_length _ _ FN). lia.
  - apply Forall_app. split; [exact D2|]. eapply flags_up_depths; eauto.
Qed.


Definition SS_goal (fuel : nat) : Prop := forall s en top st st' en',
  exec_stmt fuel s en top st = (st', en', CNorm) -> stmt4 top s = true ->
  forall L d fs code L' fs', cstmt2 cf s L d fs = Some (code, L', fs') -> top = (d =? 0) -> depth_le d L ->
  (exists ext, funs = (fs' ++ ext)%list) -> (d = 0 -> en = []) ->
  forall K CL HL, LRB K CL HL 0 L en -> List.length CL = List.length L ->
  forall m fn G O pre post, code_of funs fn = (pre ++ code ++ post)%list ->
  MS2 m fn [] (code_size pre) 0 [] CL HL G O -> sto st K HL (cv m) (cn m) G O ->
  exists n m' K' CL' HL' G' O', steps cf funs n m m' /\
    MS2 m' fn [] (code_size pre + code_size code) 0 [] CL' HL' G' O' /\
    sto st' K' HL' (cv m') (cn m') G' O' /\ LRB K' CL' HL' 0 L' en' /\ List.length CL' = List.length L' /\
    cn m <= cn m' /\ EXT2 d L en L' en' /\ (d = 0 -> en' = en).

Definition SL_goal (fuel : nat) : Prop := forall ss en top st st' en',
  exec_list fuel ss en top st = (st', en', CNorm) -> forallb (stmt4 top) ss = true ->
  forall L d fs code L' fs', clist2 cf ss L d fs = Some (code, L', fs') -> top = (d =? 0) -> depth_le d L ->
  (exists ext, funs = (fs' ++ ext)%list) -> (d = 0 -> en = []) ->
  forall K CL HL, LRB K CL HL 0 L en -> List.length CL = List.length L ->
  forall m fn G O pre post, code_of funs fn = (pre ++ code ++ post)%list ->
  MS2 m fn [] (code_size pre) 0 [] CL HL G O -> sto st K HL (cv m) (cn m) G O ->
  exists n m' K' CL' HL' G' O', steps cf funs n m m' /\
    MS2 m' fn [] (code_size pre + code_size code) 0 [] CL' HL' G' O' /\
    sto st' K' HL' (cv m') (cn m') G' O' /\ LRB K' CL' HL' 0 L' en' /\ List.length CL' = List.length L' /\
    cn m <= cn m' /\ EXT2 d L en L' en' /\ (d = 0 -> en' = en).

Lemma EXT2_depth_le : forall d L en L' en', depth_le d L -> EXT2 d L en L' en' -> depth_le d L'.
Proof.
  intros d L en L' en' H (N & Ne & L0 & -> & F & _ & _ & D). apply Forall_app. split.
  - revert D. apply Forall_impl. intros l E. now rewrite E.
  - eapply flags_up_depth_le; eauto.
Qed.


Lemma SL_step : forall fu, SS_goal fu -> SL_goal fu -> SL_goal (S fu).
Proof.
  intros fu HS HL ss en top st st' en' He Hf L d fs code L' fs' Hc Ht Hd Hfuns Hen0 K CL HL0 HLR Hlen m fn G O pre post Hcode HM HST.
  destruct ss as [|s r].
  - cbn in He, Hc. inversion He; inversion Hc; subst. exists 0, m, K, CL, HL0, G, O. cbn [code_size]. rewrite Nat.add_0_r.
    split; [reflexivity|]. split; [exact HM|]. split; [exact HST|]. split; [exact HLR|]. split; [exact Hlen|]. split; [lia|].
    split; [apply EXT2_flags, flags_up_refl|auto].
  - cbn in Hf. apply andb_prop in Hf as [Hf1 Hf2]. cbn [exec_list] in He. cbn [clist2] in Hc.
    destruct (exec_stmt fu s en top st) as [[st1 en1] c1] eqn:E1. destruct c1; try (inversion He; fail).
    destruct (cstmt2 cf s L d fs) as [[[ca L1] fs1]|] eqn:C1; [|discriminate].
    destruct (clist2 cf r L1 d fs1) as [[[cr L2] fs2]|] eqn:C2; [|discriminate]. inversion Hc; subst code L' fs'. clear Hc.
    assert (Hfuns1 : exists ext, funs = (fs1 ++ ext)%list).
    { destruct Hfuns as [ext ->]. destruct (clist2_grow _ r Hf2 _ _ _ _ _ _ C2) as [e2 ->]. exists (e2 ++ ext)%list. now rewrite <- app_assoc. }
    destruct (HS _ _ _ _ _ _ E1 Hf1 _ _ _ _ _ _ C1 Ht Hd Hfuns1 Hen0 _ _ _ HLR Hlen m fn G O pre (cr ++ post)%list)
      as (n1 & m1 & K1 & CL1 & HL1 & G1 & O1 & S1 & M1 & ST1 & LR1 & Len1 & Hcn1 & X1 & Y1).
    { rewrite Hcode. now rewrite <- app_assoc. }
    { exact HM. }
    { exact HST. }
    assert (Hen1 : d = 0 -> en1 = []) by (intro Hd0; rewrite (Y1 Hd0); auto).
    destruct (HL _ _ _ _ _ _ He Hf2 _ _ _ _ _ _ C2 Ht (EXT2_depth_le _ _ _ _ _ Hd X1) Hfuns Hen1 _ _ _ LR1 Len1 m1 fn G1 O1 (pre ++ ca)%list post)
      as (n2 & m2 & K2 & CL2 & HL2 & G2 & O2 & S2 & M2 & ST2 & LR2 & Len2 & Hcn2 & X2 & Y2).
    { rewrite Hcode. now rewrite <- !app_assoc. }
    { rewrite code_size_app. exact M1. }
    { exact ST1. }
    exists (n1 + n2), m2, K2, CL2, HL2, G2, O2. split; [eapply steps_trans; eauto|].
    split. { rewrite !code_size_app in *. rewrite Nat.add_assoc. exact M2. }
    split; [exact ST2|]. split; [exact LR2|]. split; [exact Len2|]. split; [lia|]. split; [eapply EXT2_trans; eauto|].
    intro Hd0. rewrite (Y2 Hd0). auto.
Qed.

Lemma CTX_script : forall K CL HL L en, LRB K CL HL 0 L en -> List.length L <= List.length CL -> CTX K CL HL 0 L en [] [] [] [].
Proof.
  intros K CL HL L en H Hl. constructor; auto.
  - now left.
  - intros k slot b Hk. destruct k; discriminate.
  - intros x c [].
Qed.

Lemma E_script : forall fu, E_goal fu -> forall e en st st' v,
  eval_expr fu e en st = (st', ROk v) -> expr2 e = true ->
  forall L ce, cexpr2 L e = Some ce ->
  forall K CL HL, LRB K CL HL 0 L en -> List.length L <= List.length CL ->
  forall m fn G O pre post, code_of funs fn = (pre ++ ce ++ post)%list ->
  MS2 m fn [] (code_size pre) 0 [] CL HL G O -> sto st K HL (cv m) (cn m) G O ->
  exists n m' K' cnew G' O', steps cf funs n m m' /\
    MS2 m' fn [] (code_size pre + code_size ce) 0 [] (CL ++ [cnew])%list HL G' O' /\
    sto st' K' HL (cv m') (cn m') G' O' /\ KEXT K K' (cn m) (cn m') /\ vrel K' HL v (cv m' cnew) /\
    cn m <= cnew < cn m' /\ ~ In cnew K' /\ FRAMEC m m' K.
Proof.
  intros fu IHE e en st st' v He Hf L ce Hc K CL HL HLR Hlen m fn G O pre post Hcode HM HS.
  rewrite <- (app_nil_r en) in He.
  assert (Hb : bexpr cf L e [] [] = Some (ce, [], [])) by (rewrite (bexpr_script2 cf e Hf), Hc; reflexivity).
  eapply (IHE e en [] st st' v He Hf L [] [] ce [] [] Hb [] [] K CL HL 0); eauto.
  - exists []. reflexivity.
  - now apply CTX_script.
Qed.

Lemma LRB_K_mono : forall K CL HL L en K' t, LRB K CL HL 0 L en -> (exists e, K' = (K ++ e)%list) ->
  List.length L <= List.length CL -> LRB K' (CL ++ t) HL 0 L en.
Proof.
  intros K CL HL L en K' t H HK Hl. eapply LRB_mono; eauto.
  - intros i Hi. apply app_nth1. cbn in Hi. lia.
Qed.


Lemma case2_decl : forall fu, E_goal fu -> forall x e en top st st' en',
  exec_stmt (S fu) (SDecl x e) en top st = (st', en', CNorm) -> expr2 e = true ->
  forall L d fs code L' fs', cstmt2 cf (SDecl x e) L d fs = Some (code, L', fs') -> top = (d =? 0) -> depth_le d L ->
  forall K CL HL, LRB K CL HL 0 L en -> List.length CL = List.length L ->
  forall m fn G O pre post, code_of funs fn = (pre ++ code ++ post)%list ->
  MS2 m fn [] (code_size pre) 0 [] CL HL G O -> sto st K HL (cv m) (cn m) G O ->
  exists n m' K' CL' HL' G' O', steps cf funs n m m' /\
    MS2 m' fn [] (code_size pre + code_size code) 0 [] CL' HL' G' O' /\
    sto st' K' HL' (cv m') (cn m') G' O' /\ LRB K' CL' HL' 0 L' en' /\ List.length CL' = List.length L' /\
    cn m <= cn m' /\ EXT2 d L en L' en' /\ (d = 0 -> en' = en).
Proof.
  intros fu IHE x e en top st st' en' He Hf L d fs code L' fs' Hc Ht Hd K CL HL HLR Hlen m fn G O pre post Hcode HM HS.
  cbn [exec_stmt] in He. destruct (eval_expr fu e en st) as [st1 rr] eqn:Ee. destruct rr as [v| | |]; try discriminate.
  cbn [cstmt2] in Hc. unfold declare in He. rewrite Ht in He. destruct (d =? 0) eqn:Ed.
  - (* global *)
    destruct (cexpr2 L e) as [ce|] eqn:Ece; [|discriminate]. inversion Hc; subst code L' fs'. inversion He; subst st' en'. clear Hc He.
    destruct (E_script fu IHE e en st st1 v Ee Hf L ce Ece K CL HL HLR ltac:(lia) m fn G O pre ([IDefineGlobal x] ++ post)%list)
      as (n1 & m1 & K1 & c1 & G1 & O1 & S1 & M1 & ST1 & KX1 & R1 & B1 & N1 & F1).
    { rewrite Hcode. now rewrite <- app_assoc. }
    { exact HM. }
    { exact HS. }
    assert (Hfe : fetch (code_of funs fn) (code_size pre + code_size ce) = Some (IDefineGlobal x)).
    { eapply fetch_mid with (c2 := []) (post := post). exact Hcode. }
    assert (Hh1 : ~ In c1 HL) by (apply (notin_HL_fresh _ _ _ _ _ _ _ _ _ _ c1 HM); lia).
    destruct (step2_defglobal cf funs _ _ _ _ _ _ _ _ _ _ _ _ M1 Hfe Hh1) as (m2 & A2 & B2 & C2 & D2).
    exists (n1 + 1), m2, K1, CL, HL, (set_assoc G1 x (cv m1 c1)), O1.
    split. { apply (steps_trans cf funs n1 1 m m1 m2 S1). now apply steps_one. }
    split. { rewrite code_size_app. cbn [code_size isize]. replace (code_size pre + (code_size ce + (3 + 0))) with (code_size pre + code_size ce + 3) by lia. exact B2. }
    split. { rewrite C2, D2. apply STO3_global; auto. }
    split. { rewrite <- (app_nil_r CL). eapply LRB_K_mono; eauto; [eapply KEXT_ext; eauto|lia]. }
    split; [exact Hlen|]. split; [lia|]. split; [apply EXT2_flags, flags_up_refl|auto].
  - (* local *)
    destruct (dup_in_scope L x d); [discriminate|]. destruct (List.length L =? c_locals_max cf); [discriminate|].
    destruct (cexpr2 (mkLocal (Some x) None false :: L) e) as [ce|] eqn:Ece; [|discriminate].
    inversion Hc; subst code L' fs'. clear Hc. apply (cexpr2_uninit2 x e Hf L) in Ece.
    unfold new_cell in He. inversion He; subst st' en'. clear He.
    destruct (E_script fu IHE e en st st1 v Ee Hf L ce Ece K CL HL HLR ltac:(lia) m fn G O pre post Hcode HM HS)
      as (n1 & m1 & K1 & c1 & G1 & O1 & S1 & M1 & ST1 & KX1 & R1 & B1 & N1 & F1).
    assert (Hh1 : ~ In c1 HL) by (apply (notin_HL_fresh _ _ _ _ _ _ _ _ _ _ c1 HM); lia).
    pose proof (sto3_len _ _ _ _ _ _ _ _ _ ST1) as HlenK.
    exists n1, m1, (K1 ++ [c1])%list, (CL ++ [c1])%list, HL, G1, O1.
    split; [exact S1|]. split; [exact M1|].
    split. { apply (STO3_new cf funs st1 K1 HL (cv m1) (cn m1) G1 O1 c1 v ST1 N1 ltac:(lia) R1). }
    split.
    { constructor.
      - eapply LRB_K_mono; eauto; [|lia]. destruct KX1 as (e1 & -> & _). exists (e1 ++ [c1])%list. now rewrite <- app_assoc.
      - rewrite app_length. cbn. lia.
      - cbn [Nat.add]. rewrite <- Hlen, nth_middle. unfold kc. rewrite <- HlenK, nth_middle. reflexivity.
      - unfold kc. rewrite <- HlenK, nth_middle. intro Hin. contradiction. }
    split; [rewrite app_length; cbn; lia|]. split; [lia|].
    split; [exists [mkLocal (Some x) (Some d) false], [(x, List.length (s_cells st1))], L; repeat split; auto using flags_up_refl|].
    intro Hd0. subst d. discriminate.
Qed.

Lemma case2_assign : forall fu, E_goal fu -> forall x e en top st st' en',
  exec_stmt (S fu) (SAssign x e) en top st = (st', en', CNorm) -> expr2 e = true ->
  forall L d fs code L' fs', cstmt2 cf (SAssign x e) L d fs = Some (code, L', fs') ->
  forall K CL HL, LRB K CL HL 0 L en -> List.length CL = List.length L ->
  forall m fn G O pre post, code_of funs fn = (pre ++ code ++ post)%list ->
  MS2 m fn [] (code_size pre) 0 [] CL HL G O -> sto st K HL (cv m) (cn m) G O ->
  exists n m' K' CL' HL' G' O', steps cf funs n m m' /\
    MS2 m' fn [] (code_size pre + code_size code) 0 [] CL' HL' G' O' /\
    sto st' K' HL' (cv m') (cn m') G' O' /\ LRB K' CL' HL' 0 L' en' /\ List.length CL' = List.length L' /\
    cn m <= cn m' /\ EXT2 d L en L' en' /\ (d = 0 -> en' = en).
Proof.
  intros fu IHE x e en top st st' en' He Hf L d fs code L' fs' Hc K CL HL HLR Hlen m fn G O pre post Hcode HM HS.
  cbn [exec_stmt] in He. destruct (eval_expr fu e en st) as [st1 rr] eqn:Ee. destruct rr as [v| | |]; try discriminate.
  destruct (write_var st1 en x v) as [st2|] eqn:Ew; [|discriminate]. inversion He; subst st' en'. clear He.
  cbn [cstmt2] in Hc. destruct (rv L x) as [r|] eqn:Erv; [|discriminate].
  destruct (cexpr2 L e) as [ce|] eqn:Ece; [|discriminate]. inversion Hc; subst code L' fs'. clear Hc.
  destruct (E_script fu IHE e en st st1 v Ee Hf L ce Ece K CL HL HLR ltac:(lia) m fn G O pre ([set_op r x; IPop] ++ post)%list)
    as (n1 & m1 & K1 & c1 & G1 & O1 & S1 & M1 & ST1 & KX1 & R1 & B1 & N1 & F1).
  { rewrite Hcode. now rewrite <- app_assoc. }
  { exact HM. }
  { exact HS. }
  assert (Hfe : fetch (code_of funs fn) (code_size pre + code_size ce) = Some (set_op r x)).
  { eapply fetch_mid with (c2 := [IPop]) (post := post). exact Hcode. }
  assert (Hh1 : ~ In c1 HL) by (apply (notin_HL_fresh _ _ _ _ _ _ _ _ _ _ c1 HM); lia).
  assert (Hrvb : rvb cf L [] [] x = Some (r, [], [])) by (rewrite rvb_script, Erv; reflexivity).
  assert (HLR1 : LRB K1 CL HL 0 L en).
  { rewrite <- (app_nil_r CL). eapply LRB_K_mono; eauto; [eapply KEXT_ext; eauto|lia]. }
  unfold write_var in Ew. destruct (assoc en x) as [c|] eqn:Ea.
  - inversion Ew; subst st2. clear Ew.
    assert (Hw1 : where_is K1 CL HL 0 [] r c).
    { eapply resolve_cell with (enb := en) (cenv := []) (Ufin := []); eauto.
      - now rewrite app_nil_r.
      - lia.
      - now left.
      - intros k slot b Hk. destruct k; discriminate.
      - exists []. reflexivity. }
    destruct (exec_set _ _ _ _ _ _ _ _ x _ _ _ _ _ _ Hw1 M1 Hfe) as (m2 & A2 & B2 & C2 & D2).
    assert (Hfe2 : fetch (code_of funs fn) (code_size pre + code_size ce + 2) = Some IPop).
    { replace (code_size pre + code_size ce + 2) with (code_size pre + code_size (ce ++ [set_op r x])).
      - eapply fetch_mid with (c2 := []) (post := post). rewrite Hcode. now rewrite <- !app_assoc.
      - rewrite code_size_app. destruct Hw1; cbn; lia. }
    destruct (step2_pop cf funs _ _ _ _ _ _ _ _ _ _ _ B2 Hfe2 Hh1) as (m3 & A3 & B3 & C3 & D3).
    assert (Hck : c < List.length K1) by (destruct Hw1; assumption).
    exists (n1 + 2), m3, K1, CL, HL, G1, O1.
    split. { apply (steps_trans cf funs n1 2 m m1 m3 S1). exists m2. split; [exact A2|now apply steps_one]. }
    split. { rewrite code_size_app. cbn [code_size]. replace (isize (set_op r x)) with 2 by (destruct Hw1; reflexivity). cbn [isize].
             replace (code_size pre + (code_size ce + (2 + (1 + 0)))) with (code_size pre + code_size ce + 2 + 1) by lia. exact B3. }
    split. { rewrite C3, D3, C2, D2. apply STO3_write; auto. }
    split; [exact HLR1|]. split; [exact Hlen|]. split; [lia|]. split; [apply EXT2_flags, flags_up_refl|auto].
  - destruct (assoc (s_globals st1) x) as [w|] eqn:Eg; [|discriminate]. inversion Ew; subst st2. clear Ew.
    assert (r = VGlobal).
    { eapply resolve_global with (enb := en) (cenv := []); eauto; [now rewrite app_nil_r|now left]. }
    subst r. cbn [set_op] in *.
    destruct (GR3_assoc _ _ _ _ _ _ _ _ (sto3_g _ _ _ _ _ _ _ _ _ ST1) Eg) as (w' & Eg' & _).
    destruct (step2_setglobal cf funs _ _ _ _ _ _ _ _ _ _ _ _ _ M1 Hfe Eg') as (m2 & A2 & B2 & C2 & D2).
    assert (Hfe2 : fetch (code_of funs fn) (code_size pre + code_size ce + 3) = Some IPop).
    { replace (code_size pre + code_size ce + 3) with (code_size pre + code_size (ce ++ [ISetGlobal x])).
      - eapply fetch_mid with (c2 := []) (post := post). rewrite Hcode. now rewrite <- !app_assoc.
      - rewrite code_size_app. cbn. lia. }
    destruct (step2_pop cf funs _ _ _ _ _ _ _ _ _ _ _ B2 Hfe2 Hh1) as (m3 & A3 & B3 & C3 & D3).
    exists (n1 + 2), m3, K1, CL, HL, (set_assoc G1 x (cv m1 c1)), O1.
    split. { apply (steps_trans cf funs n1 2 m m1 m3 S1). exists m2. split; [exact A2|now apply steps_one]. }
    split. { rewrite code_size_app. cbn [code_size isize].
             replace (code_size pre + (code_size ce + (3 + (1 + 0)))) with (code_size pre + code_size ce + 3 + 1) by lia. exact B3. }
    split. { rewrite C3, D3, C2, D2. apply STO3_global; auto. }
    split; [exact HLR1|]. split; [exact Hlen|]. split; [lia|]. split; [apply EXT2_flags, flags_up_refl|auto].
Qed.

Lemma case2_print : forall fu, E_goal fu -> forall e en top st st' en',
  exec_stmt (S fu) (SPrint e) en top st = (st', en', CNorm) -> expr2 e = true ->
  forall L d fs code L' fs', cstmt2 cf (SPrint e) L d fs = Some (code, L', fs') ->
  forall K CL HL, LRB K CL HL 0 L en -> List.length CL = List.length L ->
  forall m fn G O pre post, code_of funs fn = (pre ++ code ++ post)%list ->
  MS2 m fn [] (code_size pre) 0 [] CL HL G O -> sto st K HL (cv m) (cn m) G O ->
  exists n m' K' CL' HL' G' O', steps cf funs n m m' /\
    MS2 m' fn [] (code_size pre + code_size code) 0 [] CL' HL' G' O' /\
    sto st' K' HL' (cv m') (cn m') G' O' /\ LRB K' CL' HL' 0 L' en' /\ List.length CL' = List.length L' /\
    cn m <= cn m' /\ EXT2 d L en L' en' /\ (d = 0 -> en' = en).
Proof.
  intros fu IHE e en top st st' en' He Hf L d fs code L' fs' Hc K CL HL HLR Hlen m fn G O pre post Hcode HM HS.
  cbn [exec_stmt] in He. destruct (eval_expr fu e en st) as [st1 rr] eqn:Ee. destruct rr as [v| | |]; try discriminate.
  inversion He; subst st' en'. clear He.
  cbn [cstmt2] in Hc. destruct (cexpr2 L e) as [ce|] eqn:Ece; [|discriminate]. inversion Hc; subst code L' fs'. clear Hc.
  assert (Hf0 : fetch (code_of funs fn) (code_size pre) = Some (IGetGlobal GPrint)) by (rewrite Hcode; apply fetch_app).
  destruct (step2_getprint cf funs _ _ _ _ _ _ _ _ _ _ HM Hf0) as (m0 & A0 & B0 & C0 & D0).
  destruct (sto_push _ _ _ _ _ _ _ _ HS C0 D0) as (S01 & S02 & S03).
  assert (HLR0 : LRB K (CL ++ [cn m]) HL 0 L en) by (eapply LRB_K_mono; eauto; [exists []; now rewrite app_nil_r|lia]).
  destruct (E_script fu IHE e en st st1 v Ee Hf L ce Ece K (CL ++ [cn m])%list HL HLR0 ltac:(rewrite app_length; lia) m0 fn G O
              (pre ++ [IGetGlobal GPrint])%list ([ICall 1; IPop] ++ post)%list)
    as (n1 & m1 & K1 & c1 & G1 & O1 & S1 & M1 & ST1 & KX1 & R1 & B1 & N1 & F1).
  { rewrite Hcode. cbn. now rewrite <- !app_assoc. }
  { rewrite code_size_app. cbn [code_size isize]. replace (code_size pre + (3 + 0)) with (code_size pre + 3) by lia. exact B0. }
  { exact S01. }
  rewrite <- app_assoc in M1. cbn [app] in M1.
  assert (Hfe1 : fetch (code_of funs fn) (code_size (pre ++ [IGetGlobal GPrint]) + code_size ce) = Some (ICall 1)).
  { eapply fetch_mid with (c2 := [IPop]) (post := post). rewrite Hcode. cbn. now rewrite <- !app_assoc. }
  assert (Hcp : cv m1 (cn m) = MPrintFn) by (rewrite F1; [rewrite C0; apply upd_same|lia|exact S02]).
  assert (Hh1 : ~ In c1 HL) by (apply (notin_HL_fresh _ _ _ _ _ _ _ _ _ _ c1 HM); lia).
  assert (Hhp : ~ In (cn m) HL) by (apply (notin_HL_fresh _ _ _ _ _ _ _ _ _ _ (cn m) HM); lia).
  destruct (step2_callprint cf funs _ _ _ _ _ _ _ _ _ _ _ _ M1 Hfe1 Hcp Hh1) as (m2 & A2 & B2 & C2 & D2).
  assert (Hfe2 : fetch (code_of funs fn) (code_size (pre ++ [IGetGlobal GPrint]) + code_size ce + 2) = Some IPop).
  { replace (code_size (pre ++ [IGetGlobal GPrint]) + code_size ce + 2) with (code_size (pre ++ [IGetGlobal GPrint]) + code_size (ce ++ [ICall 1])).
    - eapply fetch_mid with (c2 := []) (post := post). rewrite Hcode. cbn. now rewrite <- !app_assoc.
    - rewrite !code_size_app. cbn. lia. }
  destruct (step2_pop cf funs _ _ _ _ _ _ _ _ _ _ _ B2 Hfe2 Hhp) as (m3 & A3 & B3 & C3 & D3).
  assert (HpK1 : ~ In (cn m) K1).
  { intro Hin. destruct (KEXT_in _ _ _ _ _ KX1 Hin) as [Hi|Hi]; [contradiction|lia]. }
  exists (1 + (n1 + 2)), m3, K1, CL, HL, G1, (show_mval (cv m1 c1) :: O1).
  split. { exists m0. split; [exact A0|]. apply (steps_trans cf funs n1 2 m0 m1 m3 S1). exists m2. split; [exact A2|now apply steps_one]. }
  split. { replace (code_size pre + code_size (IGetGlobal GPrint :: ce ++ [ICall 1; IPop]))
             with (code_size (pre ++ [IGetGlobal GPrint]) + code_size ce + 2 + 1); [exact B3|].
           rewrite code_size_app. cbn [code_size isize]. rewrite code_size_app. cbn [code_size isize]. lia. }
  split. { rewrite C3, D3, C2, D2.
           assert (ST1' : sto st1 K1 HL (upd (cv m1) (cn m) MNil) (cn m1) G1 O1) by (apply STO3_temp with (cnx := cn m1); auto).
           destruct ST1' as [T1 T2 T3 T4 T5 T6]. constructor; cbn [s_cells s_globals s_out]; auto.
           rewrite (vrel3_show _ _ _ _ _ _ R1). now rewrite T6. }
  split. { rewrite <- (app_nil_r CL). eapply LRB_K_mono; eauto; [eapply KEXT_ext; eauto|lia]. }
  split; [exact Hlen|]. split; [lia|]. split; [apply EXT2_flags, flags_up_refl|auto].
Qed.

Lemma case2_expr : forall fu, E_goal fu -> forall e en top st st' en',
  exec_stmt (S fu) (SExpr e) en top st = (st', en', CNorm) -> expr2 e = true ->
  forall L d fs code L' fs', cstmt2 cf (SExpr e) L d fs = Some (code, L', fs') ->
  forall K CL HL, LRB K CL HL 0 L en -> List.length CL = List.length L ->
  forall m fn G O pre post, code_of funs fn = (pre ++ code ++ post)%list ->
  MS2 m fn [] (code_size pre) 0 [] CL HL G O -> sto st K HL (cv m) (cn m) G O ->
  exists n m' K' CL' HL' G' O', steps cf funs n m m' /\
    MS2 m' fn [] (code_size pre + code_size code) 0 [] CL' HL' G' O' /\
    sto st' K' HL' (cv m') (cn m') G' O' /\ LRB K' CL' HL' 0 L' en' /\ List.length CL' = List.length L' /\
    cn m <= cn m' /\ EXT2 d L en L' en' /\ (d = 0 -> en' = en).
Proof.
  intros fu IHE e en top st st' en' He Hf L d fs code L' fs' Hc K CL HL HLR Hlen m fn G O pre post Hcode HM HS.
  cbn [exec_stmt] in He. destruct (eval_expr fu e en st) as [st1 rr] eqn:Ee. destruct rr as [v| | |]; try discriminate.
  inversion He; subst st' en'. clear He.
  cbn [cstmt2] in Hc. destruct (cexpr2 L e) as [ce|] eqn:Ece; [|discriminate]. inversion Hc; subst code L' fs'. clear Hc.
  destruct (E_script fu IHE e en st st1 v Ee Hf L ce Ece K CL HL HLR ltac:(lia) m fn G O pre ([IPop] ++ post)%list)
    as (n1 & m1 & K1 & c1 & G1 & O1 & S1 & M1 & ST1 & KX1 & R1 & B1 & N1 & F1).
  { rewrite Hcode. now rewrite <- app_assoc. }
  { exact HM. }
  { exact HS. }
  assert (Hfe : fetch (code_of funs fn) (code_size pre + code_size ce) = Some IPop).
  { eapply fetch_mid with (c2 := []) (post := post). exact Hcode. }
  assert (Hh1 : ~ In c1 HL) by (apply (notin_HL_fresh _ _ _ _ _ _ _ _ _ _ c1 HM); lia).
  destruct (step2_pop cf funs _ _ _ _ _ _ _ _ _ _ _ M1 Hfe Hh1) as (m2 & A2 & B2 & C2 & D2).
  exists (n1 + 1), m2, K1, CL, HL, G1, O1.
  split. { apply (steps_trans cf funs n1 1 m m1 m2 S1). now apply steps_one. }
  split. { rewrite code_size_app. cbn [code_size isize]. replace (code_size pre + (code_size ce + (1 + 0))) with (code_size pre + code_size ce + 1) by lia. exact B2. }
  split. { rewrite C2, D2. exact ST1. }
  split. { rewrite <- (app_nil_r CL). eapply LRB_K_mono; eauto; [eapply KEXT_ext; eauto|lia]. }
  split; [exact Hlen|]. split; [lia|]. split; [apply EXT2_flags, flags_up_refl|auto].
Qed.


Lemma case2_block : forall fu, SL_goal fu -> forall b en top st st' en',
  exec_stmt (S fu) (SBlock b) en top st = (st', en', CNorm) -> forallb (stmt4 false) b = true ->
  forall L d fs code L' fs', cstmt2 cf (SBlock b) L d fs = Some (code, L', fs') -> depth_le d L ->
  (exists ext, funs = (fs' ++ ext)%list) ->
  forall K CL HL, LRB K CL HL 0 L en -> List.length CL = List.length L ->
  forall m fn G O pre post, code_of funs fn = (pre ++ code ++ post)%list ->
  MS2 m fn [] (code_size pre) 0 [] CL HL G O -> sto st K HL (cv m) (cn m) G O ->
  exists n m' K' CL' HL' G' O', steps cf funs n m m' /\
    MS2 m' fn [] (code_size pre + code_size code) 0 [] CL' HL' G' O' /\
    sto st' K' HL' (cv m') (cn m') G' O' /\ LRB K' CL' HL' 0 L' en' /\ List.length CL' = List.length L' /\
    cn m <= cn m' /\ EXT2 d L en L' en' /\ (d = 0 -> en' = en).
Proof.
  intros fu HLg b en top st st' en' He Hf L d fs code L' fs' Hc Hd Hfuns K CL HL HLR Hlen m fn G O pre post Hcode HM HS.
  cbn [exec_stmt] in He. destruct (exec_list fu b en false st) as [[st1 en1] c1] eqn:El.
  inversion He; subst st' en' c1. clear He.
  rewrite cstmt2_block in Hc. destruct (clist2 cf b L (S d) fs) as [[[cb L1] fs1]|] eqn:Cl; [|discriminate].
  cbn zeta in Hc. inversion Hc; subst code L' fs'. clear Hc.
  destruct (HLg _ _ _ _ _ _ El Hf _ _ _ _ _ _ Cl eq_refl (depth_le_S _ _ Hd) Hfuns ltac:(discriminate) _ _ _ HLR Hlen m fn G O pre (scope_end_ops L1 d ++ post)%list)
    as (n1 & m1 & K1 & CL1 & HL1 & G1 & O1 & S1 & M1 & ST1 & LR1 & Len1 & Hcn1 & X1 & _).
  { rewrite Hcode. now rewrite <- app_assoc. }
  { exact HM. }
  { exact HS. }
  destruct X1 as (N & Ne & L0 & -> & HF & -> & HNlen & HN).
  pose proof (LRB_nonempty _ _ _ _ _ _ HLR) as HLne.
  assert (HL0ne : L0 <> []).
  { intro; subst L0. pose proof (flags_up_length _ _ HF). cbn in H. destruct L; [congruence|discriminate]. }
  assert (Hd0 : depth_le d L0) by (eapply flags_up_depth_le; eauto).
  rewrite (scope_end_len N L0 d HN Hd0 HL0ne), skipn_app_len.
  destruct (scope_end_run_b N K1 CL1 HL1 0 L0 Ne en d m1 fn [] [] (pre ++ cb)%list post G1 O1 LR1 HNlen Len1 HN Hd0 HL0ne)
    as (m2 & S2 & M2 & C2 & D2).
  { rewrite Hcode. now rewrite <- !app_assoc. }
  { rewrite code_size_app. exact M1. }
  exists (n1 + List.length N), m2, K1, (firstn (0 + List.length L0) CL1), HL1, G1, O1.
  split; [eapply steps_trans; eauto|].
  split. { rewrite !code_size_app in *. rewrite Nat.add_assoc. exact M2. }
  split. { rewrite C2, D2. exact ST1. }
  split.
  { apply LRB_drop in LR1; auto. eapply LRB_mono; eauto; [exists []; now rewrite app_nil_r|].
    intros i Hi. cbn [Nat.add] in *. now apply nth_firstn_lt. }
  split. { rewrite firstn_length, Len1, app_length. cbn [Nat.add]. lia. }
  split; [lia|]. split; [now apply EXT2_flags|auto].
Qed.

Lemma case2_lam : forall fu x ps b en top st st' en',
  exec_stmt (S fu) (SLam x ps b) en top st = (st', en', CNorm) ->
  forallb bstmt2 b = true -> (top = true \/ existsb (s_mentions x) b = false) ->
  forall L d fs code L' fs', cstmt2 cf (SLam x ps b) L d fs = Some (code, L', fs') -> top = (d =? 0) ->
  (exists ext, funs = (fs' ++ ext)%list) ->
  forall K CL HL, LRB K CL HL 0 L en -> List.length CL = List.length L ->
  forall m fn G O pre post, code_of funs fn = (pre ++ code ++ post)%list ->
  MS2 m fn [] (code_size pre) 0 [] CL HL G O -> sto st K HL (cv m) (cn m) G O ->
  exists n m' K' CL' HL' G' O', steps cf funs n m m' /\
    MS2 m' fn [] (code_size pre + code_size code) 0 [] CL' HL' G' O' /\
    sto st' K' HL' (cv m') (cn m') G' O' /\ LRB K' CL' HL' 0 L' en' /\ List.length CL' = List.length L' /\
    cn m <= cn m' /\ EXT2 d L en L' en' /\ (d = 0 -> en' = en).
Proof.
  intros fu x ps b en top st st' en' He Hb Hm L d fs code L' fs' Hc Ht Hfuns K CL HL HLR Hlen m fn G O pre post Hcode HM HS.
  cbn [exec_stmt] in He. unfold declare in He. rewrite Ht in He, Hm.
  cbn [cstmt2] in Hc. destruct (d =? 0) eqn:Ed.
  - (* a global function value *)
    destruct (cbody cf ps b L) as [[[cb U] L1]|] eqn:Ecb; [|discriminate]. inversion Hc; subst code L' fs'. clear Hc.
    inversion He; subst st' en'. clear He.
    assert (Hfn : nth_error funs (List.length fs) = Some (mkFunc cb (List.length ps) (List.length U))).
    { destruct Hfuns as [ext ->]. rewrite <- app_assoc. rewrite nth_error_app2 by lia. now rewrite Nat.sub_diag. }
    assert (Hfe : fetch (code_of funs fn) (code_size pre) = Some (clo_instr (List.length fs) U)) by (rewrite Hcode; apply fetch_app).
    destruct (mk_closure K CL HL L en ps b cb U L1 (List.length fs) st m fn (code_size pre) G O HLR Hlen Hb Ecb Hfn HM Hfe HS)
      as (m1 & HL1 & Uv & A1 & B1 & C1 & C1' & D1 & Hext & Hnot & Rv & LR1 & ST1).
    assert (Hfe2 : fetch (code_of funs fn) (code_size pre + 3 + 2 * List.length U) = Some (IDefineGlobal x)).
    { replace (code_size pre + 3 + 2 * List.length U) with (code_size pre + code_size [clo_instr (List.length fs) U]).
      - eapply fetch_mid with (c2 := []) (post := post). exact Hcode.
      - unfold clo_instr. cbn [code_size isize]. rewrite map_length. lia. }
    destruct (step2_defglobal cf funs _ _ _ _ _ _ _ _ _ _ _ _ B1 Hfe2 Hnot) as (m2 & A2 & B2 & C2 & D2).
    exists 2, m2, K, CL, HL1, (set_assoc G x (cv m1 (cn m))), O.
    split. { exists m1. split; [exact A1|now apply steps_one]. }
    split. { replace (code_size pre + code_size [clo_instr (List.length fs) U; IDefineGlobal x]) with (code_size pre + 3 + 2 * List.length U + 3); [exact B2|].
             unfold clo_instr. cbn [code_size isize]. rewrite map_length. lia. }
    split. { rewrite C2, D2. apply STO3_global; auto. rewrite C1. exact Rv. }
    split; [exact LR1|].
    destruct (cbody_ok cf ps b L cb U L1 Hb Ecb) as [HF _].
    split; [rewrite (flags_up_length _ _ HF); exact Hlen|]. split; [lia|]. split; [now apply EXT2_flags|auto].
  - (* a local holding the closure *)
    destruct Hm as [Hm|Hm]; [discriminate|].
    destruct (dup_in_scope L x d); [discriminate|]. destruct (List.length L =? c_locals_max cf); [discriminate|].
    rewrite (cbody_drop cf ps b (mkLocal (Some x) None false) L x Hb eq_refl Hm) in Hc.
    destruct (cbody cf ps b L) as [[[cb U] L1]|] eqn:Ecb; [|discriminate]. cbn [lift3 l_capt] in Hc.
    inversion Hc; subst code L' fs'. clear Hc.
    unfold new_cell in He. inversion He; subst st' en'. clear He.
    assert (Hfn : nth_error funs (List.length fs) = Some (mkFunc cb (List.length ps) (List.length U))).
    { destruct Hfuns as [ext ->]. rewrite <- app_assoc. rewrite nth_error_app2 by lia. now rewrite Nat.sub_diag. }
    assert (Hfe : fetch (code_of funs fn) (code_size pre) = Some (clo_instr (List.length fs) U)) by (rewrite Hcode; apply fetch_app).
    destruct (mk_closure K CL HL L en ps b cb U L1 (List.length fs) st m fn (code_size pre) G O HLR Hlen Hb Ecb Hfn HM Hfe HS)
      as (m1 & HL1 & Uv & A1 & B1 & C1 & C1' & D1 & Hext & Hnot & Rv & LR1 & ST1).
    destruct (cbody_ok cf ps b L cb U L1 Hb Ecb) as [HF _].
    pose proof (flags_up_length _ _ HF) as HlenL1.
    pose proof (sto3_len _ _ _ _ _ _ _ _ _ HS) as HlenK.
    assert (HnK : ~ In (cn m) K) by (intro Hin; pose proof (sto_K_lt _ _ _ _ _ _ _ HS Hin); lia).
    exists 1, m1, (K ++ [cn m])%list, (CL ++ [cn m])%list, HL1, G, O.
    split; [now apply steps_one|].
    split. { replace (code_size pre + code_size [clo_instr (List.length fs) U]) with (code_size pre + 3 + 2 * List.length U); [exact B1|].
             unfold clo_instr. cbn [code_size isize]. rewrite map_length. lia. }
    split. { apply (STO3_new cf funs st K HL1 (cv m1) (cn m1) G O (cn m) _ ST1 HnK ltac:(lia)). rewrite C1. exact Rv. }
    split.
    { constructor.
      - eapply LRB_K_mono; eauto; lia.
      - rewrite app_length. cbn. lia.
      - cbn [Nat.add]. rewrite HlenL1, <- Hlen, nth_middle. unfold kc. rewrite <- HlenK, nth_middle. reflexivity.
      - unfold kc. rewrite <- HlenK, nth_middle. intro Hin. contradiction. }
    split; [rewrite app_length; cbn; lia|]. split; [lia|].
    split; [exists [mkLocal (Some x) (Some d) false], [(x, List.length (s_cells st))], L1; repeat split; auto|].
    intro Hd0. subst d. discriminate.
Qed.

Lemma case2_fun : forall fu f ps b en top st st' en',
  exec_stmt (S fu) (SFun f ps b) en top st = (st', en', CNorm) -> forallb bstmt2 b = true ->
  forall L d fs code L' fs', cstmt2 cf (SFun f ps b) L d fs = Some (code, L', fs') -> top = (d =? 0) ->
  (exists ext, funs = (fs' ++ ext)%list) -> (d = 0 -> en = []) ->
  forall K CL HL, LRB K CL HL 0 L en -> List.length CL = List.length L ->
  forall m fn G O pre post, code_of funs fn = (pre ++ code ++ post)%list ->
  MS2 m fn [] (code_size pre) 0 [] CL HL G O -> sto st K HL (cv m) (cn m) G O ->
  exists n m' K' CL' HL' G' O', steps cf funs n m m' /\
    MS2 m' fn [] (code_size pre + code_size code) 0 [] CL' HL' G' O' /\
    sto st' K' HL' (cv m') (cn m') G' O' /\ LRB K' CL' HL' 0 L' en' /\ List.length CL' = List.length L' /\
    cn m <= cn m' /\ EXT2 d L en L' en' /\ (d = 0 -> en' = en).
Proof.
  intros fu f ps b en top st st' en' He Hb L d fs code L' fs' Hc Ht Hfuns Hen0 K CL HL HLR Hlen m fn G O pre post Hcode HM HS.
  cbn [exec_stmt] in He. rewrite Ht in He.
  cbn [cstmt2] in Hc. destruct (d =? 0) eqn:Ed.
  - (* a global function *)
    apply Nat.eqb_eq in Ed. pose proof (Hen0 Ed) as ->.
    destruct (cbody cf ps b L) as [[[cb U] L1]|] eqn:Ecb; [|discriminate]. inversion Hc; subst code L' fs'. clear Hc.
    inversion He; subst st' en'. clear He.
    assert (Hfn : nth_error funs (List.length fs) = Some (mkFunc cb (List.length ps) (List.length U))).
    { destruct Hfuns as [ext ->]. rewrite <- app_assoc. rewrite nth_error_app2 by lia. now rewrite Nat.sub_diag. }
    assert (Hfe : fetch (code_of funs fn) (code_size pre) = Some (clo_instr (List.length fs) U)) by (rewrite Hcode; apply fetch_app).
    destruct (mk_closure K CL HL L [] ps b cb U L1 (List.length fs) st m fn (code_size pre) G O HLR Hlen Hb Ecb Hfn HM Hfe HS)
      as (m1 & HL1 & Uv & A1 & B1 & C1 & C1' & D1 & Hext & Hnot & Rv & LR1 & ST1).
    assert (Hfe2 : fetch (code_of funs fn) (code_size pre + 3 + 2 * List.length U) = Some (IDefineGlobal f)).
    { replace (code_size pre + 3 + 2 * List.length U) with (code_size pre + code_size [clo_instr (List.length fs) U]).
      - eapply fetch_mid with (c2 := []) (post := post). exact Hcode.
      - unfold clo_instr. cbn [code_size isize]. rewrite map_length. lia. }
    destruct (step2_defglobal cf funs _ _ _ _ _ _ _ _ _ _ _ _ B1 Hfe2 Hnot) as (m2 & A2 & B2 & C2 & D2).
    exists 2, m2, K, CL, HL1, (set_assoc G f (cv m1 (cn m))), O.
    split. { exists m1. split; [exact A1|now apply steps_one]. }
    split. { replace (code_size pre + code_size [clo_instr (List.length fs) U; IDefineGlobal f]) with (code_size pre + 3 + 2 * List.length U + 3); [exact B2|].
             unfold clo_instr. cbn [code_size isize]. rewrite map_length. lia. }
    split. { rewrite C2, D2. apply STO3_global; auto. rewrite C1. exact Rv. }
    split; [exact LR1|].
    destruct (cbody_ok cf ps b L cb U L1 Hb Ecb) as [HF _].
    split; [rewrite (flags_up_length _ _ HF); exact Hlen|]. split; [lia|]. split; [now apply EXT2_flags|auto].
  - (* a local function: may call and capture itself *)
    destruct (dup_in_scope L f d); [discriminate|]. destruct (List.length L =? c_locals_max cf); [discriminate|].
    destruct (cbody cf ps b (mkLocal (Some f) (Some d) false :: L)) as [[[cb U] L1]|] eqn:Ecb; [|discriminate].
    inversion Hc; subst code L' fs'. clear Hc.
    unfold new_cell in He. cbn [fst snd] in He. inversion He; subst st' en'. clear He.
    assert (Hfn : nth_error funs (List.length fs) = Some (mkFunc cb (List.length ps) (List.length U))).
    { destruct Hfuns as [ext ->]. rewrite <- app_assoc. rewrite nth_error_app2 by lia. now rewrite Nat.sub_diag. }
    assert (Hfe : fetch (code_of funs fn) (code_size pre) = Some (clo_instr (List.length fs) U)) by (rewrite Hcode; apply fetch_app).
    destruct (mk_closure_self K CL HL L en f d ps b cb U L1 (List.length fs) st m fn (code_size pre) G O HLR Hlen Hb Ecb Hfn HM Hfe HS)
      as (m1 & HL1 & A1 & B1 & D1 & LR1 & ST1).
    destruct (cbody_ok cf ps b _ cb U L1 Hb Ecb) as [HF _].
    pose proof (flags_up_length _ _ HF) as HlenL1.
    destruct (cbody_cons cf ps b _ L cb U L1 Hb Ecb) as (l0 & L0 & -> & Hn0 & Hd0 & HF0).
    exists 1, m1, (K ++ [cn m])%list, (CL ++ [cn m])%list, HL1, G, O.
    split; [now apply steps_one|].
    split. { replace (code_size pre + code_size [clo_instr (List.length fs) U]) with (code_size pre + 3 + 2 * List.length U); [exact B1|].
             unfold clo_instr. cbn [code_size isize]. rewrite map_length. lia. }
    split; [exact ST1|]. split; [exact LR1|].
    split; [rewrite app_length, HlenL1; cbn; lia|]. split; [lia|].
    split; [exists [l0], [(f, List.length (s_cells st))], L0; repeat split; auto|].
    intro Hd00. subst d. discriminate.
Qed.

Lemma SS_step : forall fu, E_goal fu -> SL_goal fu -> SS_goal (S fu).
Proof.
  intros fu IHE IHL s en top st st' en' He Hf L d fs code L' fs' Hc Ht Hd Hfuns Hen0 K CL HL HLR Hlen m fn G O pre post Hcode HM HS.
  destruct s; cbn [stmt4] in Hf; try discriminate.
  - eapply case2_decl; eauto.
  - eapply case2_assign; eauto.
  - eapply case2_print; eauto.
  - eapply case2_expr; eauto.
  - eapply case2_block; eauto.
  - eapply case2_fun; eauto.
  - apply andb_prop in Hf as [Hf1 Hf2]. eapply case2_lam; eauto.
    destruct top; [now left|right]. cbn in Hf2. now apply negb_true_iff in Hf2.
Qed.

Definition ALL_goals (fu : nat) : Prop := E_goal fu /\ BS_goal fu /\ BL_goal fu /\ SS_goal fu /\ SL_goal fu.

Lemma not_good_stuck : forall w, ~ good (CStuck w).
Proof. intros w [H|[v H]]; discriminate. Qed.

Theorem sim3_all : forall fu, ALL_goals fu.
Proof.
  induction fu as [|fu (IE & IBS & IBL & ISS & ISL)].
  - split; [|split; [|split; [|split]]].
    + unfold E_goal. intros ? ? ? ? ? ? He; discriminate.
    + unfold BS_goal. intros ? ? ? ? ? ? ? He Hg. cbn in He. inversion He; subst. destruct (not_good_stuck _ Hg).
    + unfold BL_goal. intros ? ? ? ? ? ? ? He Hg. cbn in He. inversion He; subst. destruct (not_good_stuck _ Hg).
    + unfold SS_goal. intros ? ? ? ? ? ? He; discriminate.
    + unfold SL_goal. intros ? ? ? ? ? ? He; discriminate.
  - split; [|split; [|split; [|split]]].
    + now apply E_step.
    + now apply BS_step.
    + now apply BL_step.
    + now apply SS_step.
    + now apply SL_step.
Qed.

End Sim3.
