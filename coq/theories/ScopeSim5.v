(* C06 - stage 5 of compile_scope_correct: stage 4 + `throw e` + `try { .. } catch x { .. }`.
   Simulation between eval_cells and the compiled program on the machine over the cell-store backend bk_c, by induction
   on the evaluator's fuel.  This is the simulation of ScopeSimN.v (same relations, same goals for the normal / return /
   break / continue outcomes) over the fragment stmt7 and the pure compiler of ScopeDefs5.v, with
     - the handler stack of fiber 0 tracked beside the machine state (MS5 hs, ScopeMach5.v),
     - a new outcome for expressions (ET_goal: the evaluation throws) and statements (RES, case CThrow): the machine
       reaches a Throw instruction, in the frame of the statement or in a frame called from it (`above`), with the
       handler stack it started with, the stack of the statement's frame intact below the temporaries, every evaluator
       cell in its machine cell, and the frame relation kept against the statement's final flags,
     - SThrow / STry: PushExcHandler, the block, PopExcHandler / Jump, or Throw -> step5_throw (unwind to the handler:
       nothing is lost, the discipline flag stays down because unwind_stack closes before it truncates), the catch
       variable in the slot at the handler's height, the catch clause as a scope. *)
From Coq Require Import List Arith Bool String ZArith NArith Lia.
From YV Require Import Show Upvalues Cells ScopeLang ScopeComp ScopeLangProofs ScopeSim ScopeDefs2 ScopeMach2 ScopeComp2 ScopeDrop2 ScopeRel2 ScopeAux2 ScopeDefsN ScopeFactsN ScopeRelN ScopeDefs5 ScopeFacts5 ScopeRel5 ScopeMach5.
Import ListNotations.
Import Gen.
Open Scope nat_scope.

(* ---- list helpers ---- *)
Lemma nth_firstn_lt : forall A (l : list A) n i d, i < n -> nth i (firstn n l) d = nth i l d.
Proof.
  intros A l. induction l as [|a r IH]; intros n i d H; [now rewrite firstn_nil|].
  destruct n; [lia|]. destruct i; cbn; [reflexivity|]. apply IH. lia.
Qed.

Lemma firstn_app_le : forall A (a b : list A) n, n <= List.length a -> firstn n (a ++ b) = firstn n a.
Proof. intros A a b n H. rewrite firstn_app. replace (n - List.length a) with 0 by lia. cbn. now rewrite app_nil_r. Qed.

Lemma nth_error_nth_d : forall (l : list func) k f, nth_error l k = Some f -> nth k l dfunc = f.
Proof. induction l as [|a r IH]; intros [|k] f H; cbn in *; try discriminate; [now inversion H|auto]. Qed.

Lemma Forall2_imp : forall A B (P Q : A -> B -> Prop) l l', (forall a b, P a b -> Q a b) -> Forall2 P l l' -> Forall2 Q l l'.
Proof. intros A B P Q l l' H F. induction F; constructor; auto. Qed.

Lemma NoDup_app_r : forall A (a b : list A), NoDup (a ++ b) -> NoDup b.
Proof. induction a as [|x r IH]; intros b H; [exact H|]. inversion H; subst. auto. Qed.

Lemma Forall2_len : forall A B (P : A -> B -> Prop) l l', Forall2 P l l' -> List.length l = List.length l'.
Proof. intros A B P l l' H. induction H; cbn; auto. Qed.

Lemma nth_map_error : forall A B (f : A -> B) l k a d, nth_error l k = Some a -> nth k (map f l) d = f a.
Proof. induction l as [|x r IH]; intros [|k] a d H; cbn in *; try discriminate; [now inversion H|eauto]. Qed.

Lemma set_nth_snoc : forall A (l : list A) a b, set_nth (l ++ [a]) (List.length l) b = (l ++ [b])%list.
Proof. induction l as [|x r IH]; intros a b; cbn; [reflexivity|]. now rewrite IH. Qed.

Lemma firstn_firstn_le : forall A (l : list A) a b, a <= b -> firstn a (firstn b l) = firstn a l.
Proof. intros A l a b H. rewrite firstn_firstn. f_equal. lia. Qed.

Lemma skipn_skipn_add : forall A (l : list A) x y, skipn x (skipn y l) = skipn (y + x) l.
Proof.
  intros A l x y. revert l. induction y as [|y IH]; intros l; [reflexivity|]. destruct l as [|a r]; [now rewrite !skipn_nil|]. cbn. apply IH.
Qed.

Section Sim5.
Variable cf : cfg.
Variable funs : list func.
Variable jumps : bool.
(* the two repairs stage 5 depends on (both are the regenerated values of gen/ScopeCfg.v) *)
Hypothesis Hunwind : c_unwind_closes cf = true.
Hypothesis Hcatchpops : c_catch_pops cf = false.

Notation vrel := (vrelN cf funs jumps).
Notation sto := (STON cf funs jumps).
Notation UR := (ScopeRelN.UR).

(* K grows by fresh machine cells *)
Definition KEXT (K K' : list nat) (lo hi : nat) : Prop :=
  exists e, K' = (K ++ e)%list /\ forall k, In k e -> lo <= k < hi.

Lemma KEXT_refl : forall K lo hi, KEXT K K lo hi.
Proof. intros K lo hi. exists []. rewrite app_nil_r. split; [reflexivity|intros k []]. Qed.

Lemma KEXT_trans : forall K K1 K2 a b c, KEXT K K1 a b -> KEXT K1 K2 b c -> a <= b -> b <= c -> KEXT K K2 a c.
Proof.
  intros K K1 K2 a b c (e1 & -> & H1) (e2 & -> & H2) Hab Hbc. exists (e1 ++ e2)%list. rewrite app_assoc. split; [reflexivity|].
  intros k Hin. apply in_app_or in Hin as [Hin|Hin]; [pose proof (H1 _ Hin)|pose proof (H2 _ Hin)]; lia.
Qed.

Lemma KEXT_ext : forall K K' lo hi, KEXT K K' lo hi -> exists e, K' = (K ++ e)%list.
Proof. intros K K' lo hi (e & -> & _). eauto. Qed.

Lemma KEXT_widen : forall K K' lo hi lo' hi', KEXT K K' lo hi -> lo' <= lo -> hi <= hi' -> KEXT K K' lo' hi'.
Proof. intros K K' lo hi lo' hi' (e & -> & H) H1 H2. exists e. split; [reflexivity|]. intros k Hin. pose proof (H _ Hin). lia. Qed.

Lemma KEXT_in : forall K K' lo hi j, KEXT K K' lo hi -> In j K' -> In j K \/ lo <= j.
Proof.
  intros K K' lo hi j (e & -> & He) Hin. apply in_app_or in Hin as [Hin|Hin]; [now left|right; apply He in Hin; lia].
Qed.

(* the handle list grows by cells >= lo *)
Definition HEXT (HL HL' : list nat) (lo : nat) : Prop :=
  exists e, HL' = (HL ++ e)%list /\ forall k, In k e -> lo <= k.

Lemma HEXT_refl : forall HL lo, HEXT HL HL lo.
Proof. intros HL lo. exists []. rewrite app_nil_r. split; [reflexivity|intros k []]. Qed.

Lemma HEXT_trans : forall HL HL1 HL2 a b, HEXT HL HL1 a -> HEXT HL1 HL2 b -> a <= b -> HEXT HL HL2 a.
Proof.
  intros HL HL1 HL2 a b (e1 & -> & H1) (e2 & -> & H2) Hab. exists (e1 ++ e2)%list. rewrite app_assoc. split; [reflexivity|].
  intros k Hin. apply in_app_or in Hin as [Hin|Hin]; [pose proof (H1 _ Hin)|pose proof (H2 _ Hin)]; lia.
Qed.

Lemma HEXT_ext : forall HL HL' lo, HEXT HL HL' lo -> exists e, HL' = (HL ++ e)%list.
Proof. intros HL HL' lo (e & -> & _). eauto. Qed.

Lemma HEXT_widen : forall HL HL' lo lo', HEXT HL HL' lo -> lo' <= lo -> HEXT HL HL' lo'.
Proof. intros HL HL' lo lo' (e & -> & H) H1. exists e. split; [reflexivity|]. intros k Hin. pose proof (H _ Hin). lia. Qed.

Lemma HEXT_in : forall HL HL' lo j, HEXT HL HL' lo -> In j HL' -> In j HL \/ lo <= j.
Proof.
  intros HL HL' lo j (e & -> & He) Hin. apply in_app_or in Hin as [Hin|Hin]; [now left|right; now apply He].
Qed.

Lemma notin_HEXT : forall HL HL' lo c, ~ In c HL -> HEXT HL HL' lo -> c < lo -> ~ In c HL'.
Proof. intros HL HL' lo c Hn HX Hc Hin. destruct (HEXT_in _ _ _ _ HX Hin) as [H|H]; [contradiction|lia]. Qed.

(* how a variable of a frame is reached *)
Inductive where_is (K CL HL : list nat) (base : nat) (uvec : list nat) : vref -> nat -> Prop :=
| W_local : forall s c, nth (base + s) CL 0 = kc K c -> base + s < List.length CL -> c < List.length K ->
    where_is K CL HL base uvec (VLocal s) c
| W_up : forall k c, nth k uvec 0 < List.length HL -> nth (nth k uvec 0) HL 0 = kc K c -> c < List.length K ->
    where_is K CL HL base uvec (VUp k) c.

Lemma concat_cons_env : forall (en : env) envs, List.concat (en :: envs) = (en ++ List.concat envs)%list.
Proof. reflexivity. Qed.

(* resolve_upvalue finds the variable the evaluator finds *)
Lemma rup_cell : forall x E envs, ENVS E envs -> forall U r U' E' c,
  rup cf x U E = Some (r, U', E') -> assoc (List.concat envs) x = Some c ->
  exists k, r = Some k /\ UPC U' E' envs k c.
Proof.
  intros x E envs H. induction H as [|l en E envs Hl H IH]; intros U r U' E' c Hr Ha.
  - discriminate.
  - rewrite concat_cons_env, assoc_app in Ha. cbn [rup] in Hr. destruct (assoc en x) as [c0|] eqn:Een.
    + inversion Ha; subst c0. destruct (ENVN_lookup _ _ _ _ Hl Een) as (slot & E1 & E2). rewrite E1 in Hr.
      destruct (add_upvalue (c_upvalues_max cf) U slot true) as [[U1 k] ovf] eqn:Ea. destruct ovf; [discriminate|].
      inversion Hr; subst. exists k. split; [reflexivity|].
      destruct (add_upvalue_spec _ _ _ _ _ _ Ea) as [Hn _].
      eapply UPC_loc; [exact Hn|]. cbn [lv_locals]. eapply at_slot_flags; [apply flags_up_mark_captured|exact E2].
    + rewrite (ENVN_lookup_none _ _ _ Hl Een) in Hr.
      destruct (rup cf x (lv_ups l) E) as [[[[k1|] Ul] E1]|] eqn:Er; try discriminate.
      * destruct (IH _ _ _ _ _ Er Ha) as (k1' & Ek & HU). inversion Ek; subst k1'.
        destruct (add_upvalue (c_upvalues_max cf) U k1 false) as [[U1 k] ovf] eqn:Ea. destruct ovf; [discriminate|].
        inversion Hr; subst. exists k. split; [reflexivity|].
        destruct (add_upvalue_spec _ _ _ _ _ _ Ea) as [Hn _]. eapply UPC_out; [exact Hn|exact HU].
      * destruct (IH _ _ _ _ _ Er Ha) as (k1' & Ek & _). discriminate.
Qed.

Lemma rup_global : forall x E envs, ENVS E envs -> forall U r U' E',
  rup cf x U E = Some (r, U', E') -> assoc (List.concat envs) x = None -> r = None.
Proof.
  intros x E envs H. induction H as [|l en E envs Hl H IH]; intros U r U' E' Hr Ha.
  - cbn in Hr. now inversion Hr.
  - rewrite concat_cons_env, assoc_app in Ha. cbn [rup] in Hr. destruct (assoc en x) as [c0|] eqn:Een; [discriminate|].
    rewrite (ENVN_lookup_none _ _ _ Hl Een) in Hr.
    destruct (rup cf x (lv_ups l) E) as [[[[k1|] Ul] E1]|] eqn:Er; try discriminate.
    + pose proof (IH _ _ _ _ Er Ha). discriminate.
    + now inversion Hr.
Qed.

Lemma resolve_cell : forall L Lb U E x r U' E' enb envs c K CL HL base uvec Ufin Efin,
  rvn cf L U E x = Some (r, U', E') -> assoc (enb ++ List.concat envs)%list x = Some c -> flags_up L Lb ->
  LRBN K CL HL base Lb enb -> base + List.length Lb <= List.length CL -> ENVS Efin envs -> levs_up E' Efin ->
  (exists ext, Ufin = (U' ++ ext)%list) -> UR K HL Efin envs Ufin uvec ->
  where_is K CL HL base uvec r c.
Proof.
  intros L Lb U E x r U' E' enb envs c K CL HL base uvec Ufin Efin Hr Ha HFB HL0 Hlen HE HF HU HUR.
  pose proof (rvn_ok _ _ _ _ _ _ _ _ Hr) as [_ HEE].
  assert (HE0 : ENVS E envs) by (eapply ENVS_levs_up_rev; [eapply levs_up_trans; eauto|exact HE]).
  unfold rvn in Hr. rewrite assoc_app in Ha. destruct (assoc enb x) as [c0|] eqn:Eb.
  - inversion Ha; subst c0. destruct (LRBN_lookup _ _ _ _ _ _ _ _ HL0 Eb) as (s & E1 & E2 & E3 & E4).
    rewrite (flags_up_resolve_local _ _ x HFB) in E1.
    rewrite E1 in Hr. inversion Hr; subst. constructor; auto. lia.
  - pose proof (ENVN_lookup_none _ _ _ (LRBN_ENV _ _ _ _ _ _ HL0) Eb) as En0. rewrite (flags_up_resolve_local _ _ x HFB) in En0. rewrite En0 in Hr.
    destruct (rup cf x U E) as [[[r0 U1] E1]|] eqn:Er; [|discriminate].
    destruct (rup_cell x E envs HE0 _ _ _ _ _ Er Ha) as (k & -> & HC). inversion Hr; subst r U1 E1.
    pose proof (rup_index _ _ _ _ _ _ _ Er) as Hk.
    assert (HC' : UPC Ufin Efin envs k c) by (eapply UPC_mono; eauto).
    destruct HU as [ext ->].
    destruct (HUR k ltac:(rewrite app_length; lia)) as (c' & A & B & C & D).
    rewrite (UPC_fun _ _ _ _ _ _ HC' A). constructor; auto.
Qed.

Lemma resolve_global : forall L Lb U E x r U' E' enb envs K CL HL base Efin,
  rvn cf L U E x = Some (r, U', E') -> assoc (enb ++ List.concat envs)%list x = None -> flags_up L Lb ->
  LRBN K CL HL base Lb enb -> ENVS Efin envs -> levs_up E' Efin -> r = VGlobal.
Proof.
  intros L Lb U E x r U' E' enb envs K CL HL base Efin Hr Ha HFB HL0 HE HF.
  pose proof (rvn_ok _ _ _ _ _ _ _ _ Hr) as [_ HEE].
  assert (HE0 : ENVS E envs) by (eapply ENVS_levs_up_rev; [eapply levs_up_trans; eauto|exact HE]).
  unfold rvn in Hr. rewrite assoc_app in Ha. destruct (assoc enb x) as [c0|] eqn:Eb; [discriminate|].
  pose proof (ENVN_lookup_none _ _ _ (LRBN_ENV _ _ _ _ _ _ HL0) Eb) as En0. rewrite (flags_up_resolve_local _ _ x HFB) in En0. rewrite En0 in Hr.
  destruct (rup cf x U E) as [[[r0 U1] E1]|] eqn:Er; [|discriminate].
  rewrite (rup_global x E envs HE0 _ _ _ _ Er Ha) in Hr. now inversion Hr.
Qed.

(* ---- the frame context ---- *)
Record CTX (K CL HL : list nat) (base : nat) (L : list local) (enb : env) (Efin : list lev) (envs : list env)
           (Ufin : ups_t) (uvec : list nat) : Prop := mkCTX {
  cx_lrb : LRBN K CL HL base L enb;
  cx_len : base + List.length L <= List.length CL;
  cx_envs : ENVS Efin envs;
  cx_ur : UR K HL Efin envs Ufin uvec;
  cx_cells : forall x c, In (x, c) (List.concat envs) -> c < List.length K
}.

(* all machine cells in use are below lo *)
Definition BELOW (K CL : list nat) (lo : nat) : Prop := (forall k, In k K -> k < lo) /\ (forall c, In c CL -> c < lo).

Lemma CTX_mono : forall K CL HL base L enb Efin envs Ufin uvec K' CL' HL' lo,
  CTX K CL HL base L enb Efin envs Ufin uvec -> (exists e, K' = (K ++ e)%list) ->
  (forall i, i < base + List.length L -> nth i CL' 0 = nth i CL 0) -> base + List.length L <= List.length CL' ->
  HEXT HL HL' lo -> BELOW K CL lo ->
  CTX K' CL' HL' base L enb Efin envs Ufin uvec.
Proof.
  intros K CL HL base L enb Efin envs Ufin uvec K' CL' HL' lo [H1 H2 H3 H4 H5] HK HC Hl HH [HB1 HB2]. constructor; auto.
  - eapply LRBN_mono; eauto. intros k Hk. destruct (HEXT_in _ _ _ _ HH Hk) as [A|A]; [now left|right]. split.
    + intro Hin. pose proof (HB1 _ Hin). lia.
    + intros i Hi E. assert (Hin : In (nth i CL 0) CL) by (apply nth_In; lia). pose proof (HB2 _ Hin). lia.
  - eapply UR_mono; eauto. eapply HEXT_ext; eauto.
  - destruct HK as [e ->]. intros x c Hin. rewrite app_length. pose proof (H5 _ _ Hin). lia.
Qed.

Lemma CTX_app : forall K CL HL base L enb Efin envs Ufin uvec t,
  CTX K CL HL base L enb Efin envs Ufin uvec -> CTX K (CL ++ t) HL base L enb Efin envs Ufin uvec.
Proof.
  intros K CL HL base L enb Efin envs Ufin uvec t [H1 H2 H3 H4 H5]. constructor; auto.
  - apply (LRBN_mono K CL HL base L enb K (CL ++ t)%list HL H1).
    + exists []. now rewrite app_nil_r.
    + intros i Hi. apply app_nth1. lia.
    + intros k Hk. now left.
  - rewrite app_length. lia.
Qed.

(* the frame context after a statement of the same frame *)
Lemma CTX_next : forall K CL HL base L enb Efin envs Ufin uvec K' CL' HL' L' enb',
  CTX K CL HL base L enb Efin envs Ufin uvec -> LRBN K' CL' HL' base L' enb' -> List.length CL' = base + List.length L' ->
  (exists e, K' = (K ++ e)%list) -> (exists e, HL' = (HL ++ e)%list) -> CTX K' CL' HL' base L' enb' Efin envs Ufin uvec.
Proof.
  intros K CL HL base L enb Efin envs Ufin uvec K' CL' HL' L' enb' [H1 H2 H3 H4 H5] HLx Hlen HK HH. constructor; auto.
  - lia.
  - eapply UR_mono; eauto.
  - destruct HK as [e ->]. intros x c Hin. rewrite app_length. pose proof (H5 _ _ Hin). lia.
Qed.

Lemma CTX_flags : forall K CL HL base L L' enb Efin envs Ufin uvec,
  CTX K CL HL base L enb Efin envs Ufin uvec -> flags_up L L' -> CTX K CL HL base L' enb Efin envs Ufin uvec.
Proof.
  intros K CL HL base L L' enb Efin envs Ufin uvec [H1 H2 H3 H4 H5] HF. constructor; auto.
  - eapply LRBN_flags; eauto.
  - rewrite (flags_up_length _ _ HF). exact H2.
Qed.

(* cells that are no variables and existed before are left alone *)
Definition FRAMEC (m m' : cmach) (K : list nat) : Prop :=
  forall j, j < cn m -> ~ In j K -> cv m' j = cv m j.

Lemma FRAMEC_refl : forall m K, FRAMEC m m K.
Proof. intros m K j _ _. reflexivity. Qed.

Lemma FRAMEC_trans : forall m1 m2 m3 K K2, FRAMEC m1 m2 K -> FRAMEC m2 m3 K2 -> cn m1 <= cn m2 ->
  (forall j, In j K2 -> In j K \/ cn m1 <= j) -> FRAMEC m1 m3 K.
Proof.
  intros m1 m2 m3 K K2 H1 H2 Hc HK j Hj Hn. rewrite H2; [apply H1; auto|lia|].
  intro Hin. destruct (HK _ Hin); [contradiction|lia].
Qed.

(* ---- reading and writing a variable through its access path ---- *)
Lemma exec_get {hs : list handler} : forall K CL HL base uvec r c x m fn pc frs G O,
  where_is K CL HL base uvec r c -> MS5 hs m fn uvec pc base frs CL HL G O ->
  fetch (code_of funs fn) pc = Some (get_op r x) ->
  exists m', mstep cf funs m = MRun m' /\ MS5 hs m' fn uvec (pc + isize (get_op r x)) base frs (CL ++ [cn m]) HL G O /\
             cv m' = upd (cv m) (cn m) (cv m (kc K c)) /\ cn m' = S (cn m).
Proof.
  intros K CL HL base uvec r c x m fn pc frs G O Hw HM Hf. destruct Hw as [s c E1 E2 E3|k c E1 E2 E3]; cbn [get_op isize] in *.
  - destruct (step5_getlocal cf funs _ _ _ _ _ _ _ _ _ _ _ HM Hf E2) as (m' & A & B & C & D).
    exists m'. rewrite E1 in C. auto.
  - destruct (step5_getupvalue cf funs _ _ _ _ _ _ _ _ _ _ _ HM Hf E1) as (m' & A & B & C & D).
    exists m'. rewrite E2 in C. auto.
Qed.

Lemma exec_set {hs : list handler} : forall K CL0 ct HL base uvec r c x m fn pc frs G O,
  where_is K CL0 HL base uvec r c -> MS5 hs m fn uvec pc base frs (CL0 ++ [ct]) HL G O ->
  fetch (code_of funs fn) pc = Some (set_op r x) ->
  exists m', mstep cf funs m = MRun m' /\ MS5 hs m' fn uvec (pc + 2) base frs (CL0 ++ [ct]) HL G O /\
             cv m' = upd (cv m) (kc K c) (cv m ct) /\ cn m' = cn m.
Proof.
  intros K CL0 ct HL base uvec r c x m fn pc frs G O Hw HM Hf. destruct Hw as [s c E1 E2 E3|k c E1 E2 E3]; cbn [set_op] in *.
  - destruct (step5_setlocal cf funs _ _ _ _ _ _ _ _ _ _ _ _ HM Hf E2) as (m' & A & B & C & D).
    exists m'. rewrite E1 in C. auto.
  - destruct (step5_setupvalue cf funs _ _ _ _ _ _ _ _ _ _ _ _ HM Hf E1) as (m' & A & B & C & D).
    exists m'. rewrite E2 in C. auto.
Qed.

Lemma where_is_mono : forall K CL HL base uvec r c K' HL', where_is K CL HL base uvec r c ->
  (exists e, K' = (K ++ e)%list) -> (exists e, HL' = (HL ++ e)%list) -> where_is K' CL HL' base uvec r c.
Proof.
  intros K CL HL base uvec r c K' HL' Hw [eK ->] [eH ->]. destruct Hw as [s0 c0 E1 E2 E3|k0 c0 E1 E2 E3]; constructor; auto;
    try (rewrite app_length; lia); unfold kc in *; rewrite ?app_nth1 by lia; assumption.
Qed.

(* a fresh temporary is pushed: the store relation is kept *)
Lemma sto_push : forall st K HL m m' G O w,
  sto st K HL (cv m) (cn m) G O -> cv m' = upd (cv m) (cn m) w -> cn m' = S (cn m) ->
  sto st K HL (cv m') (cn m') G O /\ ~ In (cn m) K /\ FRAMEC m m' K.
Proof.
  intros st K HL m m' G O w H E1 E2.
  assert (Hn : ~ In (cn m) K) by (intro Hin; pose proof (stn_lt _ _ _ _ _ _ _ _ _ _ H _ Hin); lia).
  split; [|split; [exact Hn|]].
  - rewrite E1, E2. apply STON_temp with (cnx := cn m); auto.
  - intros j Hj _. rewrite E1. apply upd_other. lia.
Qed.

Lemma sto_K_lt : forall st K HL m G O k, sto st K HL (cv m) (cn m) G O -> In k K -> k < cn m.
Proof. intros st K HL m G O k H. apply (stn_lt _ _ _ _ _ _ _ _ _ _ H). Qed.

Lemma notin_HL_fresh {hs : list handler} : forall m fn uvec pc base frs CL HL G O c, MS5 hs m fn uvec pc base frs CL HL G O -> cn m <= c -> ~ In c HL.
Proof.
  intros m fn uvec pc base frs CL HL G O c HM Hc Hin.
  pose proof (s2_hl_lt _ _ _ (m5_s _ _ _ _ _ _ _ _ _ _ _ HM) _ Hin). unfold cn in *. lia.
Qed.

Lemma below_now {hs : list handler} : forall st K HL m fn uvec pc base frs CL G O,
  MS5 hs m fn uvec pc base frs CL HL G O -> sto st K HL (cv m) (cn m) G O -> BELOW K CL (cn m).
Proof.
  intros st K HL m fn uvec pc base frs CL G O HM HS. split.
  - intros k Hk. eapply sto_K_lt; eauto.
  - intros c Hc. pose proof (s2_cl_lt _ _ _ (m5_s _ _ _ _ _ _ _ _ _ _ _ HM) _ Hc). unfold cn. exact H.
Qed.

Definition good (c : ctl) : Prop := c = CNorm \/ exists v, c = CRet v.

(* the cells in the slots of a frame are >= lo *)
Definition FLO (lo base : nat) (CL : list nat) : Prop := forall i, base <= i < List.length CL -> lo <= nth i CL 0.

Lemma FLO_snoc : forall lo base CL c, FLO lo base CL -> lo <= c -> FLO lo base (CL ++ [c]).
Proof.
  intros lo base CL c H Hc i Hi. rewrite app_length in Hi. cbn in Hi.
  destruct (Nat.lt_ge_cases i (List.length CL)) as [Hl|Hg]; [rewrite app_nth1 by lia; apply H; lia|].
  replace i with (List.length CL) by lia. now rewrite nth_middle.
Qed.

Lemma FLO_firstn : forall lo base CL n, FLO lo base CL -> FLO lo base (firstn n CL).
Proof.
  intros lo base CL n H i Hi. rewrite firstn_length in Hi. rewrite nth_firstn_lt by lia. apply H. lia.
Qed.

Definition E_goal (fuel : nat) : Prop := forall hs e enb envs st st' v,
  eval_expr fuel e (enb ++ List.concat envs)%list st = (st', ROk v) -> expr2 e = true ->
  forall L U E ce U' E', nexpr cf L e U E = Some (ce, U', E') ->
  forall Lb Ufin Efin uvec K CL HL base, flags_up L Lb -> (exists ext, Ufin = (U' ++ ext)%list) -> levs_up E' Efin ->
  CTX K CL HL base Lb enb Efin envs Ufin uvec ->
  forall m fn frs G O pre post, code_of funs fn = (pre ++ ce ++ post)%list ->
  MS5 hs m fn uvec (code_size pre) base frs CL HL G O -> sto st K HL (cv m) (cn m) G O ->
  exists n m' K' HL' cnew G' O', steps cf funs n m m' /\
    MS5 hs m' fn uvec (code_size pre + code_size ce) base frs (CL ++ [cnew])%list HL' G' O' /\
    sto st' K' HL' (cv m') (cn m') G' O' /\ KEXT K K' (cn m) (cn m') /\ HEXT HL HL' (cn m) /\
    vrel K' HL' v (cv m' cnew) /\
    cn m <= cnew < cn m' /\ ~ In cnew K' /\ ~ In cnew HL' /\ FRAMEC m m' K.

(* an expression whose evaluation throws v: the machine reaches a Throw instruction with the (related) exception value on
   top, in the frame of the expression or in a frame called from it; the stack it started with is intact below *)
Definition ETHR (hs : list handler) (K CL HL : list nat) (base : nat) (m : cmach) (fn : nat) (uvec : list nat) (frs : list frame)
                (st' : sst) (v : sval) : Prop :=
  exists n m' K' HL' G' O' fn' uvec' pc' base' frs' t cx,
    steps cf funs n m m' /\ sto st' K' HL' (cv m') (cn m') G' O' /\ KEXT K K' (cn m) (cn m') /\ HEXT HL HL' (cn m) /\
    FRAMEC m m' K /\ cn m <= cn m' /\
    MS5 hs m' fn' uvec' pc' base' frs' ((CL ++ t) ++ [cx])%list HL' G' O' /\ fetch (code_of funs fn') pc' = Some IThrow /\
    above fn' uvec' base' frs' fn uvec base frs /\ vrel K' HL' v (cv m' cx).

Definition ET_goal (fuel : nat) : Prop := forall hs e enb envs st st' v,
  eval_expr fuel e (enb ++ List.concat envs)%list st = (st', RThrow v) -> expr2 e = true ->
  forall L U E ce U' E', nexpr cf L e U E = Some (ce, U', E') ->
  forall Lb Ufin Efin uvec K CL HL base, flags_up L Lb -> (exists ext, Ufin = (U' ++ ext)%list) -> levs_up E' Efin ->
  CTX K CL HL base Lb enb Efin envs Ufin uvec ->
  forall m fn frs G O pre post, code_of funs fn = (pre ++ ce ++ post)%list ->
  MS5 hs m fn uvec (code_size pre) base frs CL HL G O -> sto st K HL (cv m) (cn m) G O ->
  ETHR hs K CL HL base m fn uvec frs st' v.

(* what a statement may add to the locals of its function: entries of its own depth, one environment entry each;
   the flags of the older ones may rise *)
Definition EXT2 (d : nat) (L : list local) (en : env) (L' : list local) (en' : env) : Prop :=
  exists N Ne L0, L' = (N ++ L0)%list /\ flags_up L L0 /\ en' = (Ne ++ en)%list /\ List.length N = List.length Ne /\
                  Forall (fun l => l_depth l = Some d /\ l_name l <> None) N.

Lemma EXT2_flags : forall d L en L0, flags_up L L0 -> EXT2 d L en L0 en.
Proof. intros d L en L0 H. exists [], [], L0. repeat split; auto. Qed.

Lemma flags_up_dn : forall N N' d, flags_up N N' -> Forall (fun l => l_depth l = Some d /\ l_name l <> None) N ->
  Forall (fun l => l_depth l = Some d /\ l_name l <> None) N'.
Proof.
  intros N N' d H. induction H as [|a b r r' (E1 & E2 & E3) H IH]; intros HF; [constructor|].
  inversion HF as [|? ? [A B] HF']; subst. constructor; [split; congruence|auto].
Qed.

Lemma EXT2_trans : forall d L en L1 en1 L2 en2, EXT2 d L en L1 en1 -> EXT2 d L1 en1 L2 en2 -> EXT2 d L en L2 en2.
Proof.
  intros d L en L1 en1 L2 en2 (N1 & Ne1 & L01 & -> & F1 & -> & H1 & D1) (N2 & Ne2 & L02 & -> & F2 & -> & H2 & D2).
  destruct (flags_up_app_inv _ _ _ F2) as (N1' & L01' & -> & FN & FL).
  exists (N2 ++ N1')%list, (Ne2 ++ Ne1)%list, L01'. rewrite !app_assoc. repeat split; auto.
  - eapply flags_up_trans; eauto.
  - rewrite !app_length. rewrite (flags_up_length _ _ FN). lia.
  - apply Forall_app. split; [exact D2|]. eapply flags_up_dn; eauto.
Qed.

Lemma EXT2_depth_le : forall d L en L' en', depth_le d L -> EXT2 d L en L' en' -> depth_le d L'.
Proof.
  intros d L en L' en' H (N & Ne & L0 & -> & F & _ & _ & D). apply Forall_app. split.
  - revert D. apply Forall_impl. intros l [E _]. now rewrite E.
  - eapply flags_up_depth_le; eauto.
Qed.

Lemma EXT2_len : forall d L en L' en', EXT2 d L en L' en' -> List.length L <= List.length L'.
Proof. intros d L en L' en' (N & Ne & L0 & -> & F & _ & _ & D). rewrite app_length, (flags_up_length _ _ F). lia. Qed.

(* the flags against which the frame relation is kept: the static is_captured flags OR-ed with what was already captured
   at run time when the construct was entered (in a loop the run-time captures of an earlier iteration are ahead of the
   compiler's flags at the start of the body; for a local declared since, the two coincide) *)
Fixpoint orf (L M : list local) : list local :=
  match L, M with
  | l :: L', m :: M' => mkLocal (l_name m) (l_depth m) (l_capt l || l_capt m) :: orf L' M'
  | _, _ => M
  end.

(* after a statement that took the static locals from L to L': the new locals with their static flags, the old ones
   with the raised flags *)
Definition mrg (L L' M : list local) : list local :=
  (firstn (List.length L' - List.length L) L' ++ orf (skipn (List.length L' - List.length L) L') M)%list.

(* break / continue: the locals (and their environment entries) that survive are those not deeper than the loop *)
Fixpoint cutL (dl : nat) (L : list local) : list local :=
  match L with
  | [] => []
  | l :: r => match l_depth l with Some dd => if dl <? dd then cutL dl r else L | None => L end
  end.

Fixpoint cutE (dl : nat) (L : list local) (en : env) : env :=
  match L with
  | [] => en
  | l :: r => match l_depth l with
              | Some dd => if dl <? dd then cutE dl r (match l_name l with Some _ => tl en | None => en end) else en
              | None => en
              end
  end.

(* for the locals deeper than the innermost loop (declared in the current iteration) the flags against which the frame
   relation is kept are exactly the static ones: break / continue choose Pop / CloseUpvalue from those *)
Definition TIGHT (dl : nat) (L Lm : list local) : Prop :=
  firstn (List.length (scope_end_ops L dl)) Lm = firstn (List.length (scope_end_ops L dl)) L.

Definition goodl (lc : option lctx) (c : ctl) : Prop := good c \/ (lc <> None /\ (c = CBreak \/ c = CCont)) \/ exists v, c = CThrow v.

(* the statement lies inside the body of the loop lc *)
Definition LCOK (lc : option lctx) (d : nat) (L Lm : list local) (pcs pce : nat) : Prop :=
  forall l, lc = Some l -> lc_depth l < d /\ lc_start l <= pcs /\ pce <= lc_exit l /\ TIGHT (lc_depth l) L Lm.

(* statements, in any frame: `infun` = inside a function body (a caller frame exists), `top` = depth 0 of the script.
   The frame relation LRBN is kept against a list Lm whose is_captured flags are those of the static locals OR-ed with what
   was captured when the construct was entered (orf / mrg above). *)
Definition RES (hs : list handler) (infun : bool) (lo : nat) (d : nat) (L : list local) (enb : env) (envs : list env)
    (K CL HL : list nat) (base : nat) (m : cmach) (fn : nat) (uvec : list nat) (pc' : nat) (frs : list frame)
    (st' : sst) (en' : env) (ctl : ctl) (L' Lb' : list local) (lc : option lctx) : Prop :=
  exists n m' K' HL' G' O', steps cf funs n m m' /\ sto st' K' HL' (cv m') (cn m') G' O' /\ KEXT K K' (cn m) (cn m') /\
    HEXT HL HL' lo /\ FRAMEC m m' K /\ cn m <= cn m' /\
    match ctl with
    | CBreak => exists l, lc = Some l /\
                  MS5 hs m' fn uvec (lc_exit l) base frs (firstn (base + List.length (cutL (lc_depth l) L)) CL) HL' G' O' /\
                  LRBN K' (firstn (base + List.length (cutL (lc_depth l) L)) CL) HL' base (cutL (lc_depth l) Lb') (cutE (lc_depth l) L enb)
    | CCont => exists l, lc = Some l /\
                  MS5 hs m' fn uvec (lc_start l) base frs (firstn (base + List.length (cutL (lc_depth l) L)) CL) HL' G' O' /\
                  LRBN K' (firstn (base + List.length (cutL (lc_depth l) L)) CL) HL' base (cutL (lc_depth l) Lb') (cutE (lc_depth l) L enb)
    | CNorm => exists CL' enb', en' = (enb' ++ List.concat envs)%list /\
                 MS5 hs m' fn uvec pc' base frs CL' HL' G' O' /\
                 LRBN K' CL' HL' base Lb' enb' /\ List.length CL' = base + List.length L' /\
                 firstn (base + List.length L) CL' = firstn (base + List.length L) CL /\ FLO lo base CL' /\
                 EXT2 d L enb L' enb' /\ (d = 0 -> enb' = enb)
    | CRet v => exists fn0 ups0 pc0 base0 frs' cres, frs = mkFrame fn0 ups0 pc0 base0 :: frs' /\
                  MS5 hs m' fn0 ups0 pc0 base0 frs' (firstn base CL ++ [cres])%list HL' G' O' /\
                  vrel K' HL' v (cv m' cres) /\ cn m <= cres < cn m' /\ ~ In cres K' /\ ~ In cres HL'
    | CThrow v => exists fn' uvec' pc1 base' frs' t cx,
                  MS5 hs m' fn' uvec' pc1 base' frs' ((CL ++ t) ++ [cx])%list HL' G' O' /\
                  fetch (code_of funs fn') pc1 = Some IThrow /\ above fn' uvec' base' frs' fn uvec base frs /\
                  vrel K' HL' v (cv m' cx) /\
                  LRBN K' CL HL' base (skipn (List.length L' - List.length L) Lb') enb
    | _ => False
    end.

Definition S_at (fuel : nat) (s : stmt) : Prop := forall hs infun top inloop enb envs st st' en' ctl,
  exec_stmt fuel s (enb ++ List.concat envs)%list top st = (st', en', ctl) -> stmt7 jumps infun top inloop s = true ->
  forall L d U E fs pos lc code L' U' E' fs', nstmt cf s L d U E fs pos lc = Some (code, L', U', E', fs') -> goodl lc ctl ->
  top = (d =? 0) -> depth_le d L -> (d = 0 -> enb = [] /\ envs = []) -> stack_ok U E ->
  (exists ext, funs = (fs' ++ ext)%list) ->
  forall Lm Ufin Efin uvec K CL HL base, flags_up L Lm -> (exists ext, Ufin = (U' ++ ext)%list) -> levs_up E' Efin ->
  CTX K CL HL base Lm enb Efin envs Ufin uvec -> List.length CL = base + List.length L ->
  forall m fn frs G O pre post lo, code_of funs fn = (pre ++ code ++ post)%list -> pos = code_size pre ->
  LCOK lc d L Lm (code_size pre) (code_size pre + code_size code) ->
  (infun = true -> frs <> []) -> lo <= cn m -> FLO lo base CL ->
  MS5 hs m fn uvec (code_size pre) base frs CL HL G O -> sto st K HL (cv m) (cn m) G O ->
  RES hs infun lo d L enb envs K CL HL base m fn uvec (code_size pre + code_size code) frs st' en' ctl L' (mrg L L' Lm) lc.

Definition S_goal (fuel : nat) : Prop := forall s, S_at fuel s.

Definition L_goal (fuel : nat) : Prop := forall hs ss infun top inloop enb envs st st' en' ctl,
  exec_list fuel ss (enb ++ List.concat envs)%list top st = (st', en', ctl) -> forallb (stmt7 jumps infun top inloop) ss = true ->
  forall L d U E fs pos lc code L' U' E' fs', nlist cf ss d L U E fs pos lc = Some (code, L', U', E', fs') -> goodl lc ctl ->
  top = (d =? 0) -> depth_le d L -> (d = 0 -> enb = [] /\ envs = []) -> stack_ok U E ->
  (exists ext, funs = (fs' ++ ext)%list) ->
  forall Lm Ufin Efin uvec K CL HL base, flags_up L Lm -> (exists ext, Ufin = (U' ++ ext)%list) -> levs_up E' Efin ->
  CTX K CL HL base Lm enb Efin envs Ufin uvec -> List.length CL = base + List.length L ->
  forall m fn frs G O pre post lo, code_of funs fn = (pre ++ code ++ post)%list -> pos = code_size pre ->
  LCOK lc d L Lm (code_size pre) (code_size pre + code_size code) ->
  (infun = true -> frs <> []) -> lo <= cn m -> FLO lo base CL ->
  MS5 hs m fn uvec (code_size pre) base frs CL HL G O -> sto st K HL (cv m) (cn m) G O ->
  RES hs infun lo d L enb envs K CL HL base m fn uvec (code_size pre + code_size code) frs st' en' ctl L' (mrg L L' Lm) lc.

(* ---- merged flag lists ---- *)
Lemma orf_up : forall L M, flags_up L M -> orf L M = M.
Proof.
  intros L M H. induction H as [|l m L M (E1 & E2 & E3) H IH]; [reflexivity|]. cbn [orf]. rewrite IH. destruct m as [n d b]. cbn in *.
  f_equal. f_equal. destruct (l_capt l); [now rewrite E3|reflexivity].
Qed.

Lemma flags_up_orf_r : forall L M, List.length L = List.length M -> flags_up M (orf L M).
Proof.
  induction L as [|l L IH]; intros [|m M] Hl; try discriminate; cbn [orf]; [constructor|].
  constructor; [cbn; repeat split; auto; intros ->; apply orb_true_r|]. apply IH. cbn in Hl. lia.
Qed.

Lemma flags_up_orf_l : forall L M, flags_up L M -> forall L1, flags_up L L1 -> flags_up L1 (orf L1 M).
Proof.
  intros L M H. induction H as [|l m L M (E1 & E2 & E3) H IH]; intros L1 H1; inversion H1 as [|? l1 ? L1' (F1 & F2 & F3) H1']; subst; cbn [orf]; constructor.
  - cbn. repeat split; [congruence|congruence|intros ->; reflexivity].
  - now apply IH.
Qed.

Lemma orf_orf : forall L1 L2 M, flags_up L1 L2 -> orf L2 (orf L1 M) = orf L2 M.
Proof.
  intros L1 L2 M H. revert M. induction H as [|l1 l2 L1 L2 (E1 & E2 & E3) H IH]; intros M; [destruct M; reflexivity|].
  destruct M as [|m M]; [reflexivity|]. cbn [orf l_name l_depth l_capt]. rewrite IH. f_equal. f_equal.
  destruct (l_capt l1); [rewrite (E3 eq_refl); reflexivity|reflexivity].
Qed.

Lemma orf_mono : forall L1 L2 M, flags_up L1 L2 -> flags_up (orf L1 M) (orf L2 M).
Proof.
  intros L1 L2 M H. revert M. induction H as [|l1 l2 L1 L2 (E1 & E2 & E3) H IH]; intros M; [destruct M; apply flags_up_refl|].
  destruct M as [|m M]; [constructor|]. cbn [orf]. constructor; [|apply IH].
  cbn. repeat split; auto. intros Hc. apply orb_true_iff in Hc as [Hc|Hc]; [rewrite (E3 Hc); reflexivity|rewrite Hc; apply orb_true_r].
Qed.

Lemma orf_length : forall L M, List.length (orf L M) = List.length M.
Proof. induction L as [|l L IH]; intros [|m M]; cbn; auto. Qed.

Lemma mrg_lext : forall L N L0 M, List.length L0 = List.length L -> mrg L (N ++ L0) M = (N ++ orf L0 M)%list.
Proof.
  intros L N L0 M Hl. unfold mrg. rewrite app_length, Hl. replace (List.length N + List.length L - List.length L) with (List.length N) by lia.
  rewrite firstn_app, Nat.sub_diag, firstn_all, skipn_app_len. cbn. now rewrite app_nil_r.
Qed.

Lemma mrg_cons : forall L l L0 M, List.length L0 = List.length L -> mrg L (l :: L0) M = l :: orf L0 M.
Proof. intros L l L0 M Hl. exact (mrg_lext L [l] L0 M Hl). Qed.

Lemma mrg_same_len : forall L L' M, List.length L' = List.length L -> mrg L L' M = orf L' M.
Proof. intros L L' M Hl. unfold mrg. rewrite Hl, Nat.sub_diag. reflexivity. Qed.

Lemma mrg_same : forall L M, flags_up L M -> mrg L L M = M.
Proof. intros L M H. rewrite mrg_same_len by reflexivity. now apply orf_up. Qed.

Lemma mrg_flags : forall d L L' M, lext d L L' -> flags_up L M -> flags_up L' (mrg L L' M).
Proof.
  intros d L L' M (N & L0 & -> & F & _) H. rewrite mrg_lext by (apply (flags_up_length _ _ F)).
  apply flags_up_app; [apply flags_up_refl|]. eapply flags_up_orf_l; eauto.
Qed.

Lemma mrg_old : forall d L L' M, lext d L L' -> flags_up L M -> flags_up M (skipn (List.length L' - List.length L) (mrg L L' M)).
Proof.
  intros d L L' M (N & L0 & -> & F & _) H. rewrite mrg_lext by (apply (flags_up_length _ _ F)).
  rewrite app_length, (flags_up_length _ _ F). replace (List.length N + List.length L - List.length L) with (List.length N) by lia.
  rewrite skipn_app_len. apply flags_up_orf_r. rewrite (flags_up_length _ _ F), <- (flags_up_length _ _ H). reflexivity.
Qed.

Lemma mrg_trans : forall d L L1 L2 M, lext d L L1 -> lext d L1 L2 -> flags_up L M -> mrg L1 L2 (mrg L L1 M) = mrg L L2 M.
Proof.
  intros d L L1 L2 M (N1 & L01 & -> & F1 & _) (N2 & L02 & -> & F2 & _) H.
  destruct (flags_up_app_inv _ _ _ F2) as (N1' & L01' & -> & FN & FL).
  pose proof (flags_up_length _ _ F1) as H1. pose proof (flags_up_length _ _ FN) as H2. pose proof (flags_up_length _ _ FL) as H3.
  rewrite (mrg_lext L N1 L01 M H1).
  rewrite (mrg_lext (N1 ++ L01) N2 (N1' ++ L01')) by (rewrite !app_length; lia).
  rewrite app_assoc, (mrg_lext L (N2 ++ N1') L01' M) by lia. rewrite <- app_assoc. f_equal.
  (* orf (N1' ++ L01') (N1 ++ orf L01 M) = N1' ++ orf L01' M *)
  clear -FN FL. revert N1' FN. induction N1 as [|a N1 IH]; intros N1' FN; inversion FN as [|? b ? N1'' (E1 & E2 & E3) FN']; subst; cbn [app orf].
  - now apply orf_orf.
  - rewrite IH by exact FN'. f_equal. destruct b as [nb db bb]. cbn in *. subst. f_equal. destruct (l_capt a) eqn:Ea; [rewrite (E3 eq_refl); reflexivity|now rewrite orb_false_r].
Qed.


(* ------------------------------------------------------------------------------------------ *)
(* expressions *)

Lemma CTX_after {hs : list handler} : forall K CL HL base L enb Efin envs Ufin uvec st m fn pc frs G O K1 HL1 t hi,
  CTX K CL HL base L enb Efin envs Ufin uvec -> MS5 hs m fn uvec pc base frs CL HL G O -> sto st K HL (cv m) (cn m) G O ->
  KEXT K K1 (cn m) hi -> HEXT HL HL1 (cn m) ->
  CTX K1 (CL ++ t) HL1 base L enb Efin envs Ufin uvec.
Proof.
  intros K CL HL base L enb Efin envs Ufin uvec st m fn pc frs G O K1 HL1 t hi HC HM HS KX HX.
  pose proof (cx_len _ _ _ _ _ _ _ _ _ _ HC) as Hl.
  eapply CTX_mono with (lo := cn m); eauto.
  - eapply KEXT_ext; eauto.
  - intros i Hi. apply app_nth1. lia.
  - rewrite app_length. lia.
  - eapply below_now; eauto.
Qed.

Fixpoint eargs (fu : nat) (l : list expr) (en : env) (st : sst) : sst * eres (list sval) :=
  match l with
  | [] => (st, ROk [])
  | a :: r => match eval_expr fu a en st with
              | (st1, ROk v) => match eargs fu r en st1 with
                                | (st2, ROk vs) => (st2, ROk (v :: vs))
                                | (st2, RThrow x) => (st2, RThrow x)
                                | (st2, RAbort x) => (st2, RAbort x)
                                | (st2, RStuck w) => (st2, RStuck w)
                                end
              | (st1, RThrow x) => (st1, RThrow x)
              | (st1, RAbort x) => (st1, RAbort x)
              | (st1, RStuck w) => (st1, RStuck w)
              end
  end.

Lemma eval_call_eq : forall fu f args en st,
  eval_expr (S fu) (ECall f args) en st =
  match read_var st en f with
  | ROk (SVClo ps body cenv) =>
      match eargs fu args en st with
      | (st1, ROk vs) =>
          if List.length ps =? List.length vs then
            let (st2, en') := bind_params st1 cenv ps vs in
            match exec_list fu body en' false st2 with
            | (st3, _, CNorm) => (st3, ROk SVNil)
            | (st3, _, CRet v) => (st3, ROk v)
            | (st3, _, CThrow v) => (st3, RThrow v)
            | (st3, _, CAbort v) => (st3, RAbort v)
            | (st3, _, CStuck w) => (st3, RStuck w)
            | (st3, _, _) => (st3, RStuck "break outside loop")
            end
          else (st1, RStuck "arity")
      | (st1, RThrow x) => (st1, RThrow x)
      | (st1, RAbort x) => (st1, RAbort x)
      | (st1, RStuck w) => (st1, RStuck w)
      end
  | ROk _ => (st, RStuck "call of a non-function")
  | RThrow x => (st, RThrow x)
  | RAbort x => (st, RAbort x)
  | RStuck w => (st, RStuck w)
  end.
Proof.
  intros fu f args en st. cbn [eval_expr].
  assert (E : forall l st0,
    (fix go (l : list expr) (st : sst) {struct l} : sst * eres (list sval) :=
       match l with
       | [] => (st, ROk [])
       | a :: r => match eval_expr fu a en st with
                   | (st1, ROk v) => match go r st1 with
                                     | (st2, ROk vs) => (st2, ROk (v :: vs))
                                     | (st2, RThrow x) => (st2, RThrow x)
                                     | (st2, RAbort x) => (st2, RAbort x)
                                     | (st2, RStuck w) => (st2, RStuck w)
                                     end
                   | (st1, RThrow x) => (st1, RThrow x)
                   | (st1, RAbort x) => (st1, RAbort x)
                   | (st1, RStuck w) => (st1, RStuck w)
                   end
       end) l st0 = eargs fu l en st0).
  { induction l as [|a r IH]; intros st0; [reflexivity|]. cbn [eargs].
    destruct (eval_expr fu a en st0) as [s1 [v| | |]]; try reflexivity. rewrite IH. reflexivity. }
  destruct (read_var st en f) as [[| | | |ps body cenv|]| | |]; try reflexivity.
  rewrite E. reflexivity.
Qed.

(* binding the parameters: the argument cells become the cells of the parameters, in order *)
Lemma bind_rel : forall ps vs cs st K HL cvf cnx G O cenv L enb CL base L0 st2 en',
  bparams cf ps L = Some L0 -> bind_params st (enb ++ cenv)%list ps vs = (st2, en') ->
  List.length vs = List.length ps -> Forall2 (fun v c => vrel K HL v (cvf c)) vs cs ->
  (forall c, In c cs -> c < cnx /\ ~ In c K /\ ~ In c HL) -> NoDup cs ->
  sto st K HL cvf cnx G O -> LRBN K CL HL base L enb ->
  (forall i, i < List.length cs -> nth (base + List.length L + i) CL 0 = nth i cs 0) ->
  exists enb', en' = (enb' ++ cenv)%list /\ sto st2 (K ++ cs) HL cvf cnx G O /\ LRBN (K ++ cs) CL HL base L0 enb' /\
               List.length L0 = List.length L + List.length ps.
Proof.
  induction ps as [|p r IH]; intros vs cs st K HL cvf cnx G O cenv L enb CL base L0 st2 en' Hbp Hbd Hlen HR Hfresh Hnd HS HLR Hnth.
  - destruct vs; [|discriminate]. inversion HR; subst. cbn in Hbp, Hbd. inversion Hbp; inversion Hbd; subst.
    exists enb. rewrite app_nil_r. split; [reflexivity|]. split; [exact HS|]. split; [exact HLR|]. cbn; lia.
  - destruct vs as [|v vs']; [discriminate|]. inversion HR as [|? c ? cs' Rv HR']; subst.
    cbn [bparams] in Hbp. destruct (dup_in_scope L p 1); [discriminate|]. destruct (List.length L =? c_locals_max cf); [discriminate|].
    cbn [bind_params] in Hbd. unfold new_cell in Hbd.
    destruct (Hfresh c (or_introl eq_refl)) as (Hc1 & Hc2 & Hc3). inversion Hnd as [|? ? Hnc Hnd']; subst.
    pose proof (stn_len _ _ _ _ _ _ _ _ _ _ HS) as HlenK.
    assert (HK1 : exists e, (K ++ [c])%list = (K ++ e)%list) by eauto.
    assert (HH0 : exists e, HL = (HL ++ e)%list) by (exists []; now rewrite app_nil_r).
    assert (HS1 : sto (fst (new_cell st v)) (K ++ [c]) HL cvf cnx G O).
    { apply STON_new; auto. eapply vrelN_mono; eauto. }
    assert (HLR1 : LRBN (K ++ [c]) CL HL base (mkLocal (Some p) (Some 1) false :: L) ((p, List.length (s_cells st)) :: enb)).
    { constructor.
      - apply (LRBN_mono K CL HL base L enb (K ++ [c])%list CL HL HLR HK1); [reflexivity|intros k Hk; now left].
      - rewrite app_length. cbn. lia.
      - specialize (Hnth 0 ltac:(cbn; lia)). rewrite Nat.add_0_r in Hnth. cbn [nth] in Hnth. rewrite Hnth.
        unfold kc. rewrite <- HlenK, nth_middle. reflexivity.
      - unfold kc. rewrite <- HlenK, nth_middle. intro Hin. contradiction. }
    destruct (IH vs' cs' (fst (new_cell st v)) (K ++ [c])%list HL cvf cnx G O cenv (mkLocal (Some p) (Some 1) false :: L)
                 ((p, List.length (s_cells st)) :: enb) CL base L0 st2 en' Hbp Hbd ltac:(cbn in Hlen; lia))
      as (enb' & E1 & E2 & E3 & E4); auto.
    + revert HR'. apply Forall2_imp. intros a b Hab. eapply vrelN_mono; eauto.
    + intros c' Hin. destruct (Hfresh c' (or_intror Hin)) as (A & B & C). split; [exact A|]. split; [|exact C].
      intro Hi. apply in_app_or in Hi as [Hi|[<-|[]]]; [contradiction|contradiction].
    + intros i Hi. specialize (Hnth (S i) ltac:(cbn; lia)). cbn [List.length nth] in *.
      replace (base + S (List.length L) + i) with (base + List.length L + S i) by lia. exact Hnth.
    + exists enb'. rewrite <- app_assoc in E2, E3. cbn [app] in E2, E3. split; [exact E1|]. split; [exact E2|]. split; [exact E3|].
      cbn [List.length] in *. lia.
Qed.


(* ------------------------------------------------------------------------------------------ *)
(* scope ends *)

Lemma scope_end_nil : forall L0 d, depth_le d L0 -> scope_end_ops L0 d = [].
Proof.
  intros [|l0 L0] d HL; [reflexivity|]. cbn [scope_end_ops]. inversion HL as [|? ? Hd _]; subst.
  destruct (l_depth l0) as [d'|]; [|reflexivity]. destruct (d <? d') eqn:E; [apply Nat.ltb_lt in E; lia|reflexivity].
Qed.

Lemma scope_end_run {hs : list handler} : forall N K CL HL base L0 Ne en d m fn uvec frs pre post G O,
  LRBN K CL HL base (N ++ L0)%list (Ne ++ en)%list -> List.length N = List.length Ne -> List.length CL = base + List.length (N ++ L0)%list ->
  Forall (fun l => l_depth l = Some (S d) /\ l_name l <> None) N -> depth_le d L0 ->
  code_of funs fn = (pre ++ scope_end_ops (N ++ L0) d ++ post)%list ->
  MS5 hs m fn uvec (code_size pre) base frs CL HL G O ->
  exists m', steps cf funs (List.length N) m m' /\
    MS5 hs m' fn uvec (code_size pre + code_size (scope_end_ops (N ++ L0) d)) base frs (firstn (base + List.length L0) CL) HL G O /\
    cv m' = cv m /\ cn m' = cn m.
Proof.
  induction N as [|l N IH]; intros K CL HL base L0 Ne en d m fn uvec frs pre post G O HLR HNe Hlen HN Hd Hcode HM.
  - cbn [app] in *. rewrite (scope_end_nil _ _ Hd). exists m. split; [reflexivity|]. cbn [code_size]. rewrite Nat.add_0_r.
    rewrite <- Hlen, firstn_all. auto.
  - destruct Ne as [|[x c1] Ne]; [discriminate|]. cbn [app] in HLR, Hlen.
    inversion HN as [|? ? [Hdl Hnm] HN']; subst.
    destruct (LRBN_cons_inv _ _ _ _ _ _ _ _ _ Hnm HLR) as (dd & b & -> & HLRt & Hck & Hnth & Hflag).
    cbn [l_depth] in Hdl. inversion Hdl; subst dd.
    cbn [app scope_end_ops l_depth l_capt] in *.
    destruct (d <? S d) eqn:Eltb; [|apply Nat.ltb_ge in Eltb; lia].
    assert (Hcl : CL <> []) by (intro; subst; cbn in Hlen; lia).
    destruct (exists_last Hcl) as (CL0 & c & ->). rewrite app_length in Hlen. cbn in Hlen.
    assert (HlenCL0 : List.length CL0 = base + List.length (N ++ L0)) by lia.
    rewrite <- HlenCL0 in Hnth. rewrite nth_middle in Hnth. subst c.
    set (op := if b then ICloseUpvalue else IPop) in *.
    assert (Hfe : fetch (code_of funs fn) (code_size pre) = Some op) by (rewrite Hcode; apply fetch_app).
    assert (Hstep : exists m1, mstep cf funs m = MRun m1 /\ MS5 hs m1 fn uvec (code_size pre + 1) base frs CL0 HL G O /\ cv m1 = cv m /\ cn m1 = cn m).
    { destruct b; unfold op in Hfe.
      - destruct (step5_closeup cf funs _ _ _ _ _ _ _ _ _ _ _ HM Hfe) as (m1 & A & B & C & D). eauto.
      - assert (Hn : ~ In (kc K c1) HL) by (intro Hin; specialize (Hflag Hin); discriminate).
        destruct (step5_pop cf funs _ _ _ _ _ _ _ _ _ _ _ HM Hfe Hn) as (m1 & A & B & C & D). eauto. }
    destruct Hstep as (m1 & A1 & B1 & C1 & D1).
    assert (HLR0 : LRBN K CL0 HL base (N ++ L0)%list (Ne ++ en)%list).
    { apply (LRBN_mono K (CL0 ++ [kc K c1]) HL base _ _ K CL0 HL HLRt).
      - exists []. now rewrite app_nil_r.
      - intros i Hi. rewrite app_nth1 by lia. reflexivity.
      - intros k Hk. now left. }
    destruct (IH K CL0 HL base L0 Ne en d m1 fn uvec frs (pre ++ [op])%list post G O HLR0 ltac:(cbn in HNe; lia) HlenCL0 HN' Hd) as (m2 & S2 & M2 & C2 & D2).
    { rewrite Hcode. now rewrite <- app_assoc. }
    { rewrite code_size_app. cbn [code_size]. replace (isize op) with 1 by (unfold op; destruct b; reflexivity).
      replace (code_size pre + (1 + 0)) with (code_size pre + 1) by lia. exact B1. }
    exists m2. split; [exists m1; split; [exact A1|exact S2]|].
    split.
    { rewrite code_size_app in M2. cbn [code_size] in M2 |- *. replace (isize op) with 1 in * by (unfold op; destruct b; reflexivity).
      rewrite firstn_app. replace (base + List.length L0 - List.length CL0) with 0 by (rewrite HlenCL0, app_length; lia).
      cbn [firstn]. rewrite app_nil_r.
      replace (code_size pre + (1 + code_size (scope_end_ops (N ++ L0) d))) with (code_size pre + (1 + 0) + code_size (scope_end_ops (N ++ L0) d)) by lia.
      exact M2. }
    split; congruence.
Qed.

(* ------------------------------------------------------------------------------------------ *)
(* creating a closure in a frame: the relational content of closure_impl's captures (locals of the frame through
   Capture, variables of enclosing functions through the running closure's own upvalues) *)

Definition swapd (U : ups_t) : list (bool * nat) := map (fun u : nat * bool => (snd u, fst u)) U.

Lemma flags_up_rev_nth : forall L L' s l, flags_up L L' -> nth_error (rev L) s = Some l ->
  exists l', nth_error (rev L') s = Some l' /\ l_name l' = l_name l /\ l_depth l' = l_depth l /\ (l_capt l = true -> l_capt l' = true).
Proof.
  intros L L' s l HF Hn. destruct (Forall2_nth_error_loc _ _ _ _ _ _ _ (Forall2_rev_loc _ _ _ _ _ HF) Hn) as (l' & Hn' & (E1 & E2 & E3)).
  exists l'. repeat split; auto.
Qed.

(* L1 = the static locals of the running function when the closure is created (its own local included for a local
   `fn`), Lb1 = the list bounding their flags from above, in which the frame relation is kept *)
Lemma mk_closure_n {hs : list handler} : forall K1 CL HL base L1 Lb1 enb1 U E fs ps b Lp cb Lb' Ub lv E' fs1 Ufin Efin envs uvec m fn pc frs G O lo,
  LRBN K1 (CL ++ [cn m]) HL base Lb1 enb1 -> base + List.length L1 <= List.length (CL ++ [cn m]) ->
  forallb (stmt7 jumps true false false) b = true ->
  bparams cf ps [mkLocal None (Some 0) false] = Some Lp ->
  nlist cf b 1 Lp [] (mkLev L1 U :: E) fs 0 None = Some (cb, Lb', Ub, lv :: E', fs1) ->
  flags_up (lv_locals lv) Lb1 ->
  stack_ok U E -> levs_up E' Efin -> (exists ext, Ufin = (lv_ups lv ++ ext)%list) ->
  ENVS Efin envs -> UR K1 HL Efin envs Ufin uvec -> (forall x c, In (x, c) (List.concat envs) -> c < List.length K1) ->
  nth_error funs (List.length fs1) = Some (mkFunc (cb ++ [INil; IReturn]) (List.length ps) (List.length Ub)) ->
  (exists ext, funs = (fs1 ++ ext)%list) ->
  MS5 hs m fn uvec pc base frs CL HL G O -> fetch (code_of funs fn) pc = Some (clo_instr (List.length fs1) Ub) ->
  FLO lo base (CL ++ [cn m]) ->
  exists m' HL' Uv, mstep cf funs m = MRun m' /\
    MS5 hs m' fn uvec (pc + 3 + 2 * List.length Ub) base frs (CL ++ [cn m])%list HL' G O /\
    (forall j, cv m' j = upd (cv m) (cn m) (MClo (List.length fs1) Uv) j) /\ cn m' = S (cn m) /\
    HEXT HL HL' lo /\
    (forall h, In h HL' -> In h HL \/ exists s, s < List.length L1 /\ h = nth (base + s) (CL ++ [cn m]) 0) /\
    vrel K1 HL' (SVClo ps b (enb1 ++ List.concat envs)%list) (MClo (List.length fs1) Uv) /\
    LRBN K1 (CL ++ [cn m]) HL' base Lb1 enb1.
Proof.
  intros K1 CL HL base L1 Lb1 enb1 U E fs ps b Lp cb Lb' Ub lv E' fs1 Ufin Efin envs uvec m fn pc frs G O lo
         HLR Hlen Hb Ebp Ebl HFB Hsok HF HU HENV HUR Hcells Hfn Hfuns HM Hf HFLO.
  set (CLp := (CL ++ [cn m])%list) in *.
  pose proof (m5_s _ _ _ _ _ _ _ _ _ _ _ HM) as SK.
  assert (HnCL : ~ In (cn m) CL) by (intro Hin; pose proof (s2_cl_lt _ _ _ SK _ Hin); unfold cn in *; lia).
  assert (HndCLp : NoDup CLp) by (apply NoDup_snocN; [exact (s2_cl_nd _ _ _ SK)|exact HnCL]).
  pose proof (forallb_stmt7_stmt7u _ _ _ _ _ Hb) as Hbu.
  destruct (bparams_depth cf ps Lp Ebp) as [HdLp _].
  destruct (nlist_ok cf b Hbu _ _ _ _ _ _ _ _ _ _ _ _ Ebl HdLp) as ((_ & HFl) & _ & _).
  inversion HFl as [|? ? ? ? [Hflags _] _]; subst. cbn [lv_locals] in Hflags.
  assert (Hso : stack_ok Ub (lv :: E')).
  { eapply (nlist_stack_ok cf b Hbu); [exact Ebl|]. split; [constructor|exact Hsok]. }
  destruct Hso as [HUok _]. cbn in HUok.
  pose proof (flags_up_length _ _ Hflags) as HlenLv.
  pose proof (flags_up_length _ _ HFB) as HlenLb.
  pose proof (ENVN_flags_rev _ _ _ HFB (LRBN_ENV _ _ _ _ _ _ HLR)) as HENVlv.
  set (descs := swapd Ub) in *.
  assert (Hdn : forall j i b0, nth_error Ub j = Some (i, b0) -> nth_error descs j = Some (b0, i)).
  { intros j i b0 Hj. unfold descs, swapd. rewrite nth_error_map, Hj. reflexivity. }
  assert (Hdesc : Forall (fun d : bool * nat => fst d = true -> base + snd d < List.length CLp) descs).
  { unfold descs, swapd. apply Forall_forall. intros d Hin. apply in_map_iff in Hin as ([i b0] & <- & Hin). cbn [fst snd]. intros ->.
    pose proof (proj1 (Forall_forall _ _) HUok _ Hin) as Hok. unfold up_ok in Hok. cbn [fst snd] in Hok. destruct Hok as (lc & Hn & _).
    assert (i < List.length (lv_locals lv)) by (rewrite <- rev_length; apply nth_error_Some; congruence). lia. }
  destruct (capture_g HL uvec CLp base descs) as [HL' Uv] eqn:Ecc.
  destruct (capture_g_spec uvec CLp base descs HL HL' Uv (s2_hl_nd _ _ _ SK) Ecc) as (Hnd' & Hext & HlenU & Hidx & Hin').
  unfold clo_instr in Hf. fold (swapd Ub) in Hf. fold descs in Hf.
  destruct (step5_closure_n cf funs _ _ _ _ _ _ _ _ _ _ _ _ _ _ HM Hf Hdesc Ecc) as (m' & A & B & C & D).
  assert (HdescLen : List.length descs = List.length Ub) by (unfold descs, swapd; now rewrite map_length).
  (* a new handle is the cell of a flagged local of the frame *)
  assert (Hnew : forall h, In h HL' -> In h HL \/ exists i lc, nth_error (rev (lv_locals lv)) i = Some lc /\ l_capt lc = true /\ h = nth (base + i) CLp 0).
  { intros h Hin. destruct (Hin' _ Hin) as [H1|(i & Hi & ->)]; [now left|right].
    unfold descs, swapd in Hi. apply in_map_iff in Hi as ([i' b0] & Eq & Hi). cbn in Eq. inversion Eq; subst b0 i'.
    pose proof (proj1 (Forall_forall _ _) HUok _ Hi) as Hok. unfold up_ok in Hok. cbn [fst snd] in Hok. destruct Hok as (lc & Hn & Hc & _).
    exists i, lc. auto. }
  assert (HLR' : LRBN K1 CLp HL' base Lb1 enb1).
  { apply LRBN_rehl with (HL := HL); [exact HLR|].
    intros s0 l Hs Hin. destruct (Hnew _ Hin) as [H1|(i & lc & Hn & Hc & Ei)]; [now left|right].
    assert (Hs' : s0 < List.length Lb1) by (rewrite <- rev_length; apply nth_error_Some; congruence).
    assert (Hi' : i < List.length (lv_locals lv)) by (rewrite <- rev_length; apply nth_error_Some; congruence).
    assert (base + s0 = base + i). { eapply NoDup_nth with (l := CLp) (d := 0); eauto; lia. }
    assert (s0 = i) by lia. subst s0.
    destruct (flags_up_rev_nth _ _ _ _ HFB Hn) as (l' & Hn' & _ & _ & Hc'). rewrite Hs in Hn'. inversion Hn'; subst. auto. }
  exists m', HL', Uv. split; [exact A|]. split; [rewrite <- HdescLen; exact B|]. split; [exact C|]. split; [exact D|].
  split.
  { destruct Hext as [ext ->]. exists ext. split; [reflexivity|]. intros k Hk.
    assert (Hin : In k (HL ++ ext)) by (apply in_or_app; now right).
    destruct (Hin' _ Hin) as [H1|(i & Hi & ->)].
    - exfalso. revert Hnd' Hk H1. clear. intros Hnd Hk H1. induction HL as [|a r IH]; [destruct H1|].
      cbn in Hnd. inversion Hnd; subst. destruct H1 as [->|H1]; [apply H2; apply in_or_app; now right|auto].
    - apply HFLO. pose proof (proj1 (Forall_forall _ _) Hdesc (true, i) Hi eq_refl) as Hlt. cbn in Hlt. lia. }
  split.
  { intros h Hin. destruct (Hnew _ Hin) as [H1|(i & lc & Hn & Hc & Ei)]; [now left|right]. exists i. split; [|exact Ei].
    rewrite <- HlenLv, <- rev_length. apply nth_error_Some. congruence. }
  split; [|exact HLR'].
  change (enb1 ++ List.concat envs)%list with (List.concat (enb1 :: envs)).
  destruct HU as [extU HU].
  apply (VN_clo cf funs jumps K1 HL' ps b (List.length fs1) Uv Lp (mkLev L1 U :: E) fs cb Lb' Ub (lv :: E') fs1 (mkLev (lv_locals lv) Ufin :: Efin) (enb1 :: envs)); auto.
  - constructor; [|exact HF]. split; [apply flags_up_refl|]. cbn. eauto.
  - constructor; [|exact HENV]. cbn. exact HENVlv.
  - (* UR *)
    intros j Hj. destruct (nth_error Ub j) as [[i b0]|] eqn:EU; [|apply nth_error_None in EU; lia].
    pose proof (proj1 (Forall_forall _ _) HUok _ (nth_error_In _ _ EU)) as Hok. unfold up_ok in Hok. cbn [fst snd] in Hok.
    pose proof (Hidx j b0 i (Hdn _ _ _ EU)) as Hix. destruct b0.
    + destruct Hok as (lc & Hn & Hc & Hd & Hm). destruct Hix as [Hix1 Hix2].
      destruct (at_slot_named _ _ _ _ HENVlv Hn Hm) as (x & c & Has).
      destruct (LRBN_at _ _ _ _ _ _ _ _ _ HLR' (at_slot_flags _ _ _ _ _ _ HFB Has)) as [E1 E2].
      exists c. split; [eapply UPC_loc; [exact EU|exact Has]|]. split; [exact E2|]. split; [exact Hix2|]. rewrite Hix1. exact E1.
    + assert (Hi : i < List.length Ufin) by (rewrite HU, app_length; lia).
      destruct (HUR i Hi) as (c & A1 & A2 & A3 & A4). exists c.
      split; [eapply UPC_out; [exact EU|exact A1]|]. split; [exact A2|]. rewrite Hix. destruct Hext as [ext ->].
      rewrite app_length. split; [lia|]. rewrite app_nth1 by lia. exact A4.
  - intros x c Hin. rewrite concat_cons_env in Hin. apply in_app_or in Hin as [Hin|Hin]; [eapply LRBN_cells; eauto|eauto].
Qed.

Lemma nfunc_inv : forall ps b L1 U E fs ci L1' U' E' fs',
  nfunc cf ps b L1 U E fs = Some (ci, L1', U', E', fs') ->
  exists Lp cb Lb' Ub lv fsb, bparams cf ps [mkLocal None (Some 0) false] = Some Lp /\
    nlist cf b 1 Lp [] (mkLev L1 U :: E) fs 0 None = Some (cb, Lb', Ub, lv :: E', fsb) /\
    ci = clo_instr (List.length fsb) Ub /\ L1' = lv_locals lv /\ U' = lv_ups lv /\
    fs' = (fsb ++ [mkFunc (cb ++ [INil; IReturn]) (List.length ps) (List.length Ub)])%list.
Proof.
  intros ps b L1 U E fs ci L1' U' E' fs' H. unfold nfunc in H.
  destruct (bparams cf ps _) as [Lp|] eqn:Ep; [|discriminate].
  destruct (nlist cf b 1 Lp [] (mkLev L1 U :: E) fs 0 None) as [[[[[cb Lb'] Ub] Eo] fsb]|] eqn:El; [|discriminate].
  cbn [nclose] in H. destruct Eo as [|lv E0]; [discriminate|]. inversion H; subst.
  exists Lp, cb, Lb', Ub, lv, fsb. repeat split; auto.
Qed.

Lemma closure_here {hs : list handler} : forall K1 CL HL base L1 Lb1 enb1 U E fs ps b ci L1' U' E' fs' Ufin Efin envs uvec m fn frs G O pre post lo,
  nfunc cf ps b L1 U E fs = Some (ci, L1', U', E', fs') -> forallb (stmt7 jumps true false false) b = true -> stack_ok U E ->
  (exists ext, funs = (fs' ++ ext)%list) -> (exists ext, Ufin = (U' ++ ext)%list) -> levs_up E' Efin ->
  ENVS Efin envs -> UR K1 HL Efin envs Ufin uvec -> (forall x c, In (x, c) (List.concat envs) -> c < List.length K1) ->
  flags_up L1' Lb1 ->
  LRBN K1 (CL ++ [cn m]) HL base Lb1 enb1 -> base + List.length L1 <= List.length (CL ++ [cn m]) ->
  MS5 hs m fn uvec (code_size pre) base frs CL HL G O -> code_of funs fn = (pre ++ [ci] ++ post)%list ->
  FLO lo base (CL ++ [cn m]) ->
  exists m' HL' fnc Uv, mstep cf funs m = MRun m' /\
    MS5 hs m' fn uvec (code_size pre + code_size [ci]) base frs (CL ++ [cn m])%list HL' G O /\
    (forall j, cv m' j = upd (cv m) (cn m) (MClo fnc Uv) j) /\ cn m' = S (cn m) /\
    HEXT HL HL' lo /\
    (forall h, In h HL' -> In h HL \/ exists s, s < List.length L1 /\ h = nth (base + s) (CL ++ [cn m]) 0) /\
    vrel K1 HL' (SVClo ps b (enb1 ++ List.concat envs)%list) (MClo fnc Uv) /\
    LRBN K1 (CL ++ [cn m]) HL' base Lb1 enb1 /\ flags_up L1 L1'.
Proof.
  intros K1 CL HL base L1 Lb1 enb1 U E fs ps b ci L1' U' E' fs' Ufin Efin envs uvec m fn frs G O pre post lo
         Hnf Hb Hsok Hfuns HU HF HENV HUR Hcells HFB HLR Hlen HM Hcode HFLO.
  destruct (nfunc_ok cf ps b (forallb_stmt7_stmt7u _ _ _ _ _ Hb) _ _ _ _ _ _ _ _ _ Hnf) as (_ & _ & Hflags).
  destruct (nfunc_inv _ _ _ _ _ _ _ _ _ _ _ Hnf) as (Lp & cb & Lb' & Ub & lv & fsb & Ebp & Ebl & -> & -> & -> & ->).
  assert (Hfn : nth_error funs (List.length fsb) = Some (mkFunc (cb ++ [INil; IReturn]) (List.length ps) (List.length Ub))).
  { destruct Hfuns as [ext ->]. rewrite <- app_assoc. rewrite nth_error_app2 by lia. now rewrite Nat.sub_diag. }
  assert (Hfuns' : exists ext, funs = (fsb ++ ext)%list).
  { destruct Hfuns as [ext ->]. rewrite <- app_assoc. eauto. }
  assert (Hfe : fetch (code_of funs fn) (code_size pre) = Some (clo_instr (List.length fsb) Ub)) by (rewrite Hcode; apply fetch_app).
  destruct (mk_closure_n K1 CL HL base L1 Lb1 enb1 U E fs ps b Lp cb Lb' Ub lv E' fsb Ufin Efin envs uvec m fn (code_size pre) frs G O lo
              HLR Hlen Hb Ebp Ebl HFB Hsok HF HU HENV HUR Hcells Hfn Hfuns' HM Hfe HFLO)
    as (m' & HL' & Uv & A & B & C & D & HX & Hmem & Rv & HLR').
  exists m', HL', (List.length fsb), Uv. split; [exact A|]. split.
  { replace (code_size pre + code_size [clo_instr (List.length fsb) Ub]) with (code_size pre + 3 + 2 * List.length Ub); [exact B|].
    unfold clo_instr. cbn [code_size isize]. rewrite map_length. lia. }
  repeat (split; [assumption|]). exact Hflags.
Qed.

Lemma LRBN_after {hs : list handler} : forall K CL HL base L enb st m fn uvec pc frs G O K1 HL1 hi t,
  LRBN K CL HL base L enb -> base + List.length L <= List.length CL ->
  MS5 hs m fn uvec pc base frs CL HL G O -> sto st K HL (cv m) (cn m) G O ->
  KEXT K K1 (cn m) hi -> HEXT HL HL1 (cn m) -> LRBN K1 (CL ++ t) HL1 base L enb.
Proof.
  intros K CL HL base L enb st m fn uvec pc frs G O K1 HL1 hi t HLR Hlen HM HS KX HX.
  destruct (below_now _ _ _ _ _ _ _ _ _ _ _ _ HM HS) as [HB1 HB2].
  apply (LRBN_mono K CL HL base L enb K1 (CL ++ t)%list HL1 HLR).
  - eapply KEXT_ext; eauto.
  - intros i Hi. apply app_nth1. lia.
  - intros k Hk. destruct (HEXT_in _ _ _ _ HX Hk) as [A|A]; [now left|right]. split.
    + intro Hin. pose proof (HB1 _ Hin). lia.
    + intros i Hi E. assert (Hin : In (nth i CL 0) CL) by (apply nth_In; lia). pose proof (HB2 _ Hin). lia.
Qed.

Lemma LRBN_K : forall K CL HL base L enb K', LRBN K CL HL base L enb -> (exists e, K' = (K ++ e)%list) -> LRBN K' CL HL base L enb.
Proof.
  intros K CL HL base L enb K' H HK. apply (LRBN_mono K CL HL base L enb K' CL HL H HK); [reflexivity|intros k Hk; now left].
Qed.

Lemma LRBN_CL : forall K CL HL base L enb CL', LRBN K CL HL base L enb ->
  (forall i, i < base + List.length L -> nth i CL' 0 = nth i CL 0) -> LRBN K CL' HL base L enb.
Proof.
  intros K CL HL base L enb CL' H HC. apply (LRBN_mono K CL HL base L enb K CL' HL H); [exists []; now rewrite app_nil_r|exact HC|intros k Hk; now left].
Qed.


(* ------------------------------------------------------------------------------------------ *)
(* blocks *)

Lemma scope_end_ops_tail : forall N A B d, Forall (fun l => l_depth l = Some (S d)) N -> depth_le d A -> depth_le d B ->
  scope_end_ops (N ++ A) d = scope_end_ops (N ++ B) d.
Proof.
  induction N as [|l N IH]; intros A B d HN HA HB.
  - cbn [app]. now rewrite !scope_end_nil.
  - inversion HN as [|? ? Hl HN']; subst. cbn [app scope_end_ops]. rewrite Hl. destruct (d <? S d); [|reflexivity].
    f_equal. now apply IH.
Qed.

(* ---- cutting the locals at the depth of a loop ---- *)
Lemma cutL_skipn : forall dl L, cutL dl L = skipn (List.length (scope_end_ops L dl)) L.
Proof.
  intros dl. induction L as [|l r IH]; [reflexivity|]. cbn [cutL scope_end_ops].
  destruct (l_depth l) as [dd|]; [|reflexivity]. destruct (dl <? dd); [cbn [List.length skipn]; exact IH|reflexivity].
Qed.

Definition deeper (dl : nat) (l : local) : Prop := match l_depth l with Some dd => dl < dd | None => False end.

Lemma cutL_app_deeper : forall dl N X, Forall (deeper dl) N -> cutL dl (N ++ X)%list = cutL dl X.
Proof.
  intros dl N X H. induction H as [|l N Hl H IH]; [reflexivity|]. cbn [app cutL]. unfold deeper in Hl.
  destruct (l_depth l) as [dd|]; [|contradiction]. apply Nat.ltb_lt in Hl. now rewrite Hl.
Qed.

Lemma cutE_app_deeper : forall dl N Ne X en, Forall (fun l => deeper dl l /\ l_name l <> None) N -> List.length N = List.length Ne ->
  cutE dl (N ++ X)%list (Ne ++ en)%list = cutE dl X en.
Proof.
  intros dl N. induction N as [|l N IH]; intros Ne X en H Hl.
  - destruct Ne; [reflexivity|discriminate].
  - destruct Ne as [|e Ne]; [discriminate|]. inversion H as [|? ? [Hd Hn] H']; subst. cbn [app cutE]. unfold deeper in Hd.
    destruct (l_depth l) as [dd|]; [|contradiction]. apply Nat.ltb_lt in Hd. rewrite Hd.
    destruct (l_name l); [|congruence]. cbn [tl]. apply IH; [exact H'|cbn in Hl; lia].
Qed.

Lemma cutL_flags : forall dl A B, flags_up A B -> flags_up (cutL dl A) (cutL dl B).
Proof.
  intros dl A B H. induction H as [|a b A B (E1 & E2 & E3) H IH]; [constructor|]. cbn [cutL]. rewrite <- E2.
  assert (Hab : flags_up (a :: A) (b :: B)) by (constructor; [repeat split; assumption|exact H]).
  destruct (l_depth a) as [dd|]; [|exact Hab]. destruct (dl <? dd); [exact IH|exact Hab].
Qed.

Lemma cutE_flags : forall dl A B en, flags_up A B -> cutE dl A en = cutE dl B en.
Proof.
  intros dl A B en H. revert en. induction H as [|a b A B (E1 & E2 & E3) H IH]; intros en; [reflexivity|]. cbn [cutE]. rewrite <- E2, <- E1.
  destruct (l_depth a) as [dd|]; [|reflexivity]. destruct (dl <? dd); [apply IH|reflexivity].
Qed.

Lemma Forall_deeper_d : forall dl d N, dl < d -> Forall (fun l => l_depth l = Some d) N -> Forall (deeper dl) N.
Proof. intros dl d N Hd. apply Forall_impl. intros l E. unfold deeper. now rewrite E. Qed.

Lemma scope_end_ops_deeper_len : forall dl N X, Forall (deeper dl) N ->
  List.length (scope_end_ops (N ++ X)%list dl) = List.length N + List.length (scope_end_ops X dl).
Proof.
  intros dl N X H. induction H as [|l N Hl H IH]; [reflexivity|]. cbn [app scope_end_ops]. unfold deeper in Hl.
  destruct (l_depth l) as [dd|]; [|contradiction]. apply Nat.ltb_lt in Hl. rewrite Hl. cbn [List.length]. now rewrite IH.
Qed.

Lemma firstn_orf_tight : forall k L L0 Lm, flags_up L L0 -> flags_up L Lm -> firstn k Lm = firstn k L -> firstn k (orf L0 Lm) = firstn k L0.
Proof.
  induction k as [|k IH]; intros L L0 Lm H0 Hm Ht; [reflexivity|].
  inversion H0 as [|l l0 L' L0' (A1 & A2 & A3) H0']; subst; [inversion Hm; subst; reflexivity|].
  inversion Hm as [|? m ? Lm' (B1 & B2 & B3) Hm']; subst. cbn [firstn] in Ht. inversion Ht; subst. cbn [orf firstn]. f_equal.
  - destruct l0 as [n0 d0 b0]. cbn in *. subst. f_equal. destruct (l_capt l) eqn:El; [rewrite (A3 eq_refl); reflexivity|now rewrite orb_false_r].
  - eapply IH; eauto.
Qed.

Lemma TIGHT_mrg : forall dl d L L' Lm, TIGHT dl L Lm -> lext d L L' -> dl < d -> flags_up L Lm -> TIGHT dl L' (mrg L L' Lm).
Proof.
  intros dl d L L' Lm Ht (N & L0 & -> & F & D) Hd Hm. unfold TIGHT in *.
  rewrite (mrg_lext L N L0 Lm (flags_up_length _ _ F)).
  rewrite (scope_end_ops_deeper_len dl N L0 (Forall_deeper_d dl d N Hd D)), (flags_up_scope_end_len _ _ dl F).
  rewrite !firstn_app. replace (List.length N + List.length (scope_end_ops L dl) - List.length N) with (List.length (scope_end_ops L dl)) by lia.
  rewrite !firstn_all2 by lia. f_equal. eapply firstn_orf_tight; eauto.
Qed.

Lemma TIGHT_orf : forall dl L L1 Lm, TIGHT dl L Lm -> flags_up L L1 -> flags_up L Lm -> TIGHT dl L1 (orf L1 Lm).
Proof.
  intros dl L L1 Lm Ht F Hm. unfold TIGHT in *. rewrite (flags_up_scope_end_len _ _ dl F). eapply firstn_orf_tight; eauto.
Qed.

Lemma cutL_length_flags : forall dl A B, flags_up A B -> List.length (cutL dl B) = List.length (cutL dl A).
Proof. intros dl A B H. apply flags_up_length. now apply cutL_flags. Qed.

Lemma app_inv_len : forall A (a1 a2 b1 b2 : list A), (a1 ++ b1 = a2 ++ b2)%list -> List.length b1 = List.length b2 -> a1 = a2 /\ b1 = b2.
Proof.
  intros A a1 a2 b1 b2 H Hl. assert (Hl2 : List.length a1 = List.length a2).
  { apply (f_equal (@List.length A)) in H. rewrite !app_length in H. lia. }
  revert a2 H Hl2. induction a1 as [|x r IH]; intros [|y r2] H Hl2; try discriminate; [auto|].
  cbn in H. inversion H; subst. destruct (IH r2 H2 ltac:(cbn in Hl2; lia)) as [-> ->]. auto.
Qed.

(* ------------------------------------------------------------------------------------------ *)
(* loops *)

(* the iterations of `for i in 0..n { b }` in the reference evaluator (the local fix of exec_stmt, named) *)
Fixpoint loop_iter (fu : nat) (b : list stmt) (en' : env) (c : nat) (todo k : nat) (st : sst) : sst * ctl :=
  match todo with
  | 0 => (ScopeLang.set_cell st c SVStop, CNorm)
  | S todo' =>
      match exec_list fu b en' false (ScopeLang.set_cell st c (SVInt (Z.of_nat k))) with
      | (st2, _, CNorm) => loop_iter fu b en' c todo' (S k) st2
      | (st2, _, CCont) => loop_iter fu b en' c todo' (S k) st2
      | (st2, _, CBreak) => (st2, CNorm)
      | (st2, _, c') => (st2, c')
      end
  end.

Lemma exec_loop_eq : forall fu i n b en top st,
  exec_stmt (S fu) (SLoop i n b) en top st =
  let (st1, c) := new_cell st SVNil in
  let (st3, c') := loop_iter fu b ((i, c) :: en) c n 0 st1 in (st3, en, c').
Proof.
  intros fu i n b en top st. cbn [exec_stmt]. destruct (new_cell st SVNil) as [st1 c].
  assert (X : forall todo k st0,
    (fix go (todo : nat) (k : nat) (st : sst) {struct todo} : sst * ctl :=
       match todo with
       | 0 => (ScopeLang.set_cell st c SVStop, CNorm)
       | S todo' =>
           match exec_list fu b ((i, c) :: en) false (ScopeLang.set_cell st c (SVInt (Z.of_nat k))) with
           | (st2, _, CNorm) => go todo' (S k) st2
           | (st2, _, CCont) => go todo' (S k) st2
           | (st2, _, CBreak) => (st2, CNorm)
           | (st2, _, c') => (st2, c')
           end
       end) todo k st0 = loop_iter fu b ((i, c) :: en) c todo k st0).
  { induction todo as [|t IH]; intros k st0; [reflexivity|]. cbn [loop_iter].
    destruct (exec_list fu b ((i, c) :: en) false (ScopeLang.set_cell st0 c (SVInt (Z.of_nat k)))) as [[s2 e2] [| | | | | |]]; try reflexivity; apply IH. }
  rewrite X. reflexivity.
Qed.

(* one scope-end op: the newest local of the frame is popped (or its upvalue closed) *)
Lemma scope_pop1 {hs : list handler} : forall K CL0 c HL base l L en m fn uvec pc frs G O,
  LRBN K (CL0 ++ [c]) HL base (l :: L) en -> List.length CL0 = base + List.length L ->
  fetch (code_of funs fn) pc = Some (if l_capt l then ICloseUpvalue else IPop) ->
  MS5 hs m fn uvec pc base frs (CL0 ++ [c])%list HL G O ->
  exists m', mstep cf funs m = MRun m' /\ MS5 hs m' fn uvec (pc + 1) base frs CL0 HL G O /\ cv m' = cv m /\ cn m' = cn m /\
             LRBN K CL0 HL base L (match l_name l with Some _ => tl en | None => en end).
Proof.
  intros K CL0 c HL base l L en m fn uvec pc frs G O HLR Hlen Hf HM.
  assert (Hflag : In c HL -> l_capt l = true).
  { inversion HLR as [|? ? ? ? H0 Hfl|? ? ? ? ? ? H0 Hc0 Hn0 Hfl]; subst; cbn [l_capt].
    - rewrite <- Hlen, nth_middle in Hfl. exact Hfl.
    - rewrite <- Hlen, nth_middle in Hn0. subst c. exact Hfl. }
  assert (Hstep : exists m1, mstep cf funs m = MRun m1 /\ MS5 hs m1 fn uvec (pc + 1) base frs CL0 HL G O /\ cv m1 = cv m /\ cn m1 = cn m).
  { destruct (l_capt l).
    - destruct (step5_closeup cf funs _ _ _ _ _ _ _ _ _ _ _ HM Hf) as (m1 & A & B & C & D). eauto.
    - assert (Hn : ~ In c HL) by (intro Hin; specialize (Hflag Hin); discriminate).
      destruct (step5_pop cf funs _ _ _ _ _ _ _ _ _ _ _ HM Hf Hn) as (m1 & A & B & C & D). eauto. }
  destruct Hstep as (m1 & A & B & C & D). exists m1. repeat (split; [assumption|]).
  inversion HLR as [|? ? ? ? H0 Hfl|? ? ? ? ? ? H0 Hc0 Hn0 Hfl]; subst; cbn [l_name tl].
  - apply LRBN_CL with (CL := (CL0 ++ [c])%list); [exact H0|]. intros i Hi. symmetry. apply app_nth1. lia.
  - apply LRBN_CL with (CL := (CL0 ++ [c])%list); [exact H0|]. intros i Hi. symmetry. apply app_nth1. lia.
Qed.

(* the scope-end ops of break / continue: the locals deeper than the loop are popped; the ops were chosen from the static
   flags, which for these locals are the flags of the frame relation (TIGHT) *)
Lemma scope_cut_run {hs : list handler} : forall dl L K CL HL base Lm en m fn uvec frs pre post G O,
  LRBN K CL HL base Lm en -> flags_up L Lm -> TIGHT dl L Lm -> List.length CL = base + List.length L ->
  code_of funs fn = (pre ++ scope_end_ops L dl ++ post)%list ->
  MS5 hs m fn uvec (code_size pre) base frs CL HL G O ->
  exists m', steps cf funs (List.length (scope_end_ops L dl)) m m' /\
    MS5 hs m' fn uvec (code_size pre + code_size (scope_end_ops L dl)) base frs (firstn (base + List.length (cutL dl L)) CL) HL G O /\
    cv m' = cv m /\ cn m' = cn m /\
    LRBN K (firstn (base + List.length (cutL dl L)) CL) HL base (cutL dl Lm) (cutE dl L en).
Proof.
  intros dl. induction L as [|l L IH]; intros K CL HL base Lm en m fn uvec frs pre post G O HLR HF HT Hlen Hcode HM.
  - inversion HF; subst. cbn [scope_end_ops cutL cutE List.length code_size] in *. exists m. rewrite !Nat.add_0_r in *.
    assert (Ef : firstn base CL = CL) by (rewrite <- Hlen; apply firstn_all). rewrite Ef.
    split; [reflexivity|]. auto.
  - inversion HF as [|? lm ? Lm' (E1 & E2 & E3) HF']; subst.
    cbn [scope_end_ops cutL cutE] in *. rewrite <- E2.
    destruct (l_depth l) as [dd|] eqn:Ed.
    + destruct (dl <? dd) eqn:Elt.
      * (* popped *)
        unfold TIGHT in HT. cbn [scope_end_ops] in HT. rewrite Ed, Elt in HT. cbn [List.length firstn] in HT. inversion HT as [[Hlm HT']]. subst lm.
        assert (Hcl : CL <> []) by (intro; subst; cbn in Hlen; lia).
        destruct (exists_last Hcl) as (CL0 & c & ->). rewrite app_length in Hlen. cbn in Hlen.
        assert (HlenCL0 : List.length CL0 = base + List.length Lm') by (rewrite (flags_up_length _ _ HF'); lia).
        set (op := if l_capt l then ICloseUpvalue else IPop) in *.
        assert (Hfe : fetch (code_of funs fn) (code_size pre) = Some op) by (rewrite Hcode; apply fetch_app).
        destruct (scope_pop1 K CL0 c HL base l Lm' en m fn uvec (code_size pre) frs G O HLR HlenCL0 Hfe HM) as (m1 & A1 & B1 & C1 & D1 & LR1).
        destruct (IH K CL0 HL base Lm' _ m1 fn uvec frs (pre ++ [op])%list post G O LR1 HF' HT' ltac:(rewrite HlenCL0, (flags_up_length _ _ HF'); reflexivity))
          as (m2 & S2 & M2 & C2 & D2 & LR2).
        { rewrite Hcode. now rewrite <- app_assoc. }
        { rewrite code_size_app. cbn [code_size]. replace (isize op) with 1 by (unfold op; destruct (l_capt l); reflexivity).
          replace (code_size pre + (1 + 0)) with (code_size pre + 1) by lia. exact B1. }
        assert (Hfn : firstn (base + List.length (cutL dl L)) (CL0 ++ [c]) = firstn (base + List.length (cutL dl L)) CL0).
        { apply firstn_app_le. rewrite HlenCL0, (flags_up_length _ _ HF'). rewrite cutL_skipn, skipn_length. lia. }
        exists m2. cbn [List.length]. split; [exists m1; split; [exact A1|exact S2]|]. rewrite Hfn.
        split.
        { rewrite code_size_app in M2. cbn [code_size] in M2 |- *. replace (isize op) with 1 in * by (unfold op; destruct (l_capt l); reflexivity).
          replace (code_size pre + (1 + code_size (scope_end_ops L dl))) with (code_size pre + (1 + 0) + code_size (scope_end_ops L dl)) by lia. exact M2. }
        split; [congruence|]. split; [congruence|]. exact LR2.
      * (* the first local that stays *)
        cbn [List.length code_size]. exists m. rewrite Nat.add_0_r.
        assert (Ef : firstn (base + S (List.length L)) CL = CL) by (cbn [List.length] in Hlen; rewrite <- Hlen; apply firstn_all). rewrite Ef.
        split; [reflexivity|]. auto.
    + cbn [List.length code_size]. exists m. rewrite Nat.add_0_r.
      assert (Ef : firstn (base + S (List.length L)) CL = CL) by (cbn [List.length] in Hlen; rewrite <- Hlen; apply firstn_all). rewrite Ef.
      split; [reflexivity|]. auto.
Qed.

Lemma N_nat_Z : forall n, Z.of_N (N.of_nat n) = Z.of_nat n.
Proof. intros n. now rewrite nat_N_Z. Qed.

Lemma loop_iter_res : forall fu b en' c todo k st st3 c3, loop_iter fu b en' c todo k st = (st3, c3) -> c3 <> CBreak /\ c3 <> CCont.
Proof.
  intros fu b en' c. induction todo as [|t IH]; intros k st st3 c3 H; cbn [loop_iter] in H.
  - inversion H; subst. split; discriminate.
  - destruct (exec_list fu b en' false (ScopeLang.set_cell st c (SVInt (Z.of_nat k)))) as [[st2 en2] c1].
    destruct c1; try (inversion H; subst; split; discriminate); eapply IH; eauto.
Qed.

Lemma flags_up_cons_inv : forall a A b B, flags_up (a :: A) (b :: B) ->
  (l_name a = l_name b /\ l_depth a = l_depth b /\ (l_capt a = true -> l_capt b = true)) /\ flags_up A B.
Proof. intros a A b B H. inversion H; subst. auto. Qed.

Lemma app2_assoc : forall A (l : list A) a b, (l ++ [a; b] = (l ++ [a]) ++ [b])%list.
Proof. intros. now rewrite <- app_assoc. Qed.

Lemma LRBN_loop_inv : forall K CL0 ci ch HL base dh bh i di bi Lb enb c,
  LRBN K (CL0 ++ [ci; ch]) HL base (mkLocal None dh bh :: mkLocal (Some i) (Some di) bi :: Lb) ((i, c) :: enb) ->
  List.length CL0 = base + List.length Lb -> c < List.length K /\ ci = kc K c.
Proof.
  intros K CL0 ci ch HL base dh bh i di bi Lb enb c H Hl. inversion H as [|? ? ? ? H1 _|]; subst.
  inversion H1 as [| |? ? ? ? ? ? H0 Hck Hci Hfi]; subst. split; [exact Hck|].
  rewrite <- Hl in Hci. change [ci; ch] with ([ci] ++ [ch])%list in Hci. rewrite app_assoc, app_nth1, nth_middle in Hci by (rewrite app_length; cbn; lia).
  exact Hci.
Qed.



Lemma cutL_mrg_up : forall dl d L1 L2 Lm1, lext d L1 L2 -> dl < d -> flags_up L1 Lm1 ->
  flags_up (cutL dl Lm1) (cutL dl (mrg L1 L2 Lm1)).
Proof.
  intros dl d L1 L2 Lm1 (N & L0 & -> & F & D) Hd HF. rewrite (mrg_lext L1 N L0 Lm1 (flags_up_length _ _ F)).
  rewrite (cutL_app_deeper dl N _ (Forall_deeper_d dl d N Hd D)). apply cutL_flags. apply flags_up_orf_r.
  rewrite (flags_up_length _ _ F), <- (flags_up_length _ _ HF). reflexivity.
Qed.

Lemma cut_ext2 : forall dl d L enb L1 enb1, EXT2 d L enb L1 enb1 -> dl < d ->
  List.length (cutL dl L1) = List.length (cutL dl L) /\ cutE dl L1 enb1 = cutE dl L enb.
Proof.
  intros dl d L enb L1 enb1 (N & Ne & L0 & -> & F & -> & Hl & D) Hd.
  assert (HD : Forall (deeper dl) N) by (revert D; apply Forall_impl; intros l [E _]; unfold deeper; rewrite E; exact Hd).
  assert (HD2 : Forall (fun l => deeper dl l /\ l_name l <> None) N) by (revert D; apply Forall_impl; intros l [E En]; split; [unfold deeper; rewrite E; exact Hd|exact En]).
  rewrite (cutL_app_deeper dl N L0 HD), (cutE_app_deeper dl N Ne L0 enb HD2 Hl). split; [exact (cutL_length_flags dl _ _ F)|].
  symmetry. apply cutE_flags. exact F.
Qed.

(* ------------------------------------------------------------------------------------------ *)
(* stage 5: helpers for the throw outcome *)

Lemma goodl_throw : forall lc v, goodl lc (CThrow v).
Proof. intros lc v. right. right. eauto. Qed.

Lemma goodl_good : forall lc c, good c -> goodl lc c.
Proof. intros lc c H. now left. Qed.

(* an expression of a statement throws (the statement may have pushed temporaries t0 before, reaching m0 from m without
   touching K / HL): the statement's throw outcome, the frame relation kept against any flags it held against before *)
Lemma throw_out : forall hs K CL t0 HL base m m0 n0 fn uvec frs st st' v lo Lx enb pc0 G O,
  ETHR hs K (CL ++ t0)%list HL base m0 fn uvec frs st' v ->
  steps cf funs n0 m m0 -> FRAMEC m m0 K -> cn m <= cn m0 -> lo <= cn m0 ->
  MS5 hs m0 fn uvec pc0 base frs (CL ++ t0)%list HL G O -> sto st K HL (cv m0) (cn m0) G O ->
  LRBN K CL HL base Lx enb -> base + List.length Lx <= List.length CL ->
  exists n m' K' HL' G' O', steps cf funs n m m' /\ sto st' K' HL' (cv m') (cn m') G' O' /\ KEXT K K' (cn m) (cn m') /\
    HEXT HL HL' lo /\ FRAMEC m m' K /\ cn m <= cn m' /\
    exists fn' uvec' pc1 base' frs' t cx,
      MS5 hs m' fn' uvec' pc1 base' frs' ((CL ++ t) ++ [cx])%list HL' G' O' /\
      fetch (code_of funs fn') pc1 = Some IThrow /\ above fn' uvec' base' frs' fn uvec base frs /\
      vrel K' HL' v (cv m' cx) /\ LRBN K' CL HL' base Lx enb.
Proof.
  intros hs K CL t0 HL base m m0 n0 fn uvec frs st st' v lo Lx enb pc0 G O
         (n1 & m1 & K1 & HL1 & G1 & O1 & fn' & uvec' & pc1 & base' & frs' & t & cx & S1 & ST1 & KX1 & HX1 & F1 & Hcn1 & M1 & Hfe & Hab & Rv)
         S0 F0 Hcn0 Hlo HM0 HS0 HLR Hlen.
  exists (n0 + n1), m1, K1, HL1, G1, O1.
  split; [eapply steps_trans; eauto|]. split; [exact ST1|].
  split; [apply (KEXT_widen K K1 (cn m0) (cn m1)); auto; lia|].
  split; [eapply HEXT_widen; eauto|].
  split. { eapply FRAMEC_trans with (m2 := m0) (K2 := K); eauto. }
  split; [lia|].
  exists fn', uvec', pc1, base', frs', (t0 ++ t)%list, cx.
  split; [rewrite app_assoc; exact M1|]. split; [exact Hfe|]. split; [exact Hab|]. split; [exact Rv|].
  assert (HLR0 : LRBN K (CL ++ t0) HL base Lx enb).
  { apply LRBN_CL with (CL := CL); [exact HLR|]. intros i Hi. apply app_nth1. lia. }
  assert (HLR1 : LRBN K1 ((CL ++ t0) ++ []) HL1 base Lx enb).
  { eapply (LRBN_after K (CL ++ t0)%list HL base Lx enb st m0 fn uvec pc0 frs G O K1 HL1 (cn m1) []); eauto.
    rewrite app_length. lia. }
  apply LRBN_CL with (CL := ((CL ++ t0) ++ [])%list); [exact HLR1|].
  intros i Hi. rewrite app_nil_r. symmetry. apply app_nth1. lia.
Qed.

(* the same when nothing was pushed before the expression *)
Lemma throw_out0 : forall hs K CL HL base m fn uvec frs st st' v lo Lx enb pc0 G O,
  ETHR hs K CL HL base m fn uvec frs st' v -> lo <= cn m ->
  MS5 hs m fn uvec pc0 base frs CL HL G O -> sto st K HL (cv m) (cn m) G O ->
  LRBN K CL HL base Lx enb -> base + List.length Lx <= List.length CL ->
  exists n m' K' HL' G' O', steps cf funs n m m' /\ sto st' K' HL' (cv m') (cn m') G' O' /\ KEXT K K' (cn m) (cn m') /\
    HEXT HL HL' lo /\ FRAMEC m m' K /\ cn m <= cn m' /\
    exists fn' uvec' pc1 base' frs' t cx,
      MS5 hs m' fn' uvec' pc1 base' frs' ((CL ++ t) ++ [cx])%list HL' G' O' /\
      fetch (code_of funs fn') pc1 = Some IThrow /\ above fn' uvec' base' frs' fn uvec base frs /\
      vrel K' HL' v (cv m' cx) /\ LRBN K' CL HL' base Lx enb.
Proof.
  intros hs K CL HL base m fn uvec frs st st' v lo Lx enb pc0 G O HT Hlo HM HS HLR Hlen.
  rewrite <- (app_nil_r CL) in HT, HM.
  destruct (throw_out hs K CL [] HL base m m 0 fn uvec frs st st' v lo Lx enb pc0 G O HT) as (n & m' & K' & HL' & G' & O' & Hr); auto.
  - reflexivity.
  - apply FRAMEC_refl.
  - exists n, m', K', HL', G', O'. exact Hr.
Qed.

(* ---- which control outcomes can leave a piece of the fragment: a return only where `infun`, a break / continue only
        where `inloop` (a try block is compiled and run under infun = inloop = false) ---- *)
Definition ctl_ok (infun inloop : bool) (c : ctl) : Prop :=
  (forall v, c = CRet v -> infun = true) /\ (c = CBreak \/ c = CCont -> inloop = true).

Lemma loop_iter_ctl : forall fu b en' c infun,
  (forall st st' en1 c1, exec_list fu b en' false st = (st', en1, c1) -> ctl_ok infun true c1) ->
  forall todo k st st3 c3, loop_iter fu b en' c todo k st = (st3, c3) -> forall v, c3 = CRet v -> infun = true.
Proof.
  intros fu b en' c infun Hb. induction todo as [|todo IH]; intros k st st3 c3 E v Ev; cbn [loop_iter] in E.
  - inversion E; subst. discriminate.
  - destruct (exec_list fu b en' false (ScopeLang.set_cell st c (SVInt (Z.of_nat k)))) as [[st2 en2] c2] eqn:Eb.
    pose proof (Hb _ _ _ _ Eb) as [Hr _].
    destruct c2; try (eapply IH; eauto; fail); inversion E; subst; try discriminate. eapply Hr; eauto.
Qed.

Lemma frag_ctl : forall fu,
  (forall s infun top inloop en tp st st' en' c, exec_stmt fu s en tp st = (st', en', c) ->
     stmt7 jumps infun top inloop s = true -> ctl_ok infun inloop c) /\
  (forall ss infun top inloop en tp st st' en' c, exec_list fu ss en tp st = (st', en', c) ->
     forallb (stmt7 jumps infun top inloop) ss = true -> ctl_ok infun inloop c).
Proof.
  induction fu as [|fu [IHs IHl]].
  - split; intros; cbn in *; match goal with H : (_, _, _) = (_, _, _) |- _ => inversion H; subst end; (split; [discriminate|intros [|]; discriminate]).
  - split.
    + intros s infun top inloop en tp st st' en' c He Hf.
      assert (Hexp : forall e (k : sst -> sval -> sst * env * ctl),
                (forall st1 v, ctl_ok infun inloop (snd (k st1 v))) ->
                forall r, match eval_expr fu e en st with
                          | (st1, ROk v) => k st1 v
                          | (st1, RThrow x) => (st1, en, CThrow x)
                          | (st1, RAbort x) => (st1, en, CAbort x)
                          | (st1, RStuck w) => (st1, en, CStuck w)
                          end = r -> ctl_ok infun inloop (snd r)).
      { intros e k Hk r <-. destruct (eval_expr fu e en st) as [st1 [v|x|x|w]]; [apply Hk|..]; (split; [discriminate|intros [|]; discriminate]). }
      assert (Hok0 : forall c0, (forall v, c0 <> CRet v) -> c0 <> CBreak -> c0 <> CCont -> ctl_ok infun inloop c0).
      { intros c0 A B C. split; [intros v E; exfalso; eapply A; eauto|intros [E|E]; contradiction]. }
      destruct s; cbn [stmt7] in Hf; try discriminate; cbn [exec_stmt] in He.
      * (* SDecl *) apply (Hexp e _) in He; [exact He|]. intros st1 v. destruct (declare tp st1 en x v). apply Hok0; discriminate.
      * apply (Hexp e _) in He; [exact He|]. intros st1 v. destruct (write_var st1 en x v); apply Hok0; discriminate.
      * apply (Hexp e _) in He; [exact He|]. intros st1 v. apply Hok0; discriminate.
      * apply (Hexp e _) in He; [exact He|]. intros st1 v. apply Hok0; discriminate.
      * (* SBlock *) destruct (exec_list fu b en false st) as [[st1 en1] c1] eqn:El. inversion He; subst. eapply IHl; eauto.
      * (* SFun *) destruct tp; [inversion He; subst; apply Hok0; discriminate|].
        destruct (new_cell st SVNil). inversion He; subst. apply Hok0; discriminate.
      * (* SLam *) destruct (declare tp st en x (SVClo ps b en)). inversion He; subst. apply Hok0; discriminate.
      * (* SLoop *)
        change (exec_stmt (S fu) (SLoop i n b) en tp st = (st', en', c)) in He. rewrite exec_loop_eq in He.
        destruct (new_cell st SVNil) as [st1 c0].
        destruct (loop_iter fu b ((i, c0) :: en) c0 n 0 st1) as [st3 c3] eqn:Eit. inversion He; subst.
        destruct (loop_iter_res _ _ _ _ _ _ _ _ _ Eit) as [A B]. split; [|intros [E|E]; contradiction].
        eapply loop_iter_ctl; [|exact Eit]. intros st2 st2' en2 c2 Eb. eapply IHl; eauto.
      * (* SIf *)
        apply andb_prop in Hf as [Hf Hfe]. apply andb_prop in Hf as [Hf Hft]. apply andb_prop in Hf as [Hfa Hfc].
        apply (Hexp a _) in He; [exact He|]. intros st1 va.
        destruct (eval_expr fu c0 en st1) as [st2 [vc|x|x|w]]; try (apply Hok0; discriminate).
        destruct va; try (apply Hok0; discriminate). destruct vc; try (apply Hok0; discriminate).
        destruct (exec_list fu (if (z <? z0)%Z then t else e) en false st2) as [[st3 en3] c3] eqn:El. cbn [snd].
        destruct (z <? z0)%Z; eapply IHl; eauto.
      * (* SBreak *) inversion He; subst. apply andb_prop in Hf as [_ ->]. split; [discriminate|reflexivity].
      * inversion He; subst. apply andb_prop in Hf as [_ ->]. split; [discriminate|reflexivity].
      * (* SReturn *) apply andb_prop in Hf as [-> Hf]. apply (Hexp e _) in He; [exact He|]. intros st1 v. split; [reflexivity|intros [|]; discriminate].
      * (* SThrow *) apply (Hexp e _) in He; [exact He|]. intros st1 v. apply Hok0; discriminate.
      * (* STry *)
        apply andb_prop in Hf as [Hfb Hfh].
        destruct (exec_list fu b en false st) as [[st1 en1] c1] eqn:Eb.
        pose proof (IHl _ _ _ _ _ _ _ _ _ _ Eb Hfb) as [Hb1 Hb2].
        destruct c1; try (inversion He; subst; apply Hok0; discriminate).
        -- inversion He; subst. exfalso. specialize (Hb2 (or_introl eq_refl)). discriminate.
        -- inversion He; subst. exfalso. specialize (Hb2 (or_intror eq_refl)). discriminate.
        -- inversion He; subst. exfalso. specialize (Hb1 _ eq_refl). discriminate.
        -- destruct (new_cell st1 v) as [st2 cc]. destruct (exec_list fu h ((x, cc) :: en) false st2) as [[st3 en3] c3] eqn:Eh.
           inversion He; subst. eapply IHl; eauto.
    + intros ss infun top inloop en tp st st' en' c He Hf. destruct ss as [|s r]; cbn [exec_list] in He.
      * inversion He; subst. split; [discriminate|intros [|]; discriminate].
      * cbn [forallb] in Hf. apply andb_prop in Hf as [Hf1 Hf2].
        destruct (exec_stmt fu s en tp st) as [[st1 en1] c1] eqn:Es.
        pose proof (IHs _ _ _ _ _ _ _ _ _ _ Es Hf1) as Hc1.
        destruct c1; try (inversion He; subst; exact Hc1). eapply IHl; eauto.
Qed.


(* ------------------------------------------------------------------------------------------ *)
(* expressions: arguments, E_step (evaluates), ET_step (throws) *)

Lemma args_sim {hs : list handler} : forall fu, E_goal fu -> forall args enb envs st st' vs,
  eargs fu args (enb ++ List.concat envs)%list st = (st', ROk vs) -> forallb expr2 args = true ->
  forall L U E cargs U' E', nargs cf L args U E = Some (cargs, U', E') ->
  forall Lb Ufin Efin uvec K CL HL base, flags_up L Lb -> (exists ext, Ufin = (U' ++ ext)%list) -> levs_up E' Efin ->
  CTX K CL HL base Lb enb Efin envs Ufin uvec ->
  forall m fn frs G O pre post, code_of funs fn = (pre ++ cargs ++ post)%list ->
  MS5 hs m fn uvec (code_size pre) base frs CL HL G O -> sto st K HL (cv m) (cn m) G O ->
  exists n m' K' HL' cs G' O', steps cf funs n m m' /\
    MS5 hs m' fn uvec (code_size pre + code_size cargs) base frs (CL ++ cs)%list HL' G' O' /\
    sto st' K' HL' (cv m') (cn m') G' O' /\ KEXT K K' (cn m) (cn m') /\ HEXT HL HL' (cn m) /\
    Forall2 (fun v c => vrel K' HL' v (cv m' c)) vs cs /\
    (forall c, In c cs -> cn m <= c < cn m' /\ ~ In c K' /\ ~ In c HL') /\ FRAMEC m m' K /\ cn m <= cn m' /\
    List.length vs = List.length args.
Proof.
  intros fu IHE args. induction args as [|a r IH]; intros enb envs st st' vs He Hf L U E cargs U' E' Hc Lb Ufin Efin uvec K CL HL base HFB HU HF HC
                                                       m fn frs G O pre post Hcode HM HS.
  - cbn in He, Hc. inversion He; inversion Hc; subst. exists 0, m, K, HL, [], G, O. cbn [code_size]. rewrite Nat.add_0_r, app_nil_r.
    split; [reflexivity|]. split; [exact HM|]. split; [exact HS|]. split; [apply KEXT_refl|]. split; [apply HEXT_refl|]. split; [constructor|].
    split; [intros c []|]. split; [apply FRAMEC_refl|]. split; [lia|reflexivity].
  - cbn in Hf. apply andb_prop in Hf as [Hfa Hfr]. cbn [eargs] in He. cbn [nargs] in Hc.
    destruct (eval_expr fu a (enb ++ List.concat envs)%list st) as [st1 [v| | |]] eqn:Ea; try discriminate.
    destruct (eargs fu r (enb ++ List.concat envs)%list st1) as [st2 [vs'| | |]] eqn:Er; try discriminate.
    inversion He; subst st' vs. clear He.
    destruct (nexpr cf L a U E) as [[[ca U1] E1]|] eqn:Eca; [|discriminate].
    destruct (nargs cf L r U1 E1) as [[[cr U2] E2]|] eqn:Ecr; [|discriminate]. inversion Hc; subst cargs U' E'. clear Hc.
    destruct (nargs_ok cf r Hfr _ _ _ _ _ _ Ecr) as [[ext2 ->] HF2].
    destruct HU as [ext ->].
    destruct (IHE hs a enb envs st st1 v Ea Hfa L U E ca U1 E1 Eca Lb ((U1 ++ ext2) ++ ext)%list Efin uvec K CL HL base HFB
                ltac:(exists (ext2 ++ ext)%list; now rewrite app_assoc) ltac:(eapply levs_up_trans; eauto) HC
                m fn frs G O pre (cr ++ post)%list)
      as (n1 & m1 & K1 & HL1 & c1 & G1 & O1 & S1 & M1 & ST1 & KX1 & HX1 & R1 & B1 & N1 & NH1 & F1).
    { rewrite Hcode. now rewrite <- app_assoc. }
    { exact HM. }
    { exact HS. }
    assert (HC1 : CTX K1 (CL ++ [c1]) HL1 base Lb enb Efin envs ((U1 ++ ext2) ++ ext)%list uvec) by (eapply CTX_after; eauto).
    destruct (IH enb envs st1 st2 vs' Er Hfr L U1 E1 cr (U1 ++ ext2)%list E2 Ecr Lb ((U1 ++ ext2) ++ ext)%list Efin uvec K1 (CL ++ [c1])%list HL1 base
                HFB ltac:(eauto) HF HC1 m1 fn frs G1 O1 (pre ++ ca)%list post)
      as (n2 & m2 & K2 & HL2 & cs & G2 & O2 & S2 & M2 & ST2 & KX2 & HX2 & R2 & B2 & F2 & Hcn2 & Hl2).
    { rewrite Hcode. now rewrite <- !app_assoc. }
    { rewrite code_size_app. exact M1. }
    { exact ST1. }
    assert (Hcn1 : cn m <= cn m1) by lia.
    exists (n1 + n2), m2, K2, HL2, (c1 :: cs), G2, O2.
    split; [eapply steps_trans; eauto|].
    split. { rewrite <- app_assoc in M2. cbn [app] in M2. rewrite !code_size_app in *. rewrite Nat.add_assoc. exact M2. }
    split; [exact ST2|].
    split. { apply (KEXT_trans K K1 K2 (cn m) (cn m1) (cn m2)); auto. }
    split. { eapply HEXT_trans; eauto. }
    assert (Hc1K2 : ~ In c1 K2).
    { intro Hin. destruct (KEXT_in _ _ _ _ _ KX2 Hin) as [Hi|Hi]; [contradiction|lia]. }
    assert (Hc1H2 : ~ In c1 HL2) by (apply (notin_HEXT HL1 HL2 (cn m1) c1 NH1 HX2); lia).
    split.
    { constructor; [|exact R2]. rewrite F2; [|lia|exact N1]. eapply vrelN_mono; eauto; [eapply KEXT_ext; eauto|eapply HEXT_ext; eauto]. }
    split. { intros c [<-|Hin]; [split; [lia|split; assumption]|]. destruct (B2 _ Hin) as (Hb1 & Hb2 & Hb3). split; [lia|split; assumption]. }
    split. { eapply FRAMEC_trans with (m2 := m1) (K2 := K1); eauto. intros j Hin. eapply KEXT_in; eauto. }
    split; [lia|]. cbn [List.length]. now rewrite Hl2.
Qed.

Lemma E_step : forall fu, E_goal fu -> L_goal fu -> E_goal (S fu).
Proof.
  intros fu IHE IHB hs e enb envs st st' v He Hf L U E ce U' E' Hc Lb Ufin Efin uvec K CL HL base HFB HU HF HC m fn frs G O pre post Hcode HM HS.
  destruct e as [n|x|a b|f args| |vv k args]; cbn in Hf; try discriminate.
  - (* ELit *)
    cbn in He, Hc. inversion He; inversion Hc; subst.
    assert (Hfe : fetch (code_of funs fn) (code_size pre) = Some (IConst n)) by (rewrite Hcode; apply fetch_app).
    destruct (step5_const cf funs _ _ _ _ _ _ _ _ _ _ _ HM Hfe) as (m' & A & B & C & D).
    destruct (sto_push _ _ _ _ _ _ _ _ HS C D) as (S1 & S2 & S3).
    exists 1, m', K, HL, (cn m), G, O. split; [now apply steps_one|]. split; [exact B|]. split; [exact S1|].
    split; [apply KEXT_refl|]. split; [apply HEXT_refl|]. split; [rewrite C, upd_same; constructor|]. split; [lia|]. split; [exact S2|].
    split; [apply (notin_HL_fresh _ _ _ _ _ _ _ _ _ _ (cn m) HM); lia|exact S3].
  - (* EVar *)
    cbn in He, Hc. destruct (rvn cf L U E x) as [[[r U1] E1]|] eqn:Er; [|discriminate]. inversion Hc; subst ce U1 E1. clear Hc.
    assert (Hfe : fetch (code_of funs fn) (code_size pre) = Some (get_op r x)) by (rewrite Hcode; apply fetch_app).
    assert (HnH : ~ In (cn m) HL) by (apply (notin_HL_fresh _ _ _ _ _ _ _ _ _ _ (cn m) HM); lia).
    unfold read_var in He. destruct (assoc (enb ++ List.concat envs)%list x) as [c|] eqn:Ea.
    + inversion He; subst st' v. clear He.
      pose proof (resolve_cell _ _ _ _ _ _ _ _ _ _ _ _ _ _ _ _ _ _ Er Ea HFB (cx_lrb _ _ _ _ _ _ _ _ _ _ HC) (cx_len _ _ _ _ _ _ _ _ _ _ HC)
                    (cx_envs _ _ _ _ _ _ _ _ _ _ HC) HF HU (cx_ur _ _ _ _ _ _ _ _ _ _ HC)) as Hw.
      destruct (exec_get _ _ _ _ _ _ _ x _ _ _ _ _ _ Hw HM Hfe) as (m' & A & B & C & D).
      destruct (sto_push _ _ _ _ _ _ _ _ HS C D) as (S1 & S2 & S3).
      assert (Hck : c < List.length K) by (destruct Hw; assumption).
      exists 1, m', K, HL, (cn m), G, O. split; [now apply steps_one|]. split; [cbn [code_size]; rewrite Nat.add_0_r; exact B|].
      split; [exact S1|]. split; [apply KEXT_refl|]. split; [apply HEXT_refl|].
      split. { rewrite C, upd_same. apply (stn_val _ _ _ _ _ _ _ _ _ _ HS c Hck). }
      split; [lia|]. split; [exact S2|]. split; [exact HnH|exact S3].
    + destruct (assoc (s_globals st) x) as [gv|] eqn:Eg; [|discriminate]. inversion He; subst st' v. clear He.
      pose proof (resolve_global _ _ _ _ _ _ _ _ _ _ _ _ _ _ _ Er Ea HFB (cx_lrb _ _ _ _ _ _ _ _ _ _ HC) (cx_envs _ _ _ _ _ _ _ _ _ _ HC) HF) as ->.
      cbn [get_op] in *.
      destruct (GRN_assoc _ _ _ _ _ _ _ _ _ (stn_g _ _ _ _ _ _ _ _ _ _ HS) Eg) as (w & Eg' & Rw).
      destruct (step5_getglobal cf funs _ _ _ _ _ _ _ _ _ _ _ _ HM Hfe Eg') as (m' & A & B & C & D).
      destruct (sto_push _ _ _ _ _ _ _ _ HS C D) as (S1 & S2 & S3).
      exists 1, m', K, HL, (cn m), G, O. split; [now apply steps_one|]. split; [cbn [code_size isize]; rewrite Nat.add_0_r; exact B|].
      split; [exact S1|]. split; [apply KEXT_refl|]. split; [apply HEXT_refl|]. split; [rewrite C, upd_same; exact Rw|].
      split; [lia|]. split; [exact S2|]. split; [exact HnH|exact S3].
  - (* EAdd *)
    apply andb_prop in Hf as [Hfa Hfb]. cbn in He.
    destruct (eval_expr fu a (enb ++ List.concat envs)%list st) as [st1 [va| | |]] eqn:Ea; try (inversion He; fail).
    destruct va as [x| | | | |]; try (inversion He; fail).
    destruct (eval_expr fu b (enb ++ List.concat envs)%list st1) as [st2 [vb| | |]] eqn:Eb; try (inversion He; fail).
    destruct vb as [y| | | | |]; try (inversion He; fail).
    inversion He; subst st' v. clear He. cbn [nexpr] in Hc.
    destruct (nexpr cf L a U E) as [[[ca U1] E1]|] eqn:Eca; [|discriminate].
    destruct (nexpr cf L b U1 E1) as [[[cb U2] E2]|] eqn:Ecb; [|discriminate]. inversion Hc; subst ce U' E'. clear Hc.
    destruct (nexpr_ok cf b Hfb _ _ _ _ _ _ Ecb) as [[ext2 ->] HF2].
    destruct HU as [ext ->].
    destruct (IHE hs a enb envs st st1 (SVInt x) Ea Hfa L U E ca U1 E1 Eca Lb ((U1 ++ ext2) ++ ext)%list Efin uvec K CL HL base HFB
                ltac:(exists (ext2 ++ ext)%list; now rewrite app_assoc) ltac:(eapply levs_up_trans; eauto) HC
                m fn frs G O pre ((cb ++ [IAdd]) ++ post)%list)
      as (n1 & m1 & K1 & HL1 & c1 & G1 & O1 & S1 & M1 & ST1 & KX1 & HX1 & R1 & B1 & N1 & NH1 & F1).
    { rewrite Hcode. now rewrite <- !app_assoc. }
    { exact HM. }
    { exact HS. }
    inversion R1 as [z Hz1 Hz2| | |]; subst z.
    assert (HC1 : CTX K1 (CL ++ [c1]) HL1 base Lb enb Efin envs ((U1 ++ ext2) ++ ext)%list uvec) by (eapply CTX_after; eauto).
    destruct (IHE hs b enb envs st1 st2 (SVInt y) Eb Hfb L U1 E1 cb (U1 ++ ext2)%list E2 Ecb Lb ((U1 ++ ext2) ++ ext)%list Efin uvec K1 (CL ++ [c1])%list HL1 base
                HFB ltac:(eauto) HF HC1 m1 fn frs G1 O1 (pre ++ ca)%list ([IAdd] ++ post)%list)
      as (n2 & m2 & K2 & HL2 & c2 & G2 & O2 & S2 & M2 & ST2 & KX2 & HX2 & R2 & B2 & N2 & NH2 & F2).
    { rewrite Hcode. now rewrite <- !app_assoc. }
    { rewrite code_size_app. exact M1. }
    { exact ST1. }
    inversion R2 as [z Hz3 Hz4| | |]; subst z.
    assert (Hfe : fetch (code_of funs fn) (code_size (pre ++ ca) + code_size cb) = Some IAdd).
    { eapply fetch_mid with (c2 := []) (post := post). rewrite Hcode. now rewrite <- !app_assoc. }
    rewrite <- app_assoc in M2. cbn [app] in M2.
    assert (Hc1v : cv m2 c1 = MInt x) by (rewrite F2; [congruence|lia|exact N1]).
    assert (Hh1 : ~ In c1 HL2) by (apply (notin_HEXT HL1 HL2 (cn m1) c1 NH1 HX2); lia).
    destruct (step5_add cf funs _ _ _ _ _ _ _ _ _ _ _ _ _ _ M2 Hfe Hc1v (eq_sym Hz4) Hh1 NH2) as (m3 & A3 & B3 & C3 & D3).
    destruct (sto_push _ _ _ _ _ _ _ _ ST2 C3 D3) as (S31 & S32 & S33).
    exists (n1 + n2 + 1), m3, K2, HL2, (cn m2), G2, O2.
    split. { eapply steps_trans; [eapply steps_trans; eauto|now apply steps_one]. }
    split. { rewrite !code_size_app in *. cbn [code_size isize] in *.
             replace (code_size pre + (code_size ca + (code_size cb + (1 + 0)))) with (code_size pre + code_size ca + code_size cb + 1) by lia. exact B3. }
    split; [exact S31|].
    assert (Hm12 : cn m <= cn m1) by lia. assert (Hm23 : cn m1 <= cn m2) by lia.
    split. { eapply KEXT_widen; [eapply KEXT_trans; eauto|lia|lia]. }
    split. { eapply HEXT_trans; eauto. }
    split. { rewrite C3, upd_same. constructor. }
    split; [lia|]. split; [exact S32|].
    split. { apply (notin_HL_fresh _ _ _ _ _ _ _ _ _ _ (cn m2) M2). lia. }
    eapply FRAMEC_trans with (m2 := m2) (K2 := K2); [eapply FRAMEC_trans with (m2 := m1) (K2 := K1); eauto| | |].
    + intros j Hin. eapply KEXT_in; eauto.
    + exact S33.
    + lia.
    + intros j Hin. destruct (KEXT_in _ _ _ _ _ KX2 Hin) as [Hi|Hi]; [|right; lia]. destruct (KEXT_in _ _ _ _ _ KX1 Hi) as [Hi2|Hi2]; [now left|right; lia].
  - (* ECall f args *)
    rewrite eval_call_eq in He.
    destruct (read_var st (enb ++ List.concat envs)%list f) as [callee| | |] eqn:Erd; try (inversion He; fail).
    destruct callee as [| | | |ps body cenv'|]; try (inversion He; fail).
    destruct (eargs fu args (enb ++ List.concat envs)%list st) as [st1 [vs| | |]] eqn:Eargs; try (inversion He; fail).
    destruct (List.length ps =? List.length vs) eqn:Eps; [|inversion He]. apply Nat.eqb_eq in Eps.
    destruct (bind_params st1 cenv' ps vs) as [st2 en2] eqn:Ebind.
    destruct (exec_list fu body en2 false st2) as [[st3 en3] ctl] eqn:Ex.
    assert (Hgood : good ctl /\ v = match ctl with CRet w => w | _ => SVNil end /\ st' = st3).
    { destruct ctl; inversion He; subst; (split; [|split; reflexivity]); [left; reflexivity|right; eauto]. }
    destruct Hgood as (Hgood & Hv & ->). clear He.
    destruct fu as [|fu']; [cbn in Ex; inversion Ex; subst; destruct Hgood as [|[? ?]]; discriminate|].
    (* compile *)
    rewrite nexpr_call in Hc. destruct (rvn cf L U E f) as [[[r U0] E0]|] eqn:Er; [|discriminate].
    destruct (nargs cf L args U0 E0) as [[[cargs U3] E3]|] eqn:Eba; [|discriminate].
    inversion Hc; subst ce U' E'. clear Hc.
    destruct (nargs_ok cf args Hf _ _ _ _ _ _ Eba) as [[ext3 ->] HF3].
    destruct HU as [ext ->].
    set (Ufin := ((U0 ++ ext3) ++ ext)%list) in *.
    (* the callee value is pushed: the EVar case at the smaller fuel *)
    assert (Ev : eval_expr (S fu') (EVar f) (enb ++ List.concat envs)%list st = (st, ROk (SVClo ps body cenv'))) by (cbn; now rewrite Erd).
    assert (Ecv : nexpr cf L (EVar f) U E = Some ([get_op r f], U0, E0)) by (cbn; now rewrite Er).
    destruct (IHE hs (EVar f) enb envs st st (SVClo ps body cenv') Ev eq_refl L U E [get_op r f] U0 E0 Ecv Lb Ufin Efin uvec K CL HL base HFB
                ltac:(exists (ext3 ++ ext)%list; unfold Ufin; now rewrite <- !app_assoc) ltac:(eapply levs_up_trans; eauto)
                HC m fn frs G O pre ((cargs ++ [ICall (List.length args)]) ++ post)%list)
      as (n1 & m1 & K1 & HL1 & c1 & G1 & O1 & S1 & M1 & ST1 & KX1 & HX1 & R1 & B1 & N1 & NH1 & F1).
    { rewrite Hcode. cbn. now rewrite <- !app_assoc. }
    { exact HM. }
    { exact HS. }
    (* the arguments *)
    assert (HC1 : CTX K1 (CL ++ [c1]) HL1 base Lb enb Efin envs Ufin uvec) by (eapply CTX_after; eauto).
    destruct (args_sim (hs := hs) (S fu') IHE args enb envs st st1 vs Eargs Hf L U0 E0 cargs _ E3 Eba Lb Ufin Efin uvec K1 (CL ++ [c1])%list HL1 base
                HFB ltac:(exists ext; reflexivity) HF HC1 m1 fn frs G1 O1 (pre ++ [get_op r f])%list ([ICall (List.length args)] ++ post)%list)
      as (n2 & m2 & K2 & HL2 & cs & G2 & O2 & S2 & M2 & ST2 & KX2 & HX2 & R2 & B2 & F2 & Hcn2 & Hlvs).
    { rewrite Hcode. cbn. now rewrite <- !app_assoc. }
    { rewrite code_size_app. exact M1. }
    { exact ST1. }
    assert (Hcn1 : cn m <= cn m1) by lia.
    pose proof (Forall2_len _ _ _ _ _ R2) as Hlcs.
    inversion R1 as [| | |ps1 body1 fnc Uv Lp Ein fs0 cb Lb1 Ub Eout fs1 Efc envc Hfrag Ebp Ebl HEin HEout Hfn Hfuns HENVc HURc Hcells Hz1 Hz2]; subst.
    assert (Hc1v : cv m2 c1 = MClo fnc Uv) by (rewrite F2; [congruence|lia|exact N1]).
    assert (Har : f_arity (nth fnc funs dfunc) = List.length args) by (rewrite (nth_error_nth_d _ _ _ Hfn); cbn; lia).
    assert (Hfe : fetch (code_of funs fn) (code_size (pre ++ [get_op r f]) + code_size cargs) = Some (ICall (List.length args))).
    { eapply fetch_mid with (c2 := []) (post := post). rewrite Hcode. cbn. now rewrite <- !app_assoc. }
    rewrite <- app_assoc in M2. cbn [app] in M2.
    destruct (step5_call cf funs m2 fn uvec _ base frs CL c1 cs HL2 G2 O2 (List.length args) fnc Uv M2 Hfe ltac:(lia) Hc1v Har)
      as (m3 & A3 & B3 & C3 & D3).
    (* the parameters *)
    assert (Hcode_c : code_of funs fnc = (cb ++ [INil; IReturn])%list).
    { unfold code_of. rewrite (nth_error_nth_d _ _ _ Hfn). reflexivity. }
    pose proof (m5_s _ _ _ _ _ _ _ _ _ _ _ M2) as SK2.
    assert (Hndcs : NoDup cs).
    { pose proof (s2_cl_nd _ _ _ SK2) as Hnd. apply NoDup_app_r in Hnd. now inversion Hnd. }
    assert (Hc1H2 : ~ In c1 HL2) by (apply (notin_HEXT HL1 HL2 (cn m1) c1 NH1 HX2); lia).
    assert (Hfresh : forall c, In c cs -> c < cn m3 /\ ~ In c K2 /\ ~ In c HL2).
    { intros c Hin. destruct (B2 _ Hin) as (Hb1 & Hb2 & Hb3). split; [rewrite D3; lia|]. split; assumption. }
    assert (ST3 : sto st1 K2 HL2 (cv m3) (cn m3) G2 O2) by (rewrite C3, D3; exact ST2).
    assert (HR3 : Forall2 (fun v c => vrel K2 HL2 v (cv m3 c)) vs cs) by (rewrite C3; exact R2).
    assert (HLR0 : LRBN K2 (CL ++ c1 :: cs) HL2 (List.length CL) [mkLocal None (Some 0) false] []).
    { constructor; [constructor|]. cbn [List.length]. rewrite Nat.add_0_r, nth_middle. intro Hin. contradiction. }
    destruct (bind_rel ps vs cs st1 K2 HL2 (cv m3) (cn m3) G2 O2 (List.concat envc) [mkLocal None (Some 0) false] [] (CL ++ c1 :: cs)%list (List.length CL) Lp st2 en2
                Ebp Ebind (eq_sym Eps) HR3 Hfresh Hndcs ST3 HLR0)
      as (enb0 & -> & ST4 & LR4 & HlenLb0).
    { intros i Hi. cbn [List.length]. rewrite app_nth2 by lia. replace (List.length CL + 1 + i - List.length CL) with (S i) by lia. reflexivity. }
    (* the body *)
    destruct (bparams_depth cf ps Lp Ebp) as [Hd0 HLpne].
    assert (HK2 : exists e, K2 = (K1 ++ e)%list) by (eapply KEXT_ext; eauto).
    assert (HH2 : exists e, HL2 = (HL1 ++ e)%list) by (eapply HEXT_ext; eauto).
    assert (HCb : CTX (K2 ++ cs) (CL ++ c1 :: cs) HL2 (List.length CL) Lp enb0 Efc envc Ub Uv).
    { constructor.
      - exact LR4.
      - rewrite HlenLb0, app_length. cbn [List.length]. lia.
      - exact HENVc.
      - eapply UR_mono; [|exists cs; reflexivity|exists []; now rewrite app_nil_r]. eapply UR_mono; [exact HURc|exact HK2|exact HH2].
      - intros x c Hin. rewrite app_length. destruct HK2 as [e2 ->]. rewrite app_length. pose proof (Hcells _ _ Hin). lia. }
    assert (Hcsge : forall c, In c (c1 :: cs) -> cn m <= c).
    { intros c [<-|Hin]; [lia|]. destruct (B2 _ Hin) as (Hb1 & _). lia. }
    assert (HFLO : FLO (cn m) (List.length CL) (CL ++ c1 :: cs)).
    { intros i Hi. rewrite app_nth2 by lia. apply Hcsge. apply nth_In. rewrite app_length in Hi. lia. }
    assert (Hsok : stack_ok [] Ein) by (split; [destruct Ein; [exact I|constructor]|exact HEin]).
    destruct (IHB hs body true false false enb0 envc st2 st3 en3 ctl Ex Hfrag Lp 1 [] Ein fs0 0 None cb Lb1 Ub Eout fs1 Ebl (or_introl Hgood) eq_refl Hd0
                ltac:(discriminate) Hsok Hfuns Lp Ub Efc Uv (K2 ++ cs)%list (CL ++ c1 :: cs)%list HL2 (List.length CL)
                (flags_up_refl Lp) ltac:(exists []; now rewrite app_nil_r) HEout HCb
                ltac:(rewrite HlenLb0, app_length; cbn [List.length]; lia)
                m3 fnc (mkFrame fn uvec (code_size (pre ++ [get_op r f]) + code_size cargs + 2) base :: frs) G2 O2 (@nil instr) [INil; IReturn] (cn m)
                ltac:(rewrite Hcode_c; reflexivity) eq_refl ltac:(intros l0 El0; discriminate) ltac:(discriminate) ltac:(lia) HFLO B3 ST4)
      as (n4 & m4 & K4 & HL4 & G4 & O4 & S4 & ST5 & KX4 & HX4 & F4 & Hcn4 & Hres).
    assert (Hfirst : firstn (List.length CL) (CL ++ c1 :: cs) = CL).
    { rewrite firstn_app, Nat.sub_diag, firstn_all. cbn. now rewrite app_nil_r. }
    assert (Hpc : code_size (pre ++ [get_op r f]) + code_size cargs + 2 = code_size pre + code_size (get_op r f :: cargs ++ [ICall (List.length args)])).
    { rewrite code_size_app. cbn [code_size]. rewrite code_size_app. cbn [code_size isize]. lia. }
    assert (Hcn3 : cn m3 = cn m2) by exact D3.
    (* bookkeeping over the whole call *)
    assert (HKX : KEXT K K4 (cn m) (cn m4)).
    { destruct KX1 as (e1 & -> & He1). destruct KX2 as (e2 & -> & He2). destruct KX4 as (e4 & -> & He4).
      exists (((e1 ++ e2) ++ cs) ++ e4)%list. split; [now rewrite <- !app_assoc|].
      intros k Hin. apply in_app_or in Hin as [Hin|Hin]; [|apply He4 in Hin; lia].
      apply in_app_or in Hin as [Hin|Hin]; [|destruct (B2 _ Hin) as (? & _); lia].
      apply in_app_or in Hin as [Hin|Hin]; [apply He1 in Hin|apply He2 in Hin]; lia. }
    assert (HHX : HEXT HL HL4 (cn m)).
    { eapply HEXT_trans; [eapply HEXT_trans; [exact HX1|exact HX2|lia]|exact HX4|lia]. }
    assert (HF14 : FRAMEC m m4 K).
    { intros j Hj Hn. rewrite F4; [|lia|].
      - rewrite C3. rewrite F2; [|lia|]. + apply F1; auto. + intro Hin. destruct (KEXT_in _ _ _ _ _ KX1 Hin) as [Hi|Hi]; [contradiction|lia].
      - intro Hin. apply in_app_or in Hin as [Hin|Hin]; [|destruct (B2 _ Hin) as (? & _); lia].
        destruct (KEXT_in _ _ _ _ _ KX2 Hin) as [Hi|Hi]; [|lia]. destruct (KEXT_in _ _ _ _ _ KX1 Hi) as [Hi2|Hi2]; [contradiction|lia]. }
    destruct ctl as [| | |w| | |]; try contradiction; try (destruct Hgood as [Hg|[? Hg]]; discriminate).
    + (* the body fell off its end: Nil; Return *)
      destruct Hres as (CL4 & enb4 & _ & B4 & _ & HlenCL4 & Hfirst4 & _).
      cbn [code_size Nat.add] in B4.
      assert (Hf1 : fetch (code_of funs fnc) (code_size cb) = Some INil).
      { rewrite Hcode_c. replace (code_size cb) with (code_size [] + code_size cb) by reflexivity.
        eapply fetch_mid with (pre := []) (c2 := [IReturn]) (post := []). cbn. now rewrite app_nil_r. }
      destruct (step5_nil cf funs _ _ _ _ _ _ _ _ _ _ B4 Hf1) as (m5 & A5 & B5 & C5 & D5).
      assert (Hf2 : fetch (code_of funs fnc) (code_size cb + 1) = Some IReturn).
      { rewrite Hcode_c. replace (code_size cb + 1) with (code_size [] + code_size (cb ++ [INil])) by (rewrite code_size_app; cbn; lia).
        eapply fetch_mid with (pre := []) (c2 := []) (post := []). cbn. rewrite app_nil_r, <- app_assoc. reflexivity. }
      assert (Hh5 : ~ In (cn m4) HL4) by (apply (notin_HL_fresh _ _ _ _ _ _ _ _ _ _ (cn m4) B4); lia).
      destruct (step5_return cf funs _ _ _ _ _ _ _ _ _ _ _ _ _ _ _ B5 Hf2 ltac:(lia) Hh5) as (m6 & A6 & B6 & C6 & D6).
      assert (Hf4 : firstn (List.length CL) CL4 = CL).
      { rewrite <- (firstn_firstn_le _ CL4 (List.length CL) (List.length CL + List.length Lp)) by lia.
        rewrite Hfirst4, firstn_firstn_le by lia. exact Hfirst. }
      rewrite Hf4 in B6.
      destruct (sto_push _ _ _ _ _ _ _ _ ST5 C5 D5) as (S51 & S52 & S53).
      destruct (sto_push _ _ _ _ _ _ _ _ S51 C6 D6) as (S61 & S62 & S63).
      exists (n1 + (n2 + (1 + (n4 + 2)))), m6, K4, HL4, (cn m5), G4, O4.
      split. { apply (steps_trans cf funs n1 _ m m1 m6 S1). apply (steps_trans cf funs n2 _ m1 m2 m6 S2). exists m3. split; [exact A3|].
               apply (steps_trans cf funs n4 2 m3 m4 m6 S4). exists m5. split; [exact A5|]. now apply steps_one. }
      split. { rewrite <- Hpc. exact B6. }
      split; [exact S61|].
      split. { apply (KEXT_widen K K4 (cn m) (cn m4)); auto; lia. }
      split; [exact HHX|].
      split. { rewrite C6, upd_same, C5, upd_same. constructor. }
      split; [lia|]. split; [exact S62|].
      split. { apply (notin_HL_fresh _ _ _ _ _ _ _ _ _ _ (cn m5) B5). lia. }
      intros j Hj Hn. rewrite C6, upd_other by lia. rewrite C5, upd_other by lia. apply HF14; auto.
    + (* return inside the body *)
      destruct Hres as (fn0 & ups0 & pc0 & base0 & frs' & cres & Efr & B5 & R5 & Bd5 & N5 & NH5). inversion Efr; subst fn0 ups0 pc0 base0 frs'.
      rewrite Hfirst in B5.
      exists (n1 + (n2 + (1 + n4))), m4, K4, HL4, cres, G4, O4.
      split. { apply (steps_trans cf funs n1 _ m m1 m4 S1). apply (steps_trans cf funs n2 _ m1 m2 m4 S2). exists m3. split; [exact A3|exact S4]. }
      split. { rewrite <- Hpc. exact B5. }
      split; [exact ST5|]. split; [exact HKX|]. split; [exact HHX|]. split; [exact R5|]. split; [lia|]. split; [exact N5|]. split; [exact NH5|exact HF14].
Qed.

(* some argument throws *)
Lemma args_thr {hs : list handler} : forall fu, E_goal fu -> ET_goal fu -> forall args enb envs st st' v,
  eargs fu args (enb ++ List.concat envs)%list st = (st', RThrow v) -> forallb expr2 args = true ->
  forall L U E cargs U' E', nargs cf L args U E = Some (cargs, U', E') ->
  forall Lb Ufin Efin uvec K CL HL base, flags_up L Lb -> (exists ext, Ufin = (U' ++ ext)%list) -> levs_up E' Efin ->
  CTX K CL HL base Lb enb Efin envs Ufin uvec ->
  forall m fn frs G O pre post, code_of funs fn = (pre ++ cargs ++ post)%list ->
  MS5 hs m fn uvec (code_size pre) base frs CL HL G O -> sto st K HL (cv m) (cn m) G O ->
  ETHR hs K CL HL base m fn uvec frs st' v.
Proof.
  intros fu IHE IHT args. induction args as [|a r IH]; intros enb envs st st' v He Hf L U E cargs U' E' Hc Lb Ufin Efin uvec K CL HL base HFB HU HF HC
                                                       m fn frs G O pre post Hcode HM HS.
  - cbn in He. discriminate.
  - cbn in Hf. apply andb_prop in Hf as [Hfa Hfr]. cbn [eargs] in He. cbn [nargs] in Hc.
    destruct (nexpr cf L a U E) as [[[ca U1] E1]|] eqn:Eca; [|discriminate].
    destruct (nargs cf L r U1 E1) as [[[cr U2] E2]|] eqn:Ecr; [|discriminate]. inversion Hc; subst cargs U' E'. clear Hc.
    destruct (nargs_ok cf r Hfr _ _ _ _ _ _ Ecr) as [[ext2 ->] HF2].
    destruct HU as [ext ->].
    destruct (eval_expr fu a (enb ++ List.concat envs)%list st) as [st1 [va|xa|xa|wa]] eqn:Ea; try discriminate.
    + (* the head evaluates, the tail throws *)
      destruct (eargs fu r (enb ++ List.concat envs)%list st1) as [st2 [vs'|xr|xr|wr]] eqn:Er; try discriminate.
      inversion He; subst st2 xr. clear He.
      destruct (IHE hs a enb envs st st1 va Ea Hfa L U E ca U1 E1 Eca Lb ((U1 ++ ext2) ++ ext)%list Efin uvec K CL HL base HFB
                  ltac:(exists (ext2 ++ ext)%list; now rewrite app_assoc) ltac:(eapply levs_up_trans; eauto) HC
                  m fn frs G O pre (cr ++ post)%list)
        as (n1 & m1 & K1 & HL1 & c1 & G1 & O1 & S1 & M1 & ST1 & KX1 & HX1 & R1 & B1 & N1 & NH1 & F1).
      { rewrite Hcode. now rewrite <- app_assoc. }
      { exact HM. }
      { exact HS. }
      assert (HC1 : CTX K1 (CL ++ [c1]) HL1 base Lb enb Efin envs ((U1 ++ ext2) ++ ext)%list uvec) by (eapply CTX_after; eauto).
      destruct (IH enb envs st1 st' v Er Hfr L U1 E1 cr (U1 ++ ext2)%list E2 Ecr Lb ((U1 ++ ext2) ++ ext)%list Efin uvec K1 (CL ++ [c1])%list HL1 base
                  HFB ltac:(eauto) HF HC1 m1 fn frs G1 O1 (pre ++ ca)%list post)
        as (n2 & m2 & K2 & HL2 & G2 & O2 & fn' & uvec' & pc' & base' & frs' & t & cx & S2 & ST2 & KX2 & HX2 & F2 & Hcn2 & M2 & Hfe & Hab & Rv).
      { rewrite Hcode. now rewrite <- !app_assoc. }
      { rewrite code_size_app. exact M1. }
      { exact ST1. }
      assert (Hcn1 : cn m <= cn m1) by lia.
      exists (n1 + n2), m2, K2, HL2, G2, O2, fn', uvec', pc', base', frs', (c1 :: t), cx.
      split; [eapply steps_trans; eauto|].
      split; [exact ST2|].
      split. { apply (KEXT_trans K K1 K2 (cn m) (cn m1) (cn m2)); auto. }
      split. { eapply HEXT_trans; eauto. }
      split. { eapply FRAMEC_trans with (m2 := m1) (K2 := K1); eauto. intros j Hin. eapply KEXT_in; eauto. }
      split; [lia|].
      split. { rewrite <- (app_assoc CL [c1] t) in M2. cbn [app] in M2. exact M2. }
      split; [exact Hfe|]. split; [exact Hab|exact Rv].
    + (* the head throws *)
      inversion He; subst st1 xa. clear He.
      apply (IHT hs a enb envs st st' v Ea Hfa L U E ca U1 E1 Eca Lb ((U1 ++ ext2) ++ ext)%list Efin uvec K CL HL base HFB
                  ltac:(exists (ext2 ++ ext)%list; now rewrite app_assoc) ltac:(eapply levs_up_trans; eauto) HC
                  m fn frs G O pre (cr ++ post)%list).
      { rewrite Hcode. now rewrite <- app_assoc. }
      { exact HM. }
      { exact HS. }
Qed.

Lemma ET_step : forall fu, E_goal fu -> ET_goal fu -> L_goal fu -> ET_goal (S fu).
Proof.
  intros fu IHE IHT IHB hs e enb envs st st' v He Hf L U E ce U' E' Hc Lb Ufin Efin uvec K CL HL base HFB HU HF HC m fn frs G O pre post Hcode HM HS.
  destruct e as [n|x|a b|f args| |vv k args]; cbn in Hf; try discriminate.
  (* ELit: closed by discriminate (the evaluation of a literal never throws) *)
  - (* EVar *)
    exfalso. cbn in He. unfold read_var in He. destruct (assoc (enb ++ List.concat envs)%list x); [discriminate|].
    destruct (assoc (s_globals st) x); discriminate.
  - (* EAdd *)
    apply andb_prop in Hf as [Hfa Hfb]. cbn in He. cbn [nexpr] in Hc.
    destruct (nexpr cf L a U E) as [[[ca U1] E1]|] eqn:Eca; [|discriminate].
    destruct (nexpr cf L b U1 E1) as [[[cb U2] E2]|] eqn:Ecb; [|discriminate]. inversion Hc; subst ce U' E'. clear Hc.
    destruct (nexpr_ok cf b Hfb _ _ _ _ _ _ Ecb) as [[ext2 ->] HF2].
    destruct HU as [ext ->].
    destruct (eval_expr fu a (enb ++ List.concat envs)%list st) as [st1 [va|xa|xa|wa]] eqn:Ea; try (inversion He; fail).
    + destruct va as [x| | | | |]; try (inversion He; fail).
      destruct (eval_expr fu b (enb ++ List.concat envs)%list st1) as [st2 [vb|xb|xb|wb]] eqn:Eb; try (inversion He; fail).
      { destruct vb; inversion He. }
      inversion He; subst st2 xb. clear He.
      destruct (IHE hs a enb envs st st1 (SVInt x) Ea Hfa L U E ca U1 E1 Eca Lb ((U1 ++ ext2) ++ ext)%list Efin uvec K CL HL base HFB
                  ltac:(exists (ext2 ++ ext)%list; now rewrite app_assoc) ltac:(eapply levs_up_trans; eauto) HC
                  m fn frs G O pre ((cb ++ [IAdd]) ++ post)%list)
        as (n1 & m1 & K1 & HL1 & c1 & G1 & O1 & S1 & M1 & ST1 & KX1 & HX1 & R1 & B1 & N1 & NH1 & F1).
      { rewrite Hcode. now rewrite <- !app_assoc. }
      { exact HM. }
      { exact HS. }
      assert (HC1 : CTX K1 (CL ++ [c1]) HL1 base Lb enb Efin envs ((U1 ++ ext2) ++ ext)%list uvec) by (eapply CTX_after; eauto).
      destruct (IHT hs b enb envs st1 st' v Eb Hfb L U1 E1 cb (U1 ++ ext2)%list E2 Ecb Lb ((U1 ++ ext2) ++ ext)%list Efin uvec K1 (CL ++ [c1])%list HL1 base
                  HFB ltac:(eauto) HF HC1 m1 fn frs G1 O1 (pre ++ ca)%list ([IAdd] ++ post)%list)
        as (n2 & m2 & K2 & HL2 & G2 & O2 & fn' & uvec' & pc' & base' & frs' & t & cx & S2 & ST2 & KX2 & HX2 & F2 & Hcn2 & M2 & Hfe & Hab & Rv).
      { rewrite Hcode. now rewrite <- !app_assoc. }
      { rewrite code_size_app. exact M1. }
      { exact ST1. }
      assert (Hcn1 : cn m <= cn m1) by lia.
      exists (n1 + n2), m2, K2, HL2, G2, O2, fn', uvec', pc', base', frs', (c1 :: t), cx.
      split; [eapply steps_trans; eauto|].
      split; [exact ST2|].
      split. { apply (KEXT_trans K K1 K2 (cn m) (cn m1) (cn m2)); auto. }
      split. { eapply HEXT_trans; eauto. }
      split. { eapply FRAMEC_trans with (m2 := m1) (K2 := K1); eauto. intros j Hin. eapply KEXT_in; eauto. }
      split; [lia|].
      split. { rewrite <- (app_assoc CL [c1] t) in M2. cbn [app] in M2. exact M2. }
      split; [exact Hfe|]. split; [exact Hab|exact Rv].
    + inversion He; subst st1 xa. clear He.
      apply (IHT hs a enb envs st st' v Ea Hfa L U E ca U1 E1 Eca Lb ((U1 ++ ext2) ++ ext)%list Efin uvec K CL HL base HFB
                  ltac:(exists (ext2 ++ ext)%list; now rewrite app_assoc) ltac:(eapply levs_up_trans; eauto) HC
                  m fn frs G O pre ((cb ++ [IAdd]) ++ post)%list).
      { rewrite Hcode. now rewrite <- !app_assoc. }
      { exact HM. }
      { exact HS. }
  - (* ECall f args *)
    rewrite eval_call_eq in He.
    destruct (read_var st (enb ++ List.concat envs)%list f) as [callee|xc|xc|wc] eqn:Erd; try (inversion He; fail).
    2: { exfalso. unfold read_var in Erd. destruct (assoc (enb ++ List.concat envs)%list f); [discriminate|].
         destruct (assoc (s_globals st) f); discriminate. }
    destruct callee as [| | | |ps body cenv'|]; try (inversion He; fail).
    destruct fu as [|fu'].
    { exfalso. destruct args as [|a0 r0]; cbn [eargs eval_expr] in He; [|discriminate].
      destruct (List.length ps =? @List.length sval []); [|discriminate].
      destruct (bind_params st cenv' ps []) as [st2 en2]. cbn in He. discriminate. }
    (* compile *)
    rewrite nexpr_call in Hc. destruct (rvn cf L U E f) as [[[r U0] E0]|] eqn:Er; [|discriminate].
    destruct (nargs cf L args U0 E0) as [[[cargs U3] E3]|] eqn:Eba; [|discriminate].
    inversion Hc; subst ce U' E'. clear Hc.
    destruct (nargs_ok cf args Hf _ _ _ _ _ _ Eba) as [[ext3 ->] HF3].
    destruct HU as [ext ->].
    set (Ufin := ((U0 ++ ext3) ++ ext)%list) in *.
    (* the callee value is pushed: the EVar case at the smaller fuel *)
    assert (Ev : eval_expr (S fu') (EVar f) (enb ++ List.concat envs)%list st = (st, ROk (SVClo ps body cenv'))) by (cbn; now rewrite Erd).
    assert (Ecv : nexpr cf L (EVar f) U E = Some ([get_op r f], U0, E0)) by (cbn; now rewrite Er).
    destruct (IHE hs (EVar f) enb envs st st (SVClo ps body cenv') Ev eq_refl L U E [get_op r f] U0 E0 Ecv Lb Ufin Efin uvec K CL HL base HFB
                ltac:(exists (ext3 ++ ext)%list; unfold Ufin; now rewrite <- !app_assoc) ltac:(eapply levs_up_trans; eauto)
                HC m fn frs G O pre ((cargs ++ [ICall (List.length args)]) ++ post)%list)
      as (n1 & m1 & K1 & HL1 & c1 & G1 & O1 & S1 & M1 & ST1 & KX1 & HX1 & R1 & B1 & N1 & NH1 & F1).
    { rewrite Hcode. cbn. now rewrite <- !app_assoc. }
    { exact HM. }
    { exact HS. }
    assert (HC1 : CTX K1 (CL ++ [c1]) HL1 base Lb enb Efin envs Ufin uvec) by (eapply CTX_after; eauto).
    assert (Hcn1 : cn m <= cn m1) by lia.
    destruct (eargs (S fu') args (enb ++ List.concat envs)%list st) as [st1 [vs|xargs|xargs|wargs]] eqn:Eargs; try (inversion He; fail).
    2: { (* an argument throws *)
      inversion He; subst st1 xargs. clear He.
      destruct (args_thr (hs := hs) (S fu') IHE IHT args enb envs st st' v Eargs Hf L U0 E0 cargs _ E3 Eba Lb Ufin Efin uvec K1 (CL ++ [c1])%list HL1 base
                  HFB ltac:(exists ext; reflexivity) HF HC1 m1 fn frs G1 O1 (pre ++ [get_op r f])%list ([ICall (List.length args)] ++ post)%list)
        as (n2 & m2 & K2 & HL2 & G2 & O2 & fn' & uvec' & pc' & base' & frs' & t & cx & S2 & ST2 & KX2 & HX2 & F2 & Hcn2 & M2 & Hfe & Hab & Rv).
      { rewrite Hcode. cbn. now rewrite <- !app_assoc. }
      { rewrite code_size_app. exact M1. }
      { exact ST1. }
      exists (n1 + n2), m2, K2, HL2, G2, O2, fn', uvec', pc', base', frs', (c1 :: t), cx.
      split; [eapply steps_trans; eauto|].
      split; [exact ST2|].
      split. { apply (KEXT_trans K K1 K2 (cn m) (cn m1) (cn m2)); auto. }
      split. { eapply HEXT_trans; eauto. }
      split. { eapply FRAMEC_trans with (m2 := m1) (K2 := K1); eauto. intros j Hin. eapply KEXT_in; eauto. }
      split; [lia|].
      split. { rewrite <- (app_assoc CL [c1] t) in M2. cbn [app] in M2. exact M2. }
      split; [exact Hfe|]. split; [exact Hab|exact Rv]. }
    (* the arguments evaluate, the body throws *)
    destruct (List.length ps =? List.length vs) eqn:Eps; [|inversion He]. apply Nat.eqb_eq in Eps.
    destruct (bind_params st1 cenv' ps vs) as [st2 en2] eqn:Ebind.
    destruct (exec_list (S fu') body en2 false st2) as [[st3 en3] ctl] eqn:Ex.
    assert (Hthr : ctl = CThrow v /\ st' = st3).
    { destruct ctl; inversion He; subst; split; reflexivity. }
    destruct Hthr as (-> & ->). clear He.
    destruct (args_sim (hs := hs) (S fu') IHE args enb envs st st1 vs Eargs Hf L U0 E0 cargs _ E3 Eba Lb Ufin Efin uvec K1 (CL ++ [c1])%list HL1 base
                HFB ltac:(exists ext; reflexivity) HF HC1 m1 fn frs G1 O1 (pre ++ [get_op r f])%list ([ICall (List.length args)] ++ post)%list)
      as (n2 & m2 & K2 & HL2 & cs & G2 & O2 & S2 & M2 & ST2 & KX2 & HX2 & R2 & B2 & F2 & Hcn2 & Hlvs).
    { rewrite Hcode. cbn. now rewrite <- !app_assoc. }
    { rewrite code_size_app. exact M1. }
    { exact ST1. }
    pose proof (Forall2_len _ _ _ _ _ R2) as Hlcs.
    inversion R1 as [| | |ps1 body1 fnc Uv Lp Ein fs0 cb Lb1 Ub Eout fs1 Efc envc Hfrag Ebp Ebl HEin HEout Hfn Hfuns HENVc HURc Hcells Hz1 Hz2]; subst.
    assert (Hc1v : cv m2 c1 = MClo fnc Uv) by (rewrite F2; [congruence|lia|exact N1]).
    assert (Har : f_arity (nth fnc funs dfunc) = List.length args) by (rewrite (nth_error_nth_d _ _ _ Hfn); cbn; lia).
    assert (Hfe : fetch (code_of funs fn) (code_size (pre ++ [get_op r f]) + code_size cargs) = Some (ICall (List.length args))).
    { eapply fetch_mid with (c2 := []) (post := post). rewrite Hcode. cbn. now rewrite <- !app_assoc. }
    rewrite <- app_assoc in M2. cbn [app] in M2.
    destruct (step5_call cf funs m2 fn uvec _ base frs CL c1 cs HL2 G2 O2 (List.length args) fnc Uv M2 Hfe ltac:(lia) Hc1v Har)
      as (m3 & A3 & B3 & C3 & D3).
    (* the parameters *)
    assert (Hcode_c : code_of funs fnc = (cb ++ [INil; IReturn])%list).
    { unfold code_of. rewrite (nth_error_nth_d _ _ _ Hfn). reflexivity. }
    pose proof (m5_s _ _ _ _ _ _ _ _ _ _ _ M2) as SK2.
    assert (Hndcs : NoDup cs).
    { pose proof (s2_cl_nd _ _ _ SK2) as Hnd. apply NoDup_app_r in Hnd. now inversion Hnd. }
    assert (Hc1H2 : ~ In c1 HL2) by (apply (notin_HEXT HL1 HL2 (cn m1) c1 NH1 HX2); lia).
    assert (Hfresh : forall c, In c cs -> c < cn m3 /\ ~ In c K2 /\ ~ In c HL2).
    { intros c Hin. destruct (B2 _ Hin) as (Hb1 & Hb2 & Hb3). split; [rewrite D3; lia|]. split; assumption. }
    assert (ST3 : sto st1 K2 HL2 (cv m3) (cn m3) G2 O2) by (rewrite C3, D3; exact ST2).
    assert (HR3 : Forall2 (fun v c => vrel K2 HL2 v (cv m3 c)) vs cs) by (rewrite C3; exact R2).
    assert (HLR0 : LRBN K2 (CL ++ c1 :: cs) HL2 (List.length CL) [mkLocal None (Some 0) false] []).
    { constructor; [constructor|]. cbn [List.length]. rewrite Nat.add_0_r, nth_middle. intro Hin. contradiction. }
    destruct (bind_rel ps vs cs st1 K2 HL2 (cv m3) (cn m3) G2 O2 (List.concat envc) [mkLocal None (Some 0) false] [] (CL ++ c1 :: cs)%list (List.length CL) Lp st2 en2
                Ebp Ebind (eq_sym Eps) HR3 Hfresh Hndcs ST3 HLR0)
      as (enb0 & -> & ST4 & LR4 & HlenLb0).
    { intros i Hi. cbn [List.length]. rewrite app_nth2 by lia. replace (List.length CL + 1 + i - List.length CL) with (S i) by lia. reflexivity. }
    (* the body *)
    destruct (bparams_depth cf ps Lp Ebp) as [Hd0 HLpne].
    assert (HK2 : exists e, K2 = (K1 ++ e)%list) by (eapply KEXT_ext; eauto).
    assert (HH2 : exists e, HL2 = (HL1 ++ e)%list) by (eapply HEXT_ext; eauto).
    assert (HCb : CTX (K2 ++ cs) (CL ++ c1 :: cs) HL2 (List.length CL) Lp enb0 Efc envc Ub Uv).
    { constructor.
      - exact LR4.
      - rewrite HlenLb0, app_length. cbn [List.length]. lia.
      - exact HENVc.
      - eapply UR_mono; [|exists cs; reflexivity|exists []; now rewrite app_nil_r]. eapply UR_mono; [exact HURc|exact HK2|exact HH2].
      - intros x c Hin. rewrite app_length. destruct HK2 as [e2 ->]. rewrite app_length. pose proof (Hcells _ _ Hin). lia. }
    assert (Hcsge : forall c, In c (c1 :: cs) -> cn m <= c).
    { intros c [<-|Hin]; [lia|]. destruct (B2 _ Hin) as (Hb1 & _). lia. }
    assert (HFLO : FLO (cn m) (List.length CL) (CL ++ c1 :: cs)).
    { intros i Hi. rewrite app_nth2 by lia. apply Hcsge. apply nth_In. rewrite app_length in Hi. lia. }
    assert (Hsok : stack_ok [] Ein) by (split; [destruct Ein; [exact I|constructor]|exact HEin]).
    destruct (IHB hs body true false false enb0 envc st2 st3 en3 (CThrow v) Ex Hfrag Lp 1 [] Ein fs0 0 None cb Lb1 Ub Eout fs1 Ebl (goodl_throw None v) eq_refl Hd0
                ltac:(discriminate) Hsok Hfuns Lp Ub Efc Uv (K2 ++ cs)%list (CL ++ c1 :: cs)%list HL2 (List.length CL)
                (flags_up_refl Lp) ltac:(exists []; now rewrite app_nil_r) HEout HCb
                ltac:(rewrite HlenLb0, app_length; cbn [List.length]; lia)
                m3 fnc (mkFrame fn uvec (code_size (pre ++ [get_op r f]) + code_size cargs + 2) base :: frs) G2 O2 (@nil instr) [INil; IReturn] (cn m)
                ltac:(rewrite Hcode_c; reflexivity) eq_refl ltac:(intros l0 El0; discriminate) ltac:(discriminate) ltac:(lia) HFLO B3 ST4)
      as (n4 & m4 & K4 & HL4 & G4 & O4 & S4 & ST5 & KX4 & HX4 & F4 & Hcn4 & Hres).
    assert (Hcn3 : cn m3 = cn m2) by exact D3.
    (* bookkeeping over the whole call *)
    assert (HKX : KEXT K K4 (cn m) (cn m4)).
    { destruct KX1 as (e1 & -> & He1). destruct KX2 as (e2 & -> & He2). destruct KX4 as (e4 & -> & He4).
      exists (((e1 ++ e2) ++ cs) ++ e4)%list. split; [now rewrite <- !app_assoc|].
      intros k Hin. apply in_app_or in Hin as [Hin|Hin]; [|apply He4 in Hin; lia].
      apply in_app_or in Hin as [Hin|Hin]; [|destruct (B2 _ Hin) as (? & _); lia].
      apply in_app_or in Hin as [Hin|Hin]; [apply He1 in Hin|apply He2 in Hin]; lia. }
    assert (HHX : HEXT HL HL4 (cn m)).
    { eapply HEXT_trans; [eapply HEXT_trans; [exact HX1|exact HX2|lia]|exact HX4|lia]. }
    assert (HF14 : FRAMEC m m4 K).
    { intros j Hj Hn. rewrite F4; [|lia|].
      - rewrite C3. rewrite F2; [|lia|]. + apply F1; auto. + intro Hin. destruct (KEXT_in _ _ _ _ _ KX1 Hin) as [Hi|Hi]; [contradiction|lia].
      - intro Hin. apply in_app_or in Hin as [Hin|Hin]; [|destruct (B2 _ Hin) as (? & _); lia].
        destruct (KEXT_in _ _ _ _ _ KX2 Hin) as [Hi|Hi]; [|lia]. destruct (KEXT_in _ _ _ _ _ KX1 Hi) as [Hi2|Hi2]; [contradiction|lia]. }
    destruct Hres as (fn' & uvec' & pc1 & base' & frs' & t & cx & B5 & Hfe5 & Hab5 & Rv5 & _).
    exists (n1 + (n2 + (1 + n4))), m4, K4, HL4, G4, O4, fn', uvec', pc1, base', frs', (c1 :: cs ++ t)%list, cx.
    split. { apply (steps_trans cf funs n1 _ m m1 m4 S1). apply (steps_trans cf funs n2 _ m1 m2 m4 S2). exists m3. split; [exact A3|exact S4]. }
    split; [exact ST5|]. split; [exact HKX|]. split; [exact HHX|]. split; [exact HF14|]. split; [lia|].
    split. { rewrite <- (app_assoc CL (c1 :: cs) t) in B5. cbn [app] in B5. exact B5. }
    split; [exact Hfe5|]. split; [eapply above_call; exact Hab5|exact Rv5].
Qed.

(* ------------------------------------------------------------------------------------------ *)
(* statements, one lemma per kind *)

Lemma S_decl : forall fu, E_goal fu -> ET_goal fu -> L_goal fu -> forall x e, S_at (S fu) (SDecl x e).
Proof.
  intros fu IHE IHT IHL x e hs infun top inloop enb envs st st' en' ctl He Hf L d U E fs pos lc code L' U' E' fs' Hc Hg Ht Hdl Hd0 Hsok Hfuns
         Lm Ufin Efin uvec K CL HL base HFB HU HF HC HlenCL m fn frs G O pre post lo Hcode Hpos Hlc Hfrs Hlo HFLO HM HS.
  unfold RES. cbn [stmt7] in Hf.
  cbn [exec_stmt] in He. destruct (eval_expr fu e (enb ++ List.concat envs)%list st) as [st1 rr] eqn:Ee.
  destruct rr as [v|xv| |]; try (inversion He; subst; destruct Hg as [[Hg|[? Hg]]|[[_ [Hg|Hg]]|[? Hg]]]; discriminate).
  2: { (* the expression throws *)
    inversion He; subst st' en' ctl. clear He Hg. cbn [nstmt] in Hc. destruct (d =? 0) eqn:Ed.
    - destruct (nexpr cf L e U E) as [[[ce U1] E1]|] eqn:Ec; [|discriminate]. inversion Hc; subst code L' U' E' fs'. clear Hc.
      rewrite Nat.sub_diag. cbn [skipn]. rewrite (mrg_same L Lm HFB).
      assert (HT : ETHR hs K CL HL base m fn uvec frs st1 xv).
      { apply (IHT hs e enb envs st st1 xv Ee Hf L U E ce U1 E1 Ec Lm Ufin Efin uvec K CL HL base HFB HU HF HC m fn frs G O pre ([IDefineGlobal x] ++ post)%list);
          [rewrite Hcode; now rewrite <- app_assoc|exact HM|exact HS]. }
      exact (throw_out0 hs K CL HL base m fn uvec frs st st1 xv lo Lm enb _ G O HT Hlo HM HS
               (cx_lrb _ _ _ _ _ _ _ _ _ _ HC) (cx_len _ _ _ _ _ _ _ _ _ _ HC)).
    - destruct (dup_in_scope L x d); [discriminate|]. destruct (List.length L =? c_locals_max cf); [discriminate|].
      destruct (nexpr cf (mkLocal (Some x) None false :: L) e U E) as [[[ce U1] E1]|] eqn:Ec; [|discriminate].
      inversion Hc; subst code L' U' E' fs'. clear Hc. apply (nexpr_uninit cf x e Hf) in Ec.
      rewrite (mrg_cons L _ L Lm eq_refl), (orf_up _ _ HFB).
      replace (List.length (mkLocal (Some x) (Some d) false :: L) - List.length L) with 1 by (cbn [List.length]; lia). cbn [skipn].
      assert (HT : ETHR hs K CL HL base m fn uvec frs st1 xv).
      { exact (IHT hs e enb envs st st1 xv Ee Hf L U E ce U1 E1 Ec Lm Ufin Efin uvec K CL HL base HFB HU HF HC m fn frs G O pre post Hcode HM HS). }
      exact (throw_out0 hs K CL HL base m fn uvec frs st st1 xv lo Lm enb _ G O HT Hlo HM HS
               (cx_lrb _ _ _ _ _ _ _ _ _ _ HC) (cx_len _ _ _ _ _ _ _ _ _ _ HC)). }
  cbn [nstmt] in Hc. unfold declare in He. rewrite Ht in He. destruct (d =? 0) eqn:Ed.
  + (* a global *)
    destruct (nexpr cf L e U E) as [[[ce U1] E1]|] eqn:Ec; [|discriminate]. inversion Hc; subst code L' U' E' fs'. clear Hc.
    inversion He; subst st' en' ctl. clear He Hg. rewrite ?(mrg_same L Lm HFB).
    pose proof (cx_lrb _ _ _ _ _ _ _ _ _ _ HC) as HLRB. pose proof (cx_len _ _ _ _ _ _ _ _ _ _ HC) as HlenC.
    destruct (IHE hs e enb envs st st1 v Ee Hf L U E ce U1 E1 Ec Lm Ufin Efin uvec K CL HL base HFB HU HF HC m fn frs G O pre ([IDefineGlobal x] ++ post)%list)
      as (n1 & m1 & K1 & HL1 & c1 & G1 & O1 & S1 & M1 & ST1 & KX1 & HX1 & R1 & B1 & N1 & NH1 & F1).
    { rewrite Hcode. now rewrite <- app_assoc. }
    { exact HM. }
    { exact HS. }
    assert (Hfe : fetch (code_of funs fn) (code_size pre + code_size ce) = Some (IDefineGlobal x)).
    { eapply fetch_mid with (c2 := []) (post := post). exact Hcode. }
    destruct (step5_defglobal cf funs _ _ _ _ _ _ _ _ _ _ _ _ M1 Hfe NH1) as (m2 & A2 & B2 & C2 & D2).
    exists (n1 + 1), m2, K1, HL1, (set_assoc G1 x (cv m1 c1)), O1.
    split. { apply (steps_trans cf funs n1 1 m m1 m2 S1). now apply steps_one. }
    split. { rewrite C2, D2. apply STON_global; auto. }
    split. { apply (KEXT_widen K K1 (cn m) (cn m1)); auto; lia. }
    split; [eapply HEXT_widen; eauto|].
    split. { intros j Hj Hn. rewrite C2. apply F1; auto. }
    split; [lia|].
    exists CL, enb. split; [reflexivity|]. split.
    { rewrite code_size_app. cbn [code_size isize]. replace (code_size pre + (code_size ce + (3 + 0))) with (code_size pre + code_size ce + 3) by lia. exact B2. }
    split. { rewrite <- (app_nil_r CL). eapply LRBN_after; eauto. }
    split; [exact HlenCL|]. split; [reflexivity|]. split; [exact HFLO|]. split; [apply EXT2_flags, flags_up_refl|auto].
  + (* a local *)
    destruct (dup_in_scope L x d); [discriminate|]. destruct (List.length L =? c_locals_max cf); [discriminate|].
    destruct (nexpr cf (mkLocal (Some x) None false :: L) e U E) as [[[ce U1] E1]|] eqn:Ec; [|discriminate].
    inversion Hc; subst code L' U' E' fs'. clear Hc. apply (nexpr_uninit cf x e Hf) in Ec.
    unfold new_cell in He. inversion He; subst st' en' ctl. clear He Hg.
    rewrite (mrg_cons L _ L Lm eq_refl), (orf_up _ _ HFB).
    pose proof (cx_lrb _ _ _ _ _ _ _ _ _ _ HC) as HLRB. pose proof (cx_len _ _ _ _ _ _ _ _ _ _ HC) as HlenC.
    pose proof (flags_up_length _ _ HFB) as HlenLb0.
    destruct (IHE hs e enb envs st st1 v Ee Hf L U E ce U1 E1 Ec Lm Ufin Efin uvec K CL HL base HFB HU HF HC m fn frs G O pre post Hcode HM HS)
      as (n1 & m1 & K1 & HL1 & c1 & G1 & O1 & S1 & M1 & ST1 & KX1 & HX1 & R1 & B1 & N1 & NH1 & F1).
    pose proof (stn_len _ _ _ _ _ _ _ _ _ _ ST1) as HlenK.
    exists n1, m1, (K1 ++ [c1])%list, HL1, G1, O1.
    split; [exact S1|].
    split. { apply (STON_new cf funs jumps st1 K1 HL1 (cv m1) (cn m1) G1 O1 c1 v ST1 N1 ltac:(lia)).
             apply (vrelN_mono cf funs jumps K1 HL1 (K1 ++ [c1])%list HL1 _ _ R1); [eauto|exists []; now rewrite app_nil_r]. }
    split. { destruct KX1 as (e1 & -> & He1). exists (e1 ++ [c1])%list. rewrite <- app_assoc. split; [reflexivity|].
             intros k Hin. apply in_app_or in Hin as [Hin|[<-|[]]]; [apply He1 in Hin; lia|lia]. }
    split; [eapply HEXT_widen; eauto|]. split; [exact F1|]. split; [lia|].
    exists (CL ++ [c1])%list, ((x, List.length (s_cells st1)) :: enb). split; [reflexivity|]. split; [exact M1|].
    split.
    { constructor.
      - apply LRBN_K with (K := K1); [|eauto]. eapply LRBN_after; eauto.
      - rewrite app_length. cbn. lia.
      - rewrite HlenLb0, <- HlenCL, nth_middle. unfold kc. rewrite <- HlenK, nth_middle. reflexivity.
      - unfold kc. rewrite <- HlenK, nth_middle. intro Hin. contradiction. }
    split; [rewrite app_length; cbn [List.length]; lia|]. split; [apply firstn_app_le; lia|].
    split; [apply FLO_snoc; [exact HFLO|lia]|].
    split. { exists [mkLocal (Some x) (Some d) false], [(x, List.length (s_cells st1))], L. repeat split; auto using flags_up_refl.
             constructor; [split; [reflexivity|discriminate]|constructor]. }
    intro Hd00. subst d. discriminate.
Qed.

Lemma S_assign : forall fu, E_goal fu -> ET_goal fu -> L_goal fu -> forall x e, S_at (S fu) (SAssign x e).
Proof.
  intros fu IHE IHT IHL x e hs infun top inloop enb envs st st' en' ctl He Hf L d U E fs pos lc code L' U' E' fs' Hc Hg Ht Hdl Hd0 Hsok Hfuns
         Lm Ufin Efin uvec K CL HL base HFB HU HF HC HlenCL m fn frs G O pre post lo Hcode Hpos Hlc Hfrs Hlo HFLO HM HS.
  unfold RES. cbn [stmt7] in Hf.
  cbn [exec_stmt] in He. destruct (eval_expr fu e (enb ++ List.concat envs)%list st) as [st1 rr] eqn:Ee.
  destruct rr as [v|xv| |]; try (inversion He; subst; destruct Hg as [[Hg|[? Hg]]|[[_ [Hg|Hg]]|[? Hg]]]; discriminate).
  2: { (* the expression throws (before anything is written) *)
    inversion He; subst st' en' ctl. clear He Hg.
    cbn [nstmt] in Hc. destruct (rvn cf L U E x) as [[[r U0] E0]|] eqn:Er; [|discriminate].
    destruct (nexpr cf L e U0 E0) as [[[ce U1] E1]|] eqn:Ec; [|discriminate]. inversion Hc; subst code L' U' E' fs'. clear Hc.
    rewrite Nat.sub_diag. cbn [skipn]. rewrite (mrg_same L Lm HFB).
    assert (HT : ETHR hs K CL HL base m fn uvec frs st1 xv).
    { apply (IHT hs e enb envs st st1 xv Ee Hf L U0 E0 ce U1 E1 Ec Lm Ufin Efin uvec K CL HL base HFB HU HF HC m fn frs G O pre ([set_op r x; IPop] ++ post)%list);
        [rewrite Hcode; now rewrite <- !app_assoc|exact HM|exact HS]. }
    exact (throw_out0 hs K CL HL base m fn uvec frs st st1 xv lo Lm enb _ G O HT Hlo HM HS
             (cx_lrb _ _ _ _ _ _ _ _ _ _ HC) (cx_len _ _ _ _ _ _ _ _ _ _ HC)). }
  destruct (write_var st1 (enb ++ List.concat envs)%list x v) as [st2|] eqn:Ew; [|inversion He; subst; destruct Hg as [[Hg|[? Hg]]|[[_ [Hg|Hg]]|[? Hg]]]; discriminate].
  inversion He; subst st' en' ctl. clear He Hg.
  cbn [nstmt] in Hc. destruct (rvn cf L U E x) as [[[r U0] E0]|] eqn:Er; [|discriminate].
  destruct (nexpr cf L e U0 E0) as [[[ce U1] E1]|] eqn:Ec; [|discriminate]. inversion Hc; subst code L' U' E' fs'. clear Hc.
  rewrite ?(mrg_same L Lm HFB).
    pose proof (cx_lrb _ _ _ _ _ _ _ _ _ _ HC) as HLRB. pose proof (cx_len _ _ _ _ _ _ _ _ _ _ HC) as HlenC.
  destruct (nexpr_ok cf e Hf _ _ _ _ _ _ Ec) as [[ext1 ->] HF1].
  destruct HU as [ext ->].
  destruct (IHE hs e enb envs st st1 v Ee Hf L U0 E0 ce (U0 ++ ext1)%list E1 Ec Lm ((U0 ++ ext1) ++ ext)%list Efin uvec K CL HL base
              HFB ltac:(eauto) HF HC m fn frs G O pre ([set_op r x; IPop] ++ post)%list)
    as (n1 & m1 & K1 & HL1 & c1 & G1 & O1 & S1 & M1 & ST1 & KX1 & HX1 & R1 & B1 & N1 & NH1 & F1).
  { rewrite Hcode. now rewrite <- !app_assoc. }
  { exact HM. }
  { exact HS. }
  assert (Hfe : fetch (code_of funs fn) (code_size pre + code_size ce) = Some (set_op r x)).
  { eapply fetch_mid with (c2 := [IPop]) (post := post). exact Hcode. }
  assert (HLR1 : LRBN K1 CL HL1 base Lm enb) by (rewrite <- (app_nil_r CL); eapply LRBN_after; eauto).
  unfold write_var in Ew. destruct (assoc (enb ++ List.concat envs)%list x) as [c|] eqn:Ea.
  + inversion Ew; subst st2. clear Ew.
    assert (Hw : where_is K CL HL base uvec r c).
    { eapply resolve_cell with (Lb := Lm) (enb := enb) (envs := envs) (Ufin := ((U0 ++ ext1) ++ ext)%list) (Efin := Efin); eauto.
      - apply (cx_envs _ _ _ _ _ _ _ _ _ _ HC).
      - eapply levs_up_trans; eauto.
      - exists (ext1 ++ ext)%list. now rewrite <- !app_assoc.
      - apply (cx_ur _ _ _ _ _ _ _ _ _ _ HC). }
    assert (Hw1 : where_is K1 CL HL1 base uvec r c).
    { eapply where_is_mono; eauto; [eapply KEXT_ext; eauto|eapply HEXT_ext; eauto]. }
    destruct (exec_set _ _ _ _ _ _ _ _ x _ _ _ _ _ _ Hw1 M1 Hfe) as (m2 & A2 & B2 & C2 & D2).
    assert (Hfe2 : fetch (code_of funs fn) (code_size pre + code_size ce + 2) = Some IPop).
    { replace (code_size pre + code_size ce + 2) with (code_size pre + code_size (ce ++ [set_op r x])).
      - eapply fetch_mid with (c2 := []) (post := post). rewrite Hcode. now rewrite <- !app_assoc.
      - rewrite code_size_app. destruct Hw1; cbn; lia. }
    destruct (step5_pop cf funs _ _ _ _ _ _ _ _ _ _ _ B2 Hfe2 NH1) as (m3 & A3 & B3 & C3 & D3).
    assert (Hck : c < List.length K1) by (destruct Hw1; assumption).
    exists (n1 + 2), m3, K1, HL1, G1, O1.
    split. { apply (steps_trans cf funs n1 2 m m1 m3 S1). exists m2. split; [exact A2|now apply steps_one]. }
    split. { rewrite C3, D3, C2, D2. apply STON_write; auto. }
    split. { apply (KEXT_widen K K1 (cn m) (cn m1)); auto; lia. }
    split; [eapply HEXT_widen; eauto|].
    split. { intros j Hj Hn. rewrite C3, C2. rewrite upd_other; [apply F1; auto|].
             intro Ej. apply Hn. assert (Hin0 : In (kc K1 c) K1) by (unfold kc; apply nth_In; lia).
             destruct (KEXT_in _ _ _ _ _ KX1 Hin0) as [Hin|Hge]; [rewrite Ej; exact Hin|exfalso; lia]. }
    split; [lia|].
    exists CL, enb. split; [reflexivity|]. split.
    { rewrite code_size_app. cbn [code_size]. replace (isize (set_op r x)) with 2 by (destruct Hw1; reflexivity). cbn [isize].
      replace (code_size pre + (code_size ce + (2 + (1 + 0)))) with (code_size pre + code_size ce + 2 + 1) by lia. exact B3. }
    split; [exact HLR1|]. split; [exact HlenCL|]. split; [reflexivity|]. split; [exact HFLO|]. split; [apply EXT2_flags, flags_up_refl|auto].
  + destruct (assoc (s_globals st1) x) as [w|] eqn:Eg; [|discriminate]. inversion Ew; subst st2. clear Ew.
    assert (r = VGlobal).
    { eapply resolve_global with (Lb := Lm) (enb := enb) (envs := envs) (Efin := Efin); eauto.
      - apply (cx_envs _ _ _ _ _ _ _ _ _ _ HC).
      - eapply levs_up_trans; eauto. }
    subst r. cbn [set_op] in *.
    destruct (GRN_assoc _ _ _ _ _ _ _ _ _ (stn_g _ _ _ _ _ _ _ _ _ _ ST1) Eg) as (w' & Eg' & _).
    destruct (step5_setglobal cf funs _ _ _ _ _ _ _ _ _ _ _ _ _ M1 Hfe Eg') as (m2 & A2 & B2 & C2 & D2).
    assert (Hfe2 : fetch (code_of funs fn) (code_size pre + code_size ce + 3) = Some IPop).
    { replace (code_size pre + code_size ce + 3) with (code_size pre + code_size (ce ++ [ISetGlobal x])).
      - eapply fetch_mid with (c2 := []) (post := post). rewrite Hcode. now rewrite <- !app_assoc.
      - rewrite code_size_app. cbn. lia. }
    destruct (step5_pop cf funs _ _ _ _ _ _ _ _ _ _ _ B2 Hfe2 NH1) as (m3 & A3 & B3 & C3 & D3).
    exists (n1 + 2), m3, K1, HL1, (set_assoc G1 x (cv m1 c1)), O1.
    split. { apply (steps_trans cf funs n1 2 m m1 m3 S1). exists m2. split; [exact A2|now apply steps_one]. }
    split. { rewrite C3, D3, C2, D2. apply STON_global; auto. }
    split. { apply (KEXT_widen K K1 (cn m) (cn m1)); auto; lia. }
    split; [eapply HEXT_widen; eauto|].
    split. { intros j Hj Hn. rewrite C3, C2. apply F1; auto. }
    split; [lia|].
    exists CL, enb. split; [reflexivity|]. split.
    { rewrite code_size_app. cbn [code_size isize].
      replace (code_size pre + (code_size ce + (3 + (1 + 0)))) with (code_size pre + code_size ce + 3 + 1) by lia. exact B3. }
    split; [exact HLR1|]. split; [exact HlenCL|]. split; [reflexivity|]. split; [exact HFLO|]. split; [apply EXT2_flags, flags_up_refl|auto].
Qed.

Lemma S_print : forall fu, E_goal fu -> ET_goal fu -> L_goal fu -> forall e, S_at (S fu) (SPrint e).
Proof.
  intros fu IHE IHT IHL e hs infun top inloop enb envs st st' en' ctl He Hf L d U E fs pos lc code L' U' E' fs' Hc Hg Ht Hdl Hd0 Hsok Hfuns
         Lm Ufin Efin uvec K CL HL base HFB HU HF HC HlenCL m fn frs G O pre post lo Hcode Hpos Hlc Hfrs Hlo HFLO HM HS.
  unfold RES. cbn [stmt7] in Hf.
  cbn [exec_stmt] in He. destruct (eval_expr fu e (enb ++ List.concat envs)%list st) as [st1 rr] eqn:Ee.
  destruct rr as [v|xv| |]; try (inversion He; subst; destruct Hg as [[Hg|[? Hg]]|[[_ [Hg|Hg]]|[? Hg]]]; discriminate).
  2: { (* the expression throws, the print function already pushed *)
    inversion He; subst st' en' ctl. clear He Hg.
    cbn [nstmt] in Hc. destruct (nexpr cf L e U E) as [[[ce U1] E1]|] eqn:Ec; [|discriminate].
    inversion Hc; subst code L' U' E' fs'. clear Hc. rewrite Nat.sub_diag. cbn [skipn]. rewrite (mrg_same L Lm HFB).
    assert (Hf0 : fetch (code_of funs fn) (code_size pre) = Some (IGetGlobal GPrint)) by (rewrite Hcode; apply fetch_app).
    destruct (step5_getprint cf funs _ _ _ _ _ _ _ _ _ _ HM Hf0) as (m0 & A0 & B0 & C0 & D0).
    destruct (sto_push _ _ _ _ _ _ _ _ HS C0 D0) as (S01 & S02 & S03).
    assert (HT : ETHR hs K (CL ++ [cn m])%list HL base m0 fn uvec frs st1 xv).
    { apply (IHT hs e enb envs st st1 xv Ee Hf L U E ce U1 E1 Ec Lm Ufin Efin uvec K (CL ++ [cn m])%list HL base HFB HU HF (CTX_app _ _ _ _ _ _ _ _ _ _ _ HC)
               m0 fn frs G O (pre ++ [IGetGlobal GPrint])%list ([ICall 1; IPop] ++ post)%list).
      - rewrite Hcode. cbn. now rewrite <- !app_assoc.
      - rewrite code_size_app. cbn [code_size isize]. replace (code_size pre + (3 + 0)) with (code_size pre + 3) by lia. exact B0.
      - exact S01. }
    exact (throw_out hs K CL [cn m] HL base m m0 1 fn uvec frs st st1 xv lo Lm enb _ G O HT (steps_one cf funs m m0 A0) S03
             ltac:(lia) ltac:(lia) B0 S01 (cx_lrb _ _ _ _ _ _ _ _ _ _ HC) (cx_len _ _ _ _ _ _ _ _ _ _ HC)). }
  inversion He; subst st' en' ctl. clear He Hg.
  cbn [nstmt] in Hc. destruct (nexpr cf L e U E) as [[[ce U1] E1]|] eqn:Ec; [|discriminate].
  inversion Hc; subst code L' U' E' fs'. clear Hc. rewrite ?(mrg_same L Lm HFB).
    pose proof (cx_lrb _ _ _ _ _ _ _ _ _ _ HC) as HLRB. pose proof (cx_len _ _ _ _ _ _ _ _ _ _ HC) as HlenC.
  assert (Hf0 : fetch (code_of funs fn) (code_size pre) = Some (IGetGlobal GPrint)) by (rewrite Hcode; apply fetch_app).
  destruct (step5_getprint cf funs _ _ _ _ _ _ _ _ _ _ HM Hf0) as (m0 & A0 & B0 & C0 & D0).
  destruct (sto_push _ _ _ _ _ _ _ _ HS C0 D0) as (S01 & S02 & S03).
  destruct (IHE hs e enb envs st st1 v Ee Hf L U E ce U1 E1 Ec Lm Ufin Efin uvec K (CL ++ [cn m])%list HL base HFB HU HF (CTX_app _ _ _ _ _ _ _ _ _ _ _ HC)
              m0 fn frs G O (pre ++ [IGetGlobal GPrint])%list ([ICall 1; IPop] ++ post)%list)
    as (n1 & m1 & K1 & HL1 & c1 & G1 & O1 & S1 & M1 & ST1 & KX1 & HX1 & R1 & B1 & N1 & NH1 & F1).
  { rewrite Hcode. cbn. now rewrite <- !app_assoc. }
  { rewrite code_size_app. cbn [code_size isize]. replace (code_size pre + (3 + 0)) with (code_size pre + 3) by lia. exact B0. }
  { exact S01. }
  rewrite <- app_assoc in M1. cbn [app] in M1.
  assert (Hfe1 : fetch (code_of funs fn) (code_size (pre ++ [IGetGlobal GPrint]) + code_size ce) = Some (ICall 1)).
  { eapply fetch_mid with (c2 := [IPop]) (post := post). rewrite Hcode. cbn. now rewrite <- !app_assoc. }
  assert (Hcp : cv m1 (cn m) = MPrintFn) by (rewrite F1; [rewrite C0; apply upd_same|lia|exact S02]).
  assert (Hhp0 : ~ In (cn m) HL) by (apply (notin_HL_fresh _ _ _ _ _ _ _ _ _ _ (cn m) HM); lia).
  assert (Hhp : ~ In (cn m) HL1) by (apply (notin_HEXT HL HL1 (cn m0) (cn m) Hhp0 HX1); lia).
  destruct (step5_callprint cf funs _ _ _ _ _ _ _ _ _ _ _ _ M1 Hfe1 Hcp NH1) as (m2 & A2 & B2 & C2 & D2).
  assert (Hfe2 : fetch (code_of funs fn) (code_size (pre ++ [IGetGlobal GPrint]) + code_size ce + 2) = Some IPop).
  { replace (code_size (pre ++ [IGetGlobal GPrint]) + code_size ce + 2) with (code_size (pre ++ [IGetGlobal GPrint]) + code_size (ce ++ [ICall 1])).
    - eapply fetch_mid with (c2 := []) (post := post). rewrite Hcode. cbn. now rewrite <- !app_assoc.
    - rewrite !code_size_app. cbn. lia. }
  destruct (step5_pop cf funs _ _ _ _ _ _ _ _ _ _ _ B2 Hfe2 Hhp) as (m3 & A3 & B3 & C3 & D3).
  assert (HpK1 : ~ In (cn m) K1).
  { intro Hin. destruct (KEXT_in _ _ _ _ _ KX1 Hin) as [Hi|Hi]; [contradiction|lia]. }
  exists (1 + (n1 + 2)), m3, K1, HL1, G1, (show_mval (cv m1 c1) :: O1).
  split. { exists m0. split; [exact A0|]. apply (steps_trans cf funs n1 2 m0 m1 m3 S1). exists m2. split; [exact A2|now apply steps_one]. }
  split. { rewrite C3, D3, C2, D2.
           assert (ST1' : sto st1 K1 HL1 (upd (cv m1) (cn m) MNil) (cn m1) G1 O1) by (apply STON_temp with (cnx := cn m1); auto).
           destruct ST1' as [T1 T2 T3 T4 T5 T6]. constructor; cbn [s_cells s_globals s_out]; auto.
           rewrite (vrelN_show _ _ _ _ _ _ _ R1). now rewrite T6. }
  split. { apply (KEXT_widen K K1 (cn m0) (cn m1)); auto; lia. }
  split; [eapply HEXT_widen; eauto; lia|].
  split. { intros j Hj Hn. rewrite C3, C2. rewrite upd_other by lia. rewrite F1; [rewrite C0; apply upd_other; lia|lia|exact Hn]. }
  split; [lia|].
  exists CL, enb. split; [reflexivity|]. split.
  { replace (code_size pre + code_size (IGetGlobal GPrint :: ce ++ [ICall 1; IPop]))
      with (code_size (pre ++ [IGetGlobal GPrint]) + code_size ce + 2 + 1); [exact B3|].
    rewrite code_size_app. cbn [code_size isize]. rewrite code_size_app. cbn [code_size isize]. lia. }
  split. { rewrite <- (app_nil_r CL). eapply (LRBN_after K CL HL base Lm enb st m fn uvec _ frs G O K1 HL1 (cn m1) []); eauto.
           - apply (KEXT_widen K K1 (cn m0) (cn m1)); auto; lia.
           - eapply HEXT_widen; eauto; lia. }
  split; [exact HlenCL|]. split; [reflexivity|]. split; [exact HFLO|]. split; [apply EXT2_flags, flags_up_refl|auto].
Qed.

Lemma S_expr : forall fu, E_goal fu -> ET_goal fu -> L_goal fu -> forall e, S_at (S fu) (SExpr e).
Proof.
  intros fu IHE IHT IHL e hs infun top inloop enb envs st st' en' ctl He Hf L d U E fs pos lc code L' U' E' fs' Hc Hg Ht Hdl Hd0 Hsok Hfuns
         Lm Ufin Efin uvec K CL HL base HFB HU HF HC HlenCL m fn frs G O pre post lo Hcode Hpos Hlc Hfrs Hlo HFLO HM HS.
  unfold RES. cbn [stmt7] in Hf.
  cbn [exec_stmt] in He. destruct (eval_expr fu e (enb ++ List.concat envs)%list st) as [st1 rr] eqn:Ee.
  destruct rr as [v|xv| |]; try (inversion He; subst; destruct Hg as [[Hg|[? Hg]]|[[_ [Hg|Hg]]|[? Hg]]]; discriminate).
  2: { (* the expression throws *)
    inversion He; subst st' en' ctl. clear He Hg.
    cbn [nstmt] in Hc. destruct (nexpr cf L e U E) as [[[ce U1] E1]|] eqn:Ec; [|discriminate].
    inversion Hc; subst code L' U' E' fs'. clear Hc. rewrite Nat.sub_diag. cbn [skipn]. rewrite (mrg_same L Lm HFB).
    assert (HT : ETHR hs K CL HL base m fn uvec frs st1 xv).
    { apply (IHT hs e enb envs st st1 xv Ee Hf L U E ce U1 E1 Ec Lm Ufin Efin uvec K CL HL base HFB HU HF HC m fn frs G O pre ([IPop] ++ post)%list);
        [rewrite Hcode; now rewrite <- !app_assoc|exact HM|exact HS]. }
    exact (throw_out0 hs K CL HL base m fn uvec frs st st1 xv lo Lm enb _ G O HT Hlo HM HS
             (cx_lrb _ _ _ _ _ _ _ _ _ _ HC) (cx_len _ _ _ _ _ _ _ _ _ _ HC)). }
  inversion He; subst st' en' ctl. clear He Hg.
  cbn [nstmt] in Hc. destruct (nexpr cf L e U E) as [[[ce U1] E1]|] eqn:Ec; [|discriminate].
  inversion Hc; subst code L' U' E' fs'. clear Hc. rewrite ?(mrg_same L Lm HFB).
    pose proof (cx_lrb _ _ _ _ _ _ _ _ _ _ HC) as HLRB. pose proof (cx_len _ _ _ _ _ _ _ _ _ _ HC) as HlenC.
  destruct (IHE hs e enb envs st st1 v Ee Hf L U E ce U1 E1 Ec Lm Ufin Efin uvec K CL HL base HFB HU HF HC m fn frs G O pre ([IPop] ++ post)%list)
    as (n1 & m1 & K1 & HL1 & c1 & G1 & O1 & S1 & M1 & ST1 & KX1 & HX1 & R1 & B1 & N1 & NH1 & F1).
  { rewrite Hcode. now rewrite <- !app_assoc. }
  { exact HM. }
  { exact HS. }
  assert (Hfe : fetch (code_of funs fn) (code_size pre + code_size ce) = Some IPop).
  { eapply fetch_mid with (c2 := []) (post := post). exact Hcode. }
  destruct (step5_pop cf funs _ _ _ _ _ _ _ _ _ _ _ M1 Hfe NH1) as (m2 & A2 & B2 & C2 & D2).
  exists (n1 + 1), m2, K1, HL1, G1, O1.
  split. { apply (steps_trans cf funs n1 1 m m1 m2 S1). now apply steps_one. }
  split. { rewrite C2, D2. exact ST1. }
  split. { apply (KEXT_widen K K1 (cn m) (cn m1)); auto; lia. }
  split; [eapply HEXT_widen; eauto|].
  split. { intros j Hj Hn. rewrite C2. apply F1; auto. }
  split; [lia|].
  exists CL, enb. split; [reflexivity|]. split.
  { rewrite code_size_app. cbn [code_size isize]. replace (code_size pre + (code_size ce + (1 + 0))) with (code_size pre + code_size ce + 1) by lia. exact B2. }
  split. { rewrite <- (app_nil_r CL). eapply LRBN_after; eauto. }
  split; [exact HlenCL|]. split; [reflexivity|]. split; [exact HFLO|]. split; [apply EXT2_flags, flags_up_refl|auto].
Qed.

Lemma S_return : forall fu, E_goal fu -> ET_goal fu -> L_goal fu -> forall e, S_at (S fu) (SReturn e).
Proof.
  intros fu IHE IHT IHL e hs infun top inloop enb envs st st' en' ctl He Hf L d U E fs pos lc code L' U' E' fs' Hc Hg Ht Hdl Hd0 Hsok Hfuns
         Lm Ufin Efin uvec K CL HL base HFB HU HF HC HlenCL m fn frs G O pre post lo Hcode Hpos Hlc Hfrs Hlo HFLO HM HS.
  unfold RES. cbn [stmt7] in Hf.
  apply andb_prop in Hf as [Hfi Hf]. subst infun.
  destruct frs as [|[fn0 ups0 pc0 base0] frs']; [exfalso; now apply (Hfrs eq_refl)|].
  cbn [exec_stmt] in He. destruct (eval_expr fu e (enb ++ List.concat envs)%list st) as [st1 rr] eqn:Ee.
  destruct rr as [v|xv| |]; try (inversion He; subst; destruct Hg as [[Hg|[? Hg]]|[[_ [Hg|Hg]]|[? Hg]]]; discriminate).
  2: { (* the expression throws *)
    inversion He; subst st' en' ctl. clear He Hg.
    cbn [nstmt] in Hc. destruct (nexpr cf L e U E) as [[[ce U1] E1]|] eqn:Ec; [|discriminate].
    inversion Hc; subst code L' U' E' fs'. clear Hc. rewrite Nat.sub_diag. cbn [skipn]. rewrite (mrg_same L Lm HFB).
    assert (HT : ETHR hs K CL HL base m fn uvec (mkFrame fn0 ups0 pc0 base0 :: frs') st1 xv).
    { apply (IHT hs e enb envs st st1 xv Ee Hf L U E ce U1 E1 Ec Lm Ufin Efin uvec K CL HL base HFB HU HF HC m fn (mkFrame fn0 ups0 pc0 base0 :: frs') G O pre ([IReturn] ++ post)%list);
        [rewrite Hcode; now rewrite <- !app_assoc|exact HM|exact HS]. }
    exact (throw_out0 hs K CL HL base m fn uvec _ st st1 xv lo Lm enb _ G O HT Hlo HM HS
             (cx_lrb _ _ _ _ _ _ _ _ _ _ HC) (cx_len _ _ _ _ _ _ _ _ _ _ HC)). }
  inversion He; subst st' en' ctl. clear He Hg.
  cbn [nstmt] in Hc. destruct (nexpr cf L e U E) as [[[ce U1] E1]|] eqn:Ec; [|discriminate].
  inversion Hc; subst code L' U' E' fs'. clear Hc. rewrite ?(mrg_same L Lm HFB).
    pose proof (cx_lrb _ _ _ _ _ _ _ _ _ _ HC) as HLRB. pose proof (cx_len _ _ _ _ _ _ _ _ _ _ HC) as HlenC.
  destruct (IHE hs e enb envs st st1 v Ee Hf L U E ce U1 E1 Ec Lm Ufin Efin uvec K CL HL base HFB HU HF HC m fn (mkFrame fn0 ups0 pc0 base0 :: frs') G O pre ([IReturn] ++ post)%list)
    as (n1 & m1 & K1 & HL1 & c1 & G1 & O1 & S1 & M1 & ST1 & KX1 & HX1 & R1 & B1 & N1 & NH1 & F1).
  { rewrite Hcode. now rewrite <- !app_assoc. }
  { exact HM. }
  { exact HS. }
  assert (Hfe : fetch (code_of funs fn) (code_size pre + code_size ce) = Some IReturn).
  { eapply fetch_mid with (c2 := []) (post := post). exact Hcode. }
  destruct (step5_return cf funs _ _ _ _ _ _ _ _ _ _ _ _ _ _ _ M1 Hfe ltac:(lia) NH1) as (m2 & A2 & B2 & C2 & D2).
  destruct (sto_push _ _ _ _ _ _ _ _ ST1 C2 D2) as (S21 & S22 & S23).
  exists (n1 + 1), m2, K1, HL1, G1, O1.
  split. { apply (steps_trans cf funs n1 1 m m1 m2 S1). now apply steps_one. }
  split; [exact S21|].
  split. { apply (KEXT_widen K K1 (cn m) (cn m1)); auto; lia. }
  split; [eapply HEXT_widen; eauto|].
  split. { intros j Hj Hn. rewrite C2, upd_other by lia. apply F1; auto. }
  split; [lia|].
  exists fn0, ups0, pc0, base0, frs', (cn m1). split; [reflexivity|]. split; [exact B2|]. split; [rewrite C2, upd_same; exact R1|]. split; [lia|].
  split; [exact S22|]. apply (notin_HL_fresh _ _ _ _ _ _ _ _ _ _ (cn m1) M1). lia.
Qed.

Lemma S_fun : forall fu, E_goal fu -> ET_goal fu -> L_goal fu -> forall f ps b, S_at (S fu) (SFun f ps b).
Proof.
  intros fu IHE IHT IHL f ps b hs infun top inloop enb envs st st' en' ctl He Hf L d U E fs pos lc code L' U' E' fs' Hc Hg Ht Hdl Hd0 Hsok Hfuns
         Lm Ufin Efin uvec K CL HL base HFB HU HF HC HlenCL m fn frs G O pre post lo Hcode Hpos Hlc Hfrs Hlo HFLO HM HS.
  unfold RES. cbn [stmt7] in Hf.
  cbn [exec_stmt] in He. rewrite Ht in He.
  rewrite nstmt_fun in Hc. destruct (d =? 0) eqn:Ed.
  + (* a global function *)
    apply Nat.eqb_eq in Ed. destruct (Hd0 Ed) as [-> ->].
    destruct (nfunc cf ps b L U E fs) as [[[[[ci L1] U1] E1] fs1]|] eqn:Ef; [|discriminate]. inversion Hc; subst code L' U' E' fs'. clear Hc.
    inversion He; subst st' en' ctl. clear He Hg.
    destruct (nfunc_ok cf ps b (forallb_stmt7_stmt7u _ _ _ _ _ Hf) _ _ _ _ _ _ _ _ _ Ef) as (_ & _ & HFl0).
    pose proof (flags_up_length _ _ HFl0) as HlenL1.
    rewrite (mrg_same_len L L1 Lm HlenL1). set (Lb' := orf L1 Lm).
    assert (HFB' : flags_up L1 Lb') by (eapply flags_up_orf_l; eauto).
    assert (HFBm : flags_up Lm Lb') by (apply flags_up_orf_r; rewrite HlenL1, <- (flags_up_length _ _ HFB); reflexivity).
    apply (fun H => CTX_flags _ _ _ _ _ _ _ _ _ _ _ H HFBm) in HC.
    pose proof (cx_lrb _ _ _ _ _ _ _ _ _ _ HC) as HLRB. pose proof (cx_len _ _ _ _ _ _ _ _ _ _ HC) as HlenC.
    pose proof (flags_up_length _ _ HFB') as HlenLb.
    assert (HLRp : LRBN K (CL ++ [cn m]) HL base Lb' []) by (apply LRBN_CL with (CL := CL); [exact HLRB|intros i Hi; apply app_nth1; lia]).
    destruct (closure_here K CL HL base L Lb' [] U E fs ps b ci L1 U1 E1 fs1 Ufin Efin [] uvec m fn frs G O pre ([IDefineGlobal f] ++ post)%list lo
                Ef Hf Hsok Hfuns HU HF (cx_envs _ _ _ _ _ _ _ _ _ _ HC) (cx_ur _ _ _ _ _ _ _ _ _ _ HC) (cx_cells _ _ _ _ _ _ _ _ _ _ HC) HFB' HLRp
                ltac:(rewrite app_length; lia) HM Hcode ltac:(apply FLO_snoc; [exact HFLO|lia]))
      as (m1 & HL1 & fnc & Uv & A1 & B1 & C1 & D1 & HX1 & Hmem & Rv & LR1 & HFl).
    pose proof (m5_s _ _ _ _ _ _ _ _ _ _ _ HM) as SK.
    assert (Hnot : ~ In (cn m) HL1).
    { intro Hin. destruct (Hmem _ Hin) as [H1|(s0 & Hs0 & Es0)].
      - pose proof (s2_hl_lt _ _ _ SK _ H1). unfold cn in *. lia.
      - rewrite app_nth1 in Es0 by lia. assert (Hin0 : In (cn m) CL) by (rewrite Es0; apply nth_In; lia).
        pose proof (s2_cl_lt _ _ _ SK _ Hin0). unfold cn in *. lia. }
    assert (Hfe2 : fetch (code_of funs fn) (code_size pre + code_size [ci]) = Some (IDefineGlobal f)).
    { eapply fetch_mid with (c2 := []) (post := post). exact Hcode. }
    destruct (step5_defglobal cf funs _ _ _ _ _ _ _ _ _ _ _ _ B1 Hfe2 Hnot) as (m2 & A2 & B2 & C2 & D2).
    assert (HnK : ~ In (cn m) K) by (intro Hin; pose proof (sto_K_lt _ _ _ _ _ _ _ HS Hin); lia).
    assert (ST1 : sto st K HL1 (cv m1) (cn m1) G O).
    { apply STON_ext with (f := upd (cv m) (cn m) (MClo fnc Uv)); [exact C1|]. rewrite D1.
      apply STON_temp with (cnx := cn m); [apply STON_HL with (HL := HL); [exact HS|eapply HEXT_ext; eauto]|exact HnK|lia]. }
    exists 2, m2, K, HL1, (set_assoc G f (cv m1 (cn m))), O.
    split. { exists m1. split; [exact A1|now apply steps_one]. }
    split. { rewrite C2, D2. apply STON_global; auto. rewrite C1, upd_same. exact Rv. }
    split. { exists []. rewrite app_nil_r. split; [reflexivity|intros k []]. }
    split; [exact HX1|].
    split. { intros j Hj Hn. rewrite C2, C1. apply upd_other. lia. }
    split; [lia|].
    exists CL, []. split; [reflexivity|]. split.
    { replace (code_size pre + code_size [ci; IDefineGlobal f]) with (code_size pre + code_size [ci] + 3); [exact B2|]. cbn [code_size isize]. lia. }
    split. { apply LRBN_CL with (CL := (CL ++ [cn m])%list); [exact LR1|]. intros i Hi. symmetry. apply app_nth1. lia. }
    split; [lia|]. split; [reflexivity|]. split; [exact HFLO|]. split; [now apply EXT2_flags|auto].
  + (* a local function: may call and capture itself *)
    destruct (dup_in_scope L f d); [discriminate|]. destruct (List.length L =? c_locals_max cf); [discriminate|].
    destruct (nfunc cf ps b (mkLocal (Some f) (Some d) false :: L) U E fs) as [[[[[ci L1] U1] E1] fs1]|] eqn:Ef; [|discriminate].
    inversion Hc; subst code L' U' E' fs'. clear Hc.
    unfold new_cell in He. cbn [fst snd] in He. inversion He; subst st' en' ctl. clear He Hg.
    destruct (nfunc_ok cf ps b (forallb_stmt7_stmt7u _ _ _ _ _ Hf) _ _ _ _ _ _ _ _ _ Ef) as (_ & _ & HFl0).
    inversion HFl0 as [|l00 l0' ? L0 (En0 & Ed0' & _) HFl']; subst. cbn in En0, Ed0'.
    destruct l0' as [nb db bb]. cbn in En0, Ed0'. subst nb db.
    pose proof (flags_up_length _ _ HFl') as HlenL0.
    rewrite (mrg_cons L _ L0 Lm HlenL0). set (Lb0 := orf L0 Lm).
    assert (HFB0 : flags_up L0 Lb0) by (eapply flags_up_orf_l; eauto).
    assert (HFBm : flags_up Lm Lb0) by (apply flags_up_orf_r; rewrite HlenL0, <- (flags_up_length _ _ HFB); reflexivity).
    assert (HFB' : flags_up (mkLocal (Some f) (Some d) bb :: L0) (mkLocal (Some f) (Some d) bb :: Lb0)).
    { constructor; [repeat split; auto|exact HFB0]. }
    pose proof (flags_up_length _ _ HFB0) as HlenLb0.
    apply (fun H => CTX_flags _ _ _ _ _ _ _ _ _ _ _ H HFBm) in HC.
    pose proof (cx_lrb _ _ _ _ _ _ _ _ _ _ HC) as HLRB. pose proof (cx_len _ _ _ _ _ _ _ _ _ _ HC) as HlenC.
    pose proof (m5_s _ _ _ _ _ _ _ _ _ _ _ HM) as SK.
    pose proof (stn_len _ _ _ _ _ _ _ _ _ _ HS) as HlenK.
    set (c := List.length (s_cells st)) in *.
    assert (HnK : ~ In (cn m) K) by (intro Hin; pose proof (sto_K_lt _ _ _ _ _ _ _ HS Hin); lia).
    assert (HnHL : ~ In (cn m) HL) by (intro Hin; pose proof (s2_hl_lt _ _ _ SK _ Hin); unfold cn in *; lia).
    assert (HK1 : exists e, (K ++ [cn m])%list = (K ++ e)%list) by eauto.
    assert (HLR1 : LRBN (K ++ [cn m]) (CL ++ [cn m]) HL base (mkLocal (Some f) (Some d) bb :: Lb0) ((f, c) :: enb)).
    { constructor.
      - apply LRBN_K with (K := K); [|exact HK1]. apply LRBN_CL with (CL := CL); [exact HLRB|intros i Hi; apply app_nth1; lia].
      - rewrite app_length. cbn. lia.
      - unfold kc. rewrite HlenLb0, HlenL0, <- HlenCL, nth_middle. rewrite <- HlenK, nth_middle. reflexivity.
      - unfold kc. rewrite <- HlenK, nth_middle. intro Hin. contradiction. }
    destruct (closure_here (hs := hs) (K ++ [cn m])%list CL HL base (mkLocal (Some f) (Some d) false :: L) (mkLocal (Some f) (Some d) bb :: Lb0) ((f, c) :: enb)
                U E fs ps b ci (mkLocal (Some f) (Some d) bb :: L0) U1 E1 fs1 Ufin Efin envs uvec m fn frs G O pre post lo
                Ef Hf Hsok Hfuns HU HF (cx_envs _ _ _ _ _ _ _ _ _ _ HC))
      as (m1 & HL1 & fnc & Uv & A1 & B1 & C1 & D1 & HX1 & Hmem & Rv & LR1 & HFl); auto.
    { eapply UR_mono; [apply (cx_ur _ _ _ _ _ _ _ _ _ _ HC)|exact HK1|exists []; now rewrite app_nil_r]. }
    { intros x0 c0 Hin. rewrite app_length. pose proof (cx_cells _ _ _ _ _ _ _ _ _ _ HC _ _ Hin). lia. }
    { rewrite app_length. cbn [List.length]. lia. }
    { apply FLO_snoc; [exact HFLO|lia]. }
    exists 1, m1, (K ++ [cn m])%list, HL1, G, O.
    split; [now apply steps_one|].
    split.
    { assert (Est : ScopeLang.set_cell (fst (mkSst (s_cells st ++ [SVNil]) (s_globals st) (s_vecs st) (s_out st), c)) c
                      (SVClo ps b ((f, c) :: enb ++ List.concat envs)) = fst (new_cell st (SVClo ps b ((f, c) :: enb ++ List.concat envs)))).
      { unfold new_cell, ScopeLang.set_cell. cbn [fst s_cells s_globals s_vecs s_out]. unfold c. now rewrite set_nth_snoc. }
      cbn [fst] in Est. rewrite Est.
      apply STON_ext with (f := upd (cv m) (cn m) (MClo fnc Uv)); [exact C1|].
      rewrite D1. apply STON_new; [|exact HnK|lia|rewrite upd_same; exact Rv].
      apply STON_temp with (cnx := cn m); [apply STON_HL with (HL := HL); [exact HS|eapply HEXT_ext; eauto]|exact HnK|lia]. }
    split. { exists [cn m]. split; [reflexivity|]. intros k [<-|[]]. lia. }
    split; [exact HX1|].
    split. { intros j Hj Hn. rewrite C1. apply upd_other. lia. }
    split; [lia|].
    exists (CL ++ [cn m])%list, ((f, c) :: enb). split; [reflexivity|]. split; [exact B1|]. split; [exact LR1|].
    split; [rewrite app_length; cbn [List.length]; lia|]. split; [apply firstn_app_le; lia|].
    split; [apply FLO_snoc; [exact HFLO|lia]|].
    split. { exists [mkLocal (Some f) (Some d) bb], [(f, c)], L0. repeat split; auto. constructor; [split; [reflexivity|discriminate]|constructor]. }
    intro Hd00. subst d. discriminate.
Qed.

Lemma S_lam : forall fu, E_goal fu -> ET_goal fu -> L_goal fu -> forall x ps b, S_at (S fu) (SLam x ps b).
Proof.
  intros fu IHE IHT IHL x ps b hs infun top inloop enb envs st st' en' ctl He Hf L d U E fs pos lc code L' U' E' fs' Hc Hg Ht Hdl Hd0 Hsok Hfuns
         Lm Ufin Efin uvec K CL HL base HFB HU HF HC HlenCL m fn frs G O pre post lo Hcode Hpos Hlc Hfrs Hlo HFLO HM HS.
  unfold RES. cbn [stmt7] in Hf.
  apply andb_prop in Hf as [Hfb Hfm].
  cbn [exec_stmt] in He. unfold declare in He. rewrite Ht in He, Hfm.
  rewrite nstmt_lam in Hc. destruct (d =? 0) eqn:Ed.
  + (* a global function value *)
    apply Nat.eqb_eq in Ed. destruct (Hd0 Ed) as [-> ->].
    destruct (nfunc cf ps b L U E fs) as [[[[[ci L1] U1] E1] fs1]|] eqn:Ef; [|discriminate]. inversion Hc; subst code L' U' E' fs'. clear Hc.
    inversion He; subst st' en' ctl. clear He Hg.
    destruct (nfunc_ok cf ps b (forallb_stmt7_stmt7u _ _ _ _ _ Hfb) _ _ _ _ _ _ _ _ _ Ef) as (_ & _ & HFl0).
    pose proof (flags_up_length _ _ HFl0) as HlenL1.
    rewrite (mrg_same_len L L1 Lm HlenL1). set (Lb' := orf L1 Lm).
    assert (HFB' : flags_up L1 Lb') by (eapply flags_up_orf_l; eauto).
    assert (HFBm : flags_up Lm Lb') by (apply flags_up_orf_r; rewrite HlenL1, <- (flags_up_length _ _ HFB); reflexivity).
    apply (fun H => CTX_flags _ _ _ _ _ _ _ _ _ _ _ H HFBm) in HC.
    pose proof (cx_lrb _ _ _ _ _ _ _ _ _ _ HC) as HLRB. pose proof (cx_len _ _ _ _ _ _ _ _ _ _ HC) as HlenC.
    pose proof (flags_up_length _ _ HFB') as HlenLb.
    assert (HLRp : LRBN K (CL ++ [cn m]) HL base Lb' []) by (apply LRBN_CL with (CL := CL); [exact HLRB|intros i Hi; apply app_nth1; lia]).
    destruct (closure_here K CL HL base L Lb' [] U E fs ps b ci L1 U1 E1 fs1 Ufin Efin [] uvec m fn frs G O pre ([IDefineGlobal x] ++ post)%list lo
                Ef Hfb Hsok Hfuns HU HF (cx_envs _ _ _ _ _ _ _ _ _ _ HC) (cx_ur _ _ _ _ _ _ _ _ _ _ HC) (cx_cells _ _ _ _ _ _ _ _ _ _ HC) HFB' HLRp
                ltac:(rewrite app_length; lia) HM Hcode ltac:(apply FLO_snoc; [exact HFLO|lia]))
      as (m1 & HL1 & fnc & Uv & A1 & B1 & C1 & D1 & HX1 & Hmem & Rv & LR1 & HFl).
    pose proof (m5_s _ _ _ _ _ _ _ _ _ _ _ HM) as SK.
    assert (Hnot : ~ In (cn m) HL1).
    { intro Hin. destruct (Hmem _ Hin) as [H1|(s0 & Hs0 & Es0)].
      - pose proof (s2_hl_lt _ _ _ SK _ H1). unfold cn in *. lia.
      - rewrite app_nth1 in Es0 by lia. assert (Hin0 : In (cn m) CL) by (rewrite Es0; apply nth_In; lia).
        pose proof (s2_cl_lt _ _ _ SK _ Hin0). unfold cn in *. lia. }
    assert (Hfe2 : fetch (code_of funs fn) (code_size pre + code_size [ci]) = Some (IDefineGlobal x)).
    { eapply fetch_mid with (c2 := []) (post := post). exact Hcode. }
    destruct (step5_defglobal cf funs _ _ _ _ _ _ _ _ _ _ _ _ B1 Hfe2 Hnot) as (m2 & A2 & B2 & C2 & D2).
    assert (HnK : ~ In (cn m) K) by (intro Hin; pose proof (sto_K_lt _ _ _ _ _ _ _ HS Hin); lia).
    exists 2, m2, K, HL1, (set_assoc G x (cv m1 (cn m))), O.
    split. { exists m1. split; [exact A1|now apply steps_one]. }
    split. { rewrite C2, D2. apply STON_global; [|rewrite C1, upd_same; exact Rv].
             apply STON_ext with (f := upd (cv m) (cn m) (MClo fnc Uv)); [exact C1|]. rewrite D1.
             apply STON_temp with (cnx := cn m); [apply STON_HL with (HL := HL); [exact HS|eapply HEXT_ext; eauto]|exact HnK|lia]. }
    split. { exists []. rewrite app_nil_r. split; [reflexivity|intros k []]. }
    split; [exact HX1|].
    split. { intros j Hj Hn. rewrite C2, C1. apply upd_other. lia. }
    split; [lia|].
    exists CL, []. split; [reflexivity|]. split.
    { replace (code_size pre + code_size [ci; IDefineGlobal x]) with (code_size pre + code_size [ci] + 3); [exact B2|]. cbn [code_size isize]. lia. }
    split. { apply LRBN_CL with (CL := (CL ++ [cn m])%list); [exact LR1|]. intros i Hi. symmetry. apply app_nth1. lia. }
    split; [lia|]. split; [reflexivity|]. split; [exact HFLO|]. split; [now apply EXT2_flags|auto].
  + (* a local holding the closure *)
    cbn [orb] in Hfm. apply negb_true_iff in Hfm.
    destruct (dup_in_scope L x d); [discriminate|]. destruct (List.length L =? c_locals_max cf); [discriminate|].
    destruct (nfunc cf ps b (mkLocal (Some x) None false :: L) U E fs) as [[[[[ci L1] U1] E1] fs1]|] eqn:Ef0; [|discriminate].
    destruct (nfunc_drop0 cf x ps b L U E fs ci L1 U1 E1 fs1 (forallb_stmt7_stmt7u _ _ _ _ _ Hfb) Hfm Ef0) as (L1' & -> & Ef).
    cbn [l_capt] in Hc. inversion Hc; subst code L' U' E' fs'. clear Hc.
    unfold new_cell in He. inversion He; subst st' en' ctl. clear He Hg.
    destruct (nfunc_ok cf ps b (forallb_stmt7_stmt7u _ _ _ _ _ Hfb) _ _ _ _ _ _ _ _ _ Ef) as (_ & _ & HFl0).
    pose proof (flags_up_length _ _ HFl0) as HlenL1.
    rewrite (mrg_cons L _ L1' Lm HlenL1). set (Lb0 := orf L1' Lm).
    assert (HFB0 : flags_up L1' Lb0) by (eapply flags_up_orf_l; eauto).
    assert (HFBm : flags_up Lm Lb0) by (apply flags_up_orf_r; rewrite HlenL1, <- (flags_up_length _ _ HFB); reflexivity).
    pose proof (flags_up_length _ _ HFB0) as HlenLb0.
    apply (fun H => CTX_flags _ _ _ _ _ _ _ _ _ _ _ H HFBm) in HC.
    pose proof (cx_lrb _ _ _ _ _ _ _ _ _ _ HC) as HLRB. pose proof (cx_len _ _ _ _ _ _ _ _ _ _ HC) as HlenC.
    assert (HLRp : LRBN K (CL ++ [cn m]) HL base Lb0 enb) by (apply LRBN_CL with (CL := CL); [exact HLRB|intros i Hi; apply app_nth1; lia]).
    destruct (closure_here K CL HL base L Lb0 enb U E fs ps b ci L1' U1 E1 fs1 Ufin Efin envs uvec m fn frs G O pre post lo
                Ef Hfb Hsok Hfuns HU HF (cx_envs _ _ _ _ _ _ _ _ _ _ HC) (cx_ur _ _ _ _ _ _ _ _ _ _ HC) (cx_cells _ _ _ _ _ _ _ _ _ _ HC) HFB0 HLRp
                ltac:(rewrite app_length; lia) HM Hcode ltac:(apply FLO_snoc; [exact HFLO|lia]))
      as (m1 & HL1 & fnc & Uv & A1 & B1 & C1 & D1 & HX1 & Hmem & Rv & LR1 & HFl).
    pose proof (m5_s _ _ _ _ _ _ _ _ _ _ _ HM) as SK.
    assert (Hnot : ~ In (cn m) HL1).
    { intro Hin. destruct (Hmem _ Hin) as [H1|(s0 & Hs0 & Es0)].
      - pose proof (s2_hl_lt _ _ _ SK _ H1). unfold cn in *. lia.
      - rewrite app_nth1 in Es0 by lia. assert (Hin0 : In (cn m) CL) by (rewrite Es0; apply nth_In; lia).
        pose proof (s2_cl_lt _ _ _ SK _ Hin0). unfold cn in *. lia. }
    pose proof (stn_len _ _ _ _ _ _ _ _ _ _ HS) as HlenK.
    assert (HnK : ~ In (cn m) K) by (intro Hin; pose proof (sto_K_lt _ _ _ _ _ _ _ HS Hin); lia).
    assert (HK1 : exists e, (K ++ [cn m])%list = (K ++ e)%list) by eauto.
    assert (ST1 : sto st K HL1 (cv m1) (cn m1) G O).
    { apply STON_ext with (f := upd (cv m) (cn m) (MClo fnc Uv)); [exact C1|]. rewrite D1.
      apply STON_temp with (cnx := cn m); [apply STON_HL with (HL := HL); [exact HS|eapply HEXT_ext; eauto]|exact HnK|lia]. }
    exists 1, m1, (K ++ [cn m])%list, HL1, G, O.
    split; [now apply steps_one|].
    split. { apply (STON_new cf funs jumps st K HL1 (cv m1) (cn m1) G O (cn m) _ ST1 HnK ltac:(lia)). rewrite C1, upd_same.
             apply (vrelN_mono cf funs jumps K HL1 (K ++ [cn m])%list HL1 _ _ Rv HK1). exists []. now rewrite app_nil_r. }
    split. { exists [cn m]. split; [reflexivity|]. intros k [<-|[]]. lia. }
    split; [exact HX1|].
    split. { intros j Hj Hn. rewrite C1. apply upd_other. lia. }
    split; [lia|].
    exists (CL ++ [cn m])%list, ((x, List.length (s_cells st)) :: enb). split; [reflexivity|]. split; [exact B1|].
    split.
    { constructor.
      - apply LRBN_K with (K := K); [exact LR1|exact HK1].
      - rewrite app_length. cbn. lia.
      - rewrite HlenLb0, HlenL1, <- HlenCL, nth_middle. unfold kc. rewrite <- HlenK, nth_middle. reflexivity.
      - unfold kc. rewrite <- HlenK, nth_middle. intro Hin. contradiction. }
    split; [rewrite app_length; cbn [List.length]; lia|]. split; [apply firstn_app_le; lia|].
    split; [apply FLO_snoc; [exact HFLO|lia]|].
    split. { exists [mkLocal (Some x) (Some d) false], [(x, List.length (s_cells st))], L1'. repeat split; auto.
             constructor; [split; [reflexivity|discriminate]|constructor]. }
    intro Hd00. subst d. discriminate.
Qed.

Lemma S_break : forall fu, E_goal fu -> ET_goal fu -> L_goal fu -> S_at (S fu) (SBreak).
Proof.
  intros fu IHE IHT IHL  hs infun top inloop enb envs st st' en' ctl He Hf L d U E fs pos lc code L' U' E' fs' Hc Hg Ht Hdl Hd0 Hsok Hfuns
         Lm Ufin Efin uvec K CL HL base HFB HU HF HC HlenCL m fn frs G O pre post lo Hcode Hpos Hlc Hfrs Hlo HFLO HM HS.
  unfold RES. cbn [stmt7] in Hf.
  cbn [exec_stmt] in He. inversion He; subst st' en' ctl. clear He.
  cbn [nstmt] in Hc. destruct lc as [l|]; [|discriminate]. cbv zeta in Hc. inversion Hc; subst code L' U' E' fs'. clear Hc.
  rewrite (mrg_same L Lm HFB).
  destruct (Hlc l eq_refl) as (W1 & W2 & W3 & W4).
  pose proof (cx_lrb _ _ _ _ _ _ _ _ _ _ HC) as HLRB.
  set (ops := scope_end_ops L (lc_depth l)) in *. set (o := lc_exit l - (pos + code_size ops + 3)) in *.
  destruct (scope_cut_run (lc_depth l) L K CL HL base Lm enb m fn uvec frs pre ([IJump o] ++ post)%list G O HLRB HFB W4 HlenCL
              ltac:(fold ops; rewrite Hcode; now rewrite <- app_assoc) HM) as (m1 & S1 & M1 & C1 & D1 & LR1).
  fold ops in S1, M1.
  assert (Hfe : fetch (code_of funs fn) (code_size pre + code_size ops) = Some (IJump o)).
  { eapply fetch_mid with (c2 := []) (post := post). exact Hcode. }
  destruct (step5_jump cf funs _ _ _ _ _ _ _ _ _ _ _ M1 Hfe) as (m2 & A2 & B2 & C2 & D2).
  rewrite code_size_app in W3. cbn [code_size isize] in W3.
  replace (code_size pre + code_size ops + 3 + o) with (lc_exit l) in B2 by (unfold o; rewrite Hpos; lia).
  exists (List.length ops + 1), m2, K, HL, G, O.
  split; [eapply steps_trans; [exact S1|now apply steps_one]|]. split; [rewrite C2, D2, C1, D1; exact HS|].
  split; [rewrite D2, D1; apply KEXT_refl|]. split; [apply HEXT_refl|]. split; [intros j Hj Hn; rewrite C2, C1; reflexivity|]. split; [lia|].
  exists l. split; [reflexivity|]. split; [exact B2|exact LR1].
Qed.

Lemma S_continue : forall fu, E_goal fu -> ET_goal fu -> L_goal fu -> S_at (S fu) (SContinue).
Proof.
  intros fu IHE IHT IHL  hs infun top inloop enb envs st st' en' ctl He Hf L d U E fs pos lc code L' U' E' fs' Hc Hg Ht Hdl Hd0 Hsok Hfuns
         Lm Ufin Efin uvec K CL HL base HFB HU HF HC HlenCL m fn frs G O pre post lo Hcode Hpos Hlc Hfrs Hlo HFLO HM HS.
  unfold RES. cbn [stmt7] in Hf.
  cbn [exec_stmt] in He. inversion He; subst st' en' ctl. clear He.
  cbn [nstmt] in Hc. destruct lc as [l|]; [|discriminate]. cbv zeta in Hc. inversion Hc; subst code L' U' E' fs'. clear Hc.
  rewrite (mrg_same L Lm HFB).
  destruct (Hlc l eq_refl) as (W1 & W2 & W3 & W4).
  pose proof (cx_lrb _ _ _ _ _ _ _ _ _ _ HC) as HLRB.
  set (ops := scope_end_ops L (lc_depth l)) in *. set (o := pos + code_size ops + 3 - lc_start l) in *.
  destruct (scope_cut_run (lc_depth l) L K CL HL base Lm enb m fn uvec frs pre ([ILoop o] ++ post)%list G O HLRB HFB W4 HlenCL
              ltac:(fold ops; rewrite Hcode; now rewrite <- app_assoc) HM) as (m1 & S1 & M1 & C1 & D1 & LR1).
  fold ops in S1, M1.
  assert (Hfe : fetch (code_of funs fn) (code_size pre + code_size ops) = Some (ILoop o)).
  { eapply fetch_mid with (c2 := []) (post := post). exact Hcode. }
  destruct (step5_loop cf funs _ _ _ _ _ _ _ _ _ _ _ M1 Hfe) as (m2 & A2 & B2 & C2 & D2).
  replace (code_size pre + code_size ops + 3 - o) with (lc_start l) in B2 by (unfold o; rewrite Hpos; lia).
  exists (List.length ops + 1), m2, K, HL, G, O.
  split; [eapply steps_trans; [exact S1|now apply steps_one]|]. split; [rewrite C2, D2, C1, D1; exact HS|].
  split; [rewrite D2, D1; apply KEXT_refl|]. split; [apply HEXT_refl|]. split; [intros j Hj Hn; rewrite C2, C1; reflexivity|]. split; [lia|].
  exists l. split; [reflexivity|]. split; [exact B2|exact LR1].
Qed.

Lemma block_run {hs : list handler} : forall fu, L_goal fu -> forall b infun inloop enb envs st st1 en1 ctl,
  exec_list fu b (enb ++ List.concat envs)%list false st = (st1, en1, ctl) -> forallb (stmt7 jumps infun false inloop) b = true ->
  forall L d U E fs pos lc code L' U' E' fs', nblk cf b d L U E fs pos lc = Some (code, L', U', E', fs') -> goodl lc ctl ->
  depth_le d L -> stack_ok U E -> (exists ext, funs = (fs' ++ ext)%list) ->
  forall Lm Ufin Efin uvec K CL HL base, flags_up L Lm -> (exists ext, Ufin = (U' ++ ext)%list) -> levs_up E' Efin ->
  CTX K CL HL base Lm enb Efin envs Ufin uvec -> List.length CL = base + List.length L ->
  forall m fn frs G O pre post lo, code_of funs fn = (pre ++ code ++ post)%list -> pos = code_size pre ->
  LCOK lc (S d) L Lm (code_size pre) (code_size pre + code_size code) ->
  (infun = true -> frs <> []) -> lo <= cn m -> FLO lo base CL ->
  MS5 hs m fn uvec (code_size pre) base frs CL HL G O -> sto st K HL (cv m) (cn m) G O ->
  RES hs infun lo d L enb envs K CL HL base m fn uvec (code_size pre + code_size code) frs st1 (enb ++ List.concat envs)%list ctl L' (mrg L L' Lm) lc.
Proof.
  intros fu IHL b infun inloop enb envs st st1 en1 ctl El Hf L d U E fs pos lc code L' U' E' fs' Hc Hg Hdl Hsok Hfuns
         Lm Ufin Efin uvec K CL HL base HFB HU HF HC HlenCL m fn frs G O pre post lo Hcode Hpos Hlc Hfrs Hlo HFLO HM HS.
  unfold nblk in Hc. destruct (nlist cf b (S d) L U E fs pos lc) as [[[[[cb L1] U1] E1] fs1]|] eqn:Cl; [|discriminate].
  cbv zeta in Hc.
  destruct (nlist_ok cf b (forallb_stmt7_stmt7u _ _ _ _ _ Hf) _ _ _ _ _ _ _ _ _ _ _ _ Cl (depth_le_S _ _ Hdl)) as (_ & _ & (N & L0 & EL1 & HFl & HD)).
  subst L1. pose proof (flags_up_depth_le _ _ _ HFl Hdl) as Hd0'. pose proof (flags_up_length _ _ HFl) as HlenL0.
  rewrite (scope_end_len N L0 d Hd0' HD), skipn_app_len in Hc. inversion Hc; subst code L' U' E' fs'. clear Hc.
  set (Lb' := orf L0 Lm).
  assert (HFB' : flags_up L0 Lb') by (eapply flags_up_orf_l; eauto).
  pose proof (flags_up_depth_le _ _ _ HFB' Hd0') as HdLb.
  assert (Emrg1 : mrg L (N ++ L0) Lm = (N ++ Lb')%list) by (apply mrg_lext; exact HlenL0).
  assert (Emrg0 : mrg L L0 Lm = Lb') by (apply mrg_same_len; exact HlenL0).
  rewrite Emrg0.
  unfold RES.
  assert (Hlc' : LCOK lc (S d) L Lm (code_size pre) (code_size pre + code_size cb)).
  { intros l El0. destruct (Hlc l El0) as (A1 & A2 & A3 & A4). rewrite code_size_app in A3. repeat split; auto; lia. }
  destruct (IHL hs b infun false inloop enb envs st st1 en1 ctl El Hf L (S d) U E fs pos lc cb (N ++ L0)%list U1 E1 fs1 Cl Hg eq_refl (depth_le_S _ _ Hdl)
              ltac:(discriminate) Hsok Hfuns Lm Ufin Efin uvec K CL HL base HFB HU HF HC HlenCL
              m fn frs G O pre (scope_end_ops (N ++ L0) d ++ post)%list lo)
    as (n1 & m1 & K1 & HL1 & G1 & O1 & S1 & ST1 & KX1 & HX1 & F1 & Hcn1 & Hres); auto.
  { rewrite Hcode. now rewrite <- app_assoc. }
  rewrite Emrg1 in Hres.
  assert (Hjmp : forall l, lc = Some l -> cutL (lc_depth l) (N ++ Lb') = cutL (lc_depth l) Lb').
  { intros l El0. destruct (Hlc l El0) as (A1 & _). apply cutL_app_deeper. apply (Forall_deeper_d _ (S d)); [exact A1|exact HD]. }
  destruct ctl as [| | |w| | |]; try (destruct Hg as [[Hg|[? Hg]]|[[_ [Hg|Hg]]|[? Hg]]]; discriminate).
  - destruct Hres as (CL1 & enb1 & -> & M1 & LR1 & Len1 & Hfirst1 & HFLO1 & (N2 & Ne & L02 & EN2 & HFl2 & -> & HNlen & HN) & _).
    destruct (app_inv_len _ _ _ _ _ EN2 ltac:(rewrite HlenL0, (flags_up_length _ _ HFl2); reflexivity)) as [<- <-].
    assert (HN' : Forall (fun l => l_depth l = Some (S d) /\ l_name l <> None) N) by exact HN.
    assert (HNn : Forall (fun l => l_name l <> None) N) by (revert HN; apply Forall_impl; intros l [_ A]; exact A).
    assert (Len1' : List.length CL1 = base + List.length (N ++ Lb')).
    { rewrite Len1, !app_length, (flags_up_length _ _ HFB'). reflexivity. }
    destruct (scope_end_run (hs := hs) N K1 CL1 HL1 base Lb' Ne enb d m1 fn uvec frs (pre ++ cb)%list post G1 O1 LR1 HNlen Len1' HN' HdLb)
      as (m2 & S2 & M2 & C2 & D2).
    { rewrite (scope_end_ops_tail N Lb' L0 d HD HdLb Hd0'). rewrite Hcode. now rewrite <- !app_assoc. }
    { rewrite code_size_app. exact M1. }
    rewrite (scope_end_ops_tail N Lb' L0 d HD HdLb Hd0') in M2.
    pose proof (flags_up_length _ _ HFB') as HlenLb.
    exists (n1 + List.length N), m2, K1, HL1, G1, O1.
    split; [eapply steps_trans; eauto|]. split; [rewrite C2, D2; exact ST1|]. split; [rewrite D2; exact KX1|].
    split; [exact HX1|].
    split; [intros j Hj Hn; rewrite C2; apply F1; auto|]. split; [lia|].
    exists (firstn (base + List.length Lb') CL1), enb. split; [reflexivity|]. split.
    { rewrite !code_size_app in *. rewrite Nat.add_assoc. exact M2. }
    split.
    { apply LRBN_drop in LR1; auto. apply LRBN_CL with (CL := CL1); [exact LR1|].
      intros i Hi. now apply nth_firstn_lt. }
    split. { rewrite firstn_length, Len1, app_length. lia. }
    split. { rewrite HlenLb, HlenL0. rewrite firstn_firstn_le by lia. exact Hfirst1. }
    split; [now apply FLO_firstn|]. split; [now apply EXT2_flags|auto].
  - (* break: the scope-end ops of the break itself popped the block's locals *)
    exists n1, m1, K1, HL1, G1, O1. split; [exact S1|]. split; [exact ST1|]. split; [exact KX1|]. split; [exact HX1|]. split; [exact F1|].
    split; [lia|]. destruct Hres as (l & El0 & Q1 & Q2). exists l. split; [exact El0|]. split; [exact Q1|]. rewrite (Hjmp l El0) in Q2. exact Q2.
  - exists n1, m1, K1, HL1, G1, O1. split; [exact S1|]. split; [exact ST1|]. split; [exact KX1|]. split; [exact HX1|]. split; [exact F1|].
    split; [lia|]. destruct Hres as (l & El0 & Q1 & Q2). exists l. split; [exact El0|]. split; [exact Q1|]. rewrite (Hjmp l El0) in Q2. exact Q2.
  - exists n1, m1, K1, HL1, G1, O1. split; [exact S1|]. split; [exact ST1|]. split; [exact KX1|]. split; [exact HX1|]. split; [exact F1|].
    split; [lia|exact Hres].
  - (* throw: the machine is where the body list left it; the frame relation for the old locals *)
    exists n1, m1, K1, HL1, G1, O1. split; [exact S1|]. split; [exact ST1|]. split; [exact KX1|]. split; [exact HX1|]. split; [exact F1|].
    split; [lia|]. destruct Hres as (fn' & uvec' & pc1 & base' & frs' & t & cx & Q1 & Q2 & Q3 & Q4 & Q5).
    exists fn', uvec', pc1, base', frs', t, cx. split; [exact Q1|]. split; [exact Q2|]. split; [exact Q3|]. split; [exact Q4|].
    rewrite app_length, HlenL0 in Q5. replace (List.length N + List.length L - List.length L) with (List.length N) in Q5 by lia.
    rewrite skipn_app_len in Q5. rewrite HlenL0, Nat.sub_diag. exact Q5.
Qed.

(* the frame relation of a loop without the loop's two locals *)
Lemma LRBN_loop_drop : forall K CL0 ci ch HL base dh bh i di bi Lb enb c,
  LRBN K (CL0 ++ [ci; ch]) HL base (mkLocal None dh bh :: mkLocal (Some i) (Some di) bi :: Lb) ((i, c) :: enb) ->
  List.length CL0 = base + List.length Lb -> LRBN K CL0 HL base Lb enb.
Proof.
  intros K CL0 ci ch HL base dh bh i di bi Lb enb c H Hl. inversion H as [|? ? ? ? H1 _|]; subst.
  inversion H1 as [| |? ? ? ? ? ? H0 _ _ _]; subst.
  apply LRBN_CL with (CL := (CL0 ++ [ci; ch])%list); [exact H0|]. intros j Hj. symmetry. apply app_nth1. lia.
Qed.

(* the iterations, with the machine at the loop start (IterNext); ci = cell of the loop variable, ch = cell of the
   hidden iterator *)
Lemma loop_run {hs : list handler} : forall fu, L_goal fu ->
  forall b infun i n d L U E fs U' E' fs' cblock lh li L0 Lb' Ufin Efin uvec envs enb c base fn frs pre1 X Y post2 start exit lo b0,
  forallb (stmt7 jumps infun false true) b = true ->
  nblk cf b (S d) (mkLocal None (Some (S d)) false :: mkLocal (Some i) (Some (S d)) false :: L) U E fs
       (start + code_size (loop_head (List.length L) X)) (Some (mkLctx start (S d) exit)) = Some (cblock, lh :: li :: L0, U', E', fs') ->
  depth_le d L -> stack_ok U E -> (exists ext, funs = (fs' ++ ext)%list) ->
  flags_up L0 Lb' -> (exists ext, Ufin = (U' ++ ext)%list) -> levs_up E' Efin ->
  code_of funs fn = (pre1 ++ loop_head (List.length L) X ++ cblock ++ [ILoop Y; IPop] ++ post2)%list -> start = code_size pre1 ->
  X = 1 + code_size cblock + 3 -> Y = code_size (loop_head (List.length L) X) + code_size cblock + 3 ->
  exit = code_size (pre1 ++ loop_head (List.length L) X ++ cblock ++ [ILoop Y; IPop]) ->
  (infun = true -> frs <> []) ->
  forall todo k st st3 ctl,
  loop_iter fu b ((i, c) :: enb ++ List.concat envs)%list c todo k st = (st3, ctl) -> (good ctl \/ exists v, ctl = CThrow v) -> k + todo = n ->
  forall K CL0 ci ch HL m G O,
    MS5 hs m fn uvec start base frs (CL0 ++ [ci; ch])%list HL G O -> cv m ch = MIterV (Z.of_nat k) (Z.of_nat n) ->
    sto st K HL (cv m) (cn m) G O ->
    CTX K (CL0 ++ [ci; ch]) HL base (lh :: li :: Lb') ((i, c) :: enb) Efin envs Ufin uvec ->
    List.length CL0 = base + List.length L -> lo <= cn m -> FLO lo base (CL0 ++ [ci; ch]) ->
    b0 <= ci -> b0 <= ch -> ~ In ch K ->
    exists n' m' K' HL' G' O', steps cf funs n' m m' /\ sto st3 K' HL' (cv m') (cn m') G' O' /\ KEXT K K' (cn m) (cn m') /\
      HEXT HL HL' lo /\ (forall j, j < b0 -> ~ In j K -> cv m' j = cv m j) /\ cn m <= cn m' /\
      match ctl with
      | CNorm => MS5 hs m' fn uvec exit base frs (CL0 ++ [ci; ch])%list HL' G' O' /\
                 LRBN K' (CL0 ++ [ci; ch]) HL' base (lh :: li :: Lb') ((i, c) :: enb)
      | CRet v => exists fn0 ups0 pc0 base0 frs' cres, frs = mkFrame fn0 ups0 pc0 base0 :: frs' /\
                    MS5 hs m' fn0 ups0 pc0 base0 frs' (firstn base CL0 ++ [cres])%list HL' G' O' /\
                    vrel K' HL' v (cv m' cres) /\ cn m <= cres < cn m' /\ ~ In cres K' /\ ~ In cres HL'
      | CThrow v => exists fn' uvec' pc1 base' frs' t cx,
                    MS5 hs m' fn' uvec' pc1 base' frs' (((CL0 ++ [ci; ch]) ++ t) ++ [cx])%list HL' G' O' /\
                    fetch (code_of funs fn') pc1 = Some IThrow /\ above fn' uvec' base' frs' fn uvec base frs /\
                    vrel K' HL' v (cv m' cx) /\
                    LRBN K' (CL0 ++ [ci; ch]) HL' base (lh :: li :: Lb') ((i, c) :: enb)
      | _ => False
      end.
Proof.
  intros fu IHL b infun i n d L U E fs U' E' fs' cblock lh li L0 Lb' Ufin Efin uvec envs enb c base fn frs pre1 X Y post2 start exit lo b0
         Hf Hblk Hdl Hsok Hfuns HFB' HU HF Hcode Hstart HX HY Hexit Hfrs.
  set (lv := List.length L) in *.
  set (Lh := mkLocal None (Some (S d)) false :: mkLocal (Some i) (Some (S d)) false :: L) in *.
  pose proof (forallb_stmt7_stmt7u _ _ _ _ _ Hf) as Hfu.
  destruct (nblk_ok cf b Hfu _ _ _ _ _ _ _ _ _ _ _ _ Hblk (loop_locals_depth d i L Hdl)) as (_ & _ & HFlh).
  destruct (flags_up_cons_inv _ _ _ _ HFlh) as ((Ah1 & Ah2 & _) & HFl1). destruct (flags_up_cons_inv _ _ _ _ HFl1) as ((Ai1 & Ai2 & _) & HFl0).
  cbn in Ah1, Ah2, Ai1, Ai2.
  assert (Elh : lh = mkLocal None (Some (S d)) (l_capt lh)) by (destruct lh as [nh dh bh]; cbn in *; congruence).
  assert (Eli : li = mkLocal (Some i) (Some (S d)) (l_capt li)) by (destruct li as [ni di bi]; cbn in *; congruence).
  pose proof (flags_up_length _ _ HFl0) as HlenL0. pose proof (flags_up_length _ _ HFB') as HlenLb.
  assert (HFBl : flags_up (lh :: li :: L0) (lh :: li :: Lb')).
  { constructor; [repeat split; auto|]. constructor; [repeat split; auto|exact HFB']. }
  (* code positions *)
  assert (Hhsz : code_size (loop_head lv X) = 7) by reflexivity.
  assert (Hf_in : fetch (code_of funs fn) start = Some IIterNext).
  { rewrite Hcode, Hstart. apply fetch_app. }
  assert (Hf_sl : fetch (code_of funs fn) (start + 1) = Some (ISetLocal lv)).
  { rewrite Hstart. replace (code_size pre1 + 1) with (code_size pre1 + code_size [IIterNext]) by reflexivity.
    eapply fetch_mid with (c2 := [IJumpIfStopIter X; IPop]) (post := (cblock ++ [ILoop Y; IPop] ++ post2)%list). rewrite Hcode. reflexivity. }
  assert (Hf_js : fetch (code_of funs fn) (start + 1 + 2) = Some (IJumpIfStopIter X)).
  { rewrite Hstart. replace (code_size pre1 + 1 + 2) with (code_size pre1 + code_size [IIterNext; ISetLocal lv]) by (cbn; lia).
    eapply fetch_mid with (c2 := [IPop]) (post := (cblock ++ [ILoop Y; IPop] ++ post2)%list). rewrite Hcode. reflexivity. }
  assert (Hf_p1 : fetch (code_of funs fn) (start + 1 + 2 + 3) = Some IPop).
  { rewrite Hstart. replace (code_size pre1 + 1 + 2 + 3) with (code_size pre1 + code_size [IIterNext; ISetLocal lv; IJumpIfStopIter X]) by (cbn; lia).
    eapply fetch_mid with (c2 := []) (post := (cblock ++ [ILoop Y; IPop] ++ post2)%list). rewrite Hcode. reflexivity. }
  assert (Hf_lp : fetch (code_of funs fn) (start + 7 + code_size cblock) = Some (ILoop Y)).
  { rewrite Hstart. replace (code_size pre1 + 7 + code_size cblock) with (code_size pre1 + code_size (loop_head lv X ++ cblock)) by (rewrite code_size_app, Hhsz; lia).
    eapply fetch_mid with (c2 := [IPop]) (post := post2). rewrite Hcode. now rewrite <- !app_assoc. }
  assert (Hf_p2 : fetch (code_of funs fn) (start + 7 + code_size cblock + 3) = Some IPop).
  { rewrite Hstart. replace (code_size pre1 + 7 + code_size cblock + 3) with (code_size pre1 + code_size (loop_head lv X ++ cblock ++ [ILoop Y])).
    - eapply fetch_mid with (c2 := []) (post := post2). rewrite Hcode. now rewrite <- !app_assoc.
    - rewrite !code_size_app, Hhsz. cbn [code_size isize]. lia. }
  assert (Hexit' : exit = start + 7 + code_size cblock + 3 + 1).
  { rewrite Hexit, Hstart, !code_size_app, Hhsz. cbn [code_size isize]. lia. }
  induction todo as [|todo IH]; intros k st st3 ctl Hit Hg Hkn K CL0 ci ch HL m G O HM Hit0 HS HC HlenCL0 Hlo HFLO Hb0i Hb0h HchK.
  - (* exhausted *)
    cbn [loop_iter] in Hit. inversion Hit; subst st3 ctl. clear Hit Hg.
    assert (k = n) by lia. subst k.
    pose proof (cx_lrb _ _ _ _ _ _ _ _ _ _ HC) as HLR.
    pose proof HLR as HLRx. rewrite Elh, Eli in HLRx.
    destruct (LRBN_loop_inv _ _ _ _ _ _ _ _ _ _ _ _ _ _ HLRx ltac:(rewrite HlenLb, HlenL0; exact HlenCL0)) as [Hck Hci]. clear HLRx.
    rewrite app2_assoc in HM.
    destruct (step5_iternext_done cf funs _ _ _ _ _ _ _ _ _ _ _ _ _ HM Hf_in Hit0 (Z.ltb_irrefl _)) as (m1 & A1 & B1 & C1 & D1).
    assert (B1' : MS5 hs m1 fn uvec (start + 1) base frs ((CL0 ++ [ci; ch]) ++ [cn m]) HL G O).
    { rewrite app2_assoc, <- app_assoc. exact B1. }
    destruct (step5_setlocal cf funs _ _ _ _ _ _ _ _ _ _ _ lv B1' Hf_sl ltac:(rewrite app_length; cbn [List.length]; lia)) as (m2 & A2 & B2 & C2 & D2).
    assert (Hnth : nth (base + lv) (CL0 ++ [ci; ch]) 0 = ci).
    { rewrite <- HlenCL0. change [ci; ch] with ([ci] ++ [ch])%list. rewrite app_assoc, app_nth1, nth_middle; [reflexivity|rewrite app_length; cbn; lia]. }
    rewrite Hnth in C2.
    pose proof (m5_s _ _ _ _ _ _ _ _ _ _ _ HM) as SK.
    assert (Hci_lt : ci < cn m).
    { assert (Hin : In ci ((CL0 ++ [ci]) ++ [ch])) by (apply in_or_app; left; apply in_or_app; right; now left).
      pose proof (s2_cl_lt _ _ _ SK _ Hin). unfold cn. exact H. }
    assert (Hch_lt : ch < cn m).
    { assert (Hin : In ch ((CL0 ++ [ci]) ++ [ch])) by (apply in_or_app; right; now left).
      pose proof (s2_cl_lt _ _ _ SK _ Hin). unfold cn. exact H. }
    assert (Htop : cv m2 (cn m) = MStop) by (rewrite C2, upd_other by lia; rewrite C1; apply upd_same).
    destruct (step5_jumpifstop_yes cf funs _ _ _ _ _ _ _ _ _ _ _ _ B2 Hf_js Htop) as (m3 & A3 & B3 & C3 & D3).
    assert (HnH : ~ In (cn m) HL) by (apply (notin_HL_fresh _ _ _ _ _ _ _ _ _ _ (cn m) HM); lia).
    replace (start + 1 + 2 + 3 + X) with (start + 7 + code_size cblock + 3) in B3 by (rewrite HX; lia).
    destruct (step5_pop cf funs _ _ _ _ _ _ _ _ _ _ _ B3 Hf_p2 HnH) as (m4 & A4 & B4 & C4 & D4).
    assert (Ecv : cv m4 = upd (upd (cv m) (cn m) MStop) ci MStop).
    { rewrite C4, C3, C2, C1, upd_same. reflexivity. }
    assert (Ecn : cn m4 = S (cn m)) by (rewrite D4, D3, D2, D1; reflexivity).
    assert (HnK : ~ In (cn m) K) by (intro Hin; pose proof (sto_K_lt _ _ _ _ _ _ _ HS Hin); lia).
    exists 4, m4, K, HL, G, O.
    split. { exists m1. split; [exact A1|]. exists m2. split; [exact A2|]. exists m3. split; [exact A3|]. now apply steps_one. }
    split. { rewrite Ecv, Ecn. rewrite Hci. apply STON_write; [|exact Hck|constructor].
             apply STON_temp with (cnx := cn m); [exact HS|exact HnK|lia]. }
    split. { exists []. rewrite app_nil_r. split; [reflexivity|intros k0 []]. }
    split; [apply HEXT_refl|].
    split. { intros j Hj Hn. rewrite Ecv, !upd_other by lia. reflexivity. }
    split; [lia|].
    split; [rewrite Hexit'; exact B4|exact HLR].
  - (* one more iteration *)
    cbn [loop_iter] in Hit.
    destruct (exec_list fu b ((i, c) :: enb ++ List.concat envs)%list false (ScopeLang.set_cell st c (SVInt (Z.of_nat k)))) as [[st2 en2] c1] eqn:Eb.
    assert (Hg1 : goodl (Some (mkLctx start (S d) exit)) c1 /\
                  ((c1 = CNorm \/ c1 = CCont) -> loop_iter fu b ((i, c) :: enb ++ List.concat envs)%list c todo (S k) st2 = (st3, ctl)) /\
                  (c1 = CBreak -> st3 = st2 /\ ctl = CNorm) /\
                  (forall v, c1 = CRet v -> st3 = st2 /\ ctl = CRet v) /\
                  (forall v, c1 = CThrow v -> st3 = st2 /\ ctl = CThrow v)).
    { destruct c1.
      - split; [left; now left|]. split; [auto|]. split; [|split]; intros; discriminate.
      - inversion Hit; subst. split; [right; left; split; [discriminate|now left]|]. split; [intros [|]; discriminate|]. split; [auto|split; intros; discriminate].
      - split; [right; left; split; [discriminate|now right]|]. split; [auto|]. split; [|split]; intros; discriminate.
      - inversion Hit; subst. split; [left; right; eauto|]. split; [intros [|]; discriminate|]. split; [intros; discriminate|].
        split; [|intros; discriminate]. intros v0 E0. inversion E0; subst. auto.
      - inversion Hit; subst. split; [apply goodl_throw|]. split; [intros [|]; discriminate|]. split; [intros; discriminate|].
        split; [intros; discriminate|]. intros v0 E0. inversion E0; subst. auto.
      - inversion Hit; subst. destruct Hg as [[Hg|[? Hg]]|[? Hg]]; discriminate.
      - inversion Hit; subst. destruct Hg as [[Hg|[? Hg]]|[? Hg]]; discriminate. }
    destruct Hg1 as (Hg1 & Hnorm & Hbrk & Hret & Hthr).
    assert (Hkn' : k < n) by lia.
    pose proof (cx_lrb _ _ _ _ _ _ _ _ _ _ HC) as HLR.
    pose proof HLR as HLRx. rewrite Elh, Eli in HLRx.
    destruct (LRBN_loop_inv _ _ _ _ _ _ _ _ _ _ _ _ _ _ HLRx ltac:(rewrite HlenLb, HlenL0; exact HlenCL0)) as [Hck Hci]. clear HLRx.
    pose proof HM as HM0. rewrite app2_assoc in HM.
    assert (Hlt : (Z.of_nat k <? Z.of_nat n)%Z = true) by (apply Z.ltb_lt; lia).
    destruct (step5_iternext_more cf funs _ _ _ _ _ _ _ _ _ _ _ _ _ HM Hf_in Hit0 Hlt) as (m1 & A1 & B1 & C1 & D1).
    assert (B1' : MS5 hs m1 fn uvec (start + 1) base frs ((CL0 ++ [ci; ch]) ++ [cn m]) HL G O).
    { rewrite app2_assoc, <- app_assoc. exact B1. }
    destruct (step5_setlocal cf funs _ _ _ _ _ _ _ _ _ _ _ lv B1' Hf_sl ltac:(rewrite app_length; cbn [List.length]; lia)) as (m2 & A2 & B2 & C2 & D2).
    assert (Hnth : nth (base + lv) (CL0 ++ [ci; ch]) 0 = ci).
    { rewrite <- HlenCL0. change [ci; ch] with ([ci] ++ [ch])%list. rewrite app_assoc, app_nth1, nth_middle; [reflexivity|rewrite app_length; cbn; lia]. }
    rewrite Hnth in C2.
    pose proof (m5_s _ _ _ _ _ _ _ _ _ _ _ HM) as SK.
    assert (Hci_lt : ci < cn m).
    { assert (Hin : In ci ((CL0 ++ [ci]) ++ [ch])) by (apply in_or_app; left; apply in_or_app; right; now left).
      pose proof (s2_cl_lt _ _ _ SK _ Hin). unfold cn. exact H. }
    assert (Hch_lt : ch < cn m).
    { assert (Hin : In ch ((CL0 ++ [ci]) ++ [ch])) by (apply in_or_app; right; now left).
      pose proof (s2_cl_lt _ _ _ SK _ Hin). unfold cn. exact H. }
    assert (Hcich : ci <> ch).
    { pose proof (s2_cl_nd _ _ _ SK) as Hnd. intro; subst ch. apply NoDup_remove_2 in Hnd. apply Hnd. rewrite app_nil_r. apply in_or_app. right. now left. }
    assert (Htop : cv m2 (cn m) = MInt (Z.of_nat k)) by (rewrite C2, upd_other by lia; rewrite C1; apply upd_same).
    destruct (step5_jumpifstop_no cf funs _ _ _ _ _ _ _ _ _ _ _ _ _ B2 Hf_js Htop) as (m3 & A3 & B3 & C3 & D3).
    assert (HnH : ~ In (cn m) HL) by (apply (notin_HL_fresh _ _ _ _ _ _ _ _ _ _ (cn m) HM); lia).
    destruct (step5_pop cf funs _ _ _ _ _ _ _ _ _ _ _ B3 Hf_p1 HnH) as (m4 & A4 & B4 & C4 & D4).
    assert (Ecv : cv m4 = upd (upd (upd (cv m) ch (MIterV (Z.of_nat k + 1) (Z.of_nat n))) (cn m) (MInt (Z.of_nat k))) ci (MInt (Z.of_nat k))).
    { rewrite C4, C3, C2, C1, upd_same. reflexivity. }
    assert (Ecn : cn m4 = S (cn m)) by (rewrite D4, D3, D2, D1; reflexivity).
    assert (HnK : ~ In (cn m) K) by (intro Hin; pose proof (sto_K_lt _ _ _ _ _ _ _ HS Hin); lia).
    assert (ST4 : sto (ScopeLang.set_cell st c (SVInt (Z.of_nat k))) K HL (cv m4) (cn m4) G O).
    { rewrite Ecv, Ecn. rewrite Hci. apply STON_write; [|exact Hck|constructor].
      apply STON_temp with (cnx := cn m); [|exact HnK|lia]. apply STON_temp with (cnx := cn m); [exact HS|exact HchK|lia]. }
    assert (HM4 : MS5 hs m4 fn uvec (code_size (pre1 ++ loop_head lv X)) base frs (CL0 ++ [ci; ch]) HL G O).
    { rewrite code_size_app, Hhsz, <- Hstart. replace (start + 7) with (start + 1 + 2 + 3 + 1) by lia. exact B4. }
    (* the body *)
    assert (Hlc6 : LCOK (Some (mkLctx start (S d) exit)) (S (S d)) Lh (lh :: li :: Lb') (code_size (pre1 ++ loop_head lv X)) (code_size (pre1 ++ loop_head lv X) + code_size cblock)).
    { intros l0 El0. inversion El0; subst l0. cbn [lc_depth lc_start lc_exit]. split; [lia|]. split; [rewrite code_size_app; lia|].
      split; [rewrite code_size_app, Hhsz, <- Hstart; lia|]. unfold TIGHT, Lh. cbn [scope_end_ops l_depth]. rewrite Nat.ltb_irrefl. reflexivity. }
    destruct (block_run (hs := hs) fu IHL b infun true ((i, c) :: enb) envs _ st2 en2 c1 Eb Hf Lh (S d) U E fs _ _ cblock (lh :: li :: L0) U' E' fs' Hblk Hg1
                (loop_locals_depth d i L Hdl) Hsok Hfuns (lh :: li :: Lb') Ufin Efin uvec K (CL0 ++ [ci; ch])%list HL base
                (flags_up_trans _ _ _ HFlh HFBl) HU HF HC
                ltac:(rewrite app_length; unfold Lh; cbn [List.length]; lia)
                m4 fn frs G O (pre1 ++ loop_head lv X)%list ([ILoop Y; IPop] ++ post2)%list lo)
      as (n6 & m6 & K6 & HL6 & G6 & O6 & S6 & ST6 & KX6 & HX6 & F6 & Hcn6 & Hres6); auto.
    { rewrite Hcode. now rewrite <- !app_assoc. }
    { rewrite code_size_app, Hhsz, Hstart. reflexivity. }
    { lia. }
    rewrite (mrg_same_len Lh (lh :: li :: L0) (lh :: li :: Lb')) in Hres6 by (unfold Lh; cbn [List.length]; lia).
    rewrite (orf_up _ _ HFBl) in Hres6.
    assert (Hst04 : steps cf funs 4 m m4).
    { exists m1. split; [exact A1|]. exists m2. split; [exact A2|]. exists m3. split; [exact A3|]. now apply steps_one. }
    assert (Hfr04 : forall j, j < b0 -> cv m4 j = cv m j) by (intros j Hj; rewrite Ecv, !upd_other by lia; reflexivity).
    assert (HKX06 : KEXT K K6 (cn m) (cn m6)) by (eapply KEXT_widen; [exact KX6|lia|lia]).
    assert (Hfr06 : forall j, j < b0 -> ~ In j K -> cv m6 j = cv m j).
    { intros j Hj Hn. rewrite F6; [apply Hfr04; exact Hj|lia|exact Hn]. }
    (* facts used by all the ways the body can end *)
    assert (HcutLh : cutL (S d) Lh = Lh) by (unfold Lh; cbn [cutL l_depth]; now rewrite Nat.ltb_irrefl).
    assert (HcutM : cutL (S d) (lh :: li :: Lb') = lh :: li :: Lb') by (rewrite Elh; cbn [cutL l_depth]; now rewrite Nat.ltb_irrefl).
    assert (HcutE : cutE (S d) Lh ((i, c) :: enb) = (i, c) :: enb) by (unfold Lh; cbn [cutE l_depth]; now rewrite Nat.ltb_irrefl).
    assert (HfirstAll : firstn (base + List.length Lh) (CL0 ++ [ci; ch]) = (CL0 ++ [ci; ch])%list).
    { replace (base + List.length Lh) with (List.length (CL0 ++ [ci; ch])) by (rewrite app_length; unfold Lh; cbn [List.length]; lia). apply firstn_all. }
    assert (HchK6 : ~ In ch K6).
    { intro Hin. destruct (KEXT_in _ _ _ _ _ KX6 Hin) as [Hi|Hi]; [contradiction|lia]. }
    assert (Hit6 : cv m6 ch = MIterV (Z.of_nat (S k)) (Z.of_nat n)).
    { rewrite F6; [|lia|exact HchK]. rewrite Ecv, upd_other by (intro; apply Hcich; auto). rewrite upd_other by lia. rewrite upd_same.
      now rewrite Nat2Z.inj_succ. }
    (* going round: from the machine at the loop start with the frame as it was *)
    assert (Hround : forall m7 n7, steps cf funs n7 m6 m7 -> MS5 hs m7 fn uvec start base frs (CL0 ++ [ci; ch]) HL6 G6 O6 -> cv m7 = cv m6 -> cn m7 = cn m6 ->
              LRBN K6 (CL0 ++ [ci; ch]) HL6 base (lh :: li :: Lb') ((i, c) :: enb) ->
              loop_iter fu b ((i, c) :: enb ++ List.concat envs)%list c todo (S k) st2 = (st3, ctl) ->
              exists n' m' K' HL' G' O', steps cf funs n' m m' /\ sto st3 K' HL' (cv m') (cn m') G' O' /\ KEXT K K' (cn m) (cn m') /\
                HEXT HL HL' lo /\ (forall j, j < b0 -> ~ In j K -> cv m' j = cv m j) /\ cn m <= cn m' /\
                match ctl with
                | CNorm => MS5 hs m' fn uvec exit base frs (CL0 ++ [ci; ch])%list HL' G' O' /\
                           LRBN K' (CL0 ++ [ci; ch]) HL' base (lh :: li :: Lb') ((i, c) :: enb)
                | CRet v => exists fn0 ups0 pc0 base0 frs' cres, frs = mkFrame fn0 ups0 pc0 base0 :: frs' /\
                              MS5 hs m' fn0 ups0 pc0 base0 frs' (firstn base CL0 ++ [cres])%list HL' G' O' /\
                              vrel K' HL' v (cv m' cres) /\ cn m <= cres < cn m' /\ ~ In cres K' /\ ~ In cres HL'
                | CThrow v => exists fn' uvec' pc1 base' frs' t cx,
                              MS5 hs m' fn' uvec' pc1 base' frs' (((CL0 ++ [ci; ch]) ++ t) ++ [cx])%list HL' G' O' /\
                              fetch (code_of funs fn') pc1 = Some IThrow /\ above fn' uvec' base' frs' fn uvec base frs /\
                              vrel K' HL' v (cv m' cx) /\
                              LRBN K' (CL0 ++ [ci; ch]) HL' base (lh :: li :: Lb') ((i, c) :: enb)
                | _ => False
                end).
    { intros m7 n7 S7 B7 C7 D7 LR6 Hit'.
      assert (HC6 : CTX K6 (CL0 ++ [ci; ch]) HL6 base (lh :: li :: Lb') ((i, c) :: enb) Efin envs Ufin uvec).
      { eapply CTX_next; [exact HC|exact LR6|rewrite app_length; cbn [List.length]; lia|eapply KEXT_ext; eauto|eapply HEXT_ext; eauto]. }
      destruct (IH (S k) st2 st3 ctl Hit' Hg ltac:(lia) K6 CL0 ci ch HL6 m7 G6 O6 B7 ltac:(rewrite C7; exact Hit6) ltac:(rewrite C7, D7; exact ST6) HC6 HlenCL0
                  ltac:(rewrite D7; lia) HFLO Hb0i Hb0h HchK6)
        as (n8 & m8 & K8 & HL8 & G8 & O8 & S8 & ST8 & KX8 & HX8 & F8 & Hcn8 & Hres8).
      exists (4 + (n6 + n7) + n8), m8, K8, HL8, G8, O8.
      split. { apply (steps_trans cf funs (4 + (n6 + n7)) n8 m m7 m8); [|exact S8]. apply (steps_trans cf funs 4 (n6 + n7) m m4 m7 Hst04).
               exact (steps_trans cf funs n6 n7 m4 m6 m7 S6 S7). }
      split; [exact ST8|].
      split. { apply (KEXT_trans K K6 K8 (cn m) (cn m7) (cn m8)); [rewrite D7; exact HKX06|exact KX8|rewrite D7; lia|lia]. }
      split; [eapply HEXT_trans; eauto|].
      split. { intros j Hj Hn. rewrite F8; [rewrite C7; apply Hfr06; auto|exact Hj|].
               intro Hin. destruct (KEXT_in _ _ _ _ _ KX6 Hin) as [Hi|Hi]; [contradiction|lia]. }
      split; [rewrite D7 in Hcn8; lia|].
      destruct ctl as [| | |w|w| |]; try contradiction.
      * exact Hres8.
      * destruct Hres8 as (fn0 & ups0 & pc0 & base0 & frs' & cres & Q0 & Q1 & Q2 & Q3 & Q4 & Q5).
        exists fn0, ups0, pc0, base0, frs', cres. repeat (split; [assumption|]). split; [rewrite D7 in Q3; lia|]. split; assumption.
      * exact Hres8. }
    destruct c1 as [| | |w|w| |]; try (destruct Hg1 as [[Hg1|[? Hg1]]|[[_ [Hg1|Hg1]]|[? Hg1]]]; discriminate).
    + (* the body ended normally: Loop back *)
      destruct Hres6 as (CL6 & enb6 & Een6 & M6 & LR6 & Len6 & Hfirst6 & HFLO6 & X6 & _).
      assert (ECL6 : CL6 = (CL0 ++ [ci; ch])%list).
      { assert (Hl : List.length CL6 = List.length (CL0 ++ [ci; ch])) by (rewrite Len6, app_length; cbn [List.length]; lia).
        rewrite <- (firstn_all CL6), <- (firstn_all (CL0 ++ [ci; ch])), Hl.
        replace (List.length (CL0 ++ [ci; ch])) with (base + List.length Lh) by (rewrite app_length; unfold Lh; cbn [List.length]; lia). exact Hfirst6. }
      subst CL6.
      assert (Eenb6 : enb6 = (i, c) :: enb).
      { destruct X6 as (N6 & Ne6 & L06 & EN6 & HFl6 & -> & HNlen6 & HN6). destruct N6 as [|l6 N6].
        - destruct Ne6; [reflexivity|discriminate].
        - exfalso. apply (f_equal (@List.length local)) in EN6. rewrite app_length, (flags_up_length _ _ HFl6) in EN6. cbn in EN6. lia. }
      subst enb6.
      rewrite code_size_app, Hhsz, <- Hstart in M6.
      destruct (step5_loop cf funs _ _ _ _ _ _ _ _ _ _ _ M6 Hf_lp) as (m7 & A7 & B7 & C7 & D7).
      replace (start + 7 + code_size cblock + 3 - Y) with start in B7 by (rewrite HY, Hhsz; lia).
      exact (Hround m7 1 (steps_one cf funs m6 m7 A7) B7 C7 D7 LR6 (Hnorm (or_introl eq_refl))).
    + (* break: the machine is at the exit, the frame as at the loop start *)
      destruct (Hbrk eq_refl) as [-> ->].
      destruct Hres6 as (l0 & El0 & Q1 & Q2). inversion El0; subst l0. cbn [lc_exit lc_depth] in Q1, Q2.
      rewrite HcutLh, HfirstAll in Q1, Q2. rewrite HcutM, HcutE in Q2.
      exists (4 + n6), m6, K6, HL6, G6, O6.
      split; [eapply steps_trans; eauto|]. split; [exact ST6|]. split; [exact HKX06|]. split; [exact HX6|]. split; [exact Hfr06|]. split; [lia|].
      split; [exact Q1|exact Q2].
    + (* continue: the machine is at the loop start *)
      destruct Hres6 as (l0 & El0 & Q1 & Q2). inversion El0; subst l0. cbn [lc_start lc_depth] in Q1, Q2.
      rewrite HcutLh, HfirstAll in Q1, Q2. rewrite HcutM, HcutE in Q2.
      exact (Hround m6 0 (eq_refl : steps cf funs 0 m6 m6) Q1 eq_refl eq_refl Q2 (Hnorm (or_intror eq_refl))).
    + (* return from inside the loop *)
      destruct (Hret w eq_refl) as [-> ->].
      destruct Hres6 as (fn0 & ups0 & pc0 & base0 & frs' & cres & Q0 & Q1 & Q2 & Q3 & Q4 & Q5).
      exists (4 + n6), m6, K6, HL6, G6, O6.
      split; [eapply steps_trans; eauto|]. split; [exact ST6|]. split; [exact HKX06|]. split; [exact HX6|]. split; [exact Hfr06|]. split; [lia|].
      exists fn0, ups0, pc0, base0, frs', cres. split; [exact Q0|]. split.
      { replace (firstn base CL0) with (firstn base (CL0 ++ [ci; ch])); [exact Q1|]. apply firstn_app_le. lia. }
      split; [exact Q2|]. split; [lia|]. split; assumption.
    + (* the body throws: the machine is where the block left it, the frame of the loop intact *)
      destruct (Hthr w eq_refl) as [-> ->].
      destruct Hres6 as (fn' & uvec' & pc1 & base' & frs' & t & cx & Q1 & Q2 & Q3 & Q4 & Q5).
      exists (4 + n6), m6, K6, HL6, G6, O6.
      split; [eapply steps_trans; eauto|]. split; [exact ST6|]. split; [exact HKX06|]. split; [exact HX6|]. split; [exact Hfr06|]. split; [lia|].
      exists fn', uvec', pc1, base', frs', t, cx. repeat (split; [assumption|]).
      replace (List.length (lh :: li :: L0) - List.length Lh) with 0 in Q5 by (unfold Lh; cbn [List.length]; lia). exact Q5.
Qed.

(* ------------------------------------------------------------------------------------------ *)
(* statements *)

Lemma S_block : forall fu, E_goal fu -> ET_goal fu -> L_goal fu -> forall b, S_at (S fu) (SBlock b).
Proof.
  intros fu IHE IHT IHL b hs infun top inloop enb envs st st' en' ctl He Hf L d U E fs pos lc code L' U' E' fs' Hc Hg Ht Hdl Hd0 Hsok Hfuns
         Lm Ufin Efin uvec K CL HL base HFB HU HF HC HlenCL m fn frs G O pre post lo Hcode Hpos Hlc Hfrs Hlo HFLO HM HS.
  unfold RES. cbn [stmt7] in Hf.
  cbn [exec_stmt] in He. destruct (exec_list fu b (enb ++ List.concat envs)%list false st) as [[st1 en1] c1] eqn:El.
  inversion He; subst st' en' c1. clear He.
  rewrite nstmt_block in Hc.
  assert (Hlc' : LCOK lc (S d) L Lm (code_size pre) (code_size pre + code_size code)).
  { intros l El0. destruct (Hlc l El0) as (A1 & A2 & A3 & A4). repeat split; auto. }
  exact (block_run fu IHL b infun inloop enb envs st st1 en1 ctl El Hf L d U E fs pos lc code L' U' E' fs' Hc Hg Hdl Hsok Hfuns
           Lm Ufin Efin uvec K CL HL base HFB HU HF HC HlenCL m fn frs G O pre post lo Hcode Hpos Hlc' Hfrs Hlo HFLO HM HS).
Qed.

Lemma S_loop : forall fu, E_goal fu -> ET_goal fu -> L_goal fu -> forall i n b, S_at (S fu) (SLoop i n b).
Proof.
  intros fu IHE IHT IHL i n b hs infun top inloop enb envs st st' en' ctl He Hf L d U E fs pos lc code L' U' E' fs' Hc Hg Ht Hdl Hd0 Hsok Hfuns
         Lm Ufin Efin uvec K CL HL base HFB HU HF HC HlenCL m fn frs G O pre post lo Hcode Hpos Hlc Hfrs Hlo HFLO HM HS.
  unfold RES. cbn [stmt7] in Hf.
  rewrite exec_loop_eq in He. unfold new_cell in He.
  set (c := List.length (s_cells st)) in *.
  set (st1 := mkSst (s_cells st ++ [SVNil]) (s_globals st) (s_vecs st) (s_out st)) in *.
  destruct (loop_iter fu b ((i, c) :: enb ++ List.concat envs)%list c n 0 st1) as [st3 c3] eqn:Eit.
  inversion He; subst st' en' c3. clear He.
  assert (Hg' : good ctl \/ exists v, ctl = CThrow v).
  { destruct (loop_iter_res _ _ _ _ _ _ _ _ _ Eit) as [N1 N2]. destruct Hg as [Hg|[[_ [Hg|Hg]]|Hg]]; [left; exact Hg|congruence|congruence|right; exact Hg]. }
  rewrite nstmt_loop in Hc.
  destruct (dup_in_scope L i (S d)); [discriminate|]. destruct (List.length L =? c_locals_max cf); [discriminate|].
  destruct (S (List.length L) =? c_locals_max cf); [discriminate|]. cbv zeta in Hc.
  set (lv := List.length L) in *.
  set (Lh := mkLocal None (Some (S d)) false :: mkLocal (Some i) (Some (S d)) false :: L) in *.
  set (start := pos + code_size (loop_pre n)) in *.
  destruct (nblk cf b (S d) Lh U E fs (start + code_size (loop_head lv 0)) (Some (mkLctx start (S d) 0))) as [[[[[c0 L00] U00] E00] fs00]|] eqn:Eb0; [|discriminate].
  destruct (nblk cf b (S d) Lh U E fs (start + code_size (loop_head lv 0)) (Some (mkLctx start (S d) (start + code_size (loop_head lv 0) + code_size c0 + 3 + 1))))
    as [[[[[cblock L1] U1] E1] fs1]|] eqn:Eb; [|discriminate].
  inversion Hc; subst code L' U' E' fs'. clear Hc.
  pose proof (forallb_stmt7_stmt7u _ _ _ _ _ Hf) as Hfu.
  (* the size of the block does not depend on the break target *)
  pose proof (nblk_lc_sz cf b Hfu Lh (S d) U E fs (start + code_size (loop_head lv 0)) (mkLctx start (S d) 0)
                (mkLctx start (S d) (start + code_size (loop_head lv 0) + code_size c0 + 3 + 1)) eq_refl) as Hsz.
  rewrite Eb0, Eb in Hsz. cbn [nres_sz] in Hsz. destruct Hsz as (Hsz & _).
  destruct (nblk_ok cf b Hfu _ _ _ _ _ _ _ _ _ _ _ _ Eb (loop_locals_depth d i L Hdl)) as (_ & _ & HFlh).
  destruct (loop_scope_end d i L L1 Hdl HFlh) as (lh & li & L0 & -> & HFl0 & Hnh & Hdh & Hni & Hdi & Hops & Hsk).
  rewrite Hsk in *. rewrite Hops in Hcode |- *.
  pose proof (flags_up_length _ _ HFl0) as HlenL0.
  rewrite (mrg_same_len L L0 Lm HlenL0). set (Lb' := orf L0 Lm).
  assert (HFB' : flags_up L0 Lb') by (eapply flags_up_orf_l; eauto).
  assert (HFBm : flags_up Lm Lb') by (apply flags_up_orf_r; rewrite HlenL0, <- (flags_up_length _ _ HFB); reflexivity).
  pose proof (flags_up_length _ _ HFB') as HlenLb.
  fold lv in HlenL0.
  apply (fun H => CTX_flags _ _ _ _ _ _ _ _ _ _ _ H HFBm) in HC.
  pose proof (cx_lrb _ _ _ _ _ _ _ _ _ _ HC) as HLRB. pose proof (cx_len _ _ _ _ _ _ _ _ _ _ HC) as HlenC.
  assert (Elh : lh = mkLocal None (Some (S d)) (l_capt lh)) by (destruct lh as [nh dh bh]; cbn in *; congruence).
  assert (Eli : li = mkLocal (Some i) (Some (S d)) (l_capt li)) by (destruct li as [ni di bi]; cbn in *; congruence).
  set (X := 1 + code_size c0 + 3) in *. set (Y := code_size (loop_head lv 0) + code_size c0 + 3) in *.
  set (oph := if l_capt lh then ICloseUpvalue else IPop) in *. set (opi := if l_capt li then ICloseUpvalue else IPop) in *.
  assert (Hcode' : code_of funs fn = (pre ++ (loop_pre n ++ loop_head lv X ++ cblock ++ [ILoop Y; IPop] ++ [oph; opi]) ++ post)%list) by exact Hcode.
  clear Hcode. rename Hcode' into Hcode.
  set (pre1 := (pre ++ loop_pre n)%list).
  assert (Hstart : start = code_size pre1) by (unfold start, pre1; rewrite Hpos, code_size_app; reflexivity).
  (* the range, its iterator, the loop variable *)
  assert (Hf1 : fetch (code_of funs fn) (code_size pre) = Some INil) by (rewrite Hcode; apply fetch_app).
  destruct (step5_nil cf funs _ _ _ _ _ _ _ _ _ _ HM Hf1) as (m1 & A1 & B1 & C1 & D1).
  assert (Hf2 : fetch (code_of funs fn) (code_size pre + 1) = Some (IConst 0)).
  { replace (code_size pre + 1) with (code_size pre + code_size [INil]) by (cbn [code_size isize]; lia).
    eapply fetch_mid with (c2 := ([IConst (N.of_nat n); IBuildRange; IInvoke MIter 0] ++ loop_head lv X ++ cblock ++ [ILoop Y; IPop] ++ [oph; opi])%list) (post := post). rewrite Hcode. reflexivity. }
  destruct (step5_const cf funs _ _ _ _ _ _ _ _ _ _ _ B1 Hf2) as (m2 & A2 & B2 & C2 & D2).
  assert (Hf3 : fetch (code_of funs fn) (code_size pre + 1 + 3) = Some (IConst (N.of_nat n))).
  { replace (code_size pre + 1 + 3) with (code_size pre + code_size [INil; IConst 0]) by (cbn [code_size isize]; lia).
    eapply fetch_mid with (c2 := ([IBuildRange; IInvoke MIter 0] ++ loop_head lv X ++ cblock ++ [ILoop Y; IPop] ++ [oph; opi])%list) (post := post). rewrite Hcode. reflexivity. }
  destruct (step5_const cf funs _ _ _ _ _ _ _ _ _ _ _ B2 Hf3) as (m3 & A3 & B3 & C3 & D3).
  assert (Hf4 : fetch (code_of funs fn) (code_size pre + 1 + 3 + 3) = Some IBuildRange).
  { replace (code_size pre + 1 + 3 + 3) with (code_size pre + code_size [INil; IConst 0; IConst (N.of_nat n)]) by (cbn [code_size isize]; lia).
    eapply fetch_mid with (c2 := ([IInvoke MIter 0] ++ loop_head lv X ++ cblock ++ [ILoop Y; IPop] ++ [oph; opi])%list) (post := post). rewrite Hcode. reflexivity. }
  remember (cn m) as ci eqn:Eci in *.
  assert (Ecn1 : cn m1 = S ci) by exact D1. assert (Ecn2 : cn m2 = S (S ci)) by (rewrite D2, D1; reflexivity).
  assert (Ecn3 : cn m3 = S (S (S ci))) by (rewrite D3, D2, D1; reflexivity).
  assert (B3' : MS5 hs m3 fn uvec (code_size pre + 1 + 3 + 3) base frs ((CL ++ [ci]) ++ [cn m1; cn m2]) HL G O).
  { rewrite <- !app_assoc. cbn [app]. rewrite <- !app_assoc in B3. cbn [app] in B3. exact B3. }
  assert (Hca : cv m3 (cn m1) = MInt 0) by (rewrite C3, upd_other by lia; rewrite C2; apply upd_same).
  assert (Hcb : cv m3 (cn m2) = MInt (Z.of_nat n)) by (rewrite C3, upd_same, N_nat_Z; reflexivity).
  assert (Hna : ~ In (cn m1) HL) by (apply (notin_HL_fresh _ _ _ _ _ _ _ _ _ _ (cn m1) HM); lia).
  assert (Hnb : ~ In (cn m2) HL) by (apply (notin_HL_fresh _ _ _ _ _ _ _ _ _ _ (cn m2) HM); lia).
  destruct (step5_buildrange cf funs _ _ _ _ _ _ _ _ _ _ _ _ _ _ B3' Hf4 Hca Hcb Hna Hnb) as (m4 & A4 & B4 & C4 & D4).
  remember (cn m3) as ch eqn:Ech0 in *.
  assert (Hf5 : fetch (code_of funs fn) (code_size pre + 1 + 3 + 3 + 1) = Some (IInvoke MIter 0)).
  { replace (code_size pre + 1 + 3 + 3 + 1) with (code_size pre + code_size [INil; IConst 0; IConst (N.of_nat n); IBuildRange]) by (cbn [code_size isize]; lia).
    eapply fetch_mid with (c2 := (loop_head lv X ++ cblock ++ [ILoop Y; IPop] ++ [oph; opi])%list) (post := post). rewrite Hcode. reflexivity. }
  destruct (step5_iter cf funs _ _ _ _ _ _ _ _ _ _ _ _ _ _ B4 Hf5 ltac:(rewrite C4; apply upd_same)) as (m5 & A5 & B5 & C5 & D5).
  assert (Ecn5 : cn m5 = S (S (S (S ci)))) by lia.
  assert (Ech : ch = S (S (S ci))) by lia.
  assert (Ecv5 : forall j, j < ci -> cv m5 j = cv m j).
  { intros j Hj. rewrite C5, upd_other by lia. rewrite C4, upd_other by lia. rewrite C3, upd_other by lia. rewrite C2, upd_other by lia.
    rewrite C1, upd_other by lia. reflexivity. }
  assert (Ecvi : cv m5 ci = MNil).
  { rewrite C5, upd_other by lia. rewrite C4, upd_other by lia. rewrite C3, upd_other by lia. rewrite C2, upd_other by lia. rewrite C1. apply upd_same. }
  assert (Ecvh : cv m5 ch = MIterV (Z.of_nat 0) (Z.of_nat n)) by (rewrite C5; apply upd_same).
  assert (B5' : MS5 hs m5 fn uvec (code_size pre1) base frs (CL ++ [ci; ch]) HL G O).
  { unfold pre1. rewrite code_size_app. replace (code_size pre + code_size (loop_pre n)) with (code_size pre + 1 + 3 + 3 + 1 + 4) by (cbn; lia).
    rewrite <- app_assoc in B5. exact B5. }
  pose proof (stn_len _ _ _ _ _ _ _ _ _ _ HS) as HlenK.
  assert (HnK : ~ In ci K) by (intro Hin; pose proof (stn_lt _ _ _ _ _ _ _ _ _ _ HS _ Hin); lia).
  assert (HnHi : ~ In ci HL) by (apply (notin_HL_fresh _ _ _ _ _ _ _ _ _ _ ci HM); lia).
  assert (HnHh : ~ In ch HL) by (apply (notin_HL_fresh _ _ _ _ _ _ _ _ _ _ ch HM); lia).
  assert (HK1 : exists e, (K ++ [ci])%list = (K ++ e)%list) by eauto.
  assert (ST5 : sto st1 (K ++ [ci]) HL (cv m5) (cn m5) G O).
  { change st1 with (fst (new_cell st SVNil)). apply STON_new; [|exact HnK|lia|rewrite Ecvi; constructor].
    destruct HS as [T1 T2 T3 T4 T5 T6]. constructor; auto.
    - intros k0 Hin. pose proof (T3 _ Hin). lia.
    - intros c1 Hc1. rewrite Ecv5; [apply T4; exact Hc1|]. assert (Hin : In (kc K c1) K) by (unfold kc; apply nth_In; lia). pose proof (T3 _ Hin). lia. }
  assert (HLR5 : LRBN (K ++ [ci]) (CL ++ [ci; ch]) HL base (lh :: li :: Lb') ((i, c) :: enb)).
  { rewrite Elh, Eli. constructor; [constructor|].
    - apply LRBN_K with (K := K); [|exact HK1]. apply LRBN_CL with (CL := CL); [exact HLRB|intros j Hj; apply app_nth1; lia].
    - rewrite app_length. cbn. lia.
    - rewrite HlenLb, HlenL0, <- HlenCL. change [ci; ch] with ([ci] ++ [ch])%list. rewrite app_assoc, app_nth1, nth_middle by (rewrite app_length; cbn; lia).
      unfold kc, c. rewrite <- HlenK, nth_middle. reflexivity.
    - unfold kc, c. rewrite <- HlenK, nth_middle. intro Hin. contradiction.
    - cbn [List.length]. rewrite HlenLb, HlenL0. replace (base + S lv) with (List.length (CL ++ [ci])) by (rewrite app_length; cbn [List.length]; lia).
      change [ci; ch] with ([ci] ++ [ch])%list. rewrite app_assoc, nth_middle. intro Hin. contradiction. }
  assert (HC5 : CTX (K ++ [ci]) (CL ++ [ci; ch]) HL base (lh :: li :: Lb') ((i, c) :: enb) Efin envs Ufin uvec).
  { constructor.
    - exact HLR5.
    - rewrite app_length. cbn [List.length]. lia.
    - apply (cx_envs _ _ _ _ _ _ _ _ _ _ HC).
    - eapply UR_mono; [apply (cx_ur _ _ _ _ _ _ _ _ _ _ HC)|exact HK1|exists []; now rewrite app_nil_r].
    - intros x0 c1 Hin. rewrite app_length. pose proof (cx_cells _ _ _ _ _ _ _ _ _ _ HC _ _ Hin). lia. }
  assert (HFLO5 : FLO lo base (CL ++ [ci; ch])).
  { change [ci; ch] with ([ci] ++ [ch])%list. rewrite app_assoc. apply FLO_snoc; [apply FLO_snoc; [exact HFLO|lia]|lia]. }
  assert (HchK5 : ~ In ch (K ++ [ci])).
  { intro Hin. apply in_app_or in Hin as [Hin|[Hin|[]]]; [pose proof (stn_lt _ _ _ _ _ _ _ _ _ _ HS _ Hin); lia|lia]. }
  (* the iterations *)
  destruct (loop_run (hs := hs) fu IHL b infun i n d L U E fs U1 E1 fs1 cblock lh li L0 Lb' Ufin Efin uvec envs enb c base fn frs pre1 X Y ([oph; opi] ++ post)%list
              start (start + code_size (loop_head lv 0) + code_size c0 + 3 + 1) lo ci Hf Eb Hdl Hsok Hfuns HFB' HU HF
              ltac:(rewrite Hcode; unfold pre1; now rewrite <- !app_assoc) Hstart
              ltac:(unfold X; rewrite Hsz; reflexivity) ltac:(unfold Y; rewrite Hsz; reflexivity)
              ltac:(rewrite Hstart, !code_size_app, <- Hsz; unfold loop_head; cbn [code_size isize]; lia) Hfrs
              n 0 st1 st3 ctl Eit Hg' ltac:(lia) (K ++ [ci])%list CL ci ch HL m5 G O ltac:(rewrite Hstart; exact B5') Ecvh ST5 HC5 HlenCL ltac:(lia) HFLO5
              ltac:(lia) ltac:(lia) HchK5)
    as (n8 & m8 & K8 & HL8 & G8 & O8 & S8 & ST8 & KX8 & HX8 & F8 & Hcn8 & Hres8).
  assert (Hst05 : steps cf funs 5 m m5).
  { exists m1. split; [exact A1|]. exists m2. split; [exact A2|]. exists m3. split; [exact A3|]. exists m4. split; [exact A4|]. now apply steps_one. }
  assert (HKX : KEXT K K8 ci (cn m8)).
  { destruct KX8 as (e8 & -> & He8). exists ([ci] ++ e8)%list. rewrite app_assoc. split; [reflexivity|].
    intros k0 Hin. apply in_app_or in Hin as [[<-|[]]|Hin]; [lia|apply He8 in Hin; lia]. }
  assert (HFR : forall j, j < ci -> ~ In j K -> cv m8 j = cv m j).
  { intros j Hj Hn. rewrite F8; [apply Ecv5; exact Hj|exact Hj|]. intro Hin. apply in_app_or in Hin as [Hin|[Hin|[]]]; [contradiction|lia]. }
  destruct ctl as [| | |w|w| |]; try contradiction.
  + destruct Hres8 as [M8 LR8].
    (* the scope end of the loop: the hidden iterator, then the loop variable *)
    set (exit := start + code_size (loop_head lv 0) + code_size c0 + 3 + 1) in *.
    assert (Hexit : exit = code_size (pre1 ++ loop_head lv X ++ cblock ++ [ILoop Y; IPop])).
    { unfold exit. rewrite Hstart, !code_size_app, <- Hsz. unfold loop_head. cbn [code_size isize]. lia. }
    assert (Hf6 : fetch (code_of funs fn) exit = Some oph).
    { rewrite Hexit. replace (code_size (pre1 ++ loop_head lv X ++ cblock ++ [ILoop Y; IPop])) with (code_size pre + code_size (loop_pre n ++ loop_head lv X ++ cblock ++ [ILoop Y; IPop])).
      - eapply fetch_mid with (c2 := [opi]) (post := post). rewrite Hcode. now rewrite <- !app_assoc.
      - symmetry. unfold pre1. rewrite <- app_assoc. apply code_size_app. }
    assert (M8' : MS5 hs m8 fn uvec exit base frs ((CL ++ [ci]) ++ [ch]) HL8 G8 O8) by (rewrite <- app_assoc; exact M8).
    assert (LR8' : LRBN K8 ((CL ++ [ci]) ++ [ch]) HL8 base (lh :: li :: Lb') ((i, c) :: enb)) by (rewrite <- app_assoc; exact LR8).
    destruct (scope_pop1 K8 (CL ++ [ci]) ch HL8 base lh (li :: Lb') _ m8 fn uvec exit frs G8 O8 LR8'
                ltac:(rewrite app_length; cbn [List.length]; lia) Hf6 M8') as (m9 & A9 & B9 & C9 & D9 & LR9).
    rewrite Hnh in LR9.
    assert (Hf7 : fetch (code_of funs fn) (exit + 1) = Some opi).
    { rewrite Hexit. replace (code_size (pre1 ++ loop_head lv X ++ cblock ++ [ILoop Y; IPop]) + 1) with (code_size pre + code_size (loop_pre n ++ loop_head lv X ++ cblock ++ [ILoop Y; IPop] ++ [oph])).
      - eapply fetch_mid with (c2 := []) (post := post). rewrite Hcode. now rewrite <- !app_assoc.
      - unfold pre1. rewrite <- !app_assoc, !code_size_app. cbn [code_size]. replace (isize oph) with 1 by (unfold oph; destruct (l_capt lh); reflexivity). lia. }
    destruct (scope_pop1 K8 CL ci HL8 base li Lb' _ m9 fn uvec (exit + 1) frs G8 O8 LR9 ltac:(lia) Hf7 B9) as (m10 & A10 & B10 & C10 & D10 & LR10).
    rewrite Hni in LR10. cbn [tl] in LR10.
    exists (5 + n8 + 2), m10, K8, HL8, G8, O8.
    split. { eapply steps_trans; [eapply steps_trans; [exact Hst05|exact S8]|]. exists m9. split; [exact A9|now apply steps_one]. }
    split; [rewrite C10, D10, C9, D9; exact ST8|]. split; [rewrite D10, D9; exact HKX|]. split; [exact HX8|].
    split. { intros j Hj Hn. rewrite C10, C9. apply HFR; [rewrite Eci; exact Hj|exact Hn]. }
    split. { rewrite D10, D9. lia. }
    exists CL, enb. split; [reflexivity|]. split.
    { assert (Hfin : forall c00, c00 = (loop_pre n ++ loop_head lv X ++ cblock ++ [ILoop Y; IPop] ++ [oph; opi])%list -> code_size pre + code_size c00 = exit + 1 + 1).
      { intros c00 ->. rewrite Hexit. unfold pre1. rewrite <- !app_assoc, !code_size_app. cbn [code_size].
        replace (isize oph) with 1 by (unfold oph; destruct (l_capt lh); reflexivity). replace (isize opi) with 1 by (unfold opi; destruct (l_capt li); reflexivity). lia. }
      match goal with |- context [code_size pre + code_size ?c00] => rewrite (Hfin c00 eq_refl) end. exact B10. }
    split; [exact LR10|]. split; [lia|]. split; [reflexivity|]. split; [exact HFLO|]. split; [now apply EXT2_flags|auto].
  + destruct Hres8 as (fn0 & ups0 & pc0 & base0 & frs' & cres & Q0 & Q1 & Q2 & Q3 & Q4 & Q5).
    exists (5 + n8), m8, K8, HL8, G8, O8.
    split; [eapply steps_trans; eauto|]. split; [exact ST8|]. split; [exact HKX|]. split; [exact HX8|].
    split. { intros j Hj Hn. apply HFR; [rewrite Eci; exact Hj|exact Hn]. }
    split; [lia|].
    exists fn0, ups0, pc0, base0, frs', cres. repeat (split; [assumption|]). split; [lia|]. split; assumption.
  + (* an iteration throws: the loop's two slots are temporaries below the exception value *)
    destruct Hres8 as (fn' & uvec' & pc1 & base' & frs' & t & cx & Q1 & Q2 & Q3 & Q4 & Q5).
    exists (5 + n8), m8, K8, HL8, G8, O8.
    split; [eapply steps_trans; eauto|]. split; [exact ST8|]. split; [exact HKX|]. split; [exact HX8|].
    split. { intros j Hj Hn. apply HFR; [rewrite Eci; exact Hj|exact Hn]. }
    split; [lia|].
    exists fn', uvec', pc1, base', frs', (ci :: ch :: t), cx.
    split. { replace ((CL ++ [ci; ch]) ++ t)%list with (CL ++ ci :: ch :: t)%list in Q1 by (rewrite <- app_assoc; reflexivity). exact Q1. }
    split; [exact Q2|]. split; [exact Q3|]. split; [exact Q4|].
    replace (List.length L0 - lv) with 0 by lia. cbn [skipn].
    rewrite Elh, Eli in Q5. eapply LRBN_loop_drop; [exact Q5|]. rewrite HlenLb, HlenL0. exact HlenCL.
Qed.

Lemma S_if : forall fu, E_goal fu -> ET_goal fu -> L_goal fu -> forall a c t e, S_at (S fu) (SIf a c t e).
Proof.
  intros fu IHE IHT IHL a c t e hs infun top inloop enb envs st st' en' ctl He Hf L d U E fs pos lc code L' U' E' fs' Hc Hg Ht Hdl Hd0 Hsok Hfuns
         Lm Ufin Efin uvec K CL HL base HFB HU HF HC HlenCL m fn frs G O pre post lo Hcode Hpos Hlc Hfrs Hlo HFLO HM HS.
  unfold RES. cbn [stmt7] in Hf.
  apply andb_prop in Hf as [Hf Hfe]. apply andb_prop in Hf as [Hf Hft]. apply andb_prop in Hf as [Hfa Hfc].
  rewrite nstmt_if in Hc.
  destruct (nexpr cf L a U E) as [[[ca U1] E1]|] eqn:Eca; [|discriminate].
  destruct (nexpr cf L c U1 E1) as [[[cc U2] E2]|] eqn:Ecc; [|discriminate]. cbv zeta in Hc.
  destruct (nblk cf t d L U2 E2 fs _ lc) as [[[[[ct L1] U3] E3] fs1]|] eqn:Et; [|discriminate].
  destruct (nblk cf e d L1 U3 E3 fs1 _ lc) as [[[[[cel L2] U4] E4] fs2]|] eqn:Ee; [|discriminate].
  inversion Hc; subst code L' U' E' fs'. clear Hc.
  assert (Hcode' : code_of funs fn = (pre ++ (ca ++ cc ++ [ILess; IJumpIfFalse (1 + code_size ct + 3); IPop] ++ ct ++ [IJump (1 + code_size cel); IPop] ++ cel) ++ post)%list) by exact Hcode.
  clear Hcode. rename Hcode' into Hcode.
  pose proof (forallb_stmt7_stmt7u _ _ _ _ _ Hft) as Hftu. pose proof (forallb_stmt7_stmt7u _ _ _ _ _ Hfe) as Hfeu.
  destruct (nexpr_ok cf a Hfa _ _ _ _ _ _ Eca) as [[xa ->] HFa].
  destruct (nexpr_ok cf c Hfc _ _ _ _ _ _ Ecc) as [[xc ->] HFc].
  destruct (nblk_ok cf t Hftu _ _ _ _ _ _ _ _ _ _ _ _ Et Hdl) as ([[xt ->] HFt] & [ft ->] & HFlt).
  pose proof (flags_up_depth_le _ _ _ HFlt Hdl) as Hdl1.
  destruct (nblk_ok cf e Hfeu _ _ _ _ _ _ _ _ _ _ _ _ Ee Hdl1) as ([[xe ->] HFe] & [fe ->] & HFle).
  pose proof (flags_up_length _ _ HFlt) as HlenL1. pose proof (flags_up_length _ _ HFle) as HlenL2.
  pose proof (flags_up_length _ _ HFB) as HlenLm.
  rewrite (mrg_same_len L L2 Lm ltac:(now rewrite HlenL2, HlenL1)).
  assert (HFl02 : flags_up L L2) by exact (flags_up_trans _ _ _ HFlt HFle).
  pose proof (cx_lrb _ _ _ _ _ _ _ _ _ _ HC) as HLRB. pose proof (cx_len _ _ _ _ _ _ _ _ _ _ HC) as HlenC.
  pose proof (nexpr_stack_ok cf a Hfa _ _ _ _ _ _ Eca Hsok) as Hsok1.
  pose proof (nexpr_stack_ok cf c Hfc _ _ _ _ _ _ Ecc Hsok1) as Hsok2.
  pose proof (nblk_sok_aux cf t (nlist_stack_ok cf t Hftu) _ _ _ _ _ _ _ _ _ _ _ _ Et Hsok2) as Hsok3.
  destruct HU as [ext ->].
  set (Ufin := (((((U ++ xa) ++ xc) ++ xt) ++ xe) ++ ext)%list) in *.
  assert (HE4 : levs_up E4 Efin) by exact HF.
  assert (HE3 : levs_up E3 Efin) by (eapply levs_up_trans; eauto).
  assert (HE2 : levs_up E2 Efin) by (eapply levs_up_trans; eauto).
  assert (HE1 : levs_up E1 Efin) by (eapply levs_up_trans; eauto).
  assert (Hlenx : base + List.length (skipn (List.length L2 - List.length L) (orf L2 Lm)) <= List.length CL).
  { replace (List.length L2 - List.length L) with 0 by lia. cbn [skipn]. rewrite orf_length. exact HlenC. }
  assert (HFx : flags_up Lm (skipn (List.length L2 - List.length L) (orf L2 Lm))).
  { replace (List.length L2 - List.length L) with 0 by lia. cbn [skipn]. apply flags_up_orf_r. lia. }
  assert (HLRx : LRBN K CL HL base (skipn (List.length L2 - List.length L) (orf L2 Lm)) enb) by (eapply LRBN_flags; [exact HLRB|exact HFx]).
  cbn [exec_stmt] in He.
  destruct (eval_expr fu a (enb ++ List.concat envs)%list st) as [st1 ra] eqn:Ea.
  destruct ra as [va|xv| |]; try (inversion He; subst; destruct Hg as [[Hg|[? Hg]]|[[_ [Hg|Hg]]|[? Hg]]]; discriminate).
  2: { (* the first operand throws *)
    inversion He; subst st' en' ctl. clear He.
    assert (HT : ETHR hs K CL HL base m fn uvec frs st1 xv).
    { apply (IHT hs a enb envs st st1 xv Ea Hfa L U E ca (U ++ xa)%list E1 Eca Lm Ufin Efin uvec K CL HL base HFB
              ltac:(exists (((xc ++ xt) ++ xe) ++ ext)%list; unfold Ufin; now rewrite <- !app_assoc) HE1 HC
              m fn frs G O pre ((cc ++ [ILess; IJumpIfFalse (1 + code_size ct + 3); IPop] ++ ct ++ [IJump (1 + code_size cel); IPop] ++ cel) ++ post)%list);
        [rewrite Hcode; now rewrite <- !app_assoc|exact HM|exact HS]. }
    exact (throw_out0 hs K CL HL base m fn uvec frs st st1 xv lo _ enb _ G O HT Hlo HM HS HLRx Hlenx). }
  (* a *)
  destruct (IHE hs a enb envs st st1 va Ea Hfa L U E ca (U ++ xa)%list E1 Eca Lm Ufin Efin uvec K CL HL base HFB
              ltac:(exists (((xc ++ xt) ++ xe) ++ ext)%list; unfold Ufin; now rewrite <- !app_assoc) HE1 HC
              m fn frs G O pre ((cc ++ [ILess; IJumpIfFalse (1 + code_size ct + 3); IPop] ++ ct ++ [IJump (1 + code_size cel); IPop] ++ cel) ++ post)%list)
    as (n1 & m1 & K1 & HL1 & c1 & G1 & O1 & S1 & M1 & ST1 & KX1 & HX1 & R1 & B1 & N1 & NH1 & F1).
  { rewrite Hcode. now rewrite <- !app_assoc. }
  { exact HM. }
  { exact HS. }
  assert (HC1 : CTX K1 (CL ++ [c1]) HL1 base Lm enb Efin envs Ufin uvec) by (eapply CTX_after; eauto).
  destruct (eval_expr fu c (enb ++ List.concat envs)%list st1) as [st2 rc] eqn:Ecx.
  destruct rc as [vc|xv| |]; try (inversion He; subst; destruct Hg as [[Hg|[? Hg]]|[[_ [Hg|Hg]]|[? Hg]]]; discriminate).
  2: { (* the second operand throws: the first one's value is a temporary below the exception value *)
    inversion He; subst st' en' ctl. clear He.
    assert (HT : ETHR hs K1 (CL ++ [c1]) HL1 base m1 fn uvec frs st2 xv).
    { apply (IHT hs c enb envs st1 st2 xv Ecx Hfc L (U ++ xa)%list E1 cc ((U ++ xa) ++ xc)%list E2 Ecc Lm Ufin Efin uvec K1 (CL ++ [c1])%list HL1 base HFB
              ltac:(exists ((xt ++ xe) ++ ext)%list; unfold Ufin; now rewrite <- !app_assoc) HE2 HC1
              m1 fn frs G1 O1 (pre ++ ca)%list (([ILess; IJumpIfFalse (1 + code_size ct + 3); IPop] ++ ct ++ [IJump (1 + code_size cel); IPop] ++ cel) ++ post)%list);
        [rewrite Hcode; now rewrite <- !app_assoc|rewrite code_size_app; exact M1|exact ST1]. }
    assert (HLR1 : LRBN K1 CL HL1 base (skipn (List.length L2 - List.length L) (orf L2 Lm)) enb).
    { rewrite <- (app_nil_r CL). eapply (LRBN_after (hs := hs)); [exact HLRx|exact Hlenx|exact HM|exact HS|exact KX1|exact HX1]. }
    destruct (throw_out hs K1 CL [c1] HL1 base m1 m1 0 fn uvec frs st1 st2 xv lo _ enb _ G1 O1 HT ltac:(reflexivity) (FRAMEC_refl _ _) (le_n _)
                ltac:(lia) M1 ST1 HLR1 Hlenx) as (n2 & m2 & K2 & HL2 & G2 & O2 & S2 & ST2 & KX2 & HX2 & F2 & Hcn2 & Hex).
    exists (n1 + n2), m2, K2, HL2, G2, O2.
    split; [eapply steps_trans; eauto|]. split; [exact ST2|].
    split; [apply (KEXT_trans K K1 K2 (cn m) (cn m1) (cn m2)); auto; lia|].
    split; [eapply HEXT_trans; [eapply HEXT_widen; [exact HX1|exact Hlo]|exact HX2|lia]|].
    split. { apply (FRAMEC_trans m m1 m2 K K1 F1 F2); [lia|]. intros j Hin. exact (KEXT_in _ _ _ _ _ KX1 Hin). }
    split; [lia|exact Hex]. }
  destruct va as [x| | | | |]; try (inversion He; subst; destruct Hg as [[Hg|[? Hg]]|[[_ [Hg|Hg]]|[? Hg]]]; discriminate).
  destruct vc as [y| | | | |]; try (inversion He; subst; destruct Hg as [[Hg|[? Hg]]|[[_ [Hg|Hg]]|[? Hg]]]; discriminate).
  destruct (exec_list fu (if (x <? y)%Z then t else e) (enb ++ List.concat envs)%list false st2) as [[st3 en3] c3] eqn:Eb.
  inversion He; subst st' en' c3. clear He.
  inversion R1 as [z Hz1 Hz2| | |]; subst z.
  (* c *)
  destruct (IHE hs c enb envs st1 st2 (SVInt y) Ecx Hfc L (U ++ xa)%list E1 cc ((U ++ xa) ++ xc)%list E2 Ecc Lm Ufin Efin uvec K1 (CL ++ [c1])%list HL1 base HFB
              ltac:(exists ((xt ++ xe) ++ ext)%list; unfold Ufin; now rewrite <- !app_assoc) HE2 HC1
              m1 fn frs G1 O1 (pre ++ ca)%list (([ILess; IJumpIfFalse (1 + code_size ct + 3); IPop] ++ ct ++ [IJump (1 + code_size cel); IPop] ++ cel) ++ post)%list)
    as (n2 & m2 & K2 & HL2 & c2 & G2 & O2 & S2 & M2 & ST2 & KX2 & HX2 & R2 & B2 & N2 & NH2 & F2).
  { rewrite Hcode. now rewrite <- !app_assoc. }
  { rewrite code_size_app. exact M1. }
  { exact ST1. }
  inversion R2 as [z Hz3 Hz4| | |]; subst z.
  rewrite <- app_assoc in M2. cbn [app] in M2.
  (* Less *)
  set (pre2 := ((pre ++ ca) ++ cc)%list).
  assert (Hcode2 : code_of funs fn = (pre2 ++ [ILess; IJumpIfFalse (1 + code_size ct + 3); IPop] ++ ct ++ [IJump (1 + code_size cel); IPop] ++ cel ++ post)%list).
  { rewrite Hcode. unfold pre2. now rewrite <- !app_assoc. }
  assert (Hpc2 : code_size (pre ++ ca) + code_size cc = code_size pre2) by (unfold pre2; now rewrite !code_size_app).
  rewrite Hpc2 in M2.
  assert (Hfe1 : fetch (code_of funs fn) (code_size pre2) = Some ILess) by (rewrite Hcode2; apply fetch_app).
  assert (Hc1v : cv m2 c1 = MInt x) by (rewrite F2; [congruence|lia|exact N1]).
  assert (Hh1 : ~ In c1 HL2) by (apply (notin_HEXT HL1 HL2 (cn m1) c1 NH1 HX2); lia).
  destruct (step5_less cf funs _ _ _ _ _ _ _ _ _ _ _ _ _ _ M2 Hfe1 Hc1v (eq_sym Hz4) Hh1 NH2) as (m3 & A3 & B3 & C3 & D3).
  destruct (sto_push _ _ _ _ _ _ _ _ ST2 C3 D3) as (S31 & S32 & S33).
  assert (HnH3 : ~ In (cn m2) HL2) by (apply (notin_HL_fresh _ _ _ _ _ _ _ _ _ _ (cn m2) M2); lia).
  (* JumpIfFalse *)
  assert (Hfe2 : fetch (code_of funs fn) (code_size pre2 + 1) = Some (IJumpIfFalse (1 + code_size ct + 3))).
  { replace (code_size pre2 + 1) with (code_size pre2 + code_size [ILess]) by reflexivity.
    eapply fetch_mid with (c2 := (IPop :: ct ++ [IJump (1 + code_size cel); IPop] ++ cel)%list) (post := post).
    rewrite Hcode2. cbn. now rewrite <- !app_assoc. }
  assert (Hbv : cv m3 (cn m2) = MBool (x <? y)%Z) by (rewrite C3; apply upd_same).
  destruct (step5_jumpiffalse cf funs _ _ _ _ _ _ _ _ _ _ _ _ _ B3 Hfe2 Hbv) as (m4 & A4 & B4 & C4 & D4).
  (* common bookkeeping *)
  assert (Hcn12 : cn m <= cn m1 /\ cn m1 <= cn m2) by lia.
  assert (HKX2 : KEXT K K2 (cn m) (cn m2)) by (apply (KEXT_trans K K1 K2 (cn m) (cn m1) (cn m2)); auto; lia).
  assert (HHX2 : HEXT HL HL2 (cn m)) by (eapply HEXT_trans; eauto; lia).
  assert (ST4 : sto st2 K2 HL2 (cv m4) (cn m4) G2 O2) by (rewrite C4, D4; exact S31).
  assert (HnK3 : ~ In (cn m2) K2) by exact S32.
  assert (HC2 : CTX K2 CL HL2 base Lm enb Efin envs Ufin uvec).
  { rewrite <- (app_nil_r CL). eapply CTX_after; eauto. }
  assert (HF04 : FRAMEC m m4 K).
  { intros j Hj Hn. rewrite C4, C3, upd_other by lia. rewrite F2; [apply F1; auto|lia|].
    intro Hin. destruct (KEXT_in _ _ _ _ _ KX1 Hin) as [Hi|Hi]; [contradiction|lia]. }
  assert (Hsz3 : code_size [ILess; IJumpIfFalse (1 + code_size ct + 3); IPop] = 5) by reflexivity.
  assert (Hpost : pos + code_size ca + code_size cc + code_size [ILess; IJumpIfFalse 0; IPop] = code_size (pre2 ++ [ILess; IJumpIfFalse (1 + code_size ct + 3); IPop])).
  { rewrite Hpos. unfold pre2. rewrite !code_size_app. cbn [code_size isize]. lia. }
  assert (Hfin : forall c0, c0 = (ca ++ cc ++ [ILess; IJumpIfFalse (1 + code_size ct + 3); IPop] ++ ct ++ [IJump (1 + code_size cel); IPop] ++ cel)%list ->
                 code_size pre + code_size c0 = code_size pre2 + 5 + code_size ct + 4 + code_size cel).
  { intros c0 ->. unfold pre2. rewrite !code_size_app. cbn [code_size isize]. lia. }
  assert (Hlcf : forall l, lc = Some l -> lc_depth l < d /\ lc_start l <= code_size pre /\ code_size pre2 + 5 + code_size ct + 4 + code_size cel <= lc_exit l /\ TIGHT (lc_depth l) L Lm).
  { intros l El0. destruct (Hlc l El0) as (W1 & W2 & W3 & W4). match type of W3 with code_size pre + code_size ?c0 <= _ => rewrite (Hfin c0 eq_refl) in W3 end. auto. }
  match goal with |- context [code_size pre + code_size ?c0] => rewrite (Hfin c0 eq_refl) end.
  assert (Hpre2 : code_size pre <= code_size pre2) by (unfold pre2; rewrite !code_size_app; lia).
  (* the flags: the final ones dominate what either branch produces *)
  set (Lb' := orf L2 Lm).
  assert (Hup1 : flags_up (orf L1 Lm) Lb') by (apply orf_mono; exact HFle).
  destruct (x <? y)%Z eqn:Exy.
  + (* then *)
    assert (Hfe3 : fetch (code_of funs fn) (code_size pre2 + 1 + 3) = Some IPop).
    { replace (code_size pre2 + 1 + 3) with (code_size pre2 + code_size [ILess; IJumpIfFalse (1 + code_size ct + 3)]) by (cbn; lia).
      eapply fetch_mid with (c2 := (ct ++ [IJump (1 + code_size cel); IPop] ++ cel)%list) (post := post).
      rewrite Hcode2. cbn. now rewrite <- !app_assoc. }
    destruct (step5_pop cf funs _ _ _ _ _ _ _ _ _ _ _ B4 Hfe3 HnH3) as (m5 & A5 & B5 & C5 & D5).
    assert (ST5 : sto st2 K2 HL2 (cv m5) (cn m5) G2 O2) by (rewrite C5, D5; exact ST4).
    assert (HM5 : MS5 hs m5 fn uvec (code_size (pre2 ++ [ILess; IJumpIfFalse (1 + code_size ct + 3); IPop])) base frs CL HL2 G2 O2).
    { rewrite code_size_app, Hsz3. replace (code_size pre2 + 5) with (code_size pre2 + 1 + 3 + 1) by lia. exact B5. }
    assert (Hlct : LCOK lc (S d) L Lm (code_size (pre2 ++ [ILess; IJumpIfFalse (1 + code_size ct + 3); IPop]))
                     (code_size (pre2 ++ [ILess; IJumpIfFalse (1 + code_size ct + 3); IPop]) + code_size ct)).
    { intros l El0. destruct (Hlcf l El0) as (W1 & W2 & W3 & W4). rewrite code_size_app, Hsz3. repeat split; auto; lia. }
    destruct (block_run (hs := hs) fu IHL t infun inloop enb envs st2 st3 en3 ctl Eb Hft L d _ E2 fs _ lc ct L1 _ E3 _ Et Hg Hdl Hsok2
                ltac:(destruct Hfuns as [e0 ->]; exists (fe ++ e0)%list; now rewrite <- app_assoc)
                Lm Ufin Efin uvec K2 CL HL2 base HFB ltac:(exists (xe ++ ext)%list; unfold Ufin; now rewrite <- !app_assoc) HE3 HC2 HlenCL
                m5 fn frs G2 O2 (pre2 ++ [ILess; IJumpIfFalse (1 + code_size ct + 3); IPop])%list (([IJump (1 + code_size cel); IPop] ++ cel) ++ post)%list lo)
      as (n6 & m6 & K6 & HL6 & G6 & O6 & S6 & ST6 & KX6 & HX6 & F6 & Hcn6 & Hres6); auto.
    { rewrite Hcode2. now rewrite <- !app_assoc. }
    { rewrite D5, D4, D3. lia. }
    rewrite (mrg_same_len L L1 Lm HlenL1) in Hres6.
    assert (Hst05 : steps cf funs (n1 + (n2 + 3)) m m5).
    { apply (steps_trans cf funs n1 _ m m1 m5 S1). apply (steps_trans cf funs n2 3 m1 m2 m5 S2).
      exists m3. split; [exact A3|]. exists m4. split; [exact A4|]. now apply steps_one. }
    assert (Hcn5 : cn m5 = S (cn m2)) by (rewrite D5, D4, D3; reflexivity).
    assert (HF05 : FRAMEC m m5 K) by (intros j Hj Hn; rewrite C5; apply HF04; auto).
    assert (HKX6 : KEXT K K6 (cn m) (cn m6)).
    { apply (KEXT_trans K K2 K6 (cn m) (cn m5) (cn m6)); [eapply KEXT_widen; [exact HKX2|lia|lia]|exact KX6|lia|lia]. }
    assert (HHX6 : HEXT HL HL6 lo) by (eapply HEXT_trans; [eapply HEXT_widen; [exact HHX2|exact Hlo]|exact HX6|lia]).
    assert (HF06 : FRAMEC m m6 K).
    { apply (FRAMEC_trans m m5 m6 K K2 HF05 F6); [lia|]. intros j Hin. exact (KEXT_in _ _ _ _ _ HKX2 Hin). }
    destruct ctl as [| | |w| | |]; try (destruct Hg as [[Hg|[? Hg]]|[[_ [Hg|Hg]]|[? Hg]]]; discriminate).
    * destruct Hres6 as (CL6 & enb6 & Een & M6 & LR6 & Len6 & Hfirst6 & HFLO6 & X6 & Y6).
      (* the jump over the else branch *)
      assert (Hfe7 : fetch (code_of funs fn) (code_size (pre2 ++ [ILess; IJumpIfFalse (1 + code_size ct + 3); IPop]) + code_size ct) = Some (IJump (1 + code_size cel))).
      { eapply fetch_mid with (c2 := (IPop :: cel)%list) (post := post). rewrite Hcode2. now rewrite <- !app_assoc. }
      destruct (step5_jump cf funs _ _ _ _ _ _ _ _ _ _ _ M6 Hfe7) as (m7 & A7 & B7 & C7 & D7).
      exists (n1 + (n2 + 3) + n6 + 1), m7, K6, HL6, G6, O6.
      split. { eapply steps_trans; [eapply steps_trans; eauto|now apply steps_one]. }
      split; [rewrite C7, D7; exact ST6|]. split; [rewrite D7; exact HKX6|]. split; [exact HHX6|].
      split; [intros j Hj Hn; rewrite C7; apply HF06; auto|]. split; [lia|].
      exists CL6, enb6. split; [exact Een|]. split.
      { replace (code_size pre2 + 5 + code_size ct + 4 + code_size cel)
          with (code_size (pre2 ++ [ILess; IJumpIfFalse (1 + code_size ct + 3); IPop]) + code_size ct + 3 + (1 + code_size cel)); [exact B7|].
        rewrite code_size_app, Hsz3. lia. }
      split; [eapply LRBN_flags; [exact LR6|exact Hup1]|]. split; [rewrite Len6; lia|]. split; [exact Hfirst6|]. split; [exact HFLO6|].
      split; [|exact Y6].
      destruct X6 as (N6 & Ne6 & L06 & EN6 & HFl6 & -> & HNlen6 & HN6).
      destruct N6 as [|l6 N6].
      -- destruct Ne6; [|discriminate]. cbn [app] in *. apply EXT2_flags. exact HFl02.
      -- exfalso. apply (f_equal (@List.length local)) in EN6. rewrite app_length, (flags_up_length _ _ HFl6) in EN6. cbn in EN6. lia.
    * destruct Hres6 as (l & El0 & Q1 & Q2).
      exists (n1 + (n2 + 3) + n6), m6, K6, HL6, G6, O6. split; [eapply steps_trans; eauto|]. split; [exact ST6|]. split; [exact HKX6|].
      split; [exact HHX6|]. split; [exact HF06|]. split; [lia|].
      exists l. split; [exact El0|]. split; [exact Q1|]. eapply LRBN_flags; [exact Q2|]. apply cutL_flags. exact Hup1.
    * destruct Hres6 as (l & El0 & Q1 & Q2).
      exists (n1 + (n2 + 3) + n6), m6, K6, HL6, G6, O6. split; [eapply steps_trans; eauto|]. split; [exact ST6|]. split; [exact HKX6|].
      split; [exact HHX6|]. split; [exact HF06|]. split; [lia|].
      exists l. split; [exact El0|]. split; [exact Q1|]. eapply LRBN_flags; [exact Q2|]. apply cutL_flags. exact Hup1.
    * exists (n1 + (n2 + 3) + n6), m6, K6, HL6, G6, O6. split; [eapply steps_trans; eauto|]. split; [exact ST6|]. split; [exact HKX6|].
      split; [exact HHX6|]. split; [exact HF06|]. split; [lia|].
      destruct Hres6 as (fn0 & ups0 & pc0 & base0 & frs' & cres & Q0 & Q1 & Q2 & Q3 & Q4 & Q5).
      exists fn0, ups0, pc0, base0, frs', cres. repeat (split; [assumption|]). split; [lia|]. split; assumption.
    * (* the then block throws *)
      exists (n1 + (n2 + 3) + n6), m6, K6, HL6, G6, O6. split; [eapply steps_trans; eauto|]. split; [exact ST6|]. split; [exact HKX6|].
      split; [exact HHX6|]. split; [exact HF06|]. split; [lia|].
      destruct Hres6 as (fn' & uvec' & pc1 & base' & frs' & t' & cx & Q1 & Q2 & Q3 & Q4 & Q5).
      exists fn', uvec', pc1, base', frs', t', cx. repeat (split; [assumption|]).
      replace (List.length L2 - List.length L) with 0 by lia. replace (List.length L1 - List.length L) with 0 in Q5 by lia.
      cbn [skipn] in *. eapply LRBN_flags; [exact Q5|exact Hup1].
  + (* else *)
    assert (Hfe3 : fetch (code_of funs fn) (code_size pre2 + 1 + 3 + (1 + code_size ct + 3)) = Some IPop).
    { replace (code_size pre2 + 1 + 3 + (1 + code_size ct + 3))
        with (code_size pre2 + code_size ([ILess; IJumpIfFalse (1 + code_size ct + 3); IPop] ++ ct ++ [IJump (1 + code_size cel)])).
      - eapply fetch_mid with (c2 := cel) (post := post). rewrite Hcode2. now rewrite <- !app_assoc.
      - rewrite !code_size_app. cbn [code_size isize]. lia. }
    destruct (step5_pop cf funs _ _ _ _ _ _ _ _ _ _ _ B4 Hfe3 HnH3) as (m5 & A5 & B5 & C5 & D5).
    assert (ST5 : sto st2 K2 HL2 (cv m5) (cn m5) G2 O2) by (rewrite C5, D5; exact ST4).
    set (pre3 := (pre2 ++ [ILess; IJumpIfFalse (1 + code_size ct + 3); IPop] ++ ct ++ [IJump (1 + code_size cel); IPop])%list).
    assert (Hsz3' : code_size pre3 = code_size pre2 + 5 + code_size ct + 4) by (unfold pre3; rewrite !code_size_app; cbn [code_size isize]; lia).
    assert (HM5 : MS5 hs m5 fn uvec (code_size pre3) base frs CL HL2 G2 O2).
    { rewrite Hsz3'. replace (code_size pre2 + 5 + code_size ct + 4) with (code_size pre2 + 1 + 3 + (1 + code_size ct + 3) + 1) by lia. exact B5. }
    (* the static locals of the else block carry the flags raised by compiling the then block *)
    set (Lm1 := orf L1 Lm).
    assert (HFB1 : flags_up L1 Lm1) by (eapply flags_up_orf_l; eauto).
    assert (HFBm1 : flags_up Lm Lm1) by (apply flags_up_orf_r; rewrite HlenL1, HlenLm; reflexivity).
    pose proof (CTX_flags _ _ _ _ _ _ _ _ _ _ _ HC2 HFBm1) as HC2'.
    assert (Hlce : LCOK lc (S d) L1 Lm1 (code_size pre3) (code_size pre3 + code_size cel)).
    { intros l El0. destruct (Hlcf l El0) as (W1 & W2 & W3 & W4). rewrite Hsz3'. split; [lia|]. split; [lia|]. split; [lia|].
      exact (TIGHT_orf _ _ _ _ W4 HFlt HFB). }
    destruct (block_run (hs := hs) fu IHL e infun inloop enb envs st2 st3 en3 ctl Eb Hfe L1 d _ E3 _ _ lc cel L2 _ E4 _ Ee Hg Hdl1 Hsok3 Hfuns
                Lm1 Ufin Efin uvec K2 CL HL2 base HFB1 ltac:(exists ext; reflexivity) HE4 HC2' ltac:(rewrite HlenL1; exact HlenCL)
                m5 fn frs G2 O2 pre3 post lo)
      as (n6 & m6 & K6 & HL6 & G6 & O6 & S6 & ST6 & KX6 & HX6 & F6 & Hcn6 & Hres6); auto.
    { rewrite Hcode2. unfold pre3. now rewrite <- !app_assoc. }
    { rewrite Hsz3', Hpost, code_size_app, Hsz3. cbn [code_size isize]. lia. }
    { rewrite D5, D4, D3. lia. }
    rewrite (mrg_same_len L1 L2 Lm1 HlenL2) in Hres6. unfold Lm1 in Hres6. rewrite (orf_orf _ _ Lm HFle) in Hres6. fold Lb' in Hres6.
    assert (Hst05 : steps cf funs (n1 + (n2 + 3)) m m5).
    { apply (steps_trans cf funs n1 _ m m1 m5 S1). apply (steps_trans cf funs n2 3 m1 m2 m5 S2).
      exists m3. split; [exact A3|]. exists m4. split; [exact A4|]. now apply steps_one. }
    assert (Hcn5 : cn m5 = S (cn m2)) by (rewrite D5, D4, D3; reflexivity).
    assert (HF05 : FRAMEC m m5 K) by (intros j Hj Hn; rewrite C5; apply HF04; auto).
    assert (HKX6 : KEXT K K6 (cn m) (cn m6)).
    { apply (KEXT_trans K K2 K6 (cn m) (cn m5) (cn m6)); [eapply KEXT_widen; [exact HKX2|lia|lia]|exact KX6|lia|lia]. }
    assert (HHX6 : HEXT HL HL6 lo) by (eapply HEXT_trans; [eapply HEXT_widen; [exact HHX2|exact Hlo]|exact HX6|lia]).
    assert (HF06 : FRAMEC m m6 K).
    { apply (FRAMEC_trans m m5 m6 K K2 HF05 F6); [lia|]. intros j Hin. exact (KEXT_in _ _ _ _ _ HKX2 Hin). }
    exists (n1 + (n2 + 3) + n6), m6, K6, HL6, G6, O6.
    split; [eapply steps_trans; eauto|]. split; [exact ST6|]. split; [exact HKX6|].
    split; [exact HHX6|]. split; [exact HF06|]. split; [lia|].
    destruct ctl as [| | |w| | |]; try (destruct Hg as [[Hg|[? Hg]]|[[_ [Hg|Hg]]|[? Hg]]]; discriminate).
    * destruct Hres6 as (CL6 & enb6 & Een & M6 & LR6 & Len6 & Hfirst6 & HFLO6 & X6 & Y6).
      exists CL6, enb6. split; [exact Een|]. split.
      { rewrite Hsz3' in M6. exact M6. }
      split; [exact LR6|]. split; [exact Len6|]. split; [rewrite <- HlenL1; exact Hfirst6|]. split; [exact HFLO6|].
      split; [|exact Y6].
      destruct X6 as (N6 & Ne6 & L06 & EN6 & HFl6 & -> & HNlen6 & HN6).
      destruct N6 as [|l6 N6].
      -- destruct Ne6; [|discriminate]. cbn [app] in *. apply EXT2_flags. exact HFl02.
      -- exfalso. apply (f_equal (@List.length local)) in EN6. rewrite app_length, (flags_up_length _ _ HFl6) in EN6. cbn in EN6. lia.
    * destruct Hres6 as (l & El0 & Q1 & Q2). exists l. split; [exact El0|].
      rewrite (cutL_length_flags (lc_depth l) _ _ HFlt) in Q1, Q2. rewrite <- (cutE_flags (lc_depth l) _ _ enb HFlt) in Q2. split; [exact Q1|exact Q2].
    * destruct Hres6 as (l & El0 & Q1 & Q2). exists l. split; [exact El0|].
      rewrite (cutL_length_flags (lc_depth l) _ _ HFlt) in Q1, Q2. rewrite <- (cutE_flags (lc_depth l) _ _ enb HFlt) in Q2. split; [exact Q1|exact Q2].
    * destruct Hres6 as (fn0 & ups0 & pc0 & base0 & frs' & cres & Q0 & Q1 & Q2 & Q3 & Q4 & Q5).
      exists fn0, ups0, pc0, base0, frs', cres. repeat (split; [assumption|]). split; [lia|]. split; assumption.
    * (* the else block throws *)
      destruct Hres6 as (fn' & uvec' & pc1 & base' & frs' & t' & cx & Q1 & Q2 & Q3 & Q4 & Q5).
      exists fn', uvec', pc1, base', frs', t', cx. repeat (split; [assumption|]).
      replace (List.length L2 - List.length L) with 0 by lia. replace (List.length L2 - List.length L1) with 0 in Q5 by lia.
      exact Q5.
Qed.

(* ------------------------------------------------------------------------------------------ *)
(* throw e *)
Lemma S_throw : forall fu, E_goal fu -> ET_goal fu -> L_goal fu -> forall e, S_at (S fu) (SThrow e).
Proof.
  intros fu IHE IHT IHL e hs infun top inloop enb envs st st' en' ctl He Hf L d U E fs pos lc code L' U' E' fs' Hc Hg Ht Hdl Hd0 Hsok Hfuns
         Lm Ufin Efin uvec K CL HL base HFB HU HF HC HlenCL m fn frs G O pre post lo Hcode Hpos Hlc Hfrs Hlo HFLO HM HS.
  unfold RES. cbn [stmt7] in Hf.
  cbn [exec_stmt] in He. destruct (eval_expr fu e (enb ++ List.concat envs)%list st) as [st1 rr] eqn:Ee.
  cbn [nstmt] in Hc. destruct (nexpr cf L e U E) as [[[ce U1] E1]|] eqn:Ec; [|discriminate].
  inversion Hc; subst code L' U' E' fs'. clear Hc. rewrite Nat.sub_diag. cbn [skipn]. rewrite (mrg_same L Lm HFB).
  pose proof (cx_lrb _ _ _ _ _ _ _ _ _ _ HC) as HLRB. pose proof (cx_len _ _ _ _ _ _ _ _ _ _ HC) as HlenC.
  destruct rr as [v|xv| |]; try (inversion He; subst; destruct Hg as [[Hg|[? Hg]]|[[_ [Hg|Hg]]|[? Hg]]]; discriminate).
  - (* e evaluates to v: the Throw instruction itself *)
    inversion He; subst st' en' ctl. clear He Hg.
    destruct (IHE hs e enb envs st st1 v Ee Hf L U E ce U1 E1 Ec Lm Ufin Efin uvec K CL HL base HFB HU HF HC m fn frs G O pre ([IThrow] ++ post)%list)
      as (n1 & m1 & K1 & HL1 & c1 & G1 & O1 & S1 & M1 & ST1 & KX1 & HX1 & R1 & B1 & N1 & NH1 & F1).
    { rewrite Hcode. now rewrite <- app_assoc. }
    { exact HM. }
    { exact HS. }
    assert (Hfe : fetch (code_of funs fn) (code_size pre + code_size ce) = Some IThrow).
    { eapply fetch_mid with (c2 := []) (post := post). exact Hcode. }
    exists n1, m1, K1, HL1, G1, O1.
    split; [exact S1|]. split; [exact ST1|]. split; [exact KX1|]. split; [eapply HEXT_widen; eauto|]. split; [exact F1|]. split; [lia|].
    exists fn, uvec, (code_size pre + code_size ce), base, frs, [], c1.
    split; [rewrite app_nil_r; exact M1|]. split; [exact Hfe|]. split; [apply above_refl|]. split; [exact R1|].
    rewrite <- (app_nil_r CL). eapply (LRBN_after (hs := hs)); eauto.
  - (* e throws *)
    inversion He; subst st' en' ctl. clear He Hg.
    pose proof (IHT hs e enb envs st st1 xv Ee Hf L U E ce U1 E1 Ec Lm Ufin Efin uvec K CL HL base HFB HU HF HC m fn frs G O pre ([IThrow] ++ post)%list) as HT.
    eapply (throw_out0 hs K CL HL base m fn uvec frs st st1 xv lo Lm enb (code_size pre) G O); eauto.
    apply HT; auto. rewrite Hcode. now rewrite <- app_assoc.
Qed.

(* ------------------------------------------------------------------------------------------ *)
(* try { b } catch x { h } *)

Lemma firstn_app_all : forall A (a b : list A), firstn (List.length a) (a ++ b) = a.
Proof. intros A a b. rewrite firstn_app, Nat.sub_diag, firstn_all. cbn. now rewrite app_nil_r. Qed.

Lemma list_eq_firstn : forall A (a b : list A) n, List.length a = n -> List.length b = n -> firstn n a = firstn n b -> a = b.
Proof. intros A a b n Ha Hb H. rewrite <- Ha in H at 1. rewrite <- Hb in H. now rewrite !firstn_all in H. Qed.

Lemma S_try : forall fu, L_goal fu -> forall b x h, S_at (S fu) (STry b x h).
Proof.
  intros fu IHL b x h hs infun top inloop enb envs st st' en' ctl He Hf L d U E fs pos lc code L' U' E' fs' Hc Hg Ht Hdl Hd0 Hsok Hfuns
         Lm Ufin Efin uvec K CL HL base HFB HU HF HC HlenCL m fn frs G O pre post lo Hcode Hpos Hlc Hfrs Hlo HFLO HM HS.
  unfold RES. cbn [stmt7] in Hf. apply andb_prop in Hf as [Hfb Hfh].
  cbn [exec_stmt] in He.
  destruct (exec_list fu b (enb ++ List.concat envs)%list false st) as [[st1 en1] c1] eqn:Eb.
  rewrite nstmt_try, Hcatchpops in Hc. cbv zeta in Hc. cbn [code_size app] in Hc.
  destruct (nblk cf b d L U E fs (pos + 5) lc) as [[[[[cb L1] U1] E1] fs1]|] eqn:Cb; [|discriminate].
  destruct (dup_in_scope L1 x (S d)); [discriminate|]. destruct (List.length L1 =? c_locals_max cf); [discriminate|].
  set (xl := mkLocal (Some x) (Some (S d)) false) in *.
  destruct (nlist cf h (S d) (xl :: L1) U1 E1 fs1 (pos + 5 + code_size cb + 4 + 0) lc) as [[[[[ch L2] U2] E2] fs2]|] eqn:Ch; [|discriminate].
  inversion Hc; subst code L' U' E' fs'. clear Hc.
  (* static facts *)
  destruct (nblk_ok cf b (forallb_stmt7_stmt7u _ _ _ _ _ Hfb) _ _ _ _ _ _ _ _ _ _ _ _ Cb Hdl) as ((HUb1 & HE1) & Hfs1 & HFl1).
  pose proof (flags_up_length _ _ HFl1) as HlenL1.
  pose proof (flags_up_depth_le _ _ _ HFl1 Hdl) as HdL1.
  assert (Hdx : depth_le (S d) (xl :: L1)) by (constructor; [cbn; lia|now apply depth_le_S]).
  destruct (nlist_ok cf h (forallb_stmt7_stmt7u _ _ _ _ _ Hfh) _ _ _ _ _ _ _ _ _ _ _ _ Ch Hdx) as ((HUb2 & HE2) & Hfs2 & (Nh & L0h & EL2 & HFlh & HDh)).
  inversion HFlh as [|? xl' ? L10 (Xn & Xd & _) HFl10]; subst. destruct xl' as [xn xd xb]. cbn in Xn, Xd. subst xn xd.
  pose proof (flags_up_length _ _ HFl10) as HlenL10.
  pose proof (flags_up_depth_le _ _ _ HFl10 HdL1) as HdL10.
  set (xl' := mkLocal (Some x) (Some (S d)) xb) in *.
  assert (HDh' : Forall (fun l => l_depth l = Some (S d)) (Nh ++ [xl'])) by (apply Forall_app; split; [exact HDh|constructor; [reflexivity|constructor]]).
  assert (Eops : List.length (scope_end_ops (Nh ++ xl' :: L10) d) = List.length (Nh ++ [xl'])).
  { replace (Nh ++ xl' :: L10)%list with ((Nh ++ [xl']) ++ L10)%list by (now rewrite <- app_assoc). now apply scope_end_len. }
  assert (EL' : skipn (List.length (scope_end_ops (Nh ++ xl' :: L10) d)) (Nh ++ xl' :: L10) = L10).
  { rewrite Eops. replace (Nh ++ xl' :: L10)%list with ((Nh ++ [xl']) ++ L10)%list by (now rewrite <- app_assoc). apply skipn_app_len. }
  rewrite EL'. rewrite (mrg_same_len L L10 Lm) by lia. replace (List.length L10 - List.length L) with 0 by lia. cbn [skipn].
  set (ops := scope_end_ops (Nh ++ xl' :: L10) d) in *.
  set (pe := IPushExc (code_size cb + 4) (code_size (ch ++ ops))) in *.
  set (jm := IJump (code_size (ch ++ ops))) in *.
  assert (HFL10 : flags_up L L10) by (eapply flags_up_trans; eauto).
  assert (Hsok1 : stack_ok U1 E1).
  { eapply (nstmt_stack_ok cf (SBlock b)); [cbn; exact (forallb_stmt7_stmt7u _ _ _ _ _ Hfb)|rewrite nstmt_block; exact Cb|exact Hsok]. }
  assert (Hfuns1 : exists ext, funs = (fs1 ++ ext)%list).
  { destruct Hfuns as [e0 ->]. destruct Hfs2 as [e2 ->]. exists (e2 ++ e0)%list. now rewrite app_assoc. }
  assert (HU1 : exists ext, Ufin = (U1 ++ ext)%list).
  { destruct HU as [e0 ->]. destruct HUb2 as [e2 ->]. exists (e2 ++ e0)%list. now rewrite app_assoc. }
  assert (HF1 : levs_up E1 Efin) by (eapply levs_up_trans; eauto).
  pose proof (cx_lrb _ _ _ _ _ _ _ _ _ _ HC) as HLRB. pose proof (cx_len _ _ _ _ _ _ _ _ _ _ HC) as HlenC.
  pose proof (flags_up_length _ _ HFB) as HlenLm.
  (* PushExcHandler *)
  assert (Hfe0 : fetch (code_of funs fn) (code_size pre) = Some pe) by (rewrite Hcode; apply fetch_app).
  destruct (step5_pushexc cf funs hs m fn uvec (code_size pre) base frs CL HL G O _ _ HM Hfe0) as (m0 & A0 & B0 & C0 & D0).
  set (h0 := mkH (code_size pre + 5 + (code_size cb + 4)) (List.length CL) (S (List.length frs))) in *.
  assert (HS0 : sto st K HL (cv m0) (cn m0) G O) by (rewrite C0, D0; exact HS).
  assert (Hcode0 : code_of funs fn = ((pre ++ [pe]) ++ cb ++ ([IPopExc; jm] ++ (ch ++ ops) ++ post))%list).
  { rewrite Hcode. repeat (rewrite <- app_assoc; cbn [app]). reflexivity. }
  assert (Hpos0 : code_size pre + 5 = code_size (pre ++ [pe])) by (rewrite code_size_app; cbn [code_size isize pe]; lia).
  assert (Hlc0 : LCOK lc (S d) L Lm (code_size (pre ++ [pe])) (code_size (pre ++ [pe]) + code_size cb)).
  { intros l El0. destruct (Hlc l El0) as (A1 & A2 & A3 & A4). rewrite <- Hpos0.
    cbn [code_size isize pe] in A3. rewrite !code_size_app in A3. cbn [code_size isize jm] in A3. rewrite ?code_size_app in A3. repeat split; auto; lia. }
  (* which outcomes can the try block have *)
  pose proof (proj2 (frag_ctl fu) _ _ _ _ _ _ _ _ _ _ Eb Hfb) as [Hnoret Hnobrk].
  assert (Hc1 : c1 = CNorm \/ exists v, c1 = CThrow v).
  { destruct c1 as [| | |w|w|w|w].
    - now left.
    - exfalso. specialize (Hnobrk (or_introl eq_refl)). discriminate.
    - exfalso. specialize (Hnobrk (or_intror eq_refl)). discriminate.
    - exfalso. specialize (Hnoret w eq_refl). discriminate.
    - right. eauto.
    - exfalso. inversion He; subst. destruct Hg as [[Hg|[? Hg]]|[[_ [Hg|Hg]]|[? Hg]]]; discriminate.
    - exfalso. inversion He; subst. destruct Hg as [[Hg|[? Hg]]|[[_ [Hg|Hg]]|[? Hg]]]; discriminate. }
  assert (Hg1 : goodl lc c1) by (destruct Hc1 as [->|[v ->]]; [left; now left|apply goodl_throw]).
  assert (B0' : MS5 (h0 :: hs) m0 fn uvec (code_size (pre ++ [pe])) base frs CL HL G O) by (rewrite <- Hpos0; exact B0).
  pose proof (block_run (hs := h0 :: hs) fu IHL b false false enb envs st st1 en1 c1 Eb Hfb L d U E fs (code_size pre + 5) lc cb L1 U1 E1 fs1 Cb Hg1 Hdl Hsok Hfuns1
                Lm Ufin Efin uvec K CL HL base HFB HU1 HF1 HC HlenCL m0 fn frs G O (pre ++ [pe])%list ([IPopExc; jm] ++ (ch ++ ops) ++ post)%list lo
                Hcode0 Hpos0 Hlc0 ltac:(discriminate) ltac:(lia) HFLO B0' HS0) as Hblk.
  unfold RES in Hblk. rewrite (mrg_same_len L L1 Lm) in Hblk by lia.
  destruct Hblk as (n1 & m1 & K1 & HL1 & G1 & O1 & S1 & ST1 & KX1 & HX1 & F1 & Hcn1 & Hres1).
  assert (Hcn01 : cn m <= cn m1) by lia.
  assert (HF01 : FRAMEC m m1 K).
  { intros j Hj Hn. rewrite F1; [now rewrite C0|lia|exact Hn]. }
  assert (HKX01 : KEXT K K1 (cn m) (cn m1)) by (rewrite <- D0; exact KX1).
  assert (Hpcb : code_size (pre ++ [pe]) + code_size cb = code_size pre + 5 + code_size cb) by (rewrite code_size_app; cbn [code_size isize pe]; lia).
  destruct Hc1 as [->|[v ->]].
  - (* the block completes: PopExcHandler, Jump over the catch clause *)
    inversion He; subst st' en' ctl. clear He Hg.
    destruct Hres1 as (CL1 & enb1 & Een1 & M1 & LR1 & Len1 & Hfirst1 & HFLO1 & HEXT1 & _).
    apply app_inv_tail in Een1. subst enb1.
    assert (ECL1 : CL1 = CL) by (apply (list_eq_firstn _ CL1 CL (base + List.length L)); [lia|lia|exact Hfirst1]). subst CL1.
    rewrite Hpcb in M1.
    assert (Hfe1 : fetch (code_of funs fn) (code_size pre + 5 + code_size cb) = Some IPopExc).
    { rewrite <- Hpcb. eapply fetch_mid with (pre := (pre ++ [pe])%list) (c2 := (jm :: (ch ++ ops))%list) (post := post).
      rewrite Hcode0. repeat (rewrite <- app_assoc; cbn [app]). reflexivity. }
    destruct (step5_popexc cf funs _ _ _ _ _ _ _ _ _ _ _ M1 Hfe1) as (m2 & A2 & B2 & C2 & D2). cbn [tl] in B2.
    assert (Hfe2 : fetch (code_of funs fn) (code_size pre + 5 + code_size cb + 1) = Some jm).
    { replace (code_size pre + 5 + code_size cb + 1) with (code_size (pre ++ [pe]) + code_size (cb ++ [IPopExc])) by (rewrite !code_size_app; cbn [code_size isize pe]; lia).
      eapply fetch_mid with (c2 := (ch ++ ops)%list) (post := post). rewrite Hcode0. repeat (rewrite <- app_assoc; cbn [app]). reflexivity. }
    destruct (step5_jump cf funs _ _ _ _ _ _ _ _ _ _ _ B2 Hfe2) as (m3 & A3 & B3 & C3 & D3).
    exists (1 + (n1 + 2)), m3, K1, HL1, G1, O1.
    split. { exists m0. split; [exact A0|]. apply (steps_trans cf funs n1 2 m0 m1 m3 S1). exists m2. split; [exact A2|now apply steps_one]. }
    split; [rewrite C3, D3, C2, D2; exact ST1|]. split; [rewrite D3, D2; exact HKX01|]. split; [exact HX1|].
    split; [intros j Hj Hn; rewrite C3, C2; apply HF01; auto|]. split; [lia|].
    exists CL, enb. split; [reflexivity|]. split.
    { match goal with |- MS5 _ _ _ _ ?pc _ _ _ _ _ _ => replace pc with (code_size pre + 5 + code_size cb + 1 + 3 + code_size (ch ++ ops)); [exact B3|] end.
      cbn [code_size isize pe app]. rewrite !code_size_app. cbn [code_size isize jm]. rewrite ?code_size_app. lia. }
    split. { eapply LRBN_flags; [exact LR1|]. now apply orf_mono. }
    split; [lia|]. split; [reflexivity|]. split; [exact HFLO|]. split; [now apply EXT2_flags|auto].
  - (* the block throws v: unwind to the handler, the catch clause *)
    destruct (new_cell st1 v) as [st2 cc] eqn:Enc.
    destruct (exec_list fu h ((x, cc) :: enb ++ List.concat envs)%list false st2) as [[st3 en3] c3] eqn:Eh.
    inversion He; subst st' en' ctl. clear He.
    destruct Hres1 as (fn' & uvec' & pc1 & base' & frs' & t & cx & M1 & Hfe1 & Hab & Rv & LRt).
    replace (List.length L1 - List.length L) with 0 in LRt by lia. cbn [skipn] in LRt.
    destruct (step5_throw cf funs h0 hs m1 fn' uvec' pc1 base' frs' (CL ++ t)%list cx HL1 G1 O1 fn uvec base frs Hunwind M1 Hfe1 Hab eq_refl)
      as (m2 & A2 & B2 & C2 & D2).
    { cbn [h_size h0]. rewrite app_length. lia. }
    cbn [h_size h_pc h0] in B2. rewrite firstn_app_all in B2.
    destruct (sto_push _ _ _ _ _ _ _ _ ST1 C2 D2) as (ST2 & NK2 & FR2).
    pose proof (stn_len _ _ _ _ _ _ _ _ _ _ ST1) as HlenK1.
    unfold new_cell in Enc. inversion Enc; subst st2 cc. clear Enc.
    assert (HnH2 : ~ In (cn m1) HL1) by (apply (notin_HL_fresh (hs := h0 :: hs) _ _ _ _ _ _ _ _ _ _ (cn m1) M1); lia).
    assert (HK12 : exists e, (K1 ++ [cn m1])%list = (K1 ++ e)%list) by eauto.
    assert (HH11 : exists e, HL1 = (HL1 ++ e)%list) by (exists []; now rewrite app_nil_r).
    assert (ST3 : sto (fst (new_cell st1 v)) (K1 ++ [cn m1]) HL1 (cv m2) (cn m2) G1 O1).
    { apply STON_new; [exact ST2|exact NK2|lia|]. rewrite C2, upd_same. eapply vrelN_mono; eauto. }
    unfold new_cell in ST3. cbn [fst] in ST3.
    set (Lmh := (xl :: orf L1 Lm)%list).
    assert (HlenO1 : List.length (orf L1 Lm) = List.length L) by (rewrite orf_length; lia).
    assert (HLRh : LRBN (K1 ++ [cn m1]) (CL ++ [cn m1]) HL1 base Lmh ((x, List.length (s_cells st1)) :: enb)).
    { unfold Lmh, xl. constructor.
      - apply LRBN_K with (K := K1); [|exact HK12]. apply LRBN_CL with (CL := CL); [exact LRt|]. intros i Hi. apply app_nth1. lia.
      - rewrite app_length. cbn. lia.
      - rewrite HlenO1, <- HlenCL, nth_middle. unfold kc. rewrite <- HlenK1, nth_middle. reflexivity.
      - unfold kc. rewrite <- HlenK1, nth_middle. intro Hin. contradiction. }
    assert (HKK : exists e, (K1 ++ [cn m1])%list = (K ++ e)%list).
    { destruct KX1 as (e1 & -> & _). exists (e1 ++ [cn m1])%list. now rewrite app_assoc. }
    assert (HCh : CTX (K1 ++ [cn m1]) (CL ++ [cn m1]) HL1 base Lmh ((x, List.length (s_cells st1)) :: enb) Efin envs Ufin uvec).
    { eapply CTX_next; [exact HC|exact HLRh| |exact HKK|eapply HEXT_ext; eauto].
      unfold Lmh. rewrite app_length. cbn [List.length]. rewrite HlenO1. lia. }
    assert (HFBh : flags_up (xl :: L1) Lmh).
    { unfold Lmh. constructor; [repeat split; auto|]. eapply flags_up_orf_l; eauto. }
    assert (Hcodeh : code_of funs fn = ((pre ++ pe :: cb ++ [IPopExc; jm]) ++ ch ++ (ops ++ post))%list).
    { rewrite Hcode. repeat (rewrite <- app_assoc; cbn [app]). reflexivity. }
    assert (Hposh : code_size pre + 5 + code_size cb + 4 + 0 = code_size (pre ++ pe :: cb ++ [IPopExc; jm])).
    { rewrite code_size_app. cbn [code_size isize pe]. rewrite code_size_app. cbn [code_size isize jm]. lia. }
    assert (Hlch : LCOK lc (S d) (xl :: L1) Lmh (code_size (pre ++ pe :: cb ++ [IPopExc; jm])) (code_size (pre ++ pe :: cb ++ [IPopExc; jm]) + code_size ch)).
    { intros l El0. destruct (Hlc l El0) as (W1 & W2 & W3 & W4). rewrite <- Hposh.
      cbn [code_size isize pe] in W3. rewrite !code_size_app in W3. cbn [code_size isize jm] in W3. rewrite !code_size_app in W3.
      split; [lia|]. split; [lia|]. split; [lia|].
      assert (Hmrg : mrg L (xl :: L1) Lm = Lmh) by (apply mrg_cons; lia). rewrite <- Hmrg.
      apply (TIGHT_mrg (lc_depth l) (S d) L (xl :: L1) Lm W4); [|lia|exact HFB].
      exists [xl], L1. split; [reflexivity|]. split; [exact HFl1|]. constructor; [reflexivity|constructor]. }
    assert (Hpch : code_size pre + 5 + (code_size cb + 4) = code_size (pre ++ pe :: cb ++ [IPopExc; jm])) by lia.
    rewrite Hpch in B2.
    pose proof (IHL hs h infun false inloop ((x, List.length (s_cells st1)) :: enb) envs _ st3 en3 c3 Eh Hfh (xl :: L1) (S d) U1 E1 fs1
                  (code_size pre + 5 + code_size cb + 4 + 0) lc ch (Nh ++ xl' :: L10)%list U2 E2 fs2 Ch Hg eq_refl Hdx ltac:(discriminate) Hsok1 Hfuns
                  Lmh Ufin Efin uvec (K1 ++ [cn m1])%list (CL ++ [cn m1])%list HL1 base HFBh HU HF HCh
                  ltac:(rewrite app_length; cbn [List.length]; lia)
                  m2 fn frs G1 O1 (pre ++ pe :: cb ++ [IPopExc; jm])%list (ops ++ post)%list lo Hcodeh Hposh Hlch Hfrs ltac:(lia)
                  ltac:(apply FLO_snoc; [exact HFLO|lia]) B2 ST3) as Hh.
    unfold RES in Hh.
    assert (Emrgh : mrg (xl :: L1) (Nh ++ xl' :: L10) Lmh = (Nh ++ mkLocal (Some x) (Some (S d)) (xb || false) :: orf L10 Lm)%list).
    { rewrite (mrg_lext (xl :: L1) Nh (xl' :: L10) Lmh) by (cbn [List.length]; lia). unfold Lmh, xl'. cbn [orf l_name l_depth l_capt xl].
      now rewrite (orf_orf L1 L10 Lm HFl10). }
    rewrite Emrgh in Hh. set (xl2 := mkLocal (Some x) (Some (S d)) (xb || false)) in *.
    destruct Hh as (n3 & m3 & K3 & HL3 & G3 & O3 & S3 & ST4 & KX3 & HX3 & F3 & Hcn3 & Hres3).
    (* bookkeeping over the whole statement *)
    assert (Hcn2 : cn m1 < cn m2) by lia.
    assert (HSt : steps cf funs (1 + (n1 + (1 + n3))) m m3).
    { exists m0. split; [exact A0|]. apply (steps_trans cf funs n1 (1 + n3) m0 m1 m3 S1). exists m2. split; [exact A2|exact S3]. }
    assert (HKX : KEXT K K3 (cn m) (cn m3)).
    { destruct HKX01 as (e1 & -> & He1). destruct KX3 as (e3 & -> & He3). exists ((e1 ++ [cn m1]) ++ e3)%list. split; [now rewrite <- !app_assoc|].
      intros k Hin. apply in_app_or in Hin as [Hin|Hin]; [|apply He3 in Hin; lia].
      apply in_app_or in Hin as [Hin|[<-|[]]]; [apply He1 in Hin; lia|lia]. }
    assert (HHX : HEXT HL HL3 lo) by (eapply HEXT_trans; [exact HX1|exact HX3|lia]).
    assert (HFR : FRAMEC m m3 K).
    { intros j Hj Hn. rewrite F3; [|lia|].
      - rewrite C2, upd_other by lia. apply HF01; auto.
      - intro Hin. apply in_app_or in Hin as [Hin|[<-|[]]]; [|lia]. destruct (KEXT_in _ _ _ _ _ HKX01 Hin) as [Hi|Hi]; [contradiction|lia]. }
    assert (Hcutx : forall l, lc = Some l -> cutL (lc_depth l) (xl :: L1) = cutL (lc_depth l) L1 /\
                                             cutL (lc_depth l) (Nh ++ xl2 :: orf L10 Lm) = cutL (lc_depth l) (orf L10 Lm) /\
                                             cutE (lc_depth l) (xl :: L1) ((x, List.length (s_cells st1)) :: enb) = cutE (lc_depth l) L1 enb).
    { intros l El0. destruct (Hlc l El0) as (A1 & _). split; [|split].
      - cbn [cutL l_depth xl]. destruct (lc_depth l <? S d) eqn:Eq; [reflexivity|apply Nat.ltb_ge in Eq; lia].
      - replace (Nh ++ xl2 :: orf L10 Lm)%list with ((Nh ++ [xl2]) ++ orf L10 Lm)%list by (now rewrite <- app_assoc).
        apply cutL_app_deeper. apply (Forall_deeper_d _ (S d)); [lia|]. apply Forall_app. split; [exact HDh|constructor; [reflexivity|constructor]].
      - cbn [cutE l_depth l_name xl tl]. destruct (lc_depth l <? S d) eqn:Eq; [reflexivity|apply Nat.ltb_ge in Eq; lia]. }
    assert (HlenCLb : base <= List.length CL) by lia.
    destruct c3 as [| | |w|w|w|w]; try (exfalso; destruct Hg as [[Hg|[? Hg]]|[[_ [Hg|Hg]]|[? Hg]]]; discriminate).
    + (* the catch clause completes: its scope end (the catch variable and what it declared) *)
      destruct Hres3 as (CL3 & enb3 & Een3 & M3 & LR3 & Len3 & Hfirst3 & HFLO3 & (N2 & Ne & L02 & EN2 & HFl2 & Eenb3 & HNlen & HN) & _).
      subst enb3.
      assert (HlenL02 : List.length L02 = List.length (xl' :: L10)) by (rewrite (flags_up_length _ _ HFl2); cbn [List.length]; lia).
      destruct (app_inv_len _ _ _ _ _ EN2 (eq_sym HlenL02)) as [<- <-].
      set (Lb10 := orf L10 Lm) in *.
      assert (HdLb10 : depth_le d Lb10).
      { unfold Lb10. eapply flags_up_depth_le; [eapply flags_up_orf_l; [exact HFB|exact HFL10]|exact HdL10]. }
      assert (HlenLb10 : List.length Lb10 = List.length L) by (unfold Lb10; rewrite orf_length; lia).
      assert (HN2 : Forall (fun l => l_depth l = Some (S d) /\ l_name l <> None) (Nh ++ [xl2])%list).
      { apply Forall_app. split; [exact HN|constructor; [split; [reflexivity|discriminate]|constructor]]. }
      assert (Len3' : List.length CL3 = base + List.length ((Nh ++ [xl2]) ++ Lb10)%list).
      { rewrite Len3, !app_length. cbn [List.length]. lia. }
      assert (LR3' : LRBN K3 CL3 HL3 base ((Nh ++ [xl2]) ++ Lb10)%list ((Ne ++ [(x, List.length (s_cells st1))]) ++ enb)%list).
      { rewrite <- !app_assoc. cbn [app]. exact LR3. }
      assert (Eops2 : scope_end_ops ((Nh ++ [xl2]) ++ Lb10)%list d = ops).
      { unfold ops. replace (Nh ++ xl' :: L10)%list with ((Nh ++ [xl']) ++ L10)%list by (now rewrite <- app_assoc).
        rewrite (scope_end_ops_tail (Nh ++ [xl2]) Lb10 L10 d); auto.
        - clear. induction Nh as [|a r IH]; cbn [app scope_end_ops l_depth l_capt xl2 xl']; [now rewrite orb_false_r|now rewrite IH].
        - apply Forall_app. split; [exact HDh|constructor; [reflexivity|constructor]]. }
      destruct (scope_end_run (hs := hs) (Nh ++ [xl2])%list K3 CL3 HL3 base Lb10 (Ne ++ [(x, List.length (s_cells st1))])%list enb d m3 fn uvec frs
                  ((pre ++ pe :: cb ++ [IPopExc; jm]) ++ ch)%list post G3 O3 LR3'
                  ltac:(rewrite !app_length; cbn [List.length]; lia) Len3' HN2 HdLb10)
        as (m4 & S4 & M4 & C4 & D4).
      { rewrite Eops2, Hcodeh. repeat (rewrite <- app_assoc; cbn [app]). reflexivity. }
      { rewrite code_size_app. exact M3. }
      rewrite Eops2 in M4.
      exists (1 + (n1 + (1 + n3)) + List.length (Nh ++ [xl2])%list), m4, K3, HL3, G3, O3.
      split; [eapply steps_trans; eauto|]. split; [rewrite C4, D4; exact ST4|]. split; [rewrite D4; exact HKX|]. split; [exact HHX|].
      split; [intros j Hj Hn; rewrite C4; apply HFR; auto|]. split; [lia|].
      exists (firstn (base + List.length Lb10) CL3), enb. split; [reflexivity|]. split.
      { match goal with |- MS5 _ _ _ _ ?pc _ _ _ _ _ _ =>
          replace pc with (code_size ((pre ++ pe :: cb ++ [IPopExc; jm]) ++ ch) + code_size ops); [exact M4|] end.
        cbn [code_size isize pe app]. rewrite !code_size_app. cbn [code_size isize pe jm]. rewrite !code_size_app. cbn [code_size isize jm]. lia. }
      split.
      { apply LRBN_drop in LR3'; [| rewrite !app_length; cbn [List.length]; lia | revert HN2; apply Forall_impl; intros l [_ A]; exact A].
        apply LRBN_CL with (CL := CL3); [exact LR3'|]. intros i Hi. now apply nth_firstn_lt. }
      split. { rewrite firstn_length, Len3', !app_length. lia. }
      split.
      { rewrite HlenLb10. rewrite firstn_firstn_le by lia.
        rewrite <- (firstn_firstn_le _ CL3 (base + List.length L) (base + List.length (xl :: L1))) by (cbn [List.length]; lia).
        rewrite Hfirst3, firstn_firstn_le by (cbn [List.length]; lia). apply firstn_app_le. lia. }
      split; [now apply FLO_firstn|]. split; [now apply EXT2_flags|auto].
    + (* break in the catch clause *)
      exists (1 + (n1 + (1 + n3))), m3, K3, HL3, G3, O3.
      split; [exact HSt|]. split; [exact ST4|]. split; [exact HKX|]. split; [exact HHX|]. split; [exact HFR|]. split; [lia|].
      destruct Hres3 as (l & El0 & Q1 & Q2). exists l. split; [exact El0|].
      destruct (Hcutx l El0) as (X1 & X2 & X3). rewrite X1 in Q1, Q2. rewrite X2, X3 in Q2.
      rewrite (cutL_length_flags _ _ _ HFl1) in Q1, Q2. rewrite <- (cutE_flags _ _ _ enb HFl1) in Q2.
      assert (Hle : base + List.length (cutL (lc_depth l) L) <= List.length CL).
      { rewrite cutL_skipn, skipn_length. lia. }
      rewrite (firstn_app_le _ CL [cn m1] _ Hle) in Q1, Q2. split; [exact Q1|exact Q2].
    + (* continue in the catch clause *)
      exists (1 + (n1 + (1 + n3))), m3, K3, HL3, G3, O3.
      split; [exact HSt|]. split; [exact ST4|]. split; [exact HKX|]. split; [exact HHX|]. split; [exact HFR|]. split; [lia|].
      destruct Hres3 as (l & El0 & Q1 & Q2). exists l. split; [exact El0|].
      destruct (Hcutx l El0) as (X1 & X2 & X3). rewrite X1 in Q1, Q2. rewrite X2, X3 in Q2.
      rewrite (cutL_length_flags _ _ _ HFl1) in Q1, Q2. rewrite <- (cutE_flags _ _ _ enb HFl1) in Q2.
      assert (Hle : base + List.length (cutL (lc_depth l) L) <= List.length CL).
      { rewrite cutL_skipn, skipn_length. lia. }
      rewrite (firstn_app_le _ CL [cn m1] _ Hle) in Q1, Q2. split; [exact Q1|exact Q2].
    + (* return in the catch clause *)
      exists (1 + (n1 + (1 + n3))), m3, K3, HL3, G3, O3.
      split; [exact HSt|]. split; [exact ST4|]. split; [exact HKX|]. split; [exact HHX|]. split; [exact HFR|]. split; [lia|].
      destruct Hres3 as (fn0 & ups0 & pc0 & base0 & frs0 & cres & Efr & Q1 & Q2 & Q3 & Q4 & Q5).
      exists fn0, ups0, pc0, base0, frs0, cres. split; [exact Efr|].
      rewrite (firstn_app_le _ CL [cn m1] _ HlenCLb) in Q1. split; [exact Q1|]. split; [exact Q2|]. split; [lia|]. split; assumption.
    + (* the catch clause throws *)
      exists (1 + (n1 + (1 + n3))), m3, K3, HL3, G3, O3.
      split; [exact HSt|]. split; [exact ST4|]. split; [exact HKX|]. split; [exact HHX|]. split; [exact HFR|]. split; [lia|].
      destruct Hres3 as (fn2 & uvec2 & pc2 & base2 & frs2 & t2 & cx2 & Q1 & Q2 & Q3 & Q4 & Q5).
      exists fn2, uvec2, pc2, base2, frs2, (cn m1 :: t2), cx2.
      split. { replace (CL ++ cn m1 :: t2)%list with ((CL ++ [cn m1]) ++ t2)%list by (now rewrite <- app_assoc). exact Q1. }
      split; [exact Q2|]. split; [exact Q3|]. split; [exact Q4|].
      replace (List.length (Nh ++ xl' :: L10) - List.length (xl :: L1)) with (List.length Nh) in Q5 by (rewrite app_length; cbn [List.length]; lia).
      rewrite skipn_app_len in Q5. inversion Q5 as [| |? ? ? ? ? ? Q6 _ _ _]; subst.
      apply LRBN_CL with (CL := (CL ++ [cn m1])%list); [exact Q6|]. intros i Hi. symmetry. apply app_nth1. rewrite orf_length in Hi. lia.
Qed.


(* ------------------------------------------------------------------------------------------ *)
(* all statements *)
Lemma S_step : forall fu, E_goal fu -> ET_goal fu -> L_goal fu -> S_goal (S fu).
Proof.
  intros fu IHE IHT IHL s. destruct s.
  - now apply S_decl.
  - now apply S_assign.
  - now apply S_print.
  - now apply S_expr.
  - now apply S_block.
  - now apply S_fun.
  - now apply S_lam.
  - now apply S_loop.
  - now apply S_if.
  - now apply S_break.
  - now apply S_continue.
  - now apply S_return.
  - now apply S_throw.
  - now apply S_try.
  - intros hs infun top inloop enb envs st st' en' ctl He Hf. discriminate Hf.
  - intros hs infun top inloop enb envs st st' en' ctl He Hf. discriminate Hf.
Qed.


Lemma lext_len : forall d L L', lext d L L' -> List.length L <= List.length L'.
Proof. intros d L L' (N & L0 & -> & F & _). rewrite app_length, (flags_up_length _ _ F). lia. Qed.

(* the flags of the old locals only rise along a statement list *)
Lemma mrg_old_mono : forall d L L1 L2 M, lext d L L1 -> lext d L1 L2 -> flags_up L M ->
  flags_up (skipn (List.length L1 - List.length L) (mrg L L1 M)) (skipn (List.length L2 - List.length L) (mrg L L2 M)).
Proof.
  intros d L L1 L2 M (N1 & L01 & -> & F1 & D1) (N2 & L02 & -> & F2 & D2) HM.
  destruct (flags_up_app_inv _ _ _ F2) as (N1' & L01' & -> & FN & FL).
  pose proof (flags_up_length _ _ F1) as H1. pose proof (flags_up_length _ _ FL) as H2. pose proof (flags_up_length _ _ FN) as H3.
  rewrite (mrg_lext L N1 L01 M H1).
  replace (N2 ++ N1' ++ L01')%list with ((N2 ++ N1') ++ L01')%list by (now rewrite <- app_assoc).
  rewrite (mrg_lext L (N2 ++ N1') L01' M) by lia.
  replace (List.length (N1 ++ L01) - List.length L) with (List.length N1) by (rewrite app_length; lia).
  replace (List.length ((N2 ++ N1') ++ L01') - List.length L) with (List.length (N2 ++ N1')) by (rewrite !app_length; lia).
  rewrite !skipn_app_len. now apply orf_mono.
Qed.

Lemma L_step : forall fu, S_goal fu -> L_goal fu -> L_goal (S fu).
Proof.
  intros fu IHS IHL hs ss infun top inloop enb envs st st' en' ctl He Hf L d U E fs pos lc code L' U' E' fs' Hc Hg Ht Hdl Hd0 Hsok Hfuns
         Lm Ufin Efin uvec K CL HL base HFB HU HF HC HlenCL m fn frs G O pre post lo Hcode Hpos Hlc Hfrs Hlo HFLO HM HS.
  unfold RES. destruct ss as [|s r].
  - cbn in He, Hc. inversion He; inversion Hc; subst. rewrite (mrg_same L' Lm HFB). exists 0, m, K, HL, G, O.
    split; [reflexivity|]. split; [exact HS|]. split; [apply KEXT_refl|]. split; [apply HEXT_refl|]. split; [apply FRAMEC_refl|]. split; [lia|].
    exists CL, enb. split; [reflexivity|]. cbn [code_size]. rewrite Nat.add_0_r. split; [exact HM|].
    split; [apply (cx_lrb _ _ _ _ _ _ _ _ _ _ HC)|]. split; [exact HlenCL|]. split; [reflexivity|]. split; [exact HFLO|].
    split; [apply EXT2_flags, flags_up_refl|auto].
  - cbn in Hf. apply andb_prop in Hf as [Hf1 Hf2]. cbn [exec_list] in He. cbn [nlist] in Hc.
    destruct (nstmt cf s L d U E fs pos lc) as [[[[[ca L1] U1] E1] fs1]|] eqn:C1; [|discriminate].
    destruct (nlist cf r d L1 U1 E1 fs1 (pos + code_size ca) lc) as [[[[[cr L2] U2] E2] fs2]|] eqn:C2; [|discriminate]. inversion Hc; subst code L' U' E' fs'. clear Hc.
    destruct (nstmt_ok cf s (stmt7_stmt7u _ _ _ _ _ Hf1) _ _ _ _ _ _ _ _ _ _ _ _ C1 Hdl) as (_ & _ & HLx1).
    pose proof (lext_depth_le _ _ _ Hdl HLx1) as Hdl1.
    destruct (nlist_ok cf r (forallb_stmt7_stmt7u _ _ _ _ _ Hf2) _ _ _ _ _ _ _ _ _ _ _ _ C2 Hdl1) as ([[ext2 ->] HF2] & [fe2 ->] & HLx2).
    pose proof (nstmt_stack_ok cf s (stmt7_stmt7u _ _ _ _ _ Hf1) _ _ _ _ _ _ _ _ _ _ _ _ C1 Hsok) as Hsok1.
    (* the flags after the first statement *)
    set (Lm1 := mrg L L1 Lm).
    pose proof (mrg_flags _ _ _ _ HLx1 HFB) as HFB1. fold Lm1 in HFB1.
    assert (Emrg : mrg L1 L2 Lm1 = mrg L L2 Lm) by (unfold Lm1; eapply mrg_trans; eauto).
    rewrite <- Emrg.
    destruct (exec_stmt fu s (enb ++ List.concat envs)%list top st) as [[st1 en1] c1] eqn:E1'.
    assert (Hg1 : goodl lc c1).
    { destruct c1; try (left; left; reflexivity); inversion He; subst; exact Hg. }
    destruct HU as [ext ->].
    assert (Hfuns1 : exists e0, funs = (fs1 ++ e0)%list).
    { destruct Hfuns as [e0 ->]. exists (fe2 ++ e0)%list. now rewrite <- app_assoc. }
    assert (Hlc1 : LCOK lc d L Lm (code_size pre) (code_size pre + code_size ca)).
    { intros l El0. destruct (Hlc l El0) as (W1 & W2 & W3 & W4). rewrite code_size_app in W3. repeat split; auto; lia. }
    destruct (IHS s hs infun top inloop enb envs st st1 en1 c1 E1' Hf1 L d U E fs pos lc ca L1 U1 E1 fs1 C1 Hg1 Ht Hdl Hd0 Hsok Hfuns1
                Lm ((U1 ++ ext2) ++ ext)%list Efin uvec K CL HL base HFB ltac:(exists (ext2 ++ ext)%list; now rewrite app_assoc)
                ltac:(eapply levs_up_trans; eauto) HC HlenCL m fn frs G O pre (cr ++ post)%list lo)
      as (n1 & m1 & K1 & HL1 & G1 & O1 & S1 & ST1 & KX1 & HX1 & F1 & Hcn1 & Hres1); auto.
    { rewrite Hcode. now rewrite <- !app_assoc. }
    fold Lm1 in Hres1.
    assert (Hjmp1 : forall l, lc = Some l -> flags_up (cutL (lc_depth l) Lm1) (cutL (lc_depth l) (mrg L1 L2 Lm1))).
    { intros l El0. destruct (Hlc l El0) as (W1 & _). eapply cutL_mrg_up; eauto. }
    destruct c1 as [| | |w|w| |]; try (destruct Hg1 as [[Hg1|[? Hg1]]|[[_ [Hg1|Hg1]]|[? Hg1]]]; discriminate).
    + destruct Hres1 as (CL1 & enb1 & -> & M1 & LR1 & Len1 & Hfirst1 & HFLO1 & X1 & Y1).
      assert (HC1 : CTX K1 CL1 HL1 base Lm1 enb1 Efin envs ((U1 ++ ext2) ++ ext)%list uvec).
      { eapply CTX_next; [exact HC|exact LR1|rewrite (flags_up_length _ _ HFB1); exact Len1|eapply KEXT_ext; eauto|eapply HEXT_ext; eauto]. }
      assert (Hd01 : d = 0 -> enb1 = [] /\ envs = []).
      { intro Hd00. destruct (Hd0 Hd00) as [A B]. rewrite (Y1 Hd00). auto. }
      assert (Hlc2 : LCOK lc d L1 Lm1 (code_size (pre ++ ca)) (code_size (pre ++ ca) + code_size cr)).
      { intros l El0. destruct (Hlc l El0) as (W1 & W2 & W3 & W4). rewrite !code_size_app in *. split; [exact W1|]. split; [lia|]. split; [lia|].
        unfold Lm1. eapply TIGHT_mrg; eauto. }
      destruct (IHL hs r infun top inloop enb1 envs st1 st' en' ctl He Hf2 L1 d U1 E1 fs1 (pos + code_size ca) lc cr L2 (U1 ++ ext2)%list E2 (fs1 ++ fe2)%list C2 Hg Ht
                  (EXT2_depth_le _ _ _ _ _ Hdl X1) Hd01 Hsok1 Hfuns Lm1 ((U1 ++ ext2) ++ ext)%list Efin uvec K1 CL1 HL1 base
                  HFB1 ltac:(eauto) HF HC1 Len1 m1 fn frs G1 O1 (pre ++ ca)%list post lo)
        as (n2 & m2 & K2 & HL2 & G2 & O2 & S2 & ST2 & KX2 & HX2 & F2 & Hcn2 & Hres2); auto.
      { rewrite Hcode. now rewrite <- !app_assoc. }
      { rewrite code_size_app. lia. }
      { lia. }
      { rewrite code_size_app. exact M1. }
      exists (n1 + n2), m2, K2, HL2, G2, O2.
      split; [eapply steps_trans; eauto|]. split; [exact ST2|].
      split. { apply (KEXT_trans K K1 K2 (cn m) (cn m1) (cn m2)); auto. }
      split. { eapply HEXT_trans; eauto. }
      split. { eapply FRAMEC_trans with (m2 := m1) (K2 := K1); eauto. intros j Hin. eapply KEXT_in; eauto. }
      split; [lia|].
      pose proof (EXT2_len _ _ _ _ _ X1) as HlenL1.
      assert (Hfb : firstn base CL1 = firstn base CL).
      { rewrite <- (firstn_firstn_le _ CL1 base (base + List.length L)) by lia. rewrite Hfirst1. apply firstn_firstn_le. lia. }
      assert (Hcut : forall l, lc = Some l ->
                firstn (base + List.length (cutL (lc_depth l) L1)) CL1 = firstn (base + List.length (cutL (lc_depth l) L)) CL /\
                List.length (cutL (lc_depth l) L1) = List.length (cutL (lc_depth l) L) /\ cutE (lc_depth l) L1 enb1 = cutE (lc_depth l) L enb).
      { intros l El0. destruct (Hlc l El0) as (W1 & _). destruct (cut_ext2 _ _ _ _ _ _ X1 W1) as [Q1 Q2]. rewrite Q1. split; [|auto].
        assert (Hk : List.length (cutL (lc_depth l) L) <= List.length L) by (rewrite cutL_skipn, skipn_length; lia).
        rewrite <- (firstn_firstn_le _ CL1 _ (base + List.length L)) by lia. rewrite Hfirst1. apply firstn_firstn_le. lia. }
      destruct ctl as [| | |w|w| |]; try (destruct Hg as [[Hg|[? Hg]]|[[_ [Hg|Hg]]|[? Hg]]]; discriminate).
      * destruct Hres2 as (CL2 & enb2 & -> & M2 & LR2 & Len2 & Hfirst2 & HFLO2 & X2 & Y2).
        exists CL2, enb2. split; [reflexivity|]. split; [rewrite !code_size_app in *; rewrite Nat.add_assoc; exact M2|].
        split; [exact LR2|]. split; [exact Len2|].
        split. { rewrite <- (firstn_firstn_le _ CL2 (base + List.length L) (base + List.length L1)) by lia. rewrite Hfirst2.
                 rewrite firstn_firstn_le by lia. exact Hfirst1. }
        split; [exact HFLO2|]. split; [eapply EXT2_trans; eauto|].
        intro Hd00. rewrite (Y2 Hd00). auto.
      * destruct Hres2 as (l & El0 & Q1 & Q2). destruct (Hcut l El0) as (Z1 & Z2 & Z3). exists l. split; [exact El0|].
        rewrite Z1, Z3 in *. split; [exact Q1|exact Q2].
      * destruct Hres2 as (l & El0 & Q1 & Q2). destruct (Hcut l El0) as (Z1 & Z2 & Z3). exists l. split; [exact El0|].
        rewrite Z1, Z3 in *. split; [exact Q1|exact Q2].
      * destruct Hres2 as (fn0 & ups0 & pc0 & base0 & frs' & cres & Efr & Q1 & Q2 & Q3 & Q4 & Q5).
        exists fn0, ups0, pc0, base0, frs', cres. rewrite <- Hfb. split; [exact Efr|]. split; [exact Q1|]. split; [exact Q2|]. split; [lia|].
        split; assumption.
      * (* the rest throws *)
        destruct Hres2 as (fn2 & uvec2 & pc2 & base2 & frs2 & t2 & cx2 & Q1 & Q2 & Q3 & Q4 & Q5).
        assert (ECL1 : CL1 = (CL ++ skipn (base + List.length L) CL1)%list).
        { rewrite <- (firstn_skipn (base + List.length L) CL1) at 1. rewrite Hfirst1. rewrite <- HlenCL, firstn_all. reflexivity. }
        exists fn2, uvec2, pc2, base2, frs2, (skipn (base + List.length L) CL1 ++ t2)%list, cx2.
        split. { rewrite app_assoc, <- ECL1. exact Q1. }
        split; [exact Q2|]. split; [exact Q3|]. split; [exact Q4|].
        destruct X1 as (N & Ne & L0 & EL1 & HFL0 & Eenb1 & HNlen & HN). subst L1 enb1.
        pose proof (flags_up_length _ _ HFL0) as HlenL0.
        set (X := skipn (List.length L2 - List.length (N ++ L0)) (mrg (N ++ L0) L2 Lm1)) in *.
        assert (HXup : flags_up (N ++ L0) X) by (eapply flags_up_trans; [exact HFB1|unfold X; eapply mrg_old; eauto]).
        destruct (flags_up_app_inv _ _ _ HXup) as (Nx & X0 & EX & HNx & HX0).
        pose proof (flags_up_length _ _ HNx) as HlenNx. pose proof (flags_up_length _ _ HX0) as HlenX0.
        pose proof (lext_len _ _ _ HLx2) as HlenL2.
        replace (skipn (List.length L2 - List.length L) (mrg (N ++ L0) L2 Lm1)) with X0.
        2: { replace (List.length L2 - List.length L) with ((List.length L2 - List.length (N ++ L0)) + List.length Nx)
               by (rewrite app_length in *; lia).
             rewrite <- skipn_skipn_add. fold X. rewrite EX. now rewrite skipn_app_len. }
        rewrite EX in Q5. apply LRBN_drop in Q5; [|lia|].
        2: { pose proof (flags_up_dn _ _ _ HNx HN) as HNx'. revert HNx'. apply Forall_impl. intros l [_ A]. exact A. }
        apply LRBN_CL with (CL := CL1); [exact Q5|]. intros i Hi. rewrite ECL1. symmetry. apply app_nth1. lia.
    + (* the first statement breaks *)
      inversion He; subst st' en' ctl.
      exists n1, m1, K1, HL1, G1, O1. split; [exact S1|]. split; [exact ST1|]. split; [exact KX1|]. split; [exact HX1|]. split; [exact F1|].
      split; [lia|]. destruct Hres1 as (l & El0 & Q1 & Q2). exists l. split; [exact El0|]. split; [exact Q1|].
      eapply LRBN_flags; [exact Q2|exact (Hjmp1 l El0)].
    + inversion He; subst st' en' ctl.
      exists n1, m1, K1, HL1, G1, O1. split; [exact S1|]. split; [exact ST1|]. split; [exact KX1|]. split; [exact HX1|]. split; [exact F1|].
      split; [lia|]. destruct Hres1 as (l & El0 & Q1 & Q2). exists l. split; [exact El0|]. split; [exact Q1|].
      eapply LRBN_flags; [exact Q2|exact (Hjmp1 l El0)].
    + inversion He; subst st' en' ctl.
      exists n1, m1, K1, HL1, G1, O1. split; [exact S1|]. split; [exact ST1|]. split; [exact KX1|]. split; [exact HX1|]. split; [exact F1|].
      split; [lia|exact Hres1].
    + (* the first statement throws *)
      inversion He; subst st' en' ctl.
      exists n1, m1, K1, HL1, G1, O1. split; [exact S1|]. split; [exact ST1|]. split; [exact KX1|]. split; [exact HX1|]. split; [exact F1|].
      split; [lia|]. destruct Hres1 as (fn2 & uvec2 & pc2 & base2 & frs2 & t2 & cx2 & Q1 & Q2 & Q3 & Q4 & Q5).
      exists fn2, uvec2, pc2, base2, frs2, t2, cx2. split; [exact Q1|]. split; [exact Q2|]. split; [exact Q3|]. split; [exact Q4|].
      eapply LRBN_flags; [exact Q5|]. rewrite Emrg. unfold Lm1. eapply mrg_old_mono; eauto.
Qed.
(* ------------------------------------------------------------------------------------------ *)
Definition ALL_goals (fu : nat) : Prop := E_goal fu /\ ET_goal fu /\ S_goal fu /\ L_goal fu.

Lemma not_good_stuck : forall w, ~ good (CStuck w).
Proof. intros w [H|[v H]]; discriminate. Qed.

Theorem sim5_all : forall fu, ALL_goals fu.
Proof.
  induction fu as [|fu (IE & IT & IS & IL)].
  - split; [|split; [|split]].
    + unfold E_goal. intros ? ? ? ? ? ? ? He; discriminate.
    + unfold ET_goal. intros ? ? ? ? ? ? ? He; discriminate.
    + intros s hs infun top inloop enb envs st st' en' ctl He Hf L d U E fs pos lc code L' U' E' fs' Hc Hg. cbn in He. inversion He; subst.
      destruct Hg as [Hg|[[_ [Hg|Hg]]|[? Hg]]]; [destruct (not_good_stuck _ Hg)|discriminate|discriminate|discriminate].
    + unfold L_goal. intros hs ss infun top inloop enb envs st st' en' ctl He Hf L d U E fs pos lc code L' U' E' fs' Hc Hg. cbn in He. inversion He; subst.
      destruct Hg as [Hg|[[_ [Hg|Hg]]|[? Hg]]]; [destruct (not_good_stuck _ Hg)|discriminate|discriminate|discriminate].
  - split; [|split; [|split]].
    + now apply E_step.
    + now apply ET_step.
    + now apply S_step.
    + now apply L_step.
Qed.

End Sim5.

Print Assumptions sim5_all.
