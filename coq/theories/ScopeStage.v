(* C06 - compile_scope_correct, stage by stage: the reference evaluator and the compiled program run by
   the machine over Upvalues.v (run_m) agree.  Each stage = simulation over the cell-store backend bk_c
   (ScopeSim.v) + ScopeSwap.backend_swap (bk_c with the discipline flag down = bk_m). *)
From Coq Require Import List Arith Bool String ZArith NArith Lia.
From YV Require Import Show Upvalues Cells ScopeLang ScopeComp ScopeSwap ScopeSim.
Import ListNotations.
Import Gen.
Open Scope nat_scope.

Lemma comp_list_pure : forall cf b, forallb stmt1 b = true -> forall c fs,
  match clist cf b (fc_locals c) (fc_depth c) with
  | Some (code, L') => comp_list cf b (one c fs) = one (with_code_locals c (fc_code c ++ code) L') fs
  | None => errd (comp_list cf b (one c fs))
  end.
Proof.
  intros cf b Hb. apply comp_list_pure_aux; [|exact Hb].
  induction b as [|a r IH]; constructor.
  - cbn in Hb. apply andb_prop in Hb as [Ha _]. intros c fs. now apply comp_stmt_pure.
  - cbn in Hb. apply andb_prop in Hb as [_ Hr]. now apply IH.
Qed.

(* the whole program: one function, the pure code followed by Nil; Return *)
Lemma compile_scope_stage1a_shape : forall cf p funs, forallb stmt1 p = true -> compile_scope cf p = Some funs ->
  exists code L', clist cf p [mkLocal None (Some 0) false] 0 = Some (code, L') /\
                  funs = [mkFunc (code ++ [INil; IReturn]) 0 0].
Proof.
  intros cf p funs Hp Hc. unfold compile_scope, comp_prog in Hc.
  change (fold_left (fun s a => comp_stmt cf a s) p (mkCst [new_fcomp true] [] None)) with (comp_list cf p (one (new_fcomp true) [])) in Hc.
  pose proof (comp_list_pure cf p Hp (new_fcomp true) []) as H. cbn [fc_locals fc_depth new_fcomp] in H.
  destruct (clist cf p [mkLocal None (Some 0) false] 0) as [[code L']|].
  - rewrite H in Hc. rewrite emits_one in Hc. cbn in Hc. inversion Hc. exists code, L'. split; [reflexivity|]. reflexivity.
  - exfalso. apply (errd_emits [INil; IReturn]) in H. unfold errd in H. destruct (cs_err _); [discriminate|congruence].
Qed.

Lemma m_start_MS : forall code,
  MS (m_start bk_c [mkFunc code 0 0]) 0 [] 0 0 [] [MClo 0 []] [] [].
Proof.
  intros code. unfold m_start. cbn [List.length Nat.sub].
  set (m0 := mkMach (binit bk_c) [mkMF [mkFrame 0 [] 0 0] [] None (MClo 0 []) false] [] [] []).
  assert (S0 : SOK m0 []).
  { constructor; try reflexivity. constructor; cbn; intros; lia. }
  destruct (mpush_c m0 [] (MClo 0 []) S0) as [S1 R1].
  constructor; [exact S1| | |].
  - destruct R1 as (R1 & _). constructor; unfold fib0; rewrite R1; cbn; [discriminate|reflexivity|reflexivity].
  - destruct R1 as (_ & R2 & _). now rewrite R2.
  - destruct R1 as (_ & _ & _ & R4). now rewrite R4.
Qed.

(* STAGE 1a: blocks (any nesting), declarations, assignments, print; literals, variables, + ;
   locals and globals, shadowing; no closures.  For every program of the fragment that compiles and whose
   reference evaluation completes (any fuel), the machine over Upvalues.v, given enough fuel, prints
   exactly what the reference evaluator prints. *)
Theorem compile_scope_correct_stage1a : forall cf p funs fuel st en,
  forallb stmt1 p = true -> compile_scope cf p = Some funs ->
  exec_list fuel p [] true s_empty = (st, en, CNorm) ->
  exists n, forall k, Gen.run_funs bk_m cf (n + k) funs = eval_cells_fuel fuel p.
Proof.
  intros cf p funs fuel st en Hp Hc He.
  destruct (compile_scope_stage1a_shape cf p funs Hp Hc) as (code & L' & Hcl & ->).
  set (funs := [mkFunc (code ++ [INil; IReturn]) 0 0]).
  destruct (sim_all cf funs fuel) as [_ HL].
  assert (HSIM : SIM [mkLocal None (Some 0) false] [] s_empty [MClo 0 []] [] []).
  { constructor; cbn; auto; try constructor. intros x c []. }
  assert (Hd : depth_le 0 [mkLocal None (Some 0) false]) by (constructor; [cbn; lia|constructor]).
  destruct (HL _ _ _ _ _ _ He Hp _ _ _ _ Hcl eq_refl Hd _ _ _ HSIM (m_start bk_c funs) 0 [] [INil; IReturn])
    as (n1 & m1 & SL1 & G1 & O1 & S1 & M1 & SIM1 & _ & _).
  { reflexivity. }
  { apply m_start_MS. }
  cbn [code_size Nat.add] in M1.
  assert (Hf1 : fetch (code_of funs 0) (code_size code) = Some INil).
  { replace (code_size code) with (code_size [] + code_size code) by reflexivity.
    eapply fetch_mid with (pre := []) (c2 := [IReturn]) (post := []). cbn. now rewrite app_nil_r. }
  destruct (step_nil cf funs _ _ _ _ _ _ _ _ _ M1 Hf1) as (m2 & E2 & M2).
  assert (Hf2 : fetch (code_of funs 0) (code_size code + 1) = Some IReturn).
  { replace (code_size code + 1) with (code_size [] + code_size (code ++ [INil])) by (rewrite code_size_app; cbn; lia).
    eapply fetch_mid with (pre := []) (c2 := []) (post := []). cbn. rewrite app_nil_r, <- app_assoc. reflexivity. }
  destruct (step_return_done cf funs _ _ _ _ _ _ _ _ _ M2 Hf2 (Nat.le_0_l _)) as (m3 & E3 & O3 & F3).
  assert (Hrun : forall k, run_loop cf funs (n1 + 1 + S k) (m_start bk_c funs) = MDone m3).
  { intros k. rewrite (run_loop_steps cf funs (n1 + 1) (S k) _ m2).
    - cbn [run_loop]. now rewrite E3.
    - eapply steps_trans; [exact S1|now apply steps_one]. }
  exists (n1 + 2). intros k.
  replace (n1 + 2 + k) with (n1 + 1 + S k) by lia.
  rewrite backend_swap.
  - unfold Gen.run_funs. fold (@run_loop bk_c). rewrite Hrun. unfold eval_cells_fuel. rewrite He.
    rewrite O3. now rewrite (sim_o _ _ _ _ _ _ SIM1).
  - fold (@run_loop bk_c). rewrite Hrun. exact F3.
Qed.

Print Assumptions compile_scope_correct_stage1a.

(* ------------------------------------------------------------------------------------------ *)
From YV Require Import ScopeDefs2 ScopeMach2 ScopeComp2 ScopeComp3 ScopeRel2 ScopeRel3 ScopeSim3.

(* ---- inclusions between the fragments ---- *)
Lemma expr3_expr2 : forall e, expr3 e = true -> expr2 e = true.
Proof.
  fix IH 1. intros e H. destruct e as [n|x|a b|f l| |v k l]; cbn in H |- *; try discriminate; try reflexivity.
  - apply andb_prop in H as [H1 H2]. now rewrite (IH _ H1), (IH _ H2).
  - destruct l; [reflexivity|discriminate].
Qed.

Lemma expr1_expr2 : forall e, expr1 e = true -> expr2 e = true.
Proof.
  fix IH 1. intros e H. destruct e as [n|x|a b|f l| |v k l]; cbn in H |- *; try discriminate; try reflexivity.
  apply andb_prop in H as [H1 H2]. now rewrite (IH _ H1), (IH _ H2).
Qed.

Lemma bstmt3_bstmt2 : forall s, bstmt3 s = true -> bstmt2 s = true.
Proof. intros s H. destruct s as [x e|x e|e|e|l|f ps l|x ps l|i n l|a c t e| | |e|e|l x h|l|v e]; cbn in H |- *; try discriminate; now apply expr3_expr2. Qed.

Lemma forallb_imp : forall (A : Type) (f g : A -> bool), (forall a, f a = true -> g a = true) ->
  forall l, forallb f l = true -> forallb g l = true.
Proof.
  intros A f g H l. induction l as [|a r IH]; [reflexivity|]. cbn. intros H0. apply andb_prop in H0 as [H1 H2].
  now rewrite (H _ H1), (IH H2).
Qed.

Lemma stmt3_stmt4 : forall s top, stmt3 s = true -> stmt4 top s = true.
Proof.
  fix IH 1. intros s top H. destruct s as [x e|x e|e|e|l|f ps l|x ps l|i n l|a c t e| | |e|e|l x h|l|v e]; cbn in H |- *; try discriminate; try (now apply expr3_expr2).
  - revert H. generalize l. fix go 1. intros l0 H. destruct l0 as [|a r]; [reflexivity|]. cbn in H |- *.
    apply andb_prop in H as [H1 H2]. now rewrite (IH _ false H1), (go _ H2).
  - destruct ps; [|discriminate]. apply andb_prop in H as [H1 H2].
    rewrite (forallb_imp _ _ _ bstmt3_bstmt2 _ H1), H2. now rewrite orb_true_r.
Qed.

Lemma stmt1_stmt4 : forall s top, stmt1 s = true -> stmt4 top s = true.
Proof.
  fix IH 1. intros s top H. destruct s as [x e|x e|e|e|l|f ps l|x ps l|i n l|a c t e| | |e|e|l x h|l|v e]; cbn in H |- *; try discriminate; try (now apply expr1_expr2).
  revert H. generalize l. fix go 1. intros l0 H. destruct l0 as [|a r]; [reflexivity|]. cbn in H |- *.
  apply andb_prop in H as [H1 H2]. now rewrite (IH _ false H1), (go _ H2).
Qed.

Lemma stmt4_stmt2w : forall s top, stmt4 top s = true -> stmt2w s = true.
Proof.
  fix IH 1. intros s top H. destruct s as [x e|x e|e|e|l|f ps l|x ps l|i n l|a c t e| | |e|e|l x h|l|v e]; cbn in H |- *; try discriminate; try exact H.
  - revert H. generalize l. fix go 1. intros l0 H. destruct l0 as [|a r]; [reflexivity|]. cbn in H |- *.
    apply andb_prop in H as [H1 H2]. now rewrite (IH _ false H1), (go _ H2).
  - now apply andb_prop in H as [H1 _].
Qed.

(* STAGE 1 (general form; one function level).
   Script level: var / assignment / print / expression statements / blocks (any nesting) /
     `var f = |params| { body };` / `fun f(params) { body }`.
   Closure bodies: var declarations, nested blocks (so body locals, scope ends and Pop inside a call frame),
     assignments (to parameters, body locals, captured variables, globals), prints, expression statements, return.
   Expressions: literals, variables, +, calls f(args) with arbitrary fragment expressions as arguments.
   Self reference: `fun f` may call / capture itself (a captured local in a block, a global at script level);
     `var x = || .. x ..` may mention x at script level (a global then); in a block it may not (there the real
     resolver skips the uninitialised x and falls through to the global x - notes/C06.md, "Observation").
   Still one function level: no function definitions inside closure bodies. *)
Theorem compile_scope_correct_stage1g : forall cf p funs fuel st en,
  forallb (stmt4 true) p = true -> compile_scope cf p = Some funs ->
  exec_list fuel p [] true s_empty = (st, en, CNorm) ->
  exists n, forall k, Gen.run_funs bk_m cf (n + k) funs = eval_cells_fuel fuel p.
Proof.
  intros cf p funs fuel st en Hp Hc He.
  destruct (compile_scope_stage1_shape_w cf p funs (forallb_imp _ _ _ (fun s => stmt4_stmt2w s true) _ Hp) Hc)
    as (code & L' & fs' & Hcl & Hfuns).
  set (fn := List.length fs').
  assert (Hfnlen : List.length funs - 1 = fn) by (rewrite Hfuns, app_length; cbn; unfold fn; lia).
  assert (Hcode : code_of funs fn = (code ++ [INil; IReturn])%list).
  { unfold code_of, fn. rewrite Hfuns, app_nth2 by lia. now rewrite Nat.sub_diag. }
  destruct (sim3_all cf funs fuel) as (_ & _ & _ & _ & HL).
  pose proof (MS2_start funs) as HM0. rewrite Hfnlen in HM0.
  assert (HS0 : STO3 cf funs s_empty [] [] (cv (m_start bk_c funs)) (cn (m_start bk_c funs)) [] []).
  { constructor; cbn; [reflexivity|constructor|intros k0 []|intros c Hc0; lia|constructor|reflexivity]. }
  assert (HLR0 : LRB [] [0] [] 0 [mkLocal None (Some 0) false] []) by constructor.
  assert (Hd : depth_le 0 [mkLocal None (Some 0) false]) by (constructor; [cbn; lia|constructor]).
  destruct (HL _ _ _ _ _ _ He Hp _ _ _ _ _ _ Hcl eq_refl Hd ltac:(exists [mkFunc (code ++ [INil; IReturn]) 0 0]; exact Hfuns)
              (fun _ => eq_refl) _ _ _ HLR0 eq_refl (m_start bk_c funs) fn [] [] [] [INil; IReturn])
    as (n1 & m1 & K1 & CL1 & HL1 & G1 & O1 & S1 & M1 & ST1 & LR1 & Len1 & Hcn1 & _).
  { rewrite Hcode. reflexivity. }
  { exact HM0. }
  { exact HS0. }
  cbn [code_size Nat.add] in M1.
  assert (Hf1 : fetch (code_of funs fn) (code_size code) = Some INil).
  { rewrite Hcode. replace (code_size code) with (code_size [] + code_size code) by reflexivity.
    eapply fetch_mid with (pre := []) (c2 := [IReturn]) (post := []). cbn. now rewrite app_nil_r. }
  destruct (step2_nil cf funs _ _ _ _ _ _ _ _ _ _ M1 Hf1) as (m2 & E2 & M2 & C2 & D2).
  assert (Hf2 : fetch (code_of funs fn) (code_size code + 1) = Some IReturn).
  { rewrite Hcode. replace (code_size code + 1) with (code_size [] + code_size (code ++ [INil])) by (rewrite code_size_app; cbn; lia).
    eapply fetch_mid with (pre := []) (c2 := []) (post := []). cbn. rewrite app_nil_r, <- app_assoc. reflexivity. }
  assert (Hh : ~ In (cn m1) HL1) by (apply (notin_HL_fresh _ _ _ _ _ _ _ _ _ _ (cn m1) M1); lia).
  destruct (step2_return_done cf funs _ _ _ _ _ _ _ _ _ _ M2 Hf2 (Nat.le_0_l _) Hh) as (m3 & E3 & O3 & F3).
  assert (Hrun : forall k, run_loop cf funs (n1 + 1 + S k) (m_start bk_c funs) = MDone m3).
  { intros k. rewrite (run_loop_steps cf funs (n1 + 1) (S k) _ m2).
    - cbn [run_loop]. now rewrite E3.
    - eapply steps_trans; [exact S1|now apply steps_one]. }
  exists (n1 + 2). intros k.
  replace (n1 + 2 + k) with (n1 + 1 + S k) by lia.
  rewrite backend_swap.
  - unfold Gen.run_funs. fold (@run_loop bk_c). rewrite Hrun. unfold eval_cells_fuel. rewrite He.
    rewrite O3. now rewrite (sto3_o _ _ _ _ _ _ _ _ _ ST1).
  - fold (@run_loop bk_c). rewrite Hrun. exact F3.
Qed.

Print Assumptions compile_scope_correct_stage1g.

(* STAGE 1 as first proved (no parameters, closure bodies without locals, no self reference): a corollary *)
Corollary compile_scope_correct_stage1 : forall cf p funs fuel st en,
  forallb stmt3 p = true -> compile_scope cf p = Some funs ->
  exec_list fuel p [] true s_empty = (st, en, CNorm) ->
  exists n, forall k, Gen.run_funs bk_m cf (n + k) funs = eval_cells_fuel fuel p.
Proof.
  intros cf p funs fuel st en Hp. apply compile_scope_correct_stage1g.
  revert Hp. apply forallb_imp. intros s. apply stmt3_stmt4.
Qed.

(* STAGE 1a is an instance as well (its direct proof above predates the general one and is kept) *)
Corollary compile_scope_correct_stage1a_from_stage1 : forall cf p funs fuel st en,
  forallb stmt1 p = true -> compile_scope cf p = Some funs ->
  exec_list fuel p [] true s_empty = (st, en, CNorm) ->
  exists n, forall k, Gen.run_funs bk_m cf (n + k) funs = eval_cells_fuel fuel p.
Proof.
  intros cf p funs fuel st en Hp. apply compile_scope_correct_stage1g.
  revert Hp. apply forallb_imp. intros s. apply stmt1_stmt4.
Qed.

Print Assumptions compile_scope_correct_stage1.

(* the hypotheses are satisfiable by a program that exercises the mechanism: two closures over one block
   local, the local written after they exist, the block left (CloseUpvalue), both closures called afterwards *)
Definition stage1_example : prog :=
  [ SLam 5 [] [SReturn (ELit 0)]; SLam 6 [] [SReturn (ELit 0)];
    SBlock [ SDecl 1 (ELit 1);
             SLam 3 [] [SAssign 1 (EAdd (EVar 1) (ELit 1)); SReturn (EVar 1)]; SAssign 5 (EVar 3);
             SLam 4 [] [SReturn (EVar 1)]; SAssign 6 (EVar 4);
             SAssign 1 (EAdd (EVar 1) (ELit 10)); SPrint (ECall 5 []) ];
    SPrint (ECall 6 []); SPrint (ECall 5 []); SPrint (ECall 6 []) ].

Example stage1_example_ok :
  forallb stmt3 stage1_example = true /\
  (exists funs, compile_scope (mkCfg 256 256 true true false) stage1_example = Some funs) /\
  eval_cells stage1_example = "12|12|13|13#ok"%string /\
  run_m (mkCfg 256 256 true true false) stage1_example = "12|12|13|13#ok"%string.
Proof. split; [reflexivity|]. split; [eexists; vm_compute; reflexivity|]. split; vm_compute; reflexivity. Qed.

(* the general fragment: parameters and argument expressions, body locals and a nested block inside a body,
   a script-level lambda mentioning itself (global), a block-level `fn` capturing itself and a block local,
   the closure escaping the block and called after the block was left *)
Definition stage1g_example : prog :=
  [ SLam 9 [1] [SDecl 2 (EAdd (EVar 1) (ELit 1)); SBlock [SDecl 3 (EVar 9); SAssign 2 (EAdd (EVar 2) (ELit 1))]; SReturn (EVar 2)];
    SLam 8 [] [SReturn (ELit 0)];
    SBlock [ SDecl 4 (ELit 10);
             SFun 5 [1;2] [SDecl 6 (EVar 5); SAssign 4 (EAdd (EVar 4) (EAdd (EVar 1) (EVar 2))); SReturn (EVar 4)];
             SPrint (ECall 5 [ECall 9 [ELit 1]; EVar 4]);
             SAssign 8 (EVar 5) ];
    SPrint (ECall 8 [ELit 1; ECall 9 [ELit 5]]) ].

Example stage1g_example_ok :
  forallb (stmt4 true) stage1g_example = true /\ forallb stmt3 stage1g_example = false /\
  (exists funs, compile_scope (mkCfg 256 256 true true false) stage1g_example = Some funs) /\
  eval_cells stage1g_example = "23|31#ok"%string /\
  run_m (mkCfg 256 256 true true false) stage1g_example = "23|31#ok"%string.
Proof. split; [reflexivity|]. split; [reflexivity|]. split; [eexists; vm_compute; reflexivity|]. split; vm_compute; reflexivity. Qed.
