(* C06 - compile_scope_correct, stage by stage: the reference evaluator and the compiled program run by
   the machine over Upvalues.v (run_m) agree.  Each stage = simulation over the cell-store backend bk_c
   (ScopeSim.v) + ScopeSwap.backend_swap (bk_c with the discipline flag down = bk_m). *)
From Coq Require Import List Arith Bool String ZArith NArith Lia.
From YV Require Import Show Upvalues Cells ScopeLang ScopeComp ScopeSwap ScopeSim.
Import ListNotations.
Import Gen.
Open Scope nat_scope.

Lemma comp_list_pure : forall cf b, forallb stmt1 b = true -> forall c fs,
  match clist cf b (fc_locals c) (fc_depth c) with
  | Some (code, L') => comp_list cf b (one c fs) = one (with_code_locals c (fc_code c ++ code) L') fs
  | None => errd (comp_list cf b (one c fs))
  end.
Proof.
  intros cf b Hb. apply comp_list_pure_aux; [|exact Hb].
  induction b as [|a r IH]; constructor.
  - cbn in Hb. apply andb_prop in Hb as [Ha _]. intros c fs. now apply comp_stmt_pure.
  - cbn in Hb. apply andb_prop in Hb as [_ Hr]. now apply IH.
Qed.

(* the whole program: one function, the pure code followed by Nil; Return *)
Lemma compile_scope_stage1a_shape : forall cf p funs, forallb stmt1 p = true -> compile_scope cf p = Some funs ->
  exists code L', clist cf p [mkLocal None (Some 0) false] 0 = Some (code, L') /\
                  funs = [mkFunc (code ++ [INil; IReturn]) 0 0].
Proof.
  intros cf p funs Hp Hc. unfold compile_scope, comp_prog in Hc.
  change (fold_left (fun s a => comp_stmt cf a s) p (mkCst [new_fcomp true] [] None)) with (comp_list cf p (one (new_fcomp true) [])) in Hc.
  pose proof (comp_list_pure cf p Hp (new_fcomp true) []) as H. cbn [fc_locals fc_depth new_fcomp] in H.
  destruct (clist cf p [mkLocal None (Some 0) false] 0) as [[code L']|].
  - rewrite H in Hc. rewrite emits_one in Hc. cbn in Hc. inversion Hc. exists code, L'. split; [reflexivity|]. reflexivity.
  - exfalso. apply (errd_emits [INil; IReturn]) in H. unfold errd in H. destruct (cs_err _); [discriminate|congruence].
Qed.

Lemma m_start_MS : forall code,
  MS (m_start bk_c [mkFunc code 0 0]) 0 [] 0 0 [] [MClo 0 []] [] [].
Proof.
  intros code. unfold m_start. cbn [List.length Nat.sub].
  set (m0 := mkMach (binit bk_c) [mkMF [mkFrame 0 [] 0 0] [] None (MClo 0 []) false] [] [] []).
  assert (S0 : SOK m0 []).
  { constructor; try reflexivity. constructor; cbn; intros; lia. }
  destruct (mpush_c m0 [] (MClo 0 []) S0) as [S1 R1].
  constructor; [exact S1| | |].
  - destruct R1 as (R1 & _). constructor; unfold fib0; rewrite R1; cbn; [discriminate|reflexivity|reflexivity].
  - destruct R1 as (_ & R2 & _). now rewrite R2.
  - destruct R1 as (_ & _ & _ & R4). now rewrite R4.
Qed.

(* STAGE 1a: blocks (any nesting), declarations, assignments, print; literals, variables, + ;
   locals and globals, shadowing; no closures.  For every program of the fragment that compiles and whose
   reference evaluation completes (any fuel), the machine over Upvalues.v, given enough fuel, prints
   exactly what the reference evaluator prints. *)
Theorem compile_scope_correct_stage1a : forall cf p funs fuel st en,
  forallb stmt1 p = true -> compile_scope cf p = Some funs ->
  exec_list fuel p [] true s_empty = (st, en, CNorm) ->
  exists n, forall k, Gen.run_funs bk_m cf (n + k) funs = eval_cells_fuel fuel p.
Proof.
  intros cf p funs fuel st en Hp Hc He.
  destruct (compile_scope_stage1a_shape cf p funs Hp Hc) as (code & L' & Hcl & ->).
  set (funs := [mkFunc (code ++ [INil; IReturn]) 0 0]).
  destruct (sim_all cf funs fuel) as [_ HL].
  assert (HSIM : SIM [mkLocal None (Some 0) false] [] s_empty [MClo 0 []] [] []).
  { constructor; cbn; auto; try constructor. intros x c []. }
  assert (Hd : depth_le 0 [mkLocal None (Some 0) false]) by (constructor; [cbn; lia|constructor]).
  destruct (HL _ _ _ _ _ _ He Hp _ _ _ _ Hcl eq_refl Hd _ _ _ HSIM (m_start bk_c funs) 0 [] [INil; IReturn])
    as (n1 & m1 & SL1 & G1 & O1 & S1 & M1 & SIM1 & _ & _).
  { reflexivity. }
  { apply m_start_MS. }
  cbn [code_size Nat.add] in M1.
  assert (Hf1 : fetch (code_of funs 0) (code_size code) = Some INil).
  { replace (code_size code) with (code_size [] + code_size code) by reflexivity.
    eapply fetch_mid with (pre := []) (c2 := [IReturn]) (post := []). cbn. now rewrite app_nil_r. }
  destruct (step_nil cf funs _ _ _ _ _ _ _ _ _ M1 Hf1) as (m2 & E2 & M2).
  assert (Hf2 : fetch (code_of funs 0) (code_size code + 1) = Some IReturn).
  { replace (code_size code + 1) with (code_size [] + code_size (code ++ [INil])) by (rewrite code_size_app; cbn; lia).
    eapply fetch_mid with (pre := []) (c2 := []) (post := []). cbn. rewrite app_nil_r, <- app_assoc. reflexivity. }
  destruct (step_return_done cf funs _ _ _ _ _ _ _ _ _ M2 Hf2 (Nat.le_0_l _)) as (m3 & E3 & O3 & F3).
  assert (Hrun : forall k, run_loop cf funs (n1 + 1 + S k) (m_start bk_c funs) = MDone m3).
  { intros k. rewrite (run_loop_steps cf funs (n1 + 1) (S k) _ m2).
    - cbn [run_loop]. now rewrite E3.
    - eapply steps_trans; [exact S1|now apply steps_one]. }
  exists (n1 + 2). intros k.
  replace (n1 + 2 + k) with (n1 + 1 + S k) by lia.
  rewrite backend_swap.
  - unfold Gen.run_funs. fold (@run_loop bk_c). rewrite Hrun. unfold eval_cells_fuel. rewrite He.
    rewrite O3. now rewrite (sim_o _ _ _ _ _ _ SIM1).
  - fold (@run_loop bk_c). rewrite Hrun. exact F3.
Qed.

Print Assumptions compile_scope_correct_stage1a.

(* ------------------------------------------------------------------------------------------ *)
From YV Require Import ScopeDefs2 ScopeMach2 ScopeComp2 ScopeDefsN ScopeCompN ScopeFactsN ScopeRel2 ScopeRelN ScopeSimN.

(* ---- inclusions between the fragments ---- *)
Lemma expr3_expr2 : forall e, expr3 e = true -> expr2 e = true.
Proof.
  fix IH 1. intros e H. destruct e as [n|x|a b|f l| |v k l]; cbn in H |- *; try discriminate; try reflexivity.
  - apply andb_prop in H as [H1 H2]. now rewrite (IH _ H1), (IH _ H2).
  - destruct l; [reflexivity|discriminate].
Qed.

Lemma expr1_expr2 : forall e, expr1 e = true -> expr2 e = true.
Proof.
  fix IH 1. intros e H. destruct e as [n|x|a b|f l| |v k l]; cbn in H |- *; try discriminate; try reflexivity.
  apply andb_prop in H as [H1 H2]. now rewrite (IH _ H1), (IH _ H2).
Qed.

Lemma bstmt3_bstmt2 : forall s, bstmt3 s = true -> bstmt2 s = true.
Proof. intros s H. destruct s; cbn in H |- *; try discriminate; now apply expr3_expr2. Qed.

Lemma forallb_imp : forall (A : Type) (f g : A -> bool), (forall a, f a = true -> g a = true) ->
  forall l, forallb f l = true -> forallb g l = true.
Proof.
  intros A f g H l. induction l as [|a r IH]; [reflexivity|]. cbn. intros H0. apply andb_prop in H0 as [H1 H2].
  now rewrite (H _ H1), (IH H2).
Qed.

Lemma stmt3_stmt4 : forall s top, stmt3 s = true -> stmt4 top s = true.
Proof.
  fix IH 1. intros s top H. destruct s as [x e|x e|e|e|l|f ps l|x ps l|i n l|a c t e| | |e|e|l x h|l|v e]; cbn in H |- *; try discriminate; try (now apply expr3_expr2).
  - revert H. generalize l. fix go 1. intros l0 H. destruct l0 as [|a r]; [reflexivity|]. cbn in H |- *.
    apply andb_prop in H as [H1 H2]. now rewrite (IH _ false H1), (go _ H2).
  - destruct ps; [|discriminate]. apply andb_prop in H as [H1 H2].
    rewrite (forallb_imp _ _ _ bstmt3_bstmt2 _ H1), H2. now rewrite orb_true_r.
Qed.

Lemma stmt1_stmt4 : forall s top, stmt1 s = true -> stmt4 top s = true.
Proof.
  fix IH 1. intros s top H. destruct s as [x e|x e|e|e|l|f ps l|x ps l|i n l|a c t e| | |e|e|l x h|l|v e]; cbn in H |- *; try discriminate; try (now apply expr1_expr2).
  revert H. generalize l. fix go 1. intros l0 H. destruct l0 as [|a r]; [reflexivity|]. cbn in H |- *.
  apply andb_prop in H as [H1 H2]. now rewrite (IH _ false H1), (go _ H2).
Qed.

(* closure bodies of one function level are bodies of the n-level fragment; on them the two notions of
   "mentions x" coincide *)
Lemma bstmt2_stmt5 : forall s, bstmt2 s = true -> stmt5 true false s = true.
Proof.
  fix IH 1. intros s H. destruct s as [x e|x e|e|e|l|f ps l|x ps l|i n l|a c t e| | |e|e|l x h|l|v e]; cbn in H |- *; try discriminate; try exact H.
  revert H. generalize l. fix go 1. intros l0 H. destruct l0 as [|a r]; [reflexivity|]. cbn in H |- *.
  apply andb_prop in H as [H1 H2]. now rewrite (IH _ H1), (go _ H2).
Qed.

Lemma bstmt2_mentions : forall x s, bstmt2 s = true -> s_mentionsN x s = s_mentions x s.
Proof.
  intros x. fix IH 1. intros s H. destruct s as [y e|y e|e|e|l|f ps l|y ps l|i n l|a c t e| | |e|e|l y h|l|v e]; cbn in H |- *; try discriminate; try reflexivity.
  revert H. generalize l. fix go 1. intros l0 H. destruct l0 as [|a r]; [reflexivity|]. cbn in H |- *.
  apply andb_prop in H as [H1 H2]. now rewrite (IH _ H1), (go _ H2).
Qed.

Lemma bstmt2_mentions_list : forall x l, forallb bstmt2 l = true -> existsb (s_mentionsN x) l = existsb (s_mentions x) l.
Proof.
  intros x l. induction l as [|a r IH]; intros H; [reflexivity|]. cbn in H |- *. apply andb_prop in H as [H1 H2].
  now rewrite (bstmt2_mentions x _ H1), (IH H2).
Qed.

Lemma stmt4_stmt5 : forall s top, stmt4 top s = true -> stmt5 false top s = true.
Proof.
  fix IH 1. intros s top H. destruct s as [x e|x e|e|e|l|f ps l|x ps l|i n l|a c t e| | |e|e|l x h|l|v e]; cbn in H |- *; try discriminate; try exact H.
  - revert H. generalize l. fix go 1. intros l0 H. destruct l0 as [|a r]; [reflexivity|]. cbn in H |- *.
    apply andb_prop in H as [H1 H2]. now rewrite (IH _ false H1), (go _ H2).
  - exact (forallb_imp _ _ _ bstmt2_stmt5 _ H).
  - apply andb_prop in H as [H1 H2]. rewrite (forallb_imp _ _ _ bstmt2_stmt5 _ H1). cbn.
    now rewrite (bstmt2_mentions_list x l H1).
Qed.

(* stages 3 and 4 share one simulation (ScopeSimN.v, parameter `jumps`); they differ in the compile correspondence used
   (`break` needs the repaired order of scope-end ops and jump) *)
Lemma compile_scope_correct_gen : forall jumps cf p funs fuel st en code L' fs',
  forallb (stmt6 jumps false true false) p = true ->
  nlist cf p 0 [mkLocal None (Some 0) false] [] [] [] 0 None = Some (code, L', [], [], fs') ->
  funs = (fs' ++ [mkFunc (code ++ [INil; IReturn]) 0 0])%list ->
  exec_list fuel p [] true s_empty = (st, en, CNorm) ->
  exists n, forall k, Gen.run_funs bk_m cf (n + k) funs = eval_cells_fuel fuel p.
Proof.
  intros jumps cf p funs fuel st en code L' fs' Hp Hcl Hfuns He.
  set (fn := List.length fs').
  assert (Hfnlen : List.length funs - 1 = fn) by (rewrite Hfuns, app_length; cbn; unfold fn; lia).
  assert (Hcode : code_of funs fn = (code ++ [INil; IReturn])%list).
  { unfold code_of, fn. rewrite Hfuns, app_nth2 by lia. now rewrite Nat.sub_diag. }
  destruct (simN_all cf funs jumps fuel) as (_ & _ & HL).
  pose proof (MS2_start funs) as HM0. rewrite Hfnlen in HM0.
  assert (HS0 : STON cf funs jumps s_empty [] [] (cv (m_start bk_c funs)) (cn (m_start bk_c funs)) [] []).
  { constructor; cbn; [reflexivity|constructor|intros k0 []|intros c Hc0; lia|constructor|reflexivity]. }
  assert (HLR0 : LRBN [] [0] [] 0 [mkLocal None (Some 0) false] []) by (constructor; [constructor|intros []]).
  assert (Hd : depth_le 0 [mkLocal None (Some 0) false]) by (constructor; [cbn; lia|constructor]).
  assert (HC0 : CTX [] [0] [] 0 [mkLocal None (Some 0) false] [] [] [] [] []).
  { constructor; [exact HLR0|cbn; lia|constructor|intros j Hj; cbn in Hj; lia|intros x c []]. }
  destruct (HL p false true false [] [] s_empty st en CNorm He Hp _ 0 [] [] [] 0 None code L' [] [] fs' Hcl
              (or_introl (or_introl eq_refl)) eq_refl Hd
              ltac:(auto) ltac:(split; exact I) ltac:(exists [mkFunc (code ++ [INil; IReturn]) 0 0]; exact Hfuns)
              [mkLocal None (Some 0) false] [] [] [] [] [0] [] 0 (flags_up_refl _) ltac:(exists []; reflexivity) ltac:(constructor) HC0 eq_refl
              (m_start bk_c funs) fn [] [] [] [] [INil; IReturn] 0)
    as (n1 & m1 & K1 & HL1 & G1 & O1 & S1 & ST1 & _ & _ & _ & Hcn1 & (CL1 & enb1 & _ & M1 & _)).
  { rewrite Hcode. reflexivity. }
  { reflexivity. }
  { intros l El. discriminate. }
  { discriminate. }
  { lia. }
  { intros i Hi. lia. }
  { exact HM0. }
  { exact HS0. }
  cbn [code_size Nat.add] in M1.
  assert (Hf1 : fetch (code_of funs fn) (code_size code) = Some INil).
  { rewrite Hcode. replace (code_size code) with (code_size [] + code_size code) by reflexivity.
    eapply fetch_mid with (pre := []) (c2 := [IReturn]) (post := []). cbn. now rewrite app_nil_r. }
  destruct (step2_nil cf funs _ _ _ _ _ _ _ _ _ _ M1 Hf1) as (m2 & E2 & M2 & C2 & D2).
  assert (Hf2 : fetch (code_of funs fn) (code_size code + 1) = Some IReturn).
  { rewrite Hcode. replace (code_size code + 1) with (code_size [] + code_size (code ++ [INil])) by (rewrite code_size_app; cbn; lia).
    eapply fetch_mid with (pre := []) (c2 := []) (post := []). cbn. rewrite app_nil_r, <- app_assoc. reflexivity. }
  assert (Hh : ~ In (cn m1) HL1) by (apply (notin_HL_fresh _ _ _ _ _ _ _ _ _ _ (cn m1) M1); lia).
  destruct (step2_return_done cf funs _ _ _ _ _ _ _ _ _ _ M2 Hf2 (Nat.le_0_l _) Hh) as (m3 & E3 & O3 & F3).
  assert (Hrun : forall k, run_loop cf funs (n1 + 1 + S k) (m_start bk_c funs) = MDone m3).
  { intros k. rewrite (run_loop_steps cf funs (n1 + 1) (S k) _ m2).
    - cbn [run_loop]. now rewrite E3.
    - eapply steps_trans; [exact S1|now apply steps_one]. }
  exists (n1 + 2). intros k.
  replace (n1 + 2 + k) with (n1 + 1 + S k) by lia.
  rewrite backend_swap.
  - unfold Gen.run_funs. fold (@run_loop bk_c). rewrite Hrun. unfold eval_cells_fuel. rewrite He.
    rewrite O3. now rewrite (stn_o _ _ _ _ _ _ _ _ _ _ ST1).
  - fold (@run_loop bk_c). rewrite Hrun. exact F3.
Qed.

(* STAGE 4: break / continue (fragment `stmt6 true false true false` of ScopeDefsN.v), for the repaired compiler
   (`c_break_pops_first cf = true`: `break` emits the scope-end ops BEFORE its jump; with the shipped order the compiled
   program differs from the Spec, `compile_scope_refuted_break_dead_pops`).
   `break` / `continue` anywhere inside a loop body: in nested blocks and `if`s, after closures captured locals of the scopes
   that are left (the early exit emits Pop for the locals not captured SO FAR and CloseUpvalue for the captured ones - the
   static flags at that point, which for the locals of the current iteration are exactly the run-time captures), in
   nested loops (innermost loop), in loops inside function bodies.  `return` out of nested scopes with captured locals
   is part of stages 2 / 3 (ReturnFrame closes what is open). *)
Theorem compile_scope_correct_stage4 : forall cf p funs fuel st en,
  c_break_pops_first cf = true ->
  forallb (stmt6 true false true false) p = true -> compile_scope cf p = Some funs ->
  exec_list fuel p [] true s_empty = (st, en, CNorm) ->
  exists n, forall k, Gen.run_funs bk_m cf (n + k) funs = eval_cells_fuel fuel p.
Proof.
  intros cf p funs fuel st en Hcf Hp Hc He.
  destruct (compile_scope_stage4_shape cf p funs Hcf Hp Hc) as (code & L' & fs' & Hcl & Hfuns).
  eapply compile_scope_correct_gen; eauto.
Qed.

Print Assumptions compile_scope_correct_stage4.

(* STAGE 3: `for` loops and `if`, on top of stage 2 (fragment `stmt6 false false true false` of ScopeDefsN.v); any cfg.
   `for i in 0..n { body }`: ONE variable i for the whole loop (a closure created in iteration k sees the values the later
   iterations assign to it, and the StopIter value after the loop), FRESH cells for the variables declared in the body in
   every iteration (closures created in different iterations do not share them); the hidden iterator local; the scope end
   of the loop closing / popping i.  `if a < c { .. } else { .. }` with blocks.  Loops and ifs nest, also inside function
   bodies, with `return` out of loops.  Same simulation as stage 4, compile correspondence without break / continue. *)
Theorem compile_scope_correct_stage3 : forall cf p funs fuel st en,
  forallb (stmt6 false false true false) p = true -> compile_scope cf p = Some funs ->
  exec_list fuel p [] true s_empty = (st, en, CNorm) ->
  exists n, forall k, Gen.run_funs bk_m cf (n + k) funs = eval_cells_fuel fuel p.
Proof.
  intros cf p funs fuel st en Hp Hc He.
  destruct (compile_scope_stage3_shape cf p funs Hp Hc) as (code & L' & fs' & Hcl & Hfuns).
  eapply compile_scope_correct_gen; eauto.
Qed.

Print Assumptions compile_scope_correct_stage3.

(* STAGE 2: nested function levels, to any depth (fragment `stmt5 false true` of ScopeDefsN.v): a corollary of stage 3.
   Script level and function bodies alike: var / assignment / print / expression statements / blocks (any nesting) /
     `var f = |params| { body };` / `fn f(params) { body }`; in bodies also `return e`.
   A closure created inside a closure body captures locals of that body (is_local = true; the captured flag makes the
   scope end, or the return, close the upvalue inside the call frame) and variables of functions further out through
   the enclosing closure's own upvalues (is_local = false, any number of levels: Parser::resolve_upvalue recursive);
   the variable is shared by the declaring scope and all closures at all levels, while its frame is live and after it
   has returned.  Self reference as in stage 1 (`var x = || .. x ..` only at the top level of the script). *)
Corollary compile_scope_correct_stage2 : forall cf p funs fuel st en,
  forallb (stmt5 false true) p = true -> compile_scope cf p = Some funs ->
  exec_list fuel p [] true s_empty = (st, en, CNorm) ->
  exists n, forall k, Gen.run_funs bk_m cf (n + k) funs = eval_cells_fuel fuel p.
Proof.
  intros cf p funs fuel st en Hp. apply compile_scope_correct_stage3. now apply forallb_stmt5_stmt6.
Qed.

(* STAGE 1 in its general form (one function level: parameters and arguments, declarations and blocks inside closure
   bodies, self reference): a corollary of stage 2 *)
Corollary compile_scope_correct_stage1g : forall cf p funs fuel st en,
  forallb (stmt4 true) p = true -> compile_scope cf p = Some funs ->
  exec_list fuel p [] true s_empty = (st, en, CNorm) ->
  exists n, forall k, Gen.run_funs bk_m cf (n + k) funs = eval_cells_fuel fuel p.
Proof.
  intros cf p funs fuel st en Hp. apply compile_scope_correct_stage2.
  revert Hp. apply forallb_imp. intros s. apply stmt4_stmt5.
Qed.

(* STAGE 1 as first proved (no parameters, closure bodies without locals, no self reference): a corollary *)
Corollary compile_scope_correct_stage1 : forall cf p funs fuel st en,
  forallb stmt3 p = true -> compile_scope cf p = Some funs ->
  exec_list fuel p [] true s_empty = (st, en, CNorm) ->
  exists n, forall k, Gen.run_funs bk_m cf (n + k) funs = eval_cells_fuel fuel p.
Proof.
  intros cf p funs fuel st en Hp. apply compile_scope_correct_stage1g.
  revert Hp. apply forallb_imp. intros s. apply stmt3_stmt4.
Qed.

(* STAGE 1a is an instance as well (its direct proof above predates the general one and is kept) *)
Corollary compile_scope_correct_stage1a_from_stage1 : forall cf p funs fuel st en,
  forallb stmt1 p = true -> compile_scope cf p = Some funs ->
  exec_list fuel p [] true s_empty = (st, en, CNorm) ->
  exists n, forall k, Gen.run_funs bk_m cf (n + k) funs = eval_cells_fuel fuel p.
Proof.
  intros cf p funs fuel st en Hp. apply compile_scope_correct_stage1g.
  revert Hp. apply forallb_imp. intros s. apply stmt1_stmt4.
Qed.

Print Assumptions compile_scope_correct_stage1.

(* the hypotheses are satisfiable by a program that exercises the mechanism: two closures over one block
   local, the local written after they exist, the block left (CloseUpvalue), both closures called afterwards *)
Definition stage1_example : prog :=
  [ SLam 5 [] [SReturn (ELit 0)]; SLam 6 [] [SReturn (ELit 0)];
    SBlock [ SDecl 1 (ELit 1);
             SLam 3 [] [SAssign 1 (EAdd (EVar 1) (ELit 1)); SReturn (EVar 1)]; SAssign 5 (EVar 3);
             SLam 4 [] [SReturn (EVar 1)]; SAssign 6 (EVar 4);
             SAssign 1 (EAdd (EVar 1) (ELit 10)); SPrint (ECall 5 []) ];
    SPrint (ECall 6 []); SPrint (ECall 5 []); SPrint (ECall 6 []) ].

Example stage1_example_ok :
  forallb stmt3 stage1_example = true /\
  (exists funs, compile_scope (mkCfg 256 256 true true false) stage1_example = Some funs) /\
  eval_cells stage1_example = "12|12|13|13#ok"%string /\
  run_m (mkCfg 256 256 true true false) stage1_example = "12|12|13|13#ok"%string.
Proof. split; [reflexivity|]. split; [eexists; vm_compute; reflexivity|]. split; vm_compute; reflexivity. Qed.

(* the general fragment: parameters and argument expressions, body locals and a nested block inside a body,
   a script-level lambda mentioning itself (global), a block-level `fn` capturing itself and a block local,
   the closure escaping the block and called after the block was left *)
Definition stage1g_example : prog :=
  [ SLam 9 [1] [SDecl 2 (EAdd (EVar 1) (ELit 1)); SBlock [SDecl 3 (EVar 9); SAssign 2 (EAdd (EVar 2) (ELit 1))]; SReturn (EVar 2)];
    SLam 8 [] [SReturn (ELit 0)];
    SBlock [ SDecl 4 (ELit 10);
             SFun 5 [1;2] [SDecl 6 (EVar 5); SAssign 4 (EAdd (EVar 4) (EAdd (EVar 1) (EVar 2))); SReturn (EVar 4)];
             SPrint (ECall 5 [ECall 9 [ELit 1]; EVar 4]);
             SAssign 8 (EVar 5) ];
    SPrint (ECall 8 [ELit 1; ECall 9 [ELit 5]]) ].

Example stage1g_example_ok :
  forallb (stmt4 true) stage1g_example = true /\ forallb stmt3 stage1g_example = false /\
  (exists funs, compile_scope (mkCfg 256 256 true true false) stage1g_example = Some funs) /\
  eval_cells stage1g_example = "23|31#ok"%string /\
  run_m (mkCfg 256 256 true true false) stage1g_example = "23|31#ok"%string.
Proof. split; [reflexivity|]. split; [reflexivity|]. split; [eexists; vm_compute; reflexivity|]. split; vm_compute; reflexivity. Qed.

(* nested function levels: a block local captured by a function (v2) and, through v2's upvalue, by a function defined
   inside it (v5) and by a lambda one level further in (v6); a body local (v4) captured by v5 / v6 and by a lambda in
   a nested block of the body (CloseUpvalue inside the call frame at the block end and at the return); closures
   escaping from two levels and called after their frames are gone *)
Definition stage2_example : prog :=
  [ SLam 9 [] [SReturn (ELit 0)];
    SBlock [ SDecl 1 (ELit 10);
      SFun 2 [3] [ SDecl 4 (EAdd (EVar 3) (EVar 1));
                   SFun 5 [] [ SAssign 4 (EAdd (EVar 4) (ELit 1)); SAssign 1 (EAdd (EVar 1) (ELit 100));
                               SLam 6 [7] [SReturn (EAdd (EVar 4) (EAdd (EVar 1) (EVar 7)))];
                               SReturn (EVar 6) ];
                   SBlock [ SDecl 8 (ELit 5); SLam 10 [] [SAssign 8 (EAdd (EVar 8) (EVar 4)); SReturn (EVar 8)];
                            SPrint (ECall 10 []); SPrint (ECall 10 []) ];
                   SReturn (EVar 5) ];
      SDecl 11 (ECall 2 [ELit 1]);
      SDecl 12 (ECall 11 []);
      SPrint (ECall 12 [ELit 1000]);
      SAssign 9 (ECall 11 []) ];
    SPrint (ECall 9 [ELit 2000]) ].

Example stage2_example_ok :
  forallb (stmt5 false true) stage2_example = true /\ forallb (stmt4 true) stage2_example = false /\
  (exists funs, compile_scope (mkCfg 256 256 true true false) stage2_example = Some funs /\ map f_nups funs = [0; 2; 2; 2; 1; 0]) /\
  eval_cells stage2_example = "16|27|1122|2223#ok"%string /\
  run_m (mkCfg 256 256 true true false) stage2_example = "16|27|1122|2223#ok"%string.
Proof. split; [reflexivity|]. split; [reflexivity|]. split; [eexists; split; vm_compute; reflexivity|]. split; vm_compute; reflexivity. Qed.

(* loops: a closure per iteration over the body variable v2 (fresh each time: 11, 12, 13 then 12, 13 from the escaped
   closures of iterations 0 and 1) and over the loop variable v1 (ONE variable: the closure of the last iteration sees the
   StopIter value after the loop); `if` choosing where the closure escapes to; nested loops inside a function, a closure
   over both loop variables returned out of the loops *)
Definition stage3_example : prog :=
  [ SLam 20 [] [SReturn (ELit 0)]; SLam 21 [] [SReturn (ELit 0)]; SLam 22 [] [SReturn (ELit 0)];
    SLoop 1 3 [ SDecl 2 (EAdd (EVar 1) (ELit 10));
                SLam 3 [] [SAssign 2 (EAdd (EVar 2) (ELit 1)); SReturn (EVar 2)];
                SIf (EVar 1) (ELit 1) [SAssign 20 (EVar 3)] [ SIf (EVar 1) (ELit 2) [SAssign 21 (EVar 3)] [SLam 4 [] [SReturn (EVar 1)]; SAssign 22 (EVar 4)] ];
                SPrint (ECall 3 []) ];
    SPrint (ECall 20 []); SPrint (ECall 21 []); SPrint (ECall 22 []);
    SFun 30 [31] [ SDecl 32 (ELit 0);
                   SLoop 33 3 [ SLoop 34 2 [ SAssign 32 (EAdd (EVar 32) (EAdd (EVar 33) (EVar 31))) ];
                                SIf (ELit 1) (EVar 33) [ SLam 35 [] [SReturn (EAdd (EVar 33) (EVar 32))]; SReturn (EVar 35) ] [] ];
                   SReturn (EVar 32) ];
    SDecl 40 (ECall 30 [ELit 100]); SPrint (ECall 40 []) ].

Example stage3_example_ok :
  forallb (stmt6 false false true false) stage3_example = true /\ forallb (stmt5 false true) stage3_example = false /\
  (exists funs, compile_scope (mkCfg 256 256 true true false) stage3_example = Some funs) /\
  eval_cells stage3_example = "11|12|13|12|13|<StopIter instance>|608#ok"%string /\
  run_m (mkCfg 256 256 true true false) stage3_example = "11|12|13|12|13|<StopIter instance>|608#ok"%string.
Proof. split; [reflexivity|]. split; [reflexivity|]. split; [eexists; vm_compute; reflexivity|]. split; vm_compute; reflexivity. Qed.

(* break / continue out of nested scopes with captured locals: a closure per iteration over a body variable, `continue`
   from inside an `if` after the closure escaped, `break` from inside a nested block whose local was captured by a closure
   (CloseUpvalue emitted by the early exit), nested loops with `continue` in a function, `return` of a closure from
   inside a loop *)
Definition stage4_example : prog :=
  [ SLam 20 [] [SReturn (ELit 0)]; SLam 21 [] [SReturn (ELit 0)]; SDecl 22 (ELit 0);
    SLoop 1 4 [ SDecl 2 (EAdd (EVar 1) (ELit 10));
                SLam 3 [] [SAssign 2 (EAdd (EVar 2) (ELit 1)); SReturn (EAdd (EVar 2) (EVar 1))];
                SIf (EVar 1) (ELit 1) [SAssign 20 (EVar 3)] [ SIf (EVar 1) (ELit 2) [SAssign 21 (EVar 3); SContinue] [] ];
                SBlock [ SDecl 4 (ELit 7); SLam 5 [] [SReturn (EAdd (EVar 4) (EVar 2))];
                         SIf (ELit 2) (EVar 1) [SAssign 22 (ECall 5 []); SBreak] [];
                         SPrint (ECall 5 []) ];
                SPrint (ECall 3 []) ];
    SPrint (ECall 20 []); SPrint (ECall 21 []); SPrint (EVar 22);
    SFun 30 [31] [ SDecl 32 (ELit 0);
                   SLoop 33 3 [ SLoop 34 2 [ SIf (EVar 34) (ELit 1) [SContinue] []; SAssign 32 (EAdd (EVar 32) (EAdd (EVar 33) (EVar 31))) ];
                                SIf (ELit 0) (EVar 33) [ SLam 35 [] [SReturn (EVar 33)]; SReturn (EVar 35) ] [] ];
                   SReturn (EVar 32) ];
    SDecl 40 (ECall 30 [ELit 100]); SPrint (ECall 40 []) ].

Example stage4_example_ok :
  forallb (stmt6 true false true false) stage4_example = true /\ forallb (stmt6 false false true false) stage4_example = false /\
  (exists funs, compile_scope (mkCfg 256 256 true true false) stage4_example = Some funs) /\
  eval_cells stage4_example = "17|11|19|15|15|15|20|1#ok"%string /\
  run_m (mkCfg 256 256 true true false) stage4_example = "17|11|19|15|15|15|20|1#ok"%string.
Proof. split; [reflexivity|]. split; [reflexivity|]. split; [eexists; vm_compute; reflexivity|]. split; vm_compute; reflexivity. Qed.
