(* C06 - compile_scope_correct, stage 5: stage 4 + `throw e` + `try { .. } catch x { .. }` (no finally).
   For EVERY program of the fragment `stmt7 true false true false` (ScopeDefs5.v), any fuel: if compile_scope accepts it
   and the reference evaluator completes - normally, or with an exception that nothing catches - then the compiled code
   on the machine over Upvalues.v (run_funs bk_m), given enough fuel, prints exactly the same lines and ends the same
   way ("ok" / "err").
   = compile correspondence (ScopeComp5.v) + simulation over the cell-store backend bk_c (ScopeSim5.v: sim5_all; the
   discipline flag stays down through every unwind because unwind_stack closes the upvalues above the handler's height
   before it truncates) + ScopeSwap.backend_swap (bk_c with the flag down = bk_m).
   cfg hypotheses: c_break_pops_first (stage 4), c_unwind_closes, c_catch_pops = false: the regenerated values of
   gen/ScopeCfg.v.  With c_unwind_closes = false the statement is FALSE: compile_scope_stage5_refuted_unwind. *)
From Coq Require Import List Arith Bool String ZArith NArith Lia.
From YV Require Import Show Upvalues Cells ScopeLang ScopeComp ScopeSwap ScopeSim ScopeDefs2 ScopeMach2 ScopeComp2 ScopeRel2
                       ScopeDefsN ScopeCompN ScopeFactsN ScopeRelN ScopeDefs5 ScopeComp5 ScopeFacts5 ScopeRel5 ScopeMach5 ScopeSim5.
Import ListNotations.
Import Gen.
Open Scope nat_scope.

Lemma hof_start : forall funs, hof (m_start bk_c funs) = [].
Proof. intros funs. unfold m_start. rewrite hof_mpush. reflexivity. Qed.

(* the simulation, from the start state to the end of the run *)
Lemma compile_scope_correct_gen5 : forall jumps cf p funs fuel st en c code L' fs',
  c_unwind_closes cf = true -> c_catch_pops cf = false ->
  forallb (stmt7 jumps false true false) p = true ->
  nlist cf p 0 [mkLocal None (Some 0) false] [] [] [] 0 None = Some (code, L', [], [], fs') ->
  funs = (fs' ++ [mkFunc (code ++ [INil; IReturn]) 0 0])%list ->
  exec_list fuel p [] true s_empty = (st, en, c) -> (c = CNorm \/ exists v, c = CThrow v) ->
  exists n, forall k, Gen.run_funs bk_m cf (n + k) funs = eval_cells_fuel fuel p.
Proof.
  intros jumps cf p funs fuel st en c code L' fs' Hun Hcp Hp Hcl Hfuns He Hc.
  set (fn := List.length fs').
  assert (Hfnlen : List.length funs - 1 = fn) by (rewrite Hfuns, app_length; cbn; unfold fn; lia).
  assert (Hcode : code_of funs fn = (code ++ [INil; IReturn])%list).
  { unfold code_of, fn. rewrite Hfuns, app_nth2 by lia. now rewrite Nat.sub_diag. }
  destruct (sim5_all cf funs jumps Hun Hcp fuel) as (_ & _ & _ & HL).
  pose proof (MS2_start funs) as HM0. rewrite Hfnlen in HM0.
  assert (HM5 : MS5 [] (m_start bk_c funs) fn [] 0 0 [] [0] [] [] []) by (constructor; [exact HM0|apply hof_start]).
  assert (HS0 : STON cf funs jumps s_empty [] [] (cv (m_start bk_c funs)) (cn (m_start bk_c funs)) [] []).
  { constructor; cbn; [reflexivity|constructor|intros k0 []|intros c0 Hc0; lia|constructor|reflexivity]. }
  assert (HLR0 : LRBN [] [0] [] 0 [mkLocal None (Some 0) false] []) by (constructor; [constructor|intros []]).
  assert (Hd : depth_le 0 [mkLocal None (Some 0) false]) by (constructor; [cbn; lia|constructor]).
  assert (HC0 : CTX [] [0] [] 0 [mkLocal None (Some 0) false] [] [] [] [] []).
  { constructor; [exact HLR0|cbn; lia|constructor|intros j Hj; cbn in Hj; lia|intros x c0 []]. }
  assert (Hg : goodl None c).
  { destruct Hc as [->|[v ->]]; [left; now left|right; right; eauto]. }
  destruct (HL [] p false true false [] [] s_empty st en c He Hp _ 0 [] [] [] 0 None code L' [] [] fs' Hcl
              Hg eq_refl Hd
              ltac:(auto) ltac:(split; exact I) ltac:(exists [mkFunc (code ++ [INil; IReturn]) 0 0]; exact Hfuns)
              [mkLocal None (Some 0) false] [] [] [] [] [0] [] 0 (flags_up_refl _) ltac:(exists []; reflexivity) ltac:(constructor) HC0 eq_refl
              (m_start bk_c funs) fn [] [] [] [] [INil; IReturn] 0)
    as (n1 & m1 & K1 & HL1 & G1 & O1 & S1 & ST1 & _ & _ & _ & Hcn1 & Hres).
  { rewrite Hcode. reflexivity. }
  { reflexivity. }
  { intros l El. discriminate. }
  { discriminate. }
  { lia. }
  { intros i Hi. lia. }
  { exact HM5. }
  { exact HS0. }
  destruct Hc as [->|[v ->]].
  - (* the script runs to its end: Nil; Return *)
    destruct Hres as (CL1 & enb1 & _ & M1 & _).
    cbn [code_size Nat.add] in M1.
    assert (Hf1 : fetch (code_of funs fn) (code_size code) = Some INil).
    { rewrite Hcode. replace (code_size code) with (code_size [] + code_size code) by reflexivity.
      eapply fetch_mid with (pre := []) (c2 := [IReturn]) (post := []). cbn. now rewrite app_nil_r. }
    destruct (step5_nil cf funs _ _ _ _ _ _ _ _ _ _ M1 Hf1) as (m2 & E2 & M2 & C2 & D2).
    assert (Hf2 : fetch (code_of funs fn) (code_size code + 1) = Some IReturn).
    { rewrite Hcode. replace (code_size code + 1) with (code_size [] + code_size (code ++ [INil])) by (rewrite code_size_app; cbn; lia).
      eapply fetch_mid with (pre := []) (c2 := []) (post := []). cbn. rewrite app_nil_r, <- app_assoc. reflexivity. }
    assert (Hh : ~ In (cn m1) HL1).
    { intro Hin. pose proof (s2_hl_lt _ _ _ (m5_s _ _ _ _ _ _ _ _ _ _ _ M1) _ Hin). unfold cn in *. lia. }
    destruct (step2_return_done cf funs _ _ _ _ _ _ _ _ _ _ (m5_m _ _ _ _ _ _ _ _ _ _ _ M2) Hf2 (Nat.le_0_l _) Hh) as (m3 & E3 & O3 & F3).
    assert (Hrun : forall k, run_loop cf funs (n1 + 1 + S k) (m_start bk_c funs) = MDone m3).
    { intros k. rewrite (run_loop_steps cf funs (n1 + 1) (S k) _ m2).
      - cbn [run_loop]. now rewrite E3.
      - eapply steps_trans; [exact S1|now apply steps_one]. }
    exists (n1 + 2). intros k.
    replace (n1 + 2 + k) with (n1 + 1 + S k) by lia.
    rewrite backend_swap.
    + unfold Gen.run_funs. fold (@run_loop bk_c). rewrite Hrun. unfold eval_cells_fuel. rewrite He.
      rewrite O3. now rewrite (stn_o _ _ _ _ _ _ _ _ _ _ ST1).
    + fold (@run_loop bk_c). rewrite Hrun. exact F3.
  - (* an exception that nothing catches: the machine is at a Throw with an empty handler stack *)
    destruct Hres as (fn' & uvec' & pc1 & base' & frs' & t & cx & M1 & Hf1 & _).
    destruct (step5_throw_uncaught cf funs _ _ _ _ _ _ _ _ _ _ M1 Hf1) as (m2 & E2 & O2 & F2).
    assert (Hrun : forall k, run_loop cf funs (n1 + S k) (m_start bk_c funs) = MErr m2).
    { intros k. rewrite (run_loop_steps cf funs n1 (S k) _ m1 S1). cbn [run_loop]. now rewrite E2. }
    exists (n1 + 1). intros k.
    replace (n1 + 1 + k) with (n1 + S k) by lia.
    rewrite backend_swap.
    + unfold Gen.run_funs. fold (@run_loop bk_c). rewrite Hrun. unfold eval_cells_fuel. rewrite He.
      rewrite O2. now rewrite (stn_o _ _ _ _ _ _ _ _ _ _ ST1).
    + fold (@run_loop bk_c). rewrite Hrun. exact F2.
Qed.

(* STAGE 5.  The fragment: everything of stage 4 (blocks, var, assignment, closures with parameters, calls, return, self
   reference, functions nested to any depth, capture of body locals and through enclosing closures, `for` loops, `if`,
   break / continue) + `throw e` anywhere + `try { b } catch x { h }` anywhere (script level, blocks, loop bodies, function
   bodies, nested in try blocks and catch clauses), with: no `return` and no break / continue that leaves the block inside
   a try BLOCK (compile_scope rejects the first and does not model the PopExcHandler the real compiler emits for the
   second); both are fine in the catch clause and in functions / loops nested in the block.
   What it covers of the property: a throw abandons every scope between the throw and the handler - blocks, loop bodies,
   whole call frames of any depth - and every variable of those scopes that a closure captured before the throw is
   still the SAME variable afterwards (shared by all its closures and readable / writable through them), whether the
   closures escaped through globals, outer variables, or the exception value itself; the catch variable is a fresh
   variable per catch and can itself be captured; after the catch clause (or a second throw from it) the enclosing
   scopes are intact.  The outcome may be an uncaught exception ("err"). *)
Theorem compile_scope_correct_stage5 : forall cf p funs fuel st en c,
  c_break_pops_first cf = true -> c_unwind_closes cf = true -> c_catch_pops cf = false ->
  forallb (stmt7 true false true false) p = true -> compile_scope cf p = Some funs ->
  exec_list fuel p [] true s_empty = (st, en, c) -> (c = CNorm \/ exists v, c = CThrow v) ->
  exists n, forall k, Gen.run_funs bk_m cf (n + k) funs = eval_cells_fuel fuel p.
Proof.
  intros cf p funs fuel st en c Hbr Hun Hcp Hp Hc He Hok.
  destruct (compile_scope_stage5_shape cf p funs Hbr Hp Hc) as (code & L' & fs' & Hcl & Hfuns).
  eapply compile_scope_correct_gen5; eauto.
Qed.

Print Assumptions compile_scope_correct_stage5.


(* ------------------------------------------------------------------------------------------ *)
(* the hypothesis c_unwind_closes cf = true cannot be dropped: with the shipped unwind_stack (truncate without closing)
   the statement is false.  Witness: the FIRST local of a try block (it sits exactly at the handler's stack height),
   captured by a closure that escapes, written after the capture, then a throw: the upvalue stays open on the slot
   into which unwind_stack pushes the exception, so the closure reads the exception (7) instead of the variable (3). *)

(* a finished run stays finished with more fuel *)
Definition finished (r : Gen.mres bk_m) : bool :=
  match r with
  | MDone _ | MErr _ => true
  | MStuck _ w => negb (String.eqb w "fuel")
  | MRun _ => false
  end.

Lemma run_loop_more : forall cf funs F m,
  finished (@Gen.run_loop bk_m cf funs F m) = true -> forall k, @Gen.run_loop bk_m cf funs (F + k) m = @Gen.run_loop bk_m cf funs F m.
Proof.
  intros cf funs F. induction F as [|F IH]; intros m H k.
  - cbn in H. discriminate.
  - cbn [Nat.add Gen.run_loop] in *. destruct (@Gen.mstep bk_m cf funs m) as [m'|m'|m'|m' w]; try reflexivity. now apply IH.
Qed.

Definition unwind_witness : prog :=
  [ SLam 20 [] [SReturn (ELit 0)];
    STry [SDecl 1 (ELit 1); SLam 2 [] [SReturn (EVar 1)]; SAssign 20 (EVar 2); SAssign 1 (EAdd (EVar 1) (ELit 2)); SThrow (ELit 7)]
         3 [SPrint (EVar 3); SPrint (ECall 20 [])] ].

Theorem compile_scope_stage5_refuted_unwind :
  let cf := mkCfg 256 256 true false false in      (* as stage 5 requires, except c_unwind_closes = false *)
  exists p funs st en,
    forallb (stmt7 true false true false) p = true /\ compile_scope cf p = Some funs /\
    exec_list 30 p [] true s_empty = (st, en, CNorm) /\
    ~ (exists n, forall k, Gen.run_funs bk_m cf (n + k) funs = eval_cells_fuel 30 p).
Proof.
  cbv zeta. destruct (compile_scope (mkCfg 256 256 true false false) unwind_witness) as [funs|] eqn:Ec; [|vm_compute in Ec; discriminate].
  destruct (exec_list 30 unwind_witness [] true s_empty) as [[st en] c] eqn:Ex.
  assert (Hc : c = CNorm) by (vm_compute in Ex; inversion Ex; reflexivity). subst c.
  exists unwind_witness, funs, st, en. split; [reflexivity|]. split; [exact Ec|]. split; [exact Ex|].
  intros (n & Hn). specialize (Hn 60). revert Hn. replace (n + 60) with (60 + n) by lia.
  vm_compute in Ec. inversion Ec; subst funs. clear Ec Ex.
  unfold Gen.run_funs. rewrite run_loop_more by (vm_compute; reflexivity).
  vm_compute. discriminate.
Qed.

Print Assumptions compile_scope_stage5_refuted_unwind.

(* the hypotheses of stage 5 are satisfiable by a program that exercises the mechanism:
   - a function (v30) whose local v32 is captured by a closure that escapes through the global v20 BEFORE the function
     throws: the whole call frame is abandoned by the unwind, the variable lives on (read and incremented through v20);
   - a loop whose body declares v2, then a try block whose locals v3 (first local of the block = the slot at the
     handler's height) and v5 (in a nested block) are captured by escaping closures, v3 written after the capture; the
     throw comes out of the callee, two scopes and one frame deep;
   - the catch clause prints the exception and calls the escaped closure, captures the catch variable v8 itself in a new
     closure, and leaves by break / continue;
   - a try nested in a try block whose catch clause throws again, caught by the outer one;
   - finally a throw that nothing catches: the outcome is "err". *)
Definition stage5_example : prog :=
  [ SLam 20 [] [SReturn (ELit 0)]; SDecl 21 (ELit 0);
    SFun 30 [31] [ SDecl 32 (ELit 5); SLam 33 [] [SAssign 32 (EAdd (EVar 32) (ELit 1)); SReturn (EVar 32)]; SAssign 20 (EVar 33);
                   SIf (EVar 31) (ELit 1) [SThrow (EAdd (EVar 32) (ELit 100))] []; SReturn (ECall 33 []) ];
    SLoop 1 3 [ SDecl 2 (EAdd (EVar 1) (ELit 10));
      STry [ SDecl 3 (ELit 7); SLam 4 [] [SAssign 3 (EAdd (EVar 3) (EVar 2)); SReturn (EVar 3)]; SAssign 20 (EVar 4);
             SAssign 3 (EAdd (EVar 3) (ELit 2));
             SBlock [SDecl 5 (ELit 1); SLam 6 [] [SReturn (EVar 5)]; SPrint (ECall 30 [EVar 1])]; SPrint (ELit 99) ]
           8 [ SPrint (EVar 8); SPrint (ECall 20 []); SLam 9 [] [SReturn (EVar 8)]; SAssign 20 (EVar 9);
               SIf (ELit 1) (EVar 1) [SBreak] [SContinue] ];
      SPrint (ELit 55) ];
    SPrint (ECall 20 []);
    STry [ STry [SThrow (ELit 1)] 40 [SThrow (EAdd (EVar 40) (ELit 1))] ] 41 [SPrint (EVar 41)];
    SThrow (ELit 3); SPrint (ELit 4) ].

Example stage5_example_ok :
  let cf := mkCfg 256 256 true true false in
  forallb (stmt7 true false true false) stage5_example = true /\ forallb (stmt6 true false true false) stage5_example = false /\
  (exists funs, compile_scope cf stage5_example = Some funs /\ List.length funs = 7) /\
  (exists st en v, exec_list default_fuel stage5_example [] true s_empty = (st, en, CThrow v)) /\
  eval_cells stage5_example = "105|6|6|99|55|6|99|55|7|2#err"%string /\
  run_m cf stage5_example = "105|6|6|99|55|6|99|55|7|2#err"%string.
Proof.
  cbv zeta. split; [reflexivity|]. split; [reflexivity|]. split; [eexists; split; vm_compute; reflexivity|].
  split; [|split; vm_compute; reflexivity].
  destruct (exec_list default_fuel stage5_example [] true s_empty) as [[st en] c] eqn:Ex. vm_compute in Ex.
  inversion Ex; subst. eauto.
Qed.

(* ------------------------------------------------------------------------------------------ *)
(* stage 4 is the instance without throw / try: the fragment of stage 4 is part of the fragment of stage 5 *)
Lemma s_mentions7_N : forall x s, s_mentions7 x s = true -> s_mentionsN x s = true.
Proof.
  intros x. induction s using stmt_nind; cbn [s_mentions7 s_mentionsN]; intros Hm; try exact Hm; try reflexivity.
  - revert Hm. induction H as [|a r Ha Hr IH]; cbn [existsb]; [auto|]. intros Hm. apply orb_prop in Hm as [Hm|Hm]; [rewrite (Ha Hm); reflexivity|rewrite (IH Hm); apply orb_true_r].
  - apply orb_prop in Hm as [Hm|Hm]; [now rewrite Hm|]. apply orb_true_intro. right.
    revert Hm. induction H as [|a r Ha Hr IH]; cbn [existsb]; [auto|]. intros Hm. apply orb_prop in Hm as [Hm|Hm]; [rewrite (Ha Hm); reflexivity|rewrite (IH Hm); apply orb_true_r].
  - apply orb_prop in Hm as [Hm|Hm]; [now rewrite Hm|]. apply orb_true_intro. right.
    revert Hm. induction H as [|a r Ha Hr IH]; cbn [existsb]; [auto|]. intros Hm. apply orb_prop in Hm as [Hm|Hm]; [rewrite (Ha Hm); reflexivity|rewrite (IH Hm); apply orb_true_r].
  - apply orb_prop in Hm as [Hm|Hm]; [now rewrite Hm|]. apply orb_true_intro. right.
    revert Hm. induction H as [|a r Ha Hr IH]; cbn [existsb]; [auto|]. intros Hm. apply orb_prop in Hm as [Hm|Hm]; [rewrite (Ha Hm); reflexivity|rewrite (IH Hm); apply orb_true_r].
  - assert (G : forall l, Forall (fun s => s_mentions7 x s = true -> s_mentionsN x s = true) l -> existsb (s_mentions7 x) l = true -> existsb (s_mentionsN x) l = true).
    { intros l Hl. induction Hl as [|a0 r0 Ha Hr IH]; cbn [existsb]; [auto|]. intros Hm0. apply orb_prop in Hm0 as [Hm0|Hm0]; [rewrite (Ha Hm0); reflexivity|rewrite (IH Hm0); apply orb_true_r]. }
    destruct (e_mentions x a); [reflexivity|]. destruct (e_mentions x c); [reflexivity|]. cbn [orb] in *.
    apply orb_prop in Hm as [Hm|Hm]; [rewrite (G _ H Hm); reflexivity|rewrite (G _ H0 Hm); apply orb_true_r].
  - revert Hm. induction H as [|a r Ha Hr IH]; cbn [existsb]; [auto|]. intros Hm. apply orb_prop in Hm as [Hm|Hm]; [rewrite (Ha Hm); reflexivity|rewrite (IH Hm); apply orb_true_r].
Qed.

Lemma stmt6_stmt7 : forall s j i t l, stmt6 j i t l s = true -> stmt7 j i t l s = true.
Proof.
  induction s using stmt_nind; intros j0 i0 t0 l0 Hs; cbn [stmt6 stmt7] in *; try discriminate; try exact Hs.
  - fb_imp Hs.
  - fb_imp Hs.
  - apply andb_prop in Hs as [Hs Hm]. apply andb_true_intro. split; [fb_imp Hs|].
    destruct t0; [reflexivity|]. cbn [orb] in Hm |- *. apply negb_true_iff in Hm. apply negb_true_iff.
    destruct (existsb (s_mentions7 x) b) eqn:E7; [|reflexivity]. exfalso.
    assert (E : existsb (s_mentionsN x) b = true); [|congruence].
    clear -E7. induction b as [|a r IH]; cbn [existsb] in *; [discriminate|].
    apply orb_prop in E7 as [E7|E7]; [rewrite (s_mentions7_N _ _ E7); reflexivity|rewrite (IH E7); apply orb_true_r].
  - fb_imp Hs.
  - apply andb_prop in Hs as [Hs He']. apply andb_prop in Hs as [Hs Ht]. rewrite Hs. cbn [andb].
    apply andb_true_intro. split; [fb_imp Ht|fb_imp He'].
Qed.

Corollary compile_scope_correct_stage4_from_stage5 : forall cf p funs fuel st en,
  c_break_pops_first cf = true -> c_unwind_closes cf = true -> c_catch_pops cf = false ->
  forallb (stmt6 true false true false) p = true -> compile_scope cf p = Some funs ->
  exec_list fuel p [] true s_empty = (st, en, CNorm) ->
  exists n, forall k, Gen.run_funs bk_m cf (n + k) funs = eval_cells_fuel fuel p.
Proof.
  intros cf p funs fuel st en Hbr Hun Hcp Hp Hc He.
  eapply (compile_scope_correct_stage5 cf p funs fuel st en CNorm); eauto.
  revert Hp. apply forallb_imp. intros a. apply stmt6_stmt7.
Qed.

(* for the check: is a generated program inside the proved fragment? *)
Definition in_stage5 (p : prog) : bool := forallb (stmt7 true false true false) p.

(* the witness of the refutation under the repaired configuration: the closure sees the variable (3), not the exception *)
Example stage5_witness_repaired_ok :
  let cf := mkCfg 256 256 true true false in
  forallb (stmt7 true false true false) unwind_witness = true /\
  (exists funs, compile_scope cf unwind_witness = Some funs) /\
  (exists st en, exec_list 30 unwind_witness [] true s_empty = (st, en, CNorm)) /\
  eval_cells unwind_witness = "7|3#ok"%string /\ run_m cf unwind_witness = "7|3#ok"%string /\
  run_m (mkCfg 256 256 true false false) unwind_witness = "7|7#ok"%string.
Proof.
  cbv zeta. split; [reflexivity|]. split; [eexists; vm_compute; reflexivity|]. split; [|repeat split; vm_compute; reflexivity].
  destruct (exec_list 30 unwind_witness [] true s_empty) as [[st en] c] eqn:Ex. vm_compute in Ex. inversion Ex; subst. eauto.
Qed.
