(* C06 - swapping the backend of the bytecode machine of ScopeComp.v.
   `Gen.mstep` is generic in where stacks and captured variables live.  This file proves:

     backend_swap    if the run over the flagged cell store (bk_c) ends with the flag down, i.e. no
                     Pop / Truncate ever dropped a slot whose cell a closure holds, then the machine
                     over Upvalues.v (bk_m) prints the same and ends the same way;
     backend_c_is_s  the flag of bk_c is only a monitor: bk_c and the plain cell store bk_s agree always.

   Both are instances of ONE lock-step simulation (`run_funs_sim`, Section Sim) between the machines
   over two backends A and B related by `Rel`, with a sticky set `bad` of B-states after which nothing
   is claimed.  The backend facts come from UpvaluesProofs.v (`step_sim`, `R`) plus `sdisc_sound`
   (the discipline checked on the cell store implies the discipline of Upvalues.v). *)
From Coq Require Import List Arith Bool Lia String ZArith.
From YV Require Import Upvalues Cells UpvaluesProofs ScopeLang ScopeComp.
Import ListNotations.
Local Open Scope string_scope.
Local Open Scope nat_scope.

Definition res_state {bk} (r : Gen.mres bk) : Gen.mach bk :=
  match r with Gen.MRun m | Gen.MDone m | Gen.MErr m | Gen.MStuck m _ => m end.

Definition flag (m : Gen.mach bk_c) : bool := snd (Gen.m_up m).

(* operations whose observation steers the machine (GetLocal / GetUpvalue / every peek) *)
Definition quiet (o : op mval) : bool :=
  match o with GetSlot _ | ReadUp _ => true | _ => false end.

(* ------------------------------------------------------------------------------------------ *)
(* 0. two unfoldings, for any backend                                                           *)
(* ------------------------------------------------------------------------------------------ *)

Lemma uop_eq : forall bk (m : Gen.mach bk) o,
  Gen.uop bk m o =
  (Gen.set_up bk m (fst (bstep bk (Gen.m_up m) o)), snd (bstep bk (Gen.m_up m) o)).
Proof.
  intros bk m o. unfold Gen.uop. destruct (bstep bk (Gen.m_up m) o); reflexivity.
Qed.

Lemma capture_all_true : forall bk (m : Gen.mach bk) base parent i r acc,
  Gen.capture_all bk m base parent ((true, i) :: r) acc =
  Gen.capture_all bk (fst (Gen.uop bk m (Capture (base + i)))) base parent r
    (acc ++ [match snd (Gen.uop bk m (Capture (base + i))) with OId k => k | _ => 0 end]).
Proof.
  intros bk m base parent i r acc. cbn [Gen.capture_all].
  destruct (Gen.uop bk m (Capture (base + i))) as [m' o]. destruct o; reflexivity.
Qed.

(* ------------------------------------------------------------------------------------------ *)
(* 1. the generic simulation                                                                    *)
(* ------------------------------------------------------------------------------------------ *)

Section Sim.
Variables A B : backend.
Variable Rel : bstate A -> bstate B -> Prop.
Variable bad : bstate B -> Prop.
Hypothesis Hlen : forall a b, Rel a b -> blen A a = blen B b.
Hypothesis Hcur : forall a b, Rel a b -> bcur A a = bcur B b.
Hypothesis Hstep : forall a b o, Rel a b ->
  bad (fst (bstep B b o)) \/
  (Rel (fst (bstep A a o)) (fst (bstep B b o)) /\ snd (bstep A a o) = snd (bstep B b o)).
Hypothesis Hquiet : forall a b o, Rel a b -> quiet o = true ->
  Rel (fst (bstep A a o)) (fst (bstep B b o)) /\ snd (bstep A a o) = snd (bstep B b o).
Hypothesis Hmono : forall b o, bad b -> bad (fst (bstep B b o)).

Record MREq (a : Gen.mach A) (b : Gen.mach B) : Prop := mkMREq {
  E_fibs : Gen.m_fibs a = Gen.m_fibs b;
  E_globals : Gen.m_globals a = Gen.m_globals b;
  E_vecs : Gen.m_vecs a = Gen.m_vecs b;
  E_out : Gen.m_out a = Gen.m_out b;
  E_up : Rel (Gen.m_up a) (Gen.m_up b)
}.
Arguments E_fibs {a b} _.
Arguments E_globals {a b} _.
Arguments E_vecs {a b} _.
Arguments E_out {a b} _.
Arguments E_up {a b} _.

Definition badm (b : Gen.mach B) : Prop := bad (Gen.m_up b).
Definition MR (a : Gen.mach A) (b : Gen.mach B) : Prop := badm b \/ MREq a b.

Definition MRres (ra : Gen.mres A) (rb : Gen.mres B) : Prop :=
  badm (res_state rb) \/
  match ra, rb with
  | Gen.MRun a, Gen.MRun b => MREq a b
  | Gen.MDone a, Gen.MDone b => MREq a b
  | Gen.MErr a, Gen.MErr b => MREq a b
  | Gen.MStuck a w, Gen.MStuck b w' => MREq a b /\ w = w'
  | _, _ => False
  end.

Ltac mreq H :=
  constructor; cbn;
  first [ exact (E_fibs H) | exact (E_globals H) | exact (E_vecs H) | exact (E_out H)
        | exact (E_up H) | reflexivity | idtac ].

(* ---- what the machine reads off a state ---- *)
Lemma mlen_eq {a b} (H : MREq a b) : Gen.mlen A a = Gen.mlen B b.
Proof. unfold Gen.mlen. apply Hlen. exact (E_up H). Qed.

Lemma bcur_eq {a b} (H : MREq a b) : bcur A (Gen.m_up a) = bcur B (Gen.m_up b).
Proof. apply Hcur. exact (E_up H). Qed.

Lemma cur_fib_eq {a b} (H : MREq a b) : Gen.cur_fib A a = Gen.cur_fib B b.
Proof. unfold Gen.cur_fib. rewrite (bcur_eq H), (E_fibs H). reflexivity. Qed.

Lemma uop_quiet {a b} (H : MREq a b) o : quiet o = true ->
  MREq (fst (Gen.uop A a o)) (fst (Gen.uop B b o)) /\
  snd (Gen.uop A a o) = snd (Gen.uop B b o).
Proof.
  intros Hq. rewrite !uop_eq. cbn [fst snd].
  destruct (Hquiet _ _ o (E_up H) Hq) as [Hr Ho]. split; [|exact Ho].
  mreq H. exact Hr.
Qed.

Lemma mpeek_eq {a b} (H : MREq a b) d : Gen.mpeek A a d = Gen.mpeek B b d.
Proof.
  unfold Gen.mpeek. rewrite (mlen_eq H).
  destruct (uop_quiet H (GetSlot (Gen.mlen B b - 1 - d)) eq_refl) as [_ Ho].
  rewrite Ho. reflexivity.
Qed.

(* ---- a raised flag stays up through every building block ---- *)
Lemma uop_mono : forall b o, badm b -> badm (fst (Gen.uop B b o)).
Proof. intros b o Hb. rewrite uop_eq. unfold badm. cbn. apply Hmono. exact Hb. Qed.

Lemma udo_mono : forall b o, badm b -> badm (Gen.udo B b o).
Proof. intros b o Hb. unfold Gen.udo. apply uop_mono. exact Hb. Qed.

Lemma mpush_mono : forall b v, badm b -> badm (Gen.mpush B b v).
Proof. intros b v Hb. unfold Gen.mpush. apply udo_mono. exact Hb. Qed.

Lemma mpop_mono : forall b, badm b -> badm (Gen.mpop B b).
Proof. intros b Hb. unfold Gen.mpop. apply udo_mono. exact Hb. Qed.

Lemma mpoke_mono : forall b d v, badm b -> badm (Gen.mpoke B b d v).
Proof. intros b d v Hb. unfold Gen.mpoke. apply udo_mono. exact Hb. Qed.

Lemma mpopn_mono : forall n b, badm b -> badm (Gen.mpopn B n b).
Proof.
  induction n as [|n IH]; intros b Hb; cbn [Gen.mpopn]; [exact Hb|].
  apply IH. apply mpop_mono. exact Hb.
Qed.

Lemma set_fibs_mono : forall b f, badm b -> badm (Gen.set_fibs B b f).
Proof. intros b f Hb. exact Hb. Qed.

Lemma put_fib_mono : forall b id f, badm b -> badm (Gen.put_fib B b id f).
Proof. intros b id f Hb. exact Hb. Qed.

Lemma put_cur_mono : forall b f, badm b -> badm (Gen.put_cur B b f).
Proof. intros b f Hb. exact Hb. Qed.

Lemma set_pc_mono : forall b pc, badm b -> badm (Gen.set_pc B b pc).
Proof.
  intros b pc Hb. unfold Gen.set_pc. cbv zeta.
  destruct (mf_frames (Gen.cur_fib B b)); [exact Hb|]. apply put_cur_mono. exact Hb.
Qed.

Lemma mk_mono : forall b f g v o, badm b -> badm (Gen.mkMach (Gen.m_up b) f g v o).
Proof. intros b f g v o Hb. exact Hb. Qed.

Lemma set_up_step_mono : forall b o,
  badm b -> badm (Gen.set_up B b (fst (bstep B (Gen.m_up b) o))).
Proof. intros b o Hb. unfold badm. cbn. apply Hmono. exact Hb. Qed.

Lemma capture_all_mono : forall d b base parent acc,
  badm b -> badm (fst (Gen.capture_all B b base parent d acc)).
Proof.
  induction d as [|[c i] r IH]; intros b base parent acc Hb.
  - exact Hb.
  - destruct c.
    + rewrite capture_all_true. apply IH. apply uop_mono. exact Hb.
    + cbn [Gen.capture_all]. apply IH. exact Hb.
Qed.

(* ---- every building block maps related states to related states ---- *)
Lemma uop_rel {a b} (H : MREq a b) o :
  badm (fst (Gen.uop B b o)) \/
  (MREq (fst (Gen.uop A a o)) (fst (Gen.uop B b o)) /\ snd (Gen.uop A a o) = snd (Gen.uop B b o)).
Proof.
  rewrite !uop_eq. cbn [fst snd]. unfold badm.
  destruct (Hstep _ _ o (E_up H)) as [Hb|[Hr Ho]].
  - left. exact Hb.
  - right. split; [|exact Ho]. mreq H. exact Hr.
Qed.

Lemma udo_MR : forall a b o, MR a b -> MR (Gen.udo A a o) (Gen.udo B b o).
Proof.
  intros a b o [Hb|He].
  - left. apply udo_mono. exact Hb.
  - unfold Gen.udo. destruct (uop_rel He o) as [Hb|[Hr _]]; [left; exact Hb|right; exact Hr].
Qed.

Lemma mpush_MR : forall a b v, MR a b -> MR (Gen.mpush A a v) (Gen.mpush B b v).
Proof. intros a b v H. unfold Gen.mpush. apply udo_MR. exact H. Qed.

Lemma mpop_MR : forall a b, MR a b -> MR (Gen.mpop A a) (Gen.mpop B b).
Proof. intros a b H. unfold Gen.mpop. apply udo_MR. exact H. Qed.

Lemma mpoke_MR : forall a b d v, MR a b -> MR (Gen.mpoke A a d v) (Gen.mpoke B b d v).
Proof.
  intros a b d v [Hb|He].
  - left. apply mpoke_mono. exact Hb.
  - unfold Gen.mpoke. rewrite (mlen_eq He). apply udo_MR. right. exact He.
Qed.

Lemma mpopn_MR : forall n a b, MR a b -> MR (Gen.mpopn A n a) (Gen.mpopn B n b).
Proof.
  induction n as [|n IH]; intros a b H; cbn [Gen.mpopn]; [exact H|].
  apply IH. apply mpop_MR. exact H.
Qed.

Lemma set_fibs_MR : forall a b f, MR a b -> MR (Gen.set_fibs A a f) (Gen.set_fibs B b f).
Proof.
  intros a b f [Hb|He]; [left; exact Hb|right]. mreq He.
Qed.

Lemma mk_MR : forall a b f g v o, MR a b ->
  MR (Gen.mkMach (Gen.m_up a) f g v o) (Gen.mkMach (Gen.m_up b) f g v o).
Proof.
  intros a b f g v o [Hb|He]; [left; exact Hb|right]. mreq He.
Qed.

Lemma put_fib_MREq {a b} (H : MREq a b) id f :
  MREq (Gen.put_fib A a id f) (Gen.put_fib B b id f).
Proof. unfold Gen.put_fib. rewrite (E_fibs H). mreq H. Qed.

Lemma put_cur_MREq {a b} (H : MREq a b) f : MREq (Gen.put_cur A a f) (Gen.put_cur B b f).
Proof. unfold Gen.put_cur. rewrite (bcur_eq H). apply put_fib_MREq. exact H. Qed.

Lemma set_pc_MREq {a b} (H : MREq a b) pc : MREq (Gen.set_pc A a pc) (Gen.set_pc B b pc).
Proof.
  unfold Gen.set_pc. cbv zeta. rewrite (cur_fib_eq H).
  destruct (mf_frames (Gen.cur_fib B b)); [exact H|]. apply put_cur_MREq. exact H.
Qed.

Lemma put_fib_MR : forall a b id f, MR a b -> MR (Gen.put_fib A a id f) (Gen.put_fib B b id f).
Proof. intros a b id f [Hb|He]; [left; exact Hb|right; apply put_fib_MREq; exact He]. Qed.

Lemma put_cur_MR : forall a b f, MR a b -> MR (Gen.put_cur A a f) (Gen.put_cur B b f).
Proof. intros a b f [Hb|He]; [left; exact Hb|right; apply put_cur_MREq; exact He]. Qed.

Lemma set_pc_MR : forall a b pc, MR a b -> MR (Gen.set_pc A a pc) (Gen.set_pc B b pc).
Proof.
  intros a b pc [Hb|He]; [left; apply set_pc_mono; exact Hb|right; apply set_pc_MREq; exact He].
Qed.

Lemma capture_all_rel : forall d a b base parent acc, MREq a b ->
  badm (fst (Gen.capture_all B b base parent d acc)) \/
  (MREq (fst (Gen.capture_all A a base parent d acc)) (fst (Gen.capture_all B b base parent d acc)) /\
   snd (Gen.capture_all A a base parent d acc) = snd (Gen.capture_all B b base parent d acc)).
Proof.
  induction d as [|[c i] r IH]; intros a b base parent acc H.
  - right. split; [exact H|reflexivity].
  - destruct c.
    + rewrite !capture_all_true.
      destruct (uop_rel H (Capture (base + i))) as [Hb|[Hr Ho]].
      * left. apply capture_all_mono. exact Hb.
      * rewrite Ho. apply IH. exact Hr.
    + cbn [Gen.capture_all]. apply IH. exact H.
Qed.

Lemma capture_all_MR : forall d a b base parent acc, MR a b ->
  badm (fst (Gen.capture_all B b base parent d acc)) \/
  (MREq (fst (Gen.capture_all A a base parent d acc)) (fst (Gen.capture_all B b base parent d acc)) /\
   snd (Gen.capture_all A a base parent d acc) = snd (Gen.capture_all B b base parent d acc)).
Proof.
  intros d a b base parent acc [Hb|He].
  - left. apply capture_all_mono. exact Hb.
  - apply capture_all_rel. exact He.
Qed.

(* ---- results ---- *)
Lemma MRres_bad : forall ra rb, badm (res_state rb) -> MRres ra rb.
Proof. intros ra rb H. left. exact H. Qed.

Lemma MRres_run : forall a b, MR a b -> MRres (Gen.MRun a) (Gen.MRun b).
Proof. intros a b [Hb|He]; [left; exact Hb|right; exact He]. Qed.

Lemma MRres_done : forall a b, MR a b -> MRres (Gen.MDone a) (Gen.MDone b).
Proof. intros a b [Hb|He]; [left; exact Hb|right; exact He]. Qed.

Lemma MRres_err : forall a b, MR a b -> MRres (Gen.MErr a) (Gen.MErr b).
Proof. intros a b [Hb|He]; [left; exact Hb|right; exact He]. Qed.

Lemma MRres_stuck : forall a b w, MREq a b -> MRres (Gen.MStuck a w) (Gen.MStuck b w).
Proof. intros a b w He. right. split; [exact He|reflexivity]. Qed.

(* ---- one instruction ---- *)
Ltac mono_leaf :=
  cbn [res_state];
  repeat first [ assumption
               | apply mpush_mono | apply mpop_mono | apply mpoke_mono | apply mpopn_mono
               | apply udo_mono | apply set_pc_mono | apply put_cur_mono | apply put_fib_mono
               | apply set_fibs_mono | apply set_up_step_mono | apply mk_mono ].

Ltac mono_split :=
  repeat (lazymatch goal with
          | |- badm (res_state (match ?x with _ => _ end)) => destruct x
          end).

Ltac mono_auto := rewrite ?uop_eq; cbv beta iota; mono_split; mono_leaf.

Lemma mstep_mono : forall cf funs b, badm b -> badm (res_state (Gen.mstep B cf funs b)).
Proof.
  intros cf funs b Hb. unfold Gen.mstep. cbv zeta.
  destruct (mf_frames (Gen.cur_fib B b)) as [|fr frs]; [exact Hb|].
  destruct (Gen.fetch (f_code (nth (fr_fn fr) funs Gen.dfunc)) (fr_pc fr)) as [i|]; [|exact Hb].
  pose proof (set_pc_mono b (fr_pc fr + isize i) Hb) as Hm.
  set (m := Gen.set_pc B b (fr_pc fr + isize i)) in *. clearbody m. clear Hb.
  destruct i as [n| | |k|k|g|x|x|k|k| | |o|o|o|o|n|me n|fn d| | | |n| | |pa pb| | ];
    try solve [mono_auto].
  (* IClosure *)
  pose proof (capture_all_mono d (Gen.mpush B m (MClo fn [])) (fr_base fr) (fr_ups fr) []
                (mpush_mono m (MClo fn []) Hm)) as Hc.
  destruct (Gen.capture_all B (Gen.mpush B m (MClo fn [])) (fr_base fr) (fr_ups fr) d [])
    as [m2 ups].
  cbn [fst] in Hc. mono_leaf.
Qed.

Ltac rw_obs Hm :=
  repeat first [ rewrite (mpeek_eq Hm) | rewrite (mlen_eq Hm) | rewrite (cur_fib_eq Hm)
               | rewrite (bcur_eq Hm) | rewrite (E_fibs Hm) | rewrite (E_globals Hm)
               | rewrite (E_vecs Hm) | rewrite (E_out Hm) ].

Ltac sim_split :=
  repeat (lazymatch goal with
          | |- MRres (match ?x with _ => _ end) _ => destruct x
          end).

Ltac MR_chain :=
  repeat first [ solve [right; assumption] | solve [left; assumption]
               | apply mpush_MR | apply mpop_MR | apply mpoke_MR | apply mpopn_MR
               | apply udo_MR | apply set_pc_MR | apply put_cur_MR | apply put_fib_MR
               | apply set_fibs_MR | apply mk_MR ].

Ltac sim_leaf :=
  first [ apply MRres_run; solve [MR_chain]
        | apply MRres_stuck; assumption
        | apply MRres_done; solve [MR_chain]
        | apply MRres_err; solve [MR_chain] ].

Ltac sim_auto Hm := rw_obs Hm; sim_split; sim_leaf.

Lemma mstep_sim : forall cf funs a b, MREq a b ->
  MRres (Gen.mstep A cf funs a) (Gen.mstep B cf funs b).
Proof.
  intros cf funs a b H. unfold Gen.mstep. cbv zeta.
  rewrite (cur_fib_eq H).
  destruct (mf_frames (Gen.cur_fib B b)) as [|fr frs]; [apply MRres_stuck; exact H|].
  destruct (Gen.fetch (f_code (nth (fr_fn fr) funs Gen.dfunc)) (fr_pc fr)) as [i|];
    [|apply MRres_stuck; exact H].
  pose proof (set_pc_MREq H (fr_pc fr + isize i)) as Hm.
  set (ma := Gen.set_pc A a (fr_pc fr + isize i)) in *.
  set (mb := Gen.set_pc B b (fr_pc fr + isize i)) in *.
  clearbody ma mb. clear H.
  destruct i as [n| | |k|k|g|x|x|k|k| | |o|o|o|o|n|me n|fn d| | | |n| | |pa pb| | ].
  - (* IConst *) sim_auto Hm.
  - (* INil *) sim_auto Hm.
  - (* IPop *) sim_auto Hm.
  - (* IGetLocal *)
    destruct (uop_quiet Hm (GetSlot (fr_base fr + k)) eq_refl) as [H1 Ho].
    destruct (Gen.uop A ma (GetSlot (fr_base fr + k))) as [m1a oa].
    destruct (Gen.uop B mb (GetSlot (fr_base fr + k))) as [m1b ob].
    cbn [fst snd] in H1, Ho. subst oa. destruct ob; sim_leaf.
  - (* ISetLocal *) sim_auto Hm.
  - (* IGetGlobal *) sim_auto Hm.
  - (* IDefineGlobal *) sim_auto Hm.
  - (* ISetGlobal *) sim_auto Hm.
  - (* IGetUpvalue *)
    destruct (uop_quiet Hm (ReadUp (nth k (fr_ups fr) 0)) eq_refl) as [H1 Ho].
    destruct (Gen.uop A ma (ReadUp (nth k (fr_ups fr) 0))) as [m1a oa].
    destruct (Gen.uop B mb (ReadUp (nth k (fr_ups fr) 0))) as [m1b ob].
    cbn [fst snd] in H1, Ho. subst oa. destruct ob; sim_leaf.
  - (* ISetUpvalue *) sim_auto Hm.
  - (* IAdd *) sim_auto Hm.
  - (* ILess *) sim_auto Hm.
  - (* IJump *) sim_auto Hm.
  - (* IJumpIfFalse *) sim_auto Hm.
  - (* IJumpIfStopIter *) sim_auto Hm.
  - (* ILoop *) sim_auto Hm.
  - (* ICall *) sim_auto Hm.
  - (* IInvoke *) sim_auto Hm.
  - (* IClosure *)
    destruct (capture_all_MR d _ _ (fr_base fr) (fr_ups fr) []
                (mpush_MR ma mb (MClo fn []) (or_intror Hm))) as [Hb|[He Hu]].
    + apply MRres_bad.
      destruct (Gen.capture_all B (Gen.mpush B mb (MClo fn [])) (fr_base fr) (fr_ups fr) d [])
        as [m2 ups].
      cbn [fst] in Hb. mono_leaf.
    + destruct (Gen.capture_all A (Gen.mpush A ma (MClo fn [])) (fr_base fr) (fr_ups fr) d [])
        as [m2a ua].
      destruct (Gen.capture_all B (Gen.mpush B mb (MClo fn [])) (fr_base fr) (fr_ups fr) d [])
        as [m2b ub].
      cbn [fst snd] in He, Hu. subst ua. sim_leaf.
  - (* ICloseUpvalue *) sim_auto Hm.
  - (* IReturn *)
    rw_obs Hm.
    assert (H1 : MR (Gen.udo A (Gen.mpop A ma) (ReturnFrame (fr_base fr)))
                    (Gen.udo B (Gen.mpop B mb) (ReturnFrame (fr_base fr)))) by MR_chain.
    set (m1a := Gen.udo A (Gen.mpop A ma) (ReturnFrame (fr_base fr))) in *.
    set (m1b := Gen.udo B (Gen.mpop B mb) (ReturnFrame (fr_base fr))) in *.
    clearbody m1a m1b. destruct H1 as [Hb|He].
    + apply MRres_bad.
      destruct frs; [destruct (mf_caller (Gen.cur_fib B m1b))|]; mono_leaf.
    + rewrite (cur_fib_eq He).
      destruct frs; [destruct (mf_caller (Gen.cur_fib B m1b))|]; sim_leaf.
  - (* IBuildRange *) sim_auto Hm.
  - (* IBuildVec *) sim_auto Hm.
  - (* IIterNext *) sim_auto Hm.
  - (* IGetItem *) sim_auto Hm.
  - (* IPushExc *) sim_auto Hm.
  - (* IPopExc *) sim_auto Hm.
  - (* IThrow *) sim_auto Hm.
Qed.

(* ---- the loop ---- *)
Lemma run_loop_mono : forall cf funs fuel b,
  badm b -> badm (res_state (Gen.run_loop B cf funs fuel b)).
Proof.
  intros cf funs fuel. induction fuel as [|k IH]; intros b Hb; cbn [Gen.run_loop]; [exact Hb|].
  pose proof (mstep_mono cf funs b Hb) as Hs.
  destruct (Gen.mstep B cf funs b) as [m'|m'|m'|m' w]; cbn [res_state] in Hs |- *;
    [apply IH; exact Hs|exact Hs..].
Qed.

Lemma run_loop_sim : forall cf funs fuel a b, MR a b ->
  MRres (Gen.run_loop A cf funs fuel a) (Gen.run_loop B cf funs fuel b).
Proof.
  intros cf funs fuel. induction fuel as [|k IH]; intros a b H.
  - cbn [Gen.run_loop]. destruct H as [Hb|He]; [left; exact Hb|apply MRres_stuck; exact He].
  - destruct H as [Hb|He]; [apply MRres_bad; apply run_loop_mono; exact Hb|].
    cbn [Gen.run_loop]. destruct (mstep_sim cf funs a b He) as [Hb|Hs].
    + apply MRres_bad.
      destruct (Gen.mstep B cf funs b) as [m'|m'|m'|m' w]; cbn [res_state] in Hb |- *;
        [apply run_loop_mono; exact Hb|exact Hb..].
    + destruct (Gen.mstep A cf funs a) as [a'|a'|a'|a' wa];
        destruct (Gen.mstep B cf funs b) as [b'|b'|b'|b' wb]; try contradiction.
      * apply IH. right. exact Hs.
      * right. exact Hs.
      * right. exact Hs.
      * right. exact Hs.
Qed.

Lemma m_start_MR : forall funs, Rel (binit A) (binit B) ->
  MR (Gen.m_start A funs) (Gen.m_start B funs).
Proof.
  intros funs Hi. unfold Gen.m_start. cbv zeta. apply mpush_MR. right.
  constructor; cbn; first [reflexivity | exact Hi].
Qed.

Theorem run_funs_sim : Rel (binit A) (binit B) -> forall cf funs fuel,
  ~ badm (res_state (Gen.run_loop B cf funs fuel (Gen.m_start B funs))) ->
  Gen.run_funs A cf fuel funs = Gen.run_funs B cf fuel funs.
Proof.
  intros Hi cf funs fuel Hn. unfold Gen.run_funs.
  destruct (run_loop_sim cf funs fuel _ _ (m_start_MR funs Hi)) as [Hb|Hs]; [contradiction|].
  destruct (Gen.run_loop A cf funs fuel (Gen.m_start A funs)) as [a'|a'|a'|a' wa];
    destruct (Gen.run_loop B cf funs fuel (Gen.m_start B funs)) as [b'|b'|b'|b' wb];
    try contradiction.
  - rewrite (E_out Hs). reflexivity.
  - rewrite (E_out Hs). reflexivity.
  - rewrite (E_out Hs). reflexivity.
  - destruct Hs as [Hs Hw]. subst wb. rewrite (E_out Hs). reflexivity.
Qed.

End Sim.

(* ------------------------------------------------------------------------------------------ *)
(* 2. the discipline of the cell store implies the discipline of Upvalues.v                     *)
(* ------------------------------------------------------------------------------------------ *)

Lemma any_captured_none : forall (u : sstate mval) fb k n,
  any_captured_from u fb n k = false ->
  forall j, n <= j < n + k -> cell_captured u (scells fb j) = false.
Proof.
  intros u fb k. induction k as [|k IH]; intros n H j Hj; [lia|].
  cbn [any_captured_from] in H. apply orb_false_iff in H. destruct H as [H1 H2].
  destruct (Nat.eq_dec j n) as [Hjn|Hjn]; [subst j; exact H1|].
  apply (IH (S n) H2). lia.
Qed.

(* an entry of the active fiber's open list sits in a live slot whose cell has a handle *)
Lemma open_entry_captured : forall (m : mstate mval) (s : sstate mval) id sl,
  R m s -> In (id, sl) (openl (cfib m)) ->
  sl < sslen (csfib s) /\ cell_captured s (scells (csfib s) sl) = true.
Proof.
  intros m s id sl HR Hin. unfold cfib in Hin.
  destruct (R_list _ _ _ HR _ _ _ Hin) as [Hid Hu].
  destruct (R_open _ _ _ HR _ _ _ Hid Hu) as [Hlt [Hc _]].
  unfold csfib. rewrite <- (R_cur _ _ _ HR). split.
  - rewrite <- (R_len _ _ _ HR). exact Hlt.
  - unfold cell_captured.
    destruct (find_handle (handles s) (hnext s) (scells (sfibs s (cur m)) sl)) as [h|] eqn:E;
      [reflexivity|].
    exfalso. apply (find_handle_none _ _ _ E id).
    + rewrite <- (R_next _ _ _ HR). exact Hid.
    + symmetry. exact Hc.
Qed.

Lemma sdisc_sound : forall (m : mstate mval) (s : sstate mval) o,
  R m s -> sdisc_ok s o = true -> disc_ok m o = true.
Proof.
  intros m s o HR Hs.
  assert (Hl : slen (cfib m) = sslen (csfib s)).
  { unfold cfib, csfib. rewrite <- (R_cur _ _ _ HR). apply (R_len _ _ _ HR). }
  destruct o as [v| |i|i v|loc| |base|id|id v|n|f]; try reflexivity.
  - (* Pop *)
    unfold disc_ok. apply negb_true_iff.
    destruct (slot_open (cfib m) (slen (cfib m) - 1)) eqn:E; [|reflexivity]. exfalso.
    unfold slot_open in E. apply existsb_exists in E. destruct E as [[id sl] [Hin Heq]].
    cbn [snd] in Heq. apply Nat.eqb_eq in Heq.
    destruct (open_entry_captured m s id sl HR Hin) as [Hlt Hc].
    unfold sdisc_ok in Hs. rewrite <- Hl, <- Heq, Hc in Hs. cbn [negb orb] in Hs.
    apply Nat.eqb_eq in Hs. lia.
  - (* Truncate *)
    unfold disc_ok. apply forallb_forall. intros [id sl] Hin. cbn [snd]. apply Nat.ltb_lt.
    destruct (open_entry_captured m s id sl HR Hin) as [Hlt Hc].
    destruct (le_lt_dec n sl) as [Hge|Hlt']; [|exact Hlt']. exfalso.
    unfold sdisc_ok in Hs. apply negb_true_iff in Hs.
    rewrite (any_captured_none _ _ _ _ Hs sl) in Hc; [discriminate|lia].
Qed.

(* ------------------------------------------------------------------------------------------ *)
(* 3. bk_m against bk_c                                                                         *)
(* ------------------------------------------------------------------------------------------ *)

Lemma bstep_c_eq : forall (b : sstate mval * bool) o,
  bstep bk_c b o =
  ((fst (sstep (fst b) o), snd b || negb (sdisc_ok (fst b) o)), snd (sstep (fst b) o)).
Proof.
  intros b o. unfold bk_c. cbn [bstep]. destruct (sstep (fst b) o); reflexivity.
Qed.

Definition RelMC (a : mstate mval) (b : sstate mval * bool) : Prop :=
  snd b = false /\ R a (fst b).
Definition badC (b : sstate mval * bool) : Prop := snd b = true.

(* one operation, discipline respected: still related, same observation *)
Lemma step_mc_ok : forall a b o, RelMC a b -> sdisc_ok (fst b) o = true ->
  RelMC (fst (step a o)) (fst (bstep bk_c b o)) /\ snd (step a o) = snd (bstep bk_c b o).
Proof.
  intros a b o [Hf HR] Hd. rewrite bstep_c_eq. cbn [fst snd].
  destruct (step_sim _ _ _ o HR (sdisc_sound _ _ _ HR Hd)) as [Ho HR'].
  split; [split|].
  - cbn [fst snd]. rewrite Hf, Hd. reflexivity.
  - cbn [fst snd]. exact HR'.
  - exact Ho.
Qed.

(* one operation: the flag goes up, or still related with the same observation *)
Lemma step_mc : forall a b o, RelMC a b ->
  badC (fst (bstep bk_c b o)) \/
  (RelMC (fst (step a o)) (fst (bstep bk_c b o)) /\ snd (step a o) = snd (bstep bk_c b o)).
Proof.
  intros a b o H. destruct (sdisc_ok (fst b) o) eqn:Ed.
  - right. apply step_mc_ok; assumption.
  - left. destruct H as [Hf _]. unfold badC. rewrite bstep_c_eq. cbn [fst snd].
    rewrite Hf, Ed. reflexivity.
Qed.

Lemma step_mc_quiet : forall a b o, RelMC a b -> quiet o = true ->
  RelMC (fst (step a o)) (fst (bstep bk_c b o)) /\ snd (step a o) = snd (bstep bk_c b o).
Proof.
  intros a b o H Hq. apply step_mc_ok; [exact H|].
  destruct o; try discriminate Hq; reflexivity.
Qed.

Lemma flag_mono : forall b o, badC b -> badC (fst (bstep bk_c b o)).
Proof.
  intros b o Hb. unfold badC in *. rewrite bstep_c_eq. cbn [fst snd]. rewrite Hb. reflexivity.
Qed.

Lemma mc_len : forall a b, RelMC a b -> blen bk_m a = blen bk_c b.
Proof.
  intros a b [_ HR]. cbn. unfold cfib, csfib. rewrite <- (R_cur _ _ _ HR). apply (R_len _ _ _ HR).
Qed.

Lemma mc_cur : forall a b, RelMC a b -> bcur bk_m a = bcur bk_c b.
Proof. intros a b [_ HR]. cbn. apply (R_cur _ _ _ HR). Qed.

Lemma mc_init : RelMC (binit bk_m) (binit bk_c).
Proof. split; [reflexivity|]. cbn. apply R_init. Qed.

(* every building block keeps a raised flag, so does an instruction, so does the run *)
Theorem mstep_flag_mono : forall cf funs b,
  flag b = true -> flag (res_state (Gen.mstep bk_c cf funs b)) = true.
Proof. intros cf funs b Hb. exact (mstep_mono bk_c badC flag_mono cf funs b Hb). Qed.

Theorem run_loop_flag_mono : forall cf funs fuel b,
  flag b = true -> flag (res_state (Gen.run_loop bk_c cf funs fuel b)) = true.
Proof. intros cf funs fuel b Hb. exact (run_loop_mono bk_c badC flag_mono cf funs fuel b Hb). Qed.

Theorem backend_swap : forall cf funs fuel,
  flag (res_state (Gen.run_loop bk_c cf funs fuel (Gen.m_start bk_c funs))) = false ->
  Gen.run_funs bk_m cf fuel funs = Gen.run_funs bk_c cf fuel funs.
Proof.
  intros cf funs fuel Hf.
  apply (run_funs_sim bk_m bk_c RelMC badC mc_len mc_cur step_mc step_mc_quiet flag_mono mc_init).
  unfold badm, badC. unfold flag in Hf. rewrite Hf. discriminate.
Qed.
Print Assumptions backend_swap.

(* ------------------------------------------------------------------------------------------ *)
(* 4. bk_c against bk_s: the flag is a monitor                                                  *)
(* ------------------------------------------------------------------------------------------ *)

Definition RelCS (a : sstate mval * bool) (b : sstate mval) : Prop := fst a = b.

Lemma step_cs : forall a b o, RelCS a b ->
  RelCS (fst (bstep bk_c a o)) (fst (sstep b o)) /\ snd (bstep bk_c a o) = snd (sstep b o).
Proof.
  intros a b o H. unfold RelCS in *. rewrite bstep_c_eq. cbn [fst snd]. subst b.
  split; reflexivity.
Qed.

Theorem backend_c_is_s : forall cf funs fuel,
  Gen.run_funs bk_c cf fuel funs = Gen.run_funs bk_s cf fuel funs.
Proof.
  intros cf funs fuel.
  apply (run_funs_sim bk_c bk_s RelCS (fun _ => False)).
  - intros a b H. cbn. unfold RelCS in H. subst b. reflexivity.
  - intros a b H. cbn. unfold RelCS in H. subst b. reflexivity.
  - intros a b o H. right. apply step_cs. exact H.
  - intros a b o H _. apply step_cs. exact H.
  - intros b o H. exact H.
  - reflexivity.
  - intros H. exact H.
Qed.
Print Assumptions backend_c_is_s.

Corollary backend_swap_s : forall cf funs fuel,
  flag (res_state (Gen.run_loop bk_c cf funs fuel (Gen.m_start bk_c funs))) = false ->
  Gen.run_funs bk_m cf fuel funs = Gen.run_funs bk_s cf fuel funs.
Proof.
  intros cf funs fuel Hf. rewrite (backend_swap cf funs fuel Hf). apply backend_c_is_s.
Qed.
Print Assumptions backend_swap_s.

(* ------------------------------------------------------------------------------------------ *)
(* 5. the hypothesis is satisfiable, and it can fail                                            *)
(* ------------------------------------------------------------------------------------------ *)

(* { var a = 1; var f = || { a = a + 1; return a; }; print(f()); print(f()); }  print(7); *)
Definition ex_prog : prog :=
  [ SBlock [ SDecl 1 (ELit 1);
             SLam 2 [] [SAssign 1 (EAdd (EVar 1) (ELit 1)); SReturn (EVar 1)];
             SPrint (ECall 2 []); SPrint (ECall 2 []) ];
    SPrint (ELit 7) ].

Definition ex_cfg : cfg := mkCfg 256 256 true true false.

Definition flag_of (cf : cfg) (fuel : nat) (p : prog) : option bool :=
  match compile_scope cf p with
  | Some funs => Some (flag (res_state (Gen.run_loop bk_c cf funs fuel (Gen.m_start bk_c funs))))
  | None => None
  end.

Example ex_swap_hyp : flag_of ex_cfg 1000 ex_prog = Some false.
Proof. vm_compute. reflexivity. Qed.

Example ex_swap_run :
  match compile_scope ex_cfg ex_prog with
  | Some funs => Gen.run_funs bk_c ex_cfg 1000 funs
  | None => ""
  end = "2|3|7#ok".
Proof. vm_compute. reflexivity. Qed.

(* fn g() { var a = 1; var f = || { return a; }; throw 7; }  try { g(); } catch e { print(e); }
   with the shipped unwind_stack (Truncate, nothing closed) the flag goes up *)
Definition ex_unwind : prog :=
  [ SFun 9 [] [ SDecl 1 (ELit 1); SLam 2 [] [SReturn (EVar 1)]; SThrow (ELit 7) ];
    STry [SExpr (ECall 9 [])] 8 [SPrint (EVar 8)] ].

Example ex_flag_up : flag_of (mkCfg 256 256 true false false) 1000 ex_unwind = Some true.
Proof. vm_compute. reflexivity. Qed.

Example ex_flag_down : flag_of ex_cfg 1000 ex_unwind = Some false.
Proof. vm_compute. reflexivity. Qed.
