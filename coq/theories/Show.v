(* Printable-ASCII rendering of model results for the correspondence check.
   Definitions only; nothing here is trusted beyond "the harness decodes it the same way". *)
From Coq Require Import List String Ascii NArith ZArith Bool.
From Coq Require Import Strings.Byte.
Import ListNotations.
Open Scope string_scope.

Definition hex_digit (n : N) : ascii :=
  match n with
  | 0%N => "0" | 1%N => "1" | 2%N => "2" | 3%N => "3" | 4%N => "4" | 5%N => "5"
  | 6%N => "6" | 7%N => "7" | 8%N => "8" | 9%N => "9" | 10%N => "a" | 11%N => "b"
  | 12%N => "c" | 13%N => "d" | 14%N => "e" | _ => "f"
  end%char.

Definition hex_of_byte (b : byte) : string :=
  let n := Byte.to_N b in
  String (hex_digit (N.div n 16)) (String (hex_digit (N.modulo n 16)) EmptyString).

Fixpoint hex_of_bytes (l : list byte) : string :=
  match l with
  | [] => EmptyString
  | b :: r => hex_of_byte b ++ hex_of_bytes r
  end.

(* decimal rendering of N by repeated division; fuel = number of bits + 1 is enough *)
Fixpoint show_N_aux (fuel : nat) (n : N) (acc : string) : string :=
  match fuel with
  | O => acc
  | S f =>
    let d := N.modulo n 10 in
    let acc' := String (hex_digit d) acc in
    let q := N.div n 10 in
    if N.eqb q 0 then acc' else show_N_aux f q acc'
  end.

Definition show_N (n : N) : string := show_N_aux (S (N.to_nat (N.size n))) n EmptyString.

Definition show_Z (z : Z) : string :=
  match z with
  | Z0 => "0"
  | Zpos p => show_N (Npos p)
  | Zneg p => String "-" (show_N (Npos p))
  end.

Definition show_nat (n : nat) : string := show_N (N.of_nat n).

Definition show_bool (b : bool) : string := if b then "T" else "F".

Fixpoint show_sep {A} (sep : string) (f : A -> string) (l : list A) : string :=
  match l with
  | [] => EmptyString
  | [x] => f x
  | x :: r => f x ++ sep ++ show_sep sep f r
  end.

Definition show_list {A} (f : A -> string) (l : list A) : string :=
  "[" ++ show_sep "," f l ++ "]".

Definition show_option {A} (f : A -> string) (o : option A) : string :=
  match o with None => "-" | Some x => "+" ++ f x end.

Definition bytes_of_string (s : string) : list byte := list_byte_of_string s.
Definition string_of_bytes (l : list byte) : string := string_of_list_byte l.
