(* Decidable forms of the side conditions that are discharged by computation on the
   constants regenerated from the source. *)
From Coq Require Import Arith Lia Bool NArith.

Fixpoint log2_search (fuel k n : nat) : option nat :=
  match fuel with
  | O => None
  | S f => if Nat.eqb (2 ^ k) n then Some k else if Nat.ltb n (2 ^ k) then None else log2_search f (S k) n
  end.

Definition is_pow2b (n : nat) : bool :=
  match log2_search (S n) 0 n with Some _ => true | None => false end.

Lemma log2_search_sound fuel : forall k n r, log2_search fuel k n = Some r -> n = 2 ^ r.
Proof.
  induction fuel as [|f IH]; intros k n r H; cbn [log2_search] in H; [discriminate|].
  destruct (Nat.eqb (2 ^ k) n) eqn:E.
  - injection H as <-. apply Nat.eqb_eq in E. symmetry; exact E.
  - destruct (Nat.ltb n (2 ^ k)); [discriminate|]. exact (IH _ _ _ H).
Qed.

Lemma is_pow2b_sound n : is_pow2b n = true -> exists k, n = 2 ^ k.
Proof.
  unfold is_pow2b. destruct (log2_search (S n) 0 n) as [r|] eqn:E; [|discriminate].
  intros _. exists r. exact (log2_search_sound _ _ _ _ E).
Qed.
