(* Shape ("skeleton") semantics of ONE frame executing a function: values are forgotten, only
   the program counter, the stack height relative to the frame's slot_base, the frame-local
   exception handlers, the set of slots with an open upvalue, the pending-return register and an
   abstraction of the VM-global [handling_exception] flag remain.

   [step_at] is the executable small-step relation: [Stuck r] when the real VM would reach a
   panic / unchecked-memory site (or corrupt a neighbouring frame), else the list of all
   possible successor states inside this frame.  Transcribed from vm.rs, see the per-opcode
   comments.  Definitions only. *)
From Coq Require Import List NArith Bool.
From YV Require Import Bytecode.
Import ListNotations.
Open Scope N_scope.

Definition STACK_MAX : N := 16384.          (* common.rs / object.rs: Stack<Value, STACK_MAX> *)
Definition FRAMES_MAX : N := 64.

Record handler : Set := mkH { catch_pc : N; finally_pc : N; hheight : N }.

(* Abstract value of the VM-global flag [handling_exception]. *)
Inductive xflag : Set := XUnknown | XTrue | XFalse.

Record fstate : Set := mkS {
  pc : N;
  h : N;                        (* stack height relative to slot_base; slot 0 = callee/receiver *)
  handlers : list handler;      (* frame-local, innermost first *)
  captured : list N;            (* slots with an open upvalue, ascending, no duplicates *)
  pending : option N;           (* return_ip set by JumpFinally *)
  exc : xflag
}.

Definition entry_state (f : fn) : fstate := mkS 0 (arity f) [] [] None XUnknown.

Inductive reason : Set :=
| RUndecodable          (* fetch outside the code, unknown opcode, Closure on a non-function *)
| RStackOverflow        (* h > STACK_MAX *)
| RStackUnderflow       (* instruction consumes more than the frame holds *)
| RPopBelowLocals       (* Pop / CloseUpvalue of a parameter slot *)
| RPopCaptured          (* a slot with an open upvalue is popped without CloseUpvalue *)
| RConstOutOfRange
| RConstKind            (* constant of the wrong kind: read_string expect / get_class unreachable *)
| RLocalOutOfRange
| RUpvalueOutOfRange
| RJumpOutOfRange
| RNoHandler            (* PopExcHandler / JumpFinally with no frame-local handler *)
| RHandlerAboveStack    (* handler's height above the live stack: truncate would grow it *)
| RJumpFinallyNoReturn  (* JumpFinally not followed by Return *)
| RReturnWithHandlers   (* Return while a frame-local handler is still pushed *)
| RReturnPending        (* Return while a pending return is registered *)
(* the remaining reasons are produced by the verifier, never by [step_at] *)
| RNotInductive
| ROverlap              (* a reached pc lies strictly inside a reached instruction *)
| RFuelExhausted
| RTooManyStates.

Inductive result : Set := Stuck (r : reason) | Next (l : list fstate).

Definition rapp (a b : result) : result :=
  match a with
  | Stuck r => Stuck r
  | Next l => match b with Stuck r => Stuck r | Next l' => Next (l ++ l') end
  end.

(* ---- simple instructions: table of effects (Appendix A of DESIGN.md, re-read from vm.rs) -- *)

Inductive creq : Set := CNone | CNotFunc | CString.

Record effect : Set := mkE {
  e_chk : option reason;   (* extra operand check, [None] = fine *)
  e_const : creq;          (* requirement on constant [ia] *)
  e_need : N;              (* minimal height *)
  e_pops : N;              (* slots consumed (overwritten slots count as consumed) *)
  e_push : N;              (* slots produced *)
  e_throw : bool;          (* may call try_handle_error / unwind_stack *)
  e_call : bool            (* runs foreign code: the global flag is unknown afterwards *)
}.

Definition chk (b : bool) (r : reason) : option reason := if b then None else Some r.

Definition simple_effect (f : fn) (i : instr) (hh : N) : option effect :=
  let a := ia i in
  let b := ib i in
  match iop i with
  | OpConstant => Some (mkE None CNotFunc 0 0 1 false false)
  | OpNil | OpTrue | OpFalse => Some (mkE None CNone 0 0 1 false false)
  | OpPop => Some (mkE (chk (arity f <? hh) RPopBelowLocals) CNone 1 1 0 false false)
  | OpCopyTop => Some (mkE None CNone 1 0 1 false false)
  | OpGetLocal => Some (mkE (chk (a <? hh) RLocalOutOfRange) CNone 0 0 1 false false)
  | OpSetLocal => Some (mkE (chk (a <? hh) RLocalOutOfRange) CNone 1 0 0 false false)
  | OpGetGlobal => Some (mkE None CString 0 0 1 true false)
  | OpDefineGlobal => Some (mkE None CString 1 1 0 false false)
  | OpSetGlobal => Some (mkE None CString 1 0 0 true false)
  | OpGetUpvalue =>
    Some (mkE (chk (a <? upvalue_count f) RUpvalueOutOfRange) CNone 0 0 1 false false)
  | OpSetUpvalue =>
    Some (mkE (chk (a <? upvalue_count f) RUpvalueOutOfRange) CNone 1 0 0 false false)
  | OpGetProperty => Some (mkE None CString 1 1 1 true false)
  | OpSetProperty => Some (mkE None CString 2 2 1 true false)
  | OpGetClass => Some (mkE None CNone 1 1 1 false false)
  | OpGetSuper => Some (mkE None CString 2 2 1 true false)
  | OpEqual => Some (mkE None CNone 2 2 1 false false)
  | OpGreater | OpLess | OpAdd | OpSubtract | OpMultiply | OpDivide | OpBitwiseAnd
  | OpBitwiseOr | OpBitwiseXor | OpModulo | OpBitShiftLeft | OpBitShiftRight
  | OpGetItem | OpBuildRange => Some (mkE None CNone 2 2 1 true false)
  | OpLogicalNot | OpFormatString => Some (mkE None CNone 1 1 1 false false)
  | OpBitwiseNot | OpNegate => Some (mkE None CNone 1 1 1 true false)
  | OpSetItem => Some (mkE None CNone 3 3 1 true false)
  | OpBuildHashMap => Some (mkE None CNone (2 * a) (2 * a) 1 true false)
  | OpBuildString | OpBuildTuple | OpBuildVec => Some (mkE None CNone a a 1 false false)
  | OpIterNext => Some (mkE None CNone 1 0 1 true true)
  | OpCall => Some (mkE None CNone (a + 1) (a + 1) 1 true true)
  | OpInvoke => Some (mkE None CString (b + 1) (b + 1) 1 true true)
  | OpConstruct => Some (mkE None CNone (a + 1) 0 0 false false)
  | OpSuperInvoke => Some (mkE None CString (b + 2) (b + 2) 1 true true)
  | OpDeclareClass => Some (mkE None CString 0 0 1 false false)
  | OpDefineClass => Some (mkE None CNone 1 1 1 false false)
  | OpInherit => Some (mkE None CNone 2 1 0 true false)
  | OpMethod | OpStaticMethod => Some (mkE None CString 1 1 0 false false)
  | OpStartImport => Some (mkE None CString 0 0 2 true true)
  | OpFinishImport => Some (mkE None CNone 2 1 0 false false)
  | _ => None
  end.

Definition const_ok (f : fn) (rq : creq) (c : N) : option reason :=
  match rq with
  | CNone => None
  | CNotFunc =>
    match const_at f c with
    | None => Some RConstOutOfRange
    | Some (CFunc _) => Some RConstKind
    | Some _ => None
    end
  | CString =>
    match const_at f c with
    | None => Some RConstOutOfRange
    | Some CStr => None
    | Some _ => Some RConstKind
    end
  end.

(* (d) the encoded operands describe a consumption the frame can satisfy *)
Definition operand_fits (f : fn) (i : instr) (hh : N) : bool :=
  match simple_effect f i hh with
  | Some e => e_need e <=? hh
  | None => true
  end.

Definition captured_below (cap : list N) (bound : N) : bool :=
  forallb (fun c => c <? bound) cap.

Fixpoint insert_slot (s : N) (l : list N) : list N :=
  match l with
  | [] => [s]
  | x :: r => if s <? x then s :: l else if s =? x then l else x :: insert_slot s r
  end.

Definition handler_flag (hd : handler) : xflag :=
  (* unwind_stack: handling_exception = handler.has_catch_block(), which is
     [finally_ip == catch_ip], i.e. TRUE exactly when there is NO catch clause *)
  if finally_pc hd =? catch_pc hd then XTrue else XFalse.

(* The exceptional edge: try_handle_error / unwind_stack inside this frame.  [base] is a lower
   bound of the stack height when unwind_stack truncates.  With no frame-local handler the
   frame is left (an outer frame's handler, or the run ends).
   Since /repo b6d2023 unwind_stack calls close_upvalues(handler.init_stack_size) before truncating:
   the open upvalues of the discarded slots (>= handler height) are CLOSED on this edge (before that
   fix they stayed open - former class unwind_open_upvalue - and the model kept them in [captured]). *)
Definition exc_edge (s : fstate) (base : N) : result :=
  match handlers s with
  | [] => Next []
  | hd :: tl =>
    if hheight hd <=? base
    then Next [mkS (catch_pc hd) (hheight hd + 1) tl
                   (filter (fun c => c <? hheight hd) (captured s)) (pending s) (handler_flag hd)]
    else Stuck RHandlerAboveStack
  end.

Fixpoint uvs_ok (f : fn) (hh : N) (uvs : list (bool * N)) : option reason :=
  match uvs with
  | [] => None
  | (true, s) :: r =>
    (* the closure is pushed before its variables are captured, so slot hh (the closure itself,
       a recursive local function) is a valid target *)
    if s <=? hh then uvs_ok f hh r else Some RLocalOutOfRange
  | (false, i) :: r => if i <? upvalue_count f then uvs_ok f hh r else Some RUpvalueOutOfRange
  end.

Fixpoint capture_all (uvs : list (bool * N)) (cap : list N) : list N :=
  match uvs with
  | [] => cap
  | (true, s) :: r => capture_all r (insert_slot s cap)
  | (false, _) :: r => capture_all r cap
  end.

Section Step.
  Variable get : N -> option N.
  Variable lenient_catch_pop : bool.
  Variable p : program.
  Variable f : fn.

  Definition in_code (t : N) : bool := match get t with Some _ => true | None => false end.

  Definition step_simple (s : fstate) (i : instr) (nx : N) (e : effect) : result :=
    match e_chk e with
    | Some r => Stuck r
    | None =>
      match const_ok f (e_const e) (ia i) with
      | Some r => Stuck r
      | None =>
        if negb (e_need e <=? h s) then Stuck RStackUnderflow
        else if negb (captured_below (captured s) (h s - e_pops e)) then Stuck RPopCaptured
        else
          rapp (Next [mkS nx (h s - e_pops e + e_push e) (handlers s) (captured s) (pending s)
                          (if e_call e then XUnknown else exc s)])
               (if e_throw e then exc_edge s (h s - e_pops e) else Next [])
      end
    end.

  Definition step_at (s : fstate) : result :=
    if STACK_MAX <? h s then Stuck RStackOverflow else
    match decode_at get p f (pc s) with
    | None => Stuck RUndecodable
    | Some (i, nx) =>
      match simple_effect f i (h s) with
      | Some e => step_simple s i nx e
      | None =>
        match iop i with
        | OpJump =>
          if in_code (nx + ia i)
          then Next [mkS (nx + ia i) (h s) (handlers s) (captured s) (pending s) (exc s)]
          else Stuck RJumpOutOfRange
        | OpJumpIfFalse | OpJumpIfStopIter =>
          if h s =? 0 then Stuck RStackUnderflow
          else if in_code (nx + ia i)
          then Next [mkS nx (h s) (handlers s) (captured s) (pending s) (exc s);
                     mkS (nx + ia i) (h s) (handlers s) (captured s) (pending s) (exc s)]
          else Stuck RJumpOutOfRange
        | OpLoop =>
          if ia i <=? nx
          then Next [mkS (nx - ia i) (h s) (handlers s) (captured s) (pending s) (exc s)]
          else Stuck RJumpOutOfRange
        | OpJumpFinally =>
          (* peek(0); return_ip = ip; pop; pop_exc_handler().expect; close_upvalues(height); truncate;
             ip = finally_ip   (close_upvalues since the fix of class jumpfinally_open_upvalue) *)
          if h s =? 0 then Stuck RStackUnderflow else
          match handlers s with
          | [] => Stuck RNoHandler
          | hd :: tl =>
            match get nx with
            | Some 57 =>
              if negb (hheight hd <=? h s - 1) then Stuck RHandlerAboveStack
              else if in_code (finally_pc hd)
              then Next [mkS (finally_pc hd) (hheight hd) tl
                             (filter (fun c => c <? hheight hd) (captured s)) (Some nx) (exc s)]
              else Stuck RJumpOutOfRange
            | _ => Stuck RJumpFinallyNoReturn
            end
          end
        | OpEndFinally =>
          (* if handling_exception { unwind_stack()? }  then take_return_data *)
          let after_unwind (t : fstate) : fstate :=
            match pending s with
            | Some r => mkS r (h t + 1) (handlers t) (captured t) None (exc t)
            | None => t
            end in
          let rethrow :=
            match exc s with
            | XFalse => Next []
            | _ =>
              if h s =? 0 then Stuck RStackUnderflow
              else match exc_edge s (h s - 1) with
                   | Stuck r => Stuck r
                   | Next l => Next (map after_unwind l)
                   end
            end in
          let quiet :=
            match exc s with
            | XTrue => Next []
            | _ =>
              Next (mkS nx (h s) (handlers s) (captured s) None (exc s) ::
                    match pending s with
                    | Some r => [mkS r (h s + 1) (handlers s) (captured s) None (exc s)]
                    | None => []
                    end)
            end in
          rapp quiet rethrow
        | OpPushExcHandler =>
          Next [mkS nx (h s) (mkH (nx + ia i) (nx + ia i + ib i) (h s) :: handlers s)
                    (captured s) (pending s) (exc s)]
        | OpPopExcHandler =>
          match handlers s with
          | _ :: tl => Next [mkS nx (h s) tl (captured s) (pending s) (exc s)]
          | [] =>
            (* at run time this pops a CALLER's handler (or nothing) *)
            if lenient_catch_pop
            then Next [mkS nx (h s) [] (captured s) (pending s) (exc s)]
            else Stuck RNoHandler
          end
        | OpThrow =>
          if h s =? 0 then Stuck RStackUnderflow else exc_edge s (h s - 1)
        | OpClosure =>
          match uvs_ok f (h s) (iuvs i) with
          | Some r => Stuck r
          | None =>
            Next [mkS nx (h s + 1) (handlers s) (capture_all (iuvs i) (captured s))
                      (pending s) (exc s)]
          end
        | OpCloseUpvalue =>
          if arity f <? h s
          then Next [mkS nx (h s - 1) (handlers s)
                         (filter (fun c => c <? h s - 1) (captured s)) (pending s) (exc s)]
          else Stuck RPopBelowLocals
        | OpReturn =>
          if h s =? 0 then Stuck RStackUnderflow else
          match handlers s, pending s with
          | [], None => Next []
          | _ :: _, _ => Stuck RReturnWithHandlers
          | [], Some _ => Stuck RReturnPending
          end
        | _ => Stuck RUndecodable   (* unreachable: every other opcode is simple *)
        end
      end
    end.

  Definition succs_at (s : fstate) : option (list fstate) :=
    match step_at s with Next l => Some l | Stuck _ => None end.
End Step.

(* Reference semantics: bytes fetched from the function's code list. *)
Definition step (lenient : bool) (p : program) (f : fn) (s : fstate) : result :=
  step_at (byte_at (code f)) lenient p f s.

Definition succs (lenient : bool) (p : program) (f : fn) (s : fstate) : option (list fstate) :=
  succs_at (byte_at (code f)) lenient p f s.

(* ---------- multi-frame view (stretch goal): helpers ---------- *)

(* argument count of an instruction that may enter a callee frame *)
Definition call_argc (i : instr) : option N :=
  match iop i with
  | OpCall => Some (ia i)
  | OpInvoke | OpSuperInvoke => Some (ib i)
  | OpIterNext => Some 0          (* invoke("next", 0) *)
  | OpStartImport => Some 0       (* call_value(module closure, 0) *)
  | _ => None
  end.

Definition is_call (p : program) (f : fn) (s : fstate) : option N :=
  match decode p f (pc s) with
  | Some (i, _) => call_argc i
  | None => None
  end.

Definition is_return (p : program) (f : fn) (s : fstate) : bool :=
  match decode p f (pc s) with
  | Some (i, _) => match iop i with OpReturn => true | _ => false end
  | None => false
  end.

Definition may_throw (p : program) (f : fn) (s : fstate) : bool :=
  match decode p f (pc s) with
  | Some (i, _) =>
    match simple_effect f i (h s) with
    | Some e => e_throw e
    | None =>
      match iop i with
      | OpThrow => true
      | OpEndFinally => match exc s with XFalse => false | _ => true end
      | _ => false
      end
    end
  | None => false
  end.

(* the first successor of a simple instruction is its normal (non-exceptional) one *)
Definition normal_succ (lenient : bool) (p : program) (f : fn) (s : fstate) : option fstate :=
  match succs lenient p f s with
  | Some (x :: _) => Some x
  | _ => None
  end.

Record frame : Set := mkFr {
  fr_fn : nat;        (* index of the function in the program *)
  fr_base : N;        (* slot_base: absolute index of slot 0 in the fiber's stack *)
  fr_st : fstate      (* for a non-top frame: the state AT its pending call instruction *)
}.
