(* Reference interpreter of yarel (Spec): the core library /repo/yarel/src/core.yl as an AST
   (line numbers are those of the file).  It is evaluated as ordinary yarel code when the
   interpreter boots (SpecRun.boot_state).  DEFINITIONS ONLY.
   SpecScripts.v checks that parsing the file text with ParseRun gives exactly this AST. *)
From Coq Require Import List NArith String.
From Coq Require Import Strings.Byte.
From YV Require Import Ast SpecValues.
Import ListNotations.
Local Open Scope list_scope.
Local Open Scope N_scope.

Definition nm (s : string) : name := B s.
Definition var (s : string) : expr := EVar (nm s).

Definition error_subclass (l : lineno) (s : string) : stmt :=
  SClass l (ClassDecl (nm s) (Some (nm "Error")) None []).

Definition core_program : program :=
  [ SClass 1 (ClassDecl (nm "Error") None None
      [ MethodDecl MInit (nm "new") [nm "context"]
          [ SExpr 4 (ESet ESelf (nm "context") (var "context")) ] ]);
    error_subclass 9 "RuntimeError";
    error_subclass 12 "AttributeError";
    error_subclass 15 "IndexError";
    error_subclass 18 "ImportError";
    error_subclass 21 "NameError";
    error_subclass 24 "TypeError";
    error_subclass 27 "ValueError";
    SClass 30 (ClassDecl (nm "StopIter") (Some (nm "Error")) None
      [ MethodDecl MInit (nm "new") []
          [ SExpr 33 (ESuperCall (nm "new") [ENil]) ] ]);
    SClass 37 (ClassDecl (nm "Iter") None None
      [ MethodDecl MMethod (nm "iter") []
          [ SReturn 39 (Some ESelf) ];
        MethodDecl MMethod (nm "map") [nm "f"]
          [ SReturn 43 (Some (EInvoke (var "MapIter") (nm "new")
                                      [EInvoke ESelf (nm "iter") []; var "f"])) ];
        MethodDecl MMethod (nm "collect") []
          [ SVar 47 (nm "ret") (Some (EVec []));
            SFor 48 (nm "v") ESelf
              [ SExpr 49 (EInvoke (var "ret") (nm "push") [var "v"]) ];
            SReturn 51 (Some (var "ret")) ];
        MethodDecl MMethod (nm "filter") [nm "pred"]
          [ SReturn 55 (Some (EInvoke (var "FilterIter") (nm "new")
                                      [EInvoke ESelf (nm "iter") []; var "pred"])) ];
        MethodDecl MMethod (nm "reduce") [nm "func"; nm "init"]
          [ SVar 59 (nm "ret") (Some (var "init"));
            SFor 60 (nm "v") ESelf
              [ SExpr 61 (EAssign (nm "ret") (ECall (var "func") [var "ret"; var "v"])) ];
            SReturn 63 (Some (var "ret")) ] ]);
    SClass 68 (ClassDecl (nm "MapIter") (Some (nm "Iter")) None
      [ MethodDecl MInit (nm "new") [nm "iterable"; nm "func"]
          [ SExpr 71 (ESet ESelf (nm "iterable") (var "iterable"));
            SExpr 72 (ESet ESelf (nm "func") (var "func")) ];
        MethodDecl MMethod (nm "iter") []
          [ SReturn 76 (Some ESelf) ];
        MethodDecl MMethod (nm "next") []
          [ SVar 80 (nm "next") (Some (EInvoke (EGet ESelf (nm "iterable")) (nm "next") []));
            SIf 81 (EInvoke (var "next") (nm "derives") [var "StopIter"])
              [ SReturn 82 (Some (var "next")) ] None;
            SReturn 84 (Some (EInvoke ESelf (nm "func") [var "next"])) ] ]);
    SClass 89 (ClassDecl (nm "FilterIter") (Some (nm "Iter")) None
      [ MethodDecl MInit (nm "new") [nm "iterable"; nm "predicate"]
          [ SExpr 92 (ESet ESelf (nm "iterable") (var "iterable"));
            SExpr 93 (ESet ESelf (nm "predicate") (var "predicate")) ];
        MethodDecl MMethod (nm "iter") []
          [ SReturn 97 (Some ESelf) ];
        MethodDecl MMethod (nm "next") []
          [ SVar 101 (nm "next") (Some (EInvoke (EGet ESelf (nm "iterable")) (nm "next") []));
            SWhile 102
              (EAnd (EUnary UNot (EInvoke (var "next") (nm "derives") [var "StopIter"]))
                    (EUnary UNot (EInvoke ESelf (nm "predicate") [var "next"])))
              [ SExpr 103 (EAssign (nm "next")
                                   (EInvoke (EGet ESelf (nm "iterable")) (nm "next") [])) ];
            SReturn 105 (Some (var "next")) ] ]) ].
