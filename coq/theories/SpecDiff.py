#!/usr/bin/env python3
"""Differential test of the reference interpreter against the real CLI.
usage: SpecDiff.py DIR [SUBSTR]   -- every DIR/*.yl (files named mod_*.yl are importable modules only)
is run by /repo/target/release/yarel-cli (cwd = DIR; stdout then stderr; addresses masked as ADDR) and by
SpecScripts.run_case under vm_compute; outputs are compared line by line (empty print lines ignored,
only the first message of a compile error is compared).  Programs for it: SpecFuzzGen.py SEED N DIR."""
import os, re, subprocess, sys
sys.path.insert(0, "/verif/coq/theories")
import SpecScripts as S
D = sys.argv[1]
S.ROOT = D
files = sorted(f for f in os.listdir(D) if f.endswith(".yl") and not f.startswith("mod_"))
if len(sys.argv) > 2: files = [f for f in files if sys.argv[2] in f]
os.makedirs(S.OUT, exist_ok=True)
paths = [os.path.join(D, f) for f in files]
jobs = 12
chunks = [paths[i::jobs] for i in range(jobs)]
chunks = [c for c in chunks if c]
fns = [S.gen_file(100 + i, c, 3000) for i, c in enumerate(chunks)]
from concurrent.futures import ThreadPoolExecutor
with ThreadPoolExecutor(max_workers=jobs) as ex:
    results = list(ex.map(S.run_file, fns))
bad = 0
for c, rs in zip(chunks, results):
    if len(rs) != len(c): print("COUNT MISMATCH", c, len(rs))
    for p, r in zip(c, rs):
        try:
            cli = subprocess.run(["/repo/target/release/yarel-cli", os.path.basename(p)], cwd=D, capture_output=True, text=True, timeout=20)
        except subprocess.TimeoutExpired:
            print("CLI TIMEOUT", os.path.basename(p)); continue
        exp = cli.stdout.split("\n")
        if exp and exp[-1] == "": exp.pop()
        err = cli.stderr.split("\n")
        if err and err[-1] == "": err.pop()
        exp = [re.sub(r"0x[0-9a-f]+", "ADDR", l) for l in exp + err]
        kind, act = S.decode(r)
        exp = [l for l in exp if l != ""]   # print("") is an empty line for the CLI, no line for the harness splitter
        act = [l for l in act if l != ""]
        if kind == "compile": exp = exp[:1]
        if exp != act:
            bad += 1
            print("=== DIFF", os.path.basename(p), kind, "cli exit", cli.returncode)
            import difflib
            for l in difflib.unified_diff(exp, act, "cli", "spec", lineterm="", n=1):
                print("   ", l)
print("files", len(files), "diffs", bad)
