#!/usr/bin/env python3
import random, sys, os
seed = int(sys.argv[1]); n = int(sys.argv[2]); outdir = sys.argv[3]
os.makedirs(outdir, exist_ok=True)
class G:
    def __init__(s, r):
        s.r = r; s.lines = []; s.ind = 0; s.uid = 0
        s.scopes = [["g0"]]; s.fns = []; s.classes = []; s.in_fn = 0; s.in_loop = 0; s.in_try_fin = 0; s.in_try = 0; s.in_fin_body = 0
        s.budget = 60
    def emit(s, t): s.lines.append("  " * s.ind + t)
    def safe(s, t):
        if s.r.random() < 0.8 and not s.in_fin_body:
            e = s.fresh("ex"); s.emit(f"try {{ {t} }} catch {e} {{ print({e}); }}")
        else: s.emit(t)
    def fresh(s, p="v"): s.uid += 1; return f"{p}{s.uid}"
    def vars(s): return [v for sc in s.scopes for v in sc if not v.startswith('c')]
    def atom(s):
        r = s.r; k = r.randrange(14)
        vs = s.vars()
        if k < 5 and vs: return r.choice(vs)
        if k == 5: return r.choice(["nil", "true", "false"])
        if k == 6: return r.choice(['"a"', '"bc"', '""', '"x${1 + 1}y"'])
        if k == 7: return r.choice(["[1, 2, 3]", "[]", "(1, 2)", "(3,)", "{1: 2}", "0..3", "3..0"])
        if k == 8 and s.fns: return r.choice(s.fns)
        return str(r.choice([0, 1, 2, 3, 7, -1, 0.5, 10]))
    def expr(s, d=0):
        r = s.r
        if d > 2 or r.random() < 0.3: return s.atom()
        k = r.randrange(16)
        if k < 5:
            op = r.choice(["+", "-", "*", "/", "%", "<", ">", "<=", ">=", "==", "!=", "&", "|", "^", "<<", ">>", "&&", "||"])
            return f"({s.expr(d+1)} {op} {s.expr(d+1)})"
        if k == 5: return f"{r.choice(['-', '!', '~'])}{s.atom()}"
        if k == 6 and s.fns: return f"{r.choice(s.fns)}({', '.join(s.expr(d+1) for _ in range(r.randrange(3)))})"
        if k == 7: return f"{s.atom()}[{s.expr(d+1)}]"
        if k == 8: return f"{s.atom()}.{r.choice(['len()', 'iter()', 'x', 'get()', 'push(1)', 'm(1)', 'pop()', 'nope'])}"
        if k == 9 and s.classes: return f"{r.choice(s.classes)}.new({s.expr(d+1)})"
        if k == 10: return f"[{', '.join(s.expr(d+1) for _ in range(r.randrange(3)))}]"
        if k == 11: return f"|p| {s.expr(d+1)}" if r.random() < 0.5 else f"(|| {s.expr(d+1)})()"
        if k == 12: return f'"s${{{s.expr(d+1)}}}e"'
        if k == 13: return f"type({s.expr(d+1)})"
        if k == 14 and s.vars(): return f"({r.choice(s.vars())} = {s.expr(d+1)})"
        return s.atom()
    def block(s, body):
        s.emit("{") if False else None
    def stmts(s, n):
        for _ in range(n):
            if s.budget <= 0: break
            s.stmt()
    def scoped(s, f):
        s.scopes.append([]); s.ind += 1; f(); s.ind -= 1; s.scopes.pop()
    def stmt(s):
        r = s.r; s.budget -= 1; k = r.randrange(22)
        if k < 4: s.safe(f"print({s.expr()});")
        elif k < 6:
            v = s.fresh(); e = s.expr(); s.emit(f"var {v} = nil;"); s.scopes[-1].append(v); s.safe(f"{v} = {e};")
        elif k == 6 and s.vars():
            v = r.choice(s.vars()); op = r.choice(["=", "+=", "-=", "*="]); s.safe(f"{v} {op} {s.expr()};")
        elif k == 7:
            s.emit(f"if {s.expr()} {{"); s.scoped(lambda: s.stmts(r.randrange(1, 3)))
            if r.random() < 0.5:
                s.emit("} else {"); s.scoped(lambda: s.stmts(r.randrange(1, 3)))
            s.emit("}")
        elif k == 8:
            c = s.fresh("c"); s.emit(f"var {c} = 0;"); s.scopes[-1].append(c)
            s.emit(f"while {c} < {r.randrange(1,4)} {{")
            s.in_loop += 1
            def body():
                s.emit(f"{c} = {c} + 1;"); s.stmts(r.randrange(1, 3))
            s.scoped(body); s.in_loop -= 1; s.emit("}")
        elif k == 9:
            v = s.fresh("i"); it = r.choice(["0..3", "[1, 2]", '"ab"', "(1, 2, 3)", "2..0", s.atom()])
            s.emit(f"for {v} in {it} {{"); s.in_loop += 1
            s.scopes.append([v]); s.ind += 1; s.stmts(r.randrange(1, 3)); s.ind -= 1; s.scopes.pop()
            s.in_loop -= 1; s.emit("}")
        elif k == 10 and s.in_loop and not s.in_try_fin and not s.in_try:
            s.emit(f"if {s.expr()} {{ {r.choice(['break', 'continue'])}; }}")
        elif k == 11 and s.in_fn and not s.in_try_fin and not s.in_try:
            s.emit(f"if {s.expr()} {{ return {s.expr()}; }}")
        elif k == 12:
            f = s.fresh("f"); ps = [s.fresh("p") for _ in range(r.randrange(3))]
            s.emit(f"fn {f}({', '.join(ps)}) {{")
            s.scopes[-1].append(f)
            old = (s.in_loop, s.in_try_fin, s.in_try); s.in_loop = 0; s.in_try_fin = 0; s.in_try = 0; s.in_fn += 1
            s.scopes.append(list(ps)); s.ind += 1; s.stmts(r.randrange(1, 4))
            if r.random() < 0.7: s.emit(f"return {s.expr()};")
            s.ind -= 1; s.scopes.pop(); s.in_fn -= 1; s.in_loop, s.in_try_fin, s.in_try = old
            s.emit("}"); s.fns.append(f)
        elif k == 13:
            kind = r.randrange(3)
            s.emit("try {"); s.in_try += 1
            if kind != 0: s.in_try_fin += 1
            s.scoped(lambda: s.stmts(r.randrange(1, 3)))
            if kind != 0: s.in_try_fin -= 1
            s.in_try -= 1
            if kind != 1:
                e = s.fresh("e"); s.emit(f"}} catch {e} {{")
                if kind == 2: s.in_try_fin += 1
                s.in_try += 1
                s.scopes.append([e]); s.ind += 1; s.emit(f"print({e});") if r.random() < 0.3 else None; s.stmts(r.randrange(1, 2)); s.ind -= 1; s.scopes.pop()
                s.in_try -= 1
                if kind == 2: s.in_try_fin -= 1
            if kind != 0:
                s.emit("} finally {"); s.in_try_fin += 1
                # no locals and no nested try inside finally (open findings)
                s.in_fin_body += 1; s.ind += 1; s.emit(f"print({s.atom()});"); s.ind -= 1; s.in_fin_body -= 1
                s.in_try_fin -= 1
            s.emit("}")
        elif k == 14: s.emit(f"throw {s.expr()};") if (r.random() < 0.4 and (s.in_try or s.in_fn)) else s.safe(f"print({s.expr()});")
        elif k == 15:
            c = s.fresh("K"); base = r.choice(s.classes) if s.classes and r.random() < 0.4 else None
            if base: s.emit(f"#[derive({base})]")
            s.emit(f"class {c} {{")
            s.ind += 1
            s.emit("#[constructor] fn new(self, x) {"); s.ind += 1
            if base and r.random() < 0.7: s.emit("super.new(x);")
            s.emit("self.x = x;"); s.ind -= 1; s.emit("}")
            old = (s.in_loop, s.in_try_fin, s.in_try); s.in_loop = 0; s.in_try_fin = 0; s.in_try = 0; s.in_fn += 1
            s.emit("fn m(self, a) {"); s.scopes.append(["a"]); s.ind += 1; s.stmts(r.randrange(1, 3)); s.emit(f"return {r.choice(['self.x', 'a', 'self', 'self.get()', 'super.m(a)' if base else 'a'])};"); s.ind -= 1; s.scopes.pop(); s.emit("}")
            s.emit("fn get(self) { return self.x; }")
            if r.random() < 0.5: s.emit("#[static] fn st() { return Self; }")
            s.in_fn -= 1; s.in_loop, s.in_try_fin, s.in_try = old
            s.ind -= 1; s.emit("}")
            s.classes.append(c)
        elif k == 16:
            s.emit("{"); s.scoped(lambda: s.stmts(r.randrange(1, 3))); s.emit("}")
        elif k == 17:
            f = s.fresh("fb"); v = s.fresh("y")
            s.emit(f"var {f} = Fiber.new(|| {{"); s.ind += 1
            old = (s.in_loop, s.in_try_fin, s.in_try); s.in_loop = 0; s.in_try_fin = 0; s.in_try = 0; s.in_fn += 1
            s.scopes.append([])
            s.emit(f"var {v} = Fiber.yield({s.atom()});"); s.scopes[-1].append(v)
            s.stmts(r.randrange(1, 3)); s.emit(f"return {s.expr()};")
            s.scopes.pop(); s.in_fn -= 1; s.in_loop, s.in_try_fin, s.in_try = old
            s.ind -= 1; s.emit("});"); s.scopes[-1].append(f)
            s.safe(f"print({f}.call());")
            if r.random() < 0.8: s.safe(f"print({f}.call({s.atom()}));")
            if r.random() < 0.3: s.safe(f"print({f}.call());")
        elif k == 18:
            s.safe(f"print({s.atom()}.iter().map(|q| {s.expr(1)}).filter(|q| {s.expr(1)}).collect());")
        elif k == 19 and s.vars():
            s.safe(f"{r.choice(s.vars())}.x = {s.expr()};")
        elif k == 20 and s.vars():
            s.safe(f"{r.choice(s.vars())}[{s.expr(1)}] = {s.expr()};")
        else: s.safe(f"print({s.expr()});")
for i in range(n):
    g = G(random.Random(seed * 100000 + i))
    g.emit("var g0 = 1;")
    g.stmts(25)
    open(os.path.join(outdir, f"z{seed}_{i:04d}.yl"), "w").write("\n".join(g.lines) + "\n")
