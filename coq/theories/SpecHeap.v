(* Reference interpreter of yarel (Spec): store (heap objects, variable cells, range cache, output),
   Display, ==, hashability, class-of.  DEFINITIONS ONLY. *)
From Coq Require Import List NArith ZArith PArith Bool String.
From Coq Require Import Strings.Byte FSets.FMapPositive.
From Coq Require Import Floats.SpecFloat.
From YV Require Import Ast Show Num NumText SpecValues.
Import ListNotations.

Module PM := PositiveMap.
Local Close Scope Z_scope.
Local Open Scope list_scope.

(* addresses of the core classes (class_store.yaml + Object/Type/String/StringClass) *)
Record core_classes := mkCC {
  cc_object : addr; cc_type : addr; cc_string_meta : addr; cc_string : addr;
  cc_nil : addr; cc_bool : addr; cc_num : addr; cc_func : addr; cc_builtin : addr;
  cc_method : addr; cc_builtin_method : addr;
  cc_tuple : addr; cc_tuple_iter : addr; cc_vec : addr; cc_vec_iter : addr;
  cc_range : addr; cc_range_iter : addr; cc_hash_map : addr; cc_module : addr;
  cc_string_iter : addr; cc_fiber_meta : addr; cc_fiber : addr;
  cc_error : addr; cc_stop_iter : addr; cc_runtime_error : addr; cc_attribute_error : addr;
  cc_index_error : addr; cc_import_error : addr; cc_name_error : addr; cc_type_error : addr;
  cc_value_error : addr;
  cc_iter : addr; cc_map_iter : addr; cc_filter_iter : addr }.

Definition cc_dummy : core_classes :=
  let o := xH in mkCC o o o o o o o o o o o o o o o o o o o o o o o o o o o o o o o o o o.

Record store := mkStore {
  s_objs : PM.t obj;
  s_cells : PM.t value;
  s_next : positive;                     (* next fresh address: objects, cells, tuple ids, ranges *)
  s_rcache : list (Z * Z * addr);        (* range cache, oldest first, at most 8 entries *)
  s_out : list bytes;                    (* print() texts, most recent first *)
  s_cc : core_classes }.

Definition empty_store : store := mkStore (PM.empty obj) (PM.empty value) 1%positive [] [] cc_dummy.

Definition set_objs (s : store) (o : PM.t obj) : store :=
  mkStore o (s_cells s) (s_next s) (s_rcache s) (s_out s) (s_cc s).
Definition set_cells (s : store) (c : PM.t value) : store :=
  mkStore (s_objs s) c (s_next s) (s_rcache s) (s_out s) (s_cc s).
Definition set_next (s : store) (n : positive) : store :=
  mkStore (s_objs s) (s_cells s) n (s_rcache s) (s_out s) (s_cc s).
Definition set_rcache (s : store) (r : list (Z * Z * addr)) : store :=
  mkStore (s_objs s) (s_cells s) (s_next s) r (s_out s) (s_cc s).
Definition set_out (s : store) (o : list bytes) : store :=
  mkStore (s_objs s) (s_cells s) (s_next s) (s_rcache s) o (s_cc s).
Definition set_cc (s : store) (c : core_classes) : store :=
  mkStore (s_objs s) (s_cells s) (s_next s) (s_rcache s) (s_out s) c.

Definition get_obj (s : store) (a : addr) : option obj := PM.find a (s_objs s).
Definition put_obj (s : store) (a : addr) (o : obj) : store := set_objs s (PM.add a o (s_objs s)).

Definition fresh (s : store) : store * addr :=
  (set_next s (Pos.succ (s_next s)), s_next s).

Definition alloc (s : store) (o : obj) : store * addr :=
  let a := s_next s in
  (mkStore (PM.add a o (s_objs s)) (s_cells s) (Pos.succ a) (s_rcache s) (s_out s) (s_cc s), a).

Definition alloc_cell (s : store) (v : value) : store * addr :=
  let a := s_next s in
  (mkStore (s_objs s) (PM.add a v (s_cells s)) (Pos.succ a) (s_rcache s) (s_out s) (s_cc s), a).

Definition get_cell (s : store) (a : addr) : value :=
  match PM.find a (s_cells s) with Some v => v | None => VNil end.
Definition set_cell (s : store) (a : addr) (v : value) : store :=
  set_cells s (PM.add a v (s_cells s)).

(* ---------- ranges: 8-entry cache, replacement in insertion order (vm.rs build_range) ---------- *)
Definition RANGE_CACHE_SIZE : nat := 8.

Fixpoint rcache_find (b e : Z) (l : list (Z * Z * addr)) : option addr :=
  match l with
  | [] => None
  | (b', e', a) :: r => if Z.eqb b b' && Z.eqb e e' then Some a else rcache_find b e r
  end.

Definition mk_range (s : store) (b e : Z) : store * value :=
  match rcache_find b e (s_rcache s) with
  | Some a => (s, VRange a b e)
  | None =>
    let '(s1, a) := fresh s in
    let c := s_rcache s1 in
    let c' := if Nat.leb RANGE_CACHE_SIZE (List.length c) then tl c else c in
    (set_rcache s1 (c' ++ [(b, e, a)]), VRange a b e)
  end.

(* ---------- class of a value (vm.rs get_class) ---------- *)
Definition class_of (s : store) (v : value) : addr :=
  let cc := s_cc s in
  match v with
  | VNil => cc_nil cc
  | VBool _ => cc_bool cc
  | VNum _ => cc_num cc
  | VStr _ => cc_string cc
  | VTuple _ _ => cc_tuple cc
  | VRange _ _ _ => cc_range cc
  | VVec _ => cc_vec cc
  | VMap _ => cc_hash_map cc
  | VClass a => match get_obj s a with Some (OClass _ m _ _) => m | _ => cc_type cc end
  | VInst a => match get_obj s a with Some (OInst c _) => c | _ => cc_object cc end
  | VClosure _ => cc_func cc
  | VNative _ _ => cc_builtin cc
  | VBound _ => cc_method cc
  | VBoundNat _ => cc_builtin_method cc
  | VModule _ => cc_module cc
  | VFiber _ => cc_fiber cc
  | VStrIter _ => cc_string_iter cc
  | VTupIter _ => cc_tuple_iter cc
  | VVecIter _ => cc_vec_iter cc
  | VRangeIter _ => cc_range_iter cc
  end.

Definition class_name (s : store) (c : addr) : bytes :=
  match get_obj s c with Some (OClass nm _ _ _) => nm | _ => [] end.

Definition class_methods (s : store) (c : addr) : list (name * value) :=
  match get_obj s c with Some (OClass _ _ _ ms) => ms | _ => [] end.

Definition class_super (s : store) (c : addr) : option addr :=
  match get_obj s c with Some (OClass _ _ sup _) => sup | _ => None end.

(* ---------- hashability (value.rs has_hash) ---------- *)
Fixpoint has_hash (v : value) : bool :=
  match v with
  | VNil | VBool _ | VNum _ | VStr _ | VClass _ | VRange _ _ _ => true
  | VTuple _ es => (fix all (l : list value) : bool :=
                      match l with [] => true | x :: r => has_hash x && all r end) es
  | _ => false
  end.

(* ---------- == on hashable values: no heap needed ---------- *)
(* value.rs PartialEq restricted to the kinds that can be HashMap keys.  Tuples: identity shortcut,
   then element-wise. *)
Fixpoint key_eqb (a b : value) {struct a} : bool :=
  match a, b with
  | VNil, VNil => true
  | VBool x, VBool y => Bool.eqb x y
  | VNum x, VNum y => feqb x y
  | VStr x, VStr y => bytes_eqb x y
  | VClass x, VClass y => Pos.eqb x y
  | VRange x _ _, VRange y _ _ => Pos.eqb x y
  | VTuple i xs, VTuple j ys =>
    Pos.eqb i j ||
    (fix go (l : list value) (m : list value) {struct l} : bool :=
       match l, m with
       | [], [] => true
       | x :: l', y :: m' => key_eqb x y && go l' m'
       | _, _ => false
       end) xs ys
  | _, _ => false
  end.

(* ---------- == on all values (value.rs PartialEq); None = recursion budget exhausted ---------- *)
(* vec/tuple/map: identity shortcut first, then structural (recursion through the heap is unbounded in
   the real implementation and overflows the host stack on cyclic data: here the budget runs out). *)
Fixpoint map_lookup (k : value) (l : list (value * value)) : option value :=
  match l with
  | [] => None
  | (k', v) :: r => if key_eqb k' k then Some v else map_lookup k r
  end.

Fixpoint veq (fuel : nat) (s : store) (a b : value) {struct fuel} : option bool :=
  match fuel with
  | O => None
  | S f =>
    let list_eq := fix go (l m : list value) {struct l} : option bool :=
      match l, m with
      | [], [] => Some true
      | x :: l', y :: m' =>
        match veq f s x y with
        | None => None
        | Some false => Some false
        | Some true => go l' m'
        end
      | _, _ => Some false
      end in
    match a, b with
    | VNil, VNil => Some true
    | VBool x, VBool y => Some (Bool.eqb x y)
    | VNum x, VNum y => Some (feqb x y)
    | VStr x, VStr y => Some (bytes_eqb x y)
    | VTuple i xs, VTuple j ys =>
      if Pos.eqb i j then Some true
      else if Nat.eqb (List.length xs) (List.length ys) then list_eq xs ys else Some false
    | VRange x _ _, VRange y _ _ => Some (Pos.eqb x y)
    | VVec x, VVec y =>
      if Pos.eqb x y then Some true else
      match get_obj s x, get_obj s y with
      | Some (OVec xs), Some (OVec ys) =>
        if Nat.eqb (List.length xs) (List.length ys) then list_eq xs ys else Some false
      | _, _ => Some false
      end
    | VMap x, VMap y =>
      if Pos.eqb x y then Some true else
      match get_obj s x, get_obj s y with
      | Some (OMap xs), Some (OMap ys) =>
        if Nat.eqb (List.length xs) (List.length ys) then
          (fix all (l : list (value * value)) : option bool :=
             match l with
             | [] => Some true
             | (k, v) :: r =>
               match map_lookup k ys with
               | None => Some false
               | Some v' =>
                 match veq f s v v' with
                 | None => None
                 | Some false => Some false
                 | Some true => all r
                 end
               end
             end) xs
        else Some false
      | _, _ => Some false
      end
    | VClass x, VClass y => Some (Pos.eqb x y)
    | VInst x, VInst y => Some (Pos.eqb x y)
    | VClosure x, VClosure y => Some (Pos.eqb x y)
    | VNative x o1, VNative y o2 => Some (native_eqb x y && Pos.eqb o1 o2)
    | VBound x, VBound y => Some (Pos.eqb x y)
    | VBoundNat _, VBoundNat _ => Some false          (* no arm in PartialEq *)
    | VModule x, VModule y => Some (Pos.eqb x y)
    | VFiber x, VFiber y => Some (Pos.eqb x y)
    | VStrIter x, VStrIter y => Some (Pos.eqb x y)
    | VTupIter x, VTupIter y => Some (Pos.eqb x y)
    | VVecIter x, VVecIter y => Some (Pos.eqb x y)
    | VRangeIter x, VRangeIter y => Some (Pos.eqb x y)
    | _, _ => Some false
    end
  end.

Definition EQ_FUEL : nat := 2000.

(* ---------- Display (value.rs / object.rs) ---------- *)
Definition ADDR_TEXT : bytes := B "ADDR".     (* stands for the 0x… address the real implementation prints *)
Definition at_addr : bytes := B " @ " ++ ADDR_TEXT.

Definition z_text (z : Z) : bytes := B (show_Z z).
Definition nat_text (n : nat) : bytes := B (show_nat n).

Fixpoint join_bytes (sep : bytes) (l : list bytes) : bytes :=
  match l with
  | [] => []
  | [x] => x
  | x :: r => x ++ sep ++ join_bytes sep r
  end.

Fixpoint mem_addr (a : addr) (l : list addr) : bool :=
  match l with [] => false | x :: r => Pos.eqb a x || mem_addr a r end.

Fixpoint display (fuel : nat) (s : store) (lock : list addr) (v : value) {struct fuel} : option bytes :=
  match fuel with
  | O => None
  | S f =>
    let disp_list := fix go (lk : list addr) (l : list value) {struct l} : option (list bytes) :=
      match l with
      | [] => Some []
      | x :: r =>
        match display f s lk x with
        | None => None
        | Some t => match go lk r with None => None | Some ts => Some (t :: ts) end
        end
      end in
    match v with
    | VNil => Some (B "nil")
    | VBool true => Some (B "true")
    | VBool false => Some (B "false")
    | VNum x => Some (print_f64 x)
    | VStr t => Some t
    | VTuple id es =>
      if mem_addr id lock then Some (B "(...)") else
      match disp_list (id :: lock) es with
      | None => None
      | Some [t] => Some (B "(" ++ t ++ B ",)")
      | Some ts => Some (B "(" ++ join_bytes (B ", ") ts ++ B ")")
      end
    | VRange _ b e => Some (B "Range(" ++ z_text b ++ B ", " ++ z_text e ++ B ")")
    | VVec a =>
      if mem_addr a lock then Some (B "[...]") else
      match get_obj s a with
      | Some (OVec es) =>
        match disp_list (a :: lock) es with
        | None => None
        | Some ts => Some (B "[" ++ join_bytes (B ", ") ts ++ B "]")
        end
      | _ => Some (B "[]")
      end
    | VMap a =>
      if mem_addr a lock then Some (B "{...}") else
      match get_obj s a with
      | Some (OMap kvs) =>
        let lk := a :: lock in
        match (fix go (l : list (value * value)) : option (list bytes) :=
                 match l with
                 | [] => Some []
                 | (k, w) :: r =>
                   match display f s lk k, display f s lk w with
                   | Some tk, Some tw =>
                     match go r with None => None | Some ts => Some ((tk ++ B ": " ++ tw) :: ts) end
                   | _, _ => None
                   end
                 end) kvs with
        | None => None
        | Some ts => Some (B "{" ++ join_bytes (B ", ") ts ++ B "}")
        end
      | _ => Some (B "{}")
      end
    | VClass a => Some (B "<class " ++ class_name s a ++ B ">")
    | VInst a =>
      let c := match get_obj s a with Some (OInst c _) => c | _ => cc_object (s_cc s) end in
      Some (B "<" ++ class_name s c ++ B " instance" ++ at_addr ++ B ">")
    | VClosure a =>
      match get_obj s a with
      | Some (OClosure fi _ _) =>
        match fn_name fi with
        | [] => Some (B "<script" ++ at_addr ++ B ">")
        | nm => Some (B "<fn " ++ nm ++ at_addr ++ B ">")
        end
      | _ => Some (B "<fn ?>")
      end
    | VNative n _ => Some (B "<built-in fn " ++ native_name n ++ B ">")
    | VBound a =>
      match get_obj s a with
      | Some (OBound recv cl) =>
        let nm := match get_obj s cl with Some (OClosure fi _ _) => fn_name fi | _ => [] end in
        match display f s lock recv with
        | None => None
        | Some tr => Some (B "<method " ++ nm ++ B " on " ++ tr ++ at_addr ++ B ">")
        end
      | _ => Some (B "<method ?>")
      end
    | VBoundNat a =>
      match get_obj s a with
      | Some (OBoundNat recv n) =>
        match display f s lock recv with
        | None => None
        | Some tr => Some (B "<built-in method " ++ native_name n ++ B " on " ++ tr ++ at_addr ++ B ">")
        end
      | _ => Some (B "<built-in method ?>")
      end
    | VModule a =>
      let p := match get_obj s a with Some (OModule p _ _) => p | _ => [] end in
      Some (B "<module """ ++ p ++ B """>")
    | VFiber _ => Some (B "<fiber" ++ at_addr ++ B ">")
    | VStrIter _ => Some (B "ObjStringIter instance")
    | VRangeIter _ => Some (B "ObjRangeIter instance")
    | VTupIter _ => Some (B "<ObjTupleIter instance" ++ at_addr ++ B ">")
    | VVecIter _ => Some (B "<ObjVecIter instance" ++ at_addr ++ B ">")
    end
  end.

Definition DISPLAY_FUEL : nat := 1000.
Definition show_value (s : store) (v : value) : option bytes := display DISPLAY_FUEL s [] v.

(* ---------- error instances (vm.rs new_root_obj_err_from_error) ---------- *)
Definition ekind_class (s : store) (k : ekind) : addr :=
  let cc := s_cc s in
  match k with
  | EAttributeError => cc_attribute_error cc
  | EImportError => cc_import_error cc
  | EIndexError => cc_index_error cc
  | ENameError => cc_name_error cc
  | ERuntimeError => cc_runtime_error cc
  | ETypeError => cc_type_error cc
  | EValueError => cc_value_error cc
  end.

Definition context_name : name := B "context".

Definition mk_error (s : store) (k : ekind) (msg : bytes) : store * value :=
  let '(s1, a) := alloc s (OInst (ekind_class s k) [(context_name, VStr msg)]) in
  (s1, VInst a).

Definition mk_stop_iter (s : store) : store * value :=
  let '(s1, a) := alloc s (OInst (cc_stop_iter (s_cc s)) [(context_name, VNil)]) in
  (s1, VInst a).

(* the end test of a for loop: an instance whose class is StopIter or derives from it
   (vm.rs jump_if_stop_iter walks the superclass chain, as `derives` in core.yl's adapters does) *)
Fixpoint class_derives (fuel : nat) (s : store) (c : option addr) (q : addr) : bool :=
  match fuel, c with
  | S f, Some a => Pos.eqb a q || class_derives f s (class_super s a) q
  | _, _ => false
  end.

Definition is_stop_iter (s : store) (v : value) : bool :=
  match v with
  | VInst a =>
    match get_obj s a with
    | Some (OInst c _) => class_derives 1000 s (Some c) (cc_stop_iter (s_cc s))
    | _ => false
    end
  | _ => false
  end.
