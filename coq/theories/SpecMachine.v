(* Reference interpreter of yarel (Spec): the CEK-style abstract machine.
   State = control + continuation (first-order frames) of the running fiber + store + registries.
   [step] is a total function; [run] iterates it under fuel.  DEFINITIONS ONLY. *)
From Coq Require Import List NArith ZArith PArith Bool String.
From Coq Require Import Strings.Byte.
From Coq Require Import Floats.SpecFloat.
From YV Require StrFns.
From YV Require Import Ast Show Num NumText Index SpecValues SpecHeap SpecOps SpecNatives SpecPrep.
Import ListNotations.
Local Close Scope Z_scope.
Local Open Scope list_scope.

(* ---------- module sources ---------- *)
Inductive module_src :=
| MAst (p : program)
| MCompileError (msgs : list bytes)
| MMissing.
Definition modmap := list (bytes * module_src).

Fixpoint modmap_find (p : bytes) (m : modmap) : module_src :=
  match m with
  | [] => MMissing
  | (q, src) :: r => if bytes_eqb p q then src else modmap_find p r
  end.

(* ---------- machine state ---------- *)
Record state := mkState {
  st_ctl : control;
  st_kont : list frame;              (* continuation of the running fiber *)
  st_store : store;
  st_line : lineno;                  (* line of the statement executing in the innermost call *)
  st_mod : addr;                     (* module of the innermost call: its globals are "the globals" *)
  st_depth : nat;                    (* number of call frames of the running fiber *)
  st_fiber : addr;                   (* the running fiber *)
  st_modules : list (bytes * addr);  (* module registry by path *)
  st_srcs : modmap }.

Definition FRAMES_MAX : nat := 64.

Definition w_ctl (st : state) (c : control) : state :=
  mkState c (st_kont st) (st_store st) (st_line st) (st_mod st) (st_depth st) (st_fiber st)
          (st_modules st) (st_srcs st).
Definition w_kont (st : state) (k : list frame) : state :=
  mkState (st_ctl st) k (st_store st) (st_line st) (st_mod st) (st_depth st) (st_fiber st)
          (st_modules st) (st_srcs st).
Definition w_store (st : state) (s : store) : state :=
  mkState (st_ctl st) (st_kont st) s (st_line st) (st_mod st) (st_depth st) (st_fiber st)
          (st_modules st) (st_srcs st).
Definition w_line (st : state) (l : lineno) : state :=
  mkState (st_ctl st) (st_kont st) (st_store st) l (st_mod st) (st_depth st) (st_fiber st)
          (st_modules st) (st_srcs st).
Definition w_modules (st : state) (ms : list (bytes * addr)) : state :=
  mkState (st_ctl st) (st_kont st) (st_store st) (st_line st) (st_mod st) (st_depth st) (st_fiber st)
          ms (st_srcs st).
Definition w_push (st : state) (f : frame) : state := w_kont st (f :: st_kont st).
(* replace the per-fiber registers *)
Definition w_regs (st : state) (k : list frame) (l : lineno) (m : addr) (d : nat) : state :=
  mkState (st_ctl st) k (st_store st) l m d (st_fiber st) (st_modules st) (st_srcs st).
Definition w_fiber (st : state) (f : addr) : state :=
  mkState (st_ctl st) (st_kont st) (st_store st) (st_line st) (st_mod st) (st_depth st) f
          (st_modules st) (st_srcs st).

Inductive sres :=
| SNext (st : state)
| SOk (st : state) (v : value)                          (* the main fiber's script returned v *)
| SErr (st : state) (kind : bytes) (msgs : list bytes)  (* uncaught exception *)
| SFuelOut.                                             (* display / comparison budget exhausted *)

Definition ret (st : state) (v : value) : sres := SNext (w_ctl st (CVal v)).
Definition goto (st : state) (c : control) : sres := SNext (w_ctl st c).

Definition throw (st : state) (k : ekind) (msg : bytes) : sres :=
  let '(s1, v) := mk_error (st_store st) k msg in
  SNext (w_ctl (w_store st s1) (CThrow v)).

Definition of_nres (st : state) (r : nres) : sres :=
  match r with
  | NVal s v => ret (w_store st s) v
  | NErr s k m => throw (w_store st s) k m
  | NFuel => SFuelOut
  end.

Definition of_opres (st : state) (r : option opres) : sres :=
  match r with
  | Some (OpVal v) => ret st v
  | Some (OpErr k m) => throw st k m
  | None => SFuelOut
  end.

(* ---------- variables ---------- *)
Definition module_globals (s : store) (m : addr) : list (name * value) :=
  match get_obj s m with Some (OModule _ _ gs) => gs | _ => [] end.

Definition set_module_globals (s : store) (m : addr) (gs : list (name * value)) : store :=
  match get_obj s m with
  | Some (OModule p i _) => put_obj s m (OModule p i gs)
  | _ => s
  end.

Definition lookup_var (st : state) (en : env) (x : name) : option value :=
  match alist_find x en with
  | Some c => Some (get_cell (st_store st) c)
  | None => alist_find x (module_globals (st_store st) (st_mod st))
  end.

(* assignment to an existing variable; None = undefined global *)
Definition assign_var (st : state) (en : env) (x : name) (v : value) : option store :=
  let s := st_store st in
  match alist_find x en with
  | Some c => Some (set_cell s c v)
  | None =>
    match alist_replace x v (module_globals s (st_mod st)) with
    | Some gs => Some (set_module_globals s (st_mod st) gs)
    | None => None
    end
  end.

Definition undefined_variable (st : state) (x : name) : sres :=
  throw st ENameError (B "Undefined variable '" ++ x ++ B "'.").

(* declaration: a module global at the top level of a script, else a fresh cell *)
Definition declare (st : state) (glob : bool) (en : env) (x : name) (v : value) : state * env :=
  let s := st_store st in
  if glob then
    (w_store st (set_module_globals s (st_mod st) (alist_set x v (module_globals s (st_mod st)))), en)
  else
    let '(s1, c) := alloc_cell s v in (w_store st s1, (x, c) :: en).

(* the receiver variable used by `super` (compiler.rs super_) *)
(* repo 0fbde2d: inside a function nested in a method it is the METHOD's receiver: the innermost
   binding named `self` or `Self` (the nameless slot 0 of plain functions is skipped) *)
Fixpoint lookup_slot0 (en : env) : option addr :=
  match en with
  | [] => None
  | (x, c) :: r =>
    if bytes_eqb x (B "self") || bytes_eqb x (B "Self") then Some c
    else lookup_slot0 r
  end.

(* ---------- calls ---------- *)
Fixpoint bind_params (s : store) (ps : list name) (vs : list value) (en : env) : store * env :=
  match ps, vs with
  | p :: ps', v :: vs' =>
    let '(s1, c) := alloc_cell s v in bind_params s1 ps' vs' ((p, c) :: en)
  | _, _ => (s, en)
  end.

(* push a call frame and start the body; no arity / depth checks *)
Definition enter_closure (st : state) (cl : addr) (slot0 : value) (args : list value) : sres :=
  match get_obj (st_store st) cl with
  | Some (OClosure fi en m) =>
    let s := st_store st in
    (* Construct: an initialiser invoked on a class creates the instance *)
    let '(s0, slot0') :=
      match fn_kind fi, slot0 with
      | FKInit, VClass c => let '(s', a) := alloc s (OInst c []) in (s', VInst a)
      | _, _ => (s, slot0)
      end in
    let '(s1, c0) := alloc_cell s0 slot0' in
    let '(s2, en') := bind_params s1 (fn_params fi) args ((slot0_name (fn_kind fi), c0) :: en) in
    let rs := match fn_kind fi with FKInit => Some c0 | _ => None end in
    let fr := KCall cl rs (st_line st) (st_mod st) in
    let st1 := mkState (st_ctl st) (fr :: st_kont st) s2 (st_line st) m (S (st_depth st))
                       (st_fiber st) (st_modules st) (st_srcs st) in
    match fn_body fi with
    | FBStmts b =>
      goto st1 (CStmts b en' (match fn_kind fi with FKScript => true | _ => false end))
    | FBExpr e l => goto (w_push (w_line st1 l) KReturn) (CExpr e en')
    | FBDefaultInit => goto st1 (CReturn VNil)
    end
  | _ => throw st ERuntimeError (B "PANIC: not a closure")
  end.

Definition call_closure (st : state) (cl : addr) (slot0 : value) (args : list value) : sres :=
  let arity := closure_arity (st_store st) cl in
  let n := List.length args in
  if negb (Nat.eqb n arity) then
    throw st ETypeError (B "Expected " ++ nat_text arity ++ B " arguments but found " ++ nat_text n ++ B ".")
  else if Nat.leb FRAMES_MAX (st_depth st) then throw st EIndexError (B "Stack overflow.")
  else enter_closure st cl slot0 args.

(* ---------- fibers ---------- *)
Definition get_fiber (s : store) (a : addr) : option fiber :=
  match get_obj s a with Some (OFiber f) => Some f | _ => None end.

(* store the registers of the running fiber into its record *)
Definition save_current (st : state) (caller : option addr) : store :=
  let s := st_store st in
  let status := match get_fiber s (st_fiber st) with Some f => fb_status f | None => FStarted end in
  let status' := match status with FNew _ => FStarted | x => x end in
  put_obj s (st_fiber st)
          (OFiber (mkFiber status' caller (st_kont st) (st_line st) (st_mod st) (st_depth st))).

(* make fiber [c] the running one and deliver [v] to its continuation *)
Definition resume_fiber (st : state) (s : store) (c : addr) (v : value) : sres :=
  match get_fiber s c with
  | Some fc =>
    let s1 := put_obj s c (OFiber (mkFiber (fb_status fc) (fb_caller fc) [] (fb_line fc) (fb_mod fc) (fb_depth fc))) in
    SNext (mkState (CVal v) (fb_kont fc) s1 (fb_line fc) (fb_mod fc) (fb_depth fc) c
                   (st_modules st) (st_srcs st))
  | None => throw st ERuntimeError (B "PANIC: no such fiber")
  end.

(* the running fiber's outermost call returned [v] *)
Definition fiber_finish (st : state) (v : value) : sres :=
  let s := st_store st in
  let fid := st_fiber st in
  let caller := match get_fiber s fid with Some f => fb_caller f | None => None end in
  let s1 := put_obj s fid (OFiber (mkFiber FDone None [] 0%N (st_mod st) O)) in
  match caller with
  | None => SOk (w_regs (w_store st s1) [] (st_line st) (st_mod st) O) v
  | Some c => resume_fiber st s1 c v
  end.

Definition at_most_one (st : state) (n : nat) : sres :=
  throw st ETypeError (B "Expected at most 1 parameter but found " ++ nat_text n ++ B ".").

Definition fiber_call (st : state) (recv : value) (args : list value) : sres :=
  let s := st_store st in
  let n := List.length args in
  match recv with
  | VFiber t =>
    match get_fiber s t with
    | Some f =>
      let arity_err : option sres :=
        match fb_status f with
        | FNew cl =>
          match StrFns.check_num_args n (closure_arity s cl) with
          | Error e => Some (of_nres st (of_err s e))
          | Ok _ => None
          end
        | _ => if Nat.ltb 1 n then Some (at_most_one st n) else None
        end in
      match arity_err with
      | Some r => r
      | None =>
        match fb_status f, fb_caller f with
        | FDone, _ => throw st ERuntimeError (B "Cannot call a finished fiber.")
        | _, Some _ => throw st ERuntimeError (B "Cannot call a fiber that has already been called.")
        | status, None =>
          if Pos.eqb t (st_fiber st)
          then throw st ERuntimeError (B "Cannot call a fiber that has already been called.")
          else
          let cur_caller := match get_fiber s (st_fiber st) with Some c => fb_caller c | None => None end in
          let s1 := save_current st cur_caller in
          let s2 := put_obj s1 t (OFiber (mkFiber FStarted (Some (st_fiber st)) [] (fb_line f) (fb_mod f) (fb_depth f))) in
          match status with
          | FNew cl =>
            let st1 := mkState (st_ctl st) [] s2 0%N (fb_mod f) O t (st_modules st) (st_srcs st) in
            enter_closure st1 cl (VClosure cl) args
          | _ =>
            SNext (mkState (CVal (match args with [x] => x | _ => VNil end)) (fb_kont f) s2
                           (fb_line f) (fb_mod f) (fb_depth f) t (st_modules st) (st_srcs st))
          end
        end
      end
    | None => throw st ERuntimeError (B "PANIC: no such fiber")
    end
  | _ => throw st ERuntimeError (B "PANIC: Expected ObjFiber.")
  end.

Definition fiber_yield (st : state) (args : list value) : sres :=
  let s := st_store st in
  let n := List.length args in
  if Nat.ltb 1 n then at_most_one st n else
  match get_fiber s (st_fiber st) with
  | Some f =>
    match fb_caller f with
    | None => throw st ERuntimeError (B "Cannot yield from module-level code.")
    | Some c =>
      let s1 := save_current st None in
      resume_fiber st s1 c (match args with [x] => x | _ => VNil end)
    end
  | None => throw st ERuntimeError (B "Cannot yield from module-level code.")
  end.

Definition call_native (st : state) (n : native_id) (recv : value) (args : list value) : sres :=
  match n with
  | NFiberCall => fiber_call st recv args
  | NFiberYield => fiber_yield st args
  | _ => of_nres st (native_store n (st_store st) recv args)
  end.

(* vm.rs call_value *)
Definition call_value (st : state) (f : value) (args : list value) : sres :=
  let s := st_store st in
  match f with
  | VBound a =>
    match get_obj s a with
    | Some (OBound recv cl) => call_closure st cl recv args
    | _ => throw st ERuntimeError (B "PANIC: bound method")
    end
  | VBoundNat a =>
    match get_obj s a with
    | Some (OBoundNat recv n) => call_native st n recv args
    | _ => throw st ERuntimeError (B "PANIC: bound native")
    end
  | VClosure a => call_closure st a f args
  | VNative n _ => call_native st n f args
  | _ => throw st ETypeError (B "Can only call functions and methods.")
  end.

(* vm.rs invoke_from_class *)
Definition invoke_from_class (st : state) (c : addr) (m : name) (recv : value) (args : list value) : sres :=
  match alist_find m (class_methods (st_store st) c) with
  | Some (VClosure cl) => call_closure st cl recv args
  | Some (VNative n _) => call_native st n recv args
  | _ => throw st EAttributeError (B "Undefined property '" ++ m ++ B "'.")
  end.

(* vm.rs invoke: a callable FIELD (or module attribute) wins over a method *)
Definition invoke (st : state) (recv : value) (m : name) (args : list value) : sres :=
  let s := st_store st in
  match recv with
  | VInst a =>
    match get_obj s a with
    | Some (OInst c fs) =>
      match alist_find m fs with
      | Some f => call_value st f args
      | None => invoke_from_class st c m recv args
      end
    | _ => throw st ERuntimeError (B "PANIC: instance")
    end
  | VModule a =>
    match alist_find m (module_globals s a) with
    | Some f => call_value st f args
    | None => invoke_from_class st (cc_module (s_cc s)) m recv args
    end
  | _ => invoke_from_class st (class_of s recv) m recv args
  end.

(* ---------- uncaught exceptions (vm.rs new_error_from_value + runtime_error) ---------- *)
Definition trace_entry (s : store) (cl : addr) (line : lineno) : bytes :=
  match get_obj s cl with
  | Some (OClosure fi _ m) =>
    let path := match get_obj s m with Some (OModule p _ _) => p | _ => [] end in
    B "[module """ ++ path ++ B """, line " ++ B (show_N line) ++ B "] in " ++
    match fn_name fi with
    | [] => B "script"
    | nm => nm ++ B "()"
    end
  | _ => B "[?]"
  end.

Fixpoint trace (s : store) (k : list frame) (line : lineno) : list bytes :=
  match k with
  | [] => []
  | KCall cl _ sl _ :: k' => trace_entry s cl line :: trace s k' sl
  | _ :: k' => trace s k' line
  end.

Definition error_kind_of (s : store) (v : value) : bytes * bytes * value :=
  match v with
  | VInst a =>
    match get_obj s a with
    | Some (OInst c fs) =>
      let cc := s_cc s in
      let kind :=
        if Pos.eqb c (cc_attribute_error cc) then EAttributeError
        else if Pos.eqb c (cc_import_error cc) then EImportError
        else if Pos.eqb c (cc_index_error cc) then EIndexError
        else if Pos.eqb c (cc_name_error cc) then ENameError
        else if Pos.eqb c (cc_type_error cc) then ETypeError
        else if Pos.eqb c (cc_value_error cc) then EValueError
        else ERuntimeError in
      (ekind_name kind, class_name s c,
       match alist_find context_name fs with Some x => x | None => v end)
    | _ => (ekind_name ERuntimeError, B "exception", v)
    end
  | _ => (ekind_name ERuntimeError, B "exception", v)
  end.

Definition uncaught (st : state) (v : value) : sres :=
  let s := st_store st in
  let '(kind, desc, ctx) := error_kind_of s v in
  match show_value s ctx with
  | None => SFuelOut
  | Some t =>
    SErr st kind (split_lines (B "Unhandled " ++ desc ++ B ": " ++ t) ++ trace s (st_kont st) (st_line st))
  end.

(* ---------- unwinding ---------- *)
(* nearest handler of the running fiber for an exception, with the registers at that point *)
Fixpoint unwind_throw (k : list frame) (l : lineno) (m : addr) (d : nat)
  : option (frame * list frame * lineno * addr * nat) :=
  match k with
  | [] => None
  | (KTry _ _ _ as f) :: k' => Some (f, k', l, m, d)
  | (KCatch _ _ as f) :: k' => Some (f, k', l, m, d)
  | KCall _ _ sl sm :: k' => unwind_throw k' sl sm (pred d)
  | _ :: k' => unwind_throw k' l m d
  end.

(* break / continue: nearest loop body, or a try / catch that owns a finally block *)
Fixpoint unwind_loop (k : list frame) : option (frame * list frame) :=
  match k with
  | [] => None
  | (KWhileBody _ _ _ _ as f) :: k' => Some (f, k')
  | (KForBody _ _ _ _ _ as f) :: k' => Some (f, k')
  | (KTry _ (Some _) _ as f) :: k' => Some (f, k')
  | (KCatch _ _ as f) :: k' => Some (f, k')
  | (KCall _ _ _ _ as f) :: k' => None
  | _ :: k' => unwind_loop k'
  end.

(* return: nearest call frame, or a try / catch that owns a finally block *)
Fixpoint unwind_ret (k : list frame) : option (frame * list frame) :=
  match k with
  | [] => None
  | (KTry _ (Some _) _ as f) :: k' => Some (f, k')
  | (KCatch _ _ as f) :: k' => Some (f, k')
  | (KCall _ _ _ _ as f) :: k' => Some (f, k')
  | _ :: k' => unwind_ret k'
  end.

Definition run_finally (st : state) (k : list frame) (p : pending) (fb : list stmt) (en : env) : sres :=
  goto (w_kont st (KFinally p (st_line st) :: k)) (CStmts fb en false).

(* leave the call whose frame [KCall cl rs sl sm] was on top of [k] *)
Definition do_return (st : state) (k : list frame) (rs : option addr) (sl : lineno) (sm : addr) (v : value) : sres :=
  let r := match rs with Some c => get_cell (st_store st) c | None => v end in
  match k with
  | [] => fiber_finish (w_kont st []) r
  | _ => ret (w_regs st k sl sm (pred (st_depth st))) r
  end.

(* ---------- built-in globals of every module (vm.rs init_built_in_globals) ---------- *)
Definition builtin_globals (cc : core_classes) (m : addr) : list (name * value) :=
  [ (B "clock", VNative NClock m); (B "type", VNative NType m); (B "print", VNative NPrint m);
    (B "Type", VClass (cc_type cc)); (B "Object", VClass (cc_object cc));
    (B "Nil", VClass (cc_nil cc)); (B "Bool", VClass (cc_bool cc)); (B "Num", VClass (cc_num cc));
    (B "Func", VClass (cc_func cc)); (B "BuiltIn", VClass (cc_builtin cc));
    (B "Method", VClass (cc_method cc)); (B "BuiltInMethod", VClass (cc_builtin_method cc));
    (B "String", VClass (cc_string cc)); (B "Iter", VClass (cc_iter cc));
    (B "MapIter", VClass (cc_map_iter cc)); (B "FilterIter", VClass (cc_filter_iter cc));
    (B "Tuple", VClass (cc_tuple cc)); (B "Vec", VClass (cc_vec cc));
    (B "Range", VClass (cc_range cc)); (B "HashMap", VClass (cc_hash_map cc));
    (B "Fiber", VClass (cc_fiber cc));
    (B "Error", VClass (cc_error cc)); (B "RuntimeError", VClass (cc_runtime_error cc));
    (B "AttributeError", VClass (cc_attribute_error cc)); (B "IndexError", VClass (cc_index_error cc));
    (B "ImportError", VClass (cc_import_error cc)); (B "NameError", VClass (cc_name_error cc));
    (B "TypeError", VClass (cc_type_error cc)); (B "ValueError", VClass (cc_value_error cc));
    (B "StopIter", VClass (cc_stop_iter cc)) ].

Definition install_builtins (s : store) (m : addr) : store :=
  set_module_globals s m
    (fold_left (fun gs kv => alist_set (fst kv) (snd kv) gs) (builtin_globals (s_cc s) m)
               (module_globals s m)).

Definition script_fn (p : program) : fn_info := mkFn [] FKScript [] (FBStmts p).

(* ---------- class declaration (compiler.rs class_declaration + vm.rs *class_impl) ---------- *)
Definition method_kind_of (k : method_kind) : fkind :=
  match k with MMethod => FKMethod | MStatic => FKStatic | MInit => FKInit end.

Fixpoint alist_remove {A} (x : name) (l : list (name * A)) : list (name * A) :=
  match l with
  | [] => []
  | (y, v) :: r => if bytes_eqb x y then r else (y, v) :: alist_remove x r
  end.

(* returns store, class table, metaclass table *)
Fixpoint define_methods (s : store) (m : addr) (en : env) (ms : list method_decl)
         (ct mt : list (name * value)) : store * list (name * value) * list (name * value) :=
  match ms with
  | [] => (s, ct, mt)
  | MethodDecl k nm ps body :: r =>
    let '(s1, a) := alloc s (OClosure (mkFn nm (method_kind_of k) ps (FBStmts body)) en m) in
    let v := VClosure a in
    match k with
    | MMethod => define_methods s1 m en r (alist_set nm v ct) (alist_remove nm mt)
    | _ => define_methods s1 m en r (alist_set nm v ct) (alist_set nm v mt)
    end
  end.

Definition exec_class (st : state) (c : class_decl) (rest : list stmt) (en : env) (glob : bool) : sres :=
  let '(ClassDecl cname sup dctor ms) := c in
  (* the class variable exists (nil) while the body is evaluated *)
  let '(st1, en1) := declare st glob en cname VNil in
  let go (st2 : state) (en2 : env) (supc : option addr) : sres :=
    let s := st_store st2 in
    let cc := s_cc s in
    let obj_methods := class_methods s (cc_object cc) in
    let ct0 := match supc with
               | Some b => fold_left (fun t kv => alist_set (fst kv) (snd kv) t)
                                     (class_methods s b) obj_methods
               | None => obj_methods
               end in
    let '(s1, ct1, mt1) :=
      match dctor with
      | Some nm =>
        let '(s', a) := alloc s (OClosure (mkFn nm FKInit [] FBDefaultInit) en2 (st_mod st2)) in
        (s', alist_set nm (VClosure a) ct0, alist_set nm (VClosure a) obj_methods)
      | None => (s, ct0, obj_methods)
      end in
    let '(s2, ct, mt) := define_methods s1 (st_mod st2) en2 ms ct1 mt1 in
    let '(s3, ma) := alloc s2 (OClass (cname ++ B "Class") (cc_type cc) (Some (cc_object cc)) mt) in
    let '(s4, ca) := alloc s3 (OClass cname ma
                                      (match supc with Some b => Some b | None => Some (cc_object cc) end) ct) in
    let st3 := w_store st2 s4 in
    match assign_var st3 en2 cname (VClass ca) with
    | Some s5 => goto (w_store st3 s5) (CStmts rest en1 glob)
    | None => undefined_variable st3 cname
    end in
  match sup with
  | None => go st1 en1 None
  | Some b =>
    match lookup_var st1 en1 b with
    | None => undefined_variable st1 b
    | Some sv =>
      let '(s1, c) := alloc_cell (st_store st1) sv in
      let st2 := w_store st1 s1 in
      match sv with
      | VClass a => go st2 ((B "super", c) :: en1) (Some a)
      | _ => throw st2 ERuntimeError (B "Superclass must be a class.")
      end
    end
  end.

(* ---------- import (vm.rs start_import_impl / finish_import_impl) ---------- *)
Fixpoint registry_find (p : bytes) (l : list (bytes * addr)) : option addr :=
  match l with
  | [] => None
  | (q, a) :: r => if bytes_eqb p q then Some a else registry_find p r
  end.

(* is the body of module [m] executing in a call on continuation [k]? *)
Fixpoint kont_loads (s : store) (m : addr) (k : list frame) : bool :=
  match k with
  | [] => false
  | KCall cl _ _ _ :: k' =>
    match get_obj s cl with
    | Some (OClosure fi _ m') =>
      (match fn_name fi with [] => Pos.eqb m m' | _ => false end) || kont_loads s m k'
    | _ => kont_loads s m k'
    end
  | _ :: k' => kont_loads s m k'
  end.

(* ... in the fibers waiting for the running one (vm.rs is_loading_module) *)
Fixpoint chain_loads (fuel : nat) (s : store) (m : addr) (f : option addr) : bool :=
  match fuel, f with
  | S n, Some a =>
    match get_fiber s a with
    | Some fb => kont_loads s m (fb_kont fb) || chain_loads n s m (fb_caller fb)
    | None => false
    end
  | _, _ => false
  end.

Definition is_loading_module (st : state) (m : addr) : bool :=
  let s := st_store st in
  kont_loads s m (st_kont st) ||
  chain_loads 1000 s m (match get_fiber s (st_fiber st) with Some fb => fb_caller fb | None => None end).

Fixpoint registry_remove (p : bytes) (l : list (bytes * addr)) : list (bytes * addr) :=
  match l with
  | [] => []
  | (q, a) :: r => if bytes_eqb p q then r else (q, a) :: registry_remove p r
  end.

Definition exec_import (st : state) (path : bytes) (alias : name) (rest : list stmt) (en : env) (glob : bool) : sres :=
  let s := st_store st in
  let st_decl := w_push st (KVarDecl alias rest en glob) in
  let load (st : state) (st_decl : state) : sres :=
    match modmap_find path (st_srcs st) with
    | MMissing => throw st EImportError (B "Unable to read file '" ++ path ++ B ".yl' (file not found).")
    | MCompileError msgs =>
      throw st EImportError
            (join_bytes [x0a] (B "Error compiling module:" :: map (fun m => B "    " ++ m) msgs))
    | MAst p =>
      let '(s1, m) := alloc s (OModule path false []) in
      let s2 := install_builtins s1 m in
      let '(s3, cl) := alloc s2 (OClosure (script_fn (prep_program p)) [] m) in
      let st1 := w_modules (w_store st_decl s3) ((path, m) :: st_modules st) in
      call_closure (w_push st1 (KImportDone m)) cl (VClosure cl) []
    end in
  match registry_find path (st_modules st) with
  | Some m =>
    match get_obj s m with
    | Some (OModule _ true _) => ret st_decl (VModule m)
    | _ =>
      if is_loading_module st m then
        throw st EImportError
              (B "Circular dependency encountered when importing module '" ++ path ++ B "'.")
      else
        (* an earlier import failed before it finished (repo 367eb72): load the module afresh *)
        let ms := registry_remove path (st_modules st) in
        load (w_modules st ms) (w_modules st_decl ms)
    end
  | None => load st st_decl
  end.

(* ---------- expressions ---------- *)
Fixpoint interp_scan (acc : bytes) (parts : list interp_part) : bytes * option (expr * list interp_part) :=
  match parts with
  | [] => (acc, None)
  | IPStr t :: r => interp_scan (acc ++ t) r
  | IPExpr e :: r => (acc, Some (e, r))
  end.

Definition interp_continue (st : state) (acc : bytes) (parts : list interp_part) (en : env) : sres :=
  match interp_scan acc parts with
  | (acc', None) => ret st (VStr acc')
  | (acc', Some (e, r)) => goto (w_push st (KInterp acc' r en)) (CExpr e en)
  end.

Definition finish_args (st : state) (k : args_kont) (vals : list value) (en : env) : sres :=
  let s := st_store st in
  match k with
  | AKCall f => call_value st f vals
  | AKInvoke recv m => invoke st recv m vals
  | AKSuper recv m =>
    match lookup_var st en (B "super") with
    | Some (VClass c) => invoke_from_class st c m recv vals
    | _ => throw st ERuntimeError (B "PANIC: super is not a class")
    end
  | AKTuple => let '(s1, id) := fresh s in ret (w_store st s1) (VTuple id vals)
  | AKVec => let '(s1, a) := alloc s (OVec vals) in ret (w_store st s1) (VVec a)
  | AKMap => of_nres st (build_map s vals)
  end.

Definition eval_args (st : state) (k : args_kont) (args : list expr) (en : env) : sres :=
  match args with
  | [] => finish_args st k [] en
  | e :: r => goto (w_push st (KArgs k [] r en)) (CExpr e en)
  end.

Fixpoint flatten_pairs (l : list (expr * expr)) : list expr :=
  match l with [] => [] | (k, v) :: r => k :: v :: flatten_pairs r end.

Definition slot0_value (st : state) (en : env) : value :=
  match lookup_slot0 en with Some c => get_cell (st_store st) c | None => VNil end.

Definition step_expr (st : state) (e : expr) (en : env) : sres :=
  match e with
  | ENil => ret st VNil
  | ETrue => ret st (VBool true)
  | EFalse => ret st (VBool false)
  | ENum x => ret st (VNum x)
  | EStr t => ret st (VStr t)
  | EInterp parts => interp_continue st [] parts en
  | EVar x =>
    match lookup_var st en x with Some v => ret st v | None => undefined_variable st x end
  | ESelf =>
    match lookup_var st en (B "self") with Some v => ret st v | None => undefined_variable st (B "self") end
  | ECapSelf =>
    (* compiler.rs cap_self: the variable `Self`, then GetClass *)
    match lookup_var st en (B "Self") with
    | Some (VClass a) => ret st (VClass a)
    | Some v => ret st (VClass (class_of (st_store st) v))
    | None => undefined_variable st (B "Self")
    end
  | ESuperGet m =>
    let recv := slot0_value st en in
    match lookup_var st en (B "super") with
    | Some (VClass c) => of_nres st (bind_method (st_store st) c m recv)
    | _ => throw st ERuntimeError (B "PANIC: super is not a class")
    end
  | ESuperCall m args => eval_args st (AKSuper (slot0_value st en) m) args en
  | EAssign x a => goto (w_push st (KAssign x en)) (CExpr a en)
  | ECompound x op a =>
    match lookup_var st en x with
    | Some old => goto (w_push st (KCompound x op old en)) (CExpr a en)
    | None => undefined_variable st x
    end
  | EUnary op a => goto (w_push st (KUnary op)) (CExpr a en)
  | EBinary op a b => goto (w_push st (KBinL op b en)) (CExpr a en)
  | EAnd a b => goto (w_push st (KAnd b en)) (CExpr a en)
  | EOr a b => goto (w_push st (KOr b en)) (CExpr a en)
  | ERange a b => goto (w_push st (KRangeL b en)) (CExpr a en)
  | ECall f args => goto (w_push st (KCallFn args en)) (CExpr f en)
  | EGet o m => goto (w_push st (KGet m)) (CExpr o en)
  | ESet o m a => goto (w_push st (KSetObj m a en)) (CExpr o en)
  | ESetCompound o m op a => goto (w_push st (KSetCompObj m op a en)) (CExpr o en)
  | EInvoke o m args => goto (w_push st (KInvokeObj m args en)) (CExpr o en)
  | EIndex o i => goto (w_push st (KIndexObj i en)) (CExpr o en)
  | ESetIndex o i a => goto (w_push st (KSetIndexObj i a en)) (CExpr o en)
  | ETuple es => eval_args st AKTuple es en
  | EVec es => eval_args st AKVec es en
  | EMap kvs => eval_args st AKMap (flatten_pairs kvs) en
  | ELambda params body =>
    let '(nm, ps) := match params with x :: r => (x, r) | [] => (B "lambda-?", []) end in
    let fb := match body with LExpr x => FBExpr x (st_line st) | LBlock b => FBStmts b end in
    let '(s1, a) := alloc (st_store st) (OClosure (mkFn nm FKFunction ps fb) en (st_mod st)) in
    ret (w_store st s1) (VClosure a)
  end.

(* ---------- statements ---------- *)
Definition stmt_line (s : stmt) : lineno :=
  match s with
  | SExpr l _ | SVar l _ _ | SFn l _ _ _ | SClass l _ | SBlock l _ | SIf l _ _ _ | SWhile l _ _
  | SFor l _ _ _ | SReturn l _ | SBreak l | SContinue l | SThrow l _ | STry l _ _ _ | SImport l _ _ => l
  end.

Definition push_seq (st : state) (rest : list stmt) (en : env) (glob : bool) : state :=
  match rest with
  | [] => st
  | _ => w_push st (KSeq rest en glob)
  end.

Definition for_next (st : state) (cx : addr) (it : value) (b : list stmt) (en : env) (l : lineno) : sres :=
  invoke (w_push (w_line st l) (KForNext cx it b en l)) it (B "next") [].

Definition step_stmts (st0 : state) (ss : list stmt) (en : env) (glob : bool) : sres :=
  match ss with
  | [] => ret st0 VNil
  | s :: rest =>
    let st := w_line st0 (stmt_line s) in
    match s with
    | SExpr _ e => goto (push_seq st rest en glob) (CExpr e en)
    | SVar _ x None =>
      let '(st1, en1) := declare st glob en x VNil in goto st1 (CStmts rest en1 glob)
    | SVar _ x (Some e) => goto (w_push st (KVarDecl x rest en glob)) (CExpr e en)
    | SFn _ f ps body =>
      let fi := mkFn f FKFunction ps (FBStmts body) in
      if glob then
        let '(s1, a) := alloc (st_store st) (OClosure fi en (st_mod st)) in
        let '(st1, en1) := declare (w_store st s1) true en f (VClosure a) in
        goto st1 (CStmts rest en1 glob)
      else
        (* the function's own variable is in scope inside its body *)
        let '(s1, c) := alloc_cell (st_store st) VNil in
        let en1 := (f, c) :: en in
        let '(s2, a) := alloc s1 (OClosure fi en1 (st_mod st)) in
        goto (w_store st (set_cell s2 c (VClosure a))) (CStmts rest en1 glob)
    | SClass _ c => exec_class st c rest en glob
    | SBlock _ b => goto (push_seq st rest en glob) (CStmts b en false)
    | SIf _ c t e => goto (w_push (push_seq st rest en glob) (KIf t e en)) (CExpr c en)
    | SWhile l c b => goto (w_push (push_seq st rest en glob) (KWhileCond c b en l)) (CExpr c en)
    | SFor l x it b => goto (w_push (push_seq st rest en glob) (KForIt x b en l)) (CExpr it en)
    | SReturn _ None => goto st (CReturn VNil)
    | SReturn _ (Some e) => goto (w_push st KReturn) (CExpr e en)
    | SBreak _ => goto st CBreak
    | SContinue _ => goto st CContinue
    | SThrow _ e => goto (w_push st KThrow) (CExpr e en)
    | STry _ b c f => goto (w_push (push_seq st rest en glob) (KTry c f en)) (CStmts b en false)
    | SImport _ path alias => exec_import st path alias rest en glob
    end
  end.

(* ---------- a value reaches frame [f] ([st] has [f] already popped) ---------- *)
Definition step_val (st : state) (f : frame) (v : value) : sres :=
  let s := st_store st in
  match f with
  | KUnary op =>
    match apply_unop op v with OpVal r => ret st r | OpErr k m => throw st k m end
  | KBinL op b en => goto (w_push st (KBinR op v)) (CExpr b en)
  | KBinR op va => of_opres st (apply_binop s op va v)
  | KAnd b en => if truthy v then goto st (CExpr b en) else ret st v
  | KOr b en => if truthy v then ret st v else goto st (CExpr b en)
  | KRangeL b en => goto (w_push st (KRangeR v)) (CExpr b en)
  | KRangeR va => of_nres st (build_range s va v)
  | KAssign x en =>
    match assign_var st en x v with
    | Some s1 => ret (w_store st s1) v
    | None => undefined_variable st x
    end
  | KCompound x op old en =>
    match apply_binop s op old v with
    | Some (OpVal r) =>
      match assign_var st en x r with
      | Some s1 => ret (w_store st s1) r
      | None => undefined_variable st x
      end
    | r => of_opres st r
    end
  | KCallFn args en => eval_args st (AKCall v) args en
  | KArgs k done todo en =>
    match todo with
    | [] => finish_args st k (rev (v :: done)) en
    | e :: r => goto (w_push st (KArgs k (v :: done) r en)) (CExpr e en)
    end
  | KGet m => of_nres st (get_property s v m)
  | KSetObj m e en => goto (w_push st (KSetVal v m)) (CExpr e en)
  | KSetVal o m => of_nres st (set_property s o m v)
  | KSetCompObj m op e en =>
    match get_property s v m with
    | NVal s1 old => goto (w_push (w_store st s1) (KSetCompVal v m op old)) (CExpr e en)
    | r => of_nres st r
    end
  | KSetCompVal o m op old =>
    match apply_binop s op old v with
    | Some (OpVal r) => of_nres st (set_property s o m r)
    | r => of_opres st r
    end
  | KInvokeObj m args en => eval_args st (AKInvoke v m) args en
  | KIndexObj i en => goto (w_push st (KIndexIdx v)) (CExpr i en)
  | KIndexIdx o => of_nres st (get_item s o v)
  | KSetIndexObj i e en => goto (w_push st (KSetIndexIdx v e en)) (CExpr i en)
  | KSetIndexIdx o e en => goto (w_push st (KSetIndexVal o v)) (CExpr e en)
  | KSetIndexVal o i => of_nres st (set_item s o i v)
  | KInterp acc rest en =>
    match v with
    | VStr t => interp_continue st (acc ++ t) rest en
    | _ =>
      match show_value s v with
      | Some t => interp_continue st (acc ++ t) rest en
      | None => SFuelOut
      end
    end
  | KSeq rest en glob => goto st (CStmts rest en glob)
  | KVarDecl x rest en glob =>
    let '(st1, en1) := declare st glob en x v in goto st1 (CStmts rest en1 glob)
  | KIf t e en =>
    if truthy v then goto st (CStmts t en false)
    else match e with Some x => goto st (CStmts [x] en false) | None => ret st VNil end
  | KWhileCond c b en l =>
    if truthy v then goto (w_push st (KWhileBody c b en l)) (CStmts b en false) else ret st VNil
  | KWhileBody c b en l => goto (w_push (w_line st l) (KWhileCond c b en l)) (CExpr c en)
  | KForIt x b en l => invoke (w_push (w_line st l) (KForIter x b en l)) v (B "iter") []
  | KForIter x b en l =>
    let '(s1, cx) := alloc_cell s VNil in
    for_next (w_store st s1) cx v b ((x, cx) :: en) l
  | KForNext cx it b en l =>
    (* the loop variable is assigned BEFORE the end test *)
    let st1 := w_store st (set_cell s cx v) in
    if is_stop_iter s v then ret st1 VNil
    else goto (w_push st1 (KForBody cx it b en l)) (CStmts b en false)
  | KForBody cx it b en l => for_next st cx it b en l
  | KReturn => goto st (CReturn v)
  | KThrow => goto st (CThrow v)
  | KTry _ fin en =>
    match fin with
    | Some fb => run_finally st (st_kont st) PNormal fb en
    | None => ret st VNil
    end
  | KCatch fb en => run_finally st (st_kont st) PNormal fb en
  | KFinally p l =>
    let st1 := w_line st l in
    match p with
    | PNormal => ret st1 VNil
    | PThrow x => goto st1 (CThrow x)
    | PBreak => goto st1 CBreak
    | PContinue => goto st1 CContinue
    | PReturn x => goto st1 (CReturn x)
    end
  | KCall cl rs sl sm => do_return st (st_kont st) rs sl sm VNil
  | KImportDone m =>
    match get_obj s m with
    | Some (OModule p _ gs) => ret (w_store st (put_obj s m (OModule p true gs))) (VModule m)
    | _ => ret st (VModule m)
    end
  end.

Definition step_throw (st : state) (v : value) : sres :=
  match unwind_throw (st_kont st) (st_line st) (st_mod st) (st_depth st) with
  | None => uncaught st v
  | Some (f, k, l, m, d) =>
    let st1 := w_regs st k l m d in
    match f with
    | KTry (Some (x, body)) fin en =>
      let '(s1, c) := alloc_cell (st_store st1) v in
      let k1 := match fin with Some fb => KCatch fb en :: k | None => k end in
      goto (w_kont (w_store st1 s1) k1) (CStmts body ((x, c) :: en) false)
    | KTry None (Some fb) en => run_finally st1 k (PThrow v) fb en
    | KCatch fb en => run_finally st1 k (PThrow v) fb en
    | _ => uncaught st v
    end
  end.

Definition step_loop_signal (st : state) (is_break : bool) : sres :=
  let p := if is_break then PBreak else PContinue in
  match unwind_loop (st_kont st) with
  | None => throw st ERuntimeError (B "PANIC: break/continue outside a loop")
  | Some (f, k) =>
    let st1 := w_kont st k in
    match f with
    | KWhileBody c b en l =>
      if is_break then ret st1 VNil
      else goto (w_push (w_line st1 l) (KWhileCond c b en l)) (CExpr c en)
    | KForBody cx it b en l =>
      if is_break then ret st1 VNil else for_next st1 cx it b en l
    | KTry _ (Some fb) en => run_finally st1 k p fb en
    | KCatch fb en => run_finally st1 k p fb en
    | _ => ret st1 VNil
    end
  end.

Definition step_return (st : state) (v : value) : sres :=
  match unwind_ret (st_kont st) with
  | None => fiber_finish (w_kont st []) v
  | Some (f, k) =>
    let st1 := w_kont st k in
    match f with
    | KCall cl rs sl sm => do_return st1 k rs sl sm v
    | KTry _ (Some fb) en => run_finally st1 k (PReturn v) fb en
    | KCatch fb en => run_finally st1 k (PReturn v) fb en
    | _ => ret st1 v
    end
  end.

Definition step (st : state) : sres :=
  match st_ctl st with
  | CExpr e en => step_expr st e en
  | CStmts ss en glob => step_stmts st ss en glob
  | CVal v =>
    match st_kont st with
    | [] => fiber_finish st v
    | f :: k => step_val (w_kont st k) f v
    end
  | CThrow v => step_throw st v
  | CBreak => step_loop_signal st true
  | CContinue => step_loop_signal st false
  | CReturn v => step_return st v
  end.

(* ---------- running ---------- *)
Inductive rres :=
| RMore (st : state)                                    (* fuel exhausted: not a result *)
| RDone (st : state) (v : value)
| RFail (st : state) (kind : bytes) (msgs : list bytes)
| RStuck.                                               (* display / comparison budget exhausted *)

Fixpoint run (fuel : nat) (st : state) : rres :=
  match fuel with
  | O => RMore st
  | S f =>
    match step st with
    | SNext st' => run f st'
    | SOk st' v => RDone st' v
    | SErr st' k m => RFail st' k m
    | SFuelOut => RStuck
    end
  end.

(* [n] blocks of 1000 steps *)
Fixpoint run_blocks (n : nat) (st : state) : rres :=
  match n with
  | O => RMore st
  | S n' =>
    match run 1000 st with
    | RMore st' => run_blocks n' st'
    | r => r
    end
  end.
