(* Reference interpreter of yarel (Spec): built-in functions and methods (core.rs), indexing,
   property access, HashMap operations — everything that only needs the store.  DEFINITIONS ONLY.
   Fiber.call / Fiber.yield switch continuations and live in SpecMachine.v. *)
From Coq Require Import List NArith ZArith PArith Bool String.
From Coq Require Import Strings.Byte.
From Coq Require Import Floats.SpecFloat.
From YV Require Import Ast Show Num NumText Utf8 Index StrFns SpecValues SpecHeap SpecOps.
Import ListNotations.
Local Close Scope Z_scope.
Local Open Scope list_scope.

Inductive nres :=
| NVal (s : store) (v : value)
| NErr (s : store) (k : ekind) (msg : bytes)
| NFuel.                                  (* display / comparison budget exhausted *)

(* Display for use inside messages (budget exhaustion cannot be reported from there) *)
Definition disp (s : store) (v : value) : bytes :=
  match show_value s v with Some t => t | None => B "<display budget exhausted>" end.

(* ---------- bridge to StrFns ---------- *)
(* [full = false]: Display renderings that only ever appear in error messages are left empty;
   [with_shown] re-runs the operation with [full = true] when it failed, so results are those of the
   full arguments at the cost of the cheap ones. *)
Definition shown_of (full : bool) (s : store) (v : value) : string :=
  if full then string_of_list_byte (disp s v) else EmptyString.

Definition elem_of (full : bool) (s : store) (v : value) : elem :=
  match v with
  | VNum x => ENum (num_of_f64 x) (shown_of full s v)
  | _ => EOther (shown_of full s v)
  end.

Definition arg_of (full : bool) (s : store) (v : value) : arg :=
  let a := match v with
           | VNum x => ANum (num_of_f64 x)
           | VStr t => AStr t
           | VRange _ b e => ARange b e
           | VVec a =>
             match get_obj s a with
             | Some (OVec es) => AVec (map (elem_of full s) es)
             | _ => AVec []
             end
           | _ => AOther
           end in
  mkArg a (shown_of full s v).

Definition with_shown {A} (f : bool -> result A err) : result A err :=
  match f false with
  | Ok r => Ok r
  | Error _ => f true
  end.

Definition num_val (z : Z) : value := VNum (f64_of_Z z).
Definition nat_val (n : nat) : value := VNum (f64_of_Z (Z.of_nat n)).

Definition of_err (s : store) (e : err) : nres :=
  let '(k, m) := conv_err e in NErr s k m.

Definition of_res (s : store) (r : res) : nres :=
  match r with
  | Error e => of_err s e
  | Ok RNone => NVal s VNil
  | Ok (RBool b) => NVal s (VBool b)
  | Ok (RNum z) => NVal s (num_val z)
  | Ok (RStr t) => NVal s (VStr t)
  | Ok (RVecNum l) => let '(s1, a) := alloc s (OVec (map num_val l)) in NVal s1 (VVec a)
  | Ok (RVecStr l) => let '(s1, a) := alloc s (OVec (map VStr l)) in NVal s1 (VVec a)
  | Ok RStopIter => let '(s1, v) := mk_stop_iter s in NVal s1 v
  end.

Definition arity_check (s : store) (n expected : nat) (k : unit -> nres) : nres :=
  match check_num_args n expected with
  | Error e => of_err s e
  | Ok _ => k tt
  end.

Definition panic (s : store) (what : string) : nres :=
  NErr s ERuntimeError (B "PANIC: " ++ B what).

(* ---------- indexing (vm.rs get_item_impl / set_item_impl) ---------- *)
Definition get_item (s : store) (o i : value) : nres :=
  match o with
  | VStr t => of_res s (with_shown (fun full => string_get_item t (arg_of full s i)))
  | VTuple _ es =>
    match with_shown (fun full => slice_get_item es "Tuple" (arg_of full s i)) with
    | Error e => of_err s e
    | Ok (Scalar v) => NVal s v
    | Ok (Slice l) => let '(s1, id) := fresh s in NVal s1 (VTuple id l)
    end
  | VVec a =>
    match get_obj s a with
    | Some (OVec es) =>
      match with_shown (fun full => slice_get_item es "Vec" (arg_of full s i)) with
      | Error e => of_err s e
      | Ok (Scalar v) => NVal s v
      | Ok (Slice l) => let '(s1, b) := alloc s (OVec l) in NVal s1 (VVec b)
      end
    | _ => panic s "vec"
    end
  | _ => NErr s ETypeError (B "Value '" ++ disp s o ++ B "' is not indexable.")
  end.

Fixpoint list_set {A} (l : list A) (n : nat) (x : A) : list A :=
  match l, n with
  | [], _ => []
  | _ :: r, O => x :: r
  | y :: r, S k => y :: list_set r k x
  end.

Definition set_item (s : store) (o i v : value) : nres :=
  match o with
  | VVec a =>
    match get_obj s a with
    | Some (OVec es) =>
      match with_shown (fun full =>
              bounded_index "Vec" (shown_of full s i) (idx_of_value i) (Z.of_nat (List.length es))) with
      | Error e => of_err s e
      | Ok n => NVal (put_obj s a (OVec (list_set es n v))) VNil
      end
    | _ => panic s "vec"
    end
  | _ => NErr s ETypeError (B "Only Vec objects are index-assignable.")
  end.

(* ---------- ranges (vm.rs build_range_impl): the END is validated first ---------- *)
Definition build_range (s : store) (vb ve : value) : nres :=
  let vi v := with_shown (fun full => validate_integer (shown_of full s v) (idx_of_value v)) in
  match vi ve with
  | Error e => of_err s e
  | Ok e =>
    match vi vb with
    | Error er => of_err s er
    | Ok b => let '(s1, r) := mk_range s b e in NVal s1 r
    end
  end.

(* ---------- properties (vm.rs get_property_impl / set_property_impl / bind_method) ---------- *)
Definition undefined_property (s : store) (m : name) : nres :=
  NErr s EAttributeError (B "Undefined property '" ++ m ++ B "'.").

Definition bind_method (s : store) (cls : addr) (m : name) (recv : value) : nres :=
  match alist_find m (class_methods s cls) with
  | Some (VClosure c) => let '(s1, a) := alloc s (OBound recv c) in NVal s1 (VBound a)
  | Some (VNative n _) => let '(s1, a) := alloc s (OBoundNat recv n) in NVal s1 (VBoundNat a)
  | _ => undefined_property s m
  end.

Definition get_property (s : store) (o : value) (m : name) : nres :=
  let via_class := bind_method s (class_of s o) m o in
  match o with
  | VInst a =>
    match get_obj s a with
    | Some (OInst _ fs) => match alist_find m fs with Some v => NVal s v | None => via_class end
    | _ => via_class
    end
  | VModule a =>
    match get_obj s a with
    | Some (OModule _ _ gs) => match alist_find m gs with Some v => NVal s v | None => via_class end
    | _ => via_class
    end
  | _ => via_class
  end.

Definition set_property (s : store) (o : value) (m : name) (v : value) : nres :=
  match o with
  | VModule a =>
    match get_obj s a with
    | Some (OModule p i gs) => NVal (put_obj s a (OModule p i (alist_set m v gs))) v
    | _ => panic s "module"
    end
  | VInst a =>
    match get_obj s a with
    | Some (OInst c fs) => NVal (put_obj s a (OInst c (alist_set m v fs))) v
    | _ => panic s "instance"
    end
  | _ => NErr s EAttributeError (B "Only instances have fields.")
  end.

(* ---------- HashMap: association list under == (insertion order) ---------- *)
Fixpoint map_replace (k v : value) (l : list (value * value)) : option (list (value * value) * value) :=
  match l with
  | [] => None
  | (k', w) :: r =>
    if key_eqb k' k then Some ((k', v) :: r, w)
    else match map_replace k v r with
         | Some (r', old) => Some ((k', w) :: r', old)
         | None => None
         end
  end.

(* returns the new entries and the previous value (nil if none) *)
Definition map_insert (k v : value) (l : list (value * value)) : list (value * value) * value :=
  match map_replace k v l with
  | Some r => r
  | None => (l ++ [(k, v)], VNil)
  end.

Fixpoint map_remove (k : value) (l : list (value * value)) : list (value * value) * value :=
  match l with
  | [] => ([], VNil)
  | (k', w) :: r =>
    if key_eqb k' k then (r, w)
    else let '(r', old) := map_remove k r in ((k', w) :: r', old)
  end.

Definition unhashable (s : store) (k : value) : nres :=
  NErr s EValueError (B "Cannot use unhashable value '" ++ disp s k ++ B "' as HashMap key.").

Fixpoint build_map_go (s : store) (vals : list value) (acc : list (value * value)) : nres + list (value * value) :=
  match vals with
  | k :: v :: r =>
    if has_hash k then build_map_go s r (fst (map_insert k v acc)) else inl (unhashable s k)
  | _ => inr acc
  end.

Definition build_map (s : store) (vals : list value) : nres :=
  match build_map_go s vals [] with
  | inl e => e
  | inr kvs => let '(s1, a) := alloc s (OMap kvs) in NVal s1 (VMap a)
  end.

(* ---------- Object.derives ---------- *)
Fixpoint derives_walk (fuel : nat) (s : store) (c : option addr) (q : addr) : bool :=
  match fuel, c with
  | S f, Some a => Pos.eqb a q || derives_walk f s (class_super s a) q
  | _, _ => false
  end.

(* ---------- natives that only touch the store ---------- *)
Definition str_native (f : bytes -> list arg -> res) (s : store) (recv : value) (args : list value) : nres :=
  match recv with
  | VStr t => of_res s (with_shown (fun full => f t (map (arg_of full s) args)))
  | _ => panic s "Expected ObjString."
  end.

Definition static_str_native (f : list arg -> res) (s : store) (args : list value) : nres :=
  of_res s (with_shown (fun full => f (map (arg_of full s) args))).

Definition with_map (s : store) (recv : value) (k : addr -> list (value * value) -> nres) : nres :=
  match recv with
  | VMap a => match get_obj s a with Some (OMap kvs) => k a kvs | _ => panic s "map" end
  | _ => panic s "Expected ObjHashMap."
  end.

Definition with_vec (s : store) (recv : value) (k : addr -> list value -> nres) : nres :=
  match recv with
  | VVec a => match get_obj s a with Some (OVec es) => k a es | _ => panic s "vec" end
  | _ => panic s "Expected ObjVec"
  end.

Definition closure_arity (s : store) (a : addr) : nat :=
  match get_obj s a with Some (OClosure fi _ _) => List.length (fn_params fi) | _ => O end.

Definition native_store (n : native_id) (s : store) (recv : value) (args : list value) : nres :=
  let na := List.length args in
  match n with
  | NClock => NVal s (VNum f64_zero)
  | NType => arity_check s na 1 (fun _ =>
      match args with [x] => NVal s (VClass (class_of s x)) | _ => panic s "args" end)
  | NPrint =>
    match args with
    | [x] =>
      match show_value s x with
      | Some t => NVal (set_out s (t :: s_out s)) VNil
      | None => NFuel
      end
    | _ => NErr s ETypeError (B "Expected one argument to 'print'.")
    end
  | NObjDerives => arity_check s na 1 (fun _ =>
      match args with
      | [VClass q] => NVal s (VBool (derives_walk 1000 s (Some (class_of s recv)) q))
      | [x] => NErr s EValueError (B "Expected a class name but found '" ++ disp s x ++ B "'.")
      | _ => panic s "args"
      end)
  | NStrFrom => arity_check s na 1 (fun _ =>
      match args with
      | [x] => match show_value s x with Some t => NVal s (VStr t) | None => NFuel end
      | _ => panic s "args"
      end)
  | NStrFromAscii => static_str_native string_from_ascii s args
  | NStrFromUtf8 => static_str_native string_from_utf8 s args
  | NStrFromCodePoints => static_str_native string_from_code_points s args
  | NStrIter => arity_check s na 0 (fun _ =>
      match recv with
      | VStr t => let '(s1, a) := alloc s (OStrIter t O) in NVal s1 (VStrIter a)
      | _ => panic s "Expected ObjString instance."
      end)
  | NStrLen => str_native string_len s recv args
  | NStrIsAlpha => str_native string_is_alpha s recv args
  | NStrIsDigit => str_native string_is_digit s recv args
  | NStrIsHexdigit => str_native string_is_hexdigit s recv args
  | NStrCountChars => str_native string_count_chars s recv args
  | NStrCharByteIndex => str_native string_char_byte_index s recv args
  | NStrFind => str_native string_find s recv args
  | NStrReplace => str_native string_replace s recv args
  | NStrSplit => str_native string_split s recv args
  | NStrStartsWith => str_native string_starts_with s recv args
  | NStrEndsWith => str_native string_ends_with s recv args
  | NStrToNum => arity_check s na 0 (fun _ =>
      match recv with
      | VStr t =>
        match parse_f64 t with
        | Some x => NVal s (VNum x)
        | None => NErr s EValueError (B "Unable to parse number from '" ++ t ++ B "'.")
        end
      | _ => panic s "Expected ObjString."
      end)
  | NStrToBytes => str_native string_to_bytes s recv args
  | NStrToCodePoints => str_native string_to_code_points s recv args
  | NStrIterNext =>
    match recv with
    | VStrIter a =>
      match get_obj s a with
      | Some (OStrIter t pos) =>
        let '(r, pos') := string_iter_next t pos (map (arg_of false s) args) in
        of_res (put_obj s a (OStrIter t pos')) r
      | _ => panic s "iter"
      end
    | _ => panic s "Expected ObjIter instance."
    end
  | NTupLen => arity_check s na 0 (fun _ =>
      match recv with VTuple _ es => NVal s (nat_val (List.length es)) | _ => panic s "Expected ObjTuple" end)
  | NTupIter => arity_check s na 0 (fun _ =>
      match recv with
      | VTuple _ es => let '(s1, a) := alloc s (OTupIter es O) in NVal s1 (VTupIter a)
      | _ => panic s "Expected ObjTuple instance."
      end)
  | NTupIterNext => arity_check s na 0 (fun _ =>
      match recv with
      | VTupIter a =>
        match get_obj s a with
        | Some (OTupIter es cur) =>
          match nth_error es cur with
          | Some v => NVal (put_obj s a (OTupIter es (S cur))) v
          | None => let '(s1, v) := mk_stop_iter s in NVal s1 v
          end
        | _ => panic s "iter"
        end
      | _ => panic s "Expected ObjTupleIter instance."
      end)
  | NVecPush => arity_check s na 1 (fun _ =>
      with_vec s recv (fun a es =>
        match args with
        | [x] => NVal (put_obj s a (OVec (es ++ [x]))) recv
        | _ => panic s "args"
        end))
  | NVecPop => arity_check s na 0 (fun _ =>
      with_vec s recv (fun a es =>
        match rev es with
        | x :: r => NVal (put_obj s a (OVec (rev r))) x
        | [] => NErr s ERuntimeError (B "Cannot pop from empty Vec instance.")
        end))
  | NVecLen => arity_check s na 0 (fun _ =>
      with_vec s recv (fun _ es => NVal s (nat_val (List.length es))))
  | NVecIter => arity_check s na 0 (fun _ =>
      with_vec s recv (fun a _ => let '(s1, b) := alloc s (OVecIter a O) in NVal s1 (VVecIter b)))
  | NVecIterNext => arity_check s na 0 (fun _ =>
      match recv with
      | VVecIter a =>
        match get_obj s a with
        | Some (OVecIter vec cur) =>
          let es := match get_obj s vec with Some (OVec es) => es | _ => [] end in
          match nth_error es cur with
          | Some v => NVal (put_obj s a (OVecIter vec (S cur))) v
          | None => let '(s1, v) := mk_stop_iter s in NVal s1 v
          end
        | _ => panic s "iter"
        end
      | _ => panic s "Expected ObjVecIter instance."
      end)
  | NRangeIter => arity_check s na 0 (fun _ =>
      match recv with
      | VRange _ b e =>
        let '(s1, a) := alloc s (ORangeIter b e (if (b <? e)%Z then 1%Z else (-1)%Z)) in
        NVal s1 (VRangeIter a)
      | _ => panic s "Expected ObjRange instance."
      end)
  | NRangeIterNext => arity_check s na 0 (fun _ =>
      match recv with
      | VRangeIter a =>
        match get_obj s a with
        | Some (ORangeIter cur stop step) =>
          if (cur =? stop)%Z then let '(s1, v) := mk_stop_iter s in NVal s1 v
          else NVal (put_obj s a (ORangeIter (cur + step)%Z stop step)) (num_val cur)
        | _ => panic s "iter"
        end
      | _ => panic s "Expected ObjIter instance."
      end)
  | NMapHasKey => arity_check s na 1 (fun _ =>
      with_map s recv (fun _ kvs =>
        match args with
        | [k] => if has_hash k
                 then NVal s (VBool (match map_lookup k kvs with Some _ => true | None => false end))
                 else unhashable s k
        | _ => panic s "args"
        end))
  | NMapGet => arity_check s na 1 (fun _ =>
      with_map s recv (fun _ kvs =>
        match args with
        | [k] => if has_hash k
                 then NVal s (match map_lookup k kvs with Some v => v | None => VNil end)
                 else unhashable s k
        | _ => panic s "args"
        end))
  | NMapInsert => arity_check s na 2 (fun _ =>
      with_map s recv (fun a kvs =>
        match args with
        | [k; v] => if has_hash k
                    then let '(kvs', old) := map_insert k v kvs in NVal (put_obj s a (OMap kvs')) old
                    else unhashable s k
        | _ => panic s "args"
        end))
  | NMapRemove => arity_check s na 1 (fun _ =>
      with_map s recv (fun a kvs =>
        match args with
        | [k] => if has_hash k
                 then let '(kvs', old) := map_remove k kvs in NVal (put_obj s a (OMap kvs')) old
                 else unhashable s k
        | _ => panic s "args"
        end))
  | NMapClear => arity_check s na 0 (fun _ =>
      with_map s recv (fun a _ => NVal (put_obj s a (OMap [])) VNil))
  | NMapLen => arity_check s na 0 (fun _ =>
      with_map s recv (fun _ kvs => NVal s (nat_val (List.length kvs))))
  | NMapKeys => arity_check s na 0 (fun _ =>
      with_map s recv (fun _ kvs => let '(s1, b) := alloc s (OVec (map fst kvs)) in NVal s1 (VVec b)))
  | NMapValues => arity_check s na 0 (fun _ =>
      with_map s recv (fun _ kvs => let '(s1, b) := alloc s (OVec (map snd kvs)) in NVal s1 (VVec b)))
  | NMapItems => arity_check s na 0 (fun _ =>
      with_map s recv (fun _ kvs =>
        let '(s1, items) :=
          fold_left (fun (acc : store * list value) (kv : value * value) =>
                       let '(s0, l) := acc in
                       let '(s0', id) := fresh s0 in
                       (s0', l ++ [VTuple id [fst kv; snd kv]])) kvs (s, []) in
        let '(s2, b) := alloc s1 (OVec items) in NVal s2 (VVec b)))
  | NFiberNew => arity_check s na 1 (fun _ =>
      match args with
      | [VClosure c] =>
        if Nat.ltb 1 (closure_arity s c)
        then NErr s EValueError (B "Fiber expects a closure that accepts at most 1 parameter.")
        else
          let m := match get_obj s c with Some (OClosure _ _ m) => m | _ => xH end in
          let '(s1, a) := alloc s (OFiber (mkFiber (FNew c) None [] 0%N m 1)) in
          NVal s1 (VFiber a)
      | [x] => NErr s ETypeError (B "Expected a function but found '" ++ disp s x ++ B "'.")
      | _ => panic s "args"
      end)
  | NFiberHasFinished => arity_check s na 0 (fun _ =>
      match recv with
      | VFiber a =>
        match get_obj s a with
        | Some (OFiber f) =>
          NVal s (VBool (match fb_status f with FDone => true | _ => false end))
        | _ => panic s "fiber"
        end
      | _ => panic s "Expected ObjFiber."
      end)
  | NFiberYield | NFiberCall => panic s "fiber switch outside the machine"
  end.
