(* Reference interpreter of yarel (Spec): unary / binary operators on every pair of value kinds,
   integer validation, bridges to the number and index models.  DEFINITIONS ONLY. *)
From Coq Require Import List NArith ZArith PArith Bool String.
From Coq Require Import Strings.Byte.
From Coq Require Import Floats.SpecFloat.
From YV Require Import Ast Show Num NumText Index SpecValues SpecHeap.
Import ListNotations.
Local Close Scope Z_scope.
Local Open Scope list_scope.

Inductive opres :=
| OpVal (v : value)
| OpErr (k : ekind) (msg : bytes).

Definition MSG_BINARY_NUMBERS : bytes := B "Binary operands must both be numbers.".
Definition MSG_BINARY_ADD : bytes := B "Binary operands must be two numbers or two strings.".
Definition MSG_UNARY_NUMBER : bytes := B "Unary operand must be a number.".

(* operators on two numbers (vm.rs run loop); <= is Greater;Not and >= is Less;Not *)
Definition num_binop (op : binop) (a b : f64) : value :=
  match op with
  | BAdd => VNum (fadd a b)
  | BSub => VNum (fsub a b)
  | BMul => VNum (fmul a b)
  | BDiv => VNum (fdiv a b)
  | BMod => VNum (frem a b)
  | BLt => VBool (fltb a b)
  | BGt => VBool (fgtb a b)
  | BLe => VBool (negb (fgtb a b))
  | BGe => VBool (negb (fltb a b))
  | BBitAnd => VNum (bit_and a b)
  | BBitOr => VNum (bit_or a b)
  | BBitXor => VNum (bit_xor a b)
  | BShl => VNum (shl a b)
  | BShr => VNum (shr a b)
  | BEq => VBool (feqb a b)
  | BNe => VBool (negb (feqb a b))
  end.

(* every operator except == and != (which need the heap: [apply_binop]) *)
Definition binop_pure (op : binop) (a b : value) : opres :=
  match op with
  | BAdd =>
    match a, b with
    | VNum x, VNum y => OpVal (VNum (fadd x y))
    | VStr x, VStr y => OpVal (VStr (x ++ y))
    | _, _ => OpErr ETypeError MSG_BINARY_ADD
    end
  | _ =>
    match a, b with
    | VNum x, VNum y => OpVal (num_binop op x y)
    | _, _ => OpErr ETypeError MSG_BINARY_NUMBERS
    end
  end.

(* None = comparison budget exhausted (cyclic containers) *)
Definition apply_binop (s : store) (op : binop) (a b : value) : option opres :=
  match op with
  | BEq => match veq EQ_FUEL s a b with Some r => Some (OpVal (VBool r)) | None => None end
  | BNe => match veq EQ_FUEL s a b with Some r => Some (OpVal (VBool (negb r))) | None => None end
  | _ => Some (binop_pure op a b)
  end.

Definition apply_unop (op : unop) (a : value) : opres :=
  match op with
  | UNot => OpVal (VBool (negb (truthy a)))
  | UNeg => match a with VNum x => OpVal (VNum (fneg x)) | _ => OpErr ETypeError MSG_UNARY_NUMBER end
  | UBitNot => match a with VNum x => OpVal (VNum (bit_not x)) | _ => OpErr ETypeError MSG_UNARY_NUMBER end
  end.

(* ---------- numbers as the index logic sees them ---------- *)
Definition num_of_f64 (x : f64) : Index.num :=
  match x with
  | S754_nan => NumNonIntegral
  | S754_infinity sg => NumInf sg
  | S754_zero _ => NumInt 0%Z
  | S754_finite sg m e =>
    if is_integral x then
      let mag := if (0 <=? e)%Z then (Zpos m * 2 ^ e)%Z else (Zpos m / 2 ^ (- e))%Z in
      NumInt (if sg then (- mag)%Z else mag)
    else NumNonIntegral
  end.

Definition idx_of_value (v : value) : idx :=
  match v with VNum x => idx_of_num (num_of_f64 x) | _ => INotNumber end.

Definition conv_err (e : Index.err) : ekind * bytes :=
  match e with
  | Index.TypeError m => (ETypeError, B m)
  | Index.ValueError m => (EValueError, B m)
  | Index.IndexError m => (EIndexError, B m)
  | Index.RustPanic m => (ERuntimeError, B "PANIC: " ++ B m)
  end.

(* Rust str::lines(): split at \n, drop a trailing \r of each line, no final empty line *)
Definition strip_cr (l : bytes) : bytes :=
  match rev l with
  | x :: r => if Byte.eqb x "013"%byte then rev r else l
  | [] => l
  end.

Fixpoint split_lines_go (s : bytes) (cur : bytes) : list bytes :=
  match s with
  | [] => match cur with [] => [] | _ => [strip_cr (rev cur)] end
  | b :: r =>
    if Byte.eqb b "010"%byte then strip_cr (rev cur) :: split_lines_go r []
    else split_lines_go r (b :: cur)
  end.
Definition split_lines (s : bytes) : list bytes := split_lines_go s [].
