(* Reference interpreter of yarel (Spec): static preparation of a program.
   compiler.rs names the k-th lambda that starts inside one function body "lambda-k" (k counts
   from 0 per enclosing function / lambda / method / script, in source order).  The name is visible
   (Display of the closure, trace lines), so it is computed here and stored as an extra FIRST
   element of the lambda's parameter list (the text contains '-', so it cannot clash with an
   identifier); SpecMachine takes it off again when the closure is created.  DEFINITIONS ONLY. *)
From Coq Require Import List NArith String.
From Coq Require Import Strings.Byte.
From YV Require Import Ast Show SpecValues.
Import ListNotations.
Local Open Scope list_scope.

Definition lambda_name (k : N) : name := B "lambda-" ++ B (show_N k).

Section Lists.
  Context {A : Type} (f : N -> A -> A * N).
  Fixpoint prep_list (n : N) (l : list A) : list A * N :=
    match l with
    | [] => ([], n)
    | x :: r =>
      let '(x', n1) := f n x in
      let '(r', n2) := prep_list n1 r in
      (x' :: r', n2)
    end.
End Lists.

Definition prep_opt {A} (f : N -> A -> A * N) (n : N) (o : option A) : option A * N :=
  match o with
  | None => (None, n)
  | Some x => let '(x', n1) := f n x in (Some x', n1)
  end.

Fixpoint prep_expr (n : N) (e : expr) {struct e} : expr * N :=
  let pl := fix pl (n : N) (l : list expr) {struct l} : list expr * N :=
    match l with
    | [] => ([], n)
    | x :: r => let '(x', n1) := prep_expr n x in let '(r', n2) := pl n1 r in (x' :: r', n2)
    end in
  let prep_stmts := fix pss (n : N) (l : list stmt) {struct l} : list stmt * N :=
    match l with
    | [] => ([], n)
    | x :: r => let '(x', n1) := prep_stmt n x in let '(r', n2) := pss n1 r in (x' :: r', n2)
    end in
  match e with
  | ENil | ETrue | EFalse | ENum _ | EStr _ | EVar _ | ESelf | ECapSelf | ESuperGet _ => (e, n)
  | EInterp parts =>
    let '(parts', n1) :=
      (fix pp (n : N) (l : list interp_part) {struct l} : list interp_part * N :=
         match l with
         | [] => ([], n)
         | IPStr s :: r => let '(r', n1) := pp n r in (IPStr s :: r', n1)
         | IPExpr x :: r =>
           let '(x', n1) := prep_expr n x in let '(r', n2) := pp n1 r in (IPExpr x' :: r', n2)
         end) n parts in
    (EInterp parts', n1)
  | ESuperCall m args => let '(a', n1) := pl n args in (ESuperCall m a', n1)
  | EAssign x a => let '(a', n1) := prep_expr n a in (EAssign x a', n1)
  | ECompound x op a => let '(a', n1) := prep_expr n a in (ECompound x op a', n1)
  | EUnary op a => let '(a', n1) := prep_expr n a in (EUnary op a', n1)
  | EBinary op a b =>
    let '(a', n1) := prep_expr n a in let '(b', n2) := prep_expr n1 b in (EBinary op a' b', n2)
  | EAnd a b =>
    let '(a', n1) := prep_expr n a in let '(b', n2) := prep_expr n1 b in (EAnd a' b', n2)
  | EOr a b =>
    let '(a', n1) := prep_expr n a in let '(b', n2) := prep_expr n1 b in (EOr a' b', n2)
  | ERange a b =>
    let '(a', n1) := prep_expr n a in let '(b', n2) := prep_expr n1 b in (ERange a' b', n2)
  | ECall f args =>
    let '(f', n1) := prep_expr n f in let '(a', n2) := pl n1 args in (ECall f' a', n2)
  | EGet o m => let '(o', n1) := prep_expr n o in (EGet o' m, n1)
  | ESet o m a =>
    let '(o', n1) := prep_expr n o in let '(a', n2) := prep_expr n1 a in (ESet o' m a', n2)
  | ESetCompound o m op a =>
    let '(o', n1) := prep_expr n o in let '(a', n2) := prep_expr n1 a in (ESetCompound o' m op a', n2)
  | EInvoke o m args =>
    let '(o', n1) := prep_expr n o in let '(a', n2) := pl n1 args in (EInvoke o' m a', n2)
  | EIndex o i =>
    let '(o', n1) := prep_expr n o in let '(i', n2) := prep_expr n1 i in (EIndex o' i', n2)
  | ESetIndex o i a =>
    let '(o', n1) := prep_expr n o in
    let '(i', n2) := prep_expr n1 i in
    let '(a', n3) := prep_expr n2 a in (ESetIndex o' i' a', n3)
  | ETuple es => let '(es', n1) := pl n es in (ETuple es', n1)
  | EVec es => let '(es', n1) := pl n es in (EVec es', n1)
  | EMap kvs =>
    let '(kvs', n1) :=
      (fix pk (n : N) (l : list (expr * expr)) {struct l} : list (expr * expr) * N :=
         match l with
         | [] => ([], n)
         | (k, v) :: r =>
           let '(k', n1) := prep_expr n k in
           let '(v', n2) := prep_expr n1 v in
           let '(r', n3) := pk n2 r in ((k', v') :: r', n3)
         end) n kvs in
    (EMap kvs', n1)
  | ELambda params body =>
    (* the lambda's own body is a new function: its counter starts at 0 *)
    let body' := match body with
                 | LExpr x => LExpr (fst (prep_expr 0%N x))
                 | LBlock b => LBlock (fst (prep_stmts 0%N b))
                 end in
    (ELambda (lambda_name n :: params) body', N.succ n)
  end
with prep_stmt (n : N) (s : stmt) {struct s} : stmt * N :=
  let prep_stmts := fix pss (n : N) (l : list stmt) {struct l} : list stmt * N :=
    match l with
    | [] => ([], n)
    | x :: r => let '(x', n1) := prep_stmt n x in let '(r', n2) := pss n1 r in (x' :: r', n2)
    end in
  match s with
  | SExpr l e => let '(e', n1) := prep_expr n e in (SExpr l e', n1)
  | SVar l x None => (s, n)
  | SVar l x (Some e) => let '(e', n1) := prep_expr n e in (SVar l x (Some e'), n1)
  | SFn l f ps body => (SFn l f ps (fst (prep_stmts 0%N body)), n)
  | SClass l (ClassDecl c sup dc ms) =>
    let ms' := (fix pm (l : list method_decl) : list method_decl :=
                  match l with
                  | [] => []
                  | MethodDecl k m ps body :: r => MethodDecl k m ps (fst (prep_stmts 0%N body)) :: pm r
                  end) ms in
    (SClass l (ClassDecl c sup dc ms'), n)
  | SBlock l b => let '(b', n1) := prep_stmts n b in (SBlock l b', n1)
  | SIf l c t e =>
    let '(c', n1) := prep_expr n c in
    let '(t', n2) := prep_stmts n1 t in
    match e with
    | None => (SIf l c' t' None, n2)
    | Some x => let '(x', n3) := prep_stmt n2 x in (SIf l c' t' (Some x'), n3)
    end
  | SWhile l c b =>
    let '(c', n1) := prep_expr n c in
    let '(b', n2) := prep_stmts n1 b in (SWhile l c' b', n2)
  | SFor l x it b =>
    let '(it', n1) := prep_expr n it in
    let '(b', n2) := prep_stmts n1 b in (SFor l x it' b', n2)
  | SReturn l None => (s, n)
  | SReturn l (Some e) => let '(e', n1) := prep_expr n e in (SReturn l (Some e'), n1)
  | SBreak _ | SContinue _ | SImport _ _ _ => (s, n)
  | SThrow l e => let '(e', n1) := prep_expr n e in (SThrow l e', n1)
  | STry l b c f =>
    let '(b', n1) := prep_stmts n b in
    let '(c', n2) := match c with
                     | None => (None, n1)
                     | Some (x, cb) => let '(cb', k) := prep_stmts n1 cb in (Some (x, cb'), k)
                     end in
    let '(f', n3) := match f with
                     | None => (None, n2)
                     | Some fb => let '(fb', k) := prep_stmts n2 fb in (Some fb', k)
                     end in
    (STry l b' c' f', n3)
  end.

Fixpoint prep_stmts (n : N) (l : list stmt) : list stmt * N :=
  match l with
  | [] => ([], n)
  | x :: r => let '(x', n1) := prep_stmt n x in let '(r', n2) := prep_stmts n1 r in (x' :: r', n2)
  end.

Definition prep_program (p : program) : program := fst (prep_stmts 0%N p).
