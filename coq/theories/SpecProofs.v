(* Reference interpreter of yarel (Spec): theorems about its parts.
   No axioms; every headline theorem is followed by Print Assumptions. *)
From Coq Require Import List NArith ZArith PArith Bool String Lia.
From Coq Require Import Strings.Byte.
From Coq Require Import Floats.SpecFloat.
From YV Require Import Ast Show Num NumText Index SpecValues SpecHeap SpecOps SpecNatives SpecMachine.
Import ListNotations.
Local Close Scope Z_scope.
Local Open Scope list_scope.

(* ------------------------------------------------------------------ *)
(* truthiness: only nil and false are false                             *)
Theorem truthiness : forall v, truthy v = false <-> (v = VNil \/ v = VBool false).
Proof.
  intros v; split.
  - destruct v; cbn; try discriminate; auto. destruct b; [discriminate | auto].
  - intros [-> | ->]; reflexivity.
Qed.
Print Assumptions truthiness.

(* ------------------------------------------------------------------ *)
(* operators                                                            *)
Definition is_eq_op (op : binop) : bool :=
  match op with BEq | BNe => true | _ => false end.

(* the complete table of the binary operators other than == and != *)
Theorem binop_pure_table : forall op a b, is_eq_op op = false ->
  binop_pure op a b =
  match a, b with
  | VNum x, VNum y => OpVal (num_binop op x y)
  | VStr x, VStr y =>
    match op with BAdd => OpVal (VStr (x ++ y)) | _ => OpErr ETypeError MSG_BINARY_NUMBERS end
  | _, _ =>
    match op with
    | BAdd => OpErr ETypeError MSG_BINARY_ADD
    | _ => OpErr ETypeError MSG_BINARY_NUMBERS
    end
  end.
Proof.
  intros op a b Hop.
  destruct a; destruct op; try discriminate Hop; try reflexivity; destruct b; reflexivity.
Qed.

(* every operator on every pair of kinds yields a value or a TypeError with one of two messages;
   only the two equality operators can run out of comparison budget, and they never fail *)
Theorem ops_total : forall s op a b,
  match apply_binop s op a b with
  | Some (OpVal _) => True
  | Some (OpErr k m) =>
    is_eq_op op = false /\ k = ETypeError /\
    (m = MSG_BINARY_NUMBERS \/ (op = BAdd /\ m = MSG_BINARY_ADD))
  | None => is_eq_op op = true
  end.
Proof.
  intros s op a b. destruct (is_eq_op op) eqn:Hop.
  - destruct op; try discriminate Hop; cbn [apply_binop];
      (destruct (veq EQ_FUEL s a b); [exact I | reflexivity]).
  - assert (He : apply_binop s op a b = Some (binop_pure op a b))
      by (destruct op; try discriminate Hop; reflexivity).
    rewrite He. clear He.
    destruct a; destruct op; try discriminate Hop; cbn [binop_pure]; auto;
      destruct b; cbn [binop_pure]; auto.
Qed.
Print Assumptions ops_total.

(* a binary operator other than ==/!= succeeds exactly on two numbers, or for + on two strings *)
Theorem binop_value_iff : forall op a b, is_eq_op op = false ->
  ((exists v, binop_pure op a b = OpVal v) <->
   ((exists x y, a = VNum x /\ b = VNum y) \/ (op = BAdd /\ exists x y, a = VStr x /\ b = VStr y))).
Proof.
  intros op a b Hop; split.
  - intros [v Hv]. destruct a; destruct op; try discriminate Hop; cbn [binop_pure] in Hv;
      try discriminate Hv; destruct b; try discriminate Hv; try (left; eauto; fail);
      right; split; eauto.
  - intros [[x [y [-> ->]]] | [-> [x [y [-> ->]]]]].
    + destruct op; try discriminate Hop; cbn; eauto.
    + cbn; eauto.
Qed.

Theorem unop_total : forall op v,
  match apply_unop op v with
  | OpVal _ => True
  | OpErr k m => k = ETypeError /\ m = MSG_UNARY_NUMBER /\ op <> UNot /\ (forall x, v <> VNum x)
  end.
Proof.
  intros op v. destruct op; cbn; auto; destruct v; cbn; auto;
    repeat split; try discriminate; intros; discriminate.
Qed.
Print Assumptions unop_total.

(* `a..b` fails only with TypeError (not a number) or ValueError (not integral) *)
Theorem range_total : forall s a b,
  match build_range s a b with
  | NVal _ (VRange _ _ _) => True
  | NVal _ _ => False
  | NErr _ k _ => k = ETypeError \/ k = EValueError
  | NFuel => False
  end.
Proof.
  intros s a b. unfold build_range, with_shown, validate_integer.
  destruct (idx_of_value b); cbn; auto; destruct (idx_of_value a); cbn; auto.
  unfold mk_range. destruct (rcache_find z0 z (s_rcache s)); cbn; auto.
Qed.
Print Assumptions range_total.

(* ------------------------------------------------------------------ *)
(* equality                                                             *)
Lemma byte_eqb_refl : forall x, Byte.eqb x x = true.
Proof. intros x. apply Byte.byte_dec_lb. reflexivity. Qed.

Lemma byte_eqb_sym : forall x y, Byte.eqb x y = Byte.eqb y x.
Proof.
  intros x y. destruct (Byte.eqb x y) eqn:E.
  - apply Byte.byte_dec_bl in E. subst. symmetry. apply byte_eqb_refl.
  - destruct (Byte.eqb y x) eqn:E'; [|reflexivity].
    apply Byte.byte_dec_bl in E'. subst. rewrite byte_eqb_refl in E. discriminate.
Qed.

Lemma bytes_eqb_refl : forall l, bytes_eqb l l = true.
Proof. induction l as [|x l IH]; cbn; [reflexivity|]. rewrite byte_eqb_refl, IH. reflexivity. Qed.

Lemma bytes_eqb_sym : forall a b, bytes_eqb a b = bytes_eqb b a.
Proof.
  induction a as [|x a IH]; intros [|y b]; cbn; try reflexivity.
  rewrite byte_eqb_sym, IH. reflexivity.
Qed.

Lemma bytes_eqb_eq : forall a b, bytes_eqb a b = true <-> a = b.
Proof.
  induction a as [|x a IH]; intros [|y b]; cbn; split; intros H; try discriminate; try reflexivity.
  - apply andb_true_iff in H. destruct H as [H1 H2]. apply Byte.byte_dec_bl in H1.
    apply IH in H2. subst. reflexivity.
  - inversion H; subst. rewrite byte_eqb_refl. cbn. apply IH. reflexivity.
Qed.

Lemma feqb_sym : forall x y, feqb x y = feqb y x.
Proof.
  intros [s1|s1| |s1 m1 e1] [s2|s2| |s2 m2 e2]; unfold feqb, SFeqb, SFcompare;
    try reflexivity; try (destruct s1; reflexivity); try (destruct s2; reflexivity);
    try (destruct s1, s2; reflexivity).
  destruct s1, s2; try reflexivity.
  - rewrite (Z.compare_antisym e1 e2). destruct (e1 ?= e2)%Z; cbn; try reflexivity.
    change (Pos.compare_cont Eq m1 m2) with (Pos.compare m1 m2).
    change (Pos.compare_cont Eq m2 m1) with (Pos.compare m2 m1).
    rewrite (Pos.compare_antisym m1 m2). destruct (m1 ?= m2)%positive; reflexivity.
  - rewrite (Z.compare_antisym e1 e2). destruct (e1 ?= e2)%Z; cbn; try reflexivity.
    change (Pos.compare_cont Eq m1 m2) with (Pos.compare m1 m2).
    change (Pos.compare_cont Eq m2 m1) with (Pos.compare m2 m1).
    rewrite (Pos.compare_antisym m1 m2). destruct (m1 ?= m2)%positive; reflexivity.
Qed.

(* induction over values with the nested list of tuple elements *)
Lemma value_ind2 : forall P : value -> Prop,
  (forall v, match v with VTuple _ _ => False | _ => True end -> P v) ->
  (forall id es, Forall P es -> P (VTuple id es)) ->
  forall v, P v.
Proof.
  intros P H1 H2. fix IH 1. intros v. destruct v; try (apply H1; exact I).
  apply H2. revert es. fix IHl 1. intros [|x r]; constructor; [apply IH | apply IHl].
Qed.

Fixpoint forall2b {A} (f : A -> A -> bool) (l m : list A) : bool :=
  match l, m with
  | [], [] => true
  | x :: l', y :: m' => f x y && forall2b f l' m'
  | _, _ => false
  end.

Lemma key_eqb_tuple : forall i xs j ys,
  key_eqb (VTuple i xs) (VTuple j ys) = Pos.eqb i j || forall2b key_eqb xs ys.
Proof.
  intros i xs j ys. cbn [key_eqb]. f_equal.
  revert ys. induction xs as [|x xs IH]; intros [|y ys]; cbn; try reflexivity.
  rewrite IH. reflexivity.
Qed.

(* == restricted to hashable kinds is symmetric (for ALL values, hashable or not) *)
Theorem key_eqb_sym : forall a b, key_eqb a b = key_eqb b a.
Proof.
  intros a. induction a as [a Ha | i xs IH] using value_ind2; intros b.
  - destruct a; try contradiction; destruct b; cbn; try reflexivity.
    + destruct b, b0; reflexivity.
    + apply feqb_sym.
    + apply bytes_eqb_sym.
    + apply Pos.eqb_sym.
    + apply Pos.eqb_sym.
  - destruct b; try reflexivity.
    rewrite !key_eqb_tuple. rewrite (Pos.eqb_sym i id). f_equal.
    revert es. induction IH as [|x xs Hx Hxs IHl]; intros [|y ys]; cbn; try reflexivity.
    rewrite Hx, IHl. reflexivity.
Qed.
Print Assumptions key_eqb_sym.

Definition non_nan (v : value) : bool :=
  match v with VNum x => feqb x x | _ => true end.

(* == is reflexive on every hashable value except NaN (a tuple is == to itself by the identity
   shortcut even if it contains NaN, as in the real implementation) *)
Theorem key_eqb_refl : forall v, has_hash v = true -> non_nan v = true -> key_eqb v v = true.
Proof.
  intros v Hh Hn. destruct v; cbn in *; try discriminate; try reflexivity.
  - destruct b; reflexivity.
  - exact Hn.
  - apply bytes_eqb_refl.
  - rewrite Pos.eqb_refl. reflexivity.
  - apply Pos.eqb_refl.
  - apply Pos.eqb_refl.
Qed.

Theorem veq_refl_hashable : forall f s v, has_hash v = true -> non_nan v = true ->
  veq (S f) s v v = Some true.
Proof.
  intros f s v Hh Hn. destruct v; cbn in *; try discriminate; try reflexivity.
  - destruct b; reflexivity.
  - rewrite Hn. reflexivity.
  - rewrite bytes_eqb_refl. reflexivity.
  - rewrite Pos.eqb_refl. reflexivity.
  - rewrite Pos.eqb_refl. reflexivity.
  - rewrite Pos.eqb_refl. reflexivity.
Qed.
Print Assumptions veq_refl_hashable.

(* the general == agrees with the heap-free one on hashable values whenever it answers *)
Theorem veq_key_eqb : forall f s a b, has_hash a = true -> has_hash b = true ->
  forall r, veq f s a b = Some r -> r = key_eqb a b.
Proof.
  induction f as [|f IH]; intros s a b Ha Hb r H; [discriminate|].
  destruct a; cbn in Ha; try discriminate; destruct b; cbn in Hb; try discriminate;
    cbn in H; try (inversion H; reflexivity).
  (* tuples *)
  rewrite key_eqb_tuple.
  destruct (Pos.eqb id id0); [inversion H; reflexivity|]. cbn [orb].
  destruct (Nat.eqb (List.length es) (List.length es0)) eqn:El.
  - revert es0 Hb El H. induction es as [|x xs IHx]; intros [|y ys] Hb El H; cbn in *;
      try discriminate; try (inversion H; reflexivity).
    apply andb_true_iff in Ha. destruct Ha as [Hx Hxs].
    apply andb_true_iff in Hb. destruct Hb as [Hy Hys].
    destruct (veq f s x y) as [[|]|] eqn:Exy; try discriminate.
    + rewrite <- (IH s x y Hx Hy true Exy). cbn. apply IHx; assumption.
    + rewrite <- (IH s x y Hx Hy false Exy). inversion H. reflexivity.
  - inversion H. subst. symmetry.
    clear - El. revert es0 El. induction es as [|x xs IHx]; intros [|y ys] El; cbn in *;
      try reflexivity; try discriminate.
    rewrite (IHx ys El). apply andb_false_r.
Qed.
Print Assumptions veq_key_eqb.

Corollary veq_sym_hashable : forall f s a b ra rb, has_hash a = true -> has_hash b = true ->
  veq f s a b = Some ra -> veq f s b a = Some rb -> ra = rb.
Proof.
  intros f s a b ra rb Ha Hb H1 H2.
  rewrite (veq_key_eqb f s a b Ha Hb ra H1), (veq_key_eqb f s b a Hb Ha rb H2).
  apply key_eqb_sym.
Qed.

Example veq_examples :
  veq 10 empty_store (VTuple 1%positive [VNum f64_nan]) (VTuple 1%positive [VNum f64_nan]) = Some true /\
  veq 10 empty_store (VTuple 1%positive [VNum f64_nan]) (VTuple 2%positive [VNum f64_nan]) = Some false /\
  veq 10 empty_store (VNum f64_zero) (VNum f64_neg_zero) = Some true /\
  key_eqb (VNum f64_zero) (VNum f64_neg_zero) = true.
Proof. vm_compute. repeat split. Qed.

(* ------------------------------------------------------------------ *)
(* HashMap as an association list under ==                              *)
Lemma map_replace_none : forall k v l, map_replace k v l = None -> map_lookup k l = None.
Proof.
  intros k v. induction l as [|[k' w] l IH]; cbn; intros H; [reflexivity|].
  destruct (key_eqb k' k); [discriminate|].
  destruct (map_replace k v l) as [[r o]|]; [discriminate|]. apply IH. reflexivity.
Qed.

Lemma map_lookup_app_none : forall k l m, map_lookup k l = None -> map_lookup k (l ++ m) = map_lookup k m.
Proof.
  intros k. induction l as [|[k' w] l IH]; cbn; intros m H; [reflexivity|].
  destruct (key_eqb k' k); [discriminate|]. apply IH. exact H.
Qed.

(* get after insert returns the inserted value (for keys that are == to themselves, i.e. not NaN) *)
Theorem map_get_after_insert : forall k v l, key_eqb k k = true ->
  map_lookup k (fst (map_insert k v l)) = Some v.
Proof.
  intros k v l Hk. unfold map_insert.
  destruct (map_replace k v l) as [[l' old]|] eqn:E; cbn.
  - revert l' old E. induction l as [|[k' w] l IH]; intros l' old E; cbn in E; [discriminate|].
    destruct (key_eqb k' k) eqn:Ek.
    + inversion E; subst. cbn. rewrite Ek. reflexivity.
    + destruct (map_replace k v l) as [[r' o]|] eqn:E'; [|discriminate].
      inversion E; subst. cbn. rewrite Ek. eapply IH. reflexivity.
  - rewrite map_lookup_app_none by (eapply map_replace_none; exact E).
    cbn. rewrite Hk. reflexivity.
Qed.
Print Assumptions map_get_after_insert.

(* insert reports the previous value of the key (nil if there was none) *)
Theorem map_insert_old : forall k v l,
  snd (map_insert k v l) = match map_lookup k l with Some w => w | None => VNil end.
Proof.
  intros k v l. unfold map_insert.
  destruct (map_replace k v l) as [[l' old]|] eqn:E; cbn.
  - revert l' old E. induction l as [|[k' w] l IH]; intros l' old E; cbn in E; [discriminate|].
    cbn. destruct (key_eqb k' k) eqn:Ek.
    + inversion E; subst. reflexivity.
    + destruct (map_replace k v l) as [[r' o]|] eqn:E'; [|discriminate].
      inversion E; subst. eapply IH. reflexivity.
  - rewrite (map_replace_none _ _ _ E). reflexivity.
Qed.

(* ------------------------------------------------------------------ *)
(* the machine                                                          *)
Theorem step_deterministic : forall st r1 r2, step st = r1 -> step st = r2 -> r1 = r2.
Proof. intros st r1 r2 H1 H2. congruence. Qed.

Definition is_more (r : rres) : bool := match r with RMore _ => true | _ => false end.

(* a result reached with some fuel is the result for every larger fuel *)
Theorem run_fuel_monotone : forall n st o, run n st = o -> is_more o = false ->
  forall m, n <= m -> run m st = o.
Proof.
  induction n as [|n IH]; intros st o H Ho m Hm.
  - cbn in H. subst. discriminate.
  - destruct m as [|m]; [lia|]. cbn in *. destruct (step st); try assumption.
    apply IH; [assumption | assumption | lia].
Qed.
Print Assumptions run_fuel_monotone.

Lemma run_add : forall a b st,
  run (a + b) st = match run a st with RMore st' => run b st' | r => r end.
Proof.
  induction a as [|a IH]; intros b st; cbn; [reflexivity|].
  destruct (step st); try reflexivity. apply IH.
Qed.

(* run_blocks n = run (1000 * n): the entry points count fuel in blocks of 1000 steps *)
Theorem run_blocks_run : forall n st, run_blocks n st = run (n * 1000) st.
Proof.
  induction n as [|n IH]; intros st; [reflexivity|].
  change (S n * 1000) with (1000 + n * 1000). rewrite run_add.
  cbn [run_blocks]. destruct (run 1000 st); try reflexivity. apply IH.
Qed.

Corollary run_blocks_monotone : forall n st o, run_blocks n st = o -> is_more o = false ->
  forall m, n <= m -> run_blocks m st = o.
Proof.
  intros n st o H Ho m Hm. rewrite run_blocks_run in *.
  eapply run_fuel_monotone; [exact H | exact Ho | nia].
Qed.
Print Assumptions run_blocks_monotone.

(* hypotheses of run_fuel_monotone are satisfiable: a concrete terminating run *)
Example run_fuel_monotone_ex :
  let st := mkState (CVal VNil) [KReturn] empty_store 0%N xH O xH [] [] in
  exists o, run 3 st = o /\ is_more o = false.
Proof. eexists. split; [vm_compute; reflexivity | reflexivity]. Qed.

(* ---------- exceptions / finally: the characteristic transitions ---------- *)
(* an exception is delivered to the innermost try of the running fiber that is still on the
   continuation, with the catch variable bound in the handler's own environment *)
Theorem throw_reaches_innermost_handler : forall st v x body fin en k l m d,
  st_ctl st = CThrow v ->
  unwind_throw (st_kont st) (st_line st) (st_mod st) (st_depth st)
    = Some (KTry (Some (x, body)) fin en, k, l, m, d) ->
  exists st' c, step st = SNext st' /\
    st_ctl st' = CStmts body ((x, c) :: en) false /\
    get_cell (st_store st') c = v /\
    st_kont st' = match fin with Some fb => KCatch fb en :: k | None => k end /\
    st_depth st' = d /\ st_mod st' = m.
Proof.
  intros st v x body fin en k l m d Hc Hu. unfold step. rewrite Hc. unfold step_throw. rewrite Hu.
  destruct (alloc_cell (st_store (w_regs st k l m d)) v) as [s1 c] eqn:Ea.
  unfold alloc_cell in Ea. inversion Ea; subst s1 c. clear Ea.
  eexists. eexists. split; [reflexivity|]. cbn.
  repeat split. unfold get_cell. cbn. rewrite PM.gss. reflexivity.
Qed.
Print Assumptions throw_reaches_innermost_handler.

(* with no handler left on the running fiber's continuation the run ends with an error *)
Theorem throw_without_handler_ends_run : forall st v,
  st_ctl st = CThrow v ->
  unwind_throw (st_kont st) (st_line st) (st_mod st) (st_depth st) = None ->
  step st = uncaught st v.
Proof. intros st v Hc Hu. unfold step. rewrite Hc. unfold step_throw. rewrite Hu. reflexivity. Qed.

(* a handler is found exactly when a try block (or a catch block owning a finally) is still on the
   continuation: frames of try statements that were left are gone *)
Fixpoint has_handler (k : list frame) : bool :=
  match k with
  | [] => false
  | KTry _ _ _ :: _ => true
  | KCatch _ _ :: _ => true
  | _ :: k' => has_handler k'
  end.

Theorem handler_iff_active_try : forall k l m d,
  (exists r, unwind_throw k l m d = Some r) <-> has_handler k = true.
Proof.
  induction k as [|f k IH]; intros l m d; cbn.
  - split; [intros [r H]; discriminate | discriminate].
  - destruct f; cbn; try apply IH; split; eauto.
Qed.

(* break / continue / return that leave a try with a finally clause run that clause first,
   remembering what they were doing *)
Theorem return_runs_finally : forall st v c fb en k,
  st_ctl st = CReturn v ->
  unwind_ret (st_kont st) = Some (KTry c (Some fb) en, k) ->
  exists st', step st = SNext st' /\ st_ctl st' = CStmts fb en false /\
              st_kont st' = KFinally (PReturn v) (st_line st) :: k.
Proof.
  intros st v c fb en k Hc Hu. unfold step. rewrite Hc. unfold step_return. rewrite Hu.
  eexists. split; [reflexivity|]. split; reflexivity.
Qed.

Theorem break_runs_finally : forall st c fb en k,
  st_ctl st = CBreak ->
  unwind_loop (st_kont st) = Some (KTry c (Some fb) en, k) ->
  exists st', step st = SNext st' /\ st_ctl st' = CStmts fb en false /\
              st_kont st' = KFinally PBreak (st_line st) :: k.
Proof.
  intros st c fb en k Hc Hu. unfold step. rewrite Hc. unfold step_loop_signal. rewrite Hu.
  eexists. split; [reflexivity|]. split; reflexivity.
Qed.

(* when the finally block has completed, the remembered outcome continues *)
Theorem finally_resumes_pending : forall st v p l k,
  st_ctl st = CVal v -> st_kont st = KFinally p l :: k ->
  exists st', step st = SNext st' /\ st_kont st' = k /\
    st_ctl st' = match p with
                 | PNormal => CVal VNil | PThrow x => CThrow x | PBreak => CBreak
                 | PContinue => CContinue | PReturn x => CReturn x
                 end.
Proof.
  intros st v p l k Hc Hk. unfold step. rewrite Hc, Hk. cbn.
  destruct p; eexists; (split; [reflexivity|]); split; reflexivity.
Qed.
Print Assumptions finally_resumes_pending.
